#!/bin/sh
# MANIFEST.setup_cmd: build the framework from files on disk only (offline).
set -e
cd "$(dirname "$0")"
V="$(pwd)"
export GOFLAGS=-mod=mod GOPROXY=off GOSUMDB=off GOTOOLCHAIN=local
mkdir -p bin .work evidence replays
echo "== translation of the Go source (coq/Src/SrcWire.v follows /repo)"
python3 -c "import sys; sys.path.insert(0, 'lib'); import vcheck; print(vcheck.regen_src())"
echo "== Coq development (full .vo build)"
(cd coq && coq_makefile -f _CoqProject -o Makefile >/dev/null && timeout 3000 make -j16 2>&1 | tail -3)
echo "== extraction + model runner"
./model/build.sh
echo "== harness"
cat /repo/go.sum /repo/example/go.sum 2>/dev/null | sort -u > harness/go.sum
(cd harness && for c in cmd/*; do go build -tags verif -o ../bin/$(basename $c) ./$c; done)
echo "== base protoc plug-ins (from the module cache) and the plug-in under test (from /repo)"
(cd /repo && go build -o "$V"/bin/protoc-gen-go google.golang.org/protobuf/cmd/protoc-gen-go && go build -o "$V"/bin/protoc-gen-gogo github.com/gogo/protobuf/protoc-gen-gogo && go build -o "$V"/bin/protoc-gen-fastmarshal ./cmd/protoc-gen-fastmarshal)
echo "setup done"
