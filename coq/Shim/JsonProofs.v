(* Proofs about Shim/Json.v: the functional options and the runtime detection order. *)
From CsProto Require Import Prelude Dispatch Json.
Local Open Scope N_scope.

Lemma jbuild_snoc : forall xs x, jbuild (xs ++ [x]) = japply (jbuild xs) x.
Proof. intros xs x. unfold jbuild. rewrite fold_left_app. reflexivity. Qed.

Lemma options_effect : forall xs s b,
  j_indent (jbuild (xs ++ [JIndent s])) = s /\
  j_enum_numbers (jbuild (xs ++ [JEnumNumbers b])) = b /\
  j_emit_zero (jbuild (xs ++ [JZero b])) = b /\
  j_allow_unknown (jbuild (xs ++ [JUnknown b])) = b /\
  j_allow_partial (jbuild (xs ++ [JPartial b])) = b /\
  j_enum_numbers (jbuild (xs ++ [JIndent s])) = j_enum_numbers (jbuild xs) /\
  j_emit_zero (jbuild (xs ++ [JIndent s])) = j_emit_zero (jbuild xs) /\
  j_indent (jbuild (xs ++ [JEnumNumbers b])) = j_indent (jbuild xs) /\
  j_indent (jbuild (xs ++ [JZero b])) = j_indent (jbuild xs) /\
  j_enum_numbers (jbuild (xs ++ [JZero b])) = j_enum_numbers (jbuild xs) /\
  j_emit_zero (jbuild (xs ++ [JEnumNumbers b])) = j_emit_zero (jbuild xs).
Proof. intros xs s b. rewrite !jbuild_snoc. cbn. repeat split; reflexivity. Qed.

Lemma marshal_wiring : forall c o,
  (jc_nil c = true -> marshal_json c o = MNothing) /\
  (jc_nil c = false -> jc_json c = false -> jc_v2 c = true -> marshal_json c o = MV2 (j_indent o) (j_enum_numbers o) (j_emit_zero o)) /\
  (jc_nil c = false -> jc_json c = false -> jc_v2 c = false -> jc_v1 c = true -> marshal_json c o = MV1 (j_indent o) (j_enum_numbers o) (j_emit_zero o)) /\
  (marshal_json c o = MUnsupported <-> jc_nil c = false /\ jc_json c = false /\ jc_v2 c = false /\ jc_v1 c = false /\ jc_gogo c = false).
Proof.
  intros c o. unfold marshal_json.
  destruct (jc_nil c), (jc_json c), (jc_v2 c), (jc_v1 c), (jc_gogo c); intuition congruence.
Qed.

Lemma unmarshal_wiring : forall c o,
  (jc_nil c = true -> unmarshal_json c o = UNilError) /\
  (jc_nil c = false -> jc_json c = false -> jc_v2 c = true -> unmarshal_json c o = UV2 (j_allow_partial o) (j_allow_unknown o)) /\
  (jc_nil c = false -> jc_json c = false -> jc_v2 c = false -> jc_v1 c = true -> unmarshal_json c o = UV1 (j_allow_unknown o)) /\
  (unmarshal_json c o = UUnsupported <-> jc_nil c = false /\ jc_json c = false /\ jc_v2 c = false /\ jc_v1 c = false /\ jc_gogo c = false).
Proof.
  intros c o. unfold unmarshal_json.
  destruct (jc_nil c), (jc_json c), (jc_v2 c), (jc_v1 c), (jc_gogo c); intuition congruence.
Qed.

Lemma gogo_arm_unreachable : forall c o, jc_gogo c = true -> jc_v1 c = true ->
  (forall i e z, marshal_json c o <> MGogo i e z) /\ (forall u, unmarshal_json c o <> UGogo u).
Proof.
  intros c o Hg H1. unfold marshal_json, unmarshal_json. rewrite H1.
  destruct (jc_nil c), (jc_json c), (jc_v2 c); split; intros; discriminate.
Qed.
