(* json.go: the JSON adapters' runtime detection order and how the functional options are wired into
   the three runtimes' option structs.  The encoders/decoders themselves are oracles.  Definitions only. *)
From CsProto Require Import Prelude Dispatch.
Local Open Scope N_scope.

Record jopts := { j_indent : list N; j_enum_numbers : bool; j_emit_zero : bool; j_allow_unknown : bool; j_allow_partial : bool }.
Definition jdefault : jopts := {| j_indent := []; j_enum_numbers := false; j_emit_zero := false; j_allow_unknown := false; j_allow_partial := false |}.
Inductive jopt := JIndent (s : list N) | JEnumNumbers (b : bool) | JZero (b : bool) | JUnknown (b : bool) | JPartial (b : bool).
Definition japply (o : jopts) (x : jopt) : jopts :=
  match x with
  | JIndent s => {| j_indent := s; j_enum_numbers := j_enum_numbers o; j_emit_zero := j_emit_zero o; j_allow_unknown := j_allow_unknown o; j_allow_partial := j_allow_partial o |}
  | JEnumNumbers b => {| j_indent := j_indent o; j_enum_numbers := b; j_emit_zero := j_emit_zero o; j_allow_unknown := j_allow_unknown o; j_allow_partial := j_allow_partial o |}
  | JZero b => {| j_indent := j_indent o; j_enum_numbers := j_enum_numbers o; j_emit_zero := b; j_allow_unknown := j_allow_unknown o; j_allow_partial := j_allow_partial o |}
  | JUnknown b => {| j_indent := j_indent o; j_enum_numbers := j_enum_numbers o; j_emit_zero := j_emit_zero o; j_allow_unknown := b; j_allow_partial := j_allow_partial o |}
  | JPartial b => {| j_indent := j_indent o; j_enum_numbers := j_enum_numbers o; j_emit_zero := j_emit_zero o; j_allow_unknown := j_allow_unknown o; j_allow_partial := b |}
  end.
Definition jbuild (xs : list jopt) : jopts := fold_left japply xs jdefault.

(* what the wrapped value can do, for the JSON adapters *)
Record jcaps := { jc_nil : bool;        (* nil interface, or a typed nil pointer *)
                  jc_json : bool;       (* json.Marshaler / json.Unmarshaler of its own *)
                  jc_v2 : bool; jc_v1 : bool; jc_gogo : bool }.

Inductive jmarshal :=
| MNothing                                                   (* (nil, nil) *)
| MOwn
| MV2 (indent : list N) (use_enum_numbers emit_unpopulated : bool)      (* protojson.MarshalOptions *)
| MV1 (indent : list N) (enums_as_ints emit_defaults : bool)            (* golang jsonpb.Marshaler *)
| MGogo (indent : list N) (enums_as_ints emit_defaults : bool)          (* gogo jsonpb.Marshaler *)
| MUnsupported.
Definition marshal_json (c : jcaps) (o : jopts) : jmarshal :=
  if jc_nil c then MNothing
  else if jc_json c then MOwn
  else if jc_v2 c then MV2 (j_indent o) (j_enum_numbers o) (j_emit_zero o)
  else if jc_v1 c then MV1 (j_indent o) (j_enum_numbers o) (j_emit_zero o)
  else if jc_gogo c then MGogo (j_indent o) (j_enum_numbers o) (j_emit_zero o)
  else MUnsupported.

Inductive junmarshal :=
| UNilError
| UOwn
| UV2 (allow_partial discard_unknown : bool)                  (* protojson.UnmarshalOptions *)
| UV1 (allow_unknown : bool)
| UGogo (allow_unknown : bool)
| UUnsupported.
Definition unmarshal_json (c : jcaps) (o : jopts) : junmarshal :=
  if jc_nil c then UNilError
  else if jc_json c then UOwn
  else if jc_v2 c then UV2 (j_allow_partial o) (j_allow_unknown o)
  else if jc_v1 c then UV1 (j_allow_unknown o)
  else if jc_gogo c then UGogo (j_allow_unknown o)
  else UUnsupported.
