(* The runtime-agnostic API (marshal.go sizeof.go message_types.go clone.go equal.go reset.go
   marshal_text.go grpc_codec.go) as decision tables over what a Go value can do: which interfaces
   it satisfies, its reflect kind, whether gogo knows its name.  The three runtimes themselves are
   parameters (oracles in the correspondence); what is modelled is which of them each call reaches,
   and that no type assertion on the way can fail.  Definitions only. *)
From CsProto Require Import Prelude.

Record caps := {
  c_nil : bool;            (* the untyped nil interface value *)
  c_ptr : bool;            (* reflect.TypeOf(v).Kind() == reflect.Ptr *)
  c_v2 : bool;             (* implements google.golang.org/protobuf/proto.Message *)
  c_v1 : bool;             (* implements Reset/String/ProtoMessage: golang/protobuf v1 Message == gogo Message *)
  c_gogo_reg : bool;       (* gogo/protobuf/proto.MessageName(v) != "" *)
  c_sizer : bool;          (* csproto.Sizer *)
  c_marshaler : bool;      (* csproto.Marshaler *)
  c_unmarshaler : bool;    (* csproto.Unmarshaler *)
  c_xxx_marshal : bool;    (* ProtoV1Marshaler: XXX_Size + XXX_Marshal *)
  c_xxx_size : bool;       (* ProtoV1Sizer *)
  c_xxx_unmarshal : bool;  (* ProtoV1Unmarshaler *)
  c_text : bool;           (* encoding.TextMarshaler *)
  c_reset : bool           (* has a Reset() method *)
}.

Inductive mtype := TUnknown | TGogo | TGoogleV1 | TGoogle.
Definition mtype_eqb (a b : mtype) : bool :=
  match a, b with TUnknown, TUnknown | TGogo, TGogo | TGoogleV1, TGoogleV1 | TGoogle, TGoogle => true | _, _ => false end.

(* deduceMsgType, with the nil guard of MsgType *)
Definition deduce (c : caps) : mtype :=
  if c_nil c then TUnknown
  else if c_v2 c then TGoogle
  else if negb (c_ptr c) then TUnknown
  else if c_v1 c then (if c_gogo_reg c then TGogo else TGoogleV1)
  else TUnknown.
(* the classification as it was on the pinned tree: every other pointer is "Google V1" *)
Definition deduce_pinned (c : caps) : mtype :=
  if c_v2 c then TGoogle
  else if negb (c_ptr c) then TUnknown
  else if c_v1 c && c_gogo_reg c then TGogo
  else TGoogleV1.

(* what a call does *)
Inductive action :=
| AOwn                     (* the message's own csproto method (fast path) *)
| AXXX                     (* the message's XXX_ v1 method *)
| ARuntime (rt : mtype)    (* the owning runtime's function, after a type assertion to its message interface *)
| AErr                     (* the documented error *)
| AZero                    (* the documented zero result: 0 / nil / false *)
| ADocPanic                (* Reset's documented panic *)
| ABadAssert.              (* a failing type assertion: an undocumented panic *)

(* m.(X) inside a switch arm for runtime rt *)
Definition assert_rt (c : caps) (rt : mtype) : action :=
  match rt with
  | TGoogle => if c_v2 c then ARuntime TGoogle else ABadAssert
  | TGoogleV1 => if c_v1 c then ARuntime TGoogleV1 else ABadAssert
  | TGogo => if c_v1 c then ARuntime TGogo else ABadAssert
  | TUnknown => AZero
  end.

Section WithDeduce.
Variable ded : caps -> mtype.

Definition marshal_action (c : caps) : action :=
  if c_marshaler c then AOwn else if c_xxx_marshal c then AXXX else if c_v2 c then ARuntime TGoogle else AErr.
Definition unmarshal_action (c : caps) : action :=
  if c_unmarshaler c then AOwn else if c_xxx_unmarshal c then AXXX else if c_v2 c then ARuntime TGoogle else AErr.
Definition size_action (c : caps) : action :=
  if c_sizer c then AOwn else if c_xxx_size c then AXXX else if c_v2 c then ARuntime TGoogle else AZero.
Definition clone_action (c : caps) : action := assert_rt c (ded c).
Definition equal_action (c1 c2 : caps) : action :=
  if negb (mtype_eqb (ded c1) (ded c2)) then AZero
  else match assert_rt c1 (ded c1), assert_rt c2 (ded c1) with
       | ABadAssert, _ | _, ABadAssert => ABadAssert
       | a, _ => a
       end.
Definition reset_action (c : caps) : action :=
  if c_reset c then AOwn
  else match ded c with TGoogle => assert_rt c TGoogle | _ => ADocPanic end.
Definition text_action (c : caps) : action :=
  if c_text c then AOwn
  else match ded c with TUnknown => AErr | rt => assert_rt c rt end.
Definition range_ext_action (c : caps) : action :=
  match ded c with TUnknown => AErr | rt => assert_rt c rt end.
End WithDeduce.

(* ---------- the type cache: MsgType = Load; on a miss deduce and Store ---------- *)
Inductive tstep := TLoad (g : nat) | TStore (g : nat).       (* goroutine g's next atomic step *)
Record tstate := { cache : option mtype; pending : list (nat * mtype); results : list (nat * mtype) }.
(* a goroutine that missed holds its computed value in [pending] until it stores it *)
Definition cstep (c : caps) (s : tstate) (st : tstep) : tstate :=
  match st with
  | TLoad g =>
      match cache s with
      | Some t => {| cache := cache s; pending := pending s; results := (g, t) :: results s |}
      | None => {| cache := None; pending := (g, deduce c) :: pending s; results := results s |}
      end
  | TStore g =>
      match find (fun p => Nat.eqb (fst p) g) (pending s) with
      | Some (_, t) => {| cache := Some t;
                          pending := filter (fun p => negb (Nat.eqb (fst p) g)) (pending s);
                          results := (g, t) :: results s |}
      | None => s
      end
  end.
Definition crun (c : caps) (sched : list tstep) : tstate :=
  fold_left (cstep c) sched {| cache := None; pending := []; results := [] |}.

(* every capability record (2^13) *)
Definition bools := [false; true].
Definition all_caps : list caps :=
  flat_map (fun a => flat_map (fun b => flat_map (fun c => flat_map (fun d => flat_map (fun e => flat_map (fun f =>
  flat_map (fun g => flat_map (fun h => flat_map (fun i => flat_map (fun j => flat_map (fun k => flat_map (fun l =>
  map (fun m => Build_caps a b c d e f g h i j k l m) bools) bools) bools) bools) bools) bools) bools) bools) bools) bools) bools) bools) bools.
