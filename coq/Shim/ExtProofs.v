(* Proofs about Shim/Ext.v: the extension accessors in front of a finite map. *)
From CsProto Require Import Prelude Dispatch Ext.
Local Open Scope N_scope.

(* ---------- the finite map ---------- *)
Lemma em_get_clear_same : forall n m, em_get n (em_clear n m) = None.
Proof.
  intros n m. induction m as [|[k v] r IH]; cbn; [reflexivity|].
  destruct (k =? n) eqn:E; cbn; [exact IH|]. rewrite E. exact IH.
Qed.

Lemma em_get_clear_other : forall k n m, k <> n -> em_get k (em_clear n m) = em_get k m.
Proof.
  intros k n m H. induction m as [|[k0 v] r IH]; cbn; [reflexivity|].
  destruct (k0 =? n) eqn:E; cbn.
  - apply N.eqb_eq in E. subst k0. destruct (n =? k) eqn:E2; [apply N.eqb_eq in E2; congruence|exact IH].
  - destruct (k0 =? k); [reflexivity|exact IH].
Qed.

Lemma em_clear_not_in : forall n m, ~ In n (map fst (em_clear n m)).
Proof.
  intros n m H. apply in_map_iff in H. destruct H as [[k v] [Hk Hin]]. cbn in Hk. subst k.
  unfold em_clear in Hin. apply filter_In in Hin. destruct Hin as [_ Hf]. rewrite N.eqb_refl in Hf. discriminate.
Qed.

Lemma em_has_in : forall n m, In n (map fst m) <-> em_has n m = true.
Proof.
  intros n m. unfold em_has. induction m as [|[k v] r IH]; cbn.
  - split; [tauto|discriminate].
  - destruct (k =? n) eqn:E.
    + apply N.eqb_eq in E. split; auto.
    + apply N.eqb_neq in E. rewrite <- IH. tauto.
Qed.

Lemma desc_accepted_known : forall rt fl, desc_accepted rt fl = true -> rt <> TUnknown.
Proof. intros [] fl H; cbn in H; congruence. Qed.

(* ---------- the calls ---------- *)
Lemma step_set : forall rt fl m n v, rt <> TUnknown -> desc_accepted rt fl = true ->
  ext_step rt m (XSet fl n v) = (ONone, em_set n v m).
Proof. intros rt fl m n v Hrt Hd. destruct rt; [congruence|..]; destruct fl; cbn in Hd |- *; congruence. Qed.
Lemma step_get : forall rt fl m n, rt <> TUnknown -> desc_accepted rt fl = true ->
  ext_step rt m (XGet fl n) = (OVal (em_get n m), m).
Proof. intros rt fl m n Hrt Hd. destruct rt; [congruence|..]; destruct fl; cbn in Hd |- *; congruence. Qed.
Lemma step_has : forall rt fl m n, desc_accepted rt fl = true ->
  ext_step rt m (XHas fl n) = (OBool (em_has n m), m).
Proof. intros rt fl m n Hd. cbn. rewrite Hd. reflexivity. Qed.
Lemma step_clear : forall rt fl m n, desc_accepted rt fl = true ->
  ext_step rt m (XClear fl n) = (ONone, em_clear n m).
Proof. intros rt fl m n Hd. cbn. rewrite Hd. reflexivity. Qed.

Lemma set_get_has : forall rt fl m n v,
  rt <> TUnknown -> desc_accepted rt fl = true ->
  let m1 := snd (ext_step rt m (XSet fl n v)) in
  fst (ext_step rt m (XSet fl n v)) = ONone /\
  fst (ext_step rt m1 (XHas fl n)) = OBool true /\ fst (ext_step rt m1 (XGet fl n)) = OVal (Some v) /\
  (forall k, k <> n -> em_get k m1 = em_get k m).
Proof.
  intros rt fl m n v Hrt Hd m1. subst m1.
  rewrite (step_set rt fl m n v Hrt Hd). cbn [fst snd].
  rewrite (step_has rt fl _ n Hd), (step_get rt fl _ n Hrt Hd). cbn [fst snd].
  assert (Hg : em_get n (em_set n v m) = Some v) by (unfold em_set; cbn; rewrite N.eqb_refl; reflexivity).
  unfold em_has. rewrite Hg.
  split; [reflexivity|]. split; [reflexivity|]. split; [reflexivity|].
  intros k Hk. unfold em_set. cbn. destruct (n =? k) eqn:E; [apply N.eqb_eq in E; congruence|].
  apply em_get_clear_other, Hk.
Qed.

Lemma clear_spec : forall rt fl m n,
  desc_accepted rt fl = true ->
  let m1 := snd (ext_step rt m (XClear fl n)) in
  fst (ext_step rt m1 (XHas fl n)) = OBool false /\ ~ In n (map fst m1) /\ (forall k, k <> n -> em_get k m1 = em_get k m).
Proof.
  intros rt fl m n Hd m1. subst m1. rewrite (step_clear rt fl m n Hd). cbn [fst snd].
  rewrite (step_has rt fl _ n Hd). cbn [fst snd].
  split; [|split].
  - unfold em_has. rewrite em_get_clear_same. reflexivity.
  - apply em_clear_not_in.
  - intros k Hk. apply em_get_clear_other, Hk.
Qed.

Lemma clear_loop : forall (l acc : extmap),
  fold_left (fun acc '(k, _) => em_clear k acc) l acc =
  filter (fun '(k, _) => negb (existsb (N.eqb k) (map fst l))) acc.
Proof.
  induction l as [|[k0 v0] r IH]; intros acc; cbn.
  - induction acc as [|[k v] a IHa]; cbn; [reflexivity|]. f_equal. exact IHa.
  - rewrite IH. unfold em_clear.
    induction acc as [|[k v] a IHa]; cbn; [reflexivity|].
    destruct (k =? k0) eqn:E; cbn; [exact IHa|].
    destruct (existsb (N.eqb k) (map fst r)); cbn; [exact IHa|]. f_equal. exact IHa.
Qed.

Lemma clear_loop_self : forall m : extmap, fold_left (fun acc '(k, _) => em_clear k acc) m m = [].
Proof.
  intros m. rewrite clear_loop.
  assert (H : forall acc : extmap, incl (map fst acc) (map fst m) ->
              filter (fun '(k, _) => negb (existsb (N.eqb k) (map fst m))) acc = []).
  { induction acc as [|[k v] a IHa]; intros Hi; cbn; [reflexivity|].
    assert (Hk : existsb (N.eqb k) (map fst m) = true).
    { apply existsb_exists. exists k. split; [apply Hi; cbn; auto|apply N.eqb_refl]. }
    rewrite Hk. cbn. apply IHa. intros x Hx. apply Hi. cbn. auto. }
  apply H, incl_refl.
Qed.

Lemma clear_all_spec : forall rt m, rt <> TUnknown -> snd (ext_step rt m XClearAll) = [].
Proof.
  intros rt m Hrt. destruct rt; cbn; [congruence|reflexivity|reflexivity|apply clear_loop_self].
Qed.

Lemma range_spec : forall rt m n, rt <> TUnknown -> keys_nodup m = true ->
  match fst (ext_step rt m XRange) with ONums l => (In n l <-> em_has n m = true) | _ => False end.
Proof.
  intros rt m n Hrt _. destruct rt; cbn; [congruence|apply em_has_in..].
Qed.

Lemma number_spec : forall rt m fl n, fl <> DOther -> fst (ext_step rt m (XNumber fl n)) = ONum n.
Proof. intros rt m fl n H. destruct fl; cbn; congruence. Qed.

Lemma mismatch_is_inert : forall rt m op,
  (match op with
   | XSet fl _ _ | XGet fl _ | XHas fl _ | XClear fl _ => desc_accepted rt fl = false
   | _ => False end) ->
  snd (ext_step rt m op) = m /\
  match fst (ext_step rt m op) with OErr | OBool false | OPanicDoc => True | _ => False end.
Proof.
  intros rt m op H. destruct op; try contradiction; cbn; rewrite H; destruct rt; cbn; auto.
Qed.

(* ---------- histories ---------- *)
Lemma existsb_filter_false : forall (f g : N * Z -> bool) (l : extmap),
  existsb f l = false -> existsb f (filter g l) = false.
Proof.
  intros f g l. induction l as [|x r IH]; cbn; [reflexivity|].
  intros H. apply orb_false_iff in H. destruct H as [H1 H2].
  destruct (g x); cbn; [rewrite H1; cbn|]; apply IH, H2.
Qed.

Lemma keys_nodup_filter : forall (g : N * Z -> bool) (m : extmap),
  keys_nodup m = true -> keys_nodup (filter g m) = true.
Proof.
  intros g m. induction m as [|[k v] r IH]; cbn; [reflexivity|].
  intros H. apply andb_true_iff in H. destruct H as [H1 H2].
  destruct (g (k, v)); cbn; [|apply IH, H2].
  apply andb_true_iff. split; [|apply IH, H2].
  apply negb_true_iff. apply existsb_filter_false. apply negb_true_iff, H1.
Qed.

Lemma existsb_clear : forall n m, existsb (fun '(k2, _) => k2 =? n) (em_clear n m) = false.
Proof.
  intros n m. induction m as [|[k v] r IH]; cbn; [reflexivity|].
  destruct (k =? n) eqn:E; cbn; [exact IH|]. rewrite E. exact IH.
Qed.

Lemma keys_nodup_set : forall n v m, keys_nodup m = true -> keys_nodup (em_set n v m) = true.
Proof.
  intros n v m H. unfold em_set. cbn. rewrite existsb_clear. cbn.
  unfold em_clear. apply keys_nodup_filter, H.
Qed.

Lemma step_keeps_keys_distinct : forall rt m op, keys_nodup m = true -> keys_nodup (snd (ext_step rt m op)) = true.
Proof.
  intros rt m op H. destruct op as [fl n v|fl n|fl n|fl n| | |fl n].
  - destruct rt, fl; cbn [ext_step desc_accepted snd]; try exact H; apply keys_nodup_set, H.
  - destruct rt, fl; cbn [ext_step desc_accepted snd]; exact H.
  - destruct rt, fl; cbn [ext_step desc_accepted snd]; exact H.
  - destruct rt, fl; cbn [ext_step desc_accepted snd]; try exact H; unfold em_clear; apply keys_nodup_filter, H.
  - destruct rt; cbn [ext_step snd]; try exact H; try reflexivity. rewrite clear_loop_self. reflexivity.
  - destruct rt; cbn [ext_step snd]; exact H.
  - destruct fl; cbn [ext_step snd]; exact H.
Qed.

Lemma histories_keep_keys_distinct : forall rt ops m, keys_nodup m = true -> keys_nodup (snd (ext_run rt m ops)) = true.
Proof.
  intros rt ops. induction ops as [|op r IH]; intros m H; cbn; [exact H|].
  pose proof (step_keeps_keys_distinct rt m op H) as Hs.
  destruct (ext_step rt m op) as [o m1]. cbn in Hs.
  specialize (IH m1 Hs). destruct (ext_run rt m1 r) as [os m2]. cbn in *. exact IH.
Qed.
