(* extensions.go: the proto2 extension accessors as a type switch over the message's runtime and a type
   assertion on the extension descriptor, in front of the owning runtime's extension API.  Each
   runtime's API is specified as a finite map from extension number to value (that the three runtimes
   implement such a map is the assumption of this model, exercised by the correspondence).
   Definitions only. *)
From CsProto Require Import Prelude Dispatch.
Local Open Scope N_scope.

(* the Go type of the extension descriptor handed in *)
Inductive dflavour := DGogo | DGoogleV1 | DV2 | DOther.
(* the assertions of extensions.go: *gogo.ExtensionDesc / *google.ExtensionDesc / protoreflect.ExtensionType.
   A golang-v1 *ExtensionDesc (protoimpl.ExtensionInfo) also IS a protoreflect.ExtensionType. *)
Definition desc_accepted (rt : mtype) (fl : dflavour) : bool :=
  match rt, fl with
  | TGogo, DGogo => true
  | TGoogleV1, DGoogleV1 => true
  | TGoogle, (DV2 | DGoogleV1) => true
  | _, _ => false
  end.

(* the extensions set on a message: number -> value (values abstract: Z) *)
Definition extmap := list (N * Z).
Fixpoint em_get (n : N) (m : extmap) : option Z :=
  match m with [] => None | (k, v) :: r => if k =? n then Some v else em_get n r end.
Definition em_clear (n : N) (m : extmap) : extmap := filter (fun '(k, _) => negb (k =? n)) m.
Definition em_set (n : N) (v : Z) (m : extmap) : extmap := (n, v) :: em_clear n m.
Definition em_has (n : N) (m : extmap) : bool := match em_get n m with Some _ => true | None => false end.

Inductive eop :=
| XSet (fl : dflavour) (n : N) (v : Z)
| XGet (fl : dflavour) (n : N)
| XHas (fl : dflavour) (n : N)
| XClear (fl : dflavour) (n : N)
| XClearAll
| XRange
| XNumber (fl : dflavour) (n : N).

Inductive eobs :=
| ONone                      (* nil error / no result *)
| OErr                       (* an error value *)
| OBool (b : bool)
| OVal (v : option Z)        (* GetExtension: the value, None = the runtime's "not set" answer *)
| ONums (l : list N)         (* RangeExtensions: the numbers visited *)
| ONum (n : N)
| OPanicDoc.                 (* ClearExtension's documented panic on mismatching / unsupported arguments *)

(* one csproto call on a message of runtime rt holding extensions m *)
Definition ext_step (rt : mtype) (m : extmap) (op : eop) : eobs * extmap :=
  match op with
  | XSet fl n v =>
      match rt with
      | TUnknown => (OErr, m)
      | _ => if desc_accepted rt fl then (ONone, em_set n v m) else (OErr, m)
      end
  | XGet fl n =>
      match rt with
      | TUnknown => (OErr, m)
      | _ => if desc_accepted rt fl then (OVal (em_get n m), m) else (OErr, m)
      end
  | XHas fl n => if desc_accepted rt fl then (OBool (em_has n m), m) else (OBool false, m)
  | XClear fl n =>
      if desc_accepted rt fl then (ONone, em_clear n m) else (OPanicDoc, m)
  | XClearAll =>
      match rt with
      | TUnknown => (ONone, m)
      | TGoogle => (* brute force: range over the set extensions, clearing each *)
          (ONone, fold_left (fun acc '(k, _) => em_clear k acc) m m)
      | _ => (ONone, [])
      end
  | XRange =>
      match rt with
      | TUnknown => (OErr, m)
      | _ => (ONums (map fst m), m)
      end
  | XNumber fl n => match fl with DOther => (OErr, m) | _ => (ONum n, m) end
  end.
Fixpoint ext_run (rt : mtype) (m : extmap) (ops : list eop) : list eobs * extmap :=
  match ops with
  | [] => ([], m)
  | op :: r => let '(o, m1) := ext_step rt m op in let '(os, m2) := ext_run rt m1 r in (o :: os, m2)
  end.
Fixpoint keys_nodup (m : extmap) : bool :=
  match m with [] => true | (k, _) :: r => negb (existsb (fun '(k2, _) => k2 =? k) r) && keys_nodup r end.
