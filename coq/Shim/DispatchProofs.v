(* Proofs about Shim/Dispatch.v: the decision tables (finite case analyses over the booleans that
   occur) and the type cache under every schedule. *)
From CsProto Require Import Prelude Dispatch.

Local Ltac caps_cases c :=
  destruct (c_nil c) eqn:?; destruct (c_v2 c) eqn:?; destruct (c_ptr c) eqn:?;
  destruct (c_v1 c) eqn:?; destruct (c_gogo_reg c) eqn:?; cbn.

Lemma classification : forall c,
  (deduce c = TGoogle <-> c_nil c = false /\ c_v2 c = true) /\
  (deduce c = TGogo <-> c_nil c = false /\ c_v2 c = false /\ c_ptr c = true /\ c_v1 c = true /\ c_gogo_reg c = true) /\
  (deduce c = TGoogleV1 <-> c_nil c = false /\ c_v2 c = false /\ c_ptr c = true /\ c_v1 c = true /\ c_gogo_reg c = false).
Proof.
  intros c. unfold deduce. caps_cases c; intuition congruence.
Qed.

(* the assertion in the arm deduce selects never fails *)
Lemma assert_deduce : forall c, assert_rt c (deduce c) = match deduce c with TUnknown => AZero | rt => ARuntime rt end.
Proof.
  intros c. unfold deduce, assert_rt. caps_cases c; repeat match goal with H : _ = _ |- _ => rewrite H end; reflexivity.
Qed.

Lemma assert_deduce_ok : forall c, assert_rt c (deduce c) <> ABadAssert.
Proof. intros c. rewrite assert_deduce. destruct (deduce c); discriminate. Qed.

Lemma mtype_eqb_eq : forall a b, mtype_eqb a b = true <-> a = b.
Proof. intros [] []; cbn; split; congruence. Qed.

Lemma no_undocumented_panic : forall c c2,
  clone_action deduce c <> ABadAssert /\ equal_action deduce c c2 <> ABadAssert /\ reset_action deduce c <> ABadAssert /\
  text_action deduce c <> ABadAssert /\ range_ext_action deduce c <> ABadAssert.
Proof.
  intros c c2. repeat split.
  - unfold clone_action. apply assert_deduce_ok.
  - unfold equal_action. destruct (mtype_eqb (deduce c) (deduce c2)) eqn:E; cbn; [|discriminate].
    apply mtype_eqb_eq in E.
    pose proof (assert_deduce_ok c) as H1. pose proof (assert_deduce_ok c2) as H2. rewrite <- E in H2.
    destruct (assert_rt c (deduce c)), (assert_rt c2 (deduce c)); congruence.
  - unfold reset_action. destruct (c_reset c); [discriminate|].
    destruct (deduce c) eqn:E; try discriminate. rewrite <- E. apply assert_deduce_ok.
  - unfold text_action. destruct (c_text c); [discriminate|].
    destruct (deduce c) eqn:E; try discriminate; rewrite <- E; apply assert_deduce_ok.
  - unfold range_ext_action.
    destruct (deduce c) eqn:E; try discriminate; rewrite <- E; apply assert_deduce_ok.
Qed.

Lemma forwarding : forall c,
  (deduce c <> TUnknown -> clone_action deduce c = ARuntime (deduce c)) /\
  (deduce c = TUnknown -> clone_action deduce c = AZero /\ text_action deduce c = (if c_text c then AOwn else AErr)) /\
  (marshal_action c = AErr <-> c_marshaler c = false /\ c_xxx_marshal c = false /\ c_v2 c = false) /\
  (unmarshal_action c = AErr <-> c_unmarshaler c = false /\ c_xxx_unmarshal c = false /\ c_v2 c = false) /\
  (size_action c = AZero <-> c_sizer c = false /\ c_xxx_size c = false /\ c_v2 c = false) /\
  (c_marshaler c = true -> marshal_action c = AOwn) /\ (c_unmarshaler c = true -> unmarshal_action c = AOwn) /\
  (c_sizer c = true -> size_action c = AOwn).
Proof.
  intros c. split; [|split; [|split; [|split; [|split; [|split; [|split]]]]]].
  - intros H. unfold clone_action. rewrite assert_deduce. destruct (deduce c); congruence.
  - intros H. unfold clone_action, text_action. rewrite H. cbn. split; reflexivity.
  - unfold marshal_action. destruct (c_marshaler c), (c_xxx_marshal c), (c_v2 c); intuition congruence.
  - unfold unmarshal_action. destruct (c_unmarshaler c), (c_xxx_unmarshal c), (c_v2 c); intuition congruence.
  - unfold size_action. destruct (c_sizer c), (c_xxx_size c), (c_v2 c); intuition congruence.
  - unfold marshal_action. intros ->. reflexivity.
  - unfold unmarshal_action. intros ->. reflexivity.
  - unfold size_action. intros ->. reflexivity.
Qed.

Lemma equal_across_runtimes : forall c1 c2, deduce c1 <> deduce c2 -> equal_action deduce c1 c2 = AZero.
Proof.
  intros c1 c2 H. unfold equal_action.
  destruct (mtype_eqb (deduce c1) (deduce c2)) eqn:E; [|reflexivity].
  apply mtype_eqb_eq in E. contradiction.
Qed.

(* ---------- the type cache ---------- *)
Definition cinv (c : caps) (s : tstate) : Prop :=
  (cache s = None \/ cache s = Some (deduce c)) /\
  Forall (fun r => snd r = deduce c) (pending s) /\
  Forall (fun r => snd r = deduce c) (results s).

Lemma cstep_inv : forall c s st, cinv c s -> cinv c (cstep c s st).
Proof.
  intros c s st (Hc & Hp & Hr). destruct st as [g|g]; unfold cstep.
  - destruct (cache s) as [t|] eqn:E.
    + unfold cinv; cbn. split; [exact Hc|]. split; [exact Hp|].
      constructor; [|exact Hr]. cbn. destruct Hc as [Hc|Hc]; congruence.
    + unfold cinv; cbn. split; [now left|]. split; [|exact Hr]. constructor; [reflexivity|exact Hp].
  - destruct (find (fun p => Nat.eqb (fst p) g) (pending s)) as [[g' t]|] eqn:E.
    + apply find_some in E. destruct E as [Hin _].
      rewrite Forall_forall in Hp. pose proof (Hp _ Hin) as Ht. cbn in Ht. subst t.
      unfold cinv; cbn. split; [now right|]. split.
      * apply Forall_forall. intros x Hx. apply filter_In in Hx. apply Hp, Hx.
      * constructor; [reflexivity|exact Hr].
    + unfold cinv; auto.
Qed.

Lemma crun_inv : forall c sched s, cinv c s -> cinv c (fold_left (cstep c) sched s).
Proof.
  intros c sched. induction sched as [|st r IH]; intros s H; cbn; [exact H|].
  apply IH, cstep_inv, H.
Qed.

Lemma first_use_race : forall c sched,
  let s := crun c sched in
  (cache s = None \/ cache s = Some (deduce c)) /\ Forall (fun r => snd r = deduce c) (results s).
Proof.
  intros c sched s. subst s. unfold crun.
  destruct (crun_inv c sched {| cache := None; pending := []; results := [] |}) as (Hc & _ & Hr).
  - unfold cinv; cbn. auto.
  - split; assumption.
Qed.
