(* The translated Encoder methods (Src/SrcWire.v, generated from encoder.go) against the model's encoder
   (Wire/Codec.v: put, enc_scalar, enc_map_header). *)
From CsProto Require Import Prelude Varint VarintProof VarintSize ZigZag Codec CodecBase GoSem SrcWire SrcLink SrcEncProofs SrcCompose SrcEncoderLink.
From Coq Require Import Lia.
Local Open Scope Z_scope.
Local Arguments Z.pow : simpl never.
Local Arguments N.pow : simpl never.

(* ------------------------------------------------------------------------------------------ *)
(* the statement pattern  e.offset += F(e.p[e.offset:], ...)  followed by the rest K of the method *)
Definition src_step {R} (F : list Z -> gores (Z * list Z)) (p : list Z) (off : Z)
    (K : list Z -> Z -> gores R) : gores R :=
  gbind (Val off) (fun t1 =>
  gbind (go_slice p t1 (go_len p)) (fun t2 =>
  gbind (F t2) (fun r => let '(r0, t3) := r in
  K (go_splice p t1 t3) (wrap_s 64 (off + r0))))).

Definition efin (p : list Z) (off : Z) : gores (unit * list Z * Z) := Val (tt, p, off).

(* ------------------------------------------------------------------------------------------ *)
(* list plumbing *)

Lemma go_slice_tail (b : list N) (o : nat) : (o <= List.length b)%nat ->
  go_slice (bytesZ b) (Z.of_nat o) (go_len (bytesZ b)) = Val (bytesZ (skipn o b)).
Proof.
  intros Hle. unfold go_slice, go_len. rewrite bytesZ_length.
  destruct (Z.leb_spec 0 (Z.of_nat o)) as [_|Hneg]; [|lia].
  destruct (Z.leb_spec (Z.of_nat o) (Z.of_nat (List.length b))) as [_|Hbad]; [|lia].
  destruct (Z.leb_spec (Z.of_nat (List.length b)) (Z.of_nat (List.length b))) as [_|Hbad]; [|lia].
  cbn [andb]. rewrite Nat2Z.id. f_equal.
  unfold bytesZ. rewrite skipn_map. apply firstn_all2.
  rewrite map_length, skipn_length. lia.
Qed.

Lemma go_slice_beyond (b : list N) (o : nat) : (List.length b < o)%nat ->
  go_slice (bytesZ b) (Z.of_nat o) (go_len (bytesZ b)) = GoPanic.
Proof.
  intros Hlt. unfold go_slice, go_len. rewrite bytesZ_length.
  destruct (Z.leb_spec (Z.of_nat o) (Z.of_nat (List.length b))) as [Hbad|_]; [lia|].
  rewrite andb_false_r. reflexivity.
Qed.

Lemma splice_overwrite (b bs : list N) (o : nat) :
  go_splice (bytesZ b) (Z.of_nat o) (overwrite (bytesZ (skipn o b)) (bytesZ bs))
  = bytesZ (firstn o b ++ bs ++ skipn (o + List.length bs) b).
Proof.
  unfold go_splice, overwrite. rewrite Nat2Z.id, bytesZ_length.
  unfold bytesZ. rewrite !map_app, firstn_map, skipn_map, skipn_skipn_add. reflexivity.
Qed.

(* ------------------------------------------------------------------------------------------ *)
(* put keeps the encoder state well-formed *)

Lemma put_ok e n e' : est_ok e -> put e (enc_varint n) = Ok e' -> est_ok e'.
Proof.
  intros [Hb [Ho Hl]] Hput. unfold put in Hput.
  destruct (Nat.leb_spec (eoff e + List.length (enc_varint n)) (List.length (ebuf e))) as [Hle|Hgt];
    [|discriminate Hput].
  injection Hput as He'. subst e'. unfold est_ok. cbn [ebuf eoff].
  split; [|split].
  - unfold bytes_ok in *. apply Forall_app. split; [apply Forall_firstn; exact Hb|].
    apply Forall_app. split; [apply enc_fuel_bytes|apply Forall_skipn; exact Hb].
  - lia.
  - rewrite !app_length, firstn_length, skipn_length. lia.
Qed.

(* ------------------------------------------------------------------------------------------ *)
(* the key helper: one  e.offset += EncodeVarint(e.p[e.offset:], n)  step is the model's put *)

Lemma src_step_varint {R} fuel e (n : N) (F : list Z -> gores (Z * list Z)) (K : list Z -> Z -> gores R) :
  (11 <= fuel)%nat -> est_ok e -> (n < 2^64)%N ->
  (forall d, F d = go_EncodeVarint fuel d (Z.of_N n)) ->
  src_step F (est_p e) (est_off e) K
  = match put e (enc_varint n) with
    | Ok e' => K (est_p e') (est_off e')
    | Err => GoPanic
    | Panic => GoPanic
    end.
Proof.
  intros Hfuel [Hb [Ho Hl]] Hn HF. unfold src_step, est_p, est_off, put.
  cbn [gbind].
  pose proof (enc_len_bounds 10 n) as Hlen. fold (enc_varint n) in Hlen.
  assert (Hz : 0 <= Z.of_N n < 2^64) by lia.
  destruct (Nat.leb_spec (eoff e + List.length (enc_varint n)) (List.length (ebuf e))) as [Hle|Hgt].
  - rewrite go_slice_tail by lia. cbn [gbind]. rewrite HF.
    rewrite (src_EncodeVarint_ok fuel _ (Z.of_N n) Hfuel Hz);
      rewrite N2Z.id; [|rewrite !bytesZ_length, skipn_length; lia].
    cbn [gbind]. rewrite splice_overwrite, bytesZ_length.
    cbn [ebuf eoff]. rewrite wrap_s64_small by lia. rewrite <- Nat2Z.inj_add. reflexivity.
  - destruct (Nat.leb_spec (eoff e) (List.length (ebuf e))) as [Hin|Hout].
    + rewrite go_slice_tail by lia. cbn [gbind]. rewrite HF.
      rewrite src_EncodeVarint_short; [reflexivity|exact Hfuel|exact Hz|].
      rewrite N2Z.id, bytesZ_length, skipn_length. lia.
    + rewrite go_slice_beyond by lia. reflexivity.
Qed.

(* a single indexed store at the cursor followed by offset++ is the model's put of one byte *)
Lemma eupd_byte e (x : N) : est_ok e -> (x < 256)%N ->
  gbind (go_upd (est_p e) (est_off e) (Z.of_N x)) (fun p' => efin p' (wrap_s 64 (est_off e + 1)))
  = match put e [x] with
    | Ok e' => efin (est_p e') (est_off e')
    | Err => GoPanic
    | Panic => GoPanic
    end.
Proof.
  intros [Hb [Ho Hl]] Hx. unfold est_p, est_off, put. cbn [List.length].
  destruct (Nat.leb_spec (eoff e + 1) (List.length (ebuf e))) as [Hle|Hgt].
  - rewrite go_upd_in by (rewrite bytesZ_length; lia). cbn [gbind ebuf eoff].
    rewrite wrap_s64_small by lia. unfold efin. f_equal. f_equal; [|lia]. f_equal.
    unfold bytesZ. rewrite !map_app, firstn_map. cbn [map app]. rewrite skipn_map.
    replace (eoff e + 1)%nat with (S (eoff e)) by lia. reflexivity.
  - rewrite go_upd_out by (rewrite bytesZ_length; lia). reflexivity.
Qed.

(* two steps: what the method answers is the model's answer *)
Lemma abs_two_puts e bs1 bs2 :
  abs_enc (match put e bs1 with
           | Ok e1 => match put e1 bs2 with
                      | Ok e2 => efin (est_p e2) (est_off e2)
                      | Err => GoPanic
                      | Panic => GoPanic
                      end
           | Err => GoPanic
           | Panic => GoPanic
           end)
  = Some (let* e1 := put e bs1 in put e1 bs2).
Proof.
  unfold put at 1 3.
  destruct (eoff e + List.length bs1 <=? List.length (ebuf e))%nat; [|reflexivity].
  cbn [obind]. set (e1 := {| ebuf := _; eoff := _ |}).
  unfold put.
  destruct (eoff e1 + List.length bs2 <=? List.length (ebuf e1))%nat; [|reflexivity].
  unfold efin, abs_enc, est_p, est_off. cbn [ebuf eoff].
  rewrite bytesN_bytesZ, Nat2Z.id. reflexivity.
Qed.

(* ------------------------------------------------------------------------------------------ *)
(* the key of (tag, wt) *)

Definition key_val (tag wt : Z) : N := N.lor (N.shiftl (Z.to_N tag) 3 mod 2^64) (Z.to_N wt).

Lemma key_val_lt tag wt : 1 <= tag <= 536870911 -> 0 <= wt < 8 -> (key_val tag wt < 2^64)%N.
Proof.
  intros Ht Hw. unfold key_val.
  assert (Hw8 : (Z.to_N wt < 8)%N) by lia.
  assert (Heq : N.lor (N.shiftl (Z.to_N tag) 3 mod 2^64) (Z.to_N wt) = (8 * Z.to_N tag + Z.to_N wt)%N).
  { rewrite N.shiftl_mul_pow2. change (2^3)%N with 8%N.
    rewrite N.mod_small by (change (2^64)%N with 18446744073709551616%N; lia).
    rewrite N.lor_comm.
    replace (Z.to_N tag * 8)%N with (N.shiftl (Z.to_N tag) 3) by (rewrite N.shiftl_mul_pow2; reflexivity).
    rewrite lor_shift_add by (change (2^3)%N with 8%N; exact Hw8). change (2^3)%N with 8%N. lia. }
  rewrite Heq. change (2^64)%N with 18446744073709551616%N. lia.
Qed.

Lemma key_step fuel tag wt : 1 <= tag <= 536870911 -> 0 <= wt < 8 ->
  forall d, go_EncodeTag fuel d tag wt = go_EncodeVarint fuel d (Z.of_N (key_val tag wt)).
Proof.
  intros Ht Hw d. apply src_EncodeTag; [|exact Hw].
  change (2^63) with 9223372036854775808. lia.
Qed.

Lemma key_val_enc tag wt : enc_varint (key_val tag wt) = enc_key (Z.to_N tag) (Z.to_N wt).
Proof. reflexivity. Qed.

(* ------------------------------------------------------------------------------------------ *)
(* a method made of a key step and a varint payload step *)

Lemma two_varint_steps fuel e tag wt (n : N) (F : list Z -> gores (Z * list Z)) :
  (11 <= fuel)%nat -> est_ok e -> 1 <= tag <= 536870911 -> 0 <= wt < 8 -> (n < 2^64)%N ->
  (forall d, F d = go_EncodeVarint fuel d (Z.of_N n)) ->
  abs_enc (src_step (fun d => go_EncodeTag fuel d tag wt) (est_p e) (est_off e) (fun p1 off1 =>
           src_step F p1 off1 efin))
  = Some (let* e1 := put e (enc_key (Z.to_N tag) (Z.to_N wt)) in put e1 (enc_varint n)).
Proof.
  intros Hfuel Hok Ht Hw Hn HF.
  rewrite (src_step_varint fuel e (key_val tag wt) _ _ Hfuel Hok (key_val_lt tag wt Ht Hw) (key_step fuel tag wt Ht Hw)).
  rewrite key_val_enc. rewrite <- abs_two_puts. f_equal.
  destruct (put e (enc_key (Z.to_N tag) (Z.to_N wt))) as [e1| |] eqn:Hput; [|reflexivity|reflexivity].
  rewrite <- key_val_enc in Hput.
  apply (src_step_varint fuel e1 n F efin Hfuel (put_ok e _ e1 Hok Hput) Hn HF).
Qed.

Lemma u64z_wrap v : Z.of_N (u64z v) = wrap_u 64 v.
Proof.
  unfold u64z, wrap_u. apply Z2N.id.
  apply Z.mod_pos_bound. change (2^64) with 18446744073709551616. lia.
Qed.

(* ------------------------------------------------------------------------------------------ *)
(* N1 *)
Lemma src_Encoder_EncodeBool fuel e tag b : (11 <= fuel)%nat -> est_ok e -> 1 <= tag <= 536870911 ->
  abs_enc (go_Encoder_EncodeBool fuel (est_p e) (est_off e) tag b) = Some (enc_scalar e KBool (Z.to_N tag) (conv_b b)).
Proof.
  intros Hfuel Hok Ht.
  assert (Hw : 0 <= 0 < 8) by lia.
  change (go_Encoder_EncodeBool fuel (est_p e) (est_off e) tag b)
    with (src_step (fun d => go_EncodeTag fuel d tag 0) (est_p e) (est_off e) (fun p1 off1 =>
            if b then gbind (go_upd p1 off1 1) (fun p2 => efin p2 (wrap_s 64 (off1 + 1)))
            else gbind (go_upd p1 off1 0) (fun p2 => efin p2 (wrap_s 64 (off1 + 1))))).
  rewrite (src_step_varint fuel e (key_val tag 0) _ _ Hfuel Hok (key_val_lt tag 0 Ht Hw) (key_step fuel tag 0 Ht Hw)).
  rewrite key_val_enc. change (Z.to_N 0) with 0%N.
  unfold enc_scalar. change (wt_of KBool) with 0%N.
  replace (enc_payload KBool (conv_b b)) with [if b then 1%N else 0%N]
    by (destruct b; reflexivity).
  rewrite <- abs_two_puts. f_equal.
  destruct (put e (enc_key (Z.to_N tag) 0)) as [e1| |] eqn:Hput; [|reflexivity|reflexivity].
  assert (Hok1 : est_ok e1) by (apply (put_ok e (key_val tag 0) e1 Hok); exact Hput).
  destruct b.
  - apply (eupd_byte e1 1%N Hok1). lia.
  - apply (eupd_byte e1 0%N Hok1). lia.
Qed.

(* N2 *)
Lemma src_Encoder_EncodeUInt32 fuel e tag v : (11 <= fuel)%nat -> est_ok e -> 1 <= tag <= 536870911 -> 0 <= v < 2^32 ->
  abs_enc (go_Encoder_EncodeUInt32 fuel (est_p e) (est_off e) tag v) = Some (enc_scalar e KUInt32 (Z.to_N tag) v).
Proof.
  intros Hfuel Hok Ht Hv.
  assert (Hw : 0 <= 0 < 8) by lia.
  change (go_Encoder_EncodeUInt32 fuel (est_p e) (est_off e) tag v)
    with (src_step (fun d => go_EncodeTag fuel d tag 0) (est_p e) (est_off e) (fun p1 off1 =>
            src_step (fun d => go_EncodeVarint fuel d (wrap_u 64 v)) p1 off1 efin)).
  rewrite (two_varint_steps fuel e tag 0 (u64z v) _ Hfuel Hok Ht Hw (u64z_lt v));
    [reflexivity|].
  intros d. rewrite u64z_wrap. reflexivity.
Qed.

(* N3 *)
Lemma src_Encoder_EncodeUInt64 fuel e tag v : (11 <= fuel)%nat -> est_ok e -> 1 <= tag <= 536870911 -> 0 <= v < 2^64 ->
  abs_enc (go_Encoder_EncodeUInt64 fuel (est_p e) (est_off e) tag v) = Some (enc_scalar e KUInt64 (Z.to_N tag) v).
Proof.
  intros Hfuel Hok Ht Hv.
  assert (Hw : 0 <= 0 < 8) by lia.
  change (go_Encoder_EncodeUInt64 fuel (est_p e) (est_off e) tag v)
    with (src_step (fun d => go_EncodeTag fuel d tag 0) (est_p e) (est_off e) (fun p1 off1 =>
            src_step (fun d => go_EncodeVarint fuel d v) p1 off1 efin)).
  rewrite (two_varint_steps fuel e tag 0 (u64z v) _ Hfuel Hok Ht Hw (u64z_lt v));
    [reflexivity|].
  intros d. rewrite u64z_wrap, wrap_u_small by exact Hv. reflexivity.
Qed.

(* N4 *)
Lemma src_Encoder_EncodeInt32 fuel e tag v : (11 <= fuel)%nat -> est_ok e -> 1 <= tag <= 536870911 -> - 2^31 <= v < 2^31 ->
  abs_enc (go_Encoder_EncodeInt32 fuel (est_p e) (est_off e) tag v) = Some (enc_scalar e KInt32 (Z.to_N tag) v).
Proof.
  intros Hfuel Hok Ht Hv.
  assert (Hw : 0 <= 0 < 8) by lia.
  change (go_Encoder_EncodeInt32 fuel (est_p e) (est_off e) tag v)
    with (src_step (fun d => go_EncodeTag fuel d tag 0) (est_p e) (est_off e) (fun p1 off1 =>
            src_step (fun d => go_EncodeVarint fuel d (wrap_u 64 v)) p1 off1 efin)).
  rewrite (two_varint_steps fuel e tag 0 (u64z v) _ Hfuel Hok Ht Hw (u64z_lt v));
    [reflexivity|].
  intros d. rewrite u64z_wrap. reflexivity.
Qed.

(* N5 *)
Lemma src_Encoder_EncodeInt64 fuel e tag v : (11 <= fuel)%nat -> est_ok e -> 1 <= tag <= 536870911 -> - 2^63 <= v < 2^63 ->
  abs_enc (go_Encoder_EncodeInt64 fuel (est_p e) (est_off e) tag v) = Some (enc_scalar e KInt64 (Z.to_N tag) v).
Proof.
  intros Hfuel Hok Ht Hv.
  assert (Hw : 0 <= 0 < 8) by lia.
  change (go_Encoder_EncodeInt64 fuel (est_p e) (est_off e) tag v)
    with (src_step (fun d => go_EncodeTag fuel d tag 0) (est_p e) (est_off e) (fun p1 off1 =>
            src_step (fun d => go_EncodeVarint fuel d (wrap_u 64 v)) p1 off1 efin)).
  rewrite (two_varint_steps fuel e tag 0 (u64z v) _ Hfuel Hok Ht Hw (u64z_lt v));
    [reflexivity|].
  intros d. rewrite u64z_wrap. reflexivity.
Qed.

(* N6 *)
Lemma src_Encoder_EncodeSInt32 fuel e tag v : (11 <= fuel)%nat -> est_ok e -> 1 <= tag <= 536870911 -> - 2^31 <= v < 2^31 ->
  abs_enc (go_Encoder_EncodeSInt32 fuel (est_p e) (est_off e) tag v) = Some (enc_scalar e KSInt32 (Z.to_N tag) v).
Proof.
  intros Hfuel Hok Ht Hv.
  assert (Hw : 0 <= 0 < 8) by lia.
  pose proof (enc_zz32_range v Hv) as Hr.
  assert (Hr64 : 0 <= enc_zz32 v < 2^64).
  { change (2^32) with 4294967296 in Hr. change (2^64) with 18446744073709551616. lia. }
  change (go_Encoder_EncodeSInt32 fuel (est_p e) (est_off e) tag v)
    with (src_step (fun d => go_EncodeTag fuel d tag 0) (est_p e) (est_off e) (fun p1 off1 =>
            src_step (fun d => go_EncodeZigZag32 fuel d v) p1 off1 efin)).
  rewrite (two_varint_steps fuel e tag 0 (Z.to_N (enc_zz32 v)) _ Hfuel Hok Ht Hw);
    [reflexivity| |].
  - change (2^64)%N with (Z.to_N (2^64)). lia.
  - intros d. rewrite Z2N.id by lia. apply src_EncodeZigZag32. exact Hv.
Qed.

(* N7 *)
Lemma src_Encoder_EncodeSInt64 fuel e tag v : (11 <= fuel)%nat -> est_ok e -> 1 <= tag <= 536870911 -> - 2^63 <= v < 2^63 ->
  abs_enc (go_Encoder_EncodeSInt64 fuel (est_p e) (est_off e) tag v) = Some (enc_scalar e KSInt64 (Z.to_N tag) v).
Proof.
  intros Hfuel Hok Ht Hv.
  assert (Hw : 0 <= 0 < 8) by lia.
  pose proof (enc_zz64_range v Hv) as Hr64.
  change (go_Encoder_EncodeSInt64 fuel (est_p e) (est_off e) tag v)
    with (src_step (fun d => go_EncodeTag fuel d tag 0) (est_p e) (est_off e) (fun p1 off1 =>
            src_step (fun d => go_EncodeZigZag64 fuel d v) p1 off1 efin)).
  rewrite (two_varint_steps fuel e tag 0 (Z.to_N (enc_zz64 v)) _ Hfuel Hok Ht Hw);
    [reflexivity| |].
  - change (2^64)%N with (Z.to_N (2^64)). lia.
  - intros d. rewrite Z2N.id by lia. apply src_EncodeZigZag64. exact Hv.
Qed.

(* N8 *)
Lemma src_Encoder_EncodeMapEntryHeader fuel e tag size : (11 <= fuel)%nat -> est_ok e -> 1 <= tag <= 536870911 -> 0 <= size < 2^63 ->
  abs_enc (go_Encoder_EncodeMapEntryHeader fuel (est_p e) (est_off e) tag size) = Some (enc_map_header e (Z.to_N tag) (Z.to_N size)).
Proof.
  intros Hfuel Hok Ht Hs.
  assert (Hw : 0 <= 2 < 8) by lia.
  assert (Hs64 : 0 <= size < 2^64).
  { change (2^63) with 9223372036854775808 in Hs. change (2^64) with 18446744073709551616. lia. }
  change (go_Encoder_EncodeMapEntryHeader fuel (est_p e) (est_off e) tag size)
    with (src_step (fun d => go_EncodeTag fuel d tag 2) (est_p e) (est_off e) (fun p1 off1 =>
            src_step (fun d => go_EncodeVarint fuel d (wrap_u 64 size)) p1 off1 efin)).
  rewrite (two_varint_steps fuel e tag 2 (Z.to_N size) _ Hfuel Hok Ht Hw);
    [reflexivity| |].
  - change (2^64)%N with (Z.to_N (2^64)). lia.
  - intros d. rewrite Z2N.id by lia. rewrite wrap_u_small by exact Hs64. reflexivity.
Qed.

Print Assumptions src_Encoder_EncodeBool.
Print Assumptions src_Encoder_EncodeUInt32.
Print Assumptions src_Encoder_EncodeUInt64.
Print Assumptions src_Encoder_EncodeInt32.
Print Assumptions src_Encoder_EncodeInt64.
Print Assumptions src_Encoder_EncodeSInt32.
Print Assumptions src_Encoder_EncodeSInt64.
Print Assumptions src_Encoder_EncodeMapEntryHeader.
