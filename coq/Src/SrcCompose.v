(* Facts about the TRANSLATED Go source alone (encoder.go / decoder.go / sizeof.go as they are in /repo now),
   obtained by composing the link lemmas (SrcEncProofs, SrcDecProofs: translated source = hand-written model)
   with the model's theorems (VarintSize, CodecBase, ZigZag). *)
From CsProto Require Import Prelude Varint VarintProof VarintSize ZigZag Codec RefWire WireStmts CodecBase GoSem SrcWire SrcLink SrcEncProofs SrcDecProofs.
Local Open Scope Z_scope.

Lemma bytesN_bytesZ l : bytesN (bytesZ l) = l.
Proof. unfold bytesN, bytesZ. rewrite map_map. rewrite <- (map_id l) at 2. apply map_ext. intros a. apply N2Z.id. Qed.

Lemma bytesZ_length l : List.length (bytesZ l) = List.length l.
Proof. unfold bytesZ. apply map_length. Qed.

Lemma enc_fuel_bytes : forall f v, Forall (fun b => (b < 256)%N) (enc_varint_fuel f v).
Proof.
  induction f as [|f IH]; intros v; cbn [enc_varint_fuel].
  - constructor; [apply N.mod_lt; lia|constructor].
  - destruct (128 <=? v)%N.
    + constructor; [|apply IH].
      rewrite land127. rewrite lor128 by (apply N.mod_lt; lia).
      assert (v mod 128 < 128)%N by (apply N.mod_lt; lia). lia.
    + constructor; [apply N.mod_lt; lia|constructor].
Qed.

Lemma byte_range_bytesZ l : Forall (fun b => (b < 256)%N) l -> byte_range (bytesZ l).
Proof.
  unfold byte_range, bytesZ. intros H. induction H as [|x l Hx _ IH]; cbn [map]; constructor; [lia|exact IH].
Qed.

Lemma byte_range_app a b : byte_range a -> byte_range b -> byte_range (a ++ b).
Proof. unfold byte_range. intros Ha Hb. apply Forall_app. split; assumption. Qed.

Lemma bytesN_app a b : bytesN (a ++ b) = bytesN a ++ bytesN b.
Proof. unfold bytesN. apply map_app. Qed.

(* sizeof.go's SizeOfVarint is the number of bytes encoder.go's EncodeVarint writes: a destination of at least that
   many cells gets exactly its first SizeOfVarint(v) cells overwritten and that count returned; a shorter one panics *)
Theorem src_varint_size_exact fuel dest v : (11 <= fuel)%nat -> 0 <= v < 2^64 ->
  (go_SizeOfVarint v <= go_len dest ->
     go_EncodeVarint fuel dest v = Val (go_SizeOfVarint v, overwrite dest (bytesZ (enc_varint (Z.to_N v))))
     /\ go_len (bytesZ (enc_varint (Z.to_N v))) = go_SizeOfVarint v)
  /\ (go_len dest < go_SizeOfVarint v -> go_EncodeVarint fuel dest v = GoPanic).
Proof.
  intros Hf Hv.
  assert (Hn : (Z.to_N v < 2^64)%N) by lia.
  pose proof (enc_varint_size (Z.to_N v) Hn) as Hsz.
  rewrite (src_SizeOfVarint v Hv). unfold go_len. rewrite bytesZ_length, Hsz.
  split.
  - intros Hle. split; [|reflexivity].
    rewrite (src_EncodeVarint_ok fuel dest v Hf Hv) by (rewrite bytesZ_length, Hsz; lia).
    rewrite bytesZ_length, Hsz. reflexivity.
  - intros Hlt. apply (src_EncodeVarint_short fuel dest v Hf Hv). rewrite Hsz. lia.
Qed.

(* what EncodeVarint wrote, DecodeVarint reads back, consuming SizeOfVarint(v) bytes, whatever follows *)
Theorem src_varint_roundtrip fuel v rest : (11 <= fuel)%nat -> 0 <= v < 2^64 -> byte_range rest ->
  go_DecodeVarint fuel (bytesZ (enc_varint (Z.to_N v)) ++ rest) = Val (v, go_SizeOfVarint v, None).
Proof.
  intros Hf Hv Hr.
  assert (Hn : (Z.to_N v < 2^64)%N) by lia.
  rewrite src_DecodeVarint; [|exact Hf|apply byte_range_app; [apply byte_range_bytesZ, enc_fuel_bytes|exact Hr]].
  rewrite bytesN_app, bytesN_bytesZ, (dec_enc_varint (Z.to_N v) (bytesN rest) Hn).
  cbn [lift_varint]. rewrite (src_SizeOfVarint v Hv), (enc_varint_size _ Hn), Z2N.id by lia. reflexivity.
Qed.

(* the bytes EncodeVarint writes are the reference (spec-derived) varint *)
Theorem src_varint_canonical fuel dest v : (11 <= fuel)%nat -> 0 <= v < 2^64 -> go_SizeOfVarint v <= go_len dest ->
  go_EncodeVarint fuel dest v = Val (go_SizeOfVarint v, overwrite dest (bytesZ (ref_varint (Z.to_N v)))).
Proof.
  intros Hf Hv Hle. rewrite <- varint_canonical by lia.
  apply (proj1 (src_varint_size_exact fuel dest v Hf Hv)). exact Hle.
Qed.

(* EncodeTag writes the key of (tag, wt) and SizeOfTagKey(tag) predicts its length *)
Theorem src_key_size_exact fuel dest tag wt : (11 <= fuel)%nat -> 1 <= tag <= 536870911 -> 0 <= wt < 8 ->
  go_SizeOfTagKey tag <= go_len dest ->
  go_EncodeTag fuel dest tag wt = Val (go_SizeOfTagKey tag, overwrite dest (bytesZ (enc_key (Z.to_N tag) (Z.to_N wt))))
  /\ go_len (bytesZ (enc_key (Z.to_N tag) (Z.to_N wt))) = go_SizeOfTagKey tag.
Proof.
  intros Hf Ht Hw Hle.
  assert (Htok : tag_ok (Z.to_N tag)) by (unfold tag_ok, max_tag; lia).
  assert (Hw8 : (Z.to_N wt < 8)%N) by lia.
  pose proof (key_size (Z.to_N tag) (Z.to_N wt) Htok Hw8) as Hks.
  assert (Hk : go_SizeOfTagKey tag = Z.of_nat (size_key (Z.to_N tag))) by (apply src_SizeOfTagKey; lia).
  rewrite src_EncodeTag by lia.
  set (kv := N.lor (N.shiftl (Z.to_N tag) 3 mod 2 ^ 64) (Z.to_N wt)).
  assert (Hkv : (kv < 2^64)%N).
  { assert (Heq : kv = (8 * Z.to_N tag + Z.to_N wt)%N).
    { unfold kv. unfold tag_ok, max_tag in Htok.
      rewrite N.shiftl_mul_pow2. change (2^3)%N with 8%N. rewrite N.mod_small by lia.
      rewrite N.lor_comm. replace (Z.to_N tag * 8)%N with (N.shiftl (Z.to_N tag) 3) by (rewrite N.shiftl_mul_pow2; reflexivity).
      rewrite lor_shift_add by (change (2^3)%N with 8%N; exact Hw8). change (2^3)%N with 8%N. lia. }
    rewrite Heq. unfold tag_ok, max_tag in Htok. lia. }
  assert (Hsz : List.length (enc_varint kv) = size_key (Z.to_N tag)) by exact Hks.
  assert (Hzz : 0 <= Z.of_N kv < 2^64) by lia.
  fold (enc_key (Z.to_N tag) (Z.to_N wt)) in *.
  unfold go_len in *. rewrite bytesZ_length.
  split; [|unfold enc_key; fold kv; rewrite Hsz, Hk; reflexivity].
  rewrite (src_EncodeVarint_ok fuel dest (Z.of_N kv) Hf Hzz); rewrite N2Z.id.
  - rewrite bytesZ_length. fold kv in Hsz. rewrite Hsz, Hk. reflexivity.
  - rewrite bytesZ_length, Hsz. rewrite Hk in Hle. lia.
Qed.

(* EncodeZigZag64 writes the varint of the zig-zag image and SizeOfZigZag predicts its length;
   DecodeZigZag64 reads the value back *)
Theorem src_zigzag64_exact fuel dest v : (11 <= fuel)%nat -> - 2^63 <= v < 2^63 ->
  go_SizeOfZigZag (wrap_u 64 v) <= go_len dest ->
  go_EncodeZigZag64 fuel dest v
    = Val (go_SizeOfZigZag (wrap_u 64 v), overwrite dest (bytesZ (enc_varint (Z.to_N (enc_zz64 v))))).
Proof.
  intros Hf Hv Hle.
  assert (Hu : 0 <= wrap_u 64 v < 2^64) by apply u64_range.
  pose proof (zz64_range v Hv) as Hzr.
  assert (Hs : go_SizeOfZigZag (wrap_u 64 v) = go_SizeOfVarint (enc_zz64 v)).
  { rewrite (src_SizeOfZigZag _ Hu), (src_SizeOfVarint _ Hzr). unfold size_of_zigzag.
    replace (i64n (Z.to_N (wrap_u 64 v))) with v; [reflexivity|].
    change (Z.to_N (wrap_u 64 v)) with (u64z v). symmetry. apply i64n_u64z. exact Hv. }
  rewrite src_EncodeZigZag64 by exact Hv. rewrite Hs in *.
  apply (proj1 (src_varint_size_exact fuel dest (enc_zz64 v) Hf Hzr)). exact Hle.
Qed.

Theorem src_zigzag64_roundtrip fuel v rest : (11 <= fuel)%nat -> - 2^63 <= v < 2^63 -> byte_range rest ->
  go_DecodeZigZag64 fuel (bytesZ (enc_varint (Z.to_N (enc_zz64 v))) ++ rest)
    = Val (v, go_SizeOfZigZag (wrap_u 64 v), None).
Proof.
  intros Hf Hv Hr.
  pose proof (zz64_range v Hv) as Hzr.
  assert (Hn : (Z.to_N (enc_zz64 v) < 2^64)%N) by lia.
  rewrite src_DecodeZigZag64; [|exact Hf|apply byte_range_app; [apply byte_range_bytesZ, enc_fuel_bytes|exact Hr]].
  rewrite bytesN_app, bytesN_bytesZ, (dec_enc_varint _ (bytesN rest) Hn).
  cbn [lift_zz]. rewrite Z2N.id by lia. rewrite (dec_enc_zz64 v Hv).
  assert (Hu : 0 <= wrap_u 64 v < 2^64) by apply u64_range.
  rewrite (src_SizeOfZigZag _ Hu). unfold size_of_zigzag.
  replace (i64n (Z.to_N (wrap_u 64 v))) with v.
  - rewrite (enc_varint_size _ Hn). reflexivity.
  - change (Z.to_N (wrap_u 64 v)) with (u64z v). symmetry. apply i64n_u64z. exact Hv.
Qed.

Print Assumptions src_varint_size_exact.
Print Assumptions src_varint_roundtrip.
Print Assumptions src_key_size_exact.
Print Assumptions src_zigzag64_roundtrip.
