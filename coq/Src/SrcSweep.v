(* Not part of the build: run by the check only when the source-level theorems (Props/C01src.v, C02src.v) no longer
   check.  Evaluates the regenerated translation of the Go source against the wire model on boundary inputs and prints
   the inputs on which they differ (a search for a concrete failing input, not a proof). *)
From CsProto Require Import Prelude Varint ZigZag Codec GoSem SrcWire SrcLink SrcDecoderLink SrcEncoderLink.
Local Open Scope Z_scope.

Definition pows : list Z := flat_map (fun k => [2^k - 1; 2^k; 2^k + 1]) (map Z.of_nat (seq 0 64)).
Definition u64s : list Z := filter (fun v => (0 <=? v) && (v <? 2^64)) (pows ++ [2^64 - 1; 300; 70000; 12345678901234]).
Definition i64s : list Z := filter (fun v => (- 2^63 <=? v) && (v <? 2^63)) (u64s ++ map Z.opp u64s).
Definition i32s : list Z := filter (fun v => (- 2^31 <=? v) && (v <? 2^31)) i64s.
Definition tags : list Z := filter (fun v => (1 <=? v) && (v <=? 536870911)) pows.
Definition room : list Z := repeat 7 12.

Definition geqb {A} (eqb : A -> A -> bool) (a b : gores A) : bool :=
  match a, b with Val x, Val y => eqb x y | GoPanic, GoPanic => true | OutOfFuel, OutOfFuel => true | _, _ => false end.
Definition leqb (a b : list Z) : bool := (Nat.eqb (List.length a) (List.length b)) && forallb (fun '(x, y) => x =? y) (combine a b).
Definition wr_eqb (a b : Z * list Z) : bool := (fst a =? fst b) && leqb (snd a) (snd b).
Definition oeqb (a b : option String.string) : bool := go_err_eqb a b.
Definition rd_eqb (a b : Z * Z * option String.string) : bool :=
  let '(v, n, e) := a in let '(v', n', e') := b in (v =? v') && (n =? n') && oeqb e e'.

Definition model_put (dest : list Z) (v : Z) : gores (Z * list Z) :=
  let e := bytesZ (enc_varint (Z.to_N v)) in
  if (List.length e <=? List.length dest)%nat then Val (Z.of_nat (List.length e), overwrite dest e) else GoPanic.

Definition sweep_SizeOfVarint := filter (fun v => negb (go_SizeOfVarint v =? Z.of_nat (size_of_varint (Z.to_N v)))) u64s.
Definition sweep_SizeOfTagKey := filter (fun k => negb (go_SizeOfTagKey k =? Z.of_nat (size_key (Z.to_N k)))) tags.
Definition sweep_SizeOfZigZag := filter (fun v => negb (go_SizeOfZigZag v =? Z.of_nat (size_of_zigzag (Z.to_N v)))) u64s.
Definition sweep_EncodeVarint := filter (fun v => negb (geqb wr_eqb (go_EncodeVarint 12 room v) (model_put room v))) u64s.
Definition sweep_EncodeVarint_short := filter (fun v => negb (geqb wr_eqb (go_EncodeVarint 12 [7; 7] v) (model_put [7; 7] v))) u64s.
Definition sweep_EncodeTag := filter (fun k => negb (forallb (fun wt => geqb wr_eqb (go_EncodeTag 12 room k wt)
                                   (model_put room (Z.of_N (N.lor (N.shiftl (Z.to_N k) 3 mod 2^64) (Z.to_N wt))))) [0; 1; 2; 5; 7])) tags.
Definition sweep_EncodeZigZag64 := filter (fun v => negb (geqb wr_eqb (go_EncodeZigZag64 12 room v) (model_put room (enc_zz64 v)))) i64s.
Definition sweep_EncodeZigZag32 := filter (fun v => negb (geqb wr_eqb (go_EncodeZigZag32 12 room v) (model_put room (enc_zz32 v)))) i32s.

Definition inputs : list (list Z) :=
  map (fun v => bytesZ (enc_varint (Z.to_N v)) ++ [9; 200]) u64s
  ++ map (fun v => bytesZ (enc_varint (Z.to_N v))) u64s
  ++ map (fun n => repeat 255 n) (seq 0 13) ++ map (fun n => repeat 128 n ++ [1]) (seq 0 13)
  ++ map (fun n => repeat 255 n ++ [127; 3]) (seq 0 12)
  ++ [[1; 2; 3]; [1; 2; 3; 4]; [1; 2; 3; 4; 5; 6; 7]; [255; 254; 253; 252; 251; 250; 249; 248; 1]].

Definition gval {A} (x : A) : gores A := Val x.
Definition sweep_DecodeVarint := filter (fun p => negb (geqb rd_eqb (go_DecodeVarint 12 p) (gval (lift_varint (dec_varint (bytesN p)))))) inputs.
Definition sweep_DecodeZigZag64 := filter (fun p => negb (geqb rd_eqb (go_DecodeZigZag64 12 p) (gval (lift_zz dec_zz64 (dec_varint (bytesN p)))))) inputs.
Definition sweep_DecodeZigZag32 := filter (fun p => negb (geqb rd_eqb (go_DecodeZigZag32 12 p) (gval (lift_zz dec_zz32 (dec_varint (bytesN p)))))) inputs.
Definition sweep_DecodeFixed32 := filter (fun p => negb (geqb rd_eqb (go_DecodeFixed32 12 p) (gval (lift_fixed 4 p)))) inputs.
Definition sweep_DecodeFixed64 := filter (fun p => negb (geqb rd_eqb (go_DecodeFixed64 12 p) (gval (lift_fixed 8 p)))) inputs.

Definition res_sweep_SizeOfVarint := Eval vm_compute in sweep_SizeOfVarint. Print res_sweep_SizeOfVarint.
Definition res_sweep_SizeOfTagKey := Eval vm_compute in sweep_SizeOfTagKey. Print res_sweep_SizeOfTagKey.
Definition res_sweep_SizeOfZigZag := Eval vm_compute in sweep_SizeOfZigZag. Print res_sweep_SizeOfZigZag.
Definition res_sweep_EncodeVarint := Eval vm_compute in sweep_EncodeVarint. Print res_sweep_EncodeVarint.
Definition res_sweep_EncodeVarint_short := Eval vm_compute in sweep_EncodeVarint_short. Print res_sweep_EncodeVarint_short.
Definition res_sweep_EncodeTag := Eval vm_compute in sweep_EncodeTag. Print res_sweep_EncodeTag.
Definition res_sweep_EncodeZigZag64 := Eval vm_compute in sweep_EncodeZigZag64. Print res_sweep_EncodeZigZag64.
Definition res_sweep_EncodeZigZag32 := Eval vm_compute in sweep_EncodeZigZag32. Print res_sweep_EncodeZigZag32.
Definition res_sweep_DecodeVarint := Eval vm_compute in sweep_DecodeVarint. Print res_sweep_DecodeVarint.
Definition res_sweep_DecodeZigZag64 := Eval vm_compute in sweep_DecodeZigZag64. Print res_sweep_DecodeZigZag64.
Definition res_sweep_DecodeZigZag32 := Eval vm_compute in sweep_DecodeZigZag32. Print res_sweep_DecodeZigZag32.
Definition res_sweep_DecodeFixed32 := Eval vm_compute in sweep_DecodeFixed32. Print res_sweep_DecodeFixed32.
Definition res_sweep_DecodeFixed64 := Eval vm_compute in sweep_DecodeFixed64. Print res_sweep_DecodeFixed64.

(* ---- the Decoder methods against the model's decoder operations, over every cursor and both modes of sample buffers *)
Definition mkd (b : list N) (o : nat) (f : bool) := {| dbuf := b; doff := o; dfast := f |}.
Definition bufs : list (list N) := [[]; [8;1]; [8;150;1;18;3;1;2;3]; [255;255;255;255;255;255;255;255;255;1;7]; [128]; [0;1]; [250;255;255;255;15;5];
  [16;255;255;255;255;15]; [16;255;255;255;255;31]; [8;255;255;255;255;255;255;255;255;255;1]; [18;5;1;2]; [13;1;2;3;4;9;1;2;3;4;5;6;7;8];
  [128;128;128;128;128;128;128;128;128;128;128;1]; [130;1;3;1;2;3;4]; [8;128;128;128;128;16]; [8;255;255;255;255;7]; [8;128;128;128;128;248;255;255;255;255;1]]%N.
Definition sts : list decoder := flat_map (fun b => flat_map (fun o => [mkd b o false; mkd b o true]) (seq 0 (S (List.length b)))) bufs.
Definition dres_eqb {A} (eq : A -> A -> bool) (x y : option (dres A)) : bool :=
  match x, y with
  | Some (DOk a d), Some (DOk a' d') => eq a a' && (doff d =? doff d')%nat && Bool.eqb (dfast d) (dfast d')
  | Some (DErr d), Some (DErr d') => (doff d =? doff d')%nat
  | Some DPanic, Some DPanic => true
  | _, _ => false end.
Definition nneq (a b : N * N) := (fst a =? fst b)%N && (snd a =? snd b)%N.
Fixpoint lneq (a b : list N) := match a, b with [], [] => true | x :: a', y :: b' => (x =? y)%N && lneq a' b' | _, _ => false end.
Definition show (d : decoder) : list N * nat * bool := (dbuf d, doff d, dfast d).
Definition sw {A B} (eq : B -> B -> bool) (conv : A -> B) (go : nat -> list Z -> Z -> Z -> gores (A * option String.string * Z)) (model : decoder -> dres B) :=
  map show (filter (fun d => negb (dres_eqb eq (abs_res conv d (go 12%nat (st_p d) (st_off d) (st_mode d))) (Some (model d)))) sts).
Definition sweep_Decoder_DecodeTag := sw nneq conv_tag go_Decoder_DecodeTag dec_tag.
Definition sweep_Decoder_DecodeBool := sw Z.eqb conv_bool go_Decoder_DecodeBool (fun d => dec_scalar d KBool).
Definition sweep_Decoder_DecodeUInt32 := sw Z.eqb conv_id go_Decoder_DecodeUInt32 (fun d => dec_scalar d KUInt32).
Definition sweep_Decoder_DecodeUInt64 := sw Z.eqb conv_id go_Decoder_DecodeUInt64 (fun d => dec_scalar d KUInt64).
Definition sweep_Decoder_DecodeInt32 := sw Z.eqb conv_id go_Decoder_DecodeInt32 (fun d => dec_scalar d KInt32).
Definition sweep_Decoder_DecodeInt64 := sw Z.eqb conv_id go_Decoder_DecodeInt64 (fun d => dec_scalar d KInt64).
Definition sweep_Decoder_DecodeSInt32 := sw Z.eqb conv_id go_Decoder_DecodeSInt32 (fun d => dec_scalar d KSInt32).
Definition sweep_Decoder_DecodeSInt64 := sw Z.eqb conv_id go_Decoder_DecodeSInt64 (fun d => dec_scalar d KSInt64).
Definition sweep_Decoder_DecodeFixed32 := sw Z.eqb conv_id go_Decoder_DecodeFixed32 (fun d => dec_scalar d KFixed32).
Definition sweep_Decoder_DecodeFixed64 := sw Z.eqb conv_id go_Decoder_DecodeFixed64 (fun d => dec_scalar d KFixed64).
Definition sweep_Decoder_DecodeFloat32 := sw Z.eqb conv_id go_Decoder_DecodeFloat32 (fun d => dec_scalar d KFloat).
Definition sweep_Decoder_DecodeFloat64 := sw Z.eqb conv_id go_Decoder_DecodeFloat64 (fun d => dec_scalar d KDouble).
Definition sweep_Decoder_decodeBytes := sw lneq conv_bytes go_Decoder_decodeBytes dec_bytes.
Definition tws : list (Z * Z) := [(1,0);(1,2);(2,2);(1,1);(1,5);(16,0);(2,0);(3,3);(1,6);(1,-1);(536870911,5);(0,0);(2^62,2)].
Definition sweep_Decoder_Skip := map (fun '(d, tw) => (show d, tw)) (filter (fun '(d, (t, w)) =>
  negb (dres_eqb lneq (abs_res conv_bytes d (go_Decoder_Skip 12 (st_p d) (st_off d) (st_mode d) t w)) (Some (dec_skip d t w)))) (list_prod sts tws)).
Definition ows : list (Z * Z) := [(0,0);(1,0);(-1,0);(3,1);(-1,1);(-1,2);(0,2);(1,2);(5,3);(2^63-1,1);(-2^63,2);(100,0)].
Definition sweep_Decoder_Seek := map (fun '(d, ow) => (show d, ow)) (filter (fun '(d, (o, w)) =>
  negb (dres_eqb Z.eqb (abs_res conv_id d (Val (go_Decoder_Seek (st_p d) (st_off d) (st_mode d) o w))) (Some (dec_seek d o w)))) (list_prod sts ows)).
Definition res_sweep_Decoder_DecodeTag := Eval vm_compute in sweep_Decoder_DecodeTag. Print res_sweep_Decoder_DecodeTag.
Definition res_sweep_Decoder_DecodeBool := Eval vm_compute in sweep_Decoder_DecodeBool. Print res_sweep_Decoder_DecodeBool.
Definition res_sweep_Decoder_DecodeUInt32 := Eval vm_compute in sweep_Decoder_DecodeUInt32. Print res_sweep_Decoder_DecodeUInt32.
Definition res_sweep_Decoder_DecodeUInt64 := Eval vm_compute in sweep_Decoder_DecodeUInt64. Print res_sweep_Decoder_DecodeUInt64.
Definition res_sweep_Decoder_DecodeInt32 := Eval vm_compute in sweep_Decoder_DecodeInt32. Print res_sweep_Decoder_DecodeInt32.
Definition res_sweep_Decoder_DecodeInt64 := Eval vm_compute in sweep_Decoder_DecodeInt64. Print res_sweep_Decoder_DecodeInt64.
Definition res_sweep_Decoder_DecodeSInt32 := Eval vm_compute in sweep_Decoder_DecodeSInt32. Print res_sweep_Decoder_DecodeSInt32.
Definition res_sweep_Decoder_DecodeSInt64 := Eval vm_compute in sweep_Decoder_DecodeSInt64. Print res_sweep_Decoder_DecodeSInt64.
Definition res_sweep_Decoder_DecodeFixed32 := Eval vm_compute in sweep_Decoder_DecodeFixed32. Print res_sweep_Decoder_DecodeFixed32.
Definition res_sweep_Decoder_DecodeFixed64 := Eval vm_compute in sweep_Decoder_DecodeFixed64. Print res_sweep_Decoder_DecodeFixed64.
Definition res_sweep_Decoder_DecodeFloat32 := Eval vm_compute in sweep_Decoder_DecodeFloat32. Print res_sweep_Decoder_DecodeFloat32.
Definition res_sweep_Decoder_DecodeFloat64 := Eval vm_compute in sweep_Decoder_DecodeFloat64. Print res_sweep_Decoder_DecodeFloat64.
Definition res_sweep_Decoder_decodeBytes := Eval vm_compute in sweep_Decoder_decodeBytes. Print res_sweep_Decoder_decodeBytes.
Definition res_sweep_Decoder_Skip := Eval vm_compute in sweep_Decoder_Skip. Print res_sweep_Decoder_Skip.
Definition res_sweep_Decoder_Seek := Eval vm_compute in sweep_Decoder_Seek. Print res_sweep_Decoder_Seek.

(* ---- the Encoder methods against the model's encoder step: buffers of 0..16 cells, every cursor up to one past the end *)
Definition encs : list encoder := flat_map (fun n => map (fun o => {| ebuf := repeat 165%N n; eoff := o |}) (seq 0 (n + 2))) [0; 1; 2; 3; 6; 7; 11; 12; 16]%nat.
Definition etags := [1; 15; 16; 2047; 2048; 536870911].
Definition oeq (x y : option (outcome encoder)) := match x, y with
 | Some (Ok a), Some (Ok b) => lneq (ebuf a) (ebuf b) && (eoff a =? eoff b)%nat | Some Panic, Some Panic => true | _, _ => false end.
Definition eshow (e : encoder) := (List.length (ebuf e), eoff e).
Definition esw (go : nat -> list Z -> Z -> Z -> Z -> gores (unit * list Z * Z)) (k : skind) (vs : list Z) :=
  map (fun '(e, tv) => (eshow e, tv)) (filter (fun '(e, (t, v)) => negb (oeq (abs_enc (go 12%nat (est_p e) (est_off e) t v)) (Some (enc_scalar e k (Z.to_N t) v)))) (list_prod encs (list_prod etags vs))).
Definition sweep_Encoder_EncodeBool := map (fun '(e, tv) => (eshow e, tv)) (filter (fun '(e, (t, b)) =>
  negb (oeq (abs_enc (go_Encoder_EncodeBool 12 (est_p e) (est_off e) t b)) (Some (enc_scalar e KBool (Z.to_N t) (conv_b b))))) (list_prod encs (list_prod etags [true; false]))).
Definition sweep_Encoder_EncodeUInt32 := esw go_Encoder_EncodeUInt32 KUInt32 [0; 1; 127; 128; 2^32 - 1].
Definition sweep_Encoder_EncodeUInt64 := esw go_Encoder_EncodeUInt64 KUInt64 [0; 300; 2^63; 2^64 - 1].
Definition sweep_Encoder_EncodeInt32 := esw go_Encoder_EncodeInt32 KInt32 [0; -1; 2^31 - 1; - 2^31].
Definition sweep_Encoder_EncodeInt64 := esw go_Encoder_EncodeInt64 KInt64 [0; -1; 2^63 - 1; - 2^63].
Definition sweep_Encoder_EncodeSInt32 := esw go_Encoder_EncodeSInt32 KSInt32 [0; -1; 2^31 - 1; - 2^31; 64; -65].
Definition sweep_Encoder_EncodeSInt64 := esw go_Encoder_EncodeSInt64 KSInt64 [0; -1; 2^63 - 1; - 2^63; 64; -65].
Definition sweep_Encoder_EncodeMapEntryHeader := map (fun '(e, tv) => (eshow e, tv)) (filter (fun '(e, (t, v)) =>
  negb (oeq (abs_enc (go_Encoder_EncodeMapEntryHeader 12 (est_p e) (est_off e) t v)) (Some (enc_map_header e (Z.to_N t) (Z.to_N v))))) (list_prod encs (list_prod etags [0; 1; 127; 128; 2^63 - 1]))).
Definition res_sweep_Encoder_EncodeBool := Eval vm_compute in sweep_Encoder_EncodeBool. Print res_sweep_Encoder_EncodeBool.
Definition res_sweep_Encoder_EncodeUInt32 := Eval vm_compute in sweep_Encoder_EncodeUInt32. Print res_sweep_Encoder_EncodeUInt32.
Definition res_sweep_Encoder_EncodeUInt64 := Eval vm_compute in sweep_Encoder_EncodeUInt64. Print res_sweep_Encoder_EncodeUInt64.
Definition res_sweep_Encoder_EncodeInt32 := Eval vm_compute in sweep_Encoder_EncodeInt32. Print res_sweep_Encoder_EncodeInt32.
Definition res_sweep_Encoder_EncodeInt64 := Eval vm_compute in sweep_Encoder_EncodeInt64. Print res_sweep_Encoder_EncodeInt64.
Definition res_sweep_Encoder_EncodeSInt32 := Eval vm_compute in sweep_Encoder_EncodeSInt32. Print res_sweep_Encoder_EncodeSInt32.
Definition res_sweep_Encoder_EncodeSInt64 := Eval vm_compute in sweep_Encoder_EncodeSInt64. Print res_sweep_Encoder_EncodeSInt64.
Definition res_sweep_Encoder_EncodeMapEntryHeader := Eval vm_compute in sweep_Encoder_EncodeMapEntryHeader. Print res_sweep_Encoder_EncodeMapEntryHeader.
