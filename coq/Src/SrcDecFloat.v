(* The translated Decoder.DecodeFloat32 / DecodeFloat64 of Src/SrcWire.v (generated from decoder.go) compute what the
   hand-written decoder model (Wire/Codec.v: dec_scalar on KFloat / KDouble) says. *)
From CsProto Require Import Prelude Varint VarintProof VarintSize ZigZag Codec CodecBase GoSem SrcWire SrcLink SrcEncProofs SrcDecProofs SrcCompose SrcDecoderLink SafeProofs SrcDecMethods.
Local Open Scope Z_scope.
Local Arguments Z.pow : simpl never.
Local Arguments N.pow : simpl never.

Lemma le_valZ_bytesZ l : le_valZ (bytesZ l) = Z.of_N (le_val l).
Proof.
  induction l as [|b r IH]; [reflexivity|].
  cbn [bytesZ map le_valZ le_val]. fold (bytesZ r). rewrite IH. lia.
Qed.

Lemma firstn_bytesZ w l : firstn w (bytesZ l) = bytesZ (firstn w l).
Proof. unfold bytesZ. apply firstn_map. Qed.

(* len(d.p) - d.offset < w, both sides *)
Lemma room_test d w : st_ok d -> Z.of_nat w < 2^62 ->
  Z.ltb (wrap_s 64 (go_len (st_p d) - st_off d)) (Z.of_nat w) = (List.length (dbuf d) - doff d <? w)%nat.
Proof.
  intros (_ & Ho & Hl) Hw. rewrite st_len. unfold st_off. rewrite wrap_s64_small by lia.
  destruct (Nat.ltb_spec (List.length (dbuf d) - doff d) w) as [Hlt|Hge].
  - apply Z.ltb_lt. lia.
  - apply Z.ltb_ge. lia.
Qed.

(* the model's float readers, with the slice guard and go_le's length test discharged *)
Lemma dec_scalar_float d k : k = KFloat \/ k = KDouble -> (doff d <= List.length (dbuf d))%nat ->
  dec_scalar d k =
  if at_eof d then DErr d else
  if (List.length (dbuf d) - doff d <? width_of k)%nat then DErr d
  else DOk (Z.of_N (le_val (firstn (width_of k) (skipn (doff d) (dbuf d))))) (dadv d (width_of k)).
Proof.
  intros Hk Ho. unfold dec_scalar. rewrite go_from_ok by exact Ho.
  destruct (at_eof d); [reflexivity|].
  destruct Hk as [-> | ->]; unfold read_elem; cbn [is_varint_kind width_of Nat.eqb];
    match goal with |- context [(?a <? ?b)%nat] => destruct (Nat.ltb_spec a b) as [Hlt|Hge] end;
    try reflexivity; unfold go_le; rewrite skipn_length;
    match goal with |- context [(?a <? ?b)%nat] => destruct (Nat.ltb_spec a b) as [Hlt2|_] end;
    try (exfalso; lia); reflexivity.
Qed.

Ltac float_method k w wz d Hok Ho Hl :=
  rewrite (dec_scalar_float d k ltac:(auto) Ho);
  cbv beta iota zeta; rewrite st_eof;
  destruct (at_eof d) eqn:Eeof;
  [ cbn [abs_res]; rewrite with_off_same; reflexivity | ];
  change wz with (Z.of_nat w) at 1;
  rewrite (room_test d w Hok ltac:(cbn; lia)); cbn [width_of];
  destruct (Nat.ltb_spec (List.length (dbuf d) - doff d) w) as [Hshort|Hlong];
  [ cbn [abs_res]; rewrite with_off_same; reflexivity | ];
  rewrite (st_slice _ Ho); cbn [gbind]; unfold go_le_get;
  rewrite bytesZ_length, skipn_length;
  destruct (Nat.ltb_spec (List.length (dbuf d) - doff d) w) as [Hshort|_]; [exfalso; lia|];
  cbn [gbind abs_res];
  let Ha := fresh "Ha" in
  assert (Ha : with_off d (wrap_s 64 (st_off d + wz)) = dadv d w)
    by (apply (with_off_adv d w Hok); rewrite skipn_length; exact Hlong);
  rewrite Ha, firstn_bytesZ, le_valZ_bytesZ; reflexivity.

Lemma src_Decoder_DecodeFloat32 fuel d : st_ok d ->
  abs_res conv_id d (go_Decoder_DecodeFloat32 fuel (st_p d) (st_off d) (st_mode d)) = Some (dec_scalar d KFloat).
Proof.
  intros Hok. pose proof Hok as (Hb & Ho & Hl). unfold go_Decoder_DecodeFloat32.
  float_method KFloat 4%nat 4 d Hok Ho Hl.
Qed.

Lemma src_Decoder_DecodeFloat64 fuel d : st_ok d ->
  abs_res conv_id d (go_Decoder_DecodeFloat64 fuel (st_p d) (st_off d) (st_mode d)) = Some (dec_scalar d KDouble).
Proof.
  intros Hok. pose proof Hok as (Hb & Ho & Hl). unfold go_Decoder_DecodeFloat64.
  float_method KDouble 8%nat 8 d Hok Ho Hl.
Qed.

Print Assumptions src_Decoder_DecodeFloat32.
Print Assumptions src_Decoder_DecodeFloat64.
