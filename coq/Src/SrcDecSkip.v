From CsProto Require Import Prelude Varint VarintProof VarintSize ZigZag Codec CodecBase SafeProofs GoSem SrcWire SrcLink SrcEncProofs SrcDecProofs SrcCompose SrcDecoderLink.
From Coq Require Import Lia.
(* The translated Decoder methods decodeBytes, Skip, Seek, Reset, More, Offset of Src/SrcWire.v (generated from
   decoder.go) compute what the hand-written decoder model of Wire/Codec.v says (dec_bytes, dec_skip, dec_seek). *)
Local Open Scope Z_scope.
Local Arguments Z.pow : simpl never.
Local Arguments N.pow : simpl never.

(* ------------------------------------------------------------------------------------------ *)
(* state plumbing *)

Lemma go_len_st_p d : go_len (st_p d) = Z.of_nat (List.length (dbuf d)).
Proof. unfold go_len, st_p. rewrite bytesZ_length. reflexivity. Qed.

Lemma geb_at_eof d : Z.geb (Z.of_nat (doff d)) (go_len (st_p d)) = at_eof d.
Proof.
  rewrite go_len_st_p. unfold at_eof. rewrite Z.geb_leb.
  destruct (Nat.leb_spec (List.length (dbuf d)) (doff d)) as [H|H].
  - apply Z.leb_le. lia.
  - apply Z.leb_gt. lia.
Qed.

Lemma with_off_id d : with_off d (Z.of_nat (doff d)) = d.
Proof. unfold with_off. rewrite Nat2Z.id. destruct d; reflexivity. Qed.

Lemma with_off_dadv d k : with_off d (Z.of_nat (doff d + k)) = dadv d k.
Proof. unfold with_off, dadv. rewrite Nat2Z.id. reflexivity. Qed.

Lemma slice_to_end {A} (l : list A) lo : slice l lo (List.length l) = skipn lo l.
Proof. unfold slice. apply firstn_all2. rewrite skipn_length. lia. Qed.

Lemma go_slice_nat (l : list N) lo hi : (lo <= hi)%nat -> (hi <= List.length l)%nat ->
  go_slice (bytesZ l) (Z.of_nat lo) (Z.of_nat hi) = Val (bytesZ (slice l lo hi)).
Proof.
  intros Hlo Hhi. unfold go_slice, go_len. rewrite bytesZ_length.
  assert (Hc : (0 <=? Z.of_nat lo) && (Z.of_nat lo <=? Z.of_nat hi)
               && (Z.of_nat hi <=? Z.of_nat (List.length l)) = true).
  { rewrite !andb_true_iff, !Z.leb_le. lia. }
  rewrite Hc. rewrite <- Nat2Z.inj_sub by exact Hlo. rewrite !Nat2Z.id.
  unfold slice, bytesZ. rewrite skipn_map, firstn_map. reflexivity.
Qed.

Lemma go_from_ok {A} (p : list N) lo (k : list N -> dres A) :
  (lo <= List.length p)%nat -> go_from p lo k = k (skipn lo p).
Proof.
  intros Hlo. unfold go_from.
  destruct (Nat.ltb_spec (List.length p) lo) as [H|_]; [lia|reflexivity].
Qed.

Lemma go_sub_ok {A} (p : list N) lo hi (k : list N -> dres A) :
  (lo <= hi)%nat -> (hi <= List.length p)%nat -> go_sub p lo hi k = k (slice p lo hi).
Proof.
  intros Hlo Hhi. unfold go_sub.
  destruct (Nat.leb_spec lo hi) as [_|H]; [|lia].
  destruct (Nat.leb_spec hi (List.length p)) as [_|H]; [|lia].
  reflexivity.
Qed.

(* p[lo:] followed by DecodeVarint *)
Lemma step_varint {B} fuel d lo (k : Z * Z * option String.string -> gores B) :
  (11 <= fuel)%nat -> st_ok d -> (lo <= List.length (dbuf d))%nat ->
  gbind (go_slice (st_p d) (Z.of_nat lo) (go_len (st_p d))) (fun t => gbind (go_DecodeVarint fuel t) k)
  = k (lift_varint (dec_varint (skipn lo (dbuf d)))).
Proof.
  intros Hf [Hb [Ho Hl]] Hlo. rewrite go_len_st_p. unfold st_p.
  rewrite go_slice_nat by lia. rewrite slice_to_end. cbn [gbind].
  rewrite src_DecodeVarint; [| exact Hf | apply byte_range_bytesZ, Forall_skipn, Hb].
  rewrite bytesN_bytesZ. reflexivity.
Qed.

Lemma gtb_max_len l : Z.gtb (Z.of_N l) 2147483647 = (max_len <? l)%N.
Proof.
  rewrite Z.gtb_ltb. unfold max_len.
  destruct (N.ltb_spec 2147483647 l) as [H|H].
  - apply Z.ltb_lt. lia.
  - apply Z.ltb_ge. lia.
Qed.

Lemma dec_varint_at d lo v n : (lo <= List.length (dbuf d))%nat ->
  dec_varint (skipn lo (dbuf d)) = inl (v, n) -> (1 <= n)%nat /\ (lo + n <= List.length (dbuf d))%nat.
Proof.
  intros Hlo Hdv. apply dec_varint_len in Hdv. rewrite skipn_length in Hdv. lia.
Qed.

(* ------------------------------------------------------------------------------------------ *)
(* K4 - K6 *)

Lemma src_Decoder_Reset d : go_Decoder_Reset (st_p d) (st_off d) (st_mode d) = (tt, 0).
Proof. reflexivity. Qed.

Lemma src_Decoder_More d : go_Decoder_More (st_p d) (st_off d) (st_mode d) = negb (at_eof d).
Proof.
  unfold go_Decoder_More, st_off. rewrite <- geb_at_eof, Z.geb_leb, Z.ltb_antisym. reflexivity.
Qed.

Lemma src_Decoder_Offset d : go_Decoder_Offset (st_p d) (st_off d) (st_mode d) = st_off d.
Proof. reflexivity. Qed.

(* ------------------------------------------------------------------------------------------ *)
(* K3 Seek *)

Lemma wrap_s64_wrap64 z : wrap_s 64 z = wrap64 z.
Proof.
  unfold wrap64, u64z.
  rewrite <- wrap_s64_i64n by (apply Z.mod_pos_bound; lia).
  unfold wrap_s. change (64 - 1) with 63.
  rewrite Zplus_mod_idemp_l. reflexivity.
Qed.

(* the code after the switch of Seek *)
Lemma seek_tail d pos : st_ok d ->
  abs_res conv_id d
    (Val (if (orb (Z.ltb pos 0) (Z.gtb pos (go_len (st_p d)))) then
            (((wrap_s 64 (Z.of_nat (doff d))), (Some "fmt.Errorf: seek position (%d) out of bounds"%string)), Z.of_nat (doff d))
          else (((wrap_s 64 pos), (@None String.string)), pos)))
  = Some (if ((pos <? 0) || (Z.of_nat (List.length (dbuf d)) <? pos))%Z then DErr d
          else DOk pos {| dbuf := dbuf d; doff := Z.to_nat pos; dfast := dfast d |}).
Proof.
  intros [Hb [Ho Hl]]. rewrite go_len_st_p, Z.gtb_ltb.
  destruct (Z.ltb_spec pos 0) as [Hneg|Hpos]; cbn [orb].
  - cbn [abs_res]. rewrite with_off_id. reflexivity.
  - destruct (Z.ltb_spec (Z.of_nat (List.length (dbuf d))) pos) as [Hbig|Hin].
    + cbn [abs_res]. rewrite with_off_id. reflexivity.
    + cbn [abs_res]. rewrite wrap_s64_small by lia. reflexivity.
Qed.

Lemma src_Decoder_Seek d o whence : st_ok d -> - 2^63 <= o < 2^63 -> - 2^63 <= whence < 2^63 ->
  abs_res conv_id d (Val (go_Decoder_Seek (st_p d) (st_off d) (st_mode d) o whence)) = Some (dec_seek d o whence).
Proof.
  intros Hok Ho Hw. unfold go_Decoder_Seek, dec_seek, st_off. cbv beta iota zeta.
  rewrite (wrap_s64_small o) by exact Ho.
  destruct (Z.eqb_spec whence 0) as [H0|H0].
  - apply seek_tail. exact Hok.
  - destruct (Z.eqb_spec whence 1) as [H1|H1].
    + rewrite wrap_s64_wrap64. apply seek_tail. exact Hok.
    + destruct (Z.eqb_spec whence 2) as [H2|H2].
      * rewrite wrap_s64_wrap64.
        pose proof (seek_tail d (wrap64 (o + go_len (st_p d))) Hok) as Ht.
        rewrite (go_len_st_p d) in Ht |- *. exact Ht.
      * cbn [abs_res]. rewrite with_off_id. reflexivity.
Qed.

(* ------------------------------------------------------------------------------------------ *)
(* K1 decodeBytes *)

Lemma src_Decoder_decodeBytes fuel d : (11 <= fuel)%nat -> st_ok d ->
  abs_res conv_bytes d (go_Decoder_decodeBytes fuel (st_p d) (st_off d) (st_mode d)) = Some (dec_bytes d).
Proof.
  intros Hf Hok. pose proof Hok as [Hb [Ho Hl]].
  unfold go_Decoder_decodeBytes, dec_bytes, st_off. rewrite geb_at_eof.
  destruct (at_eof d) eqn:He.
  - cbn [abs_res]. rewrite with_off_id. reflexivity.
  - rewrite step_varint by (try assumption; lia).
    rewrite go_from_ok by lia.
    destruct (dec_varint (skipn (doff d) (dbuf d))) as [[l n]|e] eqn:Hdv.
    + cbn [lift_varint]. cbv beta iota. cbn [go_err_eqb negb].
      destruct (dec_varint_at d (doff d) l n Ho Hdv) as [Hn1 Hn2].
      destruct (Z.eqb_spec (Z.of_nat n) 0) as [Hz|_]; [lia|].
      rewrite gtb_max_len.
      destruct (N.ltb_spec max_len l) as [Hbig|Hsm].
      * cbn [abs_res]. rewrite with_off_id. reflexivity.
      * unfold max_len in Hsm. set (nb := N.to_nat l).
        assert (E1 : wrap_s 64 (Z.of_N l) = Z.of_nat nb).
        { rewrite wrap_s64_small by lia. unfold nb. lia. }
        assert (E2 : wrap_s 64 (Z.of_nat (doff d) + Z.of_nat n) = Z.of_nat (doff d + n)).
        { rewrite wrap_s64_small by lia. lia. }
        assert (E3 : wrap_s 64 (Z.of_nat (doff d + n) + Z.of_nat nb) = Z.of_nat (doff d + n + nb)).
        { rewrite wrap_s64_small by lia. lia. }
        assert (E4 : wrap_s 64 (Z.of_nat n + Z.of_nat nb) = Z.of_nat (n + nb)).
        { rewrite wrap_s64_small by lia. lia. }
        assert (E5 : wrap_s 64 (Z.of_nat (doff d) + Z.of_nat (n + nb)) = Z.of_nat (doff d + (n + nb))).
        { rewrite wrap_s64_small by lia. lia. }
        rewrite E1, E2, E3, E4, E5, go_len_st_p, Z.gtb_ltb.
        destruct (N.ltb_spec (N.of_nat (List.length (dbuf d))) (N.of_nat (doff d + n) + l)) as [Hover|Hfit].
        -- destruct (Z.ltb_spec (Z.of_nat (List.length (dbuf d))) (Z.of_nat (doff d + n + nb))) as [_|H]; [|lia].
           cbn [abs_res]. rewrite with_off_id. reflexivity.
        -- destruct (Z.ltb_spec (Z.of_nat (List.length (dbuf d))) (Z.of_nat (doff d + n + nb))) as [H|_]; [lia|].
           unfold st_p. rewrite go_slice_nat by lia. rewrite go_sub_ok by lia.
           cbn [gbind abs_res]. unfold conv_bytes. rewrite bytesN_bytesZ, with_off_dadv. reflexivity.
    + cbn [lift_varint]. cbv beta iota. cbn [go_err_eqb negb abs_res].
      rewrite with_off_id. reflexivity.
Qed.

(* ------------------------------------------------------------------------------------------ *)
(* K2 Skip *)

(* the join points of the generated function, named: k7 (the code after the switch), k3 (the switch), k2 (key check) *)
Definition skip_fin (p : list Z) (off bof skipped : Z) : gores (list Z * option String.string * Z) :=
  if (Z.gtb (wrap_s 64 (off + skipped)) (go_len p)) then
  (Val (((@nil Z), (Some "io.ErrUnexpectedEOF"%string)), off))
  else
  (gbind (go_slice p bof (wrap_s 64 (off + skipped))) (fun t4 =>
  (Val ((t4, (@None String.string)), (wrap_s 64 (off + skipped)))))).

Definition skip_body (fuel : nat) (p : list Z) (off bof wt : Z) : gores (list Z * option String.string * Z) :=
  if (Z.eqb wt 0) then
  (gbind (go_slice p off (go_len p)) (fun t2 =>
  (gbind (go_DecodeVarint fuel t2) (fun r => let '(_, v_n, v_err) := r in
  if (negb (go_err_eqb v_err (@None String.string))) then
  (Val (((@nil Z), (Some "fmt.Errorf: invalid data at byte %d: %w"%string)), off))
  else
  skip_fin p off bof v_n))))
  else
  if (Z.eqb wt 1) then skip_fin p off bof 8
  else
  if (Z.eqb wt 2) then
  (gbind (go_slice p off (go_len p)) (fun t3 =>
  (gbind (go_DecodeVarint fuel t3) (fun r => let '(v_l, v_n, v_err) := r in
  if (negb (go_err_eqb v_err (@None String.string))) then
  (Val (((@nil Z), (Some "fmt.Errorf: invalid data at byte %d: %w"%string)), off))
  else
  if (Z.eqb v_n 0) then
  (Val (((@nil Z), (Some "fmt.Errorf: invalid data at byte %d: %w"%string)), off))
  else
  if (Z.gtb v_l 2147483647) then
  (Val (((@nil Z), (Some "fmt.Errorf: invalid length (%d) for length-delimited field at byte %d: %w"%string)), off))
  else
  skip_fin p off bof (wrap_s 64 (v_n + (wrap_s 64 v_l)))))))
  else
  if (Z.eqb wt 5) then skip_fin p off bof 4
  else
  (Val (((@nil Z), (Some "fmt.Errorf: unsupported wire type value %v at byte %d"%string)), off)).

Definition skip_key (fuel : nat) (p : list Z) (off mode tag wt sz bof : Z) : gores (list Z * option String.string * Z) :=
  if (Z.eqb mode 0) then
  (gbind (go_slice p bof (go_len p)) (fun t1 =>
  (gbind (go_DecodeVarint fuel t1) (fun r => let '(v_v, v_n, v_err) := r in
  if (negb (go_err_eqb v_err (@None String.string))) then
  (Val (((@nil Z), (Some "fmt.Errorf: invalid data at byte %d: %w"%string)), off))
  else
  if (negb (Z.eqb v_n sz)) then
  (Val (((@nil Z), (Some "fmt.Errorf: invalid data at byte %d: %w"%string)), off))
  else
  if (orb (negb (Z.eqb (wrap_s 64 (Z.shiftr v_v 3)) tag)) (negb (Z.eqb (wrap_s 64 (Z.land v_v 7)) wt))) then
  (Val (((@nil Z), (Some "&DecoderSkipError"%string)), off))
  else
  skip_body fuel p off bof wt))))
  else
  skip_body fuel p off bof wt.

Lemma go_Decoder_Skip_nf fuel p off mode tag wt :
  go_Decoder_Skip fuel p off mode tag wt =
  if (Z.geb off (go_len p)) then
  (Val (((@nil Z), (Some "io.ErrUnexpectedEOF"%string)), off))
  else
  if (Z.ltb (wrap_s 64 (off - go_SizeOfTagKey tag)) 0)
  then skip_key fuel p off mode tag wt (go_SizeOfTagKey tag) 0
  else skip_key fuel p off mode tag wt (go_SizeOfTagKey tag) (wrap_s 64 (off - go_SizeOfTagKey tag)).
Proof. reflexivity. Qed.

(* the same for the model *)
Definition m_fin (d : decoder) (bof skipped : nat) : dres (list N) :=
  if (List.length (dbuf d) <? doff d + skipped)%nat then DErr d
  else go_sub (dbuf d) bof (doff d + skipped) (fun raw => DOk raw (dadv d skipped)).

Definition m_body (d : decoder) (bof : nat) (wt : Z) : dres (list N) :=
  if (wt =? 0)%Z then
    go_from (dbuf d) (doff d) (fun rest =>
    match dec_varint rest with inr _ => DErr d | inl (_, n) => m_fin d bof n end)
  else if (wt =? 1)%Z then m_fin d bof 8%nat
  else if (wt =? 5)%Z then m_fin d bof 4%nat
  else if (wt =? 2)%Z then
    go_from (dbuf d) (doff d) (fun rest =>
    match dec_varint rest with
    | inr _ => DErr d
    | inl (l, n) => if (max_len <? l)%N then DErr d
                    else if (N.of_nat (List.length (dbuf d)) <? N.of_nat (doff d + n) + l)%N then DErr d
                    else m_fin d bof (n + N.to_nat l)%nat
    end)
  else DErr d.

Lemma dec_skip_nf d tag wt :
  dec_skip d tag wt =
  if at_eof d then DErr d else
  if dfast d then m_body d (doff d - size_key (u64z tag))%nat wt else
  go_from (dbuf d) (doff d - size_key (u64z tag))%nat (fun kb =>
  match dec_varint kb with
  | inr _ => DErr d
  | inl (v, n) =>
      if (n =? size_key (u64z tag))%nat && (Z.of_N (N.shiftr v 3) =? tag)%Z && (Z.of_N (N.land v 7) =? wt)%Z
      then m_body d (doff d - size_key (u64z tag))%nat wt else DErr d
  end).
Proof. reflexivity. Qed.

Lemma size_key_le10 t : (size_key t <= 10)%nat.
Proof.
  unfold size_key, size_of_varint.
  assert (Hm : (N.shiftl t 3 mod 2^64 < 2^64)%N) by (apply N.mod_lt; lia).
  pose proof (nsize_lor1_bounds _ Hm) as Hs.
  assert (Hq : ((N.size (N.lor (N.shiftl t 3 mod 2^64) 1) + 6) / 7 <= 10)%N).
  { apply N.div_le_upper_bound; lia. }
  lia.
Qed.

Lemma skip_fin_link d bof skipped : st_ok d -> (bof <= doff d)%nat -> Z.of_nat (doff d + skipped) < 2^63 ->
  abs_res conv_bytes d (skip_fin (st_p d) (Z.of_nat (doff d)) (Z.of_nat bof) (Z.of_nat skipped))
  = Some (m_fin d bof skipped).
Proof.
  intros [Hb [Ho Hl]] Hbof Hsk. unfold skip_fin, m_fin.
  assert (E : wrap_s 64 (Z.of_nat (doff d) + Z.of_nat skipped) = Z.of_nat (doff d + skipped)).
  { rewrite wrap_s64_small by lia. lia. }
  rewrite E, go_len_st_p, Z.gtb_ltb.
  destruct (Nat.ltb_spec (List.length (dbuf d)) (doff d + skipped)) as [Hover|Hfit].
  - destruct (Z.ltb_spec (Z.of_nat (List.length (dbuf d))) (Z.of_nat (doff d + skipped))) as [_|H]; [|lia].
    cbn [abs_res]. rewrite with_off_id. reflexivity.
  - destruct (Z.ltb_spec (Z.of_nat (List.length (dbuf d))) (Z.of_nat (doff d + skipped))) as [H|_]; [lia|].
    unfold st_p. rewrite go_slice_nat by lia. rewrite go_sub_ok by lia.
    cbn [gbind abs_res]. unfold conv_bytes. rewrite bytesN_bytesZ, with_off_dadv. reflexivity.
Qed.

Lemma skip_body_link fuel d bof wt : (11 <= fuel)%nat -> st_ok d -> (bof <= doff d)%nat ->
  abs_res conv_bytes d (skip_body fuel (st_p d) (Z.of_nat (doff d)) (Z.of_nat bof) wt) = Some (m_body d bof wt).
Proof.
  intros Hf Hok Hbof. pose proof Hok as [Hb [Ho Hl]]. unfold skip_body, m_body.
  destruct (Z.eqb_spec wt 0) as [W0|W0].
  - rewrite step_varint by assumption. rewrite go_from_ok by exact Ho.
    destruct (dec_varint (skipn (doff d) (dbuf d))) as [[v n]|e] eqn:Hdv;
      cbn [lift_varint]; cbv beta iota; cbn [go_err_eqb negb].
    + destruct (dec_varint_at d (doff d) v n Ho Hdv) as [Hn1 Hn2].
      apply skip_fin_link; try assumption. lia.
    + cbn [abs_res]. rewrite with_off_id. reflexivity.
  - destruct (Z.eqb_spec wt 1) as [W1|W1].
    + apply (skip_fin_link d bof 8%nat); try assumption. lia.
    + destruct (Z.eqb_spec wt 2) as [W2|W2].
      * destruct (Z.eqb_spec wt 5) as [W5|_]; [lia|].
        rewrite step_varint by assumption. rewrite go_from_ok by exact Ho.
        destruct (dec_varint (skipn (doff d) (dbuf d))) as [[l n]|e] eqn:Hdv;
          cbn [lift_varint]; cbv beta iota; cbn [go_err_eqb negb].
        -- destruct (dec_varint_at d (doff d) l n Ho Hdv) as [Hn1 Hn2].
           destruct (Z.eqb_spec (Z.of_nat n) 0) as [Hz|_]; [lia|].
           rewrite gtb_max_len.
           destruct (N.ltb_spec max_len l) as [Hbig|Hsm].
           ++ cbn [abs_res]. rewrite with_off_id. reflexivity.
           ++ unfold max_len in Hsm.
              assert (E : wrap_s 64 (Z.of_nat n + wrap_s 64 (Z.of_N l)) = Z.of_nat (n + N.to_nat l)).
              { rewrite (wrap_s64_small (Z.of_N l)) by lia. rewrite wrap_s64_small by lia. lia. }
              rewrite E. rewrite skip_fin_link by (try assumption; lia).
              destruct (N.ltb_spec (N.of_nat (List.length (dbuf d))) (N.of_nat (doff d + n) + l)) as [Hover|Hfit];
                [|reflexivity].
              unfold m_fin.
              destruct (Nat.ltb_spec (List.length (dbuf d)) (doff d + (n + N.to_nat l))) as [_|H]; [reflexivity|lia].
        -- cbn [abs_res]. rewrite with_off_id. reflexivity.
      * destruct (Z.eqb_spec wt 5) as [W5|W5].
        -- apply (skip_fin_link d bof 4%nat); try assumption. lia.
        -- cbn [abs_res]. rewrite with_off_id. reflexivity.
Qed.

Lemma key_fields_range v : (v < 2^64)%N ->
  wrap_s 64 (Z.shiftr (Z.of_N v) 3) = Z.of_N (N.shiftr v 3) /\
  wrap_s 64 (Z.land (Z.of_N v) 7) = Z.of_N (N.land v 7).
Proof.
  intros Hv.
  replace (Z.shiftr (Z.of_N v) 3) with (Z.of_N (N.shiftr v 3)) by (apply (ofN_shiftr v 3)).
  replace (Z.land (Z.of_N v) 7) with (Z.of_N (N.land v 7)) by (apply (ofN_land v 7)).
  assert (Hs : (N.shiftr v 3 < 2^61)%N).
  { rewrite N.shiftr_div_pow2. apply N.div_lt_upper_bound; [lia|].
    change (2^3 * 2^61)%N with (2^64)%N. exact Hv. }
  assert (Hl : (N.land v 7 < 8)%N).
  { change 7%N with (N.ones 3). rewrite N.land_ones. apply N.mod_lt. lia. }
  split; apply wrap_s64_small; lia.
Qed.

Lemma skip_key_link fuel d tag wt bof : (11 <= fuel)%nat -> st_ok d -> (bof <= doff d)%nat ->
  abs_res conv_bytes d
    (skip_key fuel (st_p d) (Z.of_nat (doff d)) (st_mode d) tag wt (Z.of_nat (size_key (u64z tag))) (Z.of_nat bof))
  = Some (if dfast d then m_body d bof wt else
          go_from (dbuf d) bof (fun kb =>
          match dec_varint kb with
          | inr _ => DErr d
          | inl (v, n) =>
              if (n =? size_key (u64z tag))%nat && (Z.of_N (N.shiftr v 3) =? tag)%Z && (Z.of_N (N.land v 7) =? wt)%Z
              then m_body d bof wt else DErr d
          end)).
Proof.
  intros Hf Hok Hbof. pose proof Hok as [Hb [Ho Hl]]. unfold skip_key, st_mode.
  destruct (dfast d) eqn:Hfast.
  - change (1 =? 0) with false. cbv iota. apply skip_body_link; assumption.
  - change (0 =? 0) with true. cbv iota.
    rewrite step_varint by (try assumption; lia). rewrite go_from_ok by lia.
    destruct (dec_varint (skipn bof (dbuf d))) as [[v n]|e] eqn:Hdv;
      cbn [lift_varint]; cbv beta iota; cbn [go_err_eqb negb].
    + destruct (dec_varint_bound _ _ _ Hdv) as [Hv _].
      destruct (key_fields_range v Hv) as [Es El]. rewrite Es, El.
      destruct (Nat.eqb_spec n (size_key (u64z tag))) as [En|En].
      * rewrite En, Z.eqb_refl. cbn [negb andb].
        destruct (Z.of_N (N.shiftr v 3) =? tag), (Z.of_N (N.land v 7) =? wt); cbn [negb orb andb].
        -- apply skip_body_link; assumption.
        -- cbn [abs_res]. rewrite with_off_id. reflexivity.
        -- cbn [abs_res]. rewrite with_off_id. reflexivity.
        -- cbn [abs_res]. rewrite with_off_id. reflexivity.
      * destruct (Z.eqb_spec (Z.of_nat n) (Z.of_nat (size_key (u64z tag)))) as [H|_]; [lia|].
        cbn [negb andb abs_res]. rewrite with_off_id. reflexivity.
    + cbn [abs_res]. rewrite with_off_id. reflexivity.
Qed.

Lemma src_Decoder_Skip fuel d tag wt : (11 <= fuel)%nat -> st_ok d -> 0 <= tag < 2^63 -> - 2^63 <= wt < 2^63 ->
  abs_res conv_bytes d (go_Decoder_Skip fuel (st_p d) (st_off d) (st_mode d) tag wt) = Some (dec_skip d tag wt).
Proof.
  intros Hf Hok Htag Hwt. pose proof Hok as [Hb [Ho Hl]].
  rewrite go_Decoder_Skip_nf, dec_skip_nf. unfold st_off. rewrite geb_at_eof.
  destruct (at_eof d) eqn:He.
  - cbn [abs_res]. rewrite with_off_id. reflexivity.
  - rewrite src_SizeOfTagKey by exact Htag. rewrite <- (u64z_pos tag) by lia.
    pose proof (size_key_le10 (u64z tag)) as Hsz.
    rewrite wrap_s64_small by lia.
    destruct (Z.ltb_spec (Z.of_nat (doff d) - Z.of_nat (size_key (u64z tag))) 0) as [Hneg|Hpos].
    + replace (doff d - size_key (u64z tag))%nat with 0%nat by lia.
      apply (skip_key_link fuel d tag wt 0%nat); try assumption. lia.
    + replace (Z.of_nat (doff d) - Z.of_nat (size_key (u64z tag)))
        with (Z.of_nat (doff d - size_key (u64z tag))) by lia.
      apply skip_key_link; try assumption. lia.
Qed.

Print Assumptions src_Decoder_decodeBytes.
Print Assumptions src_Decoder_Skip.
Print Assumptions src_Decoder_Seek.
Print Assumptions src_Decoder_Reset.
Print Assumptions src_Decoder_More.
Print Assumptions src_Decoder_Offset.
