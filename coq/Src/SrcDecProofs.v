(* The translated Go decoders of Src/SrcWire.v (DecodeVarint, DecodeZigZag32/64, DecodeFixed32/64)
   compute what the hand-written wire model (Wire/Varint.v, ZigZag.v, Codec.v) says. *)
From CsProto Require Import Prelude Varint VarintProof VarintSize ZigZag Codec GoSem SrcWire SrcLink.
Local Open Scope Z_scope.

(* ------------------------------------------------------------------------------------------ *)
(* N <-> Z plumbing *)

Lemma ofN_lor a b : Z.of_N (N.lor a b) = Z.lor (Z.of_N a) (Z.of_N b).
Proof. destruct a, b; reflexivity. Qed.
Lemma ofN_land a b : Z.of_N (N.land a b) = Z.land (Z.of_N a) (Z.of_N b).
Proof. destruct a, b; reflexivity. Qed.
Lemma ofN_shiftl a n : Z.of_N (N.shiftl a n) = Z.shiftl (Z.of_N a) (Z.of_N n).
Proof.
  rewrite N.shiftl_mul_pow2, Z.shiftl_mul_pow2 by lia.
  rewrite N2Z.inj_mul, N2Z.inj_pow. reflexivity.
Qed.

Lemma wrap_u_small w z : 0 <= z < 2^w -> wrap_u w z = z.
Proof. intros H. unfold wrap_u. apply Z.mod_small. exact H. Qed.

Lemma wrap_s64_small z : - 2^63 <= z < 2^63 -> wrap_s 64 z = z.
Proof. intros H. unfold wrap_s. change (64-1) with 63. rewrite Z.mod_small; lia. Qed.

(* one loop iteration's accumulator update and continuation flag *)
Lemma byte_step (v sN : N) (bz : Z) : 0 <= bz < 256 ->
  Z.lor (Z.of_N v) (wrap_u 64 (Z.shiftl (Z.land (wrap_u 64 bz) 127) (Z.of_N sN)))
  = Z.of_N (N.lor v (N.shiftl (N.land (Z.to_N bz) 127) sN mod 2^64)).
Proof.
  intros Hb. rewrite (wrap_u_small 64 bz) by lia. unfold wrap_u.
  rewrite ofN_lor, N2Z.inj_mod, ofN_shiftl, ofN_land, Z2N.id by lia. reflexivity.
Qed.

Lemma byte_flag (bz : Z) : 0 <= bz < 256 ->
  Z.eqb (Z.land (wrap_u 64 bz) 128) 0 = N.eqb (N.land (Z.to_N bz) 128) 0.
Proof.
  intros Hb. rewrite (wrap_u_small 64 bz) by lia.
  replace (Z.land bz 128) with (Z.of_N (N.land (Z.to_N bz) 128))
    by (rewrite ofN_land, Z2N.id by lia; reflexivity).
  destruct (Z.eqb_spec (Z.of_N (N.land (Z.to_N bz) 128)) 0) as [H|H];
  destruct (N.eqb_spec (N.land (Z.to_N bz) 128) 0) as [H'|H']; try reflexivity; lia.
Qed.

(* ------------------------------------------------------------------------------------------ *)
(* list plumbing *)

Lemma skipn_cons_nth {A} (d : A) : forall n (l : list A) b rest,
  skipn n l = b :: rest -> nth n l d = b /\ skipn (S n) l = rest /\ (n < List.length l)%nat.
Proof.
  induction n as [|n IH]; intros l b rest H.
  - destruct l as [|x l]; [discriminate H|]. cbn [skipn] in H. injection H as Hx Hl. subst.
    cbn [nth skipn List.length]. repeat split. lia.
  - destruct l as [|x l]; [discriminate H|]. cbn [skipn] in H.
    destruct (IH l b rest H) as (H1 & H2 & H3). cbn [nth List.length]. repeat split; [exact H1|exact H2|lia].
Qed.

Lemma skipn_nil_len {A} n (l : list A) : skipn n l = [] -> (List.length l <= n)%nat.
Proof. intros H. pose proof (skipn_length n l) as HL. rewrite H in HL. cbn [List.length] in HL. lia. Qed.

Lemma byte_range_nth p n : byte_range p -> (n < List.length p)%nat -> 0 <= nth n p 0 < 256.
Proof.
  intros Hp Hn. unfold byte_range in Hp. rewrite Forall_forall in Hp. apply Hp. apply nth_In. exact Hn.
Qed.

Lemma go_idx_ok n p : (n < List.length p)%nat -> go_idx p (Z.of_nat n) = Val (nth n p 0).
Proof.
  intros Hn. unfold go_idx, go_len.
  destruct (Z.leb_spec 0 (Z.of_nat n)) as [_|H]; [|lia].
  destruct (Z.ltb_spec (Z.of_nat n) (Z.of_nat (List.length p))) as [_|H]; [|lia].
  cbn [andb]. rewrite Nat2Z.id. reflexivity.
Qed.

Lemma go_for_S {S R} f (c : S -> bool) (b : S -> gores (S + R)) s :
  go_for (Datatypes.S f) c b s =
  if c s then
    match b s with
    | Val (inl s') => go_for f c b s'
    | Val (inr r) => Val (inr r)
    | GoPanic => GoPanic
    | OutOfFuel => OutOfFuel
    end
  else Val (inl s).
Proof. reflexivity. Qed.

Lemma dv_small_cons f b p' shift v n :
  dv_small (S f) (b :: p') shift v n =
  if (N.land b 128 =? 0)%N then inl (N.lor v (N.shiftl (N.land b 127) shift mod 2^64)%N, S n)
  else dv_small f p' (shift + 7)%N (N.lor v (N.shiftl (N.land b 127) shift mod 2^64)%N) (S n).
Proof. reflexivity. Qed.

(* ------------------------------------------------------------------------------------------ *)
(* DecodeVarint, len(p) < 10: the loop over shift = 0, 7, ..., 63 *)

Definition rv : Type := (Z * Z * option String.string)%type.
Definition sm_state : Type := (list Z * Z * Z * option String.string * Z)%type.

Definition sm_cond : sm_state -> bool :=
  (fun st => let '(v_p, v_v, v_n, v_err, v_shift) := st in
  (Z.ltb v_shift 64)).
Definition sm_body : sm_state -> gores (sm_state + rv) :=
  (fun st => let '(v_p, v_v, v_n, v_err, v_shift) := st in
  if (Z.geb v_n (go_len v_p)) then
  (Val (inr (0, 0, (Some "io.ErrUnexpectedEOF"%string))))
  else
  (gbind (go_idx v_p v_n) (fun t3 =>
  let v_b := (wrap_u 64 t3) in
  let v_n := (wrap_s 64 (v_n + 1)) in
  let v_v := (Z.lor v_v (wrap_u 64 (Z.shiftl (Z.land v_b 127) v_shift))) in
  if (Z.eqb (Z.land v_b 128) 0) then
  (Val (inr (v_v, v_n, (@None String.string))))
  else
  let v_shift := (wrap_u 64 (v_shift + 7)) in
  (Val (inl (v_p, v_v, v_n, v_err, v_shift)))))).
Definition sm_cont : sm_state + rv -> gores rv :=
  (fun lr => match lr with
  | inl st => let '(v_p, v_v, v_n, v_err, v_shift) := st in
  (Val (0, 0, (Some "ErrValueOverflow"%string)))
  | inr r => (Val r) end).

Lemma sm_cond_eq p v n e s : sm_cond (p, v, n, e, s) = (s <? 64).
Proof. reflexivity. Qed.
Lemma sm_body_eq p v n e s : sm_body (p, v, n, e, s) =
  if Z.geb n (go_len p) then Val (inr (0, 0, Some "io.ErrUnexpectedEOF"%string))
  else gbind (go_idx p n) (fun t3 =>
    if Z.eqb (Z.land (wrap_u 64 t3) 128) 0
    then Val (inr (Z.lor v (wrap_u 64 (Z.shiftl (Z.land (wrap_u 64 t3) 127) s)), wrap_s 64 (n + 1), None))
    else Val (inl (p, Z.lor v (wrap_u 64 (Z.shiftl (Z.land (wrap_u 64 t3) 127) s)), wrap_s 64 (n + 1), e,
                   wrap_u 64 (s + 7)))).
Proof. reflexivity. Qed.

Lemma small_loop : forall k fuel p v n sN rest,
  byte_range p -> (List.length p < 10)%nat ->
  skipn n p = rest ->
  Z.of_N sN = 70 - 7 * Z.of_nat k -> (k <= 10)%nat ->
  (k + 1 <= fuel)%nat ->
  gbind (go_for fuel sm_cond sm_body (p, Z.of_N v, Z.of_nat n, None, Z.of_N sN)) sm_cont
  = Val (lift_varint (dv_small k (bytesN rest) sN v n)).
Proof.
  induction k as [|k IH]; intros fuel p v n sN rest Hp Hlen Hrest Hs Hk Hfuel.
  - destruct fuel as [|f]; [lia|]. rewrite go_for_S, sm_cond_eq.
    destruct (Z.ltb_spec (Z.of_N sN) 64) as [H|_]; [lia|]. reflexivity.
  - destruct fuel as [|f]; [lia|]. rewrite go_for_S, sm_cond_eq.
    destruct (Z.ltb_spec (Z.of_N sN) 64) as [_|H]; [|lia].
    rewrite sm_body_eq, Z.geb_leb. unfold go_len.
    destruct rest as [|b rest'].
    + apply skipn_nil_len in Hrest.
      destruct (Z.leb_spec (Z.of_nat (List.length p)) (Z.of_nat n)) as [_|H]; [|lia]. reflexivity.
    + destruct (skipn_cons_nth 0 n p b rest' Hrest) as (Hnth & Hskip & Hn).
      destruct (Z.leb_spec (Z.of_nat (List.length p)) (Z.of_nat n)) as [H|_]; [lia|].
      rewrite (go_idx_ok n p Hn), Hnth. cbn [gbind].
      pose proof (byte_range_nth p n Hp Hn) as Hb. rewrite Hnth in Hb.
      rewrite (byte_flag b Hb), (byte_step v sN b Hb).
      cbn [bytesN map]. rewrite dv_small_cons.
      rewrite (wrap_s64_small (Z.of_nat n + 1)) by lia.
      replace (Z.of_nat n + 1) with (Z.of_nat (S n)) by lia.
      destruct (N.land (Z.to_N b) 128 =? 0)%N.
      * reflexivity.
      * rewrite (wrap_u_small 64 (Z.of_N sN + 7)) by lia.
        replace (Z.of_N sN + 7) with (Z.of_N (sN + 7)) by lia.
        apply IH; try assumption; lia.
Qed.

(* ------------------------------------------------------------------------------------------ *)
(* DecodeVarint, len(p) >= 10: the loop over i = 1..9, shift = 7*i *)

Definition lg_state : Type := (list Z * Z * Z * option String.string * Z * Z)%type.

Definition lg_cond : lg_state -> bool :=
  (fun st => let '(v_p, v_v, v_n, v_err, v_i, v_shift) := st in
  (Z.ltb v_i 10)).
Definition lg_body : lg_state -> gores (lg_state + rv) :=
  (fun st => let '(v_p, v_v, v_n, v_err, v_i, v_shift) := st in
  (gbind (go_idx v_p v_i) (fun t5 =>
  let v_b := (wrap_u 64 t5) in
  (gbind (go_nonneg v_shift) (fun t6 =>
  let v_v := (Z.lor v_v (wrap_u 64 (Z.shiftl (Z.land v_b 127) t6))) in
  if (Z.eqb (Z.land v_b 128) 0) then
  (Val (inr (v_v, (wrap_s 64 (v_i + 1)), (@None String.string))))
  else
  let '(v_i, v_shift) := ((wrap_s 64 (v_i + 1)), (wrap_s 64 (v_shift + 7))) in
  (Val (inl (v_p, v_v, v_n, v_err, v_i, v_shift)))))))).
Definition lg_cont : lg_state + rv -> gores rv :=
  (fun lr => match lr with
  | inl st => let '(v_p, v_v, v_n, v_err, v_i, v_shift) := st in
  (Val (0, 0, (Some "ErrValueOverflow"%string)))
  | inr r => (Val r) end).

Lemma lg_cond_eq p v n e i s : lg_cond (p, v, n, e, i, s) = (i <? 10).
Proof. reflexivity. Qed.
Lemma lg_body_eq p v n e i s : lg_body (p, v, n, e, i, s) =
  gbind (go_idx p i) (fun t5 => gbind (go_nonneg s) (fun t6 =>
    if Z.eqb (Z.land (wrap_u 64 t5) 128) 0
    then Val (inr (Z.lor v (wrap_u 64 (Z.shiftl (Z.land (wrap_u 64 t5) 127) t6)), wrap_s 64 (i + 1), None))
    else Val (inl (p, Z.lor v (wrap_u 64 (Z.shiftl (Z.land (wrap_u 64 t5) 127) t6)), n, e,
                   wrap_s 64 (i + 1), wrap_s 64 (s + 7))))).
Proof. reflexivity. Qed.

Lemma large_loop : forall k fuel p v n0 e0 i sN rest,
  byte_range p -> (10 <= List.length p)%nat ->
  skipn i p = rest ->
  (i + k = 10)%nat -> Z.of_N sN = 7 * Z.of_nat i ->
  (k + 1 <= fuel)%nat ->
  gbind (go_for fuel lg_cond lg_body (p, Z.of_N v, n0, e0, Z.of_nat i, Z.of_N sN)) lg_cont
  = Val (lift_varint (dv_small k (firstn k (bytesN rest)) sN v i)).
Proof.
  induction k as [|k IH]; intros fuel p v n0 e0 i sN rest Hp Hlen Hrest Hik Hs Hfuel.
  - destruct fuel as [|f]; [lia|]. rewrite go_for_S, lg_cond_eq.
    destruct (Z.ltb_spec (Z.of_nat i) 10) as [H|_]; [lia|]. reflexivity.
  - destruct fuel as [|f]; [lia|]. rewrite go_for_S, lg_cond_eq.
    destruct (Z.ltb_spec (Z.of_nat i) 10) as [_|H]; [|lia].
    rewrite lg_body_eq.
    destruct rest as [|b rest'].
    { apply skipn_nil_len in Hrest. lia. }
    destruct (skipn_cons_nth 0 i p b rest' Hrest) as (Hnth & Hskip & Hn).
    rewrite (go_idx_ok i p Hn), Hnth. cbn [gbind].
    unfold go_nonneg. destruct (Z.leb_spec 0 (Z.of_N sN)) as [_|H]; [|lia]. cbn [gbind].
    pose proof (byte_range_nth p i Hp Hn) as Hb. rewrite Hnth in Hb.
    rewrite (byte_flag b Hb), (byte_step v sN b Hb).
    cbn [bytesN map firstn]. rewrite dv_small_cons.
    rewrite (wrap_s64_small (Z.of_nat i + 1)) by lia.
    replace (Z.of_nat i + 1) with (Z.of_nat (S i)) by lia.
    destruct (N.land (Z.to_N b) 128 =? 0)%N.
    + reflexivity.
    + rewrite (wrap_s64_small (Z.of_N sN + 7)) by lia.
      replace (Z.of_N sN + 7) with (Z.of_N (sN + 7)) by lia.
      apply IH; try assumption; lia.
Qed.

(* ------------------------------------------------------------------------------------------ *)
(* D1 *)

Lemma src_DecodeVarint fuel p : (11 <= fuel)%nat -> byte_range p ->
  go_DecodeVarint fuel p = Val (lift_varint (dec_varint (bytesN p))).
Proof.
  intros Hfuel Hp. unfold go_DecodeVarint. cbv beta iota zeta.
  destruct p as [|b0 r]; [reflexivity|].
  assert (Hb0 : 0 <= b0 < 256) by (inversion Hp; assumption).
  unfold go_len at 1. cbn [List.length].
  destruct (Z.eqb_spec (Z.of_nat (S (List.length r))) 0) as [H|_]; [lia|].
  assert (Hidx : go_idx (b0 :: r) 0 = Val b0).
  { apply (go_idx_ok 0 (b0 :: r)). cbn [List.length]. lia. }
  rewrite Hidx. cbn [gbind].
  cbn [bytesN map]. fold (bytesN r). unfold dec_varint.
  destruct (Z.ltb_spec b0 128) as [Hlo|Hhi].
  - destruct (N.ltb_spec (Z.to_N b0) 128) as [_|H]; [|lia].
    cbn [lift_varint]. rewrite wrap_u_small by lia. rewrite Z2N.id by lia. reflexivity.
  - destruct (N.ltb_spec (Z.to_N b0) 128) as [H|_]; [lia|].
    cbn [List.length]. unfold bytesN at 1. rewrite map_length. unfold go_len. cbn [List.length].
    destruct (Z.ltb_spec (Z.of_nat (S (List.length r))) 10) as [Hlt|Hge].
    + destruct (Nat.ltb_spec (S (List.length r)) 10) as [_|H]; [|lia].
      apply (small_loop 10 fuel (b0 :: r) 0%N 0%nat 0%N (b0 :: r)); try assumption;
        try reflexivity; cbn [List.length]; lia.
    + destruct (Nat.ltb_spec (S (List.length r)) 10) as [H|_]; [lia|].
      cbn [firstn]. rewrite dv_small_cons.
      assert (Hflag : (N.land (Z.to_N b0) 128 =? 0)%N = false).
      { replace (Z.to_N b0) with ((Z.to_N b0 - 128) + 128)%N by lia. apply land128_hi. lia. }
      rewrite Hflag.
      assert (Hv0 : (N.lor 0 (N.shiftl (N.land (Z.to_N b0) 127) 0 mod 2^64) = N.land (Z.to_N b0) 127)%N).
      { rewrite N.lor_0_l, N.shiftl_0_r, land127. apply N.mod_small.
        pose proof (N.mod_lt (Z.to_N b0) 128 ltac:(lia)) as Hm. lia. }
      rewrite Hv0.
      assert (Hgo : wrap_u 64 (Z.land b0 127) = Z.of_N (N.land (Z.to_N b0) 127)).
      { rewrite ofN_land, Z2N.id by lia. change (Z.of_N 127) with 127.
        apply wrap_u_small.
        replace (Z.land b0 127) with (Z.of_N (N.land (Z.to_N b0) 127))
          by (rewrite ofN_land, Z2N.id by lia; reflexivity).
        rewrite land127. pose proof (N.mod_lt (Z.to_N b0) 128 ltac:(lia)) as Hm. lia. }
      rewrite Hgo.
      apply (large_loop 9 fuel (b0 :: r) (N.land (Z.to_N b0) 127) 0 None 1%nat 7%N r); try assumption;
        try reflexivity; cbn [List.length]; lia.
Qed.

(* ------------------------------------------------------------------------------------------ *)
(* D2, D3: zig-zag *)

Lemma lor_lt64 a b : (a < 2^64 -> b < 2^64 -> N.lor a b < 2^64)%N.
Proof.
  intros Ha Hb.
  assert (H : (N.lor a b = N.lor a b mod 2^64)%N).
  { rewrite <- (N.land_ones (N.lor a b)), N.land_lor_distr_l, !N.land_ones, !N.mod_small by assumption.
    reflexivity. }
  rewrite H. apply N.mod_lt. discriminate.
Qed.

Lemma dv_small_bound : forall k p s v n v' n', (v < 2^64)%N ->
  dv_small k p s v n = inl (v', n') -> (v' < 2^64)%N /\ (n < n')%nat.
Proof.
  induction k as [|k IH]; intros p s v n v' n' Hv H; [discriminate H|].
  destruct p as [|b p']; [discriminate H|]. rewrite dv_small_cons in H.
  assert (Hv1 : (N.lor v (N.shiftl (N.land b 127) s mod 2^64) < 2^64)%N).
  { apply lor_lt64; [exact Hv|]. apply N.mod_lt. discriminate. }
  destruct (N.land b 128 =? 0)%N.
  - injection H as H1 H2. subst v' n'. split; [exact Hv1|lia].
  - destruct (IH _ _ _ _ _ _ Hv1 H) as [H1 H2]. split; [exact H1|lia].
Qed.

Lemma dec_varint_bound p v n : dec_varint p = inl (v, n) -> (v < 2^64)%N /\ (1 <= n)%nat.
Proof.
  unfold dec_varint. destruct p as [|b0 r]; [intros H; discriminate H|].
  destruct (N.ltb_spec b0 128) as [Hlo|Hhi].
  - intros H. injection H as H1 H2. subst v n. split; lia.
  - assert (H0 : (0 < 2^64)%N) by reflexivity.
    destruct (List.length (b0 :: r) <? 10)%nat; intros H;
      destruct (dv_small_bound _ _ _ _ _ _ _ H0 H) as [H1 H2]; split; [exact H1|lia|exact H1|lia].
Qed.

Lemma wrap_s_iw64 z : wrap_s 64 z = iw 64 z.
Proof.
  unfold wrap_s, iw, two, half. change (64 - 1) with 63. cbv zeta.
  pose proof (Z.div_mod z (2^64) ltac:(lia)) as Hdm.
  pose proof (Z.mod_pos_bound z (2^64) ltac:(lia)) as Hm.
  set (q := z / 2^64) in *. set (m := z mod 2^64) in *.
  destruct (Z.ltb_spec m (2^63)) as [Hlt|Hge].
  - assert (H : (z + 2^63) mod 2^64 = m + 2^63).
    { symmetry. apply (Z.mod_unique _ _ q); lia. }
    rewrite H. lia.
  - assert (H : (z + 2^63) mod 2^64 = m + 2^63 - 2^64).
    { symmetry. apply (Z.mod_unique _ _ (q + 1)); lia. }
    rewrite H. lia.
Qed.

Lemma wrap_s_iw32 z : wrap_s 32 z = iw 32 z.
Proof.
  unfold wrap_s, iw, two, half. change (32 - 1) with 31. cbv zeta.
  pose proof (Z.div_mod z (2^32) ltac:(lia)) as Hdm.
  pose proof (Z.mod_pos_bound z (2^32) ltac:(lia)) as Hm.
  set (q := z / 2^32) in *. set (m := z mod 2^32) in *.
  destruct (Z.ltb_spec m (2^31)) as [Hlt|Hge].
  - assert (H : (z + 2^31) mod 2^32 = m + 2^31).
    { symmetry. apply (Z.mod_unique _ _ q); lia. }
    rewrite H. lia.
  - assert (H : (z + 2^31) mod 2^32 = m + 2^31 - 2^32).
    { symmetry. apply (Z.mod_unique _ _ (q + 1)); lia. }
    rewrite H. lia.
Qed.

Lemma iw32_wrap_u64 z : iw 32 (wrap_u 64 z) = iw 32 z.
Proof.
  unfold iw, two, wrap_u. cbv zeta.
  assert (H : (z mod 2^64) mod 2^32 = z mod 2^32).
  { symmetry. apply Znumtheory.Zmod_div_mod; [lia|lia|]. exists (2^32). reflexivity. }
  rewrite H. reflexivity.
Qed.

Lemma zz64_eq dv : 0 <= dv < 2^64 ->
  wrap_s 64 (Z.lxor (Z.shiftr dv 1)
    (wrap_u 64 (Z.shiftr (wrap_s 64 (Z.shiftl (wrap_s 64 (Z.land dv 1)) 63)) 63)))
  = dec_zz64 dv.
Proof.
  intros Hdv. unfold dec_zz64, dec_zz. rewrite !wrap_s_iw64. unfold uw, two, wrap_u.
  rewrite (Z.mod_small dv) by lia. change (64 - 1) with 63. reflexivity.
Qed.

Lemma zz32_eq dv :
  wrap_s 32 (wrap_u 64 (Z.lxor (Z.shiftr (wrap_u 32 dv) 1)
    (wrap_u 32 (Z.shiftr (wrap_s 32 (Z.shiftl (wrap_s 32 (Z.land dv 1)) 31)) 31))))
  = dec_zz32 dv.
Proof.
  unfold dec_zz32, dec_zz. rewrite !wrap_s_iw32, iw32_wrap_u64. unfold uw, two, wrap_u.
  change (32 - 1) with 31. reflexivity.
Qed.

Lemma src_DecodeZigZag64 fuel p : (11 <= fuel)%nat -> byte_range p ->
  go_DecodeZigZag64 fuel p = Val (lift_zz dec_zz64 (dec_varint (bytesN p))).
Proof.
  intros Hfuel Hp. unfold go_DecodeZigZag64. cbv beta iota zeta.
  rewrite (src_DecodeVarint fuel p Hfuel Hp).
  destruct (dec_varint (bytesN p)) as [[v n]|e] eqn:E.
  - destruct (dec_varint_bound _ _ _ E) as [Hv Hn].
    cbn [lift_varint lift_zz gbind go_err_eqb negb].
    destruct (Z.eqb_spec (Z.of_nat n) 0) as [H|_]; [lia|].
    rewrite zz64_eq by lia. reflexivity.
  - reflexivity.
Qed.

Lemma src_DecodeZigZag32 fuel p : (11 <= fuel)%nat -> byte_range p ->
  go_DecodeZigZag32 fuel p = Val (lift_zz dec_zz32 (dec_varint (bytesN p))).
Proof.
  intros Hfuel Hp. unfold go_DecodeZigZag32. cbv beta iota zeta.
  rewrite (src_DecodeVarint fuel p Hfuel Hp).
  destruct (dec_varint (bytesN p)) as [[v n]|e] eqn:E.
  - destruct (dec_varint_bound _ _ _ E) as [Hv Hn].
    cbn [lift_varint lift_zz gbind go_err_eqb negb].
    destruct (Z.eqb_spec (Z.of_nat n) 0) as [H|_]; [lia|].
    rewrite zz32_eq. reflexivity.
  - reflexivity.
Qed.

(* ------------------------------------------------------------------------------------------ *)
(* D4, D5: fixed-width little-endian *)

Lemma lor_disjoint_add a c k : 0 <= k -> 0 <= a < 2^k -> Z.lor a (c * 2^k) = a + c * 2^k.
Proof.
  intros Hk Ha.
  assert (Hland : Z.land a (c * 2^k) = 0).
  { apply Z.bits_inj'. intros j Hj. rewrite Z.land_spec, Z.bits_0.
    destruct (Z.lt_ge_cases j k) as [Hlt|Hge].
    - rewrite Z.mul_pow2_bits_low by lia. apply andb_false_r.
    - rewrite <- (Z.mod_small a (2^k)) by lia. rewrite Z.mod_pow2_bits_high by lia. reflexivity. }
  rewrite <- Z.lxor_lor by exact Hland. symmetry. apply Z.add_nocarry_lxor. exact Hland.
Qed.

Lemma lor_byte w a b k : 0 <= k -> 0 <= a < 2^k -> 0 <= b < 256 -> 256 <= 2^w -> b * 2^k < 2^w ->
  Z.lor a (wrap_u w (Z.shiftl (wrap_u w b) k)) = a + b * 2^k.
Proof.
  intros Hk Ha Hb Hw Hbk. rewrite (wrap_u_small w b) by lia.
  rewrite Z.shiftl_mul_pow2 by lia.
  assert (H2k : 0 < 2^k) by (apply Z.pow_pos_nonneg; lia).
  rewrite wrap_u_small by (split; [apply Z.mul_nonneg_nonneg; lia|exact Hbk]).
  apply lor_disjoint_add; assumption.
Qed.

Lemma src_DecodeFixed32 fuel p : byte_range p -> go_DecodeFixed32 fuel p = Val (lift_fixed 4 p).
Proof.
  intros Hp. unfold go_DecodeFixed32, lift_fixed. cbv beta iota zeta. unfold go_len at 1.
  destruct (Z.ltb_spec (Z.of_nat (List.length p)) 4) as [Hlt|Hge];
    destruct (Nat.ltb_spec (List.length p) 4) as [Hlt'|Hge']; try lia; [reflexivity|].
  destruct p as [|b0 [|b1 [|b2 [|b3 r]]]]; try (cbn [List.length] in Hge'; lia).
  assert (Hs : go_slice (b0 :: b1 :: b2 :: b3 :: r) 0 4 = Val [b0; b1; b2; b3]).
  { unfold go_slice, go_len. cbn [List.length].
    destruct (Z.leb_spec 4 (Z.of_nat (S (S (S (S (List.length r))))))) as [_|H]; [reflexivity|lia]. }
  rewrite Hs. cbn [gbind].
  change (go_idx [b0; b1; b2; b3] 0) with (Val b0).
  change (go_idx [b0; b1; b2; b3] 1) with (Val b1).
  change (go_idx [b0; b1; b2; b3] 2) with (Val b2).
  change (go_idx [b0; b1; b2; b3] 3) with (Val b3).
  cbn [gbind].
  inversion Hp as [|x0 l0 Hb0 Hp0]; subst. inversion Hp0 as [|x1 l1 Hb1 Hp1]; subst.
  inversion Hp1 as [|x2 l2 Hb2 Hp2]; subst. inversion Hp2 as [|x3 l3 Hb3 Hp3]; subst.
  rewrite (wrap_u_small 32 b0) by lia.
  rewrite (lor_byte 32 _ b1 8) by lia.
  rewrite (lor_byte 32 _ b2 16) by lia.
  rewrite (lor_byte 32 _ b3 24) by lia.
  cbn [bytesN map firstn le_val].
  do 2 f_equal. f_equal. lia.
Qed.

Lemma src_DecodeFixed64 fuel p : byte_range p -> go_DecodeFixed64 fuel p = Val (lift_fixed 8 p).
Proof.
  intros Hp. unfold go_DecodeFixed64, lift_fixed. cbv beta iota zeta. unfold go_len at 1.
  destruct (Z.ltb_spec (Z.of_nat (List.length p)) 8) as [Hlt|Hge];
    destruct (Nat.ltb_spec (List.length p) 8) as [Hlt'|Hge']; try lia; [reflexivity|].
  destruct p as [|b0 [|b1 [|b2 [|b3 [|b4 [|b5 [|b6 [|b7 r]]]]]]]]; try (cbn [List.length] in Hge'; lia).
  assert (Hs : go_slice (b0 :: b1 :: b2 :: b3 :: b4 :: b5 :: b6 :: b7 :: r) 0 8
               = Val [b0; b1; b2; b3; b4; b5; b6; b7]).
  { unfold go_slice, go_len. cbn [List.length].
    destruct (Z.leb_spec 8 (Z.of_nat (S (S (S (S (S (S (S (S (List.length r))))))))))) as [_|H];
      [reflexivity|lia]. }
  rewrite Hs. cbn [gbind].
  change (go_idx [b0; b1; b2; b3; b4; b5; b6; b7] 0) with (Val b0).
  change (go_idx [b0; b1; b2; b3; b4; b5; b6; b7] 1) with (Val b1).
  change (go_idx [b0; b1; b2; b3; b4; b5; b6; b7] 2) with (Val b2).
  change (go_idx [b0; b1; b2; b3; b4; b5; b6; b7] 3) with (Val b3).
  change (go_idx [b0; b1; b2; b3; b4; b5; b6; b7] 4) with (Val b4).
  change (go_idx [b0; b1; b2; b3; b4; b5; b6; b7] 5) with (Val b5).
  change (go_idx [b0; b1; b2; b3; b4; b5; b6; b7] 6) with (Val b6).
  change (go_idx [b0; b1; b2; b3; b4; b5; b6; b7] 7) with (Val b7).
  cbn [gbind].
  inversion Hp as [|x0 l0 Hb0 Hp0]; subst. inversion Hp0 as [|x1 l1 Hb1 Hp1]; subst.
  inversion Hp1 as [|x2 l2 Hb2 Hp2]; subst. inversion Hp2 as [|x3 l3 Hb3 Hp3]; subst.
  inversion Hp3 as [|x4 l4 Hb4 Hp4]; subst. inversion Hp4 as [|x5 l5 Hb5 Hp5]; subst.
  inversion Hp5 as [|x6 l6 Hb6 Hp6]; subst. inversion Hp6 as [|x7 l7 Hb7 Hp7]; subst.
  rewrite (wrap_u_small 64 b0) by lia.
  rewrite (lor_byte 64 _ b1 8) by lia.
  rewrite (lor_byte 64 _ b2 16) by lia.
  rewrite (lor_byte 64 _ b3 24) by lia.
  rewrite (lor_byte 64 _ b4 32) by lia.
  rewrite (lor_byte 64 _ b5 40) by lia.
  rewrite (lor_byte 64 _ b6 48) by lia.
  rewrite (lor_byte 64 _ b7 56) by lia.
  cbn [bytesN map firstn le_val].
  do 2 f_equal. f_equal. lia.
Qed.

Print Assumptions src_DecodeVarint.
Print Assumptions src_DecodeZigZag64.
Print Assumptions src_DecodeZigZag32.
Print Assumptions src_DecodeFixed32.
Print Assumptions src_DecodeFixed64.
