(* C01 at source level for the Encoder methods: on a buffer with exactly the room the size helpers predict at the cursor,
   the method AS WRITTEN in encoder.go fills that room with the field's encoding, touches nothing else, advances the cursor by
   the prediction and does not panic.  "translated method = model step" (SrcEncMethods) composed with the model's
   exactness theorem (EncProofs.encode_exact). *)
From CsProto Require Import Prelude Varint ZigZag Codec WireStmts CodecProofs GoSem SrcWire SrcLink SrcCompose SrcEncoderLink SrcEncMethods.
Local Open Scope Z_scope.

Lemma exact_of_abs (r : gores (unit * list Z * Z)) op pre room post :
  abs_enc r = Some (estep {| ebuf := pre ++ room ++ post; eoff := List.length pre |} op) ->
  op_ok op -> List.length room = esize op ->
  exists p off, r = Val (tt, p, off) /\ bytesN p = pre ++ ebytes op ++ post
                /\ Z.to_nat off = (List.length pre + esize op)%nat.
Proof.
  intros Habs Hok Hroom.
  rewrite (proj1 (encode_exact op pre room post Hok Hroom)) in Habs.
  destruct r as [[[u p] off]| |]; cbn in Habs; try discriminate.
  inversion Habs as [[Hp Ho]]. destruct u. exists p, off. repeat split; assumption.
Qed.

Definition buf_ok (pre room post : list N) : Prop :=
  bytes_ok (pre ++ room ++ post) /\ Z.of_nat (List.length (pre ++ room ++ post)) < 2^62.

Lemma buf_est_ok pre room post : buf_ok pre room post -> est_ok {| ebuf := pre ++ room ++ post; eoff := List.length pre |}.
Proof.
  intros [Hb Hl]. unfold est_ok; cbn [ebuf eoff]. split; [exact Hb|]. split; [|exact Hl].
  rewrite app_length in Hl. lia.
Qed.

Section Exact.
Variables (fuel : nat) (pre room post : list N) (tag : Z).
Hypothesis Hfuel : (11 <= fuel)%nat.
Hypothesis Hbuf : buf_ok pre room post.
Hypothesis Htag : 1 <= tag <= 536870911.
Let B := bytesZ (pre ++ room ++ post).
Let O := Z.of_nat (List.length pre).
Let e0 := {| ebuf := pre ++ room ++ post; eoff := List.length pre |}.

Lemma tag_ok_of : tag_ok (Z.to_N tag).
Proof. unfold tag_ok, max_tag. lia. Qed.

Definition exact_outcome (r : gores (unit * list Z * Z)) (op : eop) : Prop :=
  exists p off, r = Val (tt, p, off) /\ bytesN p = pre ++ ebytes op ++ post /\ Z.to_nat off = (List.length pre + esize op)%nat.

Theorem src_exact_EncodeBool b : List.length room = esize (EScalar KBool (Z.to_N tag) (conv_b b)) ->
  exact_outcome (go_Encoder_EncodeBool fuel B O tag b) (EScalar KBool (Z.to_N tag) (conv_b b)).
Proof.
  intros Hr. apply (exact_of_abs _ _ pre room post); [|split; [apply tag_ok_of|destruct b; reflexivity]|exact Hr].
  exact (src_Encoder_EncodeBool fuel e0 tag b Hfuel (buf_est_ok _ _ _ Hbuf) Htag).
Qed.
Theorem src_exact_EncodeUInt32 v : 0 <= v < 2^32 -> List.length room = esize (EScalar KUInt32 (Z.to_N tag) v) ->
  exact_outcome (go_Encoder_EncodeUInt32 fuel B O tag v) (EScalar KUInt32 (Z.to_N tag) v).
Proof.
  intros Hv Hr. apply (exact_of_abs _ _ pre room post); [|split; [apply tag_ok_of|cbn [in_dom]; lia]|exact Hr].
  exact (src_Encoder_EncodeUInt32 fuel e0 tag v Hfuel (buf_est_ok _ _ _ Hbuf) Htag Hv).
Qed.
Theorem src_exact_EncodeUInt64 v : 0 <= v < 2^64 -> List.length room = esize (EScalar KUInt64 (Z.to_N tag) v) ->
  exact_outcome (go_Encoder_EncodeUInt64 fuel B O tag v) (EScalar KUInt64 (Z.to_N tag) v).
Proof.
  intros Hv Hr. apply (exact_of_abs _ _ pre room post); [|split; [apply tag_ok_of|cbn [in_dom]; lia]|exact Hr].
  exact (src_Encoder_EncodeUInt64 fuel e0 tag v Hfuel (buf_est_ok _ _ _ Hbuf) Htag Hv).
Qed.
Theorem src_exact_EncodeInt32 v : - 2^31 <= v < 2^31 -> List.length room = esize (EScalar KInt32 (Z.to_N tag) v) ->
  exact_outcome (go_Encoder_EncodeInt32 fuel B O tag v) (EScalar KInt32 (Z.to_N tag) v).
Proof.
  intros Hv Hr. apply (exact_of_abs _ _ pre room post); [|split; [apply tag_ok_of|cbn [in_dom]; lia]|exact Hr].
  exact (src_Encoder_EncodeInt32 fuel e0 tag v Hfuel (buf_est_ok _ _ _ Hbuf) Htag Hv).
Qed.
Theorem src_exact_EncodeInt64 v : - 2^63 <= v < 2^63 -> List.length room = esize (EScalar KInt64 (Z.to_N tag) v) ->
  exact_outcome (go_Encoder_EncodeInt64 fuel B O tag v) (EScalar KInt64 (Z.to_N tag) v).
Proof.
  intros Hv Hr. apply (exact_of_abs _ _ pre room post); [|split; [apply tag_ok_of|cbn [in_dom]; lia]|exact Hr].
  exact (src_Encoder_EncodeInt64 fuel e0 tag v Hfuel (buf_est_ok _ _ _ Hbuf) Htag Hv).
Qed.
Theorem src_exact_EncodeSInt32 v : - 2^31 <= v < 2^31 -> List.length room = esize (EScalar KSInt32 (Z.to_N tag) v) ->
  exact_outcome (go_Encoder_EncodeSInt32 fuel B O tag v) (EScalar KSInt32 (Z.to_N tag) v).
Proof.
  intros Hv Hr. apply (exact_of_abs _ _ pre room post); [|split; [apply tag_ok_of|cbn [in_dom]; lia]|exact Hr].
  exact (src_Encoder_EncodeSInt32 fuel e0 tag v Hfuel (buf_est_ok _ _ _ Hbuf) Htag Hv).
Qed.
Theorem src_exact_EncodeSInt64 v : - 2^63 <= v < 2^63 -> List.length room = esize (EScalar KSInt64 (Z.to_N tag) v) ->
  exact_outcome (go_Encoder_EncodeSInt64 fuel B O tag v) (EScalar KSInt64 (Z.to_N tag) v).
Proof.
  intros Hv Hr. apply (exact_of_abs _ _ pre room post); [|split; [apply tag_ok_of|cbn [in_dom]; lia]|exact Hr].
  exact (src_Encoder_EncodeSInt64 fuel e0 tag v Hfuel (buf_est_ok _ _ _ Hbuf) Htag Hv).
Qed.
Theorem src_exact_EncodeMapEntryHeader size : 0 <= size < 2^63 -> List.length room = esize (EMapHeader (Z.to_N tag) (Z.to_N size)) ->
  exact_outcome (go_Encoder_EncodeMapEntryHeader fuel B O tag size) (EMapHeader (Z.to_N tag) (Z.to_N size)).
Proof.
  intros Hv Hr. apply (exact_of_abs _ _ pre room post); [|split; [apply tag_ok_of|lia]|exact Hr].
  exact (src_Encoder_EncodeMapEntryHeader fuel e0 tag size Hfuel (buf_est_ok _ _ _ Hbuf) Htag Hv).
Qed.
End Exact.

Print Assumptions src_exact_EncodeBool.
Print Assumptions src_exact_EncodeSInt64.
Print Assumptions src_exact_EncodeMapEntryHeader.
