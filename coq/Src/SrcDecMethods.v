(* The translated Decoder methods of Src/SrcWire.v (DecodeTag, DecodeBool, DecodeUInt32 ... DecodeFixed64, generated
   from decoder.go) compute what the hand-written decoder model (Wire/Codec.v: dec_tag, dec_scalar) says. *)
From CsProto Require Import Prelude Varint VarintProof VarintSize ZigZag Codec CodecBase GoSem SrcWire SrcLink SrcEncProofs SrcDecProofs SrcCompose SrcDecoderLink SafeProofs.
Local Open Scope Z_scope.
Local Arguments Z.pow : simpl never.
Local Arguments N.pow : simpl never.

(* ------------------------------------------------------------------------------------------ *)
(* the common prefix: EOF test and d.p[d.offset:] *)

Lemma st_len d : go_len (st_p d) = Z.of_nat (List.length (dbuf d)).
Proof. unfold go_len, st_p. rewrite bytesZ_length. reflexivity. Qed.

Lemma st_eof d : Z.geb (st_off d) (go_len (st_p d)) = at_eof d.
Proof.
  rewrite st_len. unfold st_off, at_eof. rewrite Z.geb_leb.
  destruct (Nat.leb_spec (List.length (dbuf d)) (doff d)) as [Hle|Hgt].
  - apply Z.leb_le. lia.
  - apply Z.leb_gt. lia.
Qed.

Lemma st_slice d : (doff d <= List.length (dbuf d))%nat ->
  go_slice (st_p d) (st_off d) (go_len (st_p d)) = Val (bytesZ (skipn (doff d) (dbuf d))).
Proof.
  intros Ho. unfold go_slice. rewrite st_len. unfold st_off.
  destruct (Z.leb_spec 0 (Z.of_nat (doff d))) as [_|Hneg]; [|lia].
  destruct (Z.leb_spec (Z.of_nat (doff d)) (Z.of_nat (List.length (dbuf d)))) as [_|Hgt]; [|lia].
  rewrite Z.leb_refl. cbn [andb]. rewrite Nat2Z.id. unfold st_p, bytesZ. rewrite skipn_map.
  rewrite firstn_all2; [reflexivity|]. rewrite map_length, skipn_length. lia.
Qed.

Lemma go_from_ok {A} p lo (k : list N -> dres A) : (lo <= List.length p)%nat -> go_from p lo k = k (skipn lo p).
Proof.
  intros Hlo. unfold go_from. destruct (Nat.ltb_spec (List.length p) lo) as [Hlt|_]; [lia|reflexivity].
Qed.

Lemma rest_range d : st_ok d -> byte_range (bytesZ (skipn (doff d) (dbuf d))).
Proof. intros (Hb & _ & _). apply byte_range_bytesZ. apply Forall_skipn. exact Hb. Qed.

(* the cursor afterwards *)
Lemma with_off_same d : with_off d (st_off d) = d.
Proof. destruct d as [b o f]. unfold with_off, st_off. cbn [dbuf doff dfast]. rewrite Nat2Z.id. reflexivity. Qed.

Lemma with_off_adv d n : st_ok d -> (n <= List.length (skipn (doff d) (dbuf d)))%nat ->
  with_off d (wrap_s 64 (st_off d + Z.of_nat n)) = dadv d n.
Proof.
  intros (_ & Ho & Hl) Hn. rewrite skipn_length in Hn. unfold st_off.
  rewrite wrap_s64_small by lia.
  unfold with_off, dadv. rewrite <- Nat2Z.inj_add, Nat2Z.id. reflexivity.
Qed.

(* the model's typed readers, with the slice guard discharged *)
Lemma dec_scalar_varint d k : is_varint_kind k = true -> (doff d <= List.length (dbuf d))%nat ->
  dec_scalar d k =
  if at_eof d then DErr d else
  match dec_varint (skipn (doff d) (dbuf d)) with
  | inr _ => DErr d
  | inl (v, n) => match of_wire k v with None => DErr d | Some z => DOk z (dadv d n) end
  end.
Proof.
  intros Hk Ho. unfold dec_scalar. rewrite go_from_ok by exact Ho. unfold read_elem. rewrite Hk.
  destruct (at_eof d); [reflexivity|].
  destruct (dec_varint (skipn (doff d) (dbuf d))) as [[v n]|e]; [|reflexivity].
  destruct (of_wire k v); reflexivity.
Qed.

Lemma dec_scalar_fixed d k : k = KFixed32 \/ k = KFixed64 -> (doff d <= List.length (dbuf d))%nat ->
  dec_scalar d k =
  if at_eof d then DErr d else
  if (List.length (skipn (doff d) (dbuf d)) <? width_of k)%nat then DErr d
  else DOk (Z.of_N (le_val (firstn (width_of k) (skipn (doff d) (dbuf d))))) (dadv d (width_of k)).
Proof.
  intros Hk Ho. unfold dec_scalar. rewrite go_from_ok by exact Ho.
  destruct (at_eof d); [reflexivity|].
  destruct Hk as [-> | ->]; unfold read_elem; cbn [is_varint_kind width_of Nat.eqb of_wire];
    match goal with |- context [(?a <? ?b)%nat] => destruct (a <? b)%nat end; reflexivity.
Qed.

(* ------------------------------------------------------------------------------------------ *)
(* value conversions *)

Lemma tag_num v : (N.shiftr v 3 <= max_tag)%N -> Z.to_N (wrap_s 64 (Z.shiftr (Z.of_N v) 3)) = N.shiftr v 3.
Proof.
  intros Hm. change 3 with (Z.of_N 3). rewrite <- ofN_shiftr. unfold max_tag in Hm.
  rewrite wrap_s64_small by lia. apply N2Z.id.
Qed.

Lemma land7_lt v : (N.land v 7 < 8)%N.
Proof. change 7%N with (N.ones 3). rewrite N.land_ones. apply N.mod_lt. discriminate. Qed.

Lemma tag_wt v : Z.to_N (wrap_s 64 (Z.land (Z.of_N v) 7)) = N.land v 7.
Proof.
  change 7 with (Z.of_N 7). rewrite <- ofN_land. pose proof (land7_lt v) as Hlt.
  rewrite wrap_s64_small by lia. apply N2Z.id.
Qed.

Lemma tag_cond v n : (1 <= n)%nat ->
  orb (orb (Z.ltb (Z.of_nat n) 1) (Z.ltb (Z.of_N v) 1)) (Z.gtb (Z.shiftr (Z.of_N v) 3) 536870911)
  = ((v <? 1)%N || (max_tag <? N.shiftr v 3)%N).
Proof.
  intros Hn. change 3 with (Z.of_N 3). rewrite <- ofN_shiftr. unfold max_tag. rewrite Z.gtb_ltb.
  destruct (Z.ltb_spec (Z.of_nat n) 1) as [H1|_]; [lia|]. cbn [orb].
  destruct (Z.ltb_spec (Z.of_N v) 1) as [H2|H2]; destruct (N.ltb_spec v 1) as [H3|H3];
    try (exfalso; lia); cbn [orb]; try reflexivity.
  destruct (Z.ltb_spec 536870911 (Z.of_N (N.shiftr v 3))) as [H4|H4];
    destruct (N.ltb_spec 536870911 (N.shiftr v 3)) as [H5|H5]; try (exfalso; lia); reflexivity.
Qed.

(* int32(v) when int64(v) fits int32 *)
Lemma wrap_s32_of_64 v : 0 <= v < 2^64 -> - 2147483648 <= wrap_s 64 v <= 2147483647 -> wrap_s 32 v = wrap_s 64 v.
Proof.
  intros Hv Hr. unfold wrap_s in *. change (64 - 1) with 63 in *. change (32 - 1) with 31.
  change (2^31) with 2147483648.
  destruct (Z_lt_ge_dec v (2^63)) as [Hlt|Hge].
  - rewrite (Z.mod_small (v + 2^63)) in * by lia.
    rewrite Z.mod_small; [lia|]. change (2^32) with 4294967296. lia.
  - assert (Hq : (v + 2^63) mod 2^64 = v + 2^63 - 2^64).
    { symmetry. apply (Z.mod_unique (v + 2^63) (2^64) 1 (v + 2^63 - 2^64)); lia. }
    rewrite Hq in *.
    assert (Hq2 : (v + 2147483648) mod 2^32 = v - 2^64 + 2147483648).
    { symmetry. apply (Z.mod_unique (v + 2147483648) (2^32) (2^32) (v - 2^64 + 2147483648)).
      - change (2^32) with 4294967296. lia.
      - change (2^32 * 2^32) with (2^64). lia. }
    rewrite Hq2. lia.
Qed.

(* ------------------------------------------------------------------------------------------ *)
(* the methods *)

(* opens a method: EOF branch closed, slice taken, inner decoder rewritten by [lem] *)
Ltac open_method Hok Ho :=
  cbv beta iota zeta; rewrite st_eof;
  destruct (at_eof _) eqn:Eeof;
  [ cbn [abs_res]; rewrite with_off_same; reflexivity
  | rewrite (st_slice _ Ho); cbn [gbind] ].

(* M1 *)
Lemma src_Decoder_DecodeTag fuel d : (11 <= fuel)%nat -> st_ok d ->
  abs_res conv_tag d (go_Decoder_DecodeTag fuel (st_p d) (st_off d) (st_mode d)) = Some (dec_tag d).
Proof.
  intros Hfuel Hok. pose proof Hok as (Hb & Ho & Hl).
  unfold go_Decoder_DecodeTag, dec_tag. rewrite (go_from_ok _ _ _ Ho).
  open_method Hok Ho.
  rewrite (src_DecodeVarint fuel _ Hfuel (rest_range d Hok)), bytesN_bytesZ.
  destruct (dec_varint (skipn (doff d) (dbuf d))) as [[v n]|e] eqn:E.
  - destruct (dec_varint_bound _ _ _ E) as [Hv Hn]. destruct (dec_varint_len _ _ _ E) as [_ Hn'].
    cbn [lift_varint gbind go_err_eqb negb].
    rewrite (tag_cond v n Hn).
    destruct (N.ltb_spec v 1) as [H1|H1]; cbn [orb].
    + cbn [abs_res]. rewrite with_off_same. reflexivity.
    + destruct (N.ltb_spec max_tag (N.shiftr v 3)) as [H2|H2].
      * cbn [abs_res]. rewrite with_off_same. reflexivity.
      * cbn [abs_res]. rewrite (with_off_adv d n Hok Hn').
        unfold conv_tag. cbn [fst snd]. rewrite (tag_num v H2), tag_wt. reflexivity.
  - cbn [lift_varint gbind go_err_eqb negb abs_res]. rewrite with_off_same. reflexivity.
Qed.

(* the varint-based scalar readers share this opening; leaves the accepted-varint case *)
Ltac varint_method k fuel d Hfuel Hok Ho v n E Hv Hn Hn' :=
  rewrite (dec_scalar_varint d k eq_refl Ho);
  open_method Hok Ho;
  rewrite (src_DecodeVarint fuel _ Hfuel (rest_range d Hok)), bytesN_bytesZ;
  destruct (dec_varint (skipn (doff d) (dbuf d))) as [[v n]|e] eqn:E;
  [ destruct (dec_varint_bound _ _ _ E) as [Hv Hn]; destruct (dec_varint_len _ _ _ E) as [_ Hn'];
    cbn [lift_varint gbind go_err_eqb negb];
    destruct (Z.eqb_spec (Z.of_nat n) 0) as [Hz|_]; [lia|]
  | cbn [lift_varint gbind go_err_eqb negb abs_res]; rewrite with_off_same; reflexivity ].

(* M2 *)
Lemma src_Decoder_DecodeBool fuel d : (11 <= fuel)%nat -> st_ok d ->
  abs_res conv_bool d (go_Decoder_DecodeBool fuel (st_p d) (st_off d) (st_mode d)) = Some (dec_scalar d KBool).
Proof.
  intros Hfuel Hok. pose proof Hok as (Hb & Ho & Hl). unfold go_Decoder_DecodeBool.
  varint_method KBool fuel d Hfuel Hok Ho v n E Hv Hn Hn'.
  cbn [abs_res of_wire]. rewrite (with_off_adv d n Hok Hn'). unfold conv_bool.
  destruct (Z.eqb_spec (Z.of_N v) 0) as [H0|H0]; destruct (N.eqb_spec v 0) as [H1|H1]; try lia; reflexivity.
Qed.

(* M3 *)
Lemma src_Decoder_DecodeUInt32 fuel d : (11 <= fuel)%nat -> st_ok d ->
  abs_res conv_id d (go_Decoder_DecodeUInt32 fuel (st_p d) (st_off d) (st_mode d)) = Some (dec_scalar d KUInt32).
Proof.
  intros Hfuel Hok. pose proof Hok as (Hb & Ho & Hl). unfold go_Decoder_DecodeUInt32.
  varint_method KUInt32 fuel d Hfuel Hok Ho v n E Hv Hn Hn'.
  cbn [of_wire]. rewrite Z.gtb_ltb.
  destruct (Z.ltb_spec 4294967295 (Z.of_N v)) as [H0|H0]; destruct (N.ltb_spec 4294967295 v) as [H1|H1]; try lia.
  - cbn [abs_res]. rewrite with_off_same. reflexivity.
  - cbn [abs_res]. rewrite (with_off_adv d n Hok Hn'). unfold conv_id.
    rewrite wrap_u_small; [reflexivity|]. change (2^32) with 4294967296. lia.
Qed.

(* M4 *)
Lemma src_Decoder_DecodeUInt64 fuel d : (11 <= fuel)%nat -> st_ok d ->
  abs_res conv_id d (go_Decoder_DecodeUInt64 fuel (st_p d) (st_off d) (st_mode d)) = Some (dec_scalar d KUInt64).
Proof.
  intros Hfuel Hok. pose proof Hok as (Hb & Ho & Hl). unfold go_Decoder_DecodeUInt64.
  varint_method KUInt64 fuel d Hfuel Hok Ho v n E Hv Hn Hn'.
  cbn [abs_res of_wire]. rewrite (with_off_adv d n Hok Hn'). reflexivity.
Qed.

(* M5 *)
Lemma src_Decoder_DecodeInt32 fuel d : (11 <= fuel)%nat -> st_ok d ->
  abs_res conv_id d (go_Decoder_DecodeInt32 fuel (st_p d) (st_off d) (st_mode d)) = Some (dec_scalar d KInt32).
Proof.
  intros Hfuel Hok. pose proof Hok as (Hb & Ho & Hl). unfold go_Decoder_DecodeInt32.
  varint_method KInt32 fuel d Hfuel Hok Ho v n E Hv Hn Hn'.
  assert (Hvz : 0 <= Z.of_N v < 2^64) by lia.
  cbn [of_wire]. cbv zeta.
  pose proof (wrap_s64_i64n (Z.of_N v) Hvz) as Hi. rewrite N2Z.id in Hi. rewrite <- Hi.
  rewrite Z.gtb_ltb.
  destruct (Z.ltb_spec 2147483647 (wrap_s 64 (Z.of_N v))) as [H0|H0]; cbn [orb].
  - cbn [abs_res]. rewrite with_off_same. reflexivity.
  - destruct (Z.ltb_spec (wrap_s 64 (Z.of_N v)) (-2147483648)) as [H1|H1].
    + cbn [abs_res]. rewrite with_off_same. reflexivity.
    + cbn [abs_res]. rewrite (with_off_adv d n Hok Hn'). unfold conv_id.
      rewrite (wrap_s32_of_64 (Z.of_N v) Hvz) by lia. reflexivity.
Qed.

(* M6 *)
Lemma src_Decoder_DecodeInt64 fuel d : (11 <= fuel)%nat -> st_ok d ->
  abs_res conv_id d (go_Decoder_DecodeInt64 fuel (st_p d) (st_off d) (st_mode d)) = Some (dec_scalar d KInt64).
Proof.
  intros Hfuel Hok. pose proof Hok as (Hb & Ho & Hl). unfold go_Decoder_DecodeInt64.
  varint_method KInt64 fuel d Hfuel Hok Ho v n E Hv Hn Hn'.
  assert (Hvz : 0 <= Z.of_N v < 2^64) by lia.
  cbn [abs_res of_wire]. rewrite (with_off_adv d n Hok Hn'). unfold conv_id.
  rewrite (wrap_s64_i64n (Z.of_N v) Hvz), N2Z.id. reflexivity.
Qed.

(* the zigzag readers: same shape over DecodeZigZag32/64 *)
Ltac zigzag_method k lem fuel d Hfuel Hok Ho v n E Hv Hn Hn' :=
  rewrite (dec_scalar_varint d k eq_refl Ho);
  open_method Hok Ho;
  rewrite (lem fuel _ Hfuel (rest_range d Hok)), bytesN_bytesZ;
  destruct (dec_varint (skipn (doff d) (dbuf d))) as [[v n]|e] eqn:E;
  [ destruct (dec_varint_bound _ _ _ E) as [Hv Hn]; destruct (dec_varint_len _ _ _ E) as [_ Hn'];
    cbn [lift_zz gbind go_err_eqb negb];
    destruct (Z.eqb_spec (Z.of_nat n) 0) as [Hz|_]; [lia|]
  | cbn [lift_zz gbind go_err_eqb negb abs_res]; rewrite with_off_same; reflexivity ].

(* M7 *)
Lemma src_Decoder_DecodeSInt32 fuel d : (11 <= fuel)%nat -> st_ok d ->
  abs_res conv_id d (go_Decoder_DecodeSInt32 fuel (st_p d) (st_off d) (st_mode d)) = Some (dec_scalar d KSInt32).
Proof.
  intros Hfuel Hok. pose proof Hok as (Hb & Ho & Hl). unfold go_Decoder_DecodeSInt32.
  zigzag_method KSInt32 src_DecodeZigZag32 fuel d Hfuel Hok Ho v n E Hv Hn Hn'.
  cbn [abs_res of_wire]. rewrite (with_off_adv d n Hok Hn'). reflexivity.
Qed.

(* M8 *)
Lemma src_Decoder_DecodeSInt64 fuel d : (11 <= fuel)%nat -> st_ok d ->
  abs_res conv_id d (go_Decoder_DecodeSInt64 fuel (st_p d) (st_off d) (st_mode d)) = Some (dec_scalar d KSInt64).
Proof.
  intros Hfuel Hok. pose proof Hok as (Hb & Ho & Hl). unfold go_Decoder_DecodeSInt64.
  zigzag_method KSInt64 src_DecodeZigZag64 fuel d Hfuel Hok Ho v n E Hv Hn Hn'.
  cbn [abs_res of_wire]. rewrite (with_off_adv d n Hok Hn'). reflexivity.
Qed.

(* the fixed-width readers *)
Ltac fixed_method k lem w d Hok Ho :=
  rewrite (dec_scalar_fixed d k ltac:(auto) Ho);
  open_method Hok Ho;
  rewrite (lem _ _ (rest_range d Hok)); unfold lift_fixed;
  rewrite bytesN_bytesZ, bytesZ_length; cbn [width_of];
  destruct (Nat.ltb_spec (List.length (skipn (doff d) (dbuf d))) w) as [Hshort|Hlong];
  [ cbn [gbind go_err_eqb negb abs_res]; rewrite with_off_same; reflexivity
  | cbn [gbind go_err_eqb negb];
    destruct (Z.eqb_spec (Z.of_nat w) 0) as [Hz|_]; [lia|];
    cbn [abs_res]; rewrite (with_off_adv d w Hok Hlong); reflexivity ].

(* M9 *)
Lemma src_Decoder_DecodeFixed32 fuel d : st_ok d ->
  abs_res conv_id d (go_Decoder_DecodeFixed32 fuel (st_p d) (st_off d) (st_mode d)) = Some (dec_scalar d KFixed32).
Proof.
  intros Hok. pose proof Hok as (Hb & Ho & Hl). unfold go_Decoder_DecodeFixed32.
  fixed_method KFixed32 src_DecodeFixed32 4%nat d Hok Ho.
Qed.

(* M10 *)
Lemma src_Decoder_DecodeFixed64 fuel d : st_ok d ->
  abs_res conv_id d (go_Decoder_DecodeFixed64 fuel (st_p d) (st_off d) (st_mode d)) = Some (dec_scalar d KFixed64).
Proof.
  intros Hok. pose proof Hok as (Hb & Ho & Hl). unfold go_Decoder_DecodeFixed64.
  fixed_method KFixed64 src_DecodeFixed64 8%nat d Hok Ho.
Qed.

Print Assumptions src_Decoder_DecodeTag.
Print Assumptions src_Decoder_DecodeBool.
Print Assumptions src_Decoder_DecodeUInt32.
Print Assumptions src_Decoder_DecodeUInt64.
Print Assumptions src_Decoder_DecodeInt32.
Print Assumptions src_Decoder_DecodeInt64.
Print Assumptions src_Decoder_DecodeSInt32.
Print Assumptions src_Decoder_DecodeSInt64.
Print Assumptions src_Decoder_DecodeFixed32.
Print Assumptions src_Decoder_DecodeFixed64.
