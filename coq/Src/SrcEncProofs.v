(* The translated Go source of the varint / tag / zigzag encoders and size helpers (Src/SrcWire.v, generated)
   computes what the hand-written wire model (Wire/Varint.v, ZigZag.v, Codec.v) says it computes. *)
From CsProto Require Import Prelude Varint VarintProof VarintSize ZigZag Codec GoSem SrcWire SrcLink.
Local Open Scope Z_scope.

(* ------------------------------------------------------------------------------------------ *)
(* N and Z bitwise operations agree on naturals *)

Lemma ofN_lor a b : Z.of_N (N.lor a b) = Z.lor (Z.of_N a) (Z.of_N b).
Proof.
  apply Z.bits_inj'. intros n Hn.
  rewrite Z.lor_spec, !Z.testbit_of_N' by exact Hn. apply N.lor_spec.
Qed.

Lemma ofN_land a b : Z.of_N (N.land a b) = Z.land (Z.of_N a) (Z.of_N b).
Proof.
  apply Z.bits_inj'. intros n Hn.
  rewrite Z.land_spec, !Z.testbit_of_N' by exact Hn. apply N.land_spec.
Qed.

Lemma ofN_shiftr a k : Z.of_N (N.shiftr a k) = Z.shiftr (Z.of_N a) (Z.of_N k).
Proof.
  rewrite Z.shiftr_div_pow2 by lia. rewrite N.shiftr_div_pow2, N2Z.inj_div, N2Z.inj_pow. reflexivity.
Qed.

Lemma ofN_shiftl a k : Z.of_N (N.shiftl a k) = Z.shiftl (Z.of_N a) (Z.of_N k).
Proof.
  rewrite Z.shiftl_mul_pow2 by lia. rewrite N.shiftl_mul_pow2, N2Z.inj_mul, N2Z.inj_pow. reflexivity.
Qed.

(* ------------------------------------------------------------------------------------------ *)
(* wraps *)

Lemma wrap_u_small n x : 0 <= x < 2^n -> wrap_u n x = x.
Proof. intros Hx. unfold wrap_u. apply Z.mod_small. exact Hx. Qed.

Lemma wrap_s64_small x : - 2^63 <= x < 2^63 -> wrap_s 64 x = x.
Proof.
  intros Hx. unfold wrap_s. change (64 - 1) with 63.
  rewrite Z.mod_small by lia. lia.
Qed.

Lemma wrap_u_wrap_s64 x : wrap_u 64 (wrap_s 64 x) = wrap_u 64 x.
Proof.
  unfold wrap_u, wrap_s. change (64 - 1) with 63.
  rewrite Zminus_mod_idemp_l. f_equal. lia.
Qed.

(* int64(uint64 v) *)
Lemma wrap_s64_i64n v : 0 <= v < 2^64 -> wrap_s 64 v = i64n (Z.to_N v).
Proof.
  intros Hv. unfold i64n, wrap_s. change (64 - 1) with 63.
  assert (Hm : Z.of_N (Z.to_N v mod 2^64) = v).
  { rewrite N2Z.inj_mod. rewrite Z2N.id by lia. change (Z.of_N (2^64)) with (2^64).
    apply Z.mod_small. exact Hv. }
  cbv zeta. rewrite Hm.
  destruct (Z.ltb_spec v (2^63)) as [Hlt|Hge].
  - rewrite Z.mod_small by lia. lia.
  - assert (Hq : (v + 2^63) mod 2^64 = v + 2^63 - 2^64).
    { symmetry. apply (Z.mod_unique (v + 2^63) (2^64) 1 (v + 2^63 - 2^64)); lia. }
    rewrite Hq. lia.
Qed.

Lemma gbind_pair_eta {A B} (m : gores (A * B)) :
  gbind m (fun r => let '(a, b) := r in Val (a, b)) = m.
Proof. destruct m as [[a b]| |]; reflexivity. Qed.

(* ------------------------------------------------------------------------------------------ *)
(* E1 SizeOfVarint *)

Lemma to_N_lor1 v : 0 <= v -> Z.to_N (Z.lor v 1) = N.lor (Z.to_N v) 1.
Proof.
  intros Hv. apply N2Z.inj. rewrite ofN_lor.
  rewrite (Z2N.id v) by exact Hv.
  rewrite Z2N.id by (apply Z.lor_nonneg; lia).
  reflexivity.
Qed.

Lemma nsize_lor1_bounds (n : N) : (n < 2^64)%N -> (1 <= N.size (N.lor n 1) <= 64)%N.
Proof.
  intros Hn. destruct (N.eq_dec n 0) as [->|Hnz].
  - cbn. lia.
  - rewrite size_lor1 by lia. rewrite N.size_log2 by exact Hnz.
    assert (Hl : (N.log2 n < 64)%N) by (apply N.log2_lt_pow2; lia). lia.
Qed.

Lemma src_SizeOfVarint v : 0 <= v < 2^64 -> go_SizeOfVarint v = Z.of_nat (size_of_varint (Z.to_N v)).
Proof.
  intros Hv. unfold go_SizeOfVarint, go_bits_Len64, size_of_varint.
  rewrite to_N_lor1 by lia.
  assert (Hn : (Z.to_N v < 2^64)%N).
  { change (2^64)%N with (Z.to_N (2^64)). apply Z2N.inj_lt; lia. }
  pose proof (nsize_lor1_bounds (Z.to_N v) Hn) as Hs.
  set (s := N.size (N.lor (Z.to_N v) 1)) in *.
  rewrite (wrap_s64_small (Z.of_N s + 6)) by lia.
  rewrite Z.quot_div_nonneg by lia.
  assert (Hd : 0 <= (Z.of_N s + 6) / 7 < 11).
  { split; [apply Z.div_pos; lia|apply Z.div_lt_upper_bound; lia]. }
  rewrite wrap_s64_small by lia.
  rewrite N_nat_Z, N2Z.inj_div, N2Z.inj_add. reflexivity.
Qed.

(* ------------------------------------------------------------------------------------------ *)
(* E2 SizeOfTagKey *)

Lemma shl3_u64 (t : N) :
  wrap_u 64 (Z.shiftl (Z.of_N t) 3) = Z.of_N (N.shiftl t 3 mod 2^64).
Proof.
  unfold wrap_u. rewrite N2Z.inj_mod, ofN_shiftl. reflexivity.
Qed.

Lemma u64_range x : 0 <= wrap_u 64 x < 2^64.
Proof. unfold wrap_u. apply Z.mod_pos_bound. lia. Qed.

Lemma src_SizeOfTagKey k : 0 <= k < 2^63 -> go_SizeOfTagKey k = Z.of_nat (size_key (Z.to_N k)).
Proof.
  intros Hk. unfold go_SizeOfTagKey, size_key.
  rewrite (wrap_u_small 64 k) by lia.
  rewrite (wrap_u_small 64 (wrap_u 64 _)) by apply u64_range.
  rewrite src_SizeOfVarint by apply u64_range.
  rewrite <- (Z2N.id k) at 1 by lia.
  rewrite shl3_u64, N2Z.id. reflexivity.
Qed.

(* ------------------------------------------------------------------------------------------ *)
(* E3 SizeOfZigZag *)

Lemma i64n_range n : - 2^63 <= i64n n < 2^63.
Proof.
  unfold i64n. cbv zeta.
  assert (Hm : 0 <= Z.of_N (n mod 2^64) < 2^64).
  { rewrite N2Z.inj_mod. change (Z.of_N (2^64)) with (2^64). apply Z.mod_pos_bound. lia. }
  destruct (Z.ltb_spec (Z.of_N (n mod 2^64)) (2^63)); lia.
Qed.

Lemma enc_zz64_range x : - 2^63 <= x < 2^63 -> 0 <= enc_zz64 x < 2^64.
Proof.
  intros Hx. rewrite enc_zz64_spec by exact Hx.
  apply (zz_spec_range 64); [right; reflexivity|exact Hx].
Qed.

Lemma enc_zz32_range x : - 2^31 <= x < 2^31 -> 0 <= enc_zz32 x < 2^32.
Proof.
  intros Hx. rewrite enc_zz32_spec by exact Hx.
  apply (zz_spec_range 32); [left; reflexivity|exact Hx].
Qed.

Lemma shl1_mod_congr w a b : 0 < w -> a mod 2^w = b mod 2^w ->
  (Z.shiftl a 1) mod 2^w = (Z.shiftl b 1) mod 2^w.
Proof.
  intros Hw Hab. rewrite !Z.shiftl_mul_pow2 by lia.
  rewrite <- (Z.mul_mod_idemp_l a), <- (Z.mul_mod_idemp_l b) by lia.
  rewrite Hab. reflexivity.
Qed.

Lemma src_SizeOfZigZag v : 0 <= v < 2^64 -> go_SizeOfZigZag v = Z.of_nat (size_of_zigzag (Z.to_N v)).
Proof.
  intros Hv. unfold go_SizeOfZigZag, size_of_zigzag.
  assert (Harg : Z.lxor (wrap_u 64 (Z.shiftl v 1)) (wrap_u 64 (Z.shiftr (wrap_s 64 v) 63))
                 = enc_zz64 (i64n (Z.to_N v))).
  { rewrite <- wrap_s64_i64n by exact Hv.
    unfold enc_zz64, enc_zz, uw, two, wrap_u. change (64 - 1) with 63.
    f_equal. apply shl1_mod_congr; [lia|].
    change ((wrap_s 64 v) mod 2^64) with (wrap_u 64 (wrap_s 64 v)).
    rewrite wrap_u_wrap_s64. reflexivity. }
  rewrite Harg. apply src_SizeOfVarint. apply enc_zz64_range, i64n_range.
Qed.

(* ------------------------------------------------------------------------------------------ *)
(* E4, E5 EncodeVarint: the loop *)

Definition ev_cond (st : list Z * Z * Z) : bool :=
  let '(v_dest, v_v, v_n) := st in (Z.geb v_v 128).
Definition ev_body (st : list Z * Z * Z) : gores ((list Z * Z * Z) + (Z * list Z)) :=
  let '(v_dest, v_v, v_n) := st in
  (gbind (go_upd v_dest v_n (wrap_u 8 (Z.lor (Z.land v_v 127) 128))) (fun v_dest =>
  let v_v := (Z.shiftr v_v 7) in
  let v_n := (wrap_s 64 (v_n + 1)) in
  (Val (inl (v_dest, v_v, v_n))))).
Definition ev_fin (lr : (list Z * Z * Z) + (Z * list Z)) : gores (Z * list Z) :=
  match lr with
  | inl st => let '(v_dest, v_v, v_n) := st in
  (gbind (go_upd v_dest v_n (wrap_u 8 v_v)) (fun v_dest =>
  (Val ((wrap_s 64 (v_n + 1)), v_dest))))
  | inr r => (Val r) end.

Lemma go_EncodeVarint_unfold fuel dest v :
  go_EncodeVarint fuel dest v = gbind (go_for fuel ev_cond ev_body (dest, v, 0)) ev_fin.
Proof. reflexivity. Qed.

(* one cell written *)
Lemma go_upd_in dest nn x : (nn < List.length dest)%nat ->
  go_upd dest (Z.of_nat nn) x = Val (firstn nn dest ++ x :: skipn (S nn) dest).
Proof.
  intros Hlt. unfold go_upd, go_len. rewrite Nat2Z.id.
  destruct (Z.leb_spec 0 (Z.of_nat nn)) as [_|Hneg]; [|lia].
  destruct (Z.ltb_spec (Z.of_nat nn) (Z.of_nat (List.length dest))) as [_|Hge]; [|lia].
  reflexivity.
Qed.

Lemma go_upd_out dest nn x : (List.length dest <= nn)%nat ->
  go_upd dest (Z.of_nat nn) x = GoPanic.
Proof.
  intros Hge. unfold go_upd, go_len.
  destruct (Z.ltb_spec (Z.of_nat nn) (Z.of_nat (List.length dest))) as [Hlt|_]; [lia|].
  rewrite andb_false_r. reflexivity.
Qed.

Lemma skipn_skipn_add {A} (a b : nat) (l : list A) : skipn a (skipn b l) = skipn (b + a) l.
Proof.
  revert l. induction b as [|b IH]; intros l; [reflexivity|].
  destruct l as [|y l]; [rewrite !skipn_nil; reflexivity|].
  cbn [skipn Nat.add]. apply IH.
Qed.

Section Upd.
Variables (dest : list Z) (nn : nat) (x : Z).
Hypothesis Hlt : (nn < List.length dest)%nat.
Let dest' := firstn nn dest ++ x :: skipn (S nn) dest.

Lemma upd_length : List.length dest' = List.length dest.
Proof.
  unfold dest'. rewrite app_length. cbn [List.length].
  rewrite firstn_length, skipn_length. lia.
Qed.

Lemma upd_firstn : firstn (S nn) dest' = firstn nn dest ++ [x].
Proof.
  unfold dest'.
  assert (Hl : List.length (firstn nn dest) = nn) by (rewrite firstn_length; lia).
  rewrite firstn_app, Hl.
  replace (S nn - nn)%nat with 1%nat by lia.
  rewrite firstn_all2 by lia. cbn [firstn]. reflexivity.
Qed.

Lemma upd_skipn k : skipn (S nn + k) dest' = skipn (S nn + k) dest.
Proof.
  unfold dest'.
  assert (Hl : List.length (firstn nn dest) = nn) by (rewrite firstn_length; lia).
  rewrite skipn_app, Hl.
  rewrite (skipn_all2 (n := (S nn + k)%nat) (firstn nn dest)) by lia.
  replace (S nn + k - nn)%nat with (S k) by lia.
  cbn [app].
  change (skipn (S k) (x :: skipn (S nn) dest)) with (skipn k (skipn (S nn) dest)).
  rewrite skipn_skipn_add. reflexivity.
Qed.
End Upd.

(* the bytes *)
Lemma cont_byte (v : N) :
  wrap_u 8 (Z.lor (Z.land (Z.of_N v) 127) 128) = Z.of_N (N.lor (N.land v 127) 128).
Proof.
  assert (Heq : Z.lor (Z.land (Z.of_N v) 127) 128 = Z.of_N (N.lor (N.land v 127) 128)).
  { rewrite ofN_lor, ofN_land. reflexivity. }
  rewrite Heq. apply wrap_u_small.
  assert (Hm : (v mod 128 < 128)%N) by (apply N.mod_lt; lia).
  rewrite land127, lor128 by exact Hm.
  change (2^8) with 256. lia.
Qed.

Lemma last_byte (v : N) : (v < 128)%N -> wrap_u 8 (Z.of_N v) = Z.of_N v.
Proof. intros Hv. apply wrap_u_small. change (2^8) with 256. lia. Qed.

(* after the loop and the final store, cells nn .. nn+|e|-1 hold the encoding e, or the store panics *)
Lemma ev_loop : forall (m fuel : nat) (dest : list Z) (v : N) (nn : nat),
  (m < fuel)%nat -> (v < 2^(7 * N.of_nat m))%N -> (nn + m < 1000)%nat ->
  gbind (go_for fuel ev_cond ev_body (dest, Z.of_N v, Z.of_nat nn)) ev_fin
  = let e := bytesZ (enc_varint_fuel m v) in
    if (nn + List.length e <=? List.length dest)%nat
    then Val (Z.of_nat (nn + List.length e), firstn nn dest ++ e ++ skipn (nn + List.length e) dest)
    else GoPanic.
Proof.
  assert (Hfin : forall dest (v : N) nn, (v < 128)%N -> (nn < 1000)%nat ->
    ev_fin (inl (dest, Z.of_N v, Z.of_nat nn))
    = if (nn + 1 <=? List.length dest)%nat
      then Val (Z.of_nat (nn + 1), firstn nn dest ++ [Z.of_N v] ++ skipn (nn + 1) dest)
      else GoPanic).
  { intros dest v nn Hv Hnn. cbn [ev_fin]. rewrite last_byte by exact Hv.
    destruct (Nat.leb_spec (nn + 1) (List.length dest)) as [Hin|Hout].
    - rewrite go_upd_in by lia. cbn [gbind].
      rewrite wrap_s64_small by lia.
      replace (nn + 1)%nat with (S nn) by lia. rewrite Nat2Z.inj_succ.
      reflexivity.
    - rewrite go_upd_out by lia. reflexivity. }
  induction m as [|m IH]; intros fuel dest v nn Hfuel Hv Hnn.
  - (* v = 0 *)
    change (2^(7 * N.of_nat 0))%N with 1%N in Hv.
    assert (Hv0 : v = 0%N) by lia. subst v.
    destruct fuel as [|fuel]; [lia|].
    cbn [go_for ev_cond]. change (Z.geb (Z.of_N 0) 128) with false. cbv iota.
    cbn [gbind]. rewrite Hfin by lia.
    cbv zeta. rewrite enc_last by lia. cbn [bytesZ map List.length]. reflexivity.
  - destruct fuel as [|fuel]; [lia|].
    cbn [go_for]. unfold ev_cond at 1. cbv iota beta.
    destruct (N.lt_ge_cases v 128) as [Hlt|Hge].
    + assert (Hc : Z.geb (Z.of_N v) 128 = false).
      { rewrite Z.geb_leb. apply Z.leb_gt. lia. }
      rewrite Hc. cbn [gbind]. rewrite Hfin by lia.
      cbv zeta. rewrite enc_last by exact Hlt. cbn [bytesZ map List.length]. reflexivity.
    + assert (Hc : Z.geb (Z.of_N v) 128 = true).
      { rewrite Z.geb_leb. apply Z.leb_le. lia. }
      rewrite Hc. unfold ev_body at 1. cbv iota beta.
      rewrite cont_byte.
      cbv zeta. cbn [enc_varint_fuel].
      destruct (N.leb_spec 128 v) as [_|Hbad]; [|lia].
      set (b := N.lor (N.land v 127) 128).
      assert (Hv' : (N.shiftr v 7 < 2^(7 * N.of_nat m))%N).
      { rewrite N.shiftr_div_pow2. change (2^7)%N with 128%N.
        replace (7 * N.of_nat (S m))%N with (7 * N.of_nat m + 7)%N in Hv by lia.
        rewrite N.pow_add_r in Hv. change (2^7)%N with 128%N in Hv.
        apply N.div_lt_upper_bound; lia. }
      cbn [bytesZ map List.length]. fold (bytesZ (enc_varint_fuel m (N.shiftr v 7))).
      set (e' := bytesZ (enc_varint_fuel m (N.shiftr v 7))).
      assert (He' : (1 <= List.length e')%nat).
      { unfold e', bytesZ. rewrite map_length. apply enc_len_bounds. }
      destruct (Nat.leb_spec (nn + S (List.length e')) (List.length dest)) as [Hin|Hout].
      * assert (Hnl : (nn < List.length dest)%nat) by lia.
        rewrite go_upd_in by exact Hnl. cbn [gbind].
        rewrite wrap_s64_small by lia.
        replace (Z.of_nat nn + 1) with (Z.of_nat (S nn)) by lia.
        change (Z.shiftr (Z.of_N v) 7) with (Z.shiftr (Z.of_N v) (Z.of_N 7)). rewrite <- ofN_shiftr.
        rewrite (IH fuel _ (N.shiftr v 7) (S nn)) by (try exact Hv'; lia).
        cbv zeta. fold e'.
        rewrite (upd_length dest nn (Z.of_N b) Hnl).
        destruct (Nat.leb_spec (S nn + List.length e') (List.length dest)) as [_|Hbad]; [|lia].
        rewrite (upd_firstn dest nn (Z.of_N b) Hnl).
        rewrite (upd_skipn dest nn (Z.of_N b) Hnl).
        replace (nn + S (List.length e'))%nat with (S nn + List.length e')%nat by lia.
        rewrite <- app_assoc. reflexivity.
      * destruct (Nat.ltb_spec nn (List.length dest)) as [Hnl|Hnl].
        -- rewrite go_upd_in by exact Hnl. cbn [gbind].
           rewrite wrap_s64_small by lia.
           replace (Z.of_nat nn + 1) with (Z.of_nat (S nn)) by lia.
           change (Z.shiftr (Z.of_N v) 7) with (Z.shiftr (Z.of_N v) (Z.of_N 7)). rewrite <- ofN_shiftr.
           rewrite (IH fuel _ (N.shiftr v 7) (S nn)) by (try exact Hv'; lia).
           cbv zeta. fold e'.
           rewrite (upd_length dest nn (Z.of_N b) Hnl).
           destruct (Nat.leb_spec (S nn + List.length e') (List.length dest)) as [Hbad|_]; [lia|].
           reflexivity.
        -- rewrite go_upd_out by exact Hnl. reflexivity.
Qed.

Lemma ev_top fuel dest v : (11 <= fuel)%nat -> 0 <= v < 2^64 ->
  go_EncodeVarint fuel dest v
  = let e := bytesZ (enc_varint (Z.to_N v)) in
    if (List.length e <=? List.length dest)%nat
    then Val (Z.of_nat (List.length e), overwrite dest e)
    else GoPanic.
Proof.
  intros Hfuel Hv. rewrite go_EncodeVarint_unfold.
  rewrite <- (Z2N.id v) at 1 by lia.
  change 0 with (Z.of_nat 0) at 1.
  rewrite (ev_loop 10 fuel dest (Z.to_N v) 0%nat).
  - reflexivity.
  - lia.
  - apply N.lt_le_trans with (2^64)%N.
    + change (2^64)%N with (Z.to_N (2^64)). apply Z2N.inj_lt; lia.
    + apply N.pow_le_mono_r; lia.
  - lia.
Qed.

Lemma src_EncodeVarint_ok fuel dest v : (11 <= fuel)%nat -> 0 <= v < 2^64 ->
  let e := bytesZ (enc_varint (Z.to_N v)) in
  (List.length e <= List.length dest)%nat ->
  go_EncodeVarint fuel dest v = Val (Z.of_nat (List.length e), overwrite dest e).
Proof.
  intros Hfuel Hv e Hlen. rewrite ev_top by assumption. cbv zeta. fold e.
  destruct (Nat.leb_spec (List.length e) (List.length dest)) as [_|Hbad]; [reflexivity|lia].
Qed.

Lemma src_EncodeVarint_short fuel dest v : (11 <= fuel)%nat -> 0 <= v < 2^64 ->
  (List.length dest < List.length (enc_varint (Z.to_N v)))%nat ->
  go_EncodeVarint fuel dest v = GoPanic.
Proof.
  intros Hfuel Hv Hlen. rewrite ev_top by assumption. cbv zeta.
  unfold bytesZ. rewrite map_length.
  destruct (Nat.leb_spec (List.length (enc_varint (Z.to_N v))) (List.length dest)) as [Hbad|_]; [lia|reflexivity].
Qed.

(* ------------------------------------------------------------------------------------------ *)
(* E6 EncodeTag *)

Lemma src_EncodeTag fuel dest tag wt : 0 <= tag < 2^63 -> 0 <= wt < 8 ->
  go_EncodeTag fuel dest tag wt
  = go_EncodeVarint fuel dest (Z.of_N (N.lor (N.shiftl (Z.to_N tag) 3 mod 2^64) (Z.to_N wt))).
Proof.
  intros Htag Hwt. unfold go_EncodeTag. cbv zeta. rewrite gbind_pair_eta.
  f_equal.
  rewrite (wrap_u_small 64 tag) by lia.
  rewrite (wrap_u_small 64 wt) by lia.
  rewrite ofN_lor, <- shl3_u64, !Z2N.id by lia. reflexivity.
Qed.

(* ------------------------------------------------------------------------------------------ *)
(* E7, E8 EncodeZigZag *)

Lemma src_EncodeZigZag64 fuel dest v : - 2^63 <= v < 2^63 ->
  go_EncodeZigZag64 fuel dest v = go_EncodeVarint fuel dest (enc_zz64 v).
Proof.
  intros Hv. unfold go_EncodeZigZag64. cbv zeta. rewrite gbind_pair_eta.
  f_equal. rewrite wrap_u_wrap_s64. reflexivity.
Qed.

Lemma src_EncodeZigZag32 fuel dest v : - 2^31 <= v < 2^31 ->
  go_EncodeZigZag32 fuel dest v = go_EncodeVarint fuel dest (enc_zz32 v).
Proof.
  intros Hv. unfold go_EncodeZigZag32. cbv zeta. rewrite gbind_pair_eta.
  f_equal.
  assert (Harg : Z.lxor (wrap_u 32 (Z.shiftl (wrap_u 32 v) 1)) (wrap_u 32 (Z.shiftr v 31)) = enc_zz32 v).
  { unfold enc_zz32, enc_zz, uw, two, wrap_u. change (32 - 1) with 31.
    f_equal. apply shl1_mod_congr; [lia|]. apply Z.mod_mod. lia. }
  rewrite Harg. apply wrap_u_small.
  pose proof (enc_zz32_range v Hv) as Hr. lia.
Qed.

Print Assumptions src_SizeOfVarint.
Print Assumptions src_SizeOfTagKey.
Print Assumptions src_SizeOfZigZag.
Print Assumptions src_EncodeVarint_ok.
Print Assumptions src_EncodeVarint_short.
Print Assumptions src_EncodeTag.
Print Assumptions src_EncodeZigZag64.
Print Assumptions src_EncodeZigZag32.
