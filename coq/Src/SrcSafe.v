(* C03 at source level: the translated Decoder methods never panic, never run out of the (11 units of) fuel, and leave the
   cursor inside the buffer -- on every byte string, from every in-range cursor, in both modes.  Obtained by composing
   "translated method = model" (SrcDecMethods, SrcDecSkip) with the model's safety theorems (SafeProofs via CodecProofs). *)
From CsProto Require Import Prelude Varint ZigZag Codec RefWire WireStmts CodecProofs GoSem SrcWire SrcLink SrcDecoderLink SrcDecMethods SrcDecSkip SrcDecFloat.
Local Open Scope Z_scope.

Lemma st_ok_Inv d : st_ok d -> Inv d.
Proof. intros (_ & H & _). exact H. Qed.

Lemma dmap_shape {A B} (f : A -> B) (m : dres A) (P : decoder -> Prop) :
  match dmap f m with DOk _ d' | DErr d' => P d' | DPanic => False end ->
  match m with DOk _ d' | DErr d' => P d' | DPanic => False end.
Proof. destruct m; cbn; auto. Qed.

(* the general step: a translated call whose abstraction is a model call that keeps the invariant *)
Lemma safe_of_abs {A B} (conv : A -> B) d (r : gores (A * option String.string * Z)) (m : dres B) :
  abs_res conv d r = Some m ->
  match m with DOk _ d' | DErr d' => Inv d' /\ dbuf d' = dbuf d | DPanic => False end ->
  exists a e off, r = Val (a, e, off) /\ (Z.to_nat off <= List.length (dbuf d))%nat.
Proof.
  intros Habs Hm. destruct r as [[[a e] off]| |]; cbn in Habs.
  - exists a, e, off. split; [reflexivity|].
    destruct e as [s|]; inversion Habs; subst m; destruct Hm as [Hi _]; unfold Inv, with_off in Hi; cbn in Hi; exact Hi.
  - inversion Habs; subst m. contradiction.
  - discriminate.
Qed.

Section Methods.
Variable fuel : nat.
Variable d : decoder.
Hypothesis Hfuel : (11 <= fuel)%nat.
Hypothesis Hok : st_ok d.
Let nested := fun _ : list byte => true.

Ltac by_model lem op :=
  eapply safe_of_abs; [apply lem; assumption|];
  pose proof (step_inv nested d op (st_ok_Inv d Hok)) as Hs; cbn [dstep] in Hs;
  exact (dmap_shape _ _ (fun d' => Inv d' /\ dbuf d' = dbuf d) Hs).

Theorem src_safe_DecodeTag : exists a e off, go_Decoder_DecodeTag fuel (st_p d) (st_off d) (st_mode d) = Val (a, e, off) /\ (Z.to_nat off <= List.length (dbuf d))%nat.
Proof. by_model src_Decoder_DecodeTag DTag. Qed.
Theorem src_safe_DecodeBool : exists a e off, go_Decoder_DecodeBool fuel (st_p d) (st_off d) (st_mode d) = Val (a, e, off) /\ (Z.to_nat off <= List.length (dbuf d))%nat.
Proof. by_model src_Decoder_DecodeBool (DScalar KBool). Qed.
Theorem src_safe_DecodeUInt32 : exists a e off, go_Decoder_DecodeUInt32 fuel (st_p d) (st_off d) (st_mode d) = Val (a, e, off) /\ (Z.to_nat off <= List.length (dbuf d))%nat.
Proof. by_model src_Decoder_DecodeUInt32 (DScalar KUInt32). Qed.
Theorem src_safe_DecodeUInt64 : exists a e off, go_Decoder_DecodeUInt64 fuel (st_p d) (st_off d) (st_mode d) = Val (a, e, off) /\ (Z.to_nat off <= List.length (dbuf d))%nat.
Proof. by_model src_Decoder_DecodeUInt64 (DScalar KUInt64). Qed.
Theorem src_safe_DecodeInt32 : exists a e off, go_Decoder_DecodeInt32 fuel (st_p d) (st_off d) (st_mode d) = Val (a, e, off) /\ (Z.to_nat off <= List.length (dbuf d))%nat.
Proof. by_model src_Decoder_DecodeInt32 (DScalar KInt32). Qed.
Theorem src_safe_DecodeInt64 : exists a e off, go_Decoder_DecodeInt64 fuel (st_p d) (st_off d) (st_mode d) = Val (a, e, off) /\ (Z.to_nat off <= List.length (dbuf d))%nat.
Proof. by_model src_Decoder_DecodeInt64 (DScalar KInt64). Qed.
Theorem src_safe_DecodeSInt32 : exists a e off, go_Decoder_DecodeSInt32 fuel (st_p d) (st_off d) (st_mode d) = Val (a, e, off) /\ (Z.to_nat off <= List.length (dbuf d))%nat.
Proof. by_model src_Decoder_DecodeSInt32 (DScalar KSInt32). Qed.
Theorem src_safe_DecodeSInt64 : exists a e off, go_Decoder_DecodeSInt64 fuel (st_p d) (st_off d) (st_mode d) = Val (a, e, off) /\ (Z.to_nat off <= List.length (dbuf d))%nat.
Proof. by_model src_Decoder_DecodeSInt64 (DScalar KSInt64). Qed.
Theorem src_safe_DecodeFixed32 : exists a e off, go_Decoder_DecodeFixed32 fuel (st_p d) (st_off d) (st_mode d) = Val (a, e, off) /\ (Z.to_nat off <= List.length (dbuf d))%nat.
Proof. by_model src_Decoder_DecodeFixed32 (DScalar KFixed32). Qed.
Theorem src_safe_DecodeFixed64 : exists a e off, go_Decoder_DecodeFixed64 fuel (st_p d) (st_off d) (st_mode d) = Val (a, e, off) /\ (Z.to_nat off <= List.length (dbuf d))%nat.
Proof. by_model src_Decoder_DecodeFixed64 (DScalar KFixed64). Qed.
Theorem src_safe_DecodeFloat32 : exists a e off, go_Decoder_DecodeFloat32 fuel (st_p d) (st_off d) (st_mode d) = Val (a, e, off) /\ (Z.to_nat off <= List.length (dbuf d))%nat.
Proof. by_model src_Decoder_DecodeFloat32 (DScalar KFloat). Qed.
Theorem src_safe_DecodeFloat64 : exists a e off, go_Decoder_DecodeFloat64 fuel (st_p d) (st_off d) (st_mode d) = Val (a, e, off) /\ (Z.to_nat off <= List.length (dbuf d))%nat.
Proof. by_model src_Decoder_DecodeFloat64 (DScalar KDouble). Qed.
Theorem src_safe_decodeBytes : exists a e off, go_Decoder_decodeBytes fuel (st_p d) (st_off d) (st_mode d) = Val (a, e, off) /\ (Z.to_nat off <= List.length (dbuf d))%nat.
Proof. by_model src_Decoder_decodeBytes DBytes. Qed.
Theorem src_safe_Skip tag wt : 0 <= tag < 2^63 -> - 2^63 <= wt < 2^63 ->
  exists a e off, go_Decoder_Skip fuel (st_p d) (st_off d) (st_mode d) tag wt = Val (a, e, off) /\ (Z.to_nat off <= List.length (dbuf d))%nat.
Proof.
  intros Ht Hw. eapply safe_of_abs; [apply src_Decoder_Skip; assumption|].
  pose proof (step_inv nested d (DSkip tag wt) (st_ok_Inv d Hok)) as Hs; cbn [dstep] in Hs.
  exact (dmap_shape _ _ (fun d' => Inv d' /\ dbuf d' = dbuf d) Hs).
Qed.
End Methods.

Print Assumptions src_safe_DecodeTag.
Print Assumptions src_safe_decodeBytes.
Print Assumptions src_safe_Skip.
