(* Semantics of the Go subset that harness/cmd/go2coq translates (shallow embedding).
   Part of the trusted base of every theorem stated over a generated [Src*.v] file:
   - an integer of any Go type is a Z inside the type's range; the translator inserts [wrap_u]/[wrap_s]
     after every operation that can leave the range (+ - * << conversions, unary - ^); & | ^ &^ >> keep
     in-range two's-complement operands in range (Z's bitwise operations are two's complement);
   - int and uint are 64 bits wide (GOARCH amd64 / arm64);
   - an index or slice expression out of range, and a negative shift count, is [GoPanic];
   - a loop runs on fuel; [OutOfFuel] is an outcome of its own which the theorems exclude by giving enough fuel;
   - [go_slice] is bounded by len, not cap (stricter than Go);
   - the error type is [option string]: [None] is nil, [Some name] a package-level sentinel. *)
From Coq Require Export ZArith List String Bool.
Export ListNotations.
Local Open Scope Z_scope.

Inductive gores (A : Type) := Val (a : A) | GoPanic | OutOfFuel.
Arguments Val {A} a. Arguments GoPanic {A}. Arguments OutOfFuel {A}.

Definition gbind {A B} (m : gores A) (f : A -> gores B) : gores B :=
  match m with Val a => f a | GoPanic => GoPanic | OutOfFuel => OutOfFuel end.

Definition wrap_u (n : Z) (z : Z) : Z := z mod 2 ^ n.
Definition wrap_s (n : Z) (z : Z) : Z := (z + 2 ^ (n - 1)) mod 2 ^ n - 2 ^ (n - 1).

(* math/bits.Len64: minimum number of bits to represent x; 0 for x = 0 *)
Definition go_bits_Len64 (x : Z) : Z := Z.of_N (N.size (Z.to_N x)).

Definition go_len {A} (l : list A) : Z := Z.of_nat (List.length l).
Definition go_idx (l : list Z) (i : Z) : gores Z :=
  if (0 <=? i) && (i <? go_len l) then Val (nth (Z.to_nat i) l 0) else GoPanic.
Definition go_upd (l : list Z) (i : Z) (x : Z) : gores (list Z) :=
  if (0 <=? i) && (i <? go_len l)
  then Val (firstn (Z.to_nat i) l ++ x :: skipn (S (Z.to_nat i)) l) else GoPanic.
Definition go_slice (l : list Z) (lo hi : Z) : gores (list Z) :=
  if (0 <=? lo) && (lo <=? hi) && (hi <=? go_len l)
  then Val (firstn (Z.to_nat (hi - lo)) (skipn (Z.to_nat lo) l)) else GoPanic.
(* x[lo:] was handed to a callee that wrote through it: its cells replace x's cells from lo on *)
Definition go_splice (l : list Z) (lo : Z) (sub : list Z) : list Z := firstn (Z.to_nat lo) l ++ sub.
(* binary.LittleEndian.Uint16/32/64(p): the first w bytes as a little-endian number; panics when p is shorter (the
   library indexes p[w-1] first) *)
Fixpoint le_valZ (bs : list Z) : Z := match bs with [] => 0 | b :: r => b + 256 * le_valZ r end.
Definition go_le_get (w : nat) (p : list Z) : gores Z :=
  if (List.length p <? w)%nat then GoPanic else Val (le_valZ (firstn w p)).
Definition go_nonneg (c : Z) : gores Z := if 0 <=? c then Val c else GoPanic.

Definition go_err_eqb (a b : option string) : bool :=
  match a, b with
  | None, None => true
  | Some x, Some y => String.eqb x y
  | _, _ => false
  end.

(* for cond { body }: [body] answers the next state (inl) or the function's return value (inr) *)
Fixpoint go_for {S R : Type} (fuel : nat) (cond : S -> bool) (body : S -> gores (S + R)) (s : S) : gores (S + R) :=
  match fuel with
  | O => OutOfFuel
  | Datatypes.S f =>
      if cond s then
        match body s with
        | Val (inl s') => go_for f cond body s'
        | Val (inr r) => Val (inr r)
        | GoPanic => GoPanic
        | OutOfFuel => OutOfFuel
        end
      else Val (inl s)
  end.
