(* Vocabulary that links the translated Encoder methods (Src/SrcWire.v, generated from encoder.go) to the model's
   encoder (Wire/Codec.v: put, enc_scalar, enc_map_header): definitions only. *)
From CsProto Require Import Prelude Varint ZigZag Codec GoSem SrcWire SrcLink.
Local Open Scope Z_scope.

Definition est_p (e : encoder) : list Z := bytesZ (ebuf e).
Definition est_off (e : encoder) : Z := Z.of_nat (eoff e).
(* a translated method answers ((), e.p afterwards, e.offset afterwards) or panics (an indexed store or a slice expression
   out of range); the model answers Ok e' / Panic.  None = out of fuel. *)
Definition abs_enc (r : gores (unit * list Z * Z)) : option (outcome encoder) :=
  match r with
  | OutOfFuel => None
  | GoPanic => Some Panic
  | Val (_, p, off) => Some (Ok {| ebuf := bytesN p; eoff := Z.to_nat off |})
  end.
Definition est_ok (e : encoder) : Prop :=
  bytes_ok (ebuf e) /\ Z.of_nat (eoff e) < 2^62 /\ Z.of_nat (List.length (ebuf e)) < 2^62.
Definition conv_b (b : bool) : Z := if b then 1 else 0.
