(* Vocabulary that links the translated Decoder methods (Src/SrcWire.v, generated from decoder.go) to the model's
   decoder (Wire/Codec.v: dec_tag, dec_scalar, dec_bytes, dec_skip, dec_seek): definitions only. *)
From CsProto Require Import Prelude Varint ZigZag Codec GoSem SrcWire SrcLink.
Local Open Scope Z_scope.

(* the receiver fields the translated methods take, for a model decoder state *)
Definition st_p (d : decoder) : list Z := bytesZ (dbuf d).
Definition st_off (d : decoder) : Z := Z.of_nat (doff d).
Definition st_mode (d : decoder) : Z := if dfast d then 1 else 0.      (* DecoderModeSafe = 0, DecoderModeFast = 1 *)
Definition with_off (d : decoder) (off : Z) : decoder := {| dbuf := dbuf d; doff := Z.to_nat off; dfast := dfast d |}.

(* a translated method answers (result, err, d.offset afterwards); the model answers DOk / DErr / DPanic with the
   decoder state.  Errors are compared as a class (nil / non-nil), values through [conv].  None = out of fuel. *)
Definition abs_res {A B} (conv : A -> B) (d : decoder) (r : gores (A * option String.string * Z)) : option (dres B) :=
  match r with
  | OutOfFuel => None
  | GoPanic => Some DPanic
  | Val (a, None, off) => Some (DOk (conv a) (with_off d off))
  | Val (_, Some _, off) => Some (DErr (with_off d off))
  end.
Definition conv_tag (tw : Z * Z) : N * N := (Z.to_N (fst tw), Z.to_N (snd tw)).
Definition conv_bool (b : bool) : Z := if b then 1 else 0.
Definition conv_id (z : Z) : Z := z.
Definition conv_bytes (b : list Z) : list N := bytesN b.

(* a state the Go program can be in: bytes are bytes, the cursor is inside the buffer, the buffer fits Go's int *)
Definition st_ok (d : decoder) : Prop :=
  bytes_ok (dbuf d) /\ (doff d <= List.length (dbuf d))%nat /\ Z.of_nat (List.length (dbuf d)) < 2^62.
