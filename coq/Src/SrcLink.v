(* Vocabulary that links the translated Go source (Src/SrcWire.v, generated) to the hand-written wire model
   (Wire/Varint.v, ZigZag.v, Codec.v): definitions only. *)
From CsProto Require Import Prelude Varint ZigZag Codec GoSem SrcWire.
Local Open Scope Z_scope.

Definition bytesZ (l : list N) : list Z := map Z.of_N l.
Definition bytesN (l : list Z) : list N := map Z.to_N l.
Definition byte_range (p : list Z) : Prop := Forall (fun b => 0 <= b < 256) p.
(* dest with its first |e| cells overwritten by e *)
Definition overwrite (dest e : list Z) : list Z := e ++ skipn (List.length e) dest.

Definition err_name (e : derr) : String.string :=
  match e with
  | EInvalidVarint => "ErrInvalidVarintData"
  | EUnexpectedEOF => "io.ErrUnexpectedEOF"
  | EOverflow => "ErrValueOverflow"
  end%string.
(* what DecodeVarint returns, as the model's dec_varint sees it *)
Definition lift_varint (r : (N * nat) + derr) : Z * Z * option String.string :=
  match r with
  | inl (v, n) => (Z.of_N v, Z.of_nat n, None)
  | inr e => (0, 0, Some (err_name e))
  end.
Definition lift_zz (dz : Z -> Z) (r : (N * nat) + derr) : Z * Z * option String.string :=
  match r with
  | inl (v, n) => (dz (Z.of_N v), Z.of_nat n, None)
  | inr e => (0, 0, Some (err_name e))
  end.
Definition lift_fixed (w : nat) (p : list Z) : Z * Z * option String.string :=
  if (List.length p <? w)%nat then (0, 0, Some "io.ErrUnexpectedEOF"%string)
  else (Z.of_N (le_val (firstn w (bytesN p))), Z.of_nat w, None).
