(* C14 / C15 proofs: the pooled state machine (Pool.v, repaired trunc) refines the pool-free
   specification (PoolSpec.v) for every pool choice and capacity outcome; pools only hold clean
   objects; schedules with private handles project to the per-goroutine runs. *)
From CsProto Require Import Prelude Varint ZigZag Codec RefWire WireStmts Lazy Pool PoolSpec.
From CsProto Require Import LazyProofs PoolBase PoolSched.

(* Pool.v declares these inside its Section, where they do not survive *)
#[local] Arguments POk {A} a ps.
#[local] Arguments PErr {A} ps.
#[local] Arguments PPanic {A}.

Section Proofs.
Variable D : ldef.
Variable truncs : pobj -> list (nat * bool).

Notation def_at := (def_at D).
Notation tags_at p := (flat_tags (def_at p)).
Notation close_obj := (close_obj false truncs).
Notation p_decode := (p_decode D false truncs).
Notation p_nested_result := (p_nested_result D false truncs).
Notation p_decode_all := (p_decode_all D false truncs).
Notation p_nested_results := (p_nested_results D false truncs).
Notation p_walk := (p_walk D false truncs).
Notation p_field := (p_field D false truncs).
Notation p_nested_obs := (p_nested_obs D false truncs).
Notation pstep := (pstep D false truncs).
Notation prun := (prun D false truncs).
Notation res_of := (res_of D).

(* ---------- well-formed objects, clean pools ---------- *)
Fixpoint wf (o : pobj) : Prop :=
  match o with
  | PObj p dat cl _ _ =>
      length dat = length (tags_at p) /\
      (fix go (l : list (option pobj)) : Prop :=
         match l with [] => True | None :: _ => False | Some c :: r => wf c /\ go r end) cl
  end.
Definition wfc (x : option pobj) : Prop := match x with Some c => wf c | None => False end.
Lemma wf_iff p dat cl sk g :
  wf (PObj p dat cl sk g) <-> length dat = length (tags_at p) /\ Forall wfc cl.
Proof.
  cbn [wf]. apply and_iff_compat_l. induction cl as [|[c|] r IH].
  - split; constructor.
  - rewrite IH. split; [intros [H1 H2]; constructor; assumption | intros H; inversion H; subst; split; assumption].
  - split; [intros [] | intros H; inversion H as [|? ? Hx]; destruct Hx].
Qed.
Lemma wf_iff' o : wf o <-> length (odata o) = length (tags_at (opath o)) /\ Forall wfc (oclosers o).
Proof. destruct o as [p dat cl sk g]. apply wf_iff. Qed.

Definition sclean (o : pobj) : Prop :=
  Forall (fun fd => fdat fd = []) (odata o) /\ oclosers o = [] /\ length (odata o) = length (tags_at (opath o)).
Definition PI (ps : pools) : Prop :=
  Forall (fun pl => Forall (fun o => opath o = fst pl /\ sclean o) (snd pl)) ps.

Lemma sclean_wf o : sclean o -> wf o.
Proof. intros (_ & Hc & Hl). apply wf_iff'. rewrite Hc. split; [exact Hl | constructor]. Qed.

Lemma pool_of_PI p ps : PI ps -> Forall (fun o => opath o = p /\ sclean o) (pool_of p ps).
Proof.
  induction ps as [|[q l] r IH]; intros H; cbn [pool_of]; [constructor|].
  inversion H as [|? ? Hq Hr]; subst. destruct (path_eqb p q) eqn:E; [|apply IH, Hr].
  apply path_eqb_eq in E. subst. exact Hq.
Qed.
Lemma set_pool_PI p l ps : PI ps -> Forall (fun o => opath o = p /\ sclean o) l -> PI (set_pool p l ps).
Proof.
  intros H Hl. induction ps as [|[q l0] r IH]; cbn [set_pool].
  - constructor; [exact Hl | constructor].
  - inversion H as [|? ? Hq Hr]; subst. destruct (path_eqb p q) eqn:E.
    + apply path_eqb_eq in E. subst. constructor; [exact Hl | exact Hr].
    + constructor; [exact Hq | apply IH, Hr].
Qed.
Lemma put_PI o ps : PI ps -> sclean o -> PI (put o ps).
Proof.
  intros H Ho. unfold put. apply set_pool_PI; [exact H|]. constructor; [split; [reflexivity | exact Ho]|].
  apply pool_of_PI, H.
Qed.

Lemma take_spec {A} (P : A -> Prop) fresh pick pool :
  P fresh -> Forall P pool -> P (fst (take fresh pick pool)) /\ Forall P (snd (take fresh pick pool)).
Proof.
  intros Hf Hp. unfold take. destruct (nth_error pool pick) as [x|] eqn:E; cbn [fst snd].
  - split.
    + apply nth_error_In in E. rewrite Forall_forall in Hp. auto.
    + apply Forall_app. split; [apply Forall_firstn | apply Forall_skipn]; exact Hp.
  - split; assumption.
Qed.

Lemma fresh_sclean p : sclean (fresh_obj D p).
Proof.
  unfold sclean, fresh_obj, fresh_data. cbn [odata oclosers opath]. split; [|split].
  - apply Forall_forall. intros fd Hin. apply in_map_iff in Hin. destruct Hin as (t & <- & _). reflexivity.
  - reflexivity.
  - apply map_length.
Qed.

Lemma trunc_closers_nil o : trunc_closers false truncs o = [].
Proof.
  unfold trunc_closers. induction (truncs o) as [|tr l IH]; cbn [fold_left]; [reflexivity|].
  destruct (snd tr); exact IH.
Qed.

(* ---------- close ---------- *)
Fixpoint close_list (l : list (option pobj)) (ps : pools) : option pools :=
  match l with
  | [] => Some ps
  | None :: _ => None
  | Some c :: r => match close_obj c ps with Some ps' => close_list r ps' | None => None end
  end.
Lemma close_obj_unfold o ps : close_obj o ps =
  match close_list (oclosers o) ps with
  | None => None
  | Some ps1 => Some (put (PObj (opath o) (map clear_fd (odata o)) (trunc_closers false truncs o) (oskip o) (oghost o)) ps1)
  end.
Proof.
  destruct o as [p dat cl sk g]. cbn [Pool.close_obj oclosers opath odata oskip oghost].
  match goal with |- match ?f cl ps with _ => _ end = _ =>
    assert (E : forall l q, f l q = close_list l q) end.
  { induction l as [|[c|] r IH]; intros q; cbn [close_list]; [reflexivity| |reflexivity].
    destruct (close_obj c q); [apply IH | reflexivity]. }
  rewrite E. reflexivity.
Qed.

Lemma close_obj_spec : forall o, wf o -> forall ps, PI ps -> exists ps', close_obj o ps = Some ps' /\ PI ps'.
Proof.
  apply (pobj_ind' (fun o => wf o -> forall ps, PI ps -> exists ps', close_obj o ps = Some ps' /\ PI ps')).
  intros p dat cl sk g IH Hwf ps Hps. rewrite close_obj_unfold. cbn [oclosers opath odata oskip oghost].
  apply wf_iff in Hwf. destruct Hwf as [Hlen Hcl].
  assert (Hc : exists ps1, close_list cl ps = Some ps1 /\ PI ps1).
  { clear Hlen. revert ps Hps. induction cl as [|x r IHr]; intros ps Hps; cbn [close_list].
    - eauto.
    - inversion IH as [|? ? Hx Hr]; subst. inversion Hcl as [|? ? Hwx Hwr]; subst.
      destruct x as [c|]; [|destruct Hwx]. cbn [wfc] in Hwx.
      destruct (Hx Hwx ps Hps) as (ps' & E & Hps'). rewrite E. apply IHr; assumption. }
  destruct Hc as (ps1 & E & Hps1). rewrite E. eexists. split; [reflexivity|].
  apply put_PI; [exact Hps1|]. unfold sclean. cbn [odata oclosers opath]. split; [|split].
  - apply Forall_forall. intros fd Hin. apply in_map_iff in Hin. destruct Hin as (x & <- & _). reflexivity.
  - apply trunc_closers_nil.
  - rewrite map_length. exact Hlen.
Qed.

(* ---------- decodeNested from the pool = a fresh decode, up to dsim ---------- *)
(* "object c presents result r": same definition node, data equal up to stale wire types *)
Definition presents (c : pobj) (r : lres) : Prop := rsim (res_of c) r.

Lemma decode_fresh_cases p input :
  (exists dat0, decode_into (tags_at p) (fresh_data (def_at p)) input = LOkv dat0 /\
                lazy_decode_nested (def_at p) input = LRes {| rdef := def_at p; rdata := dat0 |})
  \/ (decode_into (tags_at p) (fresh_data (def_at p)) input = LErrv /\ lazy_decode_nested (def_at p) input = LFail).
Proof.
  unfold lazy_decode_nested. pose proof (decode_into_np (tags_at p) (fresh_data (def_at p)) input) as Hnp.
  destruct (decode_into (tags_at p) (fresh_data (def_at p)) input) as [dat0| |]; cbn [of_lerr].
  - left. eauto.
  - right. auto.
  - contradiction.
Qed.

Lemma p_decode_spec p input pick ps : PI ps ->
  match p_decode p input pick ps with
  | PPanic => False
  | PErr ps' => PI ps' /\ lazy_decode_nested (def_at p) input = LFail
  | POk c ps' => PI ps' /\ opath c = p /\ oclosers c = [] /\ wf c /\
       exists r, lazy_decode_nested (def_at p) input = LRes r /\ presents c r
  end.
Proof.
  intros Hps. unfold Pool.p_decode.
  pose proof (take_spec (fun o => opath o = p /\ sclean o) (fresh_obj D p) pick (pool_of p ps)
                (conj eq_refl (fresh_sclean p)) (pool_of_PI p ps Hps)) as Ht.
  destruct (take (fresh_obj D p) pick (pool_of p ps)) as [o pool']. cbn [fst snd] in Ht.
  destruct Ht as [[Hop Hcl] Hpool]. pose proof (set_pool_PI p pool' ps Hps Hpool) as Hps'.
  destruct Hcl as (Hempty & Hclosers & Hlen). rewrite Hop in Hlen.
  assert (Hsim : dsim (odata o) (fresh_data (def_at p))) by (apply clean_sim_fresh; assumption).
  pose proof (decode_loop_sim (S (length input)) (tags_at p) _ _ {| dbuf := input; doff := 0; dfast := true |} Hsim) as Hl.
  fold (decode_into (tags_at p) (odata o) input) in Hl.
  fold (decode_into (tags_at p) (fresh_data (def_at p)) input) in Hl.
  destruct (decode_fresh_cases p input) as [(dat0 & E0 & EL)|(E0 & EL)]; rewrite E0 in Hl.
  - destruct (decode_into (tags_at p) (odata o) input) as [dat| |] eqn:E; cbn [lerr_sim] in Hl; try contradiction.
    split; [exact Hps'|]. cbn [opath oclosers]. split; [reflexivity|]. split; [exact Hclosers|]. split.
    + apply wf_iff. rewrite Hclosers. split; [|constructor].
      unfold decode_into in E. apply decode_loop_length in E. rewrite E. exact Hlen.
    + eexists. split; [exact EL|]. split; [reflexivity | exact Hl].
  - destruct (decode_into (tags_at p) (odata o) input) as [dat| |] eqn:E; cbn [lerr_sim] in Hl; try contradiction.
    destruct (oskip o).
    + split; assumption.
    + destruct (close_obj_spec o) with (ps := set_pool p pool' ps) as (ps'' & Ec & Hps''); [| exact Hps' |].
      * apply sclean_wf. unfold sclean. rewrite Hop. auto.
      * rewrite Ec. split; assumption.
Qed.

(* ---------- NestedResult ---------- *)
Lemma res_of_child o t c : opath c = opath o ++ [abs_tag t] ->
  rdef (res_of c) = nested_def (rdef (res_of o)) (abs_tag t).
Proof. intros H. unfold Pool.res_of, Pool.def_at. cbn [rdef]. rewrite H, fold_left_app. reflexivity. Qed.

Definition with_closers (o : pobj) (cl : list (option pobj)) : pobj :=
  PObj (opath o) (odata o) cl (oskip o) (oghost o).
Lemma wf_with_closers o cl : wf o -> Forall wfc cl -> wf (with_closers o cl).
Proof. intros H Hc. apply wf_iff' in H. apply wf_iff. tauto. Qed.
Lemma presents_with_closers o cl r : presents o r -> presents (with_closers o cl) r.
Proof. exact (fun H => H). Qed.

Lemma p_nested_result_spec o t pick ps r : PI ps -> wf o -> presents o r ->
  match p_nested_result o t pick ps with
  | PPanic | PErr _ => False
  | POk (o', res) ps' => PI ps' /\
      match res, nested_result (Some r) t with
      | inr e, inr e' => e = e' /\ o' = o
      | inr e, inl LFail => e = EOther /\ o' = o
      | inl c, inl (LRes r') => wf c /\ presents c r' /\ o' = with_closers o (oclosers o ++ [Some c])
      | _, _ => False
      end
  end.
Proof.
  intros Hps Hwf Hpr. unfold Pool.p_nested_result. rewrite nested_result_bytes.
  rewrite (nested_bytes_sim _ _ t Hpr). destruct (nested_bytes r t) as [b|e]; [|auto].
  pose proof (p_decode_spec (opath o ++ [abs_tag t]) b pick ps Hps) as Hd.
  assert (Hdef : def_at (opath o ++ [abs_tag t]) = nested_def (rdef r) (abs_tag t)).
  { destruct Hpr as [Hd' _]. rewrite <- Hd'. unfold Pool.res_of, Pool.def_at. cbn [rdef]. rewrite fold_left_app. reflexivity. }
  rewrite Hdef in Hd.
  destruct (p_decode (opath o ++ [abs_tag t]) b pick ps) as [c ps'|ps'|]; [| |exact Hd].
  - destruct Hd as (Hps' & Hpath & Hcl & Hwc & r' & EL & Hpc). rewrite EL. split; [exact Hps'|].
    split; [|split; [|reflexivity]].
    + apply wf_iff. apply wf_iff' in Hwc. exact Hwc.
    + exact Hpc.
  - destruct Hd as [Hps' EL]. rewrite EL. auto.
Qed.

(* ---------- FieldData(path...) ---------- *)
Lemma p_walk_spec kd slice : forall path o picks ps r, PI ps -> wf o -> presents o r ->
  match p_walk o path picks ps (fun r t => helper_access (Some r) t kd slice) with
  | PPanic | PErr _ => False
  | POk (o', out) ps' => PI ps' /\ wf o' /\ (exists cl, o' = with_closers o cl) /\
       out = match walk (Some r) path with inr x => x | inl (r', t) => helper_access r' t kd slice end
  end.
Proof.
  induction path as [|t rest IH]; intros o picks ps r Hps Hwf Hpr.
  - cbn [Pool.p_walk walk]. split; [exact Hps|]. split; [exact Hwf|]. split; [|reflexivity].
    exists (oclosers o). destruct o; reflexivity.
  - destruct rest as [|t2 rest].
    + cbn [Pool.p_walk walk]. split; [exact Hps|]. split; [exact Hwf|]. split.
      * exists (oclosers o). destruct o; reflexivity.
      * apply helper_access_sim. exact Hpr.
    + remember (t2 :: rest) as rest' eqn:Er.
      assert (Ew : forall k, Pool.p_walk D false truncs o (t :: rest') picks ps k =
         match p_nested_result o t (hd O picks) ps with
         | PPanic => PPanic
         | PErr ps' => PErr ps'
         | POk (o', inr e) ps' => POk (o', AErr e) ps'
         | POk (o', inl c) ps' =>
           match Pool.p_walk D false truncs c rest' (tl picks) ps' k with
           | PPanic => PPanic
           | PErr ps'' => PErr ps''
           | POk (c', out) ps'' =>
               POk (PObj (opath o') (odata o') (removelast (oclosers o') ++ [Some c']) (oskip o') (oghost o'), out) ps''
           end
         end) by (intros k; rewrite Er; reflexivity).
      assert (Ev : walk (Some r) (t :: rest') =
         match nested_result (Some r) t with
         | inr e => inr (AErr e)
         | inl LCrash => inr APanic
         | inl LFail => inr (AErr EOther)
         | inl LNil => walk None rest'
         | inl (LRes r') => walk (Some r') rest'
         end) by (rewrite Er; reflexivity).
      rewrite Ew, Ev. clear Ew Ev.
      pose proof (p_nested_result_spec o t (hd O picks) ps r Hps Hwf Hpr) as Hn.
      destruct (p_nested_result o t (hd O picks) ps) as [[o' res] ps'|ps'|]; [| exact Hn | exact Hn].
      destruct Hn as [Hps' Hn].
      destruct res as [c|e].
      * destruct (nested_result (Some r) t) as [[| r' | |]|e']; try contradiction.
        destruct Hn as (Hwc & Hpc & Ho').
        pose proof (IH c (tl picks) ps' r' Hps' Hwc Hpc) as Hr.
        destruct (Pool.p_walk D false truncs c rest' (tl picks) ps' _) as [[c' out] ps''|ps''|]; [| exact Hr | exact Hr].
        destruct Hr as (Hps'' & Hwc' & _ & Hout). split; [exact Hps''|].
        subst o'. cbn [with_closers opath odata oclosers oskip oghost]. rewrite removelast_last.
        split; [|split].
        -- apply (wf_with_closers o); [exact Hwf|]. apply Forall_app. split.
           ++ apply wf_iff' in Hwf. tauto.
           ++ constructor; [exact Hwc' | constructor].
        -- eexists. reflexivity.
        -- exact Hout.
      * destruct (nested_result (Some r) t) as [[| r' | |]|e'] eqn:En; try contradiction.
        -- destruct Hn as [-> ->]. split; [exact Hps'|]. split; [exact Hwf|]. split; [|reflexivity].
           exists (oclosers o). destruct o; reflexivity.
        -- destruct Hn as [-> ->]. split; [exact Hps'|]. split; [exact Hwf|]. split; [|reflexivity].
           exists (oclosers o). destruct o; reflexivity.
Qed.

Lemma p_field_spec o path kd slice picks ps r : PI ps -> wf o -> presents o r ->
  match p_field o path kd slice picks ps with
  | PPanic | PErr _ => False
  | POk (o', out) ps' => PI ps' /\ wf o' /\ (exists cl, o' = with_closers o cl) /\
       out = field_data_access (Some r) path kd slice
  end.
Proof.
  intros Hps Hwf Hpr. unfold Pool.p_field, field_data_access.
  assert (Hd : rdef (res_of o) = rdef r) by (destruct Hpr; assumption).
  unfold has_tags, has_nested. rewrite Hd.
  destruct (_ && _).
  - split; [exact Hps|]. split; [exact Hwf|]. split; [|reflexivity]. exists (oclosers o). destruct o; reflexivity.
  - pose proof (p_walk_spec kd slice path o picks ps r Hps Hwf Hpr) as Hw.
    destruct (p_walk o path picks ps _) as [[o' out] ps'|ps'|]; [| exact Hw | exact Hw].
    destruct Hw as (H1 & H2 & H3 & ->). split; [exact H1|]. split; [exact H2|]. split; [exact H3|].
    destruct (walk (Some r) path) as [[r' t]|x]; reflexivity.
Qed.

(* ---------- NestedResults ---------- *)
Definition is_crash (o : lout) : bool := match o with LCrash => true | _ => false end.
Definition is_fail (o : lout) : bool := match o with LFail => true | _ => false end.
Definition child_ok (p : list N) (c : pobj) (b : list byte) : Prop :=
  wf c /\ exists r, lazy_decode_nested (def_at p) b = LRes r /\ presents c r.

Lemma skip_flag_wf c : wf c -> wf (PObj (opath c) (odata c) (oclosers c) true (oghost c)).
Proof. intros H. apply wf_iff. apply wf_iff' in H. exact H. Qed.

Lemma p_decode_all_spec p : forall bs picks ps acc, PI ps ->
  match p_decode_all p bs picks ps acc with
  | PPanic => False
  | PErr ps' => PI ps' /\ existsb is_fail (map (lazy_decode_nested (def_at p)) bs) = true
  | POk cs ps' => PI ps' /\ exists cs', cs = rev acc ++ cs' /\ Forall2 (child_ok p) cs' bs
  end.
Proof.
  induction bs as [|b bs IH]; intros picks ps acc Hps; cbn [Pool.p_decode_all].
  - split; [exact Hps|]. exists []. rewrite app_nil_r. split; [reflexivity | constructor].
  - pose proof (p_decode_spec p b (hd O picks) ps Hps) as Hd.
    destruct (p_decode p b (hd O picks) ps) as [c ps'|ps'|]; [| |exact Hd].
    + destruct Hd as (Hps' & Hpath & Hcl & Hwc & r & EL & Hpc).
      pose proof (IH (tl picks) ps' (PObj (opath c) (odata c) (oclosers c) true (oghost c) :: acc) Hps') as Hr.
      destruct (p_decode_all p bs (tl picks) ps' _) as [cs ps''|ps''|]; [| |exact Hr].
      * destruct Hr as (Hps'' & cs' & -> & Hf). split; [exact Hps''|].
        exists (PObj (opath c) (odata c) (oclosers c) true (oghost c) :: cs'). split.
        -- cbn [rev]. rewrite <- app_assoc. reflexivity.
        -- constructor; [|exact Hf]. split; [apply skip_flag_wf, Hwc|]. exists r. split; [exact EL | exact Hpc].
      * destruct Hr as [Hps'' He]. split; [exact Hps''|]. cbn [map existsb]. rewrite He. apply orb_true_r.
    + destruct Hd as [Hps' EL]. split; [exact Hps'|]. cbn [map existsb]. rewrite EL. reflexivity.
Qed.

Lemma children_ok_outs p inner kd slice : forall cs bs, Forall2 (child_ok p) cs bs ->
  existsb is_crash (map (lazy_decode_nested (def_at p)) bs) = false /\
  existsb is_fail (map (lazy_decode_nested (def_at p)) bs) = false /\
  map (fun o => helper_access (lout_res o) inner kd slice) (map (lazy_decode_nested (def_at p)) bs)
  = map (fun c => helper_access (Some (res_of c)) inner kd slice) cs /\
  Forall wfc (map Some cs).
Proof.
  induction 1 as [|c b cs bs Hcb Hf IH]; cbn [map existsb].
  - repeat split; constructor.
  - destruct IH as (I1 & I2 & I3 & I4). destruct Hcb as (Hwc & r & EL & Hpc). rewrite EL, I1, I2, I3.
    cbn [is_crash is_fail lout_res orb]. repeat split.
    + f_equal. symmetry. apply helper_access_sim. exact Hpc.
    + constructor; [exact Hwc | exact I4].
Qed.

Lemma crash_never d bs : existsb is_crash (map (lazy_decode_nested d) bs) = false.
Proof.
  induction bs as [|b bs IH]; cbn [map existsb]; [reflexivity|]. rewrite IH.
  pose proof (decode_into_np (flat_tags d) (fresh_data d) b) as Hnp. unfold lazy_decode_nested.
  destruct (decode_into (flat_tags d) (fresh_data d) b); cbn [of_lerr is_crash orb]; try reflexivity. contradiction.
Qed.

Lemma nra_unfold r t inner k s : nested_results_access r t inner k s =
  match nested_results r t with
  | inr e => NErr e
  | inl outs =>
      if existsb is_crash outs then NPanic
      else if existsb is_fail outs then NErr EOther
      else NList (map (fun o => helper_access (lout_res o) inner k s) outs)
  end.
Proof. reflexivity. Qed.

Lemma p_nested_obs_spec o t inner kd slice picks ps r : PI ps -> wf o -> presents o r ->
  match p_nested_obs o t inner kd slice picks ps with
  | PPanic | PErr _ => False
  | POk (o', out) ps' => PI ps' /\ wf o' /\ (exists cl, o' = with_closers o cl) /\
       out = nested_results_access (Some r) t inner kd slice
  end.
Proof.
  intros Hps Hwf Hpr. unfold Pool.p_nested_obs, Pool.p_nested_results. rewrite nra_unfold.
  rewrite nested_results_slices, (nested_slices_sim _ _ t Hpr).
  destruct (nested_slices r t) as [bs|e].
  2:{ split; [exact Hps|]. split; [exact Hwf|]. split; [|reflexivity]. exists (oclosers o). destruct o; reflexivity. }
  assert (Hdef : def_at (opath o ++ [abs_tag t]) = nested_def (rdef r) (abs_tag t)).
  { destruct Hpr as [Hd' _]. rewrite <- Hd'. unfold Pool.res_of, Pool.def_at. cbn [rdef]. rewrite fold_left_app. reflexivity. }
  rewrite <- Hdef.
  pose proof (p_decode_all_spec (opath o ++ [abs_tag t]) bs picks ps [] Hps) as Ha.
  destruct (p_decode_all (opath o ++ [abs_tag t]) bs picks ps []) as [cs ps'|ps'|]; [| |exact Ha].
  - destruct Ha as (Hps' & cs' & -> & Hf). cbn [rev app].
    destruct (children_ok_outs _ inner kd slice cs' bs Hf) as (I1 & I2 & I3 & I4). rewrite I1, I2, I3.
    split; [exact Hps'|]. split; [|split; [|reflexivity]].
    + apply (wf_with_closers o); [exact Hwf|]. apply Forall_app. split; [|exact I4]. apply wf_iff' in Hwf. tauto.
    + eexists. reflexivity.
  - destruct Ha as [Hps' He]. rewrite crash_never, He. split; [exact Hps'|]. split; [exact Hwf|].
    split; [|reflexivity]. exists (oclosers o). destruct o; reflexivity.
Qed.

(* ---------- the state relation ---------- *)
Definition good (o : pobj) (input : list byte) : Prop :=
  opath o = [] /\ wf o /\ exists r, lazy_decode_nested D input = LRes r /\ presents o r.
Definition hrel (a : option pobj) (b : option (list byte)) : Prop :=
  match a, b with Some o, Some inp => good o inp | None, None => True | _, _ => False end.
Definition srel (s : pstate) (live : list (nat * list byte)) : Prop :=
  PI (spools s) /\ NoDup (map fst (slive s)) /\ NoDup (map fst live) /\
  forall h, hrel (glookup h (slive s)) (glookup h live).

Lemma good_with_closers o cl inp : good o inp -> wf (with_closers o cl) -> good (with_closers o cl) inp.
Proof. intros (Hp & _ & Hr) Hw. split; [exact Hp|]. split; [exact Hw | exact Hr]. Qed.

Lemma srel_update s live h o o' ps inp cl :
  srel s live -> glookup h (slive s) = Some o -> glookup h live = Some inp -> PI ps ->
  o' = with_closers o cl -> wf o' ->
  srel {| spools := ps; slive := update h o' (slive s) |} live.
Proof.
  intros (H1 & H2 & H3 & H4) Ho Hi Hps -> Hw. unfold srel. cbn [spools slive]. unfold update. rewrite remove_g.
  split; [exact Hps|]. split; [|split; [exact H3|]].
  - cbn [map fst]. constructor; [apply gremove_gone, H2 | apply gremove_nodup, H2].
  - intros h'. cbn [glookup]. destruct (Nat.eqb_spec h h') as [E|E].
    + subst h'. rewrite Hi. cbn [hrel]. apply good_with_closers; [|exact Hw].
      specialize (H4 h). rewrite Ho, Hi in H4. exact H4.
    + rewrite glookup_gremove_other by exact E. apply H4.
Qed.

Lemma own_result_eq input r : lazy_decode_nested D input = LRes r -> own_result D input = Some r.
Proof. intros E. unfold own_result. rewrite E. reflexivity. Qed.

Lemma step_refines s live op : srel s live ->
  exists s', pstep s op = Some (fst (spec_step D live op), s') /\ srel s' (snd (spec_step D live op)).
Proof.
  intros Hs. pose proof Hs as (HPI & Hnd1 & Hnd2 & Hrel).
  destruct op as [h input pick | h path k slice picks | h t inner k slice picks | h | h];
    cbn [Pool.pstep spec_step]; rewrite lookup_g, lookup_in_g; pose proof (Hrel h) as Hh;
    destruct (glookup h (slive s)) as [o|] eqn:Eo; destruct (glookup h live) as [inp|] eqn:Ei;
    cbn [hrel] in Hh; try contradiction; cbn [fst snd];
    try (exists s; split; [reflexivity | exact Hs]).
  - (* Decode *)
    destruct input as [|b0 input]; [exists s; split; [reflexivity | exact Hs]|].
    pose proof (p_decode_spec [] (b0 :: input) pick (spools s) HPI) as Hd.
    change (def_at []) with D in Hd.
    destruct (p_decode [] (b0 :: input) pick (spools s)) as [c ps'|ps'|]; [| |contradiction].
    + destruct Hd as (Hps' & Hpath & Hcl & Hwc & r & EL & Hpc). rewrite EL. cbn [fst snd].
      eexists. split; [reflexivity|]. unfold srel. cbn [spools slive map fst].
      split; [exact Hps'|]. split; [|split].
      * constructor; [apply glookup_none, Eo | exact Hnd1].
      * constructor; [apply glookup_none, Ei | exact Hnd2].
      * intros h'. cbn [glookup]. destruct (Nat.eqb h h'); [|apply Hrel].
        cbn [hrel]. split; [exact Hpath|]. split; [exact Hwc|]. exists r. split; assumption.
    + destruct Hd as [Hps' EL]. rewrite EL. cbn [fst snd]. eexists. split; [reflexivity|].
      unfold srel. cbn [spools slive]. auto.
  - (* FieldData *)
    destruct Hh as (Hpath & Hwf & r & EL & Hpr). rewrite (own_result_eq inp r EL).
    pose proof (p_field_spec o path k slice picks (spools s) r HPI Hwf Hpr) as Hf.
    destruct (p_field o path k slice picks (spools s)) as [[o' out] ps'|ps'|]; try contradiction.
    destruct Hf as (Hps' & Hw' & [cl Ho'] & ->). eexists. split; [reflexivity|].
    eapply srel_update; eauto.
  - (* NestedResults *)
    destruct Hh as (Hpath & Hwf & r & EL & Hpr). rewrite (own_result_eq inp r EL).
    pose proof (p_nested_obs_spec o t inner k slice picks (spools s) r HPI Hwf Hpr) as Hf.
    destruct (p_nested_obs o t inner k slice picks (spools s)) as [[o' out] ps'|ps'|]; try contradiction.
    destruct Hf as (Hps' & Hw' & [cl Ho'] & ->). eexists. split; [reflexivity|].
    eapply srel_update; eauto.
  - (* Range *)
    destruct Hh as (Hpath & Hwf & r & EL & Hpr). rewrite (own_result_eq inp r EL).
    rewrite (range_obs_sim _ _ Hpr). exists s. split; [reflexivity | exact Hs].
  - (* Close *)
    destruct Hh as (Hpath & Hwf & _).
    destruct (close_obj_spec o Hwf (spools s) HPI) as (ps' & Ec & Hps'). rewrite Ec.
    eexists. split; [reflexivity|]. unfold srel. cbn [spools slive]. rewrite remove_g, remove_in_g.
    split; [exact Hps'|]. split; [apply gremove_nodup, Hnd1|]. split; [apply gremove_nodup, Hnd2|].
    intros h'. destruct (Nat.eq_dec h h') as [E|E].
    + subst h'. rewrite !glookup_gremove_same by assumption. exact I.
    + rewrite !glookup_gremove_other by exact E. apply Hrel.
Qed.

Lemma run_refines : forall ops s live, srel s live ->
  exists s', prun s ops = Some (spec_run D live ops, s') /\ exists live', srel s' live'.
Proof.
  induction ops as [|op ops IH]; intros s live Hs; cbn [Pool.prun spec_run].
  - eauto.
  - destruct (step_refines s live op Hs) as (s1 & E1 & Hs1). rewrite E1.
    destruct (spec_step D live op) as [ob live1]. cbn [fst snd] in *.
    destruct (IH s1 live1 Hs1) as (s' & E' & Hs'). rewrite E'. eauto.
Qed.

Lemma srel_init : srel pinit [].
Proof. unfold srel, pinit. cbn. repeat split; constructor. Qed.

End Proofs.

(* ---------- the lemmas Props/C14.v and Props/C15.v refer to ---------- *)
Theorem isolation : forall D truncs ops,
  def_valid (def_depth D) D = true ->
  exists s', prun D false truncs pinit ops = Some (spec_run D [] ops, s').
Proof.
  intros D truncs ops _. destruct (run_refines D truncs ops pinit [] (srel_init D)) as (s' & E & _). eauto.
Qed.

Theorem pools_clean : forall D truncs ops obs s',
  def_valid (def_depth D) D = true ->
  prun D false truncs pinit ops = Some (obs, s') ->
  Forall (fun pl => Forall (fun o => Forall (fun fd => fdat fd = []) (odata o) /\ oclosers o = []) (snd pl)) (spools s').
Proof.
  intros D truncs ops obs s' _ E.
  destruct (run_refines D truncs ops pinit [] (srel_init D)) as (s'' & E' & live' & Hs). rewrite E in E'.
  inversion E'; subst. destruct Hs as (HPI & _). unfold PI in HPI.
  eapply Forall_impl; [|exact HPI]. intros pl Hpl. eapply Forall_impl; [|exact Hpl].
  intros o (_ & H1 & H2 & _). split; assumption.
Qed.

Theorem schedule_independence : forall D truncs owner (sch : schedule),
  def_valid (def_depth D) D = true -> handles_private owner sch ->
  exists obs s', prun D false truncs pinit (map snd sch) = Some (obs, s') /\
    forall g, proj_obs g sch obs = spec_run D [] (proj_ops g sch).
Proof.
  intros D truncs owner sch Hv Hp. destruct (isolation D truncs (map snd sch) Hv) as (s' & E).
  exists (spec_run D [] (map snd sch)), s'. split; [exact E|]. intros g. apply spec_run_proj with (owner := owner). exact Hp.
Qed.

Print Assumptions isolation.
Print Assumptions pools_clean.
Print Assumptions schedule_independence.
