(* lazyproto: definitions (def.go), the single decoding pass (decode_result.go decode), the typed
   accessors (fielddata.go) and the result navigation API (decode_result.go), as pure functions.
   Pooling and reuse are in Pool.v; this file is what a *fresh* result computes.  Definitions only. *)
From CsProto Require Import Prelude Varint ZigZag Codec RefWire WireStmts.
Local Open Scope N_scope.

(* ---------- Def: map[int]Def, rendered as an association list with distinct keys ---------- *)
Inductive ldef := LDef (entries : list (Z * option ldef)).
Definition entries (d : ldef) := match d with LDef e => e end.

(* protowire.Number.IsValid on |k| (1 <= n <= 2^29-1; the reserved range 19000-19999 is NOT excluded
   by protowire), after the MaxInt32 test *)
Definition num_valid (n : Z) : bool :=
  ((n <=? 2147483647) && ((1 <=? n) && (n <=? 536870911)))%Z.
Fixpoint def_valid (fuel : nat) (d : ldef) : bool :=
  match fuel with
  | O => false
  | S f => forallb (fun '(k, v) => num_valid (Z.abs k) &&
                                   match v with None => true | Some d' => def_valid f d' end) (entries d)
  end.
Fixpoint def_depth (d : ldef) : nat :=
  match d with
  | LDef e => S ((fix go (l : list (Z * option ldef)) : nat :=
                    match l with
                    | [] => O
                    | (_, None) :: r => go r
                    | (_, Some d') :: r => Nat.max (def_depth d') (go r)
                    end) e)
  end.

(* slices.Sort + slices.Compact *)
Fixpoint insert_u (x : N) (l : list N) : list N :=
  match l with
  | [] => [x]
  | y :: r => if x <? y then x :: l else if x =? y then l else y :: insert_u x r
  end.
Definition sort_u (l : list N) : list N := fold_right insert_u [] l.

Definition flat_tags (d : ldef) : list N := sort_u (map (fun '(k, _) => Z.to_N (Z.abs k)) (entries d)).
Definition nested_tags (d : ldef) : list N :=
  sort_u (flat_map (fun '(k, v) => match v with Some _ => [Z.to_N (Z.abs k)] | None => [] end) (entries d)).
(* def[tag] for a (positive) nested tag: the mapping under exactly that key, nil otherwise *)
Fixpoint def_lookup (l : list (Z * option ldef)) (t : Z) : option ldef :=
  match l with
  | [] => None
  | (k, v) :: r => if (k =? t)%Z then v else def_lookup r t
  end.
Definition nested_def (d : ldef) (t : N) : ldef :=
  match def_lookup (entries d) (Z.of_N t) with Some d' => d' | None => LDef [] end.

(* slices.BinarySearch on the sorted tag table: position of t *)
Fixpoint index_of (t : N) (l : list N) : option nat :=
  match l with
  | [] => None
  | x :: r => if x =? t then Some O else option_map S (index_of t r)
  end.

(* ---------- FieldData: wire type + the raw value slices recorded for a tag ---------- *)
Record fdata := { fwt : N; fdat : list (list byte) }.
Definition fd_empty : fdata := {| fwt := 0; fdat := [] |}.
Fixpoint set_nth {A} (n : nat) (x : A) (l : list A) : list A :=
  match l, n with
  | [], _ => []
  | _ :: r, O => x :: r
  | y :: r, S m => y :: set_nth m x r
  end.

(* decode(): one pass with a fast-mode csproto.Decoder; appends to whatever [data] already holds *)
Inductive lerr (A : Type) := LOkv (a : A) | LErrv | LPanicv.
Arguments LOkv {A} a. Arguments LErrv {A}. Arguments LPanicv {A}.

Fixpoint decode_loop (fuel : nat) (tags : list N) (data : list fdata) (d : decoder) : lerr (list fdata) :=
  match fuel with
  | O => LErrv
  | S f =>
    if at_eof d then LOkv data else
    match dec_tag d with
    | DPanic => LPanicv
    | DErr _ => LErrv
    | DOk (tag, wt) d1 =>
      match index_of tag tags with
      | None =>
          match dec_skip d1 (Z.of_N tag) (Z.of_N wt) with
          | DPanic => LPanicv | DErr _ => LErrv
          | DOk _ d2 => decode_loop f tags data d2
          end
      | Some i =>
          let fd := nth i data fd_empty in
          if negb (match fdat fd with [] => true | _ => false end) && negb (fwt fd =? wt) then LErrv
          else if (wt =? 0) || (wt =? 5) || (wt =? 1) then
            match dec_skip d1 (Z.of_N tag) (Z.of_N wt) with
            | DPanic => LPanicv | DErr _ => LErrv
            | DOk raw d2 =>
                (* val = val[csproto.SizeOfTagKey(tag):] *)
                if (length raw <? size_key tag)%nat then LPanicv
                else decode_loop f tags (set_nth i {| fwt := wt; fdat := fdat fd ++ [skipn (size_key tag) raw] |} data) d2
            end
          else if wt =? 2 then
            match dec_bytes d1 with
            | DPanic => LPanicv | DErr _ => LErrv
            | DOk val d2 => decode_loop f tags (set_nth i {| fwt := wt; fdat := fdat fd ++ [val] |} data) d2
            end
          else LErrv
      end
    end
  end.
Definition decode_into (tags : list N) (data : list fdata) (input : list byte) : lerr (list fdata) :=
  decode_loop (S (length input)) tags data {| dbuf := input; doff := 0; dfast := true |}.

(* a decoded result as the navigation API sees it: its definition node and the recorded data *)
Record lres := { rdef : ldef; rdata : list fdata }.
Definition fresh_data (d : ldef) : list fdata := map (fun _ => fd_empty) (flat_tags d).

(* the two entry points.  LNil: the deprecated Decode's emptyResult / Decoder.Decode's nil result *)
Inductive lout := LNil | LRes (r : lres) | LFail | LCrash.
Definition of_lerr (d : ldef) (r : lerr (list fdata)) : lout :=
  match r with LOkv dat => LRes {| rdef := d; rdata := dat |} | LErrv => LFail | LPanicv => LCrash end.
(* NewDecoder(def) then Decode(data) *)
Definition lazy_decode_dec (d : ldef) (input : list byte) : lout :=
  if negb (def_valid (def_depth d) d) then LFail
  else match input with [] => LNil | _ => of_lerr d (decode_into (flat_tags d) (fresh_data d) input) end.
(* Decode(data, def) *)
Definition lazy_decode_fn (d : ldef) (input : list byte) : lout :=
  match input, entries d with
  | [], _ | _, [] => LNil
  | _, _ => if negb (def_valid (def_depth d) d) then LFail
            else of_lerr d (decode_into (flat_tags d) (fresh_data d) input)
  end.
(* decodeNested: what NestedResult(s) do with a nested field's bytes (empty bytes included) *)
Definition lazy_decode_nested (d : ldef) (input : list byte) : lout :=
  of_lerr d (decode_into (flat_tags d) (fresh_data d) input).

(* ---------- typed accessors on FieldData ---------- *)
Inductive akind := ABool | AString | ABytes | AUInt32 | AInt32 | ASInt32 | AUInt64 | AInt64 | ASInt64
                 | AFixed32 | AFixed64 | AFloat32 | AFloat64.
Inductive aerr := ENotFound | ENotDefined | ENestingNotDefined | EMismatch | EOther.
Inductive aval := AvNum (z : Z) | AvBytes (b : list byte) | AvNums (l : list Z) | AvBytesList (l : list (list byte)).
Inductive aout := AOk (v : aval) | AErr (e : aerr) | APanic.

Definition want_wt (k : akind) : N :=
  match k with
  | AString | ABytes => 2
  | AFixed32 | AFloat32 => 5
  | AFixed64 | AFloat64 => 1
  | _ => 0
  end.
Definition skind_of (k : akind) : skind :=
  match k with
  | ABool => KBool | AUInt32 => KUInt32 | AInt32 => KInt32 | ASInt32 => KSInt32
  | AUInt64 => KUInt64 | AInt64 => KInt64 | ASInt64 => KSInt64
  | AFixed32 => KFixed32 | AFixed64 => KFixed64 | AFloat32 => KFloat | AFloat64 => KDouble
  | AString | ABytes => KBool (* unused *)
  end.
(* the conversion closures: csproto.DecodeVarint / DecodeZigZag / DecodeFixedNN / LittleEndian.UintNN
   after a length test, plus the range checks *)
Definition conv_one (k : akind) (p : list byte) : option (Z * nat) :=
  let sk := skind_of k in
  if is_varint_kind sk then
    match dec_varint p with
    | inr _ => None
    | inl (v, n) => match of_wire sk v with None => None | Some z => Some (z, n) end
    end
  else
    let w := width_of sk in
    if (length p <? w)%nat then None
    else match of_wire sk (le_val (firstn w p)) with None => None | Some z => Some (z, w) end.

Definition last_of {A} (l : list A) : option A := match rev l with [] => None | x :: _ => Some x end.

(* scalarValue *)
Definition acc_scalar (fd : fdata) (k : akind) : aout :=
  match last_of (fdat fd) with
  | None => AErr ENotFound
  | Some dat =>
      if negb (fwt fd =? want_wt k) then AErr EMismatch
      else match k with
           | AString | ABytes => AOk (AvBytes dat)
           | _ => match conv_one k dat with Some (z, _) => AOk (AvNum z) | None => AErr EOther end
           end
  end.

(* sliceValue's inner loop over one recorded slice: for offset < len(data) { convert; n <= 0 => error } *)
Fixpoint conv_all (fuel : nat) (k : akind) (p : list byte) : option (list Z) :=
  match p with
  | [] => Some []
  | _ =>
    match fuel with
    | O => None
    | S f =>
      match conv_one k p with
      | None => None
      | Some (z, n) =>
          if (n =? 0)%nat then None
          else match conv_all f k (skipn n p) with Some r => Some (z :: r) | None => None end
      end
    end
  end.
Fixpoint conv_slices (k : akind) (ds : list (list byte)) : option (list Z) :=
  match ds with
  | [] => Some []
  | d :: r => match conv_all (S (length d)) k d, conv_slices k r with
              | Some a, Some b => Some (a ++ b) | _, _ => None end
  end.

(* XxxValues *)
Definition acc_slice (fd : fdata) (k : akind) : aout :=
  match fdat fd with
  | [] => AErr ENotFound
  | ds =>
      match k with
      | ABytes => AOk (AvBytesList ds)                                  (* BytesValues: no wire-type test *)
      | AString => if fwt fd =? 2 then AOk (AvBytesList ds) else AErr EMismatch
      | _ => if (fwt fd =? want_wt k) || (fwt fd =? 2)
             then match conv_slices k ds with Some l => AOk (AvNums l) | None => AErr EOther end
             else AErr EMismatch
      end
  end.
Definition acc (fd : fdata) (k : akind) (slice : bool) : aout := if slice then acc_slice fd k else acc_scalar fd k.

(* ---------- navigation ---------- *)
Definition abs_tag (t : Z) : N := Z.to_N (Z.abs t).
Definition has_tags (r : lres) : bool := match flat_tags (rdef r) with [] => false | _ => true end.
Definition has_nested (r : lres) : bool := match nested_tags (rdef r) with [] => false | _ => true end.

(* GetFieldData *)
Definition get_fd (r : option lres) (t : Z) : fdata + aerr :=
  match r with
  | None => inr ENotDefined
  | Some r =>
      if negb (has_tags r) then inr ENotDefined else
      match index_of (abs_tag t) (flat_tags (rdef r)) with
      | None => inr ENotDefined
      | Some i => let fd := nth i (rdata r) fd_empty in
                  match fdat fd with [] => inr ENotFound | _ => inl fd end
      end
  end.

(* NestedResult: decode the last recorded occurrence with the nested definition *)
Definition nested_result (r : option lres) (t : Z) : lout + aerr :=
  match r with
  | None => inr ENotDefined
  | Some r =>
      if negb (has_nested r) then inr ENotDefined else
      match index_of (abs_tag t) (flat_tags (rdef r)) with
      | None => inr ENotDefined
      | Some i =>
          if negb (existsb (N.eqb (abs_tag t)) (nested_tags (rdef r))) then inr ENestingNotDefined else
          let fd := nth i (rdata r) fd_empty in
          match last_of (fdat fd) with
          | None => inr ENotFound
          | Some b => if negb (fwt fd =? 2) then inr EMismatch
                      else inl (lazy_decode_nested (nested_def (rdef r) (abs_tag t)) b)
          end
      end
  end.

(* FieldData(tags...) followed by a typed accessor *)
Fixpoint walk (r : option lres) (path : list Z) : (option lres * Z) + aout :=
  match path with
  | [] => inr (AErr EOther)                         (* "at least one tag key must be specified" *)
  | [t] => inl (r, t)
  | t :: rest =>
      match nested_result r t with
      | inr e => inr (AErr e)
      | inl LCrash => inr APanic
      | inl LFail => inr (AErr EOther)
      | inl LNil => walk None rest
      | inl (LRes r') => walk (Some r') rest
      end
  end.
Definition field_data_access (r : option lres) (path : list Z) (k : akind) (slice : bool) : aout :=
  match r with
  | None => AErr ENotDefined
  | Some r0 =>
      if negb (has_tags r0) && negb (has_nested r0) then AErr ENotDefined else
      match walk r path with
      | inr o => o
      | inl (r', t) => match get_fd r' t with inr e => AErr e | inl fd => acc fd k slice end
      end
  end.

(* NestedResults(tag) on the result reached by [path], then helper(inner) on each *)
Definition nested_results (r : option lres) (t : Z) : list lout + aerr :=
  match r with
  | None => inr ENotDefined
  | Some r =>
      if negb (has_nested r) then inr ENotDefined else
      if negb (existsb (N.eqb (abs_tag t)) (nested_tags (rdef r))) then inr ENotDefined else
      match index_of (abs_tag t) (flat_tags (rdef r)) with
      | None => inr ENotDefined
      | Some i =>
          let fd := nth i (rdata r) fd_empty in
          match fdat fd with
          | [] => inr ENotFound
          | ds => inl (map (lazy_decode_nested (nested_def (rdef r) (abs_tag t))) ds)
          end
      end
  end.
Definition helper_access (r : option lres) (t : Z) (k : akind) (slice : bool) : aout :=
  match get_fd r t with inr e => AErr e | inl fd => acc fd k slice end.
Definition lout_res (o : lout) : option lres := match o with LRes r => Some r | _ => None end.
Inductive nouts := NErr (e : aerr) | NPanic | NList (l : list aout).
Definition nested_results_access (r : option lres) (t inner : Z) (k : akind) (slice : bool) : nouts :=
  match nested_results r t with
  | inr e => NErr e
  | inl outs =>
      if existsb (fun o => match o with LCrash => true | _ => false end) outs then NPanic
      else if existsb (fun o => match o with LFail => true | _ => false end) outs then NErr EOther
      else NList (map (fun o => helper_access (lout_res o) inner k slice) outs)
  end.

(* Range: (tag, present?) for every flat tag in table order *)
Definition range_obs (r : lres) : list (N * bool) :=
  map (fun '(t, fd) => (t, match fdat fd with [] => false | _ => true end)) (combine (flat_tags (rdef r)) (rdata r)).

(* follow NestedResult along a whole path (used for NestedResults / Range below the root) *)
Fixpoint walk_all (r : option lres) (path : list Z) : option lres + aout :=
  match path with
  | [] => inl r
  | t :: rest =>
      match nested_result r t with
      | inr e => inr (AErr e)
      | inl LCrash => inr APanic
      | inl LFail => inr (AErr EOther)
      | inl LNil => walk_all None rest
      | inl (LRes r') => walk_all (Some r') rest
      end
  end.

(* one observation made on a decode result *)
Inductive aop :=
| OpField (path : list Z) (k : akind) (slice : bool)                 (* r.FieldData(path...).XValue(s)() *)
| OpHelper (path : list Z) (t : Z) (k : akind) (slice : bool)         (* walk path, then r'.XValue(s)(t) *)
| OpNested (path : list Z) (t inner : Z) (k : akind) (slice : bool)   (* walk path, NestedResults(t), helper(inner) on each *)
| OpRange (path : list Z).
Inductive obs := ObsOut (o : aout) | ObsNested (n : nouts) | ObsRange (l : list (N * bool)).
Definition observe (r : option lres) (op : aop) : obs :=
  match op with
  | OpField path k s => ObsOut (field_data_access r path k s)
  | OpHelper path t k s =>
      match walk_all r path with inr o => ObsOut o | inl r' => ObsOut (helper_access r' t k s) end
  | OpNested path t inner k s =>
      match walk_all r path with inr o => ObsOut o | inl r' => ObsNested (nested_results_access r' t inner k s) end
  | OpRange path =>
      match walk_all r path with
      | inr o => ObsOut o
      | inl None => ObsRange []
      | inl (Some r') => ObsRange (range_obs r')
      end
  end.

(* ---------- aliasing (C10): does the value an accessor hands out share memory with the decode
   input?  The Decoder clones the input in safe mode and decodes it with a fast-mode csproto.Decoder;
   the string/bytes accessors clone again in safe mode (string(data), slices.Clone) and hand out the
   recorded slices themselves in fast mode; numeric accessors always build fresh values (in fast mode
   their slices are the result's own scratch slices, never the input). ---------- *)
Definition acc_aliases_input (fast_mode : bool) (k : akind) : bool :=
  fast_mode && match k with AString | ABytes => true | _ => false end.
