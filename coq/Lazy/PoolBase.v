(* Pool-independent groundwork for the C14/C15 proofs: an induction principle for result objects,
   keyed-list lemmas, the observational equivalence on recorded data ("same slices, same wire type
   wherever there is a slice") and its preservation by the decode pass and every navigation function. *)
From CsProto Require Import Prelude Varint ZigZag Codec RefWire WireStmts Lazy Pool PoolSpec.

(* ---------- induction on result objects (nested through the closer list) ---------- *)
Section PobjInd.
Variable P : pobj -> Prop.
Hypothesis HP : forall p dat cl sk g,
  Forall (fun x => match x with Some c => P c | None => True end) cl -> P (PObj p dat cl sk g).
Lemma pobj_ind' : forall o, P o.
Proof.
  fix IH 1. intros [p dat cl sk g]. apply HP.
  induction cl as [|x r IHr]; constructor.
  - destruct x as [c|]; [apply IH | exact I].
  - exact IHr.
Qed.
End PobjInd.

(* ---------- keyed lists ---------- *)
Section Keyed.
Context {A : Type}.
Fixpoint glookup (h : nat) (l : list (nat * A)) : option A :=
  match l with [] => None | (k, v) :: r => if Nat.eqb k h then Some v else glookup h r end.
Fixpoint gremove (h : nat) (l : list (nat * A)) : list (nat * A) :=
  match l with [] => [] | (k, v) :: r => if Nat.eqb k h then r else (k, v) :: gremove h r end.

Lemma glookup_none h l : glookup h l = None <-> ~ In h (map fst l).
Proof.
  induction l as [|[k v] r IH]; cbn [glookup map fst In].
  - tauto.
  - destruct (Nat.eqb_spec k h) as [E|E].
    + split; [discriminate | intros H; exfalso; apply H; left; exact E].
    + rewrite IH. tauto.
Qed.
Lemma gremove_keys h l k : In k (map fst (gremove h l)) -> In k (map fst l).
Proof.
  induction l as [|[k' v] r IH]; cbn [gremove map fst In]; [tauto|].
  destruct (Nat.eqb k' h); cbn [map fst In]; tauto.
Qed.
Lemma gremove_nodup h l : NoDup (map fst l) -> NoDup (map fst (gremove h l)).
Proof.
  induction l as [|[k v] r IH]; cbn [gremove map fst]; intros H; [constructor|].
  inversion H as [|? ? Hn Hr]; subst. destruct (Nat.eqb k h); [exact Hr|].
  cbn [map fst]. constructor; [|auto]. intros Hin. apply Hn. eapply gremove_keys; eauto.
Qed.
Lemma gremove_gone h l : NoDup (map fst l) -> ~ In h (map fst (gremove h l)).
Proof.
  induction l as [|[k v] r IH]; cbn [gremove map fst]; intros H; [tauto|].
  inversion H as [|? ? Hn Hr]; subst. destruct (Nat.eqb_spec k h) as [E|E].
  - subst. exact Hn.
  - cbn [map fst In]. intros [E'|Hin]; [contradiction|]. exact (IH Hr Hin).
Qed.
Lemma glookup_gremove_same h l : NoDup (map fst l) -> glookup h (gremove h l) = None.
Proof. intros H. apply glookup_none, gremove_gone, H. Qed.
Lemma glookup_gremove_other h h' l : h <> h' -> glookup h' (gremove h l) = glookup h' l.
Proof.
  intros Hne. induction l as [|[k v] r IH]; cbn [gremove glookup]; [reflexivity|].
  destruct (Nat.eqb_spec k h) as [E|E].
  - subst. destruct (Nat.eqb_spec h h'); [contradiction | reflexivity].
  - cbn [glookup]. rewrite IH. reflexivity.
Qed.
End Keyed.

Lemma lookup_g h l : lookup h l = glookup h l.
Proof. induction l as [|[k v] r IH]; cbn; [reflexivity|]. rewrite IH. reflexivity. Qed.
Lemma remove_g h l : remove h l = gremove h l.
Proof. induction l as [|[k v] r IH]; cbn; [reflexivity|]. rewrite IH. reflexivity. Qed.
Lemma lookup_in_g h l : lookup_in h l = glookup h l.
Proof. induction l as [|[k v] r IH]; cbn; [reflexivity|]. rewrite IH. reflexivity. Qed.
Lemma remove_in_g h l : remove_in h l = gremove h l.
Proof. induction l as [|[k v] r IH]; cbn; [reflexivity|]. rewrite IH. reflexivity. Qed.

(* ---------- paths ---------- *)
Lemma path_eqb_eq a b : path_eqb a b = true -> a = b.
Proof.
  unfold path_eqb. revert b. induction a as [|x a IH]; intros [|y b]; cbn [length combine forallb Nat.eqb];
    try reflexivity; try discriminate.
  intros H. apply andb_true_iff in H. destruct H as [Hl H]. apply andb_true_iff in H. destruct H as [Hx H].
  apply N.eqb_eq in Hx. subst. f_equal. apply IH. rewrite Hl, H. reflexivity.
Qed.

(* ---------- observational equivalence of recorded data ---------- *)
Definition fd_sim (a b : fdata) : Prop := fdat a = fdat b /\ (fdat a <> [] -> fwt a = fwt b).
Definition dsim : list fdata -> list fdata -> Prop := Forall2 fd_sim.
Definition rsim (r1 r2 : lres) : Prop := rdef r1 = rdef r2 /\ dsim (rdata r1) (rdata r2).

Lemma fd_sim_refl a : fd_sim a a. Proof. split; auto. Qed.
Lemma dsim_refl l : dsim l l. Proof. induction l; constructor; auto using fd_sim_refl. Qed.
Lemma fd_sim_eq a b : fd_sim a b -> fdat a <> [] -> a = b.
Proof. destruct a as [wa da], b as [wb db]; unfold fd_sim; cbn. intros [-> Hw] Hn. rewrite (Hw Hn). reflexivity. Qed.
Lemma dsim_nth l1 l2 i : dsim l1 l2 -> fd_sim (nth i l1 fd_empty) (nth i l2 fd_empty).
Proof.
  intros H. revert i. induction H as [|a b l1 l2 Hab H IH]; intros [|i]; cbn [nth]; auto using fd_sim_refl.
Qed.
Lemma dsim_set_nth l1 l2 i a b : dsim l1 l2 -> fd_sim a b -> dsim (set_nth i a l1) (set_nth i b l2).
Proof.
  intros H Hab. revert i. induction H as [|x y l1 l2 Hxy H IH]; intros [|i]; cbn [set_nth]; constructor; auto.
  apply IH.
Qed.
Lemma dsim_length l1 l2 : dsim l1 l2 -> length l1 = length l2.
Proof. induction 1; cbn; auto. Qed.
Lemma set_nth_length {A} i (x : A) l : length (set_nth i x l) = length l.
Proof. revert i; induction l as [|y l IH]; intros [|i]; cbn; auto. Qed.

Lemma clean_sim_fresh l (tags : list N) :
  Forall (fun fd => fdat fd = []) l -> length l = length tags -> dsim l (map (fun _ => fd_empty) tags).
Proof.
  revert tags. induction l as [|a l IH]; intros [|t tags] Hc Hl; cbn in Hl; try discriminate; cbn [map].
  - constructor.
  - inversion Hc as [|? ? Ha Hc']; subst. constructor; [|apply IH; auto].
    split; cbn; [exact Ha | intros Hn; contradiction].
Qed.

(* the decode pass, one iteration spelled with named pieces *)
Definition mixed (fd : fdata) (wt : N) : bool :=
  negb (match fdat fd with [] => true | _ => false end) && negb (fwt fd =? wt)%N.
Definition record_val (i : nat) (wt : N) (v : list byte) (data : list fdata) : list fdata :=
  set_nth i {| fwt := wt; fdat := fdat (nth i data fd_empty) ++ [v] |} data.

Lemma decode_loop_S f tags data d : decode_loop (S f) tags data d =
  if at_eof d then LOkv data else
  match dec_tag d with
  | DPanic => LPanicv
  | DErr _ => LErrv
  | DOk (tag, wt) d1 =>
    match index_of tag tags with
    | None => match dec_skip d1 (Z.of_N tag) (Z.of_N wt) with
              | DPanic => LPanicv | DErr _ => LErrv
              | DOk _ d2 => decode_loop f tags data d2
              end
    | Some i =>
        if mixed (nth i data fd_empty) wt then LErrv
        else if ((wt =? 0) || (wt =? 5) || (wt =? 1))%N then
          match dec_skip d1 (Z.of_N tag) (Z.of_N wt) with
          | DPanic => LPanicv | DErr _ => LErrv
          | DOk raw d2 =>
              if (length raw <? size_key tag)%nat then LPanicv
              else decode_loop f tags (record_val i wt (skipn (size_key tag) raw) data) d2
          end
        else if (wt =? 2)%N then
          match dec_bytes d1 with
          | DPanic => LPanicv | DErr _ => LErrv
          | DOk val d2 => decode_loop f tags (record_val i wt val data) d2
          end
        else LErrv
    end
  end.
Proof. reflexivity. Qed.

Lemma mixed_sim a b wt : fd_sim a b -> mixed a wt = mixed b wt.
Proof.
  intros [Hd Hw]. unfold mixed. rewrite <- Hd. destruct (fdat a) as [|x r] eqn:E; [reflexivity|].
  rewrite Hw by discriminate. reflexivity.
Qed.
Lemma record_val_sim i wt v l1 l2 : dsim l1 l2 -> dsim (record_val i wt v l1) (record_val i wt v l2).
Proof.
  intros H. unfold record_val. apply dsim_set_nth; [exact H|].
  destruct (dsim_nth l1 l2 i H) as [Hd _]. split; cbn [fdat fwt]; [rewrite Hd; reflexivity | reflexivity].
Qed.

Definition lerr_sim (a b : lerr (list fdata)) : Prop :=
  match a, b with
  | LOkv x, LOkv y => dsim x y
  | LErrv, LErrv => True
  | LPanicv, LPanicv => True
  | _, _ => False
  end.

Lemma decode_loop_sim : forall fuel tags l1 l2 d, dsim l1 l2 ->
  lerr_sim (decode_loop fuel tags l1 d) (decode_loop fuel tags l2 d).
Proof.
  induction fuel as [|f IH]; intros tags l1 l2 d H; [exact I|].
  rewrite !decode_loop_S. destruct (at_eof d); [exact H|].
  destruct (dec_tag d) as [[tag wt] d1|d1|]; [|exact I|exact I].
  destruct (index_of tag tags) as [i|].
  - rewrite (mixed_sim _ _ wt (dsim_nth l1 l2 i H)).
    destruct (mixed (nth i l2 fd_empty) wt); [exact I|].
    destruct ((wt =? 0) || (wt =? 5) || (wt =? 1))%N.
    + destruct (dec_skip d1 (Z.of_N tag) (Z.of_N wt)) as [raw d2|d2|]; [|exact I|exact I].
      destruct (length raw <? size_key tag)%nat; [exact I|]. apply IH, record_val_sim, H.
    + destruct (wt =? 2)%N; [|exact I].
      destruct (dec_bytes d1) as [val d2|d2|]; [|exact I|exact I]. apply IH, record_val_sim, H.
  - destruct (dec_skip d1 (Z.of_N tag) (Z.of_N wt)) as [raw d2|d2|]; [|exact I|exact I]. apply IH, H.
Qed.

Lemma decode_loop_length : forall fuel tags l d l', decode_loop fuel tags l d = LOkv l' -> length l' = length l.
Proof.
  induction fuel as [|f IH]; intros tags l d l'; [discriminate|].
  rewrite decode_loop_S. destruct (at_eof d); [intros E; inversion E; reflexivity|].
  destruct (dec_tag d) as [[tag wt] d1|d1|]; try discriminate.
  destruct (index_of tag tags) as [i|].
  - destruct (mixed (nth i l fd_empty) wt); [discriminate|].
    destruct ((wt =? 0) || (wt =? 5) || (wt =? 1))%N.
    + destruct (dec_skip d1 (Z.of_N tag) (Z.of_N wt)) as [raw d2|d2|]; try discriminate.
      destruct (length raw <? size_key tag)%nat; [discriminate|]. intros E. apply IH in E. rewrite E.
      unfold record_val. apply set_nth_length.
    + destruct (wt =? 2)%N; [|discriminate].
      destruct (dec_bytes d1) as [val d2|d2|]; try discriminate. intros E. apply IH in E. rewrite E.
      unfold record_val. apply set_nth_length.
  - destruct (dec_skip d1 (Z.of_N tag) (Z.of_N wt)) as [raw d2|d2|]; try discriminate. apply IH.
Qed.

(* ---------- every navigation function only sees the data up to [dsim] ---------- *)
Lemma get_fd_sim r1 r2 t : rsim r1 r2 -> get_fd (Some r1) t = get_fd (Some r2) t.
Proof.
  intros [Hd Hs]. unfold get_fd, has_tags. rewrite Hd. destruct (negb _); [reflexivity|].
  destruct (index_of (abs_tag t) (flat_tags (rdef r2))) as [i|]; [|reflexivity].
  pose proof (dsim_nth _ _ i Hs) as Hfd. pose proof (fd_sim_eq _ _ Hfd) as He. destruct Hfd as [Hf _].
  rewrite <- Hf. destruct (fdat (nth i (rdata r1) fd_empty)) eqn:E; [reflexivity|].
  rewrite He by discriminate. reflexivity.
Qed.
Lemma helper_access_sim r1 r2 t k s : rsim r1 r2 -> helper_access (Some r1) t k s = helper_access (Some r2) t k s.
Proof. intros H. unfold helper_access. rewrite (get_fd_sim r1 r2 t H). reflexivity. Qed.

Lemma last_of_nonnil {A} (l : list A) x : last_of l = Some x -> l <> [].
Proof. intros H E. subst. discriminate. Qed.

Lemma nested_bytes_sim r1 r2 t : rsim r1 r2 -> nested_bytes r1 t = nested_bytes r2 t.
Proof.
  intros [Hd Hs]. unfold nested_bytes, has_nested. rewrite Hd. destruct (negb _); [reflexivity|].
  destruct (index_of (abs_tag t) (flat_tags (rdef r2))) as [i|]; [|reflexivity].
  destruct (negb (existsb _ _)); [reflexivity|].
  destruct (dsim_nth _ _ i Hs) as [Hf Hw]. rewrite <- Hf.
  destruct (last_of (fdat (nth i (rdata r1) fd_empty))) as [b|] eqn:E; [|reflexivity].
  rewrite Hw by (eapply last_of_nonnil; eauto). reflexivity.
Qed.
Lemma nested_slices_sim r1 r2 t : rsim r1 r2 -> nested_slices r1 t = nested_slices r2 t.
Proof.
  intros [Hd Hs]. unfold nested_slices, has_nested. rewrite Hd. destruct (negb _); [reflexivity|].
  destruct (negb (existsb _ _)); [reflexivity|].
  destruct (index_of (abs_tag t) (flat_tags (rdef r2))) as [i|]; [|reflexivity].
  destruct (dsim_nth _ _ i Hs) as [Hf _]. rewrite <- Hf. reflexivity.
Qed.
Lemma range_obs_sim r1 r2 : rsim r1 r2 -> range_obs r1 = range_obs r2.
Proof.
  intros [Hd Hs]. unfold range_obs. rewrite Hd. generalize (flat_tags (rdef r2)) as tags.
  induction Hs as [|a b l1 l2 Hab Hs IH]; intros [|t tags]; cbn [combine map]; try reflexivity.
  rewrite IH. destruct Hab as [Hf _]. rewrite Hf. reflexivity.
Qed.

(* NestedResult(s) = the checks, then a fresh nested decode *)
Lemma nested_result_bytes r t : nested_result (Some r) t =
  match nested_bytes r t with
  | inl b => inl (lazy_decode_nested (nested_def (rdef r) (abs_tag t)) b)
  | inr e => inr e
  end.
Proof.
  unfold nested_result, nested_bytes. destruct (negb (has_nested r)); [reflexivity|].
  destruct (index_of (abs_tag t) (flat_tags (rdef r))) as [i|]; [|reflexivity].
  destruct (negb (existsb _ _)); [reflexivity|].
  destruct (last_of _) as [b|]; [|reflexivity]. destruct (negb _); reflexivity.
Qed.
Lemma nested_results_slices r t : nested_results (Some r) t =
  match nested_slices r t with
  | inl ds => inl (map (lazy_decode_nested (nested_def (rdef r) (abs_tag t))) ds)
  | inr e => inr e
  end.
Proof.
  unfold nested_results, nested_slices. destruct (negb (has_nested r)); [reflexivity|].
  destruct (negb (existsb _ _)); [reflexivity|].
  destruct (index_of (abs_tag t) (flat_tags (rdef r))) as [i|]; [|reflexivity].
  destruct (fdat _); reflexivity.
Qed.
