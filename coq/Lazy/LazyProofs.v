(* C13 proofs: collects the lemmas Props/C13.v refers to.
   LazyDecode: decode_is_reference, nested_decode_is_reference, lookup_spec, nested_result_spec,
               nested_results_spec, decode_no_panic, observe_no_panic.
   LazyAcc (with ZigZagDec): scalar_last, scalar_bytes, scalar_mismatch, slice_unpacked, slice_packed,
               slice_strings. *)
From CsProto Require Export ZigZagDec LazyAcc LazyDecode.

Print Assumptions decode_is_reference.
Print Assumptions nested_decode_is_reference.
Print Assumptions scalar_last.
Print Assumptions scalar_bytes.
Print Assumptions scalar_mismatch.
Print Assumptions slice_unpacked.
Print Assumptions slice_packed.
Print Assumptions slice_strings.
Print Assumptions lookup_spec.
Print Assumptions nested_result_spec.
Print Assumptions nested_results_spec.
Print Assumptions decode_no_panic.
Print Assumptions observe_no_panic.
