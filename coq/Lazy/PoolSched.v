(* C15 scheduling lemma: under the pool-free specification, what a goroutine observes in any
   interleaving is what it observes running alone, provided goroutines do not share handles. *)
From CsProto Require Import Prelude Varint ZigZag Codec RefWire WireStmts Lazy Pool PoolSpec.
From Coq Require Import List Arith Lia.
Import ListNotations.

Definition ownedP (owner : nat -> nat) (g : nat) : nat * list byte -> bool :=
  fun x => Nat.eqb (owner (fst x)) g.

Section Sched.
Variable D : ldef.
Variable owner : nat -> nat.
Variable g : nat.
Notation P := (ownedP owner g).

Lemma ownedP_true : forall h v, owner h = g -> P (h, v) = true.
Proof. intros h v H. unfold ownedP. cbn [fst]. rewrite H. apply Nat.eqb_refl. Qed.

Lemma ownedP_false : forall h v, owner h <> g -> P (h, v) = false.
Proof. intros h v H. unfold ownedP. cbn [fst]. apply Nat.eqb_neq. exact H. Qed.

Lemma lookup_in_filter : forall h L, owner h = g -> lookup_in h (filter P L) = lookup_in h L.
Proof.
  intros h L Hh. induction L as [|[k v] r IH].
  - reflexivity.
  - cbn [filter lookup_in]. destruct (Nat.eqb k h) eqn:E.
    + apply Nat.eqb_eq in E. subst k. rewrite (ownedP_true h v Hh).
      cbn [lookup_in]. rewrite Nat.eqb_refl. reflexivity.
    + destruct (P (k, v)).
      * cbn [lookup_in]. rewrite E. exact IH.
      * exact IH.
Qed.

Lemma remove_in_filter : forall h L, owner h = g ->
  remove_in h (filter P L) = filter P (remove_in h L).
Proof.
  intros h L Hh. induction L as [|[k v] r IH].
  - reflexivity.
  - cbn [filter remove_in]. destruct (Nat.eqb k h) eqn:E.
    + apply Nat.eqb_eq in E. subst k. rewrite (ownedP_true h v Hh).
      cbn [remove_in]. rewrite Nat.eqb_refl. reflexivity.
    + cbn [filter]. destruct (P (k, v)).
      * cbn [remove_in]. rewrite E. rewrite IH. reflexivity.
      * exact IH.
Qed.

Lemma filter_remove_in_other : forall h L, owner h <> g ->
  filter P (remove_in h L) = filter P L.
Proof.
  intros h L Hh. induction L as [|[k v] r IH].
  - reflexivity.
  - cbn [filter remove_in]. destruct (Nat.eqb k h) eqn:E.
    + apply Nat.eqb_eq in E. subst k. rewrite (ownedP_false h v Hh). reflexivity.
    + cbn [filter]. rewrite IH. reflexivity.
Qed.

Lemma spec_step_same : forall L op, owner (handle_of op) = g ->
  spec_step D (filter P L) op = (fst (spec_step D L op), filter P (snd (spec_step D L op))).
Proof.
  intros L op Hh. destruct op as [h input pick|h path k slice picks|h t inner k slice picks|h|h];
    cbn [handle_of] in Hh; cbn [spec_step]; rewrite (lookup_in_filter h L Hh);
    destruct (lookup_in h L) as [inp|]; try reflexivity.
  - (* PDecode, fresh handle *)
    destruct input as [|b input]; [reflexivity|].
    destruct (lazy_decode_nested D (b :: input)); cbn [fst snd]; try reflexivity.
    cbn [filter]. rewrite (ownedP_true h (b :: input) Hh). reflexivity.
  - (* PClose, live handle *)
    cbn [fst snd]. rewrite (remove_in_filter h L Hh). reflexivity.
Qed.

Lemma spec_step_other : forall L op, owner (handle_of op) <> g ->
  filter P (snd (spec_step D L op)) = filter P L.
Proof.
  intros L op Hh. destruct op as [h input pick|h path k slice picks|h t inner k slice picks|h|h];
    cbn [handle_of] in Hh; cbn [spec_step];
    destruct (lookup_in h L) as [inp|]; try reflexivity.
  - destruct input as [|b input]; [reflexivity|].
    destruct (lazy_decode_nested D (b :: input)); cbn [fst snd]; try reflexivity.
    cbn [filter]. rewrite (ownedP_false h (b :: input) Hh). reflexivity.
  - cbn [fst snd]. apply filter_remove_in_other. exact Hh.
Qed.

Lemma spec_run_proj_gen : forall (sch : schedule), handles_private owner sch ->
  forall L, proj_obs g sch (spec_run D L (map snd sch))
            = spec_run D (filter P L) (proj_ops g sch).
Proof.
  induction sch as [|[g' op] r IH]; intros Hp L.
  - reflexivity.
  - unfold handles_private in Hp.
    pose proof (Forall_inv Hp) as Hx. pose proof (Forall_inv_tail Hp) as Hr.
    cbn [fst snd] in Hx.
    specialize (IH Hr).
    unfold proj_obs, proj_ops in *.
    cbn [map snd spec_run].
    destruct (spec_step D L op) as [o L'] eqn:Es.
    cbn [combine filter fst snd].
    destruct (Nat.eqb g' g) eqn:E.
    + apply Nat.eqb_eq in E.
      assert (Hx' : owner (handle_of op) = g) by (rewrite Hx; exact E).
      cbn [map snd spec_run].
      rewrite (spec_step_same L op Hx'). rewrite Es. cbn [fst snd].
      f_equal. apply IH.
    + apply Nat.eqb_neq in E.
      rewrite IH. rewrite <- (spec_step_other L op) by (rewrite Hx; exact E).
      rewrite Es. reflexivity.
Qed.

End Sched.

Lemma spec_run_proj : forall D owner (sch : schedule), handles_private owner sch ->
  forall g, proj_obs g sch (spec_run D [] (map snd sch)) = spec_run D [] (proj_ops g sch).
Proof.
  intros D owner sch Hp g.
  exact (spec_run_proj_gen D owner g sch Hp []).
Qed.

Print Assumptions spec_run_proj.
