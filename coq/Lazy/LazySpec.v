(* Reference view of a message for the lazyproto theorems (C13): a tree of reference fields, what a
   full reference parse finds for a tag, and the textbook reading of a wire value as each Go type.
   Independent of the csproto decoder model.  Definitions only. *)
From CsProto Require Import Prelude Varint ZigZag Codec RefWire WireStmts Lazy.
Local Open Scope N_scope.

Inductive mtree :=
| MLeaf (f : rfield)
| MNode (num : N) (kids : list mtree).            (* a LEN field whose payload is a message *)
Fixpoint menc (t : mtree) : list byte :=
  match t with
  | MLeaf f => renc f
  | MNode num kids => renc (RLen num (concat (map menc kids)))
  end.
Definition mnum (t : mtree) : N := match t with MLeaf f => rnum f | MNode n _ => n end.
Definition mwt (t : mtree) : N := match t with MLeaf f => rwt f | MNode _ _ => 2 end.
(* the value bytes of the field: what follows the key (and the length prefix, for LEN) *)
Definition mvalue (t : mtree) : list byte :=
  match t with MLeaf f => rvalue f | MNode _ kids => concat (map menc kids) end.
Fixpoint mtree_wf (t : mtree) : Prop :=
  match t with
  | MLeaf f => rfield_wf f /\ match f with RFixed32 _ b | RFixed64 _ b => bytes_ok b | _ => True end
  | MNode num kids =>
      1 <= num <= 536870911 /\ N.of_nat (length (concat (map menc kids))) <= 2147483647 /\
      (fix all (l : list mtree) : Prop := match l with [] => True | c :: r => mtree_wf c /\ all r end) kids
  end.

(* every occurrence of a requested field number uses one wire type *)
Definition one_wt (tags : list N) (ts : list mtree) : Prop :=
  forall a b, In a ts -> In b ts -> mnum a = mnum b -> In (mnum a) tags -> mwt a = mwt b.

(* what the single pass must have recorded: for each requested tag, in table order, the wire type of
   its occurrences and their value bytes in wire order *)
Definition occurrences (t : N) (ts : list mtree) : list mtree := filter (fun x => mnum x =? t) ts.
Definition ref_record (tags : list N) (ts : list mtree) : list fdata :=
  map (fun t => {| fwt := match occurrences t ts with [] => 0 | x :: _ => mwt x end;
                   fdat := map mvalue (occurrences t ts) |}) tags.

(* textbook reading of a wire integer as each Go type; None = out of range *)
Definition sgn64 (v : N) : Z := if v <? 2^63 then Z.of_N v else (Z.of_N v - 2^64)%Z.
Definition unzig (v : N) : Z := if N.even v then Z.of_N (v / 2) else (- Z.of_N ((v + 1) / 2))%Z.
Definition ref_typed (k : akind) (v : N) : option Z :=
  match k with
  | ABool => Some (if v =? 0 then 0%Z else 1%Z)
  | AUInt64 | AFixed64 | AFloat64 => Some (Z.of_N v)
  | AUInt32 => if v <? 2^32 then Some (Z.of_N v) else None
  | AFixed32 | AFloat32 => Some (Z.of_N v)
  | AInt64 => Some (sgn64 v)
  | AInt32 => if ((- 2^31 <=? sgn64 v) && (sgn64 v <? 2^31))%Z then Some (sgn64 v) else None
  | ASInt64 => Some (unzig v)
  | ASInt32 => Some (unzig (v mod 2^32))
  | AString | ABytes => None
  end.
(* the wire integer carried by a scalar reference field *)
Definition rfield_int (f : rfield) : N :=
  match f with RVarint _ v => v | RFixed32 _ b | RFixed64 _ b => le_val b | RLen _ _ => 0 end.

Definition is_numeric (k : akind) : bool := match k with AString | ABytes => false | _ => true end.
(* a scalar reference field of the wire type kind k reads *)
Definition scalar_for (k : akind) (f : rfield) : Prop :=
  rwt f = want_wt k /\ rfield_wf f /\ match f with RFixed32 _ b | RFixed64 _ b => bytes_ok b | RLen _ _ => False | _ => True end.
Fixpoint typed_all (k : akind) (fs : list rfield) : option (list Z) :=
  match fs with
  | [] => Some []
  | f :: r => match ref_typed k (rfield_int f), typed_all k r with
              | Some z, Some zs => Some (z :: zs) | _, _ => None end
  end.
Definition num_out (o : option (list Z)) : aout :=
  match o with Some zs => AOk (AvNums zs) | None => AErr EOther end.

Definition out_panics (o : aout) : bool := match o with APanic => true | _ => false end.
Definition obs_panics (o : obs) : bool :=
  match o with
  | ObsOut a => out_panics a
  | ObsNested NPanic => true
  | ObsNested (NList l) => existsb out_panics l
  | _ => false
  end.
(* the three sentinels all satisfy errors.Is(err, ErrTagNotFound) *)
Definition is_not_found (e : aerr) : bool :=
  match e with ENotFound | ENotDefined | ENestingNotDefined => true | _ => false end.
