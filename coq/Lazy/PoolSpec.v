(* What every history over a pooled lazy Decoder must observe: a function of each handle's OWN input
   only -- no pool, no reuse, no choices.  Definitions only. *)
From CsProto Require Import Prelude Varint ZigZag Codec RefWire WireStmts Lazy Pool.
Local Open Scope N_scope.

Section Spec.
Variable D : ldef.

Fixpoint lookup_in (h : nat) (l : list (nat * list byte)) : option (list byte) :=
  match l with [] => None | (k, v) :: r => if Nat.eqb k h then Some v else lookup_in h r end.
Fixpoint remove_in (h : nat) (l : list (nat * list byte)) : list (nat * list byte) :=
  match l with [] => [] | (k, v) :: r => if Nat.eqb k h then r else (k, v) :: remove_in h r end.

(* the result a FRESH decode of the handle's input gives (Lazy.v) *)
Definition own_result (input : list byte) : option lres := lout_res (lazy_decode_nested D input).

Definition spec_step (live : list (nat * list byte)) (op : pop) : pobs * list (nat * list byte) :=
  match op with
  | PDecode h input _ =>
      match lookup_in h live with
      | Some _ => (QMisuse, live)
      | None =>
          match input with
          | [] => (QNil, live)
          | _ => match lazy_decode_nested D input with
                 | LRes _ => (QOk, (h, input) :: live)
                 | _ => (QErr, live)
                 end
          end
      end
  | PField h path k slice _ =>
      match lookup_in h live with
      | None => (QMisuse, live)
      | Some input => (QOut (field_data_access (own_result input) path k slice), live)
      end
  | PNestedObs h t inner k slice _ =>
      match lookup_in h live with
      | None => (QMisuse, live)
      | Some input => (QNested (nested_results_access (own_result input) t inner k slice), live)
      end
  | PRange h =>
      match lookup_in h live with
      | None => (QMisuse, live)
      | Some input => (QRange (match own_result input with Some r => range_obs r | None => [] end), live)
      end
  | PClose h =>
      match lookup_in h live with
      | None => (QMisuse, live)
      | Some _ => (QOk, remove_in h live)
      end
  end.
Fixpoint spec_run (live : list (nat * list byte)) (ops : list pop) : list pobs :=
  match ops with
  | [] => []
  | op :: r => let '(o, live') := spec_step live op in o :: spec_run live' r
  end.
End Spec.

(* ---------- concurrency (C15): goroutines sharing one Decoder ---------- *)
Definition handle_of (op : pop) : nat :=
  match op with PDecode h _ _ | PField h _ _ _ _ | PNestedObs h _ _ _ _ _ | PRange h | PClose h => h end.
(* a schedule: the operations in the order the pool sees them, each tagged with its goroutine *)
Definition schedule := list (nat * pop).
Definition proj_ops (g : nat) (sch : schedule) : list pop :=
  map snd (filter (fun x => Nat.eqb (fst x) g) sch).
Definition proj_obs (g : nat) (sch : schedule) (obs : list pobs) : list pobs :=
  map snd (filter (fun x => Nat.eqb (fst (fst x)) g) (combine sch obs)).
(* goroutines do not share result handles: every handle name belongs to one goroutine *)
Definition handles_private (owner : nat -> nat) (sch : schedule) : Prop :=
  Forall (fun x => owner (handle_of (snd x)) = fst x) sch.
