(* C13 proofs, part 1: the single decoding pass of lazyproto against the reference record, result
   navigation, and totality (no panic) on arbitrary bytes. *)
From CsProto Require Import Prelude Varint VarintProof VarintSize ZigZag Codec RefWire WireStmts.
From CsProto Require Import CodecBase EncProofs DecProofs SafeProofs Lazy LazySpec.
Local Open Scope N_scope.

(* ------------------------------------------------------------------------------------------ *)
(* 1. the tag table: slices.Sort + slices.Compact *)
Lemma insert_u_in x y l : In y (insert_u x l) <-> y = x \/ In y l.
Proof.
  induction l as [|a r IH]; cbn [insert_u In].
  - split; intros [H|H]; auto; contradiction.
  - destruct (N.ltb_spec x a) as [Hlt|Hge].
    + cbn [In]. split; intros H; [destruct H as [H|H]; [left; symmetry; exact H|right; exact H]|].
      destruct H as [H|H]; [left; symmetry; exact H|right; exact H].
    + destruct (N.eqb_spec x a) as [He|Hne].
      * subst a. cbn [In]. split; intros H; [right; exact H|].
        destruct H as [H|H]; [left; symmetry; exact H|exact H].
      * cbn [In]. rewrite IH. split; intros H.
        -- destruct H as [H|[H|H]]; [right; left; exact H|left; exact H|right; right; exact H].
        -- destruct H as [H|[H|H]]; [right; left; exact H|left; exact H|right; right; exact H].
Qed.

Lemma sort_u_in y l : In y (sort_u l) <-> In y l.
Proof.
  induction l as [|a r IH]; cbn [sort_u fold_right In]; [split; intros H; exact H|].
  fold (sort_u r). rewrite insert_u_in, IH. split; intros [H|H]; auto.
Qed.

Fixpoint ssorted (l : list N) : Prop :=
  match l with [] => True | a :: r => Forall (N.lt a) r /\ ssorted r end.

Lemma insert_u_sorted x l : ssorted l -> ssorted (insert_u x l).
Proof.
  induction l as [|a r IH]; intros Hs; cbn [insert_u].
  - cbn [ssorted]. split; [constructor|exact I].
  - destruct Hs as [Ha Hr]. destruct (N.ltb_spec x a) as [Hlt|Hge].
    + cbn [ssorted]. split; [|split; assumption].
      constructor; [exact Hlt|]. rewrite Forall_forall in Ha. apply Forall_forall. intros y Hy.
      specialize (Ha y Hy). lia.
    + destruct (N.eqb_spec x a) as [He|Hne]; [cbn [ssorted]; split; assumption|].
      cbn [ssorted]. split; [|apply IH; exact Hr].
      apply Forall_forall. intros y Hy. apply insert_u_in in Hy. destruct Hy as [Hy|Hy].
      * subst y. lia.
      * rewrite Forall_forall in Ha. apply Ha. exact Hy.
Qed.

Lemma sort_u_sorted l : ssorted (sort_u l).
Proof.
  induction l as [|a r IH]; cbn [sort_u fold_right]; [exact I|]. fold (sort_u r). apply insert_u_sorted. exact IH.
Qed.

Lemma ssorted_nodup l : ssorted l -> NoDup l.
Proof.
  induction l as [|a r IH]; intros Hs; [constructor|]. destruct Hs as [Ha Hr].
  constructor; [|apply IH; exact Hr]. intros Hin. rewrite Forall_forall in Ha. specialize (Ha a Hin). lia.
Qed.

Lemma flat_tags_nodup d : NoDup (flat_tags d).
Proof. unfold flat_tags. apply ssorted_nodup, sort_u_sorted. Qed.

(* slices.BinarySearch *)
Lemma index_of_some t l i : index_of t l = Some i -> nth i l 0 = t /\ (i < length l)%nat.
Proof.
  revert i; induction l as [|a r IH]; intros i H; cbn [index_of] in H; [discriminate H|].
  destruct (N.eqb_spec a t) as [He|Hne].
  - inversion H; subst. cbn [nth length]. split; [reflexivity|lia].
  - destruct (index_of t r) as [j|]; [|discriminate H]. cbn [option_map] in H. inversion H; subst.
    destruct (IH j eq_refl) as [H1 H2]. cbn [nth length]. split; [exact H1|lia].
Qed.
Lemma index_of_none t l : index_of t l = None -> ~ In t l.
Proof.
  induction l as [|a r IH]; intros H; cbn [index_of] in H; [intros []|].
  destruct (N.eqb_spec a t) as [He|Hne]; [discriminate H|].
  destruct (index_of t r) as [j|]; [discriminate H|]. intros [Hc|Hc]; [exact (Hne Hc)|exact (IH eq_refl Hc)].
Qed.
Lemma index_of_in t l : In t l -> exists i, index_of t l = Some i.
Proof.
  intros Hin. destruct (index_of t l) as [i|] eqn:E; [exists i; reflexivity|].
  exfalso. exact (index_of_none t l E Hin).
Qed.
Lemma index_of_some_in t l i : index_of t l = Some i -> In t l.
Proof.
  intros H. destruct (index_of_some t l i H) as [H1 H2]. rewrite <- H1. apply nth_In. exact H2.
Qed.

(* ------------------------------------------------------------------------------------------ *)
(* 2. the reference record, one occurrence at a time *)
Definition entry (ts : list mtree) (t : N) : fdata :=
  {| fwt := match occurrences t ts with [] => 0 | x :: _ => mwt x end;
     fdat := map mvalue (occurrences t ts) |}.
Lemma ref_record_map tags ts : ref_record tags ts = map (entry ts) tags.
Proof. reflexivity. Qed.

Lemma nth_record tags ts t i : index_of t tags = Some i -> nth i (ref_record tags ts) fd_empty = entry ts t.
Proof.
  rewrite ref_record_map. revert i; induction tags as [|a r IH]; intros i H; cbn [index_of] in H; [discriminate H|].
  destruct (N.eqb_spec a t) as [He|Hne].
  - inversion H; subst. reflexivity.
  - destruct (index_of t r) as [j|]; [|discriminate H]. cbn [option_map] in H. inversion H; subst.
    cbn [map nth]. apply IH. reflexivity.
Qed.

Lemma occ_app t a b : occurrences t (a ++ b) = occurrences t a ++ occurrences t b.
Proof. unfold occurrences. apply filter_app. Qed.
Lemma occ_one_eq x : occurrences (mnum x) [x] = [x].
Proof. unfold occurrences. cbn [filter]. rewrite N.eqb_refl. reflexivity. Qed.
Lemma occ_one_ne x t : mnum x <> t -> occurrences t [x] = [].
Proof. intros H. unfold occurrences. cbn [filter]. destruct (N.eqb_spec (mnum x) t); [contradiction|reflexivity]. Qed.
Lemma occ_in t ts x : In x (occurrences t ts) -> In x ts /\ mnum x = t.
Proof. unfold occurrences. intros H. apply filter_In in H. destruct H as [H1 H2]. apply N.eqb_eq in H2. split; assumption. Qed.

Lemma entry_other seen x t : mnum x <> t -> entry (seen ++ [x]) t = entry seen t.
Proof. intros H. unfold entry. rewrite occ_app, (occ_one_ne x t H), app_nil_r. reflexivity. Qed.

(* all earlier occurrences of x's number have x's wire type *)
Definition wt_agrees (seen : list mtree) (x : mtree) : Prop :=
  forall y, In y seen -> mnum y = mnum x -> mwt y = mwt x.

Lemma entry_same seen x : wt_agrees seen x ->
  entry (seen ++ [x]) (mnum x) = {| fwt := mwt x; fdat := fdat (entry seen (mnum x)) ++ [mvalue x] |}.
Proof.
  intros Hag. unfold entry. rewrite occ_app, occ_one_eq, map_app. cbn [map fdat]. f_equal.
  destruct (occurrences (mnum x) seen) as [|y r] eqn:E; [reflexivity|].
  cbn [app]. destruct (occ_in (mnum x) seen y) as [H1 H2]; [rewrite E; left; reflexivity|].
  apply Hag; assumption.
Qed.

(* appending one occurrence to the record: the update the loop performs *)
Definition record_app (tags : list N) (data : list fdata) (x : mtree) : list fdata :=
  match index_of (mnum x) tags with
  | None => data
  | Some i => set_nth i {| fwt := mwt x; fdat := fdat (nth i data fd_empty) ++ [mvalue x] |} data
  end.

Lemma record_skip tags seen x : ~ In (mnum x) tags -> ref_record tags (seen ++ [x]) = ref_record tags seen.
Proof.
  intros Hn. rewrite !ref_record_map. apply map_ext_in. intros t Ht. apply entry_other.
  intros He. apply Hn. rewrite He. exact Ht.
Qed.

Lemma record_step tags seen x : NoDup tags -> (In (mnum x) tags -> wt_agrees seen x) ->
  ref_record tags (seen ++ [x]) = record_app tags (ref_record tags seen) x.
Proof.
  unfold record_app. induction tags as [|a r IH]; intros Hnd Hag; [reflexivity|].
  inversion Hnd as [|? ? Hna Hndr]; subst.
  cbn [index_of]. destruct (N.eqb_spec a (mnum x)) as [He|Hne].
  - subst a. rewrite (ref_record_map (mnum x :: r) seen). cbn [map set_nth nth].
    rewrite (ref_record_map (mnum x :: r) (seen ++ [x])). cbn [map].
    rewrite entry_same by (apply Hag; left; reflexivity). f_equal.
    rewrite <- !ref_record_map. apply record_skip. exact Hna.
  - rewrite (ref_record_map (a :: r) (seen ++ [x])), (ref_record_map (a :: r) seen). cbn [map].
    rewrite entry_other by (intros Hc; apply Hne; symmetry; exact Hc).
    rewrite <- !ref_record_map.
    specialize (IH Hndr (fun Hin => Hag (or_intror Hin))).
    destruct (index_of (mnum x) r) as [j|]; cbn [option_map set_nth nth]; rewrite IH; reflexivity.
Qed.

(* ------------------------------------------------------------------------------------------ *)
(* 3. a tree as one reference field *)
Definition mfield (t : mtree) : rfield :=
  match t with MLeaf f => f | MNode n kids => RLen n (concat (map menc kids)) end.
Lemma menc_field t : menc t = renc (mfield t). Proof. destruct t; reflexivity. Qed.
Lemma mnum_field t : mnum t = rnum (mfield t). Proof. destruct t; reflexivity. Qed.
Lemma mwt_field t : mwt t = rwt (mfield t). Proof. destruct t; reflexivity. Qed.
Lemma mvalue_field t : mvalue t = rvalue (mfield t). Proof. destruct t; reflexivity. Qed.
Lemma mfield_wf t : mtree_wf t -> rfield_wf (mfield t).
Proof.
  destruct t as [f|n kids]; cbn [mtree_wf mfield].
  - intros [H _]. exact H.
  - intros (H1 & H2 & _). split; [exact H1|exact H2].
Qed.

Lemma renc_pos f : rfield_wf f -> (1 <= length (renc f))%nat.
Proof. intros H. unfold renc. rewrite app_length. pose proof (rpayload_pos f H). lia. Qed.
Lemma menc_count ts : Forall mtree_wf ts -> (length ts <= length (concat (map menc ts)))%nat.
Proof.
  intros H; induction H as [|t ts Ht Hts IH]; cbn [map concat length]; [lia|].
  rewrite app_length, menc_field. pose proof (renc_pos _ (mfield_wf t Ht)). lia.
Qed.

(* ------------------------------------------------------------------------------------------ *)
(* 4. the decoder calls of one loop iteration on the encoding of one field *)
Lemma field_calls f pre rest : rfield_wf f ->
  let B := pre ++ renc f ++ rest in
  at_eof (mk B (length pre) true) = false /\
  dec_tag (mk B (length pre) true) = DOk (rnum f, rwt f) (mk B (length pre + length (rkey f)) true) /\
  dec_skip (mk B (length pre + length (rkey f)) true) (Z.of_N (rnum f)) (Z.of_N (rwt f))
    = DOk (renc f) (mk B (length pre + length (renc f)) true) /\
  size_key (rnum f) = length (rkey f) /\
  (forall n b, f = RLen n b ->
     dec_bytes (mk B (length pre + length (rkey f)) true) = DOk b (mk B (length pre + length (renc f)) true)).
Proof.
  intros Hwf B. pose proof Hwf as [Hn Hpay]. pose proof (rwt_lt8 f) as Hw.
  pose proof (rkey_enc f Hwf) as Hkey.
  assert (Hs : skipn (length pre) B = renc f ++ rest) by (unfold B; apply skipn_app_exact).
  assert (Hs' : skipn (length pre) B = enc_key (rnum f) (rwt f) ++ rpayload f ++ rest).
  { rewrite Hs. unfold renc. rewrite Hkey, <- app_assoc. reflexivity. }
  destruct (app_nonnil_len (enc_key (rnum f) (rwt f)) (rpayload f ++ rest)
              ltac:(unfold enc_key; apply enc_varint_pos)) as (a & r & Hnn).
  pose proof Hs' as Hs0. rewrite Hnn in Hs0.
  split; [exact (at_eof_false B (length pre) true a r Hs0)|].
  split; [rewrite Hkey; exact (dec_tag_ok B (length pre) true (rnum f) (rwt f) _ Hn Hw Hs')|].
  split; [exact (dec_skip_ok B (length pre) true f rest Hwf Hs)|].
  split; [rewrite Hkey; symmetry; apply key_size; assumption|].
  intros n b Hf. subst f. cbn [rpayload rvalue rfield_wf rnum rwt] in *.
  rewrite Hkey.
  pose proof (skipn_app_step _ _ _ _ Hs') as Hs1.
  rewrite <- varint_canonical in Hs1 by lia. rewrite <- app_assoc in Hs1.
  rewrite (dec_bytes_ok B _ true b rest Hpay Hs1). f_equal. apply mk_eq.
  unfold renc. rewrite Hkey. cbn [rpayload]. rewrite !app_length. rewrite <- varint_canonical by lia. lia.
Qed.

Lemma mixed_ok seen t : wt_agrees seen t ->
  negb (match fdat (entry seen (mnum t)) with [] => true | _ => false end)
  && negb (fwt (entry seen (mnum t)) =? mwt t) = false.
Proof.
  intros Hag. unfold entry. cbn [fdat fwt].
  destruct (occurrences (mnum t) seen) as [|y r] eqn:E; [reflexivity|].
  destruct (occ_in (mnum t) seen y) as [H1 H2]; [rewrite E; left; reflexivity|].
  rewrite (Hag y H1 H2), N.eqb_refl. cbn [map negb]. apply andb_false_r.
Qed.

Lemma loop_step fuel tags seen t pre rest :
  NoDup tags -> mtree_wf t -> (In (mnum t) tags -> wt_agrees seen t) ->
  let B := pre ++ menc t ++ rest in
  decode_loop (S fuel) tags (ref_record tags seen) (mk B (length pre) true)
  = decode_loop fuel tags (ref_record tags (seen ++ [t])) (mk B (length pre + length (menc t)) true).
Proof.
  intros Hnd Hwt Hag B.
  pose proof (mfield_wf t Hwt) as Hwf.
  rewrite (record_step tags seen t Hnd Hag). unfold record_app.
  destruct (index_of (mnum t) tags) as [i|] eqn:Ei.
  2:{ unfold B. rewrite menc_field.
      destruct (field_calls (mfield t) pre rest Hwf) as (He & Ht & Hsk & _ & _).
      rewrite mnum_field in Ei. cbn [decode_loop]. rewrite He, Ht, Ei, Hsk. reflexivity. }
  pose proof (mixed_ok seen t (Hag (index_of_some_in _ _ _ Ei))) as Hmix.
  rewrite (nth_record tags seen (mnum t) i Ei).
  unfold B. rewrite menc_field.
  destruct (field_calls (mfield t) pre rest Hwf) as (He & Ht & Hsk & Hsz & Hby).
  pose proof Ei as Ei'. rewrite mnum_field in Ei'.
  cbn [decode_loop]. rewrite He, Ht, Ei'. cbv zeta.
  rewrite (nth_record tags seen (mnum t) i Ei). rewrite <- mwt_field, Hmix.
  rewrite mwt_field, mvalue_field, mnum_field.
  assert (Hraw : (length (renc (mfield t)) <? size_key (rnum (mfield t)))%nat = false).
  { rewrite Hsz. unfold renc. rewrite app_length. apply Nat.ltb_ge. lia. }
  assert (Hdrop : skipn (size_key (rnum (mfield t))) (renc (mfield t)) = rpayload (mfield t)).
  { rewrite Hsz. unfold renc. apply skipn_app_exact. }
  destruct (mfield t) as [n v|n b|n b|n b] eqn:Ef; cbn [rwt rvalue rpayload] in *.
  - change (0 =? 0) with true. cbn [orb]. rewrite Hsk, Hraw, Hdrop. reflexivity.
  - change (1 =? 0) with false. change (1 =? 5) with false. change (1 =? 1) with true. cbn [orb].
    rewrite Hsk, Hraw, Hdrop. reflexivity.
  - change (5 =? 0) with false. change (5 =? 5) with true. cbn [orb]. rewrite Hsk, Hraw, Hdrop. reflexivity.
  - change (2 =? 0) with false. change (2 =? 5) with false. change (2 =? 1) with false. change (2 =? 2) with true.
    cbn [orb]. rewrite (Hby n b eq_refl). reflexivity.
Qed.

(* ------------------------------------------------------------------------------------------ *)
(* 5. the whole pass *)
Lemma decode_trees tags : NoDup tags -> forall ts seen pre fuel,
  Forall mtree_wf ts -> one_wt tags (seen ++ ts) -> (length ts < fuel)%nat ->
  decode_loop fuel tags (ref_record tags seen) (mk (pre ++ concat (map menc ts)) (length pre) true)
  = LOkv (ref_record tags (seen ++ ts)).
Proof.
  intros Hnd. induction ts as [|t ts IH]; intros seen pre fuel Hwf Hone Hfuel.
  - destruct fuel as [|fuel]; [cbn [length] in Hfuel; lia|].
    cbn [map concat decode_loop]. unfold at_eof. cbn [mk dbuf doff]. rewrite !app_nil_r, Nat.leb_refl. reflexivity.
  - destruct fuel as [|fuel]; [lia|]. inversion Hwf as [|? ? Hwt Hwts]; subst.
    cbn [map concat].
    rewrite (loop_step fuel tags seen t pre (concat (map menc ts)) Hnd Hwt).
    + replace (pre ++ menc t ++ concat (map menc ts)) with ((pre ++ menc t) ++ concat (map menc ts))
        by (rewrite <- app_assoc; reflexivity).
      rewrite <- app_length.
      rewrite (IH (seen ++ [t]) (pre ++ menc t) fuel Hwts).
      * rewrite <- app_assoc. reflexivity.
      * rewrite <- app_assoc. exact Hone.
      * cbn [length] in Hfuel. lia.
    + intros Hin y Hy Hnum. apply Hone.
      * apply in_or_app. left. exact Hy.
      * apply in_or_app. right. left. reflexivity.
      * exact Hnum.
      * rewrite Hnum. exact Hin.
Qed.

Lemma decode_into_ref d ts : Forall mtree_wf ts -> one_wt (flat_tags d) ts ->
  decode_into (flat_tags d) (fresh_data d) (concat (map menc ts)) = LOkv (ref_record (flat_tags d) ts).
Proof.
  intros Hwf Hone. unfold decode_into.
  change (fresh_data d) with (ref_record (flat_tags d) []).
  pose proof (menc_count ts Hwf) as Hc.
  exact (decode_trees (flat_tags d) (flat_tags_nodup d) ts [] [] (S (length (concat (map menc ts)))) Hwf Hone
           ltac:(lia)).
Qed.

Theorem nested_decode_is_reference : forall d ts,
  Forall mtree_wf ts -> one_wt (flat_tags d) ts ->
  lazy_decode_nested d (concat (map menc ts)) = LRes {| rdef := d; rdata := ref_record (flat_tags d) ts |}.
Proof. intros d ts Hwf Hone. unfold lazy_decode_nested. rewrite decode_into_ref by assumption. reflexivity. Qed.

Theorem decode_is_reference : forall d ts,
  ts <> [] -> Forall mtree_wf ts -> def_valid (def_depth d) d = true -> one_wt (flat_tags d) ts ->
  lazy_decode_dec d (concat (map menc ts)) = LRes {| rdef := d; rdata := ref_record (flat_tags d) ts |}
  /\ (entries d <> [] ->
      lazy_decode_fn d (concat (map menc ts)) = LRes {| rdef := d; rdata := ref_record (flat_tags d) ts |}).
Proof.
  intros d ts Hne Hwf Hval Hone.
  pose proof (decode_into_ref d ts Hwf Hone) as Hdec.
  assert (Hin : exists a r, concat (map menc ts) = a :: r).
  { pose proof (menc_count ts Hwf) as Hc. destruct ts as [|t ts']; [congruence|].
    destruct (concat (map menc (t :: ts'))) as [|a r]; [cbn [length] in Hc; lia|]. exists a, r. reflexivity. }
  destruct Hin as (a & r & Hin). rewrite Hin in *.
  unfold lazy_decode_dec, lazy_decode_fn. rewrite Hval, Hdec. cbn [negb of_lerr]. split; [reflexivity|].
  intros He. destruct (entries d) as [|e es]; [congruence|reflexivity].
Qed.

(* ------------------------------------------------------------------------------------------ *)
(* 6. navigation on a reference record *)
Lemma abs_tag_opp t : abs_tag (- t) = abs_tag t.
Proof. unfold abs_tag. rewrite Z.abs_opp. reflexivity. Qed.

Lemma get_fd_record d ts t :
  get_fd (Some {| rdef := d; rdata := ref_record (flat_tags d) ts |}) t
  = match index_of (abs_tag t) (flat_tags d) with
    | None => inr ENotDefined
    | Some _ => match occurrences (abs_tag t) ts with
                | [] => inr ENotFound
                | x :: occ => inl {| fwt := mwt x; fdat := map mvalue (x :: occ) |}
                end
    end.
Proof.
  unfold get_fd, has_tags. cbn [rdef rdata].
  destruct (index_of (abs_tag t) (flat_tags d)) as [i|] eqn:Ei.
  - destruct (flat_tags d) as [|a r] eqn:Ef; [cbn [index_of] in Ei; discriminate Ei|].
    cbn [negb]. cbv zeta. rewrite <- Ef in *. rewrite (nth_record _ ts _ i Ei). unfold entry. cbn [fdat].
    destruct (occurrences (abs_tag t) ts) as [|x occ]; reflexivity.
  - destruct (flat_tags d); reflexivity.
Qed.

Theorem lookup_spec : forall d ts t,
  let r := Some {| rdef := d; rdata := ref_record (flat_tags d) ts |} in
  get_fd r (- t) = get_fd r t /\
  match index_of (abs_tag t) (flat_tags d) with
  | None => get_fd r t = inr ENotDefined
  | Some _ =>
      match occurrences (abs_tag t) ts with
      | [] => get_fd r t = inr ENotFound
      | x :: occ => get_fd r t = inl {| fwt := mwt x; fdat := map mvalue (x :: occ) |}
      end
  end.
Proof.
  intros d ts t r. unfold r. rewrite !get_fd_record, abs_tag_opp. split; [reflexivity|].
  destruct (index_of (abs_tag t) (flat_tags d)); [|reflexivity].
  destruct (occurrences (abs_tag t) ts); reflexivity.
Qed.

Lemma nested_in_flat d x : In x (nested_tags d) -> In x (flat_tags d).
Proof.
  unfold nested_tags, flat_tags. rewrite !sort_u_in. intros H.
  apply in_flat_map in H. destruct H as ([k v] & Hin & Hx).
  destruct v as [d'|]; [|destruct Hx]. destruct Hx as [Hx|[]]. subst x.
  apply in_map_iff. exists (k, Some d'). split; [reflexivity|exact Hin].
Qed.

Lemma nested_index d t : existsb (N.eqb (abs_tag t)) (nested_tags d) = true ->
  exists i, index_of (abs_tag t) (flat_tags d) = Some i.
Proof.
  intros H. apply existsb_exists in H. destruct H as (x & Hin & Hx). apply N.eqb_eq in Hx. subst x.
  apply index_of_in, nested_in_flat. exact Hin.
Qed.

Lemma has_nested_true d t : existsb (N.eqb (abs_tag t)) (nested_tags d) = true ->
  has_nested {| rdef := d; rdata := ref_record (flat_tags d) [] |} = true.
Proof. unfold has_nested. cbn [rdef]. destruct (nested_tags d); [intros H; discriminate H|reflexivity]. Qed.

Lemma last_snoc {A} (l : list A) x : last_of (l ++ [x]) = Some x.
Proof. unfold last_of. rewrite rev_unit. reflexivity. Qed.

Theorem nested_result_spec : forall d ts t n kids pre,
  existsb (N.eqb (abs_tag t)) (nested_tags d) = true ->
  occurrences (abs_tag t) ts = pre ++ [MNode n kids] ->
  Forall (fun x => mwt x = 2) pre ->
  Forall mtree_wf kids -> one_wt (flat_tags (nested_def d (abs_tag t))) kids ->
  nested_result (Some {| rdef := d; rdata := ref_record (flat_tags d) ts |}) t
  = inl (LRes {| rdef := nested_def d (abs_tag t);
                 rdata := ref_record (flat_tags (nested_def d (abs_tag t))) kids |}).
Proof.
  intros d ts t n kids pre Hex Hocc Hpre Hwf Hone.
  destruct (nested_index d t Hex) as [i Ei].
  unfold nested_result, has_nested. cbn [rdef rdata].
  assert (Hhn : match nested_tags d with [] => false | _ => true end = true)
    by (destruct (nested_tags d); [cbn [existsb] in Hex; discriminate Hex|reflexivity]).
  rewrite Hhn, Ei, Hex. cbn [negb]. cbv zeta.
  rewrite (nth_record _ ts _ i Ei). unfold entry. cbn [fdat fwt]. rewrite Hocc, map_app. cbn [map].
  rewrite last_snoc. cbn [mvalue].
  assert (Hw : match pre ++ [MNode n kids] with [] => 0 | x :: _ => mwt x end = 2).
  { destruct pre as [|y p]; [reflexivity|]. cbn [app]. inversion Hpre; subst. assumption. }
  rewrite Hw. change (2 =? 2) with true. cbn [negb].
  rewrite nested_decode_is_reference by assumption. reflexivity.
Qed.

Theorem nested_results_spec : forall d ts t nodes,
  existsb (N.eqb (abs_tag t)) (nested_tags d) = true ->
  nodes <> [] ->
  occurrences (abs_tag t) ts = map (fun '(n, kids) => MNode n kids) nodes ->
  Forall (fun '(n, kids) => Forall mtree_wf kids /\ one_wt (flat_tags (nested_def d (abs_tag t))) kids) nodes ->
  nested_results (Some {| rdef := d; rdata := ref_record (flat_tags d) ts |}) t
  = inl (map (fun '(n, kids) => LRes {| rdef := nested_def d (abs_tag t);
                                        rdata := ref_record (flat_tags (nested_def d (abs_tag t))) kids |}) nodes).
Proof.
  intros d ts t nodes Hex Hne Hocc Hall.
  destruct (nested_index d t Hex) as [i Ei].
  unfold nested_results, has_nested. cbn [rdef rdata].
  assert (Hhn : match nested_tags d with [] => false | _ => true end = true)
    by (destruct (nested_tags d); [cbn [existsb] in Hex; discriminate Hex|reflexivity]).
  rewrite Hhn, Hex, Ei. cbn [negb]. cbv zeta.
  rewrite (nth_record _ ts _ i Ei). unfold entry. cbn [fdat]. rewrite Hocc.
  assert (Hmap : map (lazy_decode_nested (nested_def d (abs_tag t)))
                   (map mvalue (map (fun '(n, kids) => MNode n kids) nodes))
                 = map (fun '(n, kids) => LRes {| rdef := nested_def d (abs_tag t);
                          rdata := ref_record (flat_tags (nested_def d (abs_tag t))) kids |}) nodes).
  { clear Hne Hocc. induction Hall as [|[n kids] l [Hwf Hone] Hl IH]; [reflexivity|].
    cbn [map mvalue]. rewrite IH. rewrite nested_decode_is_reference by assumption. reflexivity. }
  destruct nodes as [|[n kids] l]; [congruence|].
  rewrite <- Hmap. reflexivity.
Qed.

(* ------------------------------------------------------------------------------------------ *)
(* 7. no panic on arbitrary bytes *)
Lemma lt_pow2_shiftr a k : a < 2^k <-> N.shiftr a k = 0.
Proof.
  rewrite N.shiftr_div_pow2. assert (Hp : 2^k <> 0) by (apply N.pow_nonzero; lia).
  split; intros H; [apply N.div_small; exact H|]. apply N.div_small_iff; assumption.
Qed.
Lemma lor_lt_pow2 a b k : a < 2^k -> b < 2^k -> N.lor a b < 2^k.
Proof.
  rewrite !lt_pow2_shiftr. intros Ha Hb. rewrite N.shiftr_lor, Ha, Hb. reflexivity.
Qed.

(* a varint read from n bytes is below 2^(7n) *)
Lemma dv_small_bound : forall fuel p shift acc n v m,
  acc < 2^shift -> dv_small fuel p shift acc n = inl (v, m) ->
  exists k, m = (n + k)%nat /\ (1 <= k)%nat /\ v < 2^(shift + 7 * N.of_nat k).
Proof.
  induction fuel as [|f IH]; intros p shift acc n v m Hacc H; cbn [dv_small] in H; [discriminate H|].
  destruct p as [|b p']; [discriminate H|].
  assert (Hv' : N.lor acc (N.shiftl (N.land b 127) shift mod 2^64) < 2^(shift + 7)).
  { assert (Hle : 2^shift <= 2^(shift + 7)) by (apply N.pow_le_mono_r; lia).
    apply lor_lt_pow2; [lia|].
    eapply N.le_lt_trans; [apply N.mod_le; apply N.pow_nonzero; lia|].
    rewrite N.shiftl_mul_pow2, land127, N.pow_add_r. change (2^7) with 128.
    pose proof (N.mod_lt b 128 ltac:(lia)) as Hr. set (c := b mod 128) in *.
    assert (HP : 0 < 2^shift) by (apply N.neq_0_lt_0, N.pow_nonzero; lia).
    set (P := 2^shift) in *. rewrite (N.mul_comm P 128). apply N.mul_lt_mono_pos_r; assumption. }
  set (v' := N.lor acc (N.shiftl (N.land b 127) shift mod 2^64)) in *.
  destruct (N.land b 128 =? 0).
  - inversion H; subst. exists 1%nat. split; [lia|]. split; [lia|]. exact Hv'.
  - apply IH in H; [|exact Hv']. destruct H as (k & Hm & Hk & Hb). exists (S k).
    split; [lia|]. split; [lia|]. replace (shift + 7 * N.of_nat (S k)) with (shift + 7 + 7 * N.of_nat k) by lia.
    exact Hb.
Qed.

Lemma dec_varint_bound p v n : dec_varint p = inl (v, n) -> (1 <= n)%nat /\ v < 2^(7 * N.of_nat n).
Proof.
  unfold dec_varint. destruct p as [|b0 r]; [intros H; discriminate H|].
  destruct (N.ltb_spec b0 128) as [Hlt|Hge].
  - intros H; inversion H; subst. split; [lia|]. change (2^(7 * N.of_nat 1)) with 128. exact Hlt.
  - assert (H0 : 0 < 2^0) by (rewrite N.pow_0_r; lia).
    destruct (length (b0 :: r) <? 10)%nat; intros H; apply dv_small_bound in H; try exact H0;
      destruct H as (k & Hm & Hk & Hb); rewrite N.add_0_l in Hb; cbn [Nat.add] in Hm; subst n; split; assumption.
Qed.

Lemma size_of_varint_le x n : (1 <= n)%nat -> x < 2^(7 * N.of_nat n) -> (size_of_varint x <= n)%nat.
Proof.
  intros Hn Hx. unfold size_of_varint.
  assert (H1 : 1 < 2^(7 * N.of_nat n)).
  { change 1 with (2^0) at 1. apply N.pow_lt_mono_r; lia. }
  pose proof (lor_lt_pow2 x 1 _ Hx H1) as Hy.
  assert (Hnz : N.lor x 1 <> 0) by (intros Hc; apply N.lor_eq_0_iff in Hc; lia).
  set (y := N.lor x 1) in *.
  rewrite N.size_log2 by exact Hnz.
  assert (Hlog : N.log2 y < 7 * N.of_nat n) by (apply N.log2_lt_pow2; [lia|exact Hy]).
  assert (Hq : (N.succ (N.log2 y) + 6) / 7 < N.of_nat n + 1) by (apply N.div_lt_upper_bound; lia).
  lia.
Qed.

Lemma shiftr3_shiftl3_le v : N.shiftl (N.shiftr v 3) 3 <= v.
Proof.
  rewrite N.shiftl_mul_pow2, N.shiftr_div_pow2. change (2^3) with 8.
  pose proof (N.div_mod' v 8) as Hdm. lia.
Qed.

Lemma dec_tag_key d tag wt d1 : Inv d -> dec_tag d = DOk (tag, wt) d1 ->
  exists n, d1 = dadv d n /\ (1 <= n <= length (dbuf d) - doff d)%nat /\ (size_key tag <= n)%nat /\ tag <= max_tag.
Proof.
  intros HI. unfold dec_tag. destruct (at_eof d); [intros H; discriminate H|]. rewrite go_from_ok by exact HI.
  destruct (dec_varint (skipn (doff d) (dbuf d))) as [[v n]|e] eqn:E; [|intros H; discriminate H].
  destruct (v <? 1); cbn [orb]; [intros H; discriminate H|].
  destruct (N.ltb_spec max_tag (N.shiftr v 3)) as [Hc|Hmax]; [intros H; discriminate H|].
  intros H. inversion H; subst. exists n. split; [reflexivity|].
  pose proof (dec_varint_len _ _ _ E) as Hlen. rewrite skipn_length in Hlen.
  destruct (dec_varint_bound _ _ _ E) as [Hn Hb]. split; [lia|]. split; [|exact Hmax].
  unfold size_key. apply size_of_varint_le; [exact Hn|].
  eapply N.le_lt_trans; [|exact Hb].
  eapply N.le_trans; [apply N.mod_le; apply N.pow_nonzero; lia|apply shiftr3_shiftl3_le].
Qed.

Lemma slice_length {A} (l : list A) lo hi : (hi <= length l)%nat -> length (slice l lo hi) = (hi - lo)%nat.
Proof. intros H. unfold slice. rewrite firstn_length, skipn_length. lia. Qed.

Lemma lerr_ne_panic {A} : @LErrv A <> LPanicv. Proof. discriminate. Qed.

Lemma decode_loop_np : forall fuel tags data d, Inv d -> decode_loop fuel tags data d <> LPanicv.
Proof.
  induction fuel as [|f IH]; intros tags data d HI; cbn [decode_loop]; [discriminate|].
  destruct (at_eof d); [discriminate|].
  destruct (dec_tag d) as [[tag wt] d1|d1|] eqn:Et.
  2:{ discriminate. }
  2:{ pose proof (dec_tag_spec d HI) as Hs. rewrite Et in Hs. contradiction. }
  destruct (dec_tag_key d tag wt d1 HI Et) as (n & Hd1 & Hn & Hsz & Hmax).
  destruct (safe_dadv d n HI ltac:(lia)) as [HI1 _]. rewrite <- Hd1 in HI1.
  assert (Htag : u64z (Z.of_N tag) = tag) by (apply u64z_of_N; unfold max_tag in Hmax; lia).
  destruct (index_of tag tags) as [i|].
  2:{ pose proof (dec_skip_safe d1 (Z.of_N tag) (Z.of_N wt) HI1) as Hs.
      destruct (dec_skip d1 (Z.of_N tag) (Z.of_N wt)) as [raw d2|d2|]; [|discriminate|contradiction].
      destruct Hs as [HI2 _]. apply IH. exact HI2. }
  cbv zeta. destruct (_ && _); [discriminate|].
  destruct ((wt =? 0) || (wt =? 5) || (wt =? 1)).
  { pose proof (dec_skip_spec d1 (Z.of_N tag) (Z.of_N wt) HI1) as Hs.
    pose proof (dec_skip_safe d1 (Z.of_N tag) (Z.of_N wt) HI1) as Hsafe.
    destruct (dec_skip d1 (Z.of_N tag) (Z.of_N wt)) as [raw d2|d2|]; [|discriminate|contradiction].
    destruct Hsafe as [HI2 _]. unfold skip_post in Hs. destruct Hs as (sk & Hd2 & Hraw & Hroom & _).
    rewrite Htag in Hraw.
    assert (Hlen : length raw = (doff d1 + sk - (doff d1 - size_key tag))%nat).
    { rewrite Hraw. apply slice_length. exact Hroom. }
    assert (Hoff : doff d1 = (doff d + n)%nat) by (rewrite Hd1; reflexivity).
    destruct (Nat.ltb_spec (length raw) (size_key tag)) as [Hc|_]; [lia|].
    apply IH. exact HI2. }
  destruct (wt =? 2); [|discriminate].
  pose proof (dec_bytes_safe d1 HI1) as Hs.
  destruct (dec_bytes d1) as [val d2|d2|]; [|discriminate|contradiction].
  destruct Hs as [HI2 _]. apply IH. exact HI2.
Qed.

Lemma decode_into_np tags data input : decode_into tags data input <> LPanicv.
Proof. unfold decode_into. apply decode_loop_np. unfold Inv. cbn [dbuf doff]. lia. Qed.

Lemma of_lerr_np d r : r <> LPanicv -> of_lerr d r <> LCrash.
Proof. destruct r; cbn [of_lerr]; intros H; [discriminate|discriminate|congruence]. Qed.

Lemma nested_np d input : lazy_decode_nested d input <> LCrash.
Proof. unfold lazy_decode_nested. apply of_lerr_np, decode_into_np. Qed.

Theorem decode_no_panic : forall d input,
  lazy_decode_dec d input <> LCrash /\ lazy_decode_fn d input <> LCrash /\ lazy_decode_nested d input <> LCrash.
Proof.
  intros d input. split; [|split; [|apply nested_np]].
  - unfold lazy_decode_dec. destruct (negb _); [discriminate|].
    destruct input as [|a r]; [discriminate|]. apply of_lerr_np, decode_into_np.
  - unfold lazy_decode_fn. destruct input as [|a r]; [discriminate|].
    destruct (entries d) as [|e es]; [discriminate|].
    destruct (negb _); [discriminate|]. apply of_lerr_np, decode_into_np.
Qed.

(* ------------------------------------------------------------------------------------------ *)
(* 8. no observation panics *)
Lemma acc_np fd k s : out_panics (acc fd k s) = false.
Proof.
  unfold acc, acc_slice, acc_scalar.
  repeat match goal with |- context [match ?x with _ => _ end] => destruct x end; reflexivity.
Qed.

Lemma helper_np r t k s : out_panics (helper_access r t k s) = false.
Proof. unfold helper_access. destruct (get_fd r t); [apply acc_np|reflexivity]. Qed.

Lemma nested_result_np r t : nested_result r t <> inl LCrash.
Proof.
  unfold nested_result. destruct r as [r|]; [|discriminate].
  destruct (negb (has_nested r)); [discriminate|].
  destruct (index_of _ _); [|discriminate]. destruct (negb (existsb _ _)); [discriminate|]. cbv zeta.
  destruct (last_of _); [|discriminate]. destruct (negb _); [discriminate|].
  intros H. inversion H as [Hc]. exact (nested_np _ _ Hc).
Qed.

Lemma walk_cons r t t2 rest : walk r (t :: t2 :: rest) =
  match nested_result r t with
  | inr e => inr (AErr e)
  | inl LCrash => inr APanic
  | inl LFail => inr (AErr EOther)
  | inl LNil => walk None (t2 :: rest)
  | inl (LRes r') => walk (Some r') (t2 :: rest)
  end.
Proof. reflexivity. Qed.

Lemma walk_np : forall path r, match walk r path with inr o => out_panics o = false | inl _ => True end.
Proof.
  induction path as [|t rest IH]; intros r; [reflexivity|].
  destruct rest as [|t2 rest2]; [exact I|]. rewrite walk_cons.
  pose proof (nested_result_np r t) as Hn.
  destruct (nested_result r t) as [[|r'| |]|e]; [apply IH|apply IH|reflexivity|congruence|reflexivity].
Qed.

Lemma walk_all_np : forall path r, match walk_all r path with inr o => out_panics o = false | inl _ => True end.
Proof.
  induction path as [|t rest IH]; intros r; cbn [walk_all]; [exact I|].
  pose proof (nested_result_np r t) as Hn.
  destruct (nested_result r t) as [[|r'| |]|e]; [apply IH|apply IH|reflexivity|congruence|reflexivity].
Qed.

Lemma field_data_np r path k s : out_panics (field_data_access r path k s) = false.
Proof.
  unfold field_data_access. destruct r as [r0|]; [|reflexivity].
  destruct (_ && _); [reflexivity|].
  pose proof (walk_np path (Some r0)) as Hw.
  destruct (walk (Some r0) path) as [[r' t]|o]; [|exact Hw].
  destruct (get_fd r' t); [apply acc_np|reflexivity].
Qed.

Definition is_crash (o : lout) : bool := match o with LCrash => true | _ => false end.
Lemma map_nested_np nd ds : existsb is_crash (map (lazy_decode_nested nd) ds) = false.
Proof.
  induction ds as [|b ds IH]; [reflexivity|]. cbn [map existsb]. rewrite IH, orb_false_r.
  pose proof (nested_np nd b) as Hn. destruct (lazy_decode_nested nd b); try reflexivity. congruence.
Qed.

Lemma nested_results_np r t outs : nested_results r t = inl outs -> existsb is_crash outs = false.
Proof.
  unfold nested_results. destruct r as [r|]; [|intros H; discriminate H].
  destruct (negb (has_nested r)); [intros H; discriminate H|].
  destruct (negb (existsb _ _)); [intros H; discriminate H|].
  destruct (index_of _ _); [|intros H; discriminate H]. cbv zeta.
  destruct (fdat _) as [|b ds]; [intros H; discriminate H|].
  intros H. inversion H; subst. exact (map_nested_np _ (b :: ds)).
Qed.

Lemma nested_access_np r t inner k s :
  match nested_results_access r t inner k s with
  | NPanic => False | NList l => existsb out_panics l = false | NErr _ => True end.
Proof.
  unfold nested_results_access. pose proof (nested_results_np r t) as Hn.
  destruct (nested_results r t) as [outs|e]; [|exact I].
  specialize (Hn outs eq_refl). fold is_crash. rewrite Hn. clear Hn.
  destruct (existsb (fun o => match o with LFail => true | _ => false end) outs); [exact I|]. induction outs as [|o outs IH]; [reflexivity|]. cbn [map existsb]. rewrite IH, helper_np. reflexivity.
Qed.

Theorem observe_no_panic : forall r op, obs_panics (observe r op) = false.
Proof.
  intros r op. destruct op as [path k s|path t k s|path t inner k s|path]; cbn [observe].
  - cbn [obs_panics]. apply field_data_np.
  - pose proof (walk_all_np path r) as Hw. destruct (walk_all r path) as [r'|o]; cbn [obs_panics]; [apply helper_np|exact Hw].
  - pose proof (walk_all_np path r) as Hw. destruct (walk_all r path) as [r'|o]; [|exact Hw].
    pose proof (nested_access_np r' t inner k s) as Hn. cbn [obs_panics].
    destruct (nested_results_access r' t inner k s); [reflexivity|contradiction|exact Hn].
  - pose proof (walk_all_np path r) as Hw. destruct (walk_all r path) as [[r'|]|o]; [reflexivity|reflexivity|exact Hw].
Qed.

Print Assumptions decode_is_reference.
Print Assumptions nested_decode_is_reference.
Print Assumptions lookup_spec.
Print Assumptions nested_result_spec.
Print Assumptions nested_results_spec.
Print Assumptions decode_no_panic.
Print Assumptions observe_no_panic.
