(* The typed accessors of lazyproto (Lazy.acc_scalar / acc_slice) on the value bytes of reference
   fields, against the textbook readings of LazySpec. *)
From CsProto Require Import Prelude Varint VarintProof VarintSize ZigZag Codec RefWire WireStmts CodecBase Lazy LazySpec.
From CsProto Require Import ZigZagDec.
Local Open Scope N_scope.

(* ---------- kinds ---------- *)
Lemma kind_varint k : is_numeric k = true -> want_wt k = 0 -> is_varint_kind (skind_of k) = true.
Proof. destruct k; intros H1 H2; try discriminate H1; try discriminate H2; reflexivity. Qed.

Lemma kind_fixed64 k n : is_numeric k = true -> want_wt k = 1 ->
  is_varint_kind (skind_of k) = false /\ width_of (skind_of k) = 8%nat /\
  of_wire (skind_of k) n = Some (Z.of_N n) /\ ref_typed k n = Some (Z.of_N n).
Proof. destruct k; intros H1 H2; try discriminate H1; try discriminate H2; repeat split; reflexivity. Qed.

Lemma kind_fixed32 k n : is_numeric k = true -> want_wt k = 5 ->
  is_varint_kind (skind_of k) = false /\ width_of (skind_of k) = 4%nat /\
  of_wire (skind_of k) n = Some (Z.of_N n) /\ ref_typed k n = Some (Z.of_N n).
Proof. destruct k; intros H1 H2; try discriminate H1; try discriminate H2; repeat split; reflexivity. Qed.

(* ---------- one conversion ---------- *)
Lemma ref_varint_pos v : (1 <= length (ref_varint v))%nat.
Proof.
  unfold ref_varint. generalize 9%nat. intros fuel.
  destruct fuel as [|fuel]; cbn [ref_varint_fuel]; [cbn [length]; lia|].
  destruct (v <? 128); cbn [length]; lia.
Qed.

Lemma rvalue_pos k f : scalar_for k f -> (1 <= length (rvalue f))%nat.
Proof.
  intros (_ & (_ & Hwf) & Hb). destruct f; cbn [rvalue] in *.
  - apply ref_varint_pos.
  - lia.
  - lia.
  - contradiction.
Qed.

Lemma conv_one_field k f rest : is_numeric k = true -> scalar_for k f ->
  conv_one k (rvalue f ++ rest)
  = match ref_typed k (rfield_int f) with Some z => Some (z, length (rvalue f)) | None => None end.
Proof.
  intros Hk (Hwt & (_ & Hwf) & Hb). unfold conv_one. cbv zeta.
  destruct f as [num v|num b|num b|num b]; cbn [rwt rvalue rfield_int] in *.
  - rewrite (kind_varint k Hk (eq_sym Hwt)).
    rewrite <- varint_canonical by exact Hwf. rewrite dec_enc_varint by exact Hwf.
    rewrite of_wire_ref_typed by assumption.
    destruct (ref_typed k v); reflexivity.
  - destruct (kind_fixed64 k (le_val b) Hk (eq_sym Hwt)) as (H1 & H2 & H3 & H4).
    assert (Hf : firstn 8 (b ++ rest) = b) by (rewrite <- Hwf; apply firstn_app_exact).
    rewrite H1, H2, Hf, H3, H4, app_length, Hwf.
    destruct (Nat.ltb_spec (8 + length rest) 8) as [Hc|_]; [lia|reflexivity].
  - destruct (kind_fixed32 k (le_val b) Hk (eq_sym Hwt)) as (H1 & H2 & H3 & H4).
    assert (Hf : firstn 4 (b ++ rest) = b) by (rewrite <- Hwf; apply firstn_app_exact).
    rewrite H1, H2, Hf, H3, H4, app_length, Hwf.
    destruct (Nat.ltb_spec (4 + length rest) 4) as [Hc|_]; [lia|reflexivity].
  - contradiction.
Qed.

(* ---------- scalars ---------- *)
Lemma last_of_snoc {A} (l : list A) x : last_of (l ++ [x]) = Some x.
Proof. unfold last_of. rewrite rev_unit. reflexivity. Qed.

Lemma scalar_last : forall k ds f,
  is_numeric k = true -> scalar_for k f ->
  acc_scalar {| fwt := rwt f; fdat := ds ++ [rvalue f] |} k
  = match ref_typed k (rfield_int f) with Some z => AOk (AvNum z) | None => AErr EOther end.
Proof.
  intros k ds f Hk Hs.
  pose proof (conv_one_field k f [] Hk Hs) as Hc. rewrite app_nil_r in Hc.
  destruct Hs as (Hwt & _).
  unfold acc_scalar. cbn [fdat fwt]. rewrite last_of_snoc, Hwt, N.eqb_refl. cbn [negb].
  destruct k; try discriminate Hk; rewrite Hc; destruct (ref_typed _ _); reflexivity.
Qed.

Lemma scalar_bytes : forall k ds b, is_numeric k = false ->
  acc_scalar {| fwt := 2; fdat := ds ++ [b] |} k = AOk (AvBytes b).
Proof.
  intros k ds b Hk. unfold acc_scalar. cbn [fdat fwt]. rewrite last_of_snoc.
  destruct k; try discriminate Hk; reflexivity.
Qed.

Lemma scalar_mismatch : forall k wt ds b, wt <> want_wt k ->
  acc_scalar {| fwt := wt; fdat := ds ++ [b] |} k = AErr EMismatch.
Proof.
  intros k wt ds b H. unfold acc_scalar. cbn [fdat fwt]. rewrite last_of_snoc.
  apply N.eqb_neq in H. rewrite H. reflexivity.
Qed.

(* ---------- slices ---------- *)
Lemma conv_all_S f k p : p <> [] ->
  conv_all (S f) k p
  = match conv_one k p with
    | None => None
    | Some (z, n) =>
        if (n =? 0)%nat then None
        else match conv_all f k (skipn n p) with Some r => Some (z :: r) | None => None end
    end.
Proof. destruct p; [congruence|reflexivity]. Qed.

Lemma conv_all_run k : is_numeric k = true -> forall run fuel,
  Forall (scalar_for k) run -> (length run <= fuel)%nat ->
  conv_all fuel k (concat (map rvalue run)) = typed_all k run.
Proof.
  intros Hk run. induction run as [|f r IH]; intros fuel Hall Hfuel.
  - cbn [map concat typed_all]. destruct fuel; reflexivity.
  - inversion Hall as [|? ? Hf Hr]; subst.
    destruct fuel as [|fuel]; [cbn [length] in Hfuel; lia|]. cbn [length] in Hfuel.
    pose proof (rvalue_pos k f Hf) as Hpos.
    cbn [map concat typed_all].
    rewrite conv_all_S.
    2:{ intros Hnil. apply (f_equal (@length _)) in Hnil. rewrite app_length in Hnil. cbn [length] in Hnil. lia. }
    rewrite (conv_one_field k f _ Hk Hf).
    destruct (ref_typed k (rfield_int f)) as [z|]; [|reflexivity].
    destruct (Nat.eqb_spec (length (rvalue f)) 0) as [Hc|_]; [lia|].
    rewrite skipn_app_exact, (IH fuel Hr) by lia.
    destruct (typed_all k r); reflexivity.
Qed.

Lemma run_count k run : Forall (scalar_for k) run -> (length run <= length (concat (map rvalue run)))%nat.
Proof.
  induction 1 as [|f r Hf Hr IH]; cbn [map concat length]; [lia|].
  rewrite app_length. pose proof (rvalue_pos k f Hf). lia.
Qed.

Lemma typed_all_app k a b :
  typed_all k (a ++ b)
  = match typed_all k a, typed_all k b with Some x, Some y => Some (x ++ y) | _, _ => None end.
Proof.
  induction a as [|f a IH]; cbn [app typed_all].
  - destruct (typed_all k b); reflexivity.
  - rewrite IH. destruct (ref_typed k (rfield_int f)); [|reflexivity].
    destruct (typed_all k a); [|reflexivity]. destruct (typed_all k b); reflexivity.
Qed.

Lemma conv_slices_runs k runs : is_numeric k = true -> Forall (Forall (scalar_for k)) runs ->
  conv_slices k (map (fun run => concat (map rvalue run)) runs) = typed_all k (concat runs).
Proof.
  intros Hk Hall. induction Hall as [|run r Hrun Hr IH]; [reflexivity|].
  cbn [map conv_slices concat].
  rewrite (conv_all_run k Hk run _ Hrun) by (pose proof (run_count k run Hrun); lia).
  rewrite IH, typed_all_app.
  destruct (typed_all k run); [|reflexivity]. destruct (typed_all k (concat r)); reflexivity.
Qed.

Lemma acc_slice_num k wt ds : is_numeric k = true -> ds <> [] -> (wt = want_wt k \/ wt = 2) ->
  acc_slice {| fwt := wt; fdat := ds |} k = num_out (conv_slices k ds).
Proof.
  intros Hk Hne Hwt. destruct ds as [|d ds]; [congruence|].
  unfold acc_slice, num_out. cbn [fdat fwt].
  assert (Ht : (wt =? want_wt k) || (wt =? 2) = true).
  { destruct Hwt as [->| ->]; rewrite N.eqb_refl; [reflexivity|apply orb_true_r]. }
  destruct k; try discriminate Hk; rewrite Ht; reflexivity.
Qed.

Lemma slice_packed : forall k runs,
  is_numeric k = true -> runs <> [] -> Forall (Forall (scalar_for k)) runs ->
  acc_slice {| fwt := 2; fdat := map (fun run => concat (map rvalue run)) runs |} k
  = num_out (typed_all k (concat runs)).
Proof.
  intros k runs Hk Hne Hall.
  rewrite acc_slice_num; [|exact Hk| |right; reflexivity].
  - rewrite conv_slices_runs by assumption. reflexivity.
  - destruct runs; [congruence|cbn [map]; discriminate].
Qed.

Lemma slice_unpacked : forall k fs,
  is_numeric k = true -> fs <> [] -> Forall (scalar_for k) fs ->
  acc_slice {| fwt := want_wt k; fdat := map rvalue fs |} k = num_out (typed_all k fs).
Proof.
  intros k fs Hk Hne Hall.
  rewrite acc_slice_num; [|exact Hk| |left; reflexivity].
  2:{ destruct fs; [congruence|cbn [map]; discriminate]. }
  assert (Hm : map rvalue fs = map (fun run => concat (map rvalue run)) (map (fun f => [f]) fs)).
  { rewrite map_map. apply map_ext. intros f. cbn [map concat]. rewrite app_nil_r. reflexivity. }
  assert (Hc : concat (map (fun f => [f]) fs) = fs).
  { clear. induction fs as [|f fs IH]; [reflexivity|]. cbn [map concat app]. rewrite IH. reflexivity. }
  rewrite Hm, conv_slices_runs, Hc; [reflexivity|exact Hk|].
  clear Hm Hc Hne. induction Hall as [|f r Hf Hr IH]; cbn [map]; constructor; [|exact IH].
  constructor; [exact Hf|constructor].
Qed.

Lemma slice_strings : forall k bs, is_numeric k = false -> bs <> [] ->
  acc_slice {| fwt := 2; fdat := bs |} k = AOk (AvBytesList bs).
Proof.
  intros k bs Hk Hne. destruct bs as [|b bs]; [congruence|].
  destruct k; try discriminate Hk; reflexivity.
Qed.

Print Assumptions scalar_last.
Print Assumptions scalar_bytes.
Print Assumptions scalar_mismatch.
Print Assumptions slice_unpacked.
Print Assumptions slice_packed.
Print Assumptions slice_strings.
