(* Arithmetic behind the lazyproto accessors: Go's DecodeZigZag32/64 and the integer casts of the
   conversion closures against the textbook readings of LazySpec (unzig, sgn64, ref_typed). *)
From CsProto Require Import Prelude Varint ZigZag Codec RefWire WireStmts CodecBase Lazy LazySpec.

(* ---------- DecodeZigZag, generic in the width, for any non-negative 64-bit input ---------- *)
Section Z.
Local Open Scope Z_scope.

Lemma dec_zz_gen w (Hw : w = 32 \/ w = 64) dv : 0 <= dv ->
  dec_zz w dv = if Z.even (dv mod 2^w) then (dv mod 2^w) / 2 else - ((dv mod 2^w + 1) / 2).
Proof.
  intros Hdv. destruct (two_half w Hw) as (Ht & Hh & Hwpos).
  fold (two w). unfold dec_zz. unfold uw at 1.
  pose proof (Z.mod_pos_bound dv (two w) ltac:(lia)) as Hu.
  assert (Hsplit : dv = dv mod two w + (dv / two w * half w) * 2).
  { pose proof (Z.div_mod dv (two w) ltac:(lia)) as Hdm. rewrite Ht in Hdm at 1. lia. }
  assert (Hland : Z.land dv 1 = (dv mod two w) mod 2).
  { change 1 with (Z.ones 1). rewrite Z.land_ones by lia. change (2^1) with 2.
    rewrite Hsplit at 1. apply Z.mod_add. lia. }
  rewrite Hland. clear Hland Hsplit.
  set (u := dv mod two w) in *.
  destruct (Z.even u) eqn:E.
  - apply Z.even_spec in E. destruct E as [m Hm].
    assert (Hmod : u mod 2 = 0) by (rewrite Hm, Z.mul_comm; apply Z.mod_mul; lia).
    assert (Hdiv : u / 2 = m) by (rewrite Hm, Z.mul_comm; apply Z.div_mul; lia).
    rewrite Hmod, (sign_mask0 w Hw), Z.lxor_0_r, Z.shiftr_div_pow2 by lia. change (2^1) with 2.
    rewrite Hdiv. apply (iw_small w Hw). lia.
  - assert (E' : Z.odd u = true) by (rewrite <- Z.negb_even, E; reflexivity).
    apply Z.odd_spec in E'. destruct E' as [m Hm].
    assert (Hmod : u mod 2 = 1).
    { symmetry. apply (Z.mod_unique u 2 m 1); lia. }
    assert (Hdiv : u / 2 = m).
    { symmetry. apply (Z.div_unique u 2 m 1); lia. }
    assert (Hdiv' : (u + 1) / 2 = m + 1).
    { symmetry. apply (Z.div_unique (u + 1) 2 (m + 1) 0); lia. }
    rewrite Hmod, (sign_mask1 w Hw), Z.shiftr_div_pow2 by lia. change (2^1) with 2.
    rewrite Hdiv, Hdiv', (lxor_ones w Hw) by lia.
    unfold iw. cbv zeta.
    rewrite (Z.mod_small (two w - 1 - m)) by lia.
    destruct (Z.ltb_spec (two w - 1 - m) (half w)); lia.
Qed.

Lemma even_of_N u : Z.even (Z.of_N u) = N.even u.
Proof. destruct u as [|[p|p|]]; reflexivity. Qed.

Lemma zz_even_N u :
  (if Z.even (Z.of_N u) then Z.of_N u / 2 else - ((Z.of_N u + 1) / 2)) = unzig u.
Proof.
  unfold unzig. rewrite even_of_N. destruct (N.even u).
  - rewrite N2Z.inj_div. reflexivity.
  - rewrite N2Z.inj_div, N2Z.inj_add. reflexivity.
Qed.
End Z.

Local Open Scope N_scope.

Lemma dec_zz64_unzig v : v < 2^64 -> dec_zz64 (Z.of_N v) = unzig v.
Proof.
  intros Hv. unfold dec_zz64. rewrite (dec_zz_gen 64 (or_intror eq_refl)) by lia.
  rewrite (Z.mod_small (Z.of_N v) (2^64)) by lia. apply zz_even_N.
Qed.

Lemma dec_zz32_unzig v : dec_zz32 (Z.of_N v) = unzig (v mod 2^32).
Proof.
  unfold dec_zz32. rewrite (dec_zz_gen 32 (or_introl eq_refl)) by lia.
  assert (H : (Z.of_N v mod 2^32)%Z = Z.of_N (v mod 2^32)).
  { change (2^32)%Z with (Z.of_N 4294967296). change (2^32) with 4294967296.
    rewrite N2Z.inj_mod by lia. reflexivity. }
  rewrite H. apply zz_even_N.
Qed.

Lemma i64n_sgn64 v : v < 2^64 -> i64n v = sgn64 v.
Proof.
  intros H. unfold i64n, sgn64. rewrite N.mod_small by exact H. cbv zeta.
  destruct (N.ltb_spec v (2^63)) as [H1|H1]; destruct (Z.ltb_spec (Z.of_N v) (2^63)) as [H2|H2];
    try reflexivity; lia.
Qed.

(* the conversion closures agree with the textbook readings on every 64-bit wire integer *)
Lemma of_wire_ref_typed k v : is_numeric k = true -> v < 2^64 ->
  of_wire (skind_of k) v = ref_typed k v.
Proof.
  intros Hk Hv. destruct k; try discriminate Hk; cbn [skind_of of_wire ref_typed]; try reflexivity.
  - (* AUInt32 *)
    change (2^32) with 4294967296.
    destruct (N.ltb_spec 4294967295 v) as [H1|H1]; destruct (N.ltb_spec v 4294967296) as [H2|H2];
      try reflexivity; lia.
  - (* AInt32 *)
    cbv zeta. rewrite i64n_sgn64 by exact Hv. set (s := sgn64 v).
    change (- 2^31)%Z with (-2147483648)%Z. change (2^31)%Z with 2147483648%Z.
    destruct (Z.ltb_spec 2147483647 s) as [H1|H1]; destruct (Z.ltb_spec s (-2147483648)) as [H2|H2];
      destruct (Z.leb_spec (-2147483648) s) as [H3|H3]; destruct (Z.ltb_spec s 2147483648) as [H4|H4];
      cbn [orb andb]; try reflexivity; lia.
  - (* ASInt32 *) rewrite dec_zz32_unzig. reflexivity.
  - (* AInt64 *) rewrite i64n_sgn64 by exact Hv. reflexivity.
  - (* ASInt64 *) rewrite dec_zz64_unzig by exact Hv. reflexivity.
Qed.
