(* lazyproto's pooled DecodeResults (decode.go decodeWithPool/decodeNested, decode_result.go
   clone/Close/close/trunc/NestedResult(s)) as an OWNERSHIP-PASSING state machine: a result object is
   a value that moves between a sync.Pool, a live handle and its parent's closer list.  Which object
   sync.Pool.Get returns (any pooled one, or a fresh clone) is an argument of every operation and is
   universally quantified in the theorems, as are the outcomes of the capacity tests in trunc().
   Definitions only. *)
From CsProto Require Import Prelude Varint ZigZag Codec RefWire WireStmts Lazy.
Local Open Scope N_scope.

(* a result object: which decoder (path of nested tags from the root decoder) it belongs to, the
   recorded data per flat tag (the wire type is NOT reset on reuse), the nested results to close
   (nil entries are what the pinned trunc() produced), skipClose, and -- ghost -- the bytes it was
   last decoded from *)
Inductive pobj := PObj (opath : list N) (odata : list fdata) (oclosers : list (option pobj)) (oskip : bool) (oghost : list byte).
Definition opath o := match o with PObj p _ _ _ _ => p end.
Definition odata o := match o with PObj _ d _ _ _ => d end.
Definition oclosers o := match o with PObj _ _ c _ _ => c end.
Definition oskip o := match o with PObj _ _ _ s _ => s end.
Definition oghost o := match o with PObj _ _ _ _ g => g end.

Definition pools := list (list N * list pobj).
Definition path_eqb (a b : list N) : bool :=
  (length a =? length b)%nat && forallb (fun '(x, y) => x =? y) (combine a b).
Fixpoint pool_of (p : list N) (ps : pools) : list pobj :=
  match ps with [] => [] | (q, l) :: r => if path_eqb p q then l else pool_of p r end.
Fixpoint set_pool (p : list N) (l : list pobj) (ps : pools) : pools :=
  match ps with
  | [] => [(p, l)]
  | (q, l0) :: r => if path_eqb p q then (q, l) :: r else (q, l0) :: set_pool p l r
  end.
Definition put (o : pobj) (ps : pools) : pools := set_pool (opath o) (o :: pool_of (opath o) ps) ps.

(* sync.Pool.Get: any pooled object, or pool.New() = base.clone() *)
Definition take {A} (fresh : A) (pick : nat) (pool : list A) : A * list A :=
  match nth_error pool pick with
  | Some x => (x, firstn pick pool ++ skipn (S pick) pool)
  | None => (fresh, pool)
  end.

Section Machine.
Variable D : ldef.            (* the definition the root Decoder was built from *)
Variable pinned : bool.       (* true: trunc() as on the pinned tree, make([]*DecodeResult, n); false: make(.., 0, n) *)
(* the trunc(n) calls close() makes on an object -- WithMaxBufferSize's n, then the buffer filter's
   result -- each with the outcome of its `cap(r.closers) > n` test: an arbitrary function of the
   object (capacities depend on allocation history), universally quantified in the theorems *)
Variable truncs : pobj -> list (nat * bool).

Definition def_at (p : list N) : ldef := fold_left nested_def p D.
Definition fresh_obj (p : list N) : pobj := PObj p (fresh_data (def_at p)) [] false [].
Definition clear_fd (fd : fdata) : fdata := {| fwt := fwt fd; fdat := [] |}.        (* data = data[:0] *)

(* closers = closers[:0], then each trunc(n): if cap(closers) > n, a new slice -- of LENGTH n (nil
   entries) on the pinned tree, of length 0 after the repair *)
Definition trunc_closers (o : pobj) : list (option pobj) :=
  fold_left (fun (cl : list (option pobj)) (tr : nat * bool) =>
               if snd tr then (if pinned then repeat (@None pobj) (fst tr) else []) else cl)
            (truncs o) [].

(* close(): truncate the data, close every closer (a nil closer is a nil dereference), closers[:0],
   trunc, Put *)
Fixpoint close_obj (o : pobj) (ps : pools) : option pools :=
  match o with
  | PObj p dat cl sk g =>
      match (fix go (l : list (option pobj)) (ps : pools) : option pools :=
               match l with
               | [] => Some ps
               | None :: _ => None
               | Some c :: r => match close_obj c ps with Some ps' => go r ps' | None => None end
               end) cl ps with
      | None => None
      | Some ps1 => Some (put (PObj p (map clear_fd dat) (trunc_closers o) sk g) ps1)
      end
  end.

(* decodeNested on the decoder at path p: Get, decode into whatever the object holds; on error
   res.Close() -- which does nothing when the object still carries skipClose from an earlier life *)
Inductive pres (A : Type) := POk (a : A) (ps : pools) | PErr (ps : pools) | PPanic.
Arguments POk {A} a ps. Arguments PErr {A} ps. Arguments PPanic {A}.

Definition p_decode (p : list N) (input : list byte) (pick : nat) (ps : pools) : pres pobj :=
  let '(o, pool') := take (fresh_obj p) pick (pool_of p ps) in
  let ps' := set_pool p pool' ps in
  match decode_into (flat_tags (def_at p)) (odata o) input with
  | LOkv dat => POk (PObj p dat (oclosers o) (oskip o) input) ps'
  | LPanicv => PPanic
  | LErrv =>
      if oskip o then PErr ps'
      else match close_obj o ps' with Some ps'' => PErr ps'' | None => PPanic end
  end.

Definition res_of (o : pobj) : lres := {| rdef := def_at (opath o); rdata := odata o |}.

(* the bytes NestedResult decodes: the checks of NestedResult up to the nested decode *)
Definition nested_bytes (r : lres) (t : Z) : list byte + aerr :=
  if negb (has_nested r) then inr ENotDefined else
  match index_of (abs_tag t) (flat_tags (rdef r)) with
  | None => inr ENotDefined
  | Some i =>
      if negb (existsb (N.eqb (abs_tag t)) (nested_tags (rdef r))) then inr ENestingNotDefined else
      let fd := nth i (rdata r) fd_empty in
      match last_of (fdat fd) with
      | None => inr ENotFound
      | Some b => if negb (fwt fd =? 2) then inr EMismatch else inl b
      end
  end.
(* ... and the slices NestedResults decodes *)
Definition nested_slices (r : lres) (t : Z) : list (list byte) + aerr :=
  if negb (has_nested r) then inr ENotDefined else
  if negb (existsb (N.eqb (abs_tag t)) (nested_tags (rdef r))) then inr ENotDefined else
  match index_of (abs_tag t) (flat_tags (rdef r)) with
  | None => inr ENotDefined
  | Some i => match fdat (nth i (rdata r) fd_empty) with [] => inr ENotFound | ds => inl ds end
  end.

(* NestedResult(t) on an owned object: the new nested result is appended to its closers *)
Definition p_nested_result (o : pobj) (t : Z) (pick : nat) (ps : pools) : pres (pobj * (pobj + aerr)) :=
  match nested_bytes (res_of o) t with
  | inr e => POk (o, inr e) ps
  | inl b =>
      match p_decode (opath o ++ [abs_tag t]) b pick ps with
      | PPanic => PPanic
      | PErr ps' => POk (o, inr EOther) ps'
      | POk c ps' =>
          let c' := PObj (opath c) (odata c) (oclosers c) true (oghost c) in
          POk (PObj (opath o) (odata o) (oclosers o ++ [Some c']) (oskip o) (oghost o), inl c') ps'
      end
  end.

(* NestedResults(t): one nested result per recorded slice; an error midway returns without
   registering the ones already taken from the pool (they are simply dropped) *)
Fixpoint p_decode_all (p : list N) (bs : list (list byte)) (picks : list nat) (ps : pools) (acc : list pobj) : pres (list pobj) :=
  match bs with
  | [] => POk (rev acc) ps
  | b :: r =>
      match p_decode p b (hd O picks) ps with
      | PPanic => PPanic
      | PErr ps' => PErr ps'
      | POk c ps' => p_decode_all p r (tl picks) ps' (PObj (opath c) (odata c) (oclosers c) true (oghost c) :: acc)
      end
  end.
Definition p_nested_results (o : pobj) (t : Z) (picks : list nat) (ps : pools) : pres (pobj * (list pobj + aerr)) :=
  match nested_slices (res_of o) t with
  | inr e => POk (o, inr e) ps
  | inl bs =>
      match p_decode_all (opath o ++ [abs_tag t]) bs picks ps [] with
      | PPanic => PPanic
      | PErr ps' => POk (o, inr EOther) ps'
      | POk cs ps' => POk (PObj (opath o) (odata o) (oclosers o ++ map Some cs) (oskip o) (oghost o), inl cs) ps'
      end
  end.

(* FieldData(path...) on an owned object: every step but the last is a NestedResult whose result
   stays registered in its parent's closers.  Returns the updated object and the observation. *)
Fixpoint p_walk (o : pobj) (path : list Z) (picks : list nat) (ps : pools)
  (k : lres -> Z -> aout) : pres (pobj * aout) :=
  match path with
  | [] => POk (o, AErr EOther) ps
  | [t] => POk (o, k (res_of o) t) ps
  | t :: rest =>
      match p_nested_result o t (hd O picks) ps with
      | PPanic => PPanic
      | PErr ps' => PErr ps'
      | POk (o', inr e) ps' => POk (o', AErr e) ps'
      | POk (o', inl c) ps' =>
          match p_walk c rest (tl picks) ps' k with
          | PPanic => PPanic
          | PErr ps'' => PErr ps''
          | POk (c', out) ps'' =>
              (* the walked child replaces the one just appended (same pointer in Go) *)
              POk (PObj (opath o') (odata o') (removelast (oclosers o') ++ [Some c']) (oskip o') (oghost o'), out) ps''
          end
      end
  end.

Definition p_field (o : pobj) (path : list Z) (kd : akind) (slice : bool) (picks : list nat) (ps : pools) : pres (pobj * aout) :=
  let r := res_of o in
  if negb (has_tags r) && negb (has_nested r) then POk (o, AErr ENotDefined) ps
  else p_walk o path picks ps (fun r t => helper_access (Some r) t kd slice).

(* NestedResults(t) then helper(inner) on each result *)
Definition p_nested_obs (o : pobj) (t inner : Z) (kd : akind) (slice : bool) (picks : list nat) (ps : pools) : pres (pobj * nouts) :=
  match p_nested_results o t picks ps with
  | PPanic => PPanic
  | PErr ps' => PErr ps'
  | POk (o', inr e) ps' => POk (o', NErr e) ps'
  | POk (o', inl cs) ps' => POk (o', NList (map (fun c => helper_access (Some (res_of c)) inner kd slice) cs)) ps'
  end.

(* ---------- the state machine over named handles ---------- *)
Record pstate := { spools : pools; slive : list (nat * pobj) }.
Definition pinit : pstate := {| spools := []; slive := [] |}.
Fixpoint lookup (h : nat) (l : list (nat * pobj)) : option pobj :=
  match l with [] => None | (k, v) :: r => if Nat.eqb k h then Some v else lookup h r end.
Fixpoint remove (h : nat) (l : list (nat * pobj)) : list (nat * pobj) :=
  match l with [] => [] | (k, v) :: r => if Nat.eqb k h then r else (k, v) :: remove h r end.
Definition update (h : nat) (o : pobj) (l : list (nat * pobj)) := (h, o) :: remove h l.

Inductive pop :=
| PDecode (h : nat) (input : list byte) (pick : nat)          (* res, err := dec.Decode(input); handle h names res *)
| PField (h : nat) (path : list Z) (k : akind) (slice : bool) (picks : list nat)
| PNestedObs (h : nat) (t inner : Z) (k : akind) (slice : bool) (picks : list nat)
| PRange (h : nat)
| PClose (h : nat).

Inductive pobs := QNil | QErr | QOk | QOut (o : aout) | QNested (n : nouts) | QRange (l : list (N * bool)) | QMisuse.

(* misuse of the API (a handle name in use, or a handle that was closed / never decoded) is outside
   the property's precondition: it yields QMisuse and leaves the state unchanged *)
Definition pstep (s : pstate) (op : pop) : option (pobs * pstate) :=
  match op with
  | PDecode h input pick =>
      match lookup h (slive s) with
      | Some _ => Some (QMisuse, s)
      | None =>
        match input with
        | [] => Some (QNil, s)                                            (* (nil, nil) *)
        | _ =>
          match p_decode [] input pick (spools s) with
          | PPanic => None
          | PErr ps => Some (QErr, {| spools := ps; slive := slive s |})
          | POk o ps => Some (QOk, {| spools := ps; slive := (h, o) :: slive s |})
          end
        end
      end
  | PField h path k slice picks =>
      match lookup h (slive s) with
      | None => Some (QMisuse, s)
      | Some o =>
          match p_field o path k slice picks (spools s) with
          | PPanic => None
          | PErr ps => Some (QErr, {| spools := ps; slive := slive s |})
          | POk (o', out) ps => Some (QOut out, {| spools := ps; slive := update h o' (slive s) |})
          end
      end
  | PNestedObs h t inner k slice picks =>
      match lookup h (slive s) with
      | None => Some (QMisuse, s)
      | Some o =>
          match p_nested_obs o t inner k slice picks (spools s) with
          | PPanic => None
          | PErr ps => Some (QErr, {| spools := ps; slive := slive s |})
          | POk (o', out) ps => Some (QNested out, {| spools := ps; slive := update h o' (slive s) |})
          end
      end
  | PRange h =>
      match lookup h (slive s) with
      | None => Some (QMisuse, s)
      | Some o => Some (QRange (range_obs (res_of o)), s)
      end
  | PClose h =>
      match lookup h (slive s) with
      | None => Some (QMisuse, s)
      | Some o =>
          match close_obj o (spools s) with
          | None => None                                                  (* nil dereference *)
          | Some ps => Some (QOk, {| spools := ps; slive := remove h (slive s) |})
          end
      end
  end.

(* a history: None = some operation panicked *)
Fixpoint prun (s : pstate) (ops : list pop) : option (list pobs * pstate) :=
  match ops with
  | [] => Some ([], s)
  | op :: r =>
      match pstep s op with
      | None => None
      | Some (o, s') => match prun s' r with Some (os, s'') => Some (o :: os, s'') | None => None end
      end
  end.
End Machine.
