(* The decision logic of protoc-gen-fastmarshal that is not template text: option parsing (run.go), the
   order in which messages are visited (funcs.go allMessages: breadth first, map entries skipped) and
   the names of the output files (run.go nameTemplate).  Strings are lists of character codes.
   Definitions only. *)
From CsProto Require Import Prelude.
Local Open Scope N_scope.

Notation str := (list N) (only parsing).
Definition lower (c : N) : N := if (65 <=? c) && (c <=? 90) then c + 32 else c.
Definition s_pb_fm_go : list N := [46; 112; 98; 46; 102; 109; 46; 103; 111].      (* ".pb.fm.go" *)
Definition underscore : N := 95.

(* message definitions of a file: name and nested definitions (map entry types are not in the tree) *)
Inductive mnode := MNode (name : list N) (kids : list mnode).
Definition mname (m : mnode) := match m with MNode n _ => n end.
Definition mkids (m : mnode) := match m with MNode _ k => k end.

(* allMessages: queue := top-level messages; pop the head, emit it, push its nested definitions *)
Fixpoint bfs (fuel : nat) (queue : list mnode) : list (list N) :=
  match fuel with
  | O => []
  | S f => match queue with [] => [] | m :: q => mname m :: bfs f (q ++ mkids m) end
  end.
Fixpoint msize (m : mnode) : nat :=
  match m with MNode _ k => S ((fix go (l : list mnode) : nat := match l with [] => O | x :: r => (msize x + go r)%nat end) k) end.
Definition fsize (l : list mnode) : nat := fold_right (fun m a => (msize m + a)%nat) O l.
Definition all_messages (forest : list mnode) : list (list N) := bfs (S (fsize forest)) forest.

(* output file names: [prefix].pb.fm.go, or [prefix]_[lower(short name)].pb.fm.go per message *)
Definition out_names (prefix : list N) (per_message : bool) (forest : list mnode) : list (list N) :=
  if per_message then map (fun n => prefix ++ underscore :: map lower n ++ s_pb_fm_go) (all_messages forest)
  else [prefix ++ s_pb_fm_go].

(* ---------- options ---------- *)
Record gen_opts := { o_api_v2 : bool; o_per_message : bool; o_unsafe : bool; o_special : list (list N) }.
Definition default_opts : gen_opts := {| o_api_v2 := false; o_per_message := false; o_unsafe := false; o_special := [] |}.
Definition str_eqb (a b : list N) : bool := (length a =? length b)%nat && forallb (fun '(x, y) => x =? y) (combine a b).
(* strconv.ParseBool *)
Definition parse_bool (s : list N) : option bool :=
  if existsb (str_eqb s) [[49]; [116]; [84]; [84;82;85;69]; [116;114;117;101]; [84;114;117;101]] then Some true
  else if existsb (str_eqb s) [[48]; [102]; [70]; [70;65;76;83;69]; [102;97;108;115;101]; [70;97;108;115;101]] then Some false
  else None.
Inductive okey := KApi | KPerMsg | KUnsafe | KSpecial | KOtherKey.
(* one name=value parameter applied to the options; None = the plug-in rejects the request *)
Definition apply_opt (o : gen_opts) (k : okey) (v : list N) : option gen_opts :=
  match k with
  | KApi =>
      let l := map lower v in
      if str_eqb l [118; 49] then Some {| o_api_v2 := false; o_per_message := o_per_message o; o_unsafe := o_unsafe o; o_special := o_special o |}
      else if str_eqb l [118; 50] then Some {| o_api_v2 := true; o_per_message := o_per_message o; o_unsafe := o_unsafe o; o_special := o_special o |}
      else None
  | KPerMsg => match parse_bool v with
               | Some b => Some {| o_api_v2 := o_api_v2 o; o_per_message := b; o_unsafe := o_unsafe o; o_special := o_special o |}
               | None => None end
  | KUnsafe => match parse_bool v with
               | Some b => Some {| o_api_v2 := o_api_v2 o; o_per_message := o_per_message o; o_unsafe := b; o_special := o_special o |}
               | None => None end
  | KSpecial => Some {| o_api_v2 := o_api_v2 o; o_per_message := o_per_message o; o_unsafe := o_unsafe o; o_special := v :: o_special o |}
  | KOtherKey => None
  end.

(* ---------- reference enumeration: every definition of the tree, depth first ---------- *)
Fixpoint flatten (m : mnode) : list (list N) :=
  match m with MNode n k => n :: (fix go (l : list mnode) := match l with [] => [] | x :: r => flatten x ++ go r end) k end.
Definition flatten_forest (l : list mnode) : list (list N) := concat (map flatten l).
