(* cmd/protodump: dumpProto's recursive loop over the Decoder model, tag-path matching and parsing.
   Output is modelled as the list of records the program prints (one per field, in print order) plus
   whether it ended with an error (exit status 1); text formatting is parsed back by the harness. *)
From CsProto Require Import Prelude Varint ZigZag Codec RefWire WireStmts.
Local Open Scope N_scope.

Definition tagpath := list N.
Definition path_eqb (a b : tagpath) : bool :=
  (length a =? length b)%nat && forallb (fun '(x, y) => x =? y) (combine a b).
(* tagPath.Matches: non-empty, same length, element-wise equal *)
Definition path_matches (tp p : tagpath) : bool :=
  match tp with [] => false | _ => path_eqb tp p end.
(* tagPaths.Matches *)
Definition paths_match (tps : list tagpath) (p : tagpath) : bool := existsb (fun tp => path_matches tp p) tps.

Record dconf := { cexpand : list tagpath; cstrings : list tagpath }.

Inductive drec :=
| RecVarint (indent : nat) (tag : N) (v : Z)                 (* "varint: %d" of DecodeInt64 *)
| RecFixed32 (indent : nat) (tag : N) (v : Z)
| RecFixed64 (indent : nat) (tag : N) (v : Z)
| RecBytes (indent : nat) (tag : N) (b : list byte)          (* "length: n" + "[0x..,..]" *)
| RecString (indent : nat) (tag : N) (b : list byte)         (* "length: n" + "string: ..." *)
| RecHeader (indent : nat) (tag : N) (wt : N).               (* tag line printed, then the value failed *)

(* result: records printed so far, and how dumpProto ended: nil, an error (exit status 1), or a Go panic *)
Inductive dstatus := DumpOk | DumpErr | DumpPanic.
Definition status_of {A} (r : dres A) : dstatus := match r with DPanic => DumpPanic | _ => DumpErr end.

Fixpoint dump (fuel : nat) (conf : dconf) (indent : nat) (path : tagpath) (d : decoder) (steps : nat)
  : list drec * dstatus :=
  match fuel with
  | O => ([], DumpErr)
  | S f =>
    (fix loop (steps : nat) (d : decoder) : list drec * dstatus :=
      match steps with
      | O => ([], DumpErr)                          (* not reachable with steps > remaining bytes *)
      | S st =>
        if at_eof d then ([], DumpOk) else
        match dec_tag d with
        | DOk (tag, wt) d1 =>
            let here := path ++ [tag] in
            if wt =? 0 then
              match dec_scalar d1 KInt64 with
              | DOk v d2 => let '(rs, ok) := loop st d2 in (RecVarint indent tag v :: rs, ok)
              | r => ([RecHeader indent tag wt], status_of r)
              end
            else if wt =? 5 then
              match dec_scalar d1 KFixed32 with
              | DOk v d2 => let '(rs, ok) := loop st d2 in (RecFixed32 indent tag v :: rs, ok)
              | r => ([RecHeader indent tag wt], status_of r)
              end
            else if wt =? 1 then
              match dec_scalar d1 KFixed64 with
              | DOk v d2 => let '(rs, ok) := loop st d2 in (RecFixed64 indent tag v :: rs, ok)
              | r => ([RecHeader indent tag wt], status_of r)
              end
            else if wt =? 2 then
              match dec_bytes d1 with
              | DOk b d2 =>
                  if paths_match (cstrings conf) here then
                    let '(rs, ok) := loop st d2 in (RecString indent tag b :: rs, ok)
                  else if paths_match (cexpand conf) here then
                    let '(sub, subok) := dump f conf (S indent) here {| dbuf := b; doff := 0; dfast := false |} (S (length b)) in
                    match subok with
                    | DumpOk => let '(rs, ok) := loop st d2 in (RecBytes indent tag b :: sub ++ rs, ok)
                    | bad => (RecBytes indent tag b :: sub, bad)
                    end
                  else
                    let '(rs, ok) := loop st d2 in (RecBytes indent tag b :: rs, ok)
              | r => ([RecHeader indent tag wt], status_of r)
              end
            else (* unrecognized wire type: Skip (result ignored, but it must not panic), then error *)
              match dec_skip d1 (Z.of_N tag) (Z.of_N wt) with
              | DPanic => ([RecHeader indent tag wt], DumpPanic)
              | _ => ([RecHeader indent tag wt], DumpErr)
              end
        | r => ([], status_of r)
        end
      end) steps d
  end.

Definition protodump (conf : dconf) (input : list byte) : list drec * dstatus :=
  dump (S (length input)) conf 0 [] {| dbuf := input; doff := 0; dfast := false |} (S (length input)).

(* ---- -expand / -strings argument parsing (tagPaths.Set), on an already tokenised value:
   the harness splits on ',' and '.', this models Atoi + range check + empty-token handling ---- *)
Definition parse_path (tokens : list (option Z)) : option tagpath :=      (* None token = "" (skipped) *)
  fold_right (fun t acc =>
    match acc, t with
    | None, _ => None
    | Some p, None => Some p
    | Some p, Some z => if ((z <? 0) || (536870911 <? z))%Z then None else Some (Z.to_N z :: p)
    end) (Some []) tokens.

(* ---- the reference view: a message as a tree of fields ---- *)
Inductive rtree :=
| TLeaf (f : rfield)
| TNode (num : N) (children : list rtree).      (* a LEN field whose payload is itself a message *)
Fixpoint tenc (t : rtree) : list byte :=
  match t with
  | TLeaf f => renc f
  | TNode num ch => renc (RLen num (concat (map tenc ch)))
  end.
Definition tnum (t : rtree) : N := match t with TLeaf f => rnum f | TNode n _ => n end.

(* what protodump must print for a tree: one record per field in wire order with number, wire type and
   value as the reference sees them; children (indent+1) right after an expanded field *)
Definition sint64_of (v : N) : Z := if v <? 2^63 then Z.of_N v else (Z.of_N v - 2^64)%Z.
Fixpoint tdump (conf : dconf) (indent : nat) (path : tagpath) (t : rtree) : list drec :=
  let here := path ++ [tnum t] in
  match t with
  | TLeaf (RVarint n v) => [RecVarint indent n (sint64_of v)]
  | TLeaf (RFixed32 n b) => [RecFixed32 indent n (Z.of_N (le_val b))]
  | TLeaf (RFixed64 n b) => [RecFixed64 indent n (Z.of_N (le_val b))]
  | TLeaf (RLen n b) => if paths_match (cstrings conf) here then [RecString indent n b] else [RecBytes indent n b]
  | TNode n ch =>
      RecBytes indent n (concat (map tenc ch))
      :: concat (map (tdump conf (S indent) here) ch)
  end.

(* the tree is laid out the way the options request: exactly the TNode positions are expanded *)
Fixpoint layout_ok (conf : dconf) (path : tagpath) (t : rtree) : Prop :=
  let here := path ++ [tnum t] in
  match t with
  | TLeaf (RLen _ _) => paths_match (cstrings conf) here = true \/ paths_match (cexpand conf) here = false
  | TLeaf f => True
  | TNode _ ch =>
      paths_match (cstrings conf) here = false /\ paths_match (cexpand conf) here = true /\
      (fix all (l : list rtree) : Prop := match l with [] => True | c :: r => layout_ok conf here c /\ all r end) ch
  end.
Fixpoint tree_wf (t : rtree) : Prop :=
  match t with
  | TLeaf f => rfield_wf f /\ match f with RFixed32 _ b | RFixed64 _ b => bytes_ok b | _ => True end
  | TNode num ch =>
      1 <= num <= 536870911 /\ N.of_nat (length (concat (map tenc ch))) <= 2147483647 /\
      (fix all (l : list rtree) : Prop := match l with [] => True | c :: r => tree_wf c /\ all r end) ch
  end.
