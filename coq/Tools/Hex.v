From Coq Require Import List Arith NArith Lia Bool.
From Coq Require Import ZifyN ZifyNat ZifyBool.
Import ListNotations.
Local Open Scope N_scope.

(* prototest.ParseAnnotatedHex over code points *)
Definition rune := N.
Definition byte := N.
Definition NL : rune := 10.  Definition SEMI : rune := 59.

(* unicode.IsSpace *)
Definition is_space (c : rune) : bool :=
  ((9 <=? c) && (c <=? 13)) || (c =? 32) || (c =? 133) || (c =? 160) || (c =? 5760)
  || ((8192 <=? c) && (c <=? 8202)) || (c =? 8232) || (c =? 8233) || (c =? 8239) || (c =? 8287) || (c =? 12288).

Definition hexval (c : rune) : option N :=
  if (48 <=? c) && (c <=? 57) then Some (c - 48)
  else if (97 <=? c) && (c <=? 102) then Some (c - 87)
  else if (65 <=? c) && (c <=? 70) then Some (c - 55)
  else None.

(* strings.Split(x, "\n"); cur is the current line, reversed *)
Fixpoint split_nl (s : list rune) (cur : list rune) : list (list rune) :=
  match s with
  | [] => [rev cur]
  | c :: t => if c =? NL then rev cur :: split_nl t [] else split_nl t (c :: cur)
  end.
(* s[:strings.Index(s, ";")] *)
Fixpoint cut_comment (l : list rune) : list rune :=
  match l with [] => [] | c :: t => if c =? SEMI then [] else c :: cut_comment t end.
(* strings.Map dropping unicode.IsSpace *)
Definition strip (l : list rune) : list rune := filter (fun c => negb (is_space c)) l.
(* hex.DecodeString *)
Fixpoint hexdec (l : list rune) : option (list byte) :=
  match l with
  | [] => Some []
  | a :: t =>
    match t with
    | [] => None
    | b :: t' =>
      match hexval a, hexval b, hexdec t' with
      | Some x, Some y, Some r => Some (16 * x + y :: r)
      | _, _, _ => None
      end
    end
  end.
Fixpoint parse_lines (ls : list (list rune)) : option (list byte) :=
  match ls with
  | [] => Some []
  | l :: t =>
    match hexdec (strip (cut_comment l)) with     (* the `if s == "" { continue }` case is hexdec [] = Some [] *)
    | None => None
    | Some a => match parse_lines t with Some b => Some (a ++ b) | None => None end
    end
  end.
Definition parse (x : list rune) : option (list byte) := parse_lines (split_nl x []).

(* ---------- every documented layout, as a token grammar ---------- *)
Inductive tok :=
| TByte (hi lo : rune) (gap : list rune)   (* two hex digits, only non-newline white space between them *)
| TSpace (c : rune)                         (* any white space, including a line break *)
| TComment (text : list rune).              (* ';' text '\n' *)
Definition hv c := match hexval c with Some x => x | None => 0 end.
Definition tok_ok (t : tok) : Prop :=
  match t with
  | TByte hi lo gap => hexval hi <> None /\ hexval lo <> None /\ Forall (fun c => is_space c = true /\ c <> NL) gap
  | TSpace c => is_space c = true
  | TComment text => Forall (fun c => c <> NL) text
  end.
Definition render (t : tok) : list rune :=
  match t with
  | TByte hi lo gap => hi :: gap ++ [lo]
  | TSpace c => [c]
  | TComment text => SEMI :: text ++ [NL]
  end.
Definition value (t : tok) : list byte :=
  match t with TByte hi lo _ => [16 * hv hi + hv lo] | _ => [] end.

(* ---------- character facts ---------- *)
Lemma hex_not_special c : hexval c <> None -> is_space c = false /\ c <> NL /\ c <> SEMI.
Proof.
  unfold hexval, is_space, NL, SEMI. intros H.
  destruct ((48 <=? c) && (c <=? 57)) eqn:E1; [repeat split; lia|].
  destruct ((97 <=? c) && (c <=? 102)) eqn:E2; [repeat split; lia|].
  destruct ((65 <=? c) && (c <=? 70)) eqn:E3; [repeat split; lia|]. contradiction.
Qed.
Lemma space_not_semi c : is_space c = true -> c <> SEMI.
Proof. unfold is_space, SEMI. lia. Qed.

(* ---------- list plumbing ---------- *)
Lemma split_nl_app x s cur : Forall (fun c => c <> NL) x -> split_nl (x ++ s) cur = split_nl s (rev x ++ cur).
Proof.
  revert cur; induction x as [|c x IH]; intros cur H; [reflexivity|].
  inversion H; subst. cbn [app split_nl]. destruct (N.eqb_spec c NL); [contradiction|].
  rewrite IH by assumption. cbn [rev]. rewrite <- app_assoc. reflexivity.
Qed.
Lemma cut_comment_app p q : Forall (fun c => c <> SEMI) p -> cut_comment (p ++ q) = p ++ cut_comment q.
Proof.
  induction p as [|c p IH]; intros H; [reflexivity|]. inversion H; subst.
  cbn [app cut_comment]. destruct (N.eqb_spec c SEMI); [contradiction|]. rewrite IH by assumption. reflexivity.
Qed.
Lemma cut_comment_none p : Forall (fun c => c <> SEMI) p -> cut_comment p = p.
Proof. intros H. rewrite <- (app_nil_r p) at 1. rewrite cut_comment_app by exact H. cbn. apply app_nil_r. Qed.
Lemma strip_app a b : strip (a ++ b) = strip a ++ strip b.
Proof. apply filter_app. Qed.
Lemma strip_spaces g : Forall (fun c => is_space c = true) g -> strip g = [].
Proof. induction 1 as [|c g Hc _ IH]; [reflexivity|]. cbn [strip filter]. rewrite Hc. exact IH. Qed.
Lemma hexdec_app : forall a b ra, hexdec a = Some ra ->
  hexdec (a ++ b) = match hexdec b with Some rb => Some (ra ++ rb) | None => None end.
Proof.
  fix IH 1. intros a b ra H. destruct a as [|x a]; cbn [hexdec app] in *.
  - injection H as <-. destruct (hexdec b); reflexivity.
  - destruct a as [|y a]; [discriminate|]. cbn [app].
    destruct (hexval x); [|discriminate]. destruct (hexval y); [|discriminate].
    destruct (hexdec a) as [r|] eqn:E; [|discriminate]. injection H as <-.
    rewrite (IH a b r E). destruct (hexdec b); reflexivity.
Qed.

(* ---------- the layout theorem ---------- *)
(* p: the part of the current line already consumed (contains no ';'), worth the bytes bs0 *)
Lemma parse_tokens : forall ts p bs0,
  Forall tok_ok ts -> Forall (fun c => c <> SEMI) p -> hexdec (strip p) = Some bs0 ->
  parse_lines (split_nl (concat (map render ts)) (rev p)) = Some (bs0 ++ concat (map value ts)).
Proof.
  induction ts as [|t ts IH]; intros p bs0 Hok Hp Hd.
  - cbn [map concat split_nl parse_lines]. rewrite rev_involutive, cut_comment_none, Hd, app_nil_r by exact Hp.
    reflexivity.
  - inversion Hok as [|? ? Ht Hts]; subst. cbn [map concat].
    (* ending the current line (worth bs0) and restarting with an empty prefix *)
    assert (Hline : forall line, cut_comment line = p ->
      parse_lines (line :: split_nl (concat (map render ts)) []) = Some (bs0 ++ concat (map value ts))).
    { intros line Hcut. cbn [parse_lines]. rewrite Hcut, Hd.
      change (@nil rune) with (rev (@nil rune)).
      rewrite (IH [] [] Hts (Forall_nil _) eq_refl). reflexivity. }
    destruct t as [hi lo gap|c|text]; cbn [render value tok_ok] in *.
    + destruct Ht as (Hhi & Hlo & Hgap).
      destruct (hex_not_special hi Hhi) as (Hs1 & Hn1 & Hc1).
      destruct (hex_not_special lo Hlo) as (Hs2 & Hn2 & Hc2).
      assert (Hnonl : Forall (fun c => c <> NL) (hi :: gap ++ [lo])).
      { constructor; [exact Hn1|]. apply Forall_app; split; [|constructor; [exact Hn2|constructor]].
        eapply Forall_impl; [|exact Hgap]. cbn. intros a [_ H]; exact H. }
      assert (Hnosemi : Forall (fun c => c <> SEMI) (hi :: gap ++ [lo])).
      { constructor; [exact Hc1|]. apply Forall_app; split; [|constructor; [exact Hc2|constructor]].
        eapply Forall_impl; [|exact Hgap]. cbn. intros a [H _]. apply space_not_semi; exact H. }
      rewrite split_nl_app by exact Hnonl. rewrite <- rev_app_distr.
      rewrite (IH (p ++ hi :: gap ++ [lo]) (bs0 ++ [16 * hv hi + hv lo]) Hts).
      * rewrite <- app_assoc. reflexivity.
      * apply Forall_app; split; assumption.
      * rewrite strip_app, (hexdec_app _ _ bs0 Hd).
        change (hi :: gap ++ [lo]) with ([hi] ++ gap ++ [lo]). rewrite !strip_app.
        rewrite (strip_spaces gap) by (eapply Forall_impl; [|exact Hgap]; cbn; intros a [H _]; exact H).
        cbn [strip filter app]. rewrite Hs1, Hs2. cbn [negb app hexdec]. unfold hv.
        destruct (hexval hi); [|contradiction]. destruct (hexval lo); [|contradiction]. reflexivity.
    + destruct (N.eqb_spec c NL) as [->|Hne].
      * cbn [app split_nl]. change (NL =? NL) with true. cbv iota.
        apply Hline. rewrite rev_involutive. apply cut_comment_none; exact Hp.
      * change ([c] ++ concat (map render ts)) with ([c] ++ concat (map render ts)).
        rewrite (split_nl_app [c]) by (constructor; [exact Hne|constructor]). rewrite <- rev_app_distr.
        rewrite (IH (p ++ [c]) bs0 Hts).
        -- rewrite app_nil_l. reflexivity.
        -- apply Forall_app; split; [exact Hp|constructor; [apply space_not_semi; exact Ht|constructor]].
        -- rewrite strip_app. cbn [strip filter]. rewrite Ht. cbn [negb]. rewrite app_nil_r. exact Hd.
    + replace ((SEMI :: text ++ [NL]) ++ concat (map render ts))
        with ((SEMI :: text) ++ NL :: concat (map render ts))
        by (cbn [app]; rewrite <- app_assoc; reflexivity).
      rewrite split_nl_app.
      2:{ constructor; [unfold SEMI, NL; lia|exact Ht]. }
      cbn [split_nl]. change (NL =? NL) with true. cbv iota.
      rewrite app_nil_l. apply Hline.
      rewrite rev_app_distr, !rev_involutive.
      rewrite cut_comment_app by exact Hp. cbn [cut_comment]. change (SEMI =? SEMI) with true. cbv iota.
      apply app_nil_r.
Qed.

(* C20, first half: whatever the placement of white space, line breaks and ';' comments, the parser returns
   exactly the bytes denoted by the hex digits outside comments; a last comment may lack its line break *)
Theorem parse_render ts : Forall tok_ok ts -> parse (concat (map render ts)) = Some (concat (map value ts)).
Proof. intros H. unfold parse. change (@nil rune) with (rev (@nil rune)). apply (parse_tokens ts [] [] H (Forall_nil _) eq_refl). Qed.

Example hex_example :
  parse [48;56; 32; 59;32;116;97;103; 10; 32;32; 54;52; 9; 59; 120; 10; 65;50;32;48;54]%N = Some [8; 100; 162; 6]%N.
Proof. vm_compute. reflexivity. Qed.
Print Assumptions parse_render.

(* ---------- an independent reading of the format: one pass with an "inside a comment" flag ---------- *)
(* the characters that count: outside comments, not white space; line structure kept (a byte's two
   digits must be on one line) *)
Fixpoint sig_lines (s : list rune) (in_comment : bool) (cur : list rune) : list (list rune) :=
  match s with
  | [] => [rev cur]
  | c :: t =>
    if c =? NL then rev cur :: sig_lines t false []
    else if in_comment then sig_lines t true cur
    else if c =? SEMI then sig_lines t true cur
    else if is_space c then sig_lines t false cur
    else sig_lines t false (c :: cur)
  end.
Definition is_hex (c : rune) : bool := match hexval c with Some _ => true | None => false end.
(* value of a line of significant characters: pairs of hex digits *)
Fixpoint pairs_value (l : list rune) : list byte :=
  match l with
  | a :: b :: t => (16 * hv a + hv b) :: pairs_value t
  | _ => []
  end.
Definition line_ok (l : list rune) : bool := forallb is_hex l && Nat.even (length l).
