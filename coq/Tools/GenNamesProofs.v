(* Proofs about the generator's decision logic (Tools/GenNames.v): the breadth-first walk visits every
   message definition exactly once, and the per-message output names. *)
From CsProto Require Import Prelude GenNames.
From Coq Require Import Permutation.
Local Open Scope N_scope.

(* ---------- unfolding the nested fixpoints ---------- *)
Lemma flatten_eq : forall m, flatten m = mname m :: flatten_forest (mkids m).
Proof.
  intros [n k]. cbn [flatten mname mkids]. f_equal. unfold flatten_forest.
  induction k as [|x r IH]; [reflexivity|]. cbn [map concat]. rewrite <- IH. reflexivity.
Qed.

Lemma msize_eq : forall m, msize m = S (fsize (mkids m)).
Proof.
  intros [n k]. reflexivity.   (* the local fix of [msize] is convertible with [fold_right] *)
Qed.

Lemma fsize_app : forall a b, fsize (a ++ b) = (fsize a + fsize b)%nat.
Proof.
  intros a b. unfold fsize. induction a as [|x r IH]; [reflexivity|].
  cbn [app fold_right]. rewrite IH. lia.
Qed.

Lemma fsize_cons : forall m q, fsize (m :: q) = (msize m + fsize q)%nat.
Proof. reflexivity. Qed.

Lemma flatten_forest_cons : forall m q,
  flatten_forest (m :: q) = mname m :: flatten_forest (mkids m) ++ flatten_forest q.
Proof. intros m q. unfold flatten_forest at 1. cbn [map concat]. rewrite flatten_eq. reflexivity. Qed.

Lemma flatten_forest_app : forall a b, flatten_forest (a ++ b) = flatten_forest a ++ flatten_forest b.
Proof. intros a b. unfold flatten_forest. rewrite map_app, concat_app. reflexivity. Qed.

(* ---------- the walk ---------- *)
Lemma bfs_perm : forall fuel queue, (fsize queue < fuel)%nat ->
  Permutation (bfs fuel queue) (flatten_forest queue).
Proof.
  induction fuel as [|f IH]; intros queue Hlt; [lia|].
  destruct queue as [|m q]; [apply perm_nil|].
  cbn [bfs]. rewrite flatten_forest_cons. apply perm_skip.
  rewrite fsize_cons, msize_eq in Hlt.
  eapply Permutation_trans.
  - apply IH. rewrite fsize_app. lia.
  - rewrite flatten_forest_app. apply Permutation_app_comm.
Qed.

Lemma every_message_once : forall forest, Permutation (all_messages forest) (flatten_forest forest).
Proof. intros forest. unfold all_messages. apply bfs_perm. lia. Qed.

(* ---------- output names ---------- *)
Lemma NoDup_map_iff_rel {A B C : Type} (f : A -> B) (g : A -> C) :
  (forall x y, f x = f y <-> g x = g y) ->
  forall l, NoDup (map f l) <-> NoDup (map g l).
Proof.
  intros Hfg. induction l as [|a l IH]; cbn [map].
  - split; intros _; constructor.
  - split; intros H; inversion H as [|? ? Hnin Hnd]; subst; constructor.
    + intros Hin. apply Hnin. apply in_map_iff in Hin. destruct Hin as [y [Hy Hin]].
      apply in_map_iff. exists y. split; [apply Hfg; exact Hy | exact Hin].
    + apply IH. exact Hnd.
    + intros Hin. apply Hnin. apply in_map_iff in Hin. destruct Hin as [y [Hy Hin]].
      apply in_map_iff. exists y. split; [apply Hfg; exact Hy | exact Hin].
    + apply IH. exact Hnd.
Qed.

Lemma name_inj : forall (prefix n1 n2 : list N),
  prefix ++ underscore :: map lower n1 ++ s_pb_fm_go = prefix ++ underscore :: map lower n2 ++ s_pb_fm_go
  <-> map lower n1 = map lower n2.
Proof.
  intros prefix n1 n2. split; intros H.
  - apply app_inv_head in H. injection H as H. apply app_inv_tail in H. exact H.
  - rewrite H. reflexivity.
Qed.

Lemma per_message_names_distinct_iff : forall prefix forest,
  NoDup (out_names prefix true forest) <-> NoDup (map (map lower) (all_messages forest)).
Proof.
  intros prefix forest. unfold out_names.
  apply (NoDup_map_iff_rel (fun n => prefix ++ underscore :: map lower n ++ s_pb_fm_go) (map lower)).
  intros x y. apply name_inj.
Qed.

Lemma per_message_one_file_each : forall prefix forest,
  length (out_names prefix true forest) = length (flatten_forest forest).
Proof.
  intros prefix forest. unfold out_names. rewrite map_length.
  apply Permutation_length. apply every_message_once.
Qed.
