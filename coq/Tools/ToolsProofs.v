(* C20 proofs: the annotated-hex parser accepts exactly the documented texts; protodump prints what
   the reference sees on well-formed trees and never panics on anything else. *)
From CsProto Require Import Prelude Varint VarintProof VarintSize ZigZag Codec RefWire WireStmts.
From CsProto Require Import CodecBase SafeProofs Hex Dump.
Local Open Scope N_scope.

(* ------------------------------------------------------------------------------------------ *)
(* 1. tag paths *)
Lemma path_eqb_eq : forall a b : tagpath, path_eqb a b = true <-> a = b.
Proof.
  unfold path_eqb. induction a as [|x a IH]; intros [|y b]; cbn [length combine forallb Nat.eqb andb].
  - split; reflexivity.
  - split; intros H; discriminate H.
  - split; intros H; discriminate H.
  - split.
    + intros H. apply andb_prop in H. destruct H as [Hl H]. apply andb_prop in H. destruct H as [Hx Hf].
      apply N.eqb_eq in Hx. subst y. f_equal. apply IH. rewrite Hl, Hf. reflexivity.
    + intros H. inversion H as [[Hx Hab]]. subst b.
      destruct (IH a) as [_ H2]. specialize (H2 eq_refl). apply andb_prop in H2. destruct H2 as [H2a H2b].
      rewrite H2a, H2b, N.eqb_refl. reflexivity.
Qed.

Lemma path_matches_iff tp p : path_matches tp p = true <-> (p <> [] /\ tp = p).
Proof.
  destruct tp as [|x tp].
  - cbn [path_matches]. split; [intros H; discriminate H|].
    intros [H1 H2]. exfalso. apply H1. symmetry. exact H2.
  - unfold path_matches. rewrite path_eqb_eq. split.
    + intros <-. split; [intros H; discriminate H|reflexivity].
    + intros [_ H]. exact H.
Qed.

Theorem match_exact : forall tps p, paths_match tps p = true <-> (p <> [] /\ In p tps).
Proof.
  intros tps p. unfold paths_match. rewrite existsb_exists. split.
  - intros (tp & Hin & Hm). apply path_matches_iff in Hm. destruct Hm as [Hne Heq]. subst tp. split; assumption.
  - intros [Hne Hin]. exists p. split; [exact Hin|]. apply path_matches_iff. split; [exact Hne|reflexivity].
Qed.

(* ------------------------------------------------------------------------------------------ *)
(* 2. annotated hex: the line-by-line parser against the one-pass reading *)
Definition isS (c : N) : bool := c =? SEMI.
Definition gline (l : list N) : list N := strip (cut_comment l).

Lemma cut_has l x : existsb isS l = true -> cut_comment (l ++ x) = cut_comment l.
Proof.
  induction l as [|a l IH]; cbn [existsb app cut_comment]; intros H; [discriminate H|].
  unfold isS in H at 1. destruct (a =? SEMI); [reflexivity|]. cbn [orb] in H. rewrite IH by exact H. reflexivity.
Qed.
Lemma cut_no l x : existsb isS l = false -> cut_comment (l ++ x) = l ++ cut_comment x.
Proof.
  induction l as [|a l IH]; cbn [existsb app cut_comment]; intros H; [reflexivity|].
  unfold isS in H at 1. destruct (a =? SEMI); [discriminate H|]. cbn [orb] in H. rewrite IH by exact H. reflexivity.
Qed.
Lemma cut_no0 l : existsb isS l = false -> cut_comment l = l.
Proof.
  intros H. rewrite <- (app_nil_r l) at 1. rewrite cut_no by exact H. cbn [cut_comment]. apply app_nil_r.
Qed.

(* curS: the current line so far, reversed; the one-pass state is determined by it *)
Lemma split_sig : forall s curS,
  map gline (split_nl s curS) = sig_lines s (existsb isS (rev curS)) (rev (gline (rev curS))).
Proof.
  induction s as [|a s IH]; intros curS; cbn [split_nl sig_lines map].
  - rewrite rev_involutive. reflexivity.
  - destruct (a =? NL) eqn:En.
    + cbn [map]. rewrite rev_involutive. f_equal. rewrite IH. reflexivity.
    + rewrite IH. cbn [rev]. rewrite existsb_app. cbn [existsb]. rewrite orb_false_r.
      unfold rune in *.
      destruct (existsb isS (rev curS)) eqn:Ec; cbn [orb].
      * f_equal. f_equal. unfold gline. rewrite cut_has by exact Ec. reflexivity.
      * unfold gline. rewrite cut_no by exact Ec. rewrite (cut_no0 (rev curS)) by exact Ec.
        cbn [cut_comment]. unfold isS. destruct (a =? SEMI).
        -- rewrite app_nil_r. reflexivity.
        -- rewrite strip_app. cbn [strip filter]. destruct (is_space a); cbn [negb].
           ++ rewrite app_nil_r. reflexivity.
           ++ rewrite rev_app_distr. reflexivity.
Qed.

Lemma hexdec_line_ok : forall l, hexdec l = if line_ok l then Some (pairs_value l) else None.
Proof.
  fix IH 1. intros l. destruct l as [|a t]; [reflexivity|].
  destruct t as [|b t'].
  - unfold line_ok. cbn [hexdec forallb length Nat.even]. rewrite andb_false_r. reflexivity.
  - cbn [hexdec]. rewrite (IH t'). unfold line_ok. cbn [forallb length Nat.even pairs_value].
    change (is_hex a) with (match hexval a with Some _ => true | None => false end).
    change (is_hex b) with (match hexval b with Some _ => true | None => false end). unfold hv.
    destruct (hexval a) as [x|]; cbn [andb]; [|reflexivity].
    destruct (hexval b) as [y|]; cbn [andb]; [|reflexivity].
    destruct (forallb is_hex t' && Nat.even (length t')); reflexivity.
Qed.

Lemma parse_lines_sig ls :
  parse_lines ls = if forallb line_ok (map gline ls)
                   then Some (concat (map pairs_value (map gline ls))) else None.
Proof.
  induction ls as [|l ls IH]; cbn [parse_lines map forallb concat]; [reflexivity|].
  fold (gline l). rewrite hexdec_line_ok, IH.
  destruct (line_ok (gline l)); cbn [andb]; [|reflexivity].
  destruct (forallb line_ok (map gline ls)); reflexivity.
Qed.

Theorem parse_exact : forall s,
  parse s = if forallb line_ok (sig_lines s false [])
            then Some (concat (map pairs_value (sig_lines s false []))) else None.
Proof. intros s. unfold parse. rewrite parse_lines_sig, split_sig. reflexivity. Qed.

Theorem parse_rejects : forall s,
  existsb (fun l => negb (forallb is_hex l)) (sig_lines s false []) = true -> parse s = None.
Proof.
  intros s H. rewrite parse_exact.
  destruct (forallb line_ok (sig_lines s false [])) eqn:E; [|reflexivity]. exfalso.
  apply existsb_exists in H. destruct H as (l & Hin & Hl).
  rewrite forallb_forall in E. specialize (E l Hin). unfold line_ok in E.
  apply andb_prop in E. destruct E as [E _]. rewrite E in Hl. discriminate Hl.
Qed.

(* ------------------------------------------------------------------------------------------ *)
(* 3. protodump: one iteration of dumpProto's loop, with the rest of the loop and the recursive
      call abstracted *)
Definition dump_step (conf : dconf) (indent : nat) (path : tagpath)
    (loop : decoder -> list drec * dstatus) (sub : tagpath -> list N -> list drec * dstatus)
    (d : decoder) : list drec * dstatus :=
  if at_eof d then ([], DumpOk) else
  match dec_tag d with
  | DOk (tag, wt) d1 =>
      let here := path ++ [tag] in
      if wt =? 0 then
        match dec_scalar d1 KInt64 with
        | DOk v d2 => let '(rs, ok) := loop d2 in (RecVarint indent tag v :: rs, ok)
        | r => ([RecHeader indent tag wt], status_of r)
        end
      else if wt =? 5 then
        match dec_scalar d1 KFixed32 with
        | DOk v d2 => let '(rs, ok) := loop d2 in (RecFixed32 indent tag v :: rs, ok)
        | r => ([RecHeader indent tag wt], status_of r)
        end
      else if wt =? 1 then
        match dec_scalar d1 KFixed64 with
        | DOk v d2 => let '(rs, ok) := loop d2 in (RecFixed64 indent tag v :: rs, ok)
        | r => ([RecHeader indent tag wt], status_of r)
        end
      else if wt =? 2 then
        match dec_bytes d1 with
        | DOk b d2 =>
            if paths_match (cstrings conf) here then
              let '(rs, ok) := loop d2 in (RecString indent tag b :: rs, ok)
            else if paths_match (cexpand conf) here then
              let '(sub, subok) := sub here b in
              match subok with
              | DumpOk => let '(rs, ok) := loop d2 in (RecBytes indent tag b :: sub ++ rs, ok)
              | bad => (RecBytes indent tag b :: sub, bad)
              end
            else
              let '(rs, ok) := loop d2 in (RecBytes indent tag b :: rs, ok)
        | r => ([RecHeader indent tag wt], status_of r)
        end
      else
        match dec_skip d1 (Z.of_N tag) (Z.of_N wt) with
        | DPanic => ([RecHeader indent tag wt], DumpPanic)
        | _ => ([RecHeader indent tag wt], DumpErr)
        end
  | r => ([], status_of r)
  end.

Lemma dump_S f conf indent path d st :
  dump (S f) conf indent path d (S st)
  = dump_step conf indent path (fun d2 => dump (S f) conf indent path d2 st)
      (fun here b => dump f conf (S indent) here {| dbuf := b; doff := 0; dfast := false |} (S (length b))) d.
Proof. reflexivity. Qed.
Lemma dump_S0 f conf indent path d : dump (S f) conf indent path d 0 = ([], DumpErr).
Proof. reflexivity. Qed.
Lemma dump_0 conf indent path d st : dump 0 conf indent path d st = ([], DumpErr).
Proof. reflexivity. Qed.

Lemma cont_np (loop : decoder -> list drec * dstatus) d2 (f : list drec -> list drec) :
  snd (loop d2) <> DumpPanic -> snd (let '(rs, ok) := loop d2 in (f rs, ok)) <> DumpPanic.
Proof. destruct (loop d2) as [rs ok]. cbn [snd]. exact (fun H => H). Qed.

Lemma scalar_np d1 k : Inv d1 ->
  match dec_scalar d1 k with DOk _ d2 => Inv d2 | DErr _ => True | DPanic => False end.
Proof.
  intros HI. pose proof (dec_scalar_spec d1 k HI) as Hs.
  destruct (dec_scalar d1 k) as [z d2|d2|]; [|exact I|exact Hs].
  destruct Hs as (m & Hd & Hm & _). subst d2. destruct (safe_dadv d1 m HI ltac:(lia)) as [HI2 _]. exact HI2.
Qed.

Lemma dump_step_np conf indent path loop sub d :
  Inv d -> (forall d2, Inv d2 -> snd (loop d2) <> DumpPanic) -> (forall here b, snd (sub here b) <> DumpPanic) ->
  snd (dump_step conf indent path loop sub d) <> DumpPanic.
Proof.
  intros HI Hloop Hsub. unfold dump_step. destruct (at_eof d); [cbn [snd]; intros H; discriminate H|].
  pose proof (dec_tag_spec d HI) as Ht.
  destruct (dec_tag d) as [[tag wt] d1|d1|]; [|cbn [snd status_of]; intros H; discriminate H|contradiction].
  destruct Ht as (v & n & Ev & Hd1). subst d1.
  pose proof (dec_varint_len _ _ _ Ev) as Hn. rewrite skipn_length in Hn.
  destruct (safe_dadv d n HI ltac:(lia)) as [HI1 _]. cbv zeta.
  destruct (wt =? 0).
  { pose proof (scalar_np (dadv d n) KInt64 HI1) as Hs.
    destruct (dec_scalar (dadv d n) KInt64) as [z d2|d2|]; [|cbn [snd status_of]; intros H; discriminate H|contradiction].
    apply cont_np with (f := fun rs => RecVarint indent tag z :: rs). apply Hloop. exact Hs. }
  destruct (wt =? 5).
  { pose proof (scalar_np (dadv d n) KFixed32 HI1) as Hs.
    destruct (dec_scalar (dadv d n) KFixed32) as [z d2|d2|]; [|cbn [snd status_of]; intros H; discriminate H|contradiction].
    apply cont_np with (f := fun rs => RecFixed32 indent tag z :: rs). apply Hloop. exact Hs. }
  destruct (wt =? 1).
  { pose proof (scalar_np (dadv d n) KFixed64 HI1) as Hs.
    destruct (dec_scalar (dadv d n) KFixed64) as [z d2|d2|]; [|cbn [snd status_of]; intros H; discriminate H|contradiction].
    apply cont_np with (f := fun rs => RecFixed64 indent tag z :: rs). apply Hloop. exact Hs. }
  destruct (wt =? 2).
  { pose proof (dec_bytes_spec (dadv d n) HI1) as Hs.
    destruct (dec_bytes (dadv d n)) as [b d2|d2|]; [|cbn [snd status_of]; intros H; discriminate H|contradiction].
    destruct Hs as (l & m & [Hv Hroom] & Hd2).
    assert (HI2 : Inv d2).
    { subst d2. pose proof (dec_varint_len _ _ _ Hv) as Hm. rewrite skipn_length in Hm.
      unfold Inv, dadv in *. cbn [dbuf doff] in *. lia. }
    destruct (paths_match (cstrings conf) (path ++ [tag])).
    { apply cont_np with (f := fun rs => RecString indent tag b :: rs). apply Hloop. exact HI2. }
    destruct (paths_match (cexpand conf) (path ++ [tag])).
    { pose proof (Hsub (path ++ [tag]) b) as Hsb. destruct (sub (path ++ [tag]) b) as [sb sok]. cbn [snd] in Hsb.
      destruct sok.
      - apply cont_np with (f := fun rs => RecBytes indent tag b :: sb ++ rs). apply Hloop. exact HI2.
      - cbn [snd]. intros H; discriminate H.
      - contradiction. }
    apply cont_np with (f := fun rs => RecBytes indent tag b :: rs). apply Hloop. exact HI2. }
  pose proof (dec_skip_spec (dadv d n) (Z.of_N tag) (Z.of_N wt) HI1) as Hs.
  destruct (dec_skip (dadv d n) (Z.of_N tag) (Z.of_N wt)) as [raw d2|d2|]; cbn [snd];
    [intros H; discriminate H|intros H; discriminate H|]. exact (fun _ => Hs).
Qed.

Lemma dump_np : forall fuel conf indent path steps d,
  Inv d -> snd (dump fuel conf indent path d steps) <> DumpPanic.
Proof.
  induction fuel as [|f IHf]; intros conf indent path steps.
  - intros d _. rewrite dump_0. cbn [snd]. intros H; discriminate H.
  - induction steps as [|st IHst]; intros d HI.
    + rewrite dump_S0. cbn [snd]. intros H; discriminate H.
    + rewrite dump_S. apply dump_step_np; [exact HI|exact IHst|].
      intros here b. apply IHf. unfold Inv. cbn [dbuf doff]. lia.
Qed.

Theorem dump_no_panic : forall conf input, snd (protodump conf input) <> DumpPanic.
Proof. intros conf input. unfold protodump. apply dump_np. unfold Inv. cbn [dbuf doff]. lia. Qed.

(* ------------------------------------------------------------------------------------------ *)
(* 4. protodump on the reference encoding of a tree *)
Lemma mk_eq B o1 o2 fast : o1 = o2 -> mk B o1 fast = mk B o2 fast.
Proof. intros ->. reflexivity. Qed.

Lemma dv_ref v rest : v < 2^64 -> dec_varint (ref_varint v ++ rest) = inl (v, length (ref_varint v)).
Proof. intros H. rewrite <- varint_canonical by exact H. apply dec_enc_varint. exact H. Qed.

Lemma ref_varint_pos v : (1 <= length (ref_varint v))%nat.
Proof.
  unfold ref_varint. generalize 9%nat. intros fuel.
  destruct fuel as [|fuel]; cbn [ref_varint_fuel]; [cbn [length]; lia|].
  destruct (v <? 128); cbn [length]; lia.
Qed.

Lemma i64n_sint v : v < 2^64 -> i64n v = sint64_of v.
Proof.
  intros H. unfold i64n, sint64_of. rewrite N.mod_small by exact H. cbv zeta.
  destruct (N.ltb_spec v (2^63)) as [H1|H1]; destruct (Z.ltb_spec (Z.of_N v) (2^63)) as [H2|H2];
    try reflexivity; lia.
Qed.

Lemma off_lt B off (x rest : list N) : (1 <= length x)%nat -> skipn off B = x ++ rest -> (off < length B)%nat.
Proof.
  intros Hx Hs. destruct (app_nonnil_len x rest Hx) as (a & r & Hnn). rewrite Hnn in Hs.
  eapply skipn_cons_lt. exact Hs.
Qed.

Lemma dec_tag_ref B off num wt rest : 1 <= num <= max_tag -> wt < 8 ->
  skipn off B = ref_varint (8 * num + wt) ++ rest ->
  dec_tag (mk B off false) = DOk (num, wt) (mk B (off + length (ref_varint (8 * num + wt))) false).
Proof.
  intros Hn Hw Hs. destruct (key_facts num wt Hn Hw) as (Hk & Hsh & Hland & Hk1 & _).
  pose proof (off_lt B off _ rest (ref_varint_pos _) Hs) as Hlt.
  unfold dec_tag, at_eof. cbn [mk dbuf doff].
  destruct (Nat.leb_spec (length B) off) as [Hc|_]; [lia|].
  rewrite go_from_ok by lia. rewrite Hs, dv_ref by exact Hk. rewrite Hsh, Hland.
  destruct (N.ltb_spec (8 * num + wt) 1) as [Hc|_]; [lia|].
  destruct (N.ltb_spec max_tag num) as [Hc|_]; [lia|]. reflexivity.
Qed.

Lemma dec_int64_ref B off v rest : v < 2^64 -> skipn off B = ref_varint v ++ rest ->
  dec_scalar (mk B off false) KInt64 = DOk (sint64_of v) (mk B (off + length (ref_varint v)) false).
Proof.
  intros Hv Hs. pose proof (off_lt B off _ rest (ref_varint_pos _) Hs) as Hlt.
  unfold dec_scalar, at_eof. cbn [mk dbuf doff].
  destruct (Nat.leb_spec (length B) off) as [Hc|_]; [lia|].
  rewrite go_from_ok by lia. unfold read_elem. change (is_varint_kind KInt64) with true. cbv iota.
  rewrite Hs, dv_ref by exact Hv. cbn [of_wire]. rewrite i64n_sint by exact Hv. reflexivity.
Qed.

Lemma dec_fixed32_ref B off b rest : length b = 4%nat -> skipn off B = b ++ rest ->
  dec_scalar (mk B off false) KFixed32 = DOk (Z.of_N (le_val b)) (mk B (off + 4) false).
Proof.
  intros Hl Hs. pose proof (off_lt B off b rest ltac:(lia) Hs) as Hlt.
  assert (Hf : firstn 4 (b ++ rest) = b) by (rewrite <- Hl; apply firstn_app_exact).
  unfold dec_scalar, at_eof. cbn [mk dbuf doff].
  destruct (Nat.leb_spec (length B) off) as [Hc|_]; [lia|].
  rewrite go_from_ok by lia. unfold read_elem. change (is_varint_kind KFixed32) with false. cbv iota zeta.
  cbn [width_of]. rewrite Hs, app_length.
  destruct (Nat.ltb_spec (length b + length rest) 4) as [Hc|_]; [lia|].
  rewrite Hf. cbn [of_wire]. reflexivity.
Qed.

Lemma dec_fixed64_ref B off b rest : length b = 8%nat -> skipn off B = b ++ rest ->
  dec_scalar (mk B off false) KFixed64 = DOk (Z.of_N (le_val b)) (mk B (off + 8) false).
Proof.
  intros Hl Hs. pose proof (off_lt B off b rest ltac:(lia) Hs) as Hlt.
  assert (Hf : firstn 8 (b ++ rest) = b) by (rewrite <- Hl; apply firstn_app_exact).
  unfold dec_scalar, at_eof. cbn [mk dbuf doff].
  destruct (Nat.leb_spec (length B) off) as [Hc|_]; [lia|].
  rewrite go_from_ok by lia. unfold read_elem. change (is_varint_kind KFixed64) with false. cbv iota zeta.
  cbn [width_of]. rewrite Hs, app_length.
  destruct (Nat.ltb_spec (length b + length rest) 8) as [Hc|_]; [lia|].
  rewrite Hf. cbn [of_wire]. reflexivity.
Qed.

Lemma dec_bytes_ref B off (b rest : list N) : N.of_nat (length b) <= max_len ->
  skipn off B = ref_varint (N.of_nat (length b)) ++ b ++ rest ->
  dec_bytes (mk B off false)
  = DOk b (mk B (off + length (ref_varint (N.of_nat (length b))) + length b) false).
Proof.
  intros Hb Hs. unfold max_len in Hb.
  pose proof (off_lt B off _ _ (ref_varint_pos _) Hs) as Hlt.
  pose proof (skipn_len_eq off B _ Hs ltac:(lia)) as HlenB. rewrite !app_length in HlenB.
  pose proof (slice_at _ B b rest (skipn_app_step off B _ _ Hs)) as Hslice.
  set (n := length (ref_varint (N.of_nat (length b)))) in *.
  unfold dec_bytes, at_eof. cbn [mk dbuf doff].
  destruct (Nat.leb_spec (length B) off) as [Hc|_]; [lia|].
  rewrite go_from_ok by lia. rewrite Hs, dv_ref by lia. fold n.
  unfold max_len. destruct (N.ltb_spec 2147483647 (N.of_nat (length b))) as [Hc|_]; [lia|].
  destruct (N.ltb_spec (N.of_nat (length B)) (N.of_nat (off + n) + N.of_nat (length b))) as [Hc|_]; [lia|].
  cbv zeta. rewrite Nat2N.id. rewrite go_sub_ok by lia. rewrite Hslice.
  unfold dadv. cbn [mk dbuf doff dfast]. f_equal. apply mk_eq. lia.
Qed.

(* key of a well-formed field at the cursor *)
Lemma tag_of_field f0 pre rest : rfield_wf f0 ->
  let B := pre ++ renc f0 ++ rest in
  at_eof (mk B (length pre) false) = false /\
  dec_tag (mk B (length pre) false) = DOk (rnum f0, rwt f0) (mk B (length pre + length (rkey f0)) false) /\
  skipn (length pre + length (rkey f0)) B = rpayload f0 ++ rest.
Proof.
  intros [Hn _] B.
  assert (Hw : rwt f0 < 8) by (destruct f0; cbn [rwt]; lia).
  assert (Hs : skipn (length pre) B = rkey f0 ++ rpayload f0 ++ rest).
  { unfold B. rewrite skipn_app_exact. unfold renc. rewrite <- app_assoc. reflexivity. }
  pose proof (off_lt B (length pre) _ _ (ref_varint_pos _) Hs) as Hlt.
  split; [|split].
  - unfold at_eof. cbn [mk dbuf doff]. destruct (Nat.leb_spec (length B) (length pre)); [lia|reflexivity].
  - apply dec_tag_ref with (rest := rpayload f0 ++ rest); [exact Hn|exact Hw|exact Hs].
  - apply skipn_app_step. exact Hs.
Qed.

(* the nested [fix all] of tree_wf / layout_ok as Forall *)
Lemma tree_wf_node num ch : tree_wf (TNode num ch) ->
  rfield_wf (RLen num (concat (map tenc ch))) /\ Forall tree_wf ch.
Proof.
  cbn [tree_wf]. intros (H1 & H2 & H3). split; [split; [exact H1|exact H2]|].
  clear H1 H2. induction ch as [|c r IH]; [constructor|].
  destruct H3 as [Hc Hr]. constructor; [exact Hc|apply IH; exact Hr].
Qed.
Lemma layout_ok_node conf path num ch : layout_ok conf path (TNode num ch) ->
  paths_match (cstrings conf) (path ++ [num]) = false /\ paths_match (cexpand conf) (path ++ [num]) = true /\
  Forall (layout_ok conf (path ++ [num])) ch.
Proof.
  cbn [layout_ok tnum]. intros (H1 & H2 & H3). split; [exact H1|]. split; [exact H2|].
  clear H1 H2. induction ch as [|c r IH]; [constructor|].
  destruct H3 as [Hc Hr]. constructor; [exact Hc|apply IH; exact Hr].
Qed.

Lemma tenc_pos t : (1 <= length (tenc t))%nat.
Proof.
  destruct t as [f0|num ch]; cbn [tenc]; unfold renc, rkey; rewrite app_length;
    match goal with |- context [length (ref_varint ?k)] => pose proof (ref_varint_pos k) end; lia.
Qed.
Lemma tenc_count ts : (length ts <= length (concat (map tenc ts)))%nat.
Proof.
  induction ts as [|t ts IH]; cbn [map concat length]; [lia|].
  rewrite app_length. pose proof (tenc_pos t). lia.
Qed.

(* one loop iteration on the encoding of one tree *)
Lemma dump_step_tree conf indent path loop sub t pre rest tail :
  tree_wf t -> layout_ok conf path t ->
  let B := pre ++ tenc t ++ rest in
  loop (mk B (length pre + length (tenc t)) false) = (tail, DumpOk) ->
  (forall num ch, t = TNode num ch ->
     sub (path ++ [num]) (concat (map tenc ch))
     = (concat (map (tdump conf (S indent) (path ++ [num])) ch), DumpOk)) ->
  dump_step conf indent path loop sub (mk B (length pre) false) = (tdump conf indent path t ++ tail, DumpOk).
Proof.
  intros Hwf Hlay B Hloop Hsub.
  destruct t as [[n v|n b|n b|n b]|n ch]; cbn [tenc] in *.
  - (* varint *)
    destruct Hwf as [Hwf _]. destruct (tag_of_field _ pre rest Hwf) as (He & Ht & Hp). fold B in He, Ht, Hp.
    destruct Hwf as [_ Hv]. cbn [rnum rwt rpayload rvalue] in *.
    unfold dump_step. rewrite He, Ht. cbv zeta. change (0 =? 0) with true. cbv iota.
    rewrite (dec_int64_ref B _ v rest Hv Hp).
    replace (length pre + length (rkey (RVarint n v)) + length (ref_varint v))%nat
      with (length pre + length (renc (RVarint n v)))%nat by (unfold renc; rewrite app_length; cbn [rpayload rvalue]; lia).
    rewrite Hloop. reflexivity.
  - (* fixed64 *)
    destruct Hwf as [Hwf _]. destruct (tag_of_field _ pre rest Hwf) as (He & Ht & Hp). fold B in He, Ht, Hp.
    destruct Hwf as [_ Hv]. cbn [rnum rwt rpayload rvalue] in *.
    unfold dump_step. rewrite He, Ht. cbv zeta.
    change (1 =? 0) with false. change (1 =? 5) with false. change (1 =? 1) with true. cbv iota.
    rewrite (dec_fixed64_ref B _ b rest Hv Hp).
    replace (length pre + length (rkey (RFixed64 n b)) + 8)%nat
      with (length pre + length (renc (RFixed64 n b)))%nat by (unfold renc; rewrite app_length; cbn [rpayload rvalue]; lia).
    rewrite Hloop. reflexivity.
  - (* fixed32 *)
    destruct Hwf as [Hwf _]. destruct (tag_of_field _ pre rest Hwf) as (He & Ht & Hp). fold B in He, Ht, Hp.
    destruct Hwf as [_ Hv]. cbn [rnum rwt rpayload rvalue] in *.
    unfold dump_step. rewrite He, Ht. cbv zeta.
    change (5 =? 0) with false. change (5 =? 5) with true. cbv iota.
    rewrite (dec_fixed32_ref B _ b rest Hv Hp).
    replace (length pre + length (rkey (RFixed32 n b)) + 4)%nat
      with (length pre + length (renc (RFixed32 n b)))%nat by (unfold renc; rewrite app_length; cbn [rpayload rvalue]; lia).
    rewrite Hloop. reflexivity.
  - (* bytes / string *)
    destruct Hwf as [Hwf _]. destruct (tag_of_field _ pre rest Hwf) as (He & Ht & Hp). fold B in He, Ht, Hp.
    destruct Hwf as [_ Hv]. cbn [rnum rwt rpayload rvalue] in *. rewrite <- app_assoc in Hp.
    unfold dump_step. rewrite He, Ht. cbv zeta.
    change (2 =? 0) with false. change (2 =? 5) with false. change (2 =? 1) with false. change (2 =? 2) with true.
    cbv iota.
    rewrite (dec_bytes_ref B _ b rest Hv Hp).
    replace (length pre + length (rkey (RLen n b)) + length (ref_varint (N.of_nat (length b))) + length b)%nat
      with (length pre + length (renc (RLen n b)))%nat
      by (unfold renc; rewrite app_length; cbn [rpayload rvalue]; rewrite app_length; lia).
    rewrite Hloop. cbn [layout_ok tnum rnum] in Hlay. cbn [tdump tnum rnum].
    destruct (paths_match (cstrings conf) (path ++ [n])); [reflexivity|].
    destruct Hlay as [Hc|Hc]; [discriminate Hc|]. rewrite Hc. reflexivity.
  - (* expanded nested message *)
    destruct (tree_wf_node n ch Hwf) as [Hwf0 _].
    destruct (layout_ok_node conf path n ch Hlay) as (Hcs & Hce & _).
    destruct (tag_of_field _ pre rest Hwf0) as (He & Ht & Hp). fold B in He, Ht, Hp.
    destruct Hwf0 as [_ Hv]. cbn [rnum rwt rpayload rvalue] in *. rewrite <- app_assoc in Hp.
    set (b := concat (map tenc ch)) in *.
    unfold dump_step. rewrite He, Ht. cbv zeta.
    change (2 =? 0) with false. change (2 =? 5) with false. change (2 =? 1) with false. change (2 =? 2) with true.
    cbv iota.
    rewrite (dec_bytes_ref B _ b rest Hv Hp).
    replace (length pre + length (rkey (RLen n b)) + length (ref_varint (N.of_nat (length b))) + length b)%nat
      with (length pre + length (renc (RLen n b)))%nat
      by (unfold renc; rewrite app_length; cbn [rpayload rvalue]; rewrite app_length; lia).
    pose proof (Hsub n ch eq_refl) as Hsb. fold b in Hsb.
    rewrite Hcs, Hce, Hsb, Hloop. cbn [tdump tnum]. fold b. reflexivity.
Qed.

Lemma dump_trees : forall fuel conf indent path ts pre steps,
  Forall tree_wf ts -> Forall (layout_ok conf path) ts ->
  (length (concat (map tenc ts)) < fuel)%nat -> (length ts < steps)%nat ->
  dump fuel conf indent path (mk (pre ++ concat (map tenc ts)) (length pre) false) steps
  = (concat (map (tdump conf indent path) ts), DumpOk).
Proof.
  induction fuel as [|f IHf]; intros conf indent path ts; [intros pre steps _ _ Hc; lia|].
  induction ts as [|t ts IHts]; intros pre steps Hwf Hlay Hfuel Hsteps.
  - destruct steps as [|st]; [cbn [length] in Hsteps; lia|]. rewrite dump_S. unfold dump_step, at_eof.
    cbn [map concat mk dbuf doff]. rewrite app_nil_r, Nat.leb_refl. reflexivity.
  - destruct steps as [|st]; [lia|].
    inversion Hwf as [|? ? Hwt Hwts]; subst. inversion Hlay as [|? ? Hlt Hlts]; subst.
    cbn [map concat length] in *. rewrite app_length in Hfuel.
    rewrite dump_S.
    rewrite (dump_step_tree conf indent path _ _ t pre (concat (map tenc ts))
               (concat (map (tdump conf indent path) ts)) Hwt Hlt).
    + reflexivity.
    + replace (pre ++ tenc t ++ concat (map tenc ts)) with ((pre ++ tenc t) ++ concat (map tenc ts))
        by (rewrite <- app_assoc; reflexivity).
      rewrite <- app_length. apply IHts; [exact Hwts|exact Hlts|lia|lia].
    + intros num ch Heq. subst t.
      destruct (tree_wf_node num ch Hwt) as [_ Hwch].
      destruct (layout_ok_node conf path num ch Hlt) as (_ & _ & Hlch).
      cbn [tenc] in Hfuel. unfold renc in Hfuel. cbn [rpayload] in Hfuel. rewrite !app_length in Hfuel.
      pose proof (ref_varint_pos (8 * rnum (RLen num (concat (map tenc ch))) + rwt (RLen num (concat (map tenc ch))))) as Hk.
      unfold rkey in Hfuel.
      exact (IHf conf (S indent) (path ++ [num]) ch [] (S (length (concat (map tenc ch)))) Hwch Hlch
               ltac:(lia) ltac:(pose proof (tenc_count ch); lia)).
Qed.

Theorem dump_faithful : forall conf ts,
  Forall tree_wf ts -> Forall (layout_ok conf []) ts ->
  protodump conf (concat (map tenc ts)) = (concat (map (tdump conf 0 []) ts), DumpOk).
Proof.
  intros conf ts Hwf Hlay. unfold protodump.
  exact (dump_trees (S (length (concat (map tenc ts)))) conf 0%nat [] ts [] (S (length (concat (map tenc ts))))
           Hwf Hlay ltac:(lia) ltac:(pose proof (tenc_count ts); lia)).
Qed.
