(* Base definitions shared by every model file: bytes, outcomes, list plumbing. *)
From Coq Require Export List NArith ZArith Lia Bool.
From Coq Require Export ZifyN ZifyNat ZifyBool.
Export ListNotations.

Notation byte := N (only parsing).      (* invariant: < 256, enforced by [bytes_ok] where it matters *)

(* What a Go call can do: return normally, return an error, or panic. *)
Inductive outcome (A : Type) := Ok (a : A) | Err | Panic.
Arguments Ok {A} a. Arguments Err {A}. Arguments Panic {A}.

Definition obind {A B} (o : outcome A) (f : A -> outcome B) : outcome B :=
  match o with Ok a => f a | Err => Err | Panic => Panic end.
Notation "'let*' x ':=' o 'in' k" := (obind o (fun x => k)) (at level 200, x pattern, right associativity).

Definition is_panic {A} (o : outcome A) : bool := match o with Panic => true | _ => false end.
Definition is_ok {A} (o : outcome A) : bool := match o with Ok _ => true | _ => false end.

Definition bytes_ok (l : list N) : Prop := Forall (fun b => (b < 256)%N) l.

Definition slice {A} (l : list A) (lo hi : nat) : list A := firstn (hi - lo) (skipn lo l).
Definition zeros (n : nat) : list N := repeat 0%N n.

Lemma slice_mid {A} (pre x post : list A) :
  slice (pre ++ x ++ post) (length pre) (length pre + length x) = x.
Proof.
  unfold slice. rewrite skipn_app, skipn_all, Nat.sub_diag. cbn [skipn app].
  replace (length pre + length x - length pre)%nat with (length x) by lia.
  rewrite firstn_app, firstn_all, Nat.sub_diag. cbn [firstn]. apply app_nil_r.
Qed.

Lemma skipn_app_exact {A} (pre x : list A) : skipn (length pre) (pre ++ x) = x.
Proof. rewrite skipn_app, skipn_all, Nat.sub_diag. reflexivity. Qed.

Lemma firstn_app_exact {A} (pre x : list A) : firstn (length pre) (pre ++ x) = pre.
Proof. rewrite firstn_app, firstn_all, Nat.sub_diag. cbn. apply app_nil_r. Qed.

Lemma Forall_skipn {A} (P : A -> Prop) n (l : list A) : Forall P l -> Forall P (skipn n l).
Proof. revert l; induction n as [|n IH]; intros [|x l] H; cbn; auto. inversion H; auto. Qed.

Lemma Forall_firstn {A} (P : A -> Prop) n (l : list A) : Forall P l -> Forall P (firstn n l).
Proof. revert l; induction n as [|n IH]; intros [|x l] H; cbn; auto. inversion H; subst; auto. Qed.
