(* C08, second clause -- no silent disagreement on ARBITRARY bytes.  Statements only. *)
From CsProto Require Import Prelude Varint ZigZag Codec RefWire WireStmts Schema GenMarshal RefMsg GenStmts GenUnmarshal GenLegal GenUProofs GenUAnyDef GenUAny.
Local Open Scope N_scope.

(* For every well-formed schema and EVERY byte string -- legal or not: non-minimal varints and keys, values
   out of a kind's writer range, overlong packed runs, truncated or inflated lengths, anything -- in both
   decode modes and whatever the destination held: if the generated Unmarshal accepts the input AND the
   reference semantics (RefMsg.v) accepts it, they decoded the same message (compared in canonical form:
   identical presence, values, unknown bytes).  Two exclusions, both judged on the raw reference parse:
   - the recorded finding G12 ([no_dup_raw]): no singular message field (plain, oneof member, map value)
     occurs twice;
   - [varints_fit] (GenUAnyDef.v): no varint the reference parse reads needs more than 64 bits (keys, varint
     values, LEN lengths, elements of packed runs, at every depth, map entries included).  csproto's
     DecodeVarint accepts a ten-byte varint whose tenth byte exceeds 1 and silently drops the bits above
     2^64; the reference reader of RefWire.v keeps the unbounded value (a conforming parser -- protowire --
     rejects such input).  Without this exclusion the statement is FALSE: see the two refutations below. *)
Theorem C08_both_accept_agree : forall sc ty p fast dest m al v,
  schema_ok sc = true -> bytes_ok p ->
  gen_unmarshal_into sc fast ty dest p = UOk m al ->
  ref_decode sc (S (length p)) ty p = Some v ->
  no_dup_raw sc (S (length p)) ty p = true ->
  varints_fit sc (S (length p)) ty p = true ->
  forall fuel, (vdepth v < fuel)%nat -> (vdepth m < fuel)%nat -> normalize sc fuel ty m = normalize sc fuel ty v.
Proof. exact both_accept_agree. Qed.

(* the strong form: under the same hypotheses the two results are the very same value *)
Theorem C08_both_accept_same : forall sc ty p fast dest m al v,
  schema_ok sc = true -> bytes_ok p ->
  gen_unmarshal_into sc fast ty dest p = UOk m al ->
  ref_decode sc (S (length p)) ty p = Some v ->
  no_dup_raw sc (S (length p)) ty p = true ->
  varints_fit sc (S (length p)) ty p = true ->
  m = v.
Proof. exact both_accept_same. Qed.

(* non-vacuity: an ILLEGAL encoding (non-minimal varint, non-minimal key, int32 written with 64-bit sign
   extension dropped ...) that both accept and that satisfies both exclusions *)
Definition c08b_sc : schema := [
 {| mproto2 := false; mfields := [ {| fnum := 1; fkind_ := FNum KInt32; fcard_ := CImplicit |}; {| fnum := 2; fkind_ := FString; fcard_ := CImplicit |} ] |};
 {| mproto2 := false; mfields := [
    {| fnum := 1; fkind_ := FNum KInt64; fcard_ := CImplicit |};
    {| fnum := 3; fkind_ := FNum KSInt32; fcard_ := CPacked |};
    {| fnum := 4; fkind_ := FMsg 0; fcard_ := CImplicit |} ] |} ].
Definition c08b_input : list byte := [136; 0; 133; 128; 0;  26; 3; 129; 0; 4;  34; 130; 0; 8; 7;  80; 137; 0].
Example C08b_ex :
  legal_msg c08b_sc (S (length c08b_input)) 1 c08b_input = false /\
  no_dup_raw c08b_sc (S (length c08b_input)) 1 c08b_input = true /\
  varints_fit c08b_sc (S (length c08b_input)) 1 c08b_input = true /\
  (exists m, gen_unmarshal_into c08b_sc false 1 GAbsent c08b_input = UOk m false) /\
  (exists v, ref_decode c08b_sc (S (length c08b_input)) 1 c08b_input = Some v).
Proof. vm_compute. repeat split; eexists; reflexivity. Qed.

(* ---------- the statement without [varints_fit] is false ---------- *)
Definition c08b_bool_sc : schema := [
 {| mproto2 := false; mfields := [ {| fnum := 1; fkind_ := FNum KBool; fcard_ := CImplicit |} ] |} ].
(* (1) a bool field whose varint value is 2^64 (ten bytes, the tenth is 2): the generated code reads
   false (bits above 64 dropped), the reference reads true *)
Definition c08b_value_overflow : list byte := [8; 128; 128; 128; 128; 128; 128; 128; 128; 128; 2].
Example C08b_value_refuted_without_varints_fit :
  schema_ok c08b_bool_sc = true /\
  no_dup_raw c08b_bool_sc (S (length c08b_value_overflow)) 0 c08b_value_overflow = true /\
  varints_fit c08b_bool_sc (S (length c08b_value_overflow)) 0 c08b_value_overflow = false /\
  gen_unmarshal_into c08b_bool_sc false 0 GAbsent c08b_value_overflow = UOk (GMsg [(1, GNum 0)] []) false /\
  gen_unmarshal_into c08b_bool_sc true 0 GAbsent c08b_value_overflow = UOk (GMsg [(1, GNum 0)] []) false /\
  ref_decode c08b_bool_sc (S (length c08b_value_overflow)) 0 c08b_value_overflow = Some (GMsg [(1, GNum 1)] []) /\
  normalize c08b_bool_sc 2 0 (GMsg [(1, GNum 0)] []) <> normalize c08b_bool_sc 2 0 (GMsg [(1, GNum 1)] []).
Proof. vm_compute. repeat split; try reflexivity. discriminate. Qed.
(* (2) a KEY varint of value 2^64 + 8: the generated code sees field 1, wire type 0 and reads the bool; the
   reference sees field number 2^61 + 1 -- an unknown field *)
Definition c08b_key_overflow : list byte := [136; 128; 128; 128; 128; 128; 128; 128; 128; 2; 1].
Example C08b_key_refuted_without_varints_fit :
  no_dup_raw c08b_bool_sc (S (length c08b_key_overflow)) 0 c08b_key_overflow = true /\
  varints_fit c08b_bool_sc (S (length c08b_key_overflow)) 0 c08b_key_overflow = false /\
  gen_unmarshal_into c08b_bool_sc false 0 GAbsent c08b_key_overflow = UOk (GMsg [(1, GNum 1)] []) false /\
  gen_unmarshal_into c08b_bool_sc true 0 GAbsent c08b_key_overflow = UOk (GMsg [(1, GNum 1)] []) false /\
  ref_decode c08b_bool_sc (S (length c08b_key_overflow)) 0 c08b_key_overflow = Some (GMsg [] c08b_key_overflow) /\
  normalize c08b_bool_sc 2 0 (GMsg [(1, GNum 1)] []) <> normalize c08b_bool_sc 2 0 (GMsg [] c08b_key_overflow).
Proof. vm_compute. repeat split; try reflexivity. discriminate. Qed.

Print Assumptions C08_both_accept_agree.
Print Assumptions C08_both_accept_same.
