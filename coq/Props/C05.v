(* C05 -- generated Marshal output is what the reference runtime would decode.  Statements only. *)
From CsProto Require Import Prelude Varint ZigZag Codec RefWire WireStmts Schema GenMarshal RefMsg GenStmts GenProofs GenRefProofs.
Local Open Scope N_scope.

(* For every well-formed schema and every message value that fits it: the bytes the generated Marshal
   produces, parsed from the schema alone by the reference semantics (RefMsg.v), give back the original
   message with identical field presence -- nothing dropped, nothing unset emitted, no value altered,
   unknown fields preserved.  Both sides are compared in canonical form (fields in schema order, absent =
   not listed, map entries sorted).  (Until finding G6 was repaired in the code the statement carried the
   hypothesis "no proto3 implicit float holds -0.0"; it is gone.) *)
Theorem C05_reference_roundtrip : forall sc ty v b fuel,
  schema_ok sc = true -> value_ok sc (S (vdepth v)) ty v = true ->
  unknowns_ok sc (S (vdepth v)) ty v = true ->
  N.of_nat (gen_size sc (S (vdepth v)) ty v) < 2^31 ->
  gen_marshal sc ty v = MBytes b ->
  exists v', ref_decode sc (S (length b)) ty b = Some v' /\
             ((vdepth v < fuel)%nat -> (vdepth v' < fuel)%nat -> normalize sc fuel ty v' = normalize sc fuel ty v).
Proof. exact reference_roundtrip. Qed.

(* a proto3 float field holding -0.0 is a value: written, and read back (finding G6, repaired) *)
Definition nz_sc : schema := [ {| mproto2 := false; mfields := [ {| fnum := 1; fkind_ := FNum KFloat; fcard_ := CImplicit |} ] |} ].
Example C05_neg_zero_kept :
  gen_marshal nz_sc 0 (GMsg [(1, GNum 2147483648)] []) = MBytes [13; 0; 0; 0; 128] /\
  ref_decode nz_sc 6 0 [13; 0; 0; 0; 128] = Some (GMsg [(1, GNum 2147483648)] []) /\
  gen_marshal nz_sc 0 (GMsg [(1, GNum 0)] []) = MBytes [].
Proof. vm_compute. repeat split. Qed.

Print Assumptions C05_reference_roundtrip.
