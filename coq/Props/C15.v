(* C15 -- a lazy Decoder can be shared by concurrent goroutines.  Statements only.
   Granularity: one step = one API call; sync.Pool Get/Put are the only shared-state accesses of a
   call and are atomic (sync.Pool's contract); everything else a call touches is the result object it
   owns.  Memory-level data races are outside what this model can express (race detector leg). *)
From CsProto Require Import Prelude Varint ZigZag Codec RefWire WireStmts Lazy Pool PoolSpec PoolProofs.
Local Open Scope N_scope.

(* For every schedule interleaving the calls of any number of goroutines on one shared Decoder
   (each goroutine using its own result handles), every pool choice and capacity outcome: no call
   panics and every goroutine observes exactly what it would observe running alone on its own inputs. *)
Theorem C15_schedule_independence : forall D truncs owner (sch : schedule),
  def_valid (def_depth D) D = true -> handles_private owner sch ->
  exists obs s', prun D false truncs pinit (map snd sch) = Some (obs, s') /\
    forall g, proj_obs g sch obs = spec_run D [] (proj_ops g sch).
Proof. exact schedule_independence. Qed.

Example C15_ex :
  let D := LDef [(1, None)]%Z in
  let sch := [(0, PDecode 0 [8; 1]%N 0); (1, PDecode 1 [8; 2]%N 0); (0, PField 0 [1]%Z AInt32 false []);
              (0, PClose 0); (1, PField 1 [1]%Z AInt32 false []); (1, PClose 1); (0, PDecode 2 [8; 3]%N 0);
              (0, PField 2 [1]%Z AInt32 false [])]%nat in
  handles_private (fun h => match h with 1 => 1 | _ => 0 end)%nat sch /\
  spec_run D [] (proj_ops 0 sch) = [QOk; QOut (AOk (AvNum 1)); QOk; QOk; QOut (AOk (AvNum 3))].
Proof. split; [repeat constructor | vm_compute; reflexivity]. Qed.

Print Assumptions C15_schedule_independence.
