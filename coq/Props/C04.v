(* C04 -- generated Size, Marshal and MarshalTo agree for every message.  Statements only. *)
From CsProto Require Import Prelude Varint ZigZag Codec RefWire WireStmts Schema GenMarshal RefMsg GenStmts GenProofs.
Local Open Scope N_scope.

(* For every well-formed schema (any combination of kinds, cardinalities, packed or unpacked lists, maps,
   oneofs, nested and recursive messages, enums, proto3 optionals), every message value that fits it
   -- zero values, unset optionals, empty strings/bytes/lists/maps and empty nested messages included --
   and its unknown fields: the program of encoder calls that MarshalTo executes produces exactly
   Size() bytes, and run on ANY buffer with exactly that much room at the cursor it fills that room
   exactly, touches nothing else, and does not panic. *)
Theorem C04_marshal_to_exact : forall sc ty v ops,
  schema_ok sc = true -> value_ok sc (S (vdepth v)) ty v = true ->
  N.of_nat (gen_size sc (S (vdepth v)) ty v) < 2^31 ->
  gen_ops sc (S (vdepth v)) ty v = Ok ops ->
  let n := gen_size sc (S (vdepth v)) ty v in
  length (gbytes ops) = n /\
  forall pre room post, length room = n ->
    grun {| ebuf := pre ++ room ++ post; eoff := length pre |} ops
      = Ok {| ebuf := pre ++ gbytes ops ++ post; eoff := (length pre + n)%nat |}.
Proof. exact marshal_to_exact. Qed.

(* Marshal(): never panics; when it returns bytes, they are those bytes and Size() is their length *)
Theorem C04_marshal : forall sc ty v,
  schema_ok sc = true -> value_ok sc (S (vdepth v)) ty v = true ->
  N.of_nat (gen_size sc (S (vdepth v)) ty v) < 2^31 ->
  match gen_marshal sc ty v with
  | MBytes b => length b = gen_size sc (S (vdepth v)) ty v /\
                exists ops, gen_ops sc (S (vdepth v)) ty v = Ok ops /\ b = gbytes ops
  | MErr => gen_ops sc (S (vdepth v)) ty v = Err
  | MPanic => False
  end.
Proof. exact marshal_spec. Qed.

Theorem C04_fuel_irrelevant : forall sc ty v fuel, (vdepth v < fuel)%nat ->
  gen_size sc fuel ty v = gen_size sc (S (vdepth v)) ty v /\ gen_ops sc fuel ty v = gen_ops sc (S (vdepth v)) ty v.
Proof. exact fuel_irrelevant. Qed.

Definition ex_sc : schema := [
 {| mproto2 := false; mfields := [ {| fnum := 1; fkind_ := FNum KInt32; fcard_ := CImplicit |}; {| fnum := 2; fkind_ := FString; fcard_ := CImplicit |} ] |};
 {| mproto2 := false; mfields := [
    {| fnum := 1; fkind_ := FNum KInt64; fcard_ := CImplicit |};
    {| fnum := 3; fkind_ := FNum KSInt32; fcard_ := CPacked |};
    {| fnum := 4; fkind_ := FMsg 0; fcard_ := CUnpacked |};
    {| fnum := 5; fkind_ := FBytes; fcard_ := CMap FString (FMsg 0) |};
    {| fnum := 6; fkind_ := FNum KInt32; fcard_ := COneof 0 |};
    {| fnum := 7; fkind_ := FMsg 0; fcard_ := COneof 0 |};
    {| fnum := 10; fkind_ := FNum KFloat; fcard_ := CUnpacked |};
    {| fnum := 11; fkind_ := FMsg 1; fcard_ := COptional |} ] |} ].
Definition ex_v : gval := GMsg [ (1, GNum (-5)); (3, GList [GNum 1; GNum (-1); GNum 300]); (4, GList [GMsg [] []; GMsg [(1, GNum 7)] []]);
   (5, GMap [(GBytes [97], GMsg [(2, GBytes [104;105])] [])]); (7, GMsg [] []); (10, GList [GNum 1069547520]);
   (11, GMsg [(1, GNum 2)] [152; 6; 1]) ] [].
Example C04_ex : schema_ok ex_sc = true /\ value_ok ex_sc (S (vdepth ex_v)) 1 ex_v = true /\
  gen_size ex_sc (S (vdepth ex_v)) 1 ex_v = 48%nat /\
  gen_marshal ex_sc 1 ex_v = MBytes [8; 251; 255; 255; 255; 255; 255; 255; 255; 255; 1; 26; 4; 2; 1; 216; 4; 34; 0; 34; 2; 8; 7; 42; 9; 10; 1; 97;
    18; 4; 18; 2; 104; 105; 85; 0; 0; 192; 63; 90; 5; 8; 2; 152; 6; 1; 58; 0].
Proof. vm_compute. repeat split; reflexivity. Qed.

Print Assumptions C04_marshal_to_exact.
Print Assumptions C04_marshal.
Print Assumptions C04_fuel_irrelevant.
