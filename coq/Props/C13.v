(* C13 -- lazy partial decoding equals a full reference parse.  Statements only. *)
From CsProto Require Import Prelude Varint ZigZag Codec RefWire WireStmts Lazy LazySpec LazyProofs.
Local Open Scope N_scope.

(* (1) The single pass records, for every requested tag, exactly the occurrences a reference parse of
   the message finds for it: their wire type and their value bytes, in wire order -- for every
   well-formed message tree, every valid definition, both entry points and the nested entry. *)
Theorem C13_decode_is_reference : forall d ts,
  ts <> [] -> Forall mtree_wf ts -> def_valid (def_depth d) d = true -> one_wt (flat_tags d) ts ->
  lazy_decode_dec d (concat (map menc ts)) = LRes {| rdef := d; rdata := ref_record (flat_tags d) ts |}
  /\ (entries d <> [] ->
      lazy_decode_fn d (concat (map menc ts)) = LRes {| rdef := d; rdata := ref_record (flat_tags d) ts |}).
Proof. exact decode_is_reference. Qed.
Theorem C13_nested_decode_is_reference : forall d ts,
  Forall mtree_wf ts -> one_wt (flat_tags d) ts ->
  lazy_decode_nested d (concat (map menc ts)) = LRes {| rdef := d; rdata := ref_record (flat_tags d) ts |}.
Proof. exact nested_decode_is_reference. Qed.

(* (2) single-value accessors: the last occurrence, read as the requested Go type; a request that
   does not fit the wire type is a mismatch, one that does not fit the range an overflow error *)
Theorem C13_scalar_last : forall k ds f,
  is_numeric k = true -> scalar_for k f ->
  acc_scalar {| fwt := rwt f; fdat := ds ++ [rvalue f] |} k
  = match ref_typed k (rfield_int f) with Some z => AOk (AvNum z) | None => AErr EOther end.
Proof. exact scalar_last. Qed.
Theorem C13_scalar_bytes : forall k ds b, is_numeric k = false ->
  acc_scalar {| fwt := 2; fdat := ds ++ [b] |} k = AOk (AvBytes b).
Proof. exact scalar_bytes. Qed.
Theorem C13_scalar_mismatch : forall k wt ds b, wt <> want_wt k ->
  acc_scalar {| fwt := wt; fdat := ds ++ [b] |} k = AErr EMismatch.
Proof. exact scalar_mismatch. Qed.

(* (3) slice accessors: all occurrences in wire order, packed runs expanded *)
Theorem C13_slice_unpacked : forall k fs,
  is_numeric k = true -> fs <> [] -> Forall (scalar_for k) fs ->
  acc_slice {| fwt := want_wt k; fdat := map rvalue fs |} k = num_out (typed_all k fs).
Proof. exact slice_unpacked. Qed.
Theorem C13_slice_packed : forall k runs,
  is_numeric k = true -> runs <> [] -> Forall (Forall (scalar_for k)) runs ->
  acc_slice {| fwt := 2; fdat := map (fun run => concat (map rvalue run)) runs |} k
  = num_out (typed_all k (concat runs)).
Proof. exact slice_packed. Qed.
Theorem C13_slice_strings : forall k bs, is_numeric k = false -> bs <> [] ->
  acc_slice {| fwt := 2; fdat := bs |} k = AOk (AvBytesList bs).
Proof. exact slice_strings. Qed.

(* (4) absent tags: not found; undeclared tags: not defined; present tags: the recorded occurrences;
   a negative tag addresses the same field (raw access) *)
Theorem C13_lookup : forall d ts t,
  let r := Some {| rdef := d; rdata := ref_record (flat_tags d) ts |} in
  get_fd r (- t) = get_fd r t /\
  match index_of (abs_tag t) (flat_tags d) with
  | None => get_fd r t = inr ENotDefined
  | Some _ =>
      match occurrences (abs_tag t) ts with
      | [] => get_fd r t = inr ENotFound
      | x :: occ => get_fd r t = inl {| fwt := mwt x; fdat := map mvalue (x :: occ) |}
      end
  end.
Proof. exact lookup_spec. Qed.

(* (5) nested paths: the last occurrence, decoded with the nested definition, is again the reference
   record of the sub-message; NestedResults gives one such result per occurrence, in order *)
Theorem C13_nested_result : forall d ts t n kids pre,
  existsb (N.eqb (abs_tag t)) (nested_tags d) = true ->
  occurrences (abs_tag t) ts = pre ++ [MNode n kids] ->
  Forall (fun x => mwt x = 2) pre ->
  Forall mtree_wf kids -> one_wt (flat_tags (nested_def d (abs_tag t))) kids ->
  nested_result (Some {| rdef := d; rdata := ref_record (flat_tags d) ts |}) t
  = inl (LRes {| rdef := nested_def d (abs_tag t);
                 rdata := ref_record (flat_tags (nested_def d (abs_tag t))) kids |}).
Proof. exact nested_result_spec. Qed.
Theorem C13_nested_results : forall d ts t nodes,
  existsb (N.eqb (abs_tag t)) (nested_tags d) = true ->
  nodes <> [] ->
  occurrences (abs_tag t) ts = map (fun '(n, kids) => MNode n kids) nodes ->
  Forall (fun '(n, kids) => Forall mtree_wf kids /\ one_wt (flat_tags (nested_def d (abs_tag t))) kids) nodes ->
  nested_results (Some {| rdef := d; rdata := ref_record (flat_tags d) ts |}) t
  = inl (map (fun '(n, kids) => LRes {| rdef := nested_def d (abs_tag t);
                                        rdata := ref_record (flat_tags (nested_def d (abs_tag t))) kids |}) nodes).
Proof. exact nested_results_spec. Qed.

(* (6) every other byte string: decoding returns an error or a result, and no call panics *)
Theorem C13_decode_no_panic : forall d input,
  lazy_decode_dec d input <> LCrash /\ lazy_decode_fn d input <> LCrash /\ lazy_decode_nested d input <> LCrash.
Proof. exact decode_no_panic. Qed.
Theorem C13_observe_no_panic : forall r op, obs_panics (observe r op) = false.
Proof. exact observe_no_panic. Qed.

Example C13_ex :
  let d := LDef [(1, None); (-3, None); (3, Some (LDef [(2, None)]))]%Z in
  let ts := [MLeaf (RVarint 1 150); MNode 3 [MLeaf (RLen 2 [104; 105])]; MLeaf (RVarint 1 7); MNode 3 []] in
  def_valid (def_depth d) d = true /\
  (match lazy_decode_dec d (concat (map menc ts)) with
   | LRes r => (observe (Some r) (OpField [1]%Z AInt32 false), observe (Some r) (OpField [1]%Z AUInt64 true),
                observe (Some r) (OpNested [] 3 2 AString false), observe (Some r) (OpField [3; 2]%Z AString false))
   | _ => (ObsRange [], ObsRange [], ObsRange [], ObsRange []) end)
  = (ObsOut (AOk (AvNum 7)), ObsOut (AOk (AvNums [150; 7]%Z)),
     ObsNested (NList [AOk (AvBytes [104; 105]); AErr ENotFound]), ObsOut (AErr ENotFound)).
Proof. vm_compute. split; reflexivity. Qed.

Print Assumptions C13_decode_is_reference.
Print Assumptions C13_nested_decode_is_reference.
Print Assumptions C13_scalar_last.
Print Assumptions C13_scalar_bytes.
Print Assumptions C13_scalar_mismatch.
Print Assumptions C13_slice_unpacked.
Print Assumptions C13_slice_packed.
Print Assumptions C13_slice_strings.
Print Assumptions C13_lookup.
Print Assumptions C13_nested_result.
Print Assumptions C13_nested_results.
Print Assumptions C13_decode_no_panic.
Print Assumptions C13_observe_no_panic.
