(* C19 -- nested-message bridging in the hand-written codec is exact.  Statements only. *)
From CsProto Require Import Prelude Varint ZigZag Codec RefWire WireStmts CodecProofs.
Local Open Scope N_scope.

(* Encoding: for each of the three marshal paths (MarshalTo into the buffer -- where the message
   must report Size = |b|, which for generated types is C04 --, Marshal to a fresh slice, runtime
   fallback -- whatever Size reports), when the nested message marshals to b the encoder
   writes key ++ varint |b| ++ b into exactly the predicted room, touches nothing else, advances the
   cursor by exactly that amount and returns nil. *)
Theorem C19_encode_exact : forall fl tag b pre room post,
  tag_ok tag -> N.of_nat (length b) < 2^63 ->
  let n := (size_key tag + size_of_varint (N.of_nat (length b)) + length b)%nat in
  length room = n ->
  forall msize, (fl = NMarshalTo -> msize = length b) ->
  enc_nested {| ebuf := pre ++ room ++ post; eoff := length pre |} tag fl msize (Some b)
    = Ok ({| ebuf := pre ++ (enc_key tag 2 ++ enc_varint (N.of_nat (length b)) ++ b) ++ post;
             eoff := (length pre + n)%nat |}, true)
  /\ enc_key tag 2 ++ enc_varint (N.of_nat (length b)) ++ b = renc (RLen tag b).
Proof. exact nested_encode_exact. Qed.
(* an error from the nested marshaler is what EncodeNested returns (false = non-nil error) *)
Theorem C19_encode_error : forall fl tag msize e e',
  enc_nested e tag fl msize None = Ok (e', true) -> False.
Proof. exact nested_encode_error. Qed.

(* Decoding: the nested unmarshaler is handed exactly the declared bytes; the cursor advances by
   varint + |b| on success and does not move when the nested unmarshaler fails *)
Theorem C19_decode_exact : forall nested b fast pre post,
  N.of_nat (length b) <= max_len ->
  let B := pre ++ enc_varint (N.of_nat (length b)) ++ b ++ post in
  let d := mk B (length pre) fast in
  dec_nested nested d =
    if nested b then DOk b (mk B (length pre + size_of_varint (N.of_nat (length b)) + length b) fast)
    else DErr d.
Proof. exact nested_decode_exact. Qed.
(* a declared length beyond the buffer is rejected without invoking the nested decoder: C03_nested_not_consulted *)
Theorem C19_decode_overrun : forall n1 n2 d,
  Inv d -> is_err (dec_nested n1 d) = true -> (forall b, n1 b = true) -> dec_nested n2 d = dec_nested n1 d.
Proof. exact nested_not_consulted. Qed.

(* round trip through both: what EncodeNested wrote, DecodeNested hands to the nested unmarshaler *)
Theorem C19_roundtrip : forall fl tag b fast pre post nested,
  tag_ok tag -> N.of_nat (length b) <= max_len ->
  let n := (size_key tag + size_of_varint (N.of_nat (length b)) + length b)%nat in
  forall e', enc_nested {| ebuf := pre ++ zeros n ++ post; eoff := length pre |} tag fl (length b) (Some b) = Ok (e', true) ->
  exists n1,
    dec_tag (mk (ebuf e') (length pre) fast) = DOk (tag, 2) (mk (ebuf e') (length pre + n1) fast) /\
    dec_nested nested (mk (ebuf e') (length pre + n1) fast) =
      if nested b then DOk b (mk (ebuf e') (eoff e') fast) else DErr (mk (ebuf e') (length pre + n1) fast).
Proof. exact nested_roundtrip. Qed.

Example C19_ex :
  enc_nested {| ebuf := zeros 5; eoff := 0 |} 3 NMarshal 0 (Some [8; 150; 1])
  = Ok ({| ebuf := [26; 3; 8; 150; 1]; eoff := 5 |}, true).
Proof. vm_compute. reflexivity. Qed.

Print Assumptions C19_encode_exact.
Print Assumptions C19_encode_error.
Print Assumptions C19_decode_exact.
Print Assumptions C19_decode_overrun.
Print Assumptions C19_roundtrip.
