(* C07 -- unknown fields survive Unmarshal followed by Marshal.  Statements only. *)
From CsProto Require Import Prelude Varint ZigZag Codec RefWire WireStmts Schema GenMarshal RefMsg GenStmts GenUnmarshal GenLegal GenUProofs.
Local Open Scope N_scope.

(* the fields of the input the message's schema does not declare, in input order *)
Definition undeclared (md : mdesc) (flds : list rfield) : list rfield :=
  filter (fun f => match find_field md (rnum f) with None => true | Some _ => false end) flds.
Definition unknown_of (v : gval) : list byte := match v with GMsg _ u => u | _ => [] end.

(* retained: after the generated Unmarshal of a legal encoding, the message's unknown-field storage holds
   exactly the raw encodings (key and payload) of the undeclared fields, in input order *)
Theorem C07_unknown_retained : forall sc ty p fast dest m al flds,
  schema_ok sc = true -> legal_msg sc (S (length p)) ty p = true ->
  canonical_fields p = Some flds ->
  gen_unmarshal_into sc fast ty dest p = UOk m al ->
  unknown_of m = concat (map renc (undeclared (nth ty sc empty_md) flds)).
Proof. exact unknown_retained. Qed.

(* re-emitted and counted: the next Marshal of that message returns bytes whose length Size() reports and
   which the reference reads back as the same message as the original input -- unknown fields of every
   nesting level included, byte for byte.  The size hypothesis is the one of C04/C05 (Marshal's int32
   size arithmetic): it does not follow from the legality of the input, because re-marshaling a list
   that is declared unpacked but arrived packed puts a key before every element. *)
Theorem C07_unknown_roundtrip : forall sc ty p fast dest m al,
  schema_ok sc = true -> legal_msg sc (S (length p)) ty p = true -> no_dup_msgs sc (S (length p)) ty p = true ->
  gen_unmarshal_into sc fast ty dest p = UOk m al ->
  N.of_nat (gen_size sc (S (vdepth m)) ty m) < 2^31 ->
  exists b v v', gen_marshal sc ty m = MBytes b /\ length b = gen_size sc (S (vdepth m)) ty m /\
    ref_decode sc (S (length p)) ty p = Some v /\ ref_decode sc (S (length b)) ty b = Some v' /\
    forall fuel, (vdepth v < fuel)%nat -> (vdepth v' < fuel)%nat -> normalize sc fuel ty v' = normalize sc fuel ty v.
Proof. exact unknown_roundtrip. Qed.

Definition c07_sc : schema := [ {| mproto2 := false; mfields := [ {| fnum := 1; fkind_ := FNum KInt32; fcard_ := CImplicit |} ] |} ].
Example C07_ex :
  gen_unmarshal_into c07_sc false 0 GAbsent [16; 7; 8; 5; 250; 1; 1; 9; 29; 1; 2; 3; 4]
    = UOk (GMsg [(1, GNum 5)] [16; 7; 250; 1; 1; 9; 29; 1; 2; 3; 4]) false /\
  gen_marshal c07_sc 0 (GMsg [(1, GNum 5)] [16; 7; 250; 1; 1; 9; 29; 1; 2; 3; 4]) = MBytes [8; 5; 16; 7; 250; 1; 1; 9; 29; 1; 2; 3; 4].
Proof. vm_compute. split; reflexivity. Qed.

Print Assumptions C07_unknown_retained.
Print Assumptions C07_unknown_roundtrip.
