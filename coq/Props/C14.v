(* C14 -- pooled lazy-decode results are isolated across reuse.  Statements only. *)
From CsProto Require Import Prelude Varint ZigZag Codec RefWire WireStmts Lazy Pool PoolSpec PoolProofs.
Local Open Scope N_scope.

(* For every definition, every history of Decode / FieldData(path) / NestedResults / Range / Close
   operations over any number of simultaneously live results, every choice sync.Pool.Get makes
   (any pooled object or a fresh clone), every max-buffer value, buffer filter and capacity outcome
   in trunc(): no operation panics, and every observation is exactly what a fresh decode of the
   observed result's own input gives -- never data left over from an earlier, closed result. *)
Theorem C14_isolation : forall D truncs ops,
  def_valid (def_depth D) D = true ->
  exists s', prun D false truncs pinit ops = Some (spec_run D [] ops, s').
Proof. exact isolation. Qed.

(* the invariant behind it: whatever sits in a pool has no recorded data and no closers *)
Definition clean (o : pobj) : Prop := Forall (fun fd => fdat fd = []) (odata o) /\ oclosers o = [].
Theorem C14_pools_clean : forall D truncs ops obs s',
  def_valid (def_depth D) D = true ->
  prun D false truncs pinit ops = Some (obs, s') ->
  Forall (fun pl => Forall clean (snd pl)) (spools s').
Proof. exact pools_clean. Qed.

(* the defect on the pinned tree, expressed in the same model: trunc() made a closers slice of n nil
   pointers, and a later Close dereferenced them *)
Definition refute_def := LDef [(1, None); (3, Some (LDef [(1, None)]))]%Z.
Definition refute_input : list byte := [26; 2; 8; 1; 26; 2; 8; 2; 26; 2; 8; 3].
Example C14_pinned_refuted :
  prun refute_def true (fun _ => [(1, true)]%nat) pinit
    [PDecode 0 refute_input 0; PNestedObs 0 3 1 AInt32 false [0; 0; 0]%nat; PClose 0;
     PDecode 1 refute_input 0; PNestedObs 1 3 1 AInt32 false [0; 0; 0]%nat; PClose 1] = None
  /\ exists s', prun refute_def false (fun _ => [(1, true)]%nat) pinit
    [PDecode 0 refute_input 0; PNestedObs 0 3 1 AInt32 false [0; 0; 0]%nat; PClose 0;
     PDecode 1 refute_input 0; PNestedObs 1 3 1 AInt32 false [0; 0; 0]%nat; PClose 1]
    = Some ([QOk; QNested (NList [AOk (AvNum 1); AOk (AvNum 2); AOk (AvNum 3)]); QOk;
             QOk; QNested (NList [AOk (AvNum 1); AOk (AvNum 2); AOk (AvNum 3)]); QOk], s').
Proof. split; [vm_compute; reflexivity | eexists; vm_compute; reflexivity]. Qed.

Print Assumptions C14_isolation.
Print Assumptions C14_pools_clean.
