(* C10 -- safe-mode decoding never aliases the caller's buffer.  Statements only. *)
From CsProto Require Import Prelude Varint ZigZag Codec RefWire WireStmts Schema GenMarshal RefMsg GenStmts GenUnmarshal GenLegal GenUProofs Lazy.
Local Open Scope N_scope.

(* The wire decoder tells for every byte-valued item it hands out whether it is a sub-slice of the input
   (VBytes _ true) or a copy (VBytes _ false); that flag is compared with the real Decoder on every
   run of the C01/C03 correspondence.  In safe mode no string or bytes value aliases the input: *)
Theorem C10_decoder_safe_copies : forall nested d op b al d',
  dfast d = false -> dstep nested d op = DOk (VBytes b al) d' -> al = false.
Proof. exact decoder_safe_copies. Qed.

(* ... hence no string, bytes, repeated-bytes, map, oneof or nested-message content of a message built by
   the generated Unmarshal without the unsafe-decode option aliases the input (unknown fields are appended
   copies by construction): the model threads the "some datum aliases the input" flag through every
   snippet and it is false. *)
Theorem C10_generated_safe : forall sc ty p dest m al,
  gen_unmarshal_into sc false ty dest p = UOk m al -> al = false.
Proof. exact generated_safe. Qed.

(* and with the option on, aliasing is exactly what the user opted into: it can only come from
   string/bytes data *)
Example C10_unsafe_aliases :
  gen_unmarshal_into [ {| mproto2 := false; mfields := [ {| fnum := 2; fkind_ := FString; fcard_ := CImplicit |} ] |} ] true 0 GAbsent [18; 2; 104; 105]
  = UOk (GMsg [(2, GBytes [104; 105])] []) true /\
  gen_unmarshal_into [ {| mproto2 := false; mfields := [ {| fnum := 2; fkind_ := FString; fcard_ := CImplicit |} ] |} ] false 0 GAbsent [18; 2; 104; 105]
  = UOk (GMsg [(2, GBytes [104; 105])] []) false.
Proof. vm_compute. split; reflexivity. Qed.

Print Assumptions C10_decoder_safe_copies.
Print Assumptions C10_generated_safe.
