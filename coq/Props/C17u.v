(* C17 (second direction) -- required fields are enforced by the generated Unmarshal.  Statements only. *)
From CsProto Require Import Prelude Varint ZigZag Codec RefWire WireStmts Schema GenMarshal RefMsg GenStmts GenUnmarshal GenLegal GenUProofs.
Local Open Scope N_scope.

(* Unmarshal: on every legal encoding, the generated Unmarshal returns an error exactly when the message
   the reference reads from those bytes lacks a required field -- the empty input included; bytes
   carrying all required fields never produce a required-field error.  (Corollary of C06_legal_encodings.) *)
Theorem C17_unmarshal_error_iff : forall sc ty p fast dest,
  schema_ok sc = true -> legal_msg sc (S (length p)) ty p = true -> no_dup_msgs sc (S (length p)) ty p = true ->
  exists v, ref_decode sc (S (length p)) ty p = Some v /\
    (gen_unmarshal_into sc fast ty dest p = UErr <-> requireds_set sc (S (vdepth v)) ty v = false).
Proof. exact unmarshal_error_iff. Qed.

Definition rq_sc : schema := [
 {| mproto2 := true; mfields := [ {| fnum := 1; fkind_ := FNum KInt32; fcard_ := CRequired |}; {| fnum := 2; fkind_ := FString; fcard_ := COptional |} ] |};
 {| mproto2 := true; mfields := [ {| fnum := 1; fkind_ := FBytes; fcard_ := CMap FString (FMsg 0) |}; {| fnum := 2; fkind_ := FMsg 0; fcard_ := COneof 0 |};
                                  {| fnum := 4; fkind_ := FNum KInt64; fcard_ := COptional |} ] |} ].
Example C17_ex_unmarshal :
  gen_unmarshal_into rq_sc false 0 GAbsent [] = UErr /\
  gen_unmarshal_into rq_sc false 0 GAbsent [18; 1; 97] = UErr /\
  gen_unmarshal_into rq_sc false 0 GAbsent [8; 0] = UOk (GMsg [(1, GNum 0)] []) false /\
  gen_unmarshal_into rq_sc false 1 GAbsent [] = UOk (GMsg [] []) false.
Proof. vm_compute. repeat split; reflexivity. Qed.

Print Assumptions C17_unmarshal_error_iff.
