(* C17 -- proto2 required fields are enforced in both directions.  Statements only. *)
From CsProto Require Import Prelude Varint ZigZag Codec RefWire WireStmts Schema GenMarshal RefMsg GenStmts GenProofs.
Local Open Scope N_scope.

(* Marshal returns the required-field error exactly when a required field of the message itself or of
   any message reached while marshaling (set message fields, list elements, map values, oneof
   members) is unset -- the empty message included; a message with all required fields set never errs. *)
Theorem C17_marshal_error_iff : forall sc ty v,
  schema_ok sc = true -> value_ok sc (S (vdepth v)) ty v = true ->
  N.of_nat (gen_size sc (S (vdepth v)) ty v) < 2^31 ->
  (gen_marshal sc ty v = MErr <-> requireds_set sc (S (vdepth v)) ty v = false).
Proof. exact marshal_error_iff. Qed.

Definition rq_sc : schema := [
 {| mproto2 := true; mfields := [ {| fnum := 1; fkind_ := FNum KInt32; fcard_ := CRequired |}; {| fnum := 2; fkind_ := FString; fcard_ := COptional |} ] |};
 {| mproto2 := true; mfields := [ {| fnum := 1; fkind_ := FBytes; fcard_ := CMap FString (FMsg 0) |}; {| fnum := 2; fkind_ := FMsg 0; fcard_ := COneof 0 |};
                                  {| fnum := 4; fkind_ := FNum KInt64; fcard_ := COptional |} ] |} ].
Example C17_ex :
  gen_marshal rq_sc 0 (GMsg [] []) = MErr /\ requireds_set rq_sc 2 0 (GMsg [] []) = false /\
  gen_marshal rq_sc 1 (GMsg [(2, GMsg [] [])] []) = MErr /\
  gen_marshal rq_sc 1 (GMsg [(1, GMap [(GBytes [45], GMsg [] [])])] []) = MErr /\
  gen_marshal rq_sc 1 (GMsg [(2, GMsg [(1, GNum 0)] [])] []) = MBytes [18; 2; 8; 0] /\
  gen_marshal rq_sc 1 (GMsg [] []) = MBytes [].
Proof. vm_compute. repeat split; reflexivity. Qed.

Print Assumptions C17_marshal_error_iff.
