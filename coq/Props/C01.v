(* C01 -- wire primitives round-trip exactly and sizes are exact.  Statements only; proofs in Wire/CodecProofs.v *)
From CsProto Require Import Prelude Varint VarintSize ZigZag Codec RefWire WireStmts CodecProofs.
Local Open Scope N_scope.

(* size helpers predict exactly what the writers emit *)
Theorem C01_varint_size : forall v, v < 2^64 -> length (enc_varint v) = size_of_varint v.
Proof. exact enc_varint_size. Qed.
Theorem C01_zigzag_size : forall v, (- 2^63 <= v < 2^63)%Z ->
  length (enc_varint (Z.to_N (enc_zz64 v))) = size_of_zigzag (u64z v).
Proof. exact zigzag_size. Qed.
Theorem C01_key_size : forall tag wt, tag_ok tag -> wt < 8 -> length (enc_key tag wt) = size_key tag.
Proof. exact key_size. Qed.

(* every encoder method, on a buffer with exactly the predicted room at the cursor, fills that room
   exactly: no panic, no slack, nothing outside it touched, cursor advanced by the prediction *)
Theorem C01_encode_exact : forall op pre room post,
  op_ok op -> length room = esize op ->
  estep {| ebuf := pre ++ room ++ post; eoff := length pre |} op
    = Ok {| ebuf := pre ++ ebytes op ++ post; eoff := (length pre + esize op)%nat |}
  /\ length (ebytes op) = esize op.
Proof. exact encode_exact. Qed.

(* ... and one byte less room makes the indexed writers panic instead of overrunning (scalars) *)
Theorem C01_encode_short_panics : forall k tag v pre room,
  tag_ok tag -> in_dom k v = true -> (length room < esize (EScalar k tag v))%nat ->
  estep {| ebuf := pre ++ room; eoff := length pre |} (EScalar k tag v) = Panic.
Proof. exact encode_short_panics. Qed.

(* reading back what was written, in safe and in fast mode, at any position, whatever follows *)
Theorem C01_roundtrip_scalar : forall k tag v fast pre post,
  tag_ok tag -> in_dom k v = true ->
  let B := pre ++ ebytes (EScalar k tag v) ++ post in
  exists n1,
    dec_tag (mk B (length pre) fast) = DOk (tag, wt_of k) (mk B (length pre + n1) fast) /\
    dec_scalar (mk B (length pre + n1) fast) k
      = DOk v (mk B (length pre + esize (EScalar k tag v)) fast).
Proof. exact roundtrip_scalar. Qed.

Theorem C01_roundtrip_bytes : forall tag b fast pre post,
  tag_ok tag -> N.of_nat (length b) <= max_len ->
  let B := pre ++ ebytes (EBytes tag b) ++ post in
  exists n1,
    dec_tag (mk B (length pre) fast) = DOk (tag, 2) (mk B (length pre + n1) fast) /\
    dec_bytes (mk B (length pre + n1) fast)
      = DOk b (mk B (length pre + esize (EBytes tag b)) fast).
Proof. exact roundtrip_bytes. Qed.

Theorem C01_roundtrip_packed : forall k tag vs fast pre post,
  tag_ok tag -> vs <> [] -> Forall (fun v => in_dom k v = true) vs -> N.of_nat (packed_len k vs) < 2^63 ->
  let B := pre ++ ebytes (EPacked k tag vs) ++ post in
  exists n1,
    dec_tag (mk B (length pre) fast) = DOk (tag, 2) (mk B (length pre + n1) fast) /\
    dec_packed (mk B (length pre + n1) fast) k
      = DOk vs (mk B (length pre + esize (EPacked k tag vs)) fast).
Proof. exact roundtrip_packed. Qed.

(* non-vacuity: concrete non-trivial instances *)
Example C01_ex1 : op_ok (EScalar KSInt64 536870911 (- 2^63)) /\ op_ok (EPacked KInt32 1 [-1; 0; 2147483647]%Z).
Proof. unfold op_ok, tag_ok, max_tag. repeat split; try lia; repeat constructor. Qed.
Example C01_ex2 :
  fst (drun (fun _ => true) (mk (ebytes (EPacked KInt32 5 [-1; 300]%Z)) 0 false) [DTag; DPacked KInt32])
  = [DOk (VTag 5 2) (mk (ebytes (EPacked KInt32 5 [-1; 300]%Z)) 1 false);
     DOk (VList [-1; 300]%Z) (mk (ebytes (EPacked KInt32 5 [-1; 300]%Z)) 14 false)].
Proof. vm_compute. reflexivity. Qed.

Print Assumptions C01_varint_size.
Print Assumptions C01_zigzag_size.
Print Assumptions C01_key_size.
Print Assumptions C01_encode_exact.
Print Assumptions C01_encode_short_panics.
Print Assumptions C01_roundtrip_scalar.
Print Assumptions C01_roundtrip_bytes.
Print Assumptions C01_roundtrip_packed.
