(* C09 -- Marshal output depends only on the message's current contents.  Statements only. *)
From CsProto Require Import Prelude Varint ZigZag Codec RefWire WireStmts Schema GenMarshal RefMsg GenStmts History HistoryProofs.
Local Open Scope N_scope.

(* The generated code with its size caches (History.hstep: Size() trusts a positive cache and stores what it
   computes, Marshal/MarshalTo take the buffer size and every nested length prefix from Size(), field
   assignments leave the caches alone, the runtime's own Size rewrites them, Unmarshal/Reset/Clone start
   from no cache) refines the cache-free specification (History.spec_step: every operation acts on the
   current contents; Marshal returns what marshaling a fresh copy returns) on every history, of any length,
   over {set/clear field at any depth, Size, Marshal, MarshalTo, runtime Size, Unmarshal, Reset, Clone}
   -- PROVIDED no field is assigned while a size is cached for the message that holds it or for a message
   containing that one ([history_fresh]).  That proviso is the recorded finding G14: without it the
   statement is false (C09_stale_cache_refuted below). *)
Theorem C09_size_cache_transparent : forall sc google s ops,
  schema_ok sc = true ->
  caches_valid sc google s ->
  history_fresh sc google s ops = true ->
  fst (hrun sc google s ops) = spec_run sc (hty s) (hroot s) ops.
Proof. exact size_cache_transparent. Qed.

(* ... in particular from a newly allocated message *)
Theorem C09_new_message : forall sc google ty ops,
  schema_ok sc = true ->
  history_fresh sc google (hinit ty) ops = true ->
  fst (hrun sc google (hinit ty) ops) = spec_run sc ty (GMsg [] []) ops.
Proof. exact new_message_histories. Qed.

(* the caches stay valid along such a history, and the contents evolve as in the specification *)
Theorem C09_invariant : forall sc google s ops,
  schema_ok sc = true ->
  caches_valid sc google s ->
  history_fresh sc google s ops = true ->
  caches_valid sc google (snd (hrun sc google s ops)).
Proof. exact caches_stay_valid. Qed.

(* Marshal never panics and never fails for a reason other than an unset required field or an oversized
   message on a fresh history: its observation is the one of the cache-free Marshal (for which C04 proves
   exactly that) *)
Theorem C09_marshal_is_fresh_marshal : forall sc google s ops,
  schema_ok sc = true ->
  caches_valid sc google s ->
  history_fresh sc google s ops = true ->
  fst (hstep sc google (snd (hrun sc google s ops)) HMarshal)
  = obs_of_mres (gen_marshal sc (hty s) (hroot (snd (hrun sc google s ops)))).
Proof. exact marshal_is_fresh_marshal. Qed.

(* G14, in the model: assign a field after Size() and the next Marshal works from the old size *)
Definition stale_sc : schema :=
  [ {| mproto2 := false; mfields := [ {| fnum := 1; fkind_ := FNum KInt32; fcard_ := CImplicit |} ] |} ].
Definition stale_history : list hop := [HSet [] 1 (GNum 1); HSize; HSet [] 1 (GNum 300); HMarshal].
Example C09_stale_cache_refuted :
  history_fresh stale_sc false (hinit 0) stale_history = false /\
  fst (hrun stale_sc false (hinit 0) stale_history) = [BOk; BSize 2; BOk; BPanic] /\
  spec_run stale_sc 0 (GMsg [] []) stale_history = [BOk; BSize 2; BOk; BBytes [8; 172; 2]].
Proof. vm_compute. repeat split. Qed.

(* non-vacuity: a twelve-step history with nested assignments, both runtimes *)
Definition ok_sc : schema :=
  [ {| mproto2 := false; mfields := [ {| fnum := 1; fkind_ := FNum KInt32; fcard_ := CImplicit |};
                                      {| fnum := 2; fkind_ := FMsg 1; fcard_ := CImplicit |} ] |};
    {| mproto2 := false; mfields := [ {| fnum := 1; fkind_ := FString; fcard_ := CImplicit |} ] |} ].
Definition ok_history : list hop :=
  [HSet [] 2 (GMsg [(1, GBytes [104;105])] []); HSize; HMarshal; HReset; HSet [] 1 (GNum 300); HSet [] 2 (GMsg [] []);
   HSet [2] 1 (GBytes [1;2;3]); HMarshalTo; HRtSize; HClone; HSet [2] 1 (GBytes [1]); HMarshal].
Example C09_premises_hold :
  schema_ok ok_sc = true /\ history_fresh ok_sc false (hinit 0) ok_history = true /\
  history_fresh ok_sc true (hinit 0) ok_history = true /\
  nth 11 (fst (hrun ok_sc true (hinit 0) ok_history)) BErr = BBytes [8; 172; 2; 18; 3; 10; 1; 1].
Proof. vm_compute. repeat split. Qed.

(* Concurrent Size() calls on a message nobody mutates: whatever the interleaving of the atomic loads and
   stores of the cache cell, and whether the cell starts empty or valid, every call returns the true size and
   the cell ends empty or valid.  (That the loads and stores ARE atomic, i.e. data-race freedom proper, is a
   property of the Go memory model and is checked by the race detector run of the correspondence harness.) *)
Theorem C09_concurrent_readers : forall bias truesize init sched,
  (0 <= truesize)%Z -> (0 <= bias)%Z ->
  (init <= 0 \/ init = truesize + bias)%Z ->
  Forall (fun r => snd r = truesize) (sresults (rrun bias truesize init sched)) /\
  (scache (rrun bias truesize init sched) <= 0 \/ scache (rrun bias truesize init sched) = truesize + bias)%Z.
Proof. exact concurrent_readers. Qed.

Print Assumptions C09_size_cache_transparent.
Print Assumptions C09_new_message.
Print Assumptions C09_invariant.
Print Assumptions C09_marshal_is_fresh_marshal.
Print Assumptions C09_concurrent_readers.
