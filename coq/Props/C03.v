(* C03 -- the decoder is total and bounds-safe on arbitrary bytes.  Statements only. *)
From CsProto Require Import Prelude Varint ZigZag Codec RefWire WireStmts CodecProofs.
Local Open Scope N_scope.

(* no call panics, from any in-range cursor, on any byte string, whatever the nested unmarshaler does *)
Theorem C03_step_no_panic : forall nested d op, Inv d -> dstep nested d op <> DPanic.
Proof. exact step_no_panic. Qed.
(* the cursor stays within [0, len(input)], the input is never changed *)
Theorem C03_step_inv : forall nested d op,
  Inv d -> match dstep nested d op with
           | DOk _ d' | DErr d' => Inv d' /\ dbuf d' = dbuf d
           | DPanic => False end.
Proof. exact step_inv. Qed.
(* every sequence of calls, every start offset, both modes *)
Theorem C03_run_safe : forall nested ops d, Inv d ->
  Forall (fun o => o <> DPanic) (fst (drun nested d ops)) /\
  exists d', snd (drun nested d ops) = Some d' /\ Inv d' /\ dbuf d' = dbuf d.
Proof. exact run_safe. Qed.

(* a successful read advances the cursor by exactly the item's encoded length, as the reference
   reader measures it on the bytes at the cursor, and that item lies inside the buffer *)
Theorem C03_exact_advance : forall nested d op v d',
  Inv d -> bytes_ok (dbuf d) -> is_read op = true -> dstep nested d op = DOk v d' ->
  doff d' = (doff d + item_len (skipn (doff d) (dbuf d)) op)%nat /\ (doff d' <= length (dbuf d))%nat.
Proof. exact exact_advance. Qed.
(* Skip returns the bytes from the start of the key to the new cursor *)
Theorem C03_skip_slice : forall d tag wt raw d',
  Inv d -> dec_skip d tag wt = DOk raw d' ->
  raw = slice (dbuf d) (doff d - size_key (u64z tag)) (doff d').
Proof. exact skip_slice. Qed.

(* a declared length that exceeds the remaining input is an error, and the nested unmarshaler is
   not consulted (the outcome does not depend on it) *)
Theorem C03_length_overrun_is_error : forall nested d op,
  Inv d -> bytes_ok (dbuf d) -> has_len op = true ->
  let p := skipn (doff d) (dbuf d) in
  ref_varint_len p <> None ->
  N.of_nat (length p) < N.of_nat (ref_vlen p) + ref_vval p mod 2^64 ->
  is_err (dstep nested d op) = true.
Proof. exact length_overrun_is_error. Qed.
Theorem C03_nested_not_consulted : forall n1 n2 d,
  Inv d -> is_err (dec_nested n1 d) = true -> (forall b, n1 b = true) -> dec_nested n2 d = dec_nested n1 d.
Proof. exact nested_not_consulted. Qed.

(* memory: a packed reader returns at most one element per byte it consumed, and the capacity it
   reserves up front never exceeds the bytes that are really there *)
Theorem C03_alloc_bound : forall d k l d',
  Inv d -> dec_packed d k = DOk l d' ->
  (length l <= doff d' - doff d)%nat /\ dec_packed_reserve d k <= N.of_nat (length (dbuf d) - doff d).
Proof. exact alloc_bound. Qed.
Theorem C03_reserve_bound : forall d k, Inv d -> dec_packed_reserve d k <= N.of_nat (length (dbuf d) - doff d).
Proof. exact reserve_bound. Qed.

Example C03_ex : Inv (mk [10; 255; 255; 255; 255; 15; 1] 0 false)
  /\ dstep (fun _ => true) (mk [10; 255; 255; 255; 255; 15; 1] 1 false) DBytes = DErr (mk [10; 255; 255; 255; 255; 15; 1] 1 false)
  /\ dstep (fun _ => true) (mk [13; 0; 0; 128] 1 false) (DScalar KFloat) = DErr (mk [13; 0; 0; 128] 1 false).
Proof. unfold Inv. cbn [doff dbuf mk length]. split; [lia|]. split; vm_compute; reflexivity. Qed.

Print Assumptions C03_step_no_panic.
Print Assumptions C03_step_inv.
Print Assumptions C03_run_safe.
Print Assumptions C03_exact_advance.
Print Assumptions C03_skip_slice.
Print Assumptions C03_length_overrun_is_error.
Print Assumptions C03_nested_not_consulted.
Print Assumptions C03_alloc_bound.
Print Assumptions C03_reserve_bound.
