(* C16 -- the generator is total, deterministic and emits compiling code.
   What a Gallina model can carry of this property is the plug-in's decision logic (which messages are
   visited, how output files are named, how options are read); that the emitted TEXT is valid Go for every
   schema is established only over the corpus, by generating and compiling (see the evidence).
   Statements only. *)
From CsProto Require Import Prelude GenNames GenNamesProofs.
From Coq Require Import Permutation.
Local Open Scope N_scope.

(* every message definition of the file, at any nesting depth, is visited exactly once *)
Theorem C16_every_message_once : forall forest, Permutation (all_messages forest) (flatten_forest forest).
Proof. exact every_message_once. Qed.

(* single-file mode writes exactly one file, with the documented name *)
Theorem C16_single_file_name : forall prefix forest, out_names prefix false forest = [prefix ++ s_pb_fm_go].
Proof. reflexivity. Qed.

(* per-message mode: one file per message; the names are pairwise distinct EXACTLY when the lower-cased
   short names of the messages are -- which a valid schema does not guarantee (recorded finding G17) *)
Theorem C16_per_message_names_distinct_iff : forall prefix forest,
  NoDup (out_names prefix true forest) <-> NoDup (map (map lower) (all_messages forest)).
Proof. exact per_message_names_distinct_iff. Qed.
Theorem C16_per_message_one_file_each : forall prefix forest,
  length (out_names prefix true forest) = length (flatten_forest forest).
Proof. exact per_message_one_file_each. Qed.

(* "Item" and "ITEM", and two nested "Inner" definitions, collide *)
Example C16_names_refuted :
  out_names [120] true [MNode [73;116;101;109] []; MNode [73;84;69;77] []]
    = [[120;95;105;116;101;109;46;112;98;46;102;109;46;103;111]; [120;95;105;116;101;109;46;112;98;46;102;109;46;103;111]] /\
  ~ NoDup (out_names [120] true [MNode [65] [MNode [73;110] []]; MNode [66] [MNode [73;110] []]]).
Proof.
  split; [vm_compute; reflexivity|].
  vm_compute. intros H. inversion H as [|? ? _ H1]; subst. inversion H1 as [|? ? _ H2]; subst.
  inversion H2 as [|? ? Hin _]; subst. apply Hin. left. reflexivity.
Qed.

(* options: every documented parameter value is accepted and has exactly its effect; anything else is an error *)
Theorem C16_options : forall o,
  apply_opt o KApi [118; 50] = Some {| o_api_v2 := true; o_per_message := o_per_message o; o_unsafe := o_unsafe o; o_special := o_special o |} /\
  apply_opt o KApi [86; 49] = Some {| o_api_v2 := false; o_per_message := o_per_message o; o_unsafe := o_unsafe o; o_special := o_special o |} /\
  apply_opt o KPerMsg [116;114;117;101] = Some {| o_api_v2 := o_api_v2 o; o_per_message := true; o_unsafe := o_unsafe o; o_special := o_special o |} /\
  apply_opt o KUnsafe [116;114;117;101] = Some {| o_api_v2 := o_api_v2 o; o_per_message := o_per_message o; o_unsafe := true; o_special := o_special o |} /\
  apply_opt o KApi [118; 51] = None /\ (forall v, apply_opt o KOtherKey v = None).
Proof. intros o. repeat split; reflexivity. Qed.

Print Assumptions C16_every_message_once.
Print Assumptions C16_single_file_name.
Print Assumptions C16_per_message_names_distinct_iff.
Print Assumptions C16_per_message_one_file_each.
Print Assumptions C16_options.
