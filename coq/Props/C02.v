(* C02 -- conformance to the canonical protobuf wire format; Skip.  Statements only. *)
From CsProto Require Import Prelude Varint ZigZag Codec RefWire WireStmts CodecProofs.
Local Open Scope N_scope.

(* the bytes the encoder writes are the reference encoding of the field *)
Theorem C02_varint_canonical : forall v, v < 2^64 -> enc_varint v = ref_varint v.
Proof. exact varint_canonical. Qed.
Theorem C02_scalar_canonical : forall k tag v, tag_ok tag -> in_dom k v = true ->
  ebytes (EScalar k tag v) = renc (ref_field k tag v) /\ rfield_wf (ref_field k tag v).
Proof. exact scalar_canonical. Qed.
Theorem C02_bytes_canonical : forall tag b, tag_ok tag -> N.of_nat (length b) < 2^63 ->
  ebytes (EBytes tag b) = renc (RLen tag b).
Proof. exact bytes_canonical. Qed.
Theorem C02_packed_canonical : forall k tag vs, tag_ok tag -> vs <> [] ->
  Forall (fun v => in_dom k v = true) vs -> N.of_nat (packed_len k vs) < 2^63 ->
  ebytes (EPacked k tag vs) = renc (ref_packed k tag vs).
Proof. exact packed_canonical. Qed.

(* the decoder returns the reference's value for every well-formed reference encoding: every field
   number up to 2^29-1, 10-byte sign-extended negatives included (they are what ref_field produces) *)
Theorem C02_decode_reference : forall k tag v fast pre post,
  tag_ok tag -> in_dom k v = true ->
  let B := pre ++ renc (ref_field k tag v) ++ post in
  exists n1,
    dec_tag (mk B (length pre) fast) = DOk (tag, wt_of k) (mk B (length pre + n1) fast) /\
    dec_scalar (mk B (length pre + n1) fast) k
      = DOk v (mk B (length pre + length (renc (ref_field k tag v))) fast).
Proof. exact decode_reference. Qed.

(* the reference parser reads back the reference encoding (sanity of the reference itself) *)
Theorem C02_ref_parse_renc : forall f post, rfield_wf f ->
  ref_parse_field (renc f ++ post) = Some (f, length (renc f)).
Proof. exact ref_parse_renc. Qed.

(* Skip: iterating DecodeTag; Skip(tag, wt) over any concatenation of well-formed fields returns
   exactly each field's complete raw encoding (key and payload), leaves the cursor on the next
   field, and ends exactly at the end of the input; hence the concatenation of the skipped slices
   is the input.  Both decoder modes. *)
(* [skip_all] is defined in Wire/WireStmts.v *)
Theorem C02_skip_fields : forall fs fast pre,
  Forall rfield_wf fs ->
  let B := pre ++ concat (map renc fs) in
  skip_all (S (length fs)) (mk B (length pre) fast) [] = DOk (map renc fs) (mk B (length B) fast).
Proof. exact skip_fields. Qed.
Corollary C02_skip_concat : forall fs fast, Forall rfield_wf fs ->
  exists raws d, skip_all (S (length fs)) (mk (concat (map renc fs)) 0 fast) [] = DOk raws d
                 /\ concat raws = concat (map renc fs) /\ doff d = length (dbuf d).
Proof.
  intros fs fast H. exists (map renc fs), (mk (concat (map renc fs)) (length (concat (map renc fs))) fast).
  split; [exact (skip_fields fs fast [] H)|split; reflexivity].
Qed.

Example C02_ex : Forall rfield_wf [RVarint 1 300; RLen 536870911 [1;2;3]; RFixed32 16 [0;0;128;63]; RFixed64 2 [1;2;3;4;5;6;7;8]]
  /\ renc (ref_field KInt32 1 (-1)) = [8; 255;255;255;255;255;255;255;255;255;1].
Proof.
  split; [|vm_compute; reflexivity].
  repeat constructor; cbn; lia.
Qed.

Print Assumptions C02_varint_canonical.
Print Assumptions C02_scalar_canonical.
Print Assumptions C02_bytes_canonical.
Print Assumptions C02_packed_canonical.
Print Assumptions C02_decode_reference.
Print Assumptions C02_ref_parse_renc.
Print Assumptions C02_skip_fields.
Print Assumptions C02_skip_concat.
