(* C01, source-level half -- the size helpers, EncodeVarint / EncodeTag / EncodeZigZag and DecodeVarint / DecodeZigZag
   AS THEY ARE WRITTEN in /repo's sizeof.go, encoder.go and decoder.go now: Src/SrcWire.v is regenerated from the Go
   source by harness/cmd/go2coq on every run, so these theorems are re-checked against what the code says.
   Statements only. *)
From CsProto Require Import Prelude Varint ZigZag Codec WireStmts GoSem SrcWire SrcLink SrcEncProofs SrcDecProofs SrcCompose SrcEncoderLink SrcEncMethods SrcEncCompose.
Local Open Scope Z_scope.

(* sizeof.go's SizeOfVarint(v) is exactly the number of bytes encoder.go's EncodeVarint(dest, v) writes: enough room ->
   that many cells overwritten, that count returned, nothing else touched; less room -> the write panics *)
Theorem C01_src_varint_size_exact : forall fuel dest v, (11 <= fuel)%nat -> 0 <= v < 2^64 ->
  (go_SizeOfVarint v <= go_len dest ->
     go_EncodeVarint fuel dest v = Val (go_SizeOfVarint v, overwrite dest (bytesZ (enc_varint (Z.to_N v))))
     /\ go_len (bytesZ (enc_varint (Z.to_N v))) = go_SizeOfVarint v)
  /\ (go_len dest < go_SizeOfVarint v -> go_EncodeVarint fuel dest v = GoPanic).
Proof. exact src_varint_size_exact. Qed.
Print Assumptions C01_src_varint_size_exact.

(* decoder.go's DecodeVarint reads back what EncodeVarint wrote and consumes SizeOfVarint(v) bytes, whatever follows *)
Theorem C01_src_varint_roundtrip : forall fuel v rest, (11 <= fuel)%nat -> 0 <= v < 2^64 -> byte_range rest ->
  go_DecodeVarint fuel (bytesZ (enc_varint (Z.to_N v)) ++ rest) = Val (v, go_SizeOfVarint v, None).
Proof. exact src_varint_roundtrip. Qed.
Print Assumptions C01_src_varint_roundtrip.

(* SizeOfTagKey(tag) is the length of what EncodeTag(dest, tag, wt) writes, for every valid field number and wire type *)
Theorem C01_src_key_size_exact : forall fuel dest tag wt, (11 <= fuel)%nat -> 1 <= tag <= 536870911 -> 0 <= wt < 8 ->
  go_SizeOfTagKey tag <= go_len dest ->
  go_EncodeTag fuel dest tag wt = Val (go_SizeOfTagKey tag, overwrite dest (bytesZ (enc_key (Z.to_N tag) (Z.to_N wt))))
  /\ go_len (bytesZ (enc_key (Z.to_N tag) (Z.to_N wt))) = go_SizeOfTagKey tag.
Proof. exact src_key_size_exact. Qed.
Print Assumptions C01_src_key_size_exact.

(* SizeOfZigZag(uint64(v)) is the length of what EncodeZigZag64(dest, v) writes; DecodeZigZag64 reads v back *)
Theorem C01_src_zigzag64_exact : forall fuel dest v, (11 <= fuel)%nat -> - 2^63 <= v < 2^63 ->
  go_SizeOfZigZag (wrap_u 64 v) <= go_len dest ->
  go_EncodeZigZag64 fuel dest v
    = Val (go_SizeOfZigZag (wrap_u 64 v), overwrite dest (bytesZ (enc_varint (Z.to_N (enc_zz64 v))))).
Proof. exact src_zigzag64_exact. Qed.
Print Assumptions C01_src_zigzag64_exact.
Theorem C01_src_zigzag64_roundtrip : forall fuel v rest, (11 <= fuel)%nat -> - 2^63 <= v < 2^63 -> byte_range rest ->
  go_DecodeZigZag64 fuel (bytesZ (enc_varint (Z.to_N (enc_zz64 v))) ++ rest)
    = Val (v, go_SizeOfZigZag (wrap_u 64 v), None).
Proof. exact src_zigzag64_roundtrip. Qed.
Print Assumptions C01_src_zigzag64_roundtrip.

(* the translated source IS the hand-written model (which the other C01 theorems are about, and which the
   correspondence check runs against the compiled code): sizes, the zig-zag expressions, the 32-bit variants *)
Theorem C01_src_SizeOfVarint_is_model : forall v, 0 <= v < 2^64 -> go_SizeOfVarint v = Z.of_nat (size_of_varint (Z.to_N v)).
Proof. exact src_SizeOfVarint. Qed.
Print Assumptions C01_src_SizeOfVarint_is_model.
Theorem C01_src_SizeOfTagKey_is_model : forall k, 0 <= k < 2^63 -> go_SizeOfTagKey k = Z.of_nat (size_key (Z.to_N k)).
Proof. exact src_SizeOfTagKey. Qed.
Print Assumptions C01_src_SizeOfTagKey_is_model.
Theorem C01_src_SizeOfZigZag_is_model : forall v, 0 <= v < 2^64 -> go_SizeOfZigZag v = Z.of_nat (size_of_zigzag (Z.to_N v)).
Proof. exact src_SizeOfZigZag. Qed.
Print Assumptions C01_src_SizeOfZigZag_is_model.
Theorem C01_src_EncodeZigZag32_is_model : forall fuel dest v, - 2^31 <= v < 2^31 ->
  go_EncodeZigZag32 fuel dest v = go_EncodeVarint fuel dest (enc_zz32 v).
Proof. exact src_EncodeZigZag32. Qed.
Print Assumptions C01_src_EncodeZigZag32_is_model.
Theorem C01_src_DecodeZigZag32_is_model : forall fuel p, (11 <= fuel)%nat -> byte_range p ->
  go_DecodeZigZag32 fuel p = Val (lift_zz dec_zz32 (dec_varint (bytesN p))).
Proof. exact src_DecodeZigZag32. Qed.
Print Assumptions C01_src_DecodeZigZag32_is_model.

(* ---- the Encoder methods AS WRITTEN in encoder.go (EncodeBool, EncodeUInt32/64, EncodeInt32/64, EncodeSInt32/64,
   EncodeMapEntryHeader): on a buffer  pre ++ room ++ post  with the cursor after pre and exactly the predicted room, the method
   returns normally with the buffer  pre ++ <the field's encoding> ++ post  (nothing outside the room touched) and the cursor
   advanced by the prediction; [exact_outcome pre post r op] says exactly that of the translated call's result r.
   Each is the composition of "translated method = model step" (also stated below) with C01_encode_exact. *)
Theorem C01_src_EncodeBool_exact : forall fuel pre room post tag, (11 <= fuel)%nat -> buf_ok pre room post -> 1 <= tag <= 536870911 ->
  forall b, List.length room = esize (EScalar KBool (Z.to_N tag) (conv_b b)) ->
  exact_outcome pre post (go_Encoder_EncodeBool fuel (bytesZ (pre ++ room ++ post)) (Z.of_nat (List.length pre)) tag b)
                (EScalar KBool (Z.to_N tag) (conv_b b)).
Proof. exact src_exact_EncodeBool. Qed.
Print Assumptions C01_src_EncodeBool_exact.
Theorem C01_src_EncodeUInt32_exact : forall fuel pre room post tag, (11 <= fuel)%nat -> buf_ok pre room post -> 1 <= tag <= 536870911 ->
  forall v, 0 <= v < 2^32 -> List.length room = esize (EScalar KUInt32 (Z.to_N tag) v) ->
  exact_outcome pre post (go_Encoder_EncodeUInt32 fuel (bytesZ (pre ++ room ++ post)) (Z.of_nat (List.length pre)) tag v)
                (EScalar KUInt32 (Z.to_N tag) v).
Proof. exact src_exact_EncodeUInt32. Qed.
Print Assumptions C01_src_EncodeUInt32_exact.
Theorem C01_src_EncodeUInt64_exact : forall fuel pre room post tag, (11 <= fuel)%nat -> buf_ok pre room post -> 1 <= tag <= 536870911 ->
  forall v, 0 <= v < 2^64 -> List.length room = esize (EScalar KUInt64 (Z.to_N tag) v) ->
  exact_outcome pre post (go_Encoder_EncodeUInt64 fuel (bytesZ (pre ++ room ++ post)) (Z.of_nat (List.length pre)) tag v)
                (EScalar KUInt64 (Z.to_N tag) v).
Proof. exact src_exact_EncodeUInt64. Qed.
Print Assumptions C01_src_EncodeUInt64_exact.
Theorem C01_src_EncodeInt32_exact : forall fuel pre room post tag, (11 <= fuel)%nat -> buf_ok pre room post -> 1 <= tag <= 536870911 ->
  forall v, - 2^31 <= v < 2^31 -> List.length room = esize (EScalar KInt32 (Z.to_N tag) v) ->
  exact_outcome pre post (go_Encoder_EncodeInt32 fuel (bytesZ (pre ++ room ++ post)) (Z.of_nat (List.length pre)) tag v)
                (EScalar KInt32 (Z.to_N tag) v).
Proof. exact src_exact_EncodeInt32. Qed.
Print Assumptions C01_src_EncodeInt32_exact.
Theorem C01_src_EncodeInt64_exact : forall fuel pre room post tag, (11 <= fuel)%nat -> buf_ok pre room post -> 1 <= tag <= 536870911 ->
  forall v, - 2^63 <= v < 2^63 -> List.length room = esize (EScalar KInt64 (Z.to_N tag) v) ->
  exact_outcome pre post (go_Encoder_EncodeInt64 fuel (bytesZ (pre ++ room ++ post)) (Z.of_nat (List.length pre)) tag v)
                (EScalar KInt64 (Z.to_N tag) v).
Proof. exact src_exact_EncodeInt64. Qed.
Print Assumptions C01_src_EncodeInt64_exact.
Theorem C01_src_EncodeSInt32_exact : forall fuel pre room post tag, (11 <= fuel)%nat -> buf_ok pre room post -> 1 <= tag <= 536870911 ->
  forall v, - 2^31 <= v < 2^31 -> List.length room = esize (EScalar KSInt32 (Z.to_N tag) v) ->
  exact_outcome pre post (go_Encoder_EncodeSInt32 fuel (bytesZ (pre ++ room ++ post)) (Z.of_nat (List.length pre)) tag v)
                (EScalar KSInt32 (Z.to_N tag) v).
Proof. exact src_exact_EncodeSInt32. Qed.
Print Assumptions C01_src_EncodeSInt32_exact.
Theorem C01_src_EncodeSInt64_exact : forall fuel pre room post tag, (11 <= fuel)%nat -> buf_ok pre room post -> 1 <= tag <= 536870911 ->
  forall v, - 2^63 <= v < 2^63 -> List.length room = esize (EScalar KSInt64 (Z.to_N tag) v) ->
  exact_outcome pre post (go_Encoder_EncodeSInt64 fuel (bytesZ (pre ++ room ++ post)) (Z.of_nat (List.length pre)) tag v)
                (EScalar KSInt64 (Z.to_N tag) v).
Proof. exact src_exact_EncodeSInt64. Qed.
Print Assumptions C01_src_EncodeSInt64_exact.
Theorem C01_src_EncodeMapEntryHeader_exact : forall fuel pre room post tag, (11 <= fuel)%nat -> buf_ok pre room post -> 1 <= tag <= 536870911 ->
  forall size, 0 <= size < 2^63 -> List.length room = esize (EMapHeader (Z.to_N tag) (Z.to_N size)) ->
  exact_outcome pre post (go_Encoder_EncodeMapEntryHeader fuel (bytesZ (pre ++ room ++ post)) (Z.of_nat (List.length pre)) tag size)
                (EMapHeader (Z.to_N tag) (Z.to_N size)).
Proof. exact src_exact_EncodeMapEntryHeader. Qed.
Print Assumptions C01_src_EncodeMapEntryHeader_exact.

(* translated method = model step, on EVERY buffer and cursor (also too short ones: both panic) *)
Theorem C01_src_EncodeBool_is_model : forall fuel e tag b, (11 <= fuel)%nat -> est_ok e -> 1 <= tag <= 536870911 ->
  abs_enc (go_Encoder_EncodeBool fuel (est_p e) (est_off e) tag b) = Some (enc_scalar e KBool (Z.to_N tag) (conv_b b)).
Proof. exact src_Encoder_EncodeBool. Qed.
Print Assumptions C01_src_EncodeBool_is_model.
Theorem C01_src_EncodeUInt32_is_model : forall fuel e tag v, (11 <= fuel)%nat -> est_ok e -> 1 <= tag <= 536870911 -> 0 <= v < 2^32 ->
  abs_enc (go_Encoder_EncodeUInt32 fuel (est_p e) (est_off e) tag v) = Some (enc_scalar e KUInt32 (Z.to_N tag) v).
Proof. exact src_Encoder_EncodeUInt32. Qed.
Print Assumptions C01_src_EncodeUInt32_is_model.
Theorem C01_src_EncodeUInt64_is_model : forall fuel e tag v, (11 <= fuel)%nat -> est_ok e -> 1 <= tag <= 536870911 -> 0 <= v < 2^64 ->
  abs_enc (go_Encoder_EncodeUInt64 fuel (est_p e) (est_off e) tag v) = Some (enc_scalar e KUInt64 (Z.to_N tag) v).
Proof. exact src_Encoder_EncodeUInt64. Qed.
Print Assumptions C01_src_EncodeUInt64_is_model.
Theorem C01_src_EncodeInt32_is_model : forall fuel e tag v, (11 <= fuel)%nat -> est_ok e -> 1 <= tag <= 536870911 -> - 2^31 <= v < 2^31 ->
  abs_enc (go_Encoder_EncodeInt32 fuel (est_p e) (est_off e) tag v) = Some (enc_scalar e KInt32 (Z.to_N tag) v).
Proof. exact src_Encoder_EncodeInt32. Qed.
Print Assumptions C01_src_EncodeInt32_is_model.
Theorem C01_src_EncodeInt64_is_model : forall fuel e tag v, (11 <= fuel)%nat -> est_ok e -> 1 <= tag <= 536870911 -> - 2^63 <= v < 2^63 ->
  abs_enc (go_Encoder_EncodeInt64 fuel (est_p e) (est_off e) tag v) = Some (enc_scalar e KInt64 (Z.to_N tag) v).
Proof. exact src_Encoder_EncodeInt64. Qed.
Print Assumptions C01_src_EncodeInt64_is_model.
Theorem C01_src_EncodeSInt32_is_model : forall fuel e tag v, (11 <= fuel)%nat -> est_ok e -> 1 <= tag <= 536870911 -> - 2^31 <= v < 2^31 ->
  abs_enc (go_Encoder_EncodeSInt32 fuel (est_p e) (est_off e) tag v) = Some (enc_scalar e KSInt32 (Z.to_N tag) v).
Proof. exact src_Encoder_EncodeSInt32. Qed.
Print Assumptions C01_src_EncodeSInt32_is_model.
Theorem C01_src_EncodeSInt64_is_model : forall fuel e tag v, (11 <= fuel)%nat -> est_ok e -> 1 <= tag <= 536870911 -> - 2^63 <= v < 2^63 ->
  abs_enc (go_Encoder_EncodeSInt64 fuel (est_p e) (est_off e) tag v) = Some (enc_scalar e KSInt64 (Z.to_N tag) v).
Proof. exact src_Encoder_EncodeSInt64. Qed.
Print Assumptions C01_src_EncodeSInt64_is_model.
Theorem C01_src_EncodeMapEntryHeader_is_model : forall fuel e tag size, (11 <= fuel)%nat -> est_ok e -> 1 <= tag <= 536870911 -> 0 <= size < 2^63 ->
  abs_enc (go_Encoder_EncodeMapEntryHeader fuel (est_p e) (est_off e) tag size) = Some (enc_map_header e (Z.to_N tag) (Z.to_N size)).
Proof. exact src_Encoder_EncodeMapEntryHeader. Qed.
Print Assumptions C01_src_EncodeMapEntryHeader_is_model.

Example C01_src_example_methods :
  go_Encoder_EncodeSInt64 11 [9; 0; 0; 0; 7] 1 2 (-65) = Val (tt, [9; 16; 129; 1; 7], 4)
  /\ go_Encoder_EncodeSInt64 11 [9; 0; 0; 7] 2 2 (-65) = GoPanic
  /\ go_Encoder_EncodeBool 11 [0; 0] 0 1 true = Val (tt, [8; 1], 2)
  /\ buf_ok [9%N] [0; 0; 0]%N [7%N].
Proof. repeat split; try (vm_compute; reflexivity); try (cbn; lia). repeat constructor. Qed.

(* premises are met by non-trivial instances, evaluated on the translated source *)
Example C01_src_example_encode :
  go_EncodeVarint 11 [7;7;7;7] 300 = Val (2, [172;2;7;7]) /\ go_SizeOfVarint 300 = 2
  /\ go_EncodeVarint 11 [7] 300 = GoPanic
  /\ go_EncodeTag 11 [0;0;0;0;0;0] 536870911 5 = Val (5, [253;255;255;255;15;0]) /\ go_SizeOfTagKey 536870911 = 5
  /\ go_EncodeZigZag64 11 [0;0] (-65) = Val (2, [129;1]) /\ go_SizeOfZigZag (wrap_u 64 (-65)) = 2.
Proof. vm_compute. repeat split; reflexivity. Qed.
Example C01_src_example_decode :
  go_DecodeVarint 11 [172;2;9] = Val (300, 2, None)
  /\ go_DecodeZigZag64 11 [129;1;9] = Val (-65, 2, None)
  /\ go_DecodeVarint 11 [255;255;255;255;255;255;255;255;255;1;5] = Val (18446744073709551615, 10, None).
Proof. vm_compute. repeat split; reflexivity. Qed.
