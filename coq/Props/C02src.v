(* C02, source-level half -- the varint / zig-zag / fixed-width readers and the varint writer AS WRITTEN in /repo's
   decoder.go and encoder.go now (Src/SrcWire.v, regenerated from the Go source on every run) against the
   spec-derived reference (RefWire.v) and the hand-written model.  Statements only. *)
From CsProto Require Import Prelude Varint ZigZag Codec RefWire WireStmts GoSem SrcWire SrcLink SrcEncProofs SrcDecProofs SrcCompose.
Local Open Scope Z_scope.

(* the bytes encoder.go's EncodeVarint writes are the reference encoding *)
Theorem C02_src_varint_canonical : forall fuel dest v, (11 <= fuel)%nat -> 0 <= v < 2^64 -> go_SizeOfVarint v <= go_len dest ->
  go_EncodeVarint fuel dest v = Val (go_SizeOfVarint v, overwrite dest (bytesZ (ref_varint (Z.to_N v)))).
Proof. exact src_varint_canonical. Qed.
Print Assumptions C02_src_varint_canonical.

(* on EVERY byte string -- well-formed, truncated, over-long -- decoder.go's DecodeVarint answers what the model's
   dec_varint answers (value, bytes consumed, or which error), never panics, and terminates within 11 iterations *)
Theorem C02_src_DecodeVarint_is_model : forall fuel p, (11 <= fuel)%nat -> byte_range p ->
  go_DecodeVarint fuel p = Val (lift_varint (dec_varint (bytesN p))).
Proof. exact src_DecodeVarint. Qed.
Print Assumptions C02_src_DecodeVarint_is_model.
Theorem C02_src_DecodeZigZag64_is_model : forall fuel p, (11 <= fuel)%nat -> byte_range p ->
  go_DecodeZigZag64 fuel p = Val (lift_zz dec_zz64 (dec_varint (bytesN p))).
Proof. exact src_DecodeZigZag64. Qed.
Print Assumptions C02_src_DecodeZigZag64_is_model.
(* DecodeFixed32/64: little-endian value of the first 4 / 8 bytes, io.ErrUnexpectedEOF on fewer, no panic *)
Theorem C02_src_DecodeFixed32_is_model : forall fuel p, byte_range p -> go_DecodeFixed32 fuel p = Val (lift_fixed 4 p).
Proof. exact src_DecodeFixed32. Qed.
Print Assumptions C02_src_DecodeFixed32_is_model.
Theorem C02_src_DecodeFixed64_is_model : forall fuel p, byte_range p -> go_DecodeFixed64 fuel p = Val (lift_fixed 8 p).
Proof. exact src_DecodeFixed64. Qed.
Print Assumptions C02_src_DecodeFixed64_is_model.
(* EncodeTag passes EncodeVarint exactly the key the model's enc_key encodes *)
Theorem C02_src_EncodeTag_is_model : forall fuel dest tag wt, 0 <= tag < 2^63 -> 0 <= wt < 8 ->
  go_EncodeTag fuel dest tag wt
  = go_EncodeVarint fuel dest (Z.of_N (N.lor (N.shiftl (Z.to_N tag) 3 mod 2^64) (Z.to_N wt))).
Proof. exact src_EncodeTag. Qed.
Print Assumptions C02_src_EncodeTag_is_model.

Example C02_src_example :
  go_DecodeVarint 11 [128;128;128;128;128;128;128;128;128;128;128;1] = Val (0, 0, Some "ErrValueOverflow"%string)
  /\ go_DecodeVarint 11 [128] = Val (0, 0, Some "io.ErrUnexpectedEOF"%string)
  /\ go_DecodeVarint 11 [] = Val (0, 0, Some "ErrInvalidVarintData"%string)
  /\ go_DecodeFixed32 0 [1;2;3;4;9] = Val (67305985, 4, None)
  /\ go_DecodeFixed64 0 [1;2;3] = Val (0, 0, Some "io.ErrUnexpectedEOF"%string).
Proof. vm_compute. repeat split; reflexivity. Qed.
