(* C20 -- diagnostic tooling: annotated hex and protodump are faithful.  Statements only. *)
From CsProto Require Import Prelude Varint ZigZag Codec RefWire WireStmts Hex Dump ToolsProofs.
Local Open Scope N_scope.

(* every documented layout: white space anywhere (also between the two digits of a byte), comments at
   line ends or on their own lines, line breaks between bytes, upper and lower case digits *)
Theorem C20_hex_layouts : forall ts, Forall tok_ok ts -> parse (concat (map render ts)) = Some (concat (map value ts)).
Proof. exact parse_render. Qed.
(* the parser accepts exactly the texts whose significant characters (outside comments, not white
   space) are hex digits, an even number per line, and returns exactly the bytes they denote *)
Theorem C20_hex_exact : forall s,
  parse s = if forallb line_ok (sig_lines s false [])
            then Some (concat (map pairs_value (sig_lines s false []))) else None.
Proof. exact parse_exact. Qed.
Corollary C20_hex_rejects_anything_else : forall s,
  existsb (fun l => negb (forallb is_hex l)) (sig_lines s false []) = true -> parse s = None.
Proof. exact parse_rejects. Qed.

(* protodump: for every well-formed message tree laid out the way -expand / -strings request, one
   record per field in wire order with the field number, wire type and value the reference finds,
   recursing into exactly the requested paths *)
Theorem C20_dump_faithful : forall conf ts,
  Forall tree_wf ts -> Forall (layout_ok conf []) ts ->
  protodump conf (concat (map tenc ts)) = (concat (map (tdump conf 0 []) ts), DumpOk).
Proof. exact dump_faithful. Qed.
(* every other input: an error (or a shorter dump), never a crash *)
Theorem C20_dump_no_panic : forall conf input, snd (protodump conf input) <> DumpPanic.
Proof. exact dump_no_panic. Qed.
(* a path is matched exactly when it was requested *)
Theorem C20_match_exact : forall tps p, paths_match tps p = true <-> (p <> [] /\ In p tps).
Proof. exact match_exact. Qed.

Example C20_ex :
  protodump {| cexpand := [[3]]; cstrings := [[3;1]] |} [8; 150; 1; 26; 4; 10; 2; 104; 105; 21; 1; 0; 0; 0]
  = ([RecVarint 0 1 150; RecBytes 0 3 [10; 2; 104; 105]; RecString 1 1 [104; 105]; RecFixed32 0 2 1], DumpOk).
Proof. vm_compute. reflexivity. Qed.

Print Assumptions C20_hex_layouts.
Print Assumptions C20_hex_exact.
Print Assumptions C20_hex_rejects_anything_else.
Print Assumptions C20_dump_faithful.
Print Assumptions C20_dump_no_panic.
Print Assumptions C20_match_exact.
