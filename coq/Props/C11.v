(* C11 -- the runtime-agnostic API is a transparent, stable dispatcher.  Statements only.
   The three runtimes' own Marshal/Unmarshal/Size/Clone/Equal/Reset/Text functions are oracles; what is
   proved is csproto's part: which function each call reaches, for EVERY combination of capabilities a
   Go value can have (all 2^13 records), and the type cache under every schedule. *)
From CsProto Require Import Prelude Dispatch DispatchProofs.

(* classification is correct: a value is a Google-V2 / Gogo / Google-V1 message exactly when ... *)
Theorem C11_classification : forall c,
  (deduce c = TGoogle <-> c_nil c = false /\ c_v2 c = true) /\
  (deduce c = TGogo <-> c_nil c = false /\ c_v2 c = false /\ c_ptr c = true /\ c_v1 c = true /\ c_gogo_reg c = true) /\
  (deduce c = TGoogleV1 <-> c_nil c = false /\ c_v2 c = false /\ c_ptr c = true /\ c_v1 c = true /\ c_gogo_reg c = false).
Proof. exact classification. Qed.

(* no call can hit a failing type assertion (an undocumented panic), whatever it is handed: unsupported
   values get the documented error / zero result, Reset its documented panic *)
Theorem C11_no_undocumented_panic : forall c c2,
  clone_action deduce c <> ABadAssert /\ equal_action deduce c c2 <> ABadAssert /\ reset_action deduce c <> ABadAssert /\
  text_action deduce c <> ABadAssert /\ range_ext_action deduce c <> ABadAssert.
Proof. exact no_undocumented_panic. Qed.

(* transparency: a message of a supported runtime is forwarded to its own fast method when it has one,
   else to the owning runtime's function; a value no runtime owns gets the documented result *)
Theorem C11_forwarding : forall c,
  (deduce c <> TUnknown -> clone_action deduce c = ARuntime (deduce c)) /\
  (deduce c = TUnknown -> clone_action deduce c = AZero /\ text_action deduce c = (if c_text c then AOwn else AErr)) /\
  (marshal_action c = AErr <-> c_marshaler c = false /\ c_xxx_marshal c = false /\ c_v2 c = false) /\
  (unmarshal_action c = AErr <-> c_unmarshaler c = false /\ c_xxx_unmarshal c = false /\ c_v2 c = false) /\
  (size_action c = AZero <-> c_sizer c = false /\ c_xxx_size c = false /\ c_v2 c = false) /\
  (c_marshaler c = true -> marshal_action c = AOwn) /\ (c_unmarshaler c = true -> unmarshal_action c = AOwn) /\
  (c_sizer c = true -> size_action c = AOwn).
Proof. exact forwarding. Qed.
Theorem C11_equal_across_runtimes : forall c1 c2, deduce c1 <> deduce c2 -> equal_action deduce c1 c2 = AZero.
Proof. exact equal_across_runtimes. Qed.

(* the type cache: under every interleaving of the Load / Store steps of any number of goroutines
   racing on the first use of a type, every goroutine obtains the classification deduce gives, and the
   cache only ever holds that value *)
Theorem C11_first_use_race : forall c sched,
  let s := crun c sched in
  (cache s = None \/ cache s = Some (deduce c)) /\ Forall (fun r => snd r = deduce c) (results s).
Proof. exact first_use_race. Qed.

(* the defect on the pinned tree: every non-message pointer was "Google V1" and Clone's assertion failed *)
Example C11_pinned_refuted :
  let c := {| c_nil := false; c_ptr := true; c_v2 := false; c_v1 := false; c_gogo_reg := false; c_sizer := false; c_marshaler := false;
              c_unmarshaler := false; c_xxx_marshal := false; c_xxx_size := false; c_xxx_unmarshal := false; c_text := false; c_reset := false |} in
  clone_action deduce_pinned c = ABadAssert /\ clone_action deduce c = AZero.
Proof. vm_compute. split; reflexivity. Qed.

Print Assumptions C11_classification.
Print Assumptions C11_no_undocumented_panic.
Print Assumptions C11_forwarding.
Print Assumptions C11_equal_across_runtimes.
Print Assumptions C11_first_use_race.
