(* C08 -- generated Unmarshal is total on arbitrary bytes; no silent disagreement.  Statements only. *)
From CsProto Require Import Prelude Varint ZigZag Codec RefWire WireStmts Schema GenMarshal RefMsg GenStmts GenUnmarshal GenLegal GenUProofs.
Local Open Scope N_scope.

(* For every schema, every byte string (random, truncated, bit-flipped, corrupted length prefixes ...),
   both decode modes: the generated Unmarshal terminates (it is a total function of the model) with a
   message or an error, and never panics -- including every nested Unmarshal and map-entry loop. *)
Theorem C08_no_panic : forall sc ty p fast dest,
  bytes_ok p -> gen_unmarshal_into sc fast ty dest p <> UPanic.
Proof. exact unmarshal_no_panic. Qed.

(* whatever it accepts, it consumed completely: the fields it kept as unknown are slices of the input *)
Theorem C08_unknown_is_input : forall sc ty p fast dest fs u al,
  bytes_ok p -> gen_unmarshal_into sc fast ty dest p = UOk (GMsg fs u) al -> (length u <= length p)%nat.
Proof. exact unknown_bounded. Qed.

(* Agreement with the reference whenever both accept is PROVED for the legal encodings (C06_legal_encodings);
   for arbitrary byte strings it is checked by the correspondence and the oracle only (see evidence). *)

Definition c08_sc : schema := [
 {| mproto2 := false; mfields := [ {| fnum := 1; fkind_ := FNum KInt32; fcard_ := CImplicit |}; {| fnum := 2; fkind_ := FString; fcard_ := CImplicit |} ] |};
 {| mproto2 := false; mfields := [
    {| fnum := 3; fkind_ := FNum KSInt32; fcard_ := CPacked |};
    {| fnum := 5; fkind_ := FBytes; fcard_ := CMap FString (FMsg 0) |} ] |} ].
Example C08_ex :
  gen_unmarshal_into c08_sc false 1 GAbsent [42; 200; 1; 10] = UErr /\
  gen_unmarshal_into c08_sc true 1 GAbsent [26; 5; 1] = UErr /\
  gen_unmarshal_into c08_sc false 1 GAbsent [255; 255; 255; 255; 255; 255; 255; 255; 255; 255; 1] = UErr /\
  gen_unmarshal_into c08_sc false 1 GAbsent [42; 4; 18; 2; 8] = UErr.
Proof. vm_compute. repeat split; reflexivity. Qed.

Print Assumptions C08_no_panic.
Print Assumptions C08_unknown_is_input.
