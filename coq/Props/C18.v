(* C18 -- JSON adapters round-trip and honour their options on every runtime.  Statements only.
   The JSON encoders/decoders of the three runtimes are oracles (round trip and validity are checked
   on the implementation); what is proved is csproto's wiring: which encoder is reached and which of
   its options each functional option sets. *)
From CsProto Require Import Prelude Dispatch Json JsonProofs.
Local Open Scope N_scope.

(* each option has exactly its documented effect, whatever else was given, and the last setting wins *)
Theorem C18_options : forall xs s b,
  j_indent (jbuild (xs ++ [JIndent s])) = s /\
  j_enum_numbers (jbuild (xs ++ [JEnumNumbers b])) = b /\
  j_emit_zero (jbuild (xs ++ [JZero b])) = b /\
  j_allow_unknown (jbuild (xs ++ [JUnknown b])) = b /\
  j_allow_partial (jbuild (xs ++ [JPartial b])) = b /\
  j_enum_numbers (jbuild (xs ++ [JIndent s])) = j_enum_numbers (jbuild xs) /\
  j_emit_zero (jbuild (xs ++ [JIndent s])) = j_emit_zero (jbuild xs) /\
  j_indent (jbuild (xs ++ [JEnumNumbers b])) = j_indent (jbuild xs) /\
  j_indent (jbuild (xs ++ [JZero b])) = j_indent (jbuild xs) /\
  j_enum_numbers (jbuild (xs ++ [JZero b])) = j_enum_numbers (jbuild xs) /\
  j_emit_zero (jbuild (xs ++ [JEnumNumbers b])) = j_emit_zero (jbuild xs).
Proof. exact options_effect. Qed.

(* marshaling: a nil message marshals to nothing; otherwise the message's own MarshalJSON, else the encoder
   of the first runtime interface it satisfies, configured with exactly (indent, enum numbers, zero values) *)
Theorem C18_marshal_wiring : forall c o,
  (jc_nil c = true -> marshal_json c o = MNothing) /\
  (jc_nil c = false -> jc_json c = false -> jc_v2 c = true -> marshal_json c o = MV2 (j_indent o) (j_enum_numbers o) (j_emit_zero o)) /\
  (jc_nil c = false -> jc_json c = false -> jc_v2 c = false -> jc_v1 c = true -> marshal_json c o = MV1 (j_indent o) (j_enum_numbers o) (j_emit_zero o)) /\
  (marshal_json c o = MUnsupported <-> jc_nil c = false /\ jc_json c = false /\ jc_v2 c = false /\ jc_v1 c = false /\ jc_gogo c = false).
Proof. exact marshal_wiring. Qed.
(* unmarshaling: into nil is an error; unknown keys tolerated iff asked; missing required fields tolerated
   iff asked and only where the runtime offers it (Google V2) *)
Theorem C18_unmarshal_wiring : forall c o,
  (jc_nil c = true -> unmarshal_json c o = UNilError) /\
  (jc_nil c = false -> jc_json c = false -> jc_v2 c = true -> unmarshal_json c o = UV2 (j_allow_partial o) (j_allow_unknown o)) /\
  (jc_nil c = false -> jc_json c = false -> jc_v2 c = false -> jc_v1 c = true -> unmarshal_json c o = UV1 (j_allow_unknown o)) /\
  (unmarshal_json c o = UUnsupported <-> jc_nil c = false /\ jc_json c = false /\ jc_v2 c = false /\ jc_v1 c = false /\ jc_gogo c = false).
Proof. exact unmarshal_wiring. Qed.
(* every Gogo message also satisfies the golang-v1 message interface, so the Gogo arm is never reached: gogo
   messages are encoded and decoded by golang/protobuf's jsonpb *)
Theorem C18_gogo_arm_unreachable : forall c o, jc_gogo c = true -> jc_v1 c = true ->
  (forall i e z, marshal_json c o <> MGogo i e z) /\ (forall u, unmarshal_json c o <> UGogo u).
Proof. exact gogo_arm_unreachable. Qed.

Example C18_ex :
  marshal_json {| jc_nil := false; jc_json := false; jc_v2 := true; jc_v1 := true; jc_gogo := false |}
               (jbuild [JIndent [32; 32]; JEnumNumbers true; JZero false; JEnumNumbers false; JZero true])
  = MV2 [32; 32] false true.
Proof. vm_compute. reflexivity. Qed.

Print Assumptions C18_options.
Print Assumptions C18_marshal_wiring.
Print Assumptions C18_unmarshal_wiring.
Print Assumptions C18_gogo_arm_unreachable.
