(* C03, source-level half -- the Decoder methods AS WRITTEN in /repo's decoder.go now (Src/SrcWire.v, regenerated from the Go
   source by harness/cmd/go2coq on every run): each equals the model's decoder operation on every byte string, from every
   in-range cursor, in both modes (value, error class, cursor afterwards), and therefore never panics, terminates within 11
   loop iterations and leaves the cursor inside the buffer.  Statements only. *)
From CsProto Require Import Prelude Varint ZigZag Codec RefWire WireStmts GoSem SrcWire SrcLink SrcDecoderLink SrcDecMethods SrcDecSkip SrcDecFloat SrcSafe.
Local Open Scope Z_scope.

(* ---- translated method = model operation (abs_res: results through conv, errors as a class, cursor afterwards) *)
Theorem C03_src_DecodeTag_is_model : forall fuel d, (11 <= fuel)%nat -> st_ok d ->
  abs_res conv_tag d (go_Decoder_DecodeTag fuel (st_p d) (st_off d) (st_mode d)) = Some (dec_tag d).
Proof. exact src_Decoder_DecodeTag. Qed.
Print Assumptions C03_src_DecodeTag_is_model.
Theorem C03_src_DecodeBool_is_model : forall fuel d, (11 <= fuel)%nat -> st_ok d ->
  abs_res conv_bool d (go_Decoder_DecodeBool fuel (st_p d) (st_off d) (st_mode d)) = Some (dec_scalar d KBool).
Proof. exact src_Decoder_DecodeBool. Qed.
Print Assumptions C03_src_DecodeBool_is_model.
Theorem C03_src_DecodeUInt32_is_model : forall fuel d, (11 <= fuel)%nat -> st_ok d ->
  abs_res conv_id d (go_Decoder_DecodeUInt32 fuel (st_p d) (st_off d) (st_mode d)) = Some (dec_scalar d KUInt32).
Proof. exact src_Decoder_DecodeUInt32. Qed.
Print Assumptions C03_src_DecodeUInt32_is_model.
Theorem C03_src_DecodeUInt64_is_model : forall fuel d, (11 <= fuel)%nat -> st_ok d ->
  abs_res conv_id d (go_Decoder_DecodeUInt64 fuel (st_p d) (st_off d) (st_mode d)) = Some (dec_scalar d KUInt64).
Proof. exact src_Decoder_DecodeUInt64. Qed.
Print Assumptions C03_src_DecodeUInt64_is_model.
Theorem C03_src_DecodeInt32_is_model : forall fuel d, (11 <= fuel)%nat -> st_ok d ->
  abs_res conv_id d (go_Decoder_DecodeInt32 fuel (st_p d) (st_off d) (st_mode d)) = Some (dec_scalar d KInt32).
Proof. exact src_Decoder_DecodeInt32. Qed.
Print Assumptions C03_src_DecodeInt32_is_model.
Theorem C03_src_DecodeInt64_is_model : forall fuel d, (11 <= fuel)%nat -> st_ok d ->
  abs_res conv_id d (go_Decoder_DecodeInt64 fuel (st_p d) (st_off d) (st_mode d)) = Some (dec_scalar d KInt64).
Proof. exact src_Decoder_DecodeInt64. Qed.
Print Assumptions C03_src_DecodeInt64_is_model.
Theorem C03_src_DecodeSInt32_is_model : forall fuel d, (11 <= fuel)%nat -> st_ok d ->
  abs_res conv_id d (go_Decoder_DecodeSInt32 fuel (st_p d) (st_off d) (st_mode d)) = Some (dec_scalar d KSInt32).
Proof. exact src_Decoder_DecodeSInt32. Qed.
Print Assumptions C03_src_DecodeSInt32_is_model.
Theorem C03_src_DecodeSInt64_is_model : forall fuel d, (11 <= fuel)%nat -> st_ok d ->
  abs_res conv_id d (go_Decoder_DecodeSInt64 fuel (st_p d) (st_off d) (st_mode d)) = Some (dec_scalar d KSInt64).
Proof. exact src_Decoder_DecodeSInt64. Qed.
Print Assumptions C03_src_DecodeSInt64_is_model.
Theorem C03_src_DecodeFixed32_is_model : forall fuel d, st_ok d ->
  abs_res conv_id d (go_Decoder_DecodeFixed32 fuel (st_p d) (st_off d) (st_mode d)) = Some (dec_scalar d KFixed32).
Proof. exact src_Decoder_DecodeFixed32. Qed.
Print Assumptions C03_src_DecodeFixed32_is_model.
Theorem C03_src_DecodeFixed64_is_model : forall fuel d, st_ok d ->
  abs_res conv_id d (go_Decoder_DecodeFixed64 fuel (st_p d) (st_off d) (st_mode d)) = Some (dec_scalar d KFixed64).
Proof. exact src_Decoder_DecodeFixed64. Qed.
Print Assumptions C03_src_DecodeFixed64_is_model.
Theorem C03_src_decodeBytes_is_model : forall fuel d, (11 <= fuel)%nat -> st_ok d ->
  abs_res conv_bytes d (go_Decoder_decodeBytes fuel (st_p d) (st_off d) (st_mode d)) = Some (dec_bytes d).
Proof. exact src_Decoder_decodeBytes. Qed.
Print Assumptions C03_src_decodeBytes_is_model.
(* DecodeFloat32/64: floats are carried as their IEEE 754 bit patterns (math.Float32frombits is the identity on them) *)
Theorem C03_src_DecodeFloat32_is_model : forall fuel d, st_ok d ->
  abs_res conv_id d (go_Decoder_DecodeFloat32 fuel (st_p d) (st_off d) (st_mode d)) = Some (dec_scalar d KFloat).
Proof. exact src_Decoder_DecodeFloat32. Qed.
Print Assumptions C03_src_DecodeFloat32_is_model.
Theorem C03_src_DecodeFloat64_is_model : forall fuel d, st_ok d ->
  abs_res conv_id d (go_Decoder_DecodeFloat64 fuel (st_p d) (st_off d) (st_mode d)) = Some (dec_scalar d KDouble).
Proof. exact src_Decoder_DecodeFloat64. Qed.
Print Assumptions C03_src_DecodeFloat64_is_model.
Theorem C03_src_Skip_is_model : forall fuel d tag wt, (11 <= fuel)%nat -> st_ok d -> 0 <= tag < 2^63 -> - 2^63 <= wt < 2^63 ->
  abs_res conv_bytes d (go_Decoder_Skip fuel (st_p d) (st_off d) (st_mode d) tag wt) = Some (dec_skip d tag wt).
Proof. exact src_Decoder_Skip. Qed.
Print Assumptions C03_src_Skip_is_model.
Theorem C03_src_Seek_is_model : forall d o whence, st_ok d -> - 2^63 <= o < 2^63 -> - 2^63 <= whence < 2^63 ->
  abs_res conv_id d (Val (go_Decoder_Seek (st_p d) (st_off d) (st_mode d) o whence)) = Some (dec_seek d o whence).
Proof. exact src_Decoder_Seek. Qed.
Print Assumptions C03_src_Seek_is_model.
Theorem C03_src_Reset_More_Offset : forall d,
  go_Decoder_Reset (st_p d) (st_off d) (st_mode d) = (tt, 0)
  /\ go_Decoder_More (st_p d) (st_off d) (st_mode d) = negb (at_eof d)
  /\ go_Decoder_Offset (st_p d) (st_off d) (st_mode d) = st_off d.
Proof. intros d. exact (conj (src_Decoder_Reset d) (conj (src_Decoder_More d) (src_Decoder_Offset d))). Qed.
Print Assumptions C03_src_Reset_More_Offset.

(* ---- hence: no panic, no fuel exhaustion, cursor inside the buffer -- for all inputs, cursors, modes *)
Theorem C03_src_DecodeTag_safe : forall fuel d, (11 <= fuel)%nat -> st_ok d ->
  exists a e off, go_Decoder_DecodeTag fuel (st_p d) (st_off d) (st_mode d) = Val (a, e, off) /\ (Z.to_nat off <= List.length (dbuf d))%nat.
Proof. exact src_safe_DecodeTag. Qed.
Print Assumptions C03_src_DecodeTag_safe.
Theorem C03_src_DecodeBool_safe : forall fuel d, (11 <= fuel)%nat -> st_ok d ->
  exists a e off, go_Decoder_DecodeBool fuel (st_p d) (st_off d) (st_mode d) = Val (a, e, off) /\ (Z.to_nat off <= List.length (dbuf d))%nat.
Proof. exact src_safe_DecodeBool. Qed.
Print Assumptions C03_src_DecodeBool_safe.
Theorem C03_src_DecodeUInt32_safe : forall fuel d, (11 <= fuel)%nat -> st_ok d ->
  exists a e off, go_Decoder_DecodeUInt32 fuel (st_p d) (st_off d) (st_mode d) = Val (a, e, off) /\ (Z.to_nat off <= List.length (dbuf d))%nat.
Proof. exact src_safe_DecodeUInt32. Qed.
Print Assumptions C03_src_DecodeUInt32_safe.
Theorem C03_src_DecodeUInt64_safe : forall fuel d, (11 <= fuel)%nat -> st_ok d ->
  exists a e off, go_Decoder_DecodeUInt64 fuel (st_p d) (st_off d) (st_mode d) = Val (a, e, off) /\ (Z.to_nat off <= List.length (dbuf d))%nat.
Proof. exact src_safe_DecodeUInt64. Qed.
Print Assumptions C03_src_DecodeUInt64_safe.
Theorem C03_src_DecodeInt32_safe : forall fuel d, (11 <= fuel)%nat -> st_ok d ->
  exists a e off, go_Decoder_DecodeInt32 fuel (st_p d) (st_off d) (st_mode d) = Val (a, e, off) /\ (Z.to_nat off <= List.length (dbuf d))%nat.
Proof. exact src_safe_DecodeInt32. Qed.
Print Assumptions C03_src_DecodeInt32_safe.
Theorem C03_src_DecodeInt64_safe : forall fuel d, (11 <= fuel)%nat -> st_ok d ->
  exists a e off, go_Decoder_DecodeInt64 fuel (st_p d) (st_off d) (st_mode d) = Val (a, e, off) /\ (Z.to_nat off <= List.length (dbuf d))%nat.
Proof. exact src_safe_DecodeInt64. Qed.
Print Assumptions C03_src_DecodeInt64_safe.
Theorem C03_src_DecodeSInt32_safe : forall fuel d, (11 <= fuel)%nat -> st_ok d ->
  exists a e off, go_Decoder_DecodeSInt32 fuel (st_p d) (st_off d) (st_mode d) = Val (a, e, off) /\ (Z.to_nat off <= List.length (dbuf d))%nat.
Proof. exact src_safe_DecodeSInt32. Qed.
Print Assumptions C03_src_DecodeSInt32_safe.
Theorem C03_src_DecodeSInt64_safe : forall fuel d, (11 <= fuel)%nat -> st_ok d ->
  exists a e off, go_Decoder_DecodeSInt64 fuel (st_p d) (st_off d) (st_mode d) = Val (a, e, off) /\ (Z.to_nat off <= List.length (dbuf d))%nat.
Proof. exact src_safe_DecodeSInt64. Qed.
Print Assumptions C03_src_DecodeSInt64_safe.
Theorem C03_src_DecodeFixed32_safe : forall fuel d, st_ok d ->
  exists a e off, go_Decoder_DecodeFixed32 fuel (st_p d) (st_off d) (st_mode d) = Val (a, e, off) /\ (Z.to_nat off <= List.length (dbuf d))%nat.
Proof. exact src_safe_DecodeFixed32. Qed.
Print Assumptions C03_src_DecodeFixed32_safe.
Theorem C03_src_DecodeFixed64_safe : forall fuel d, st_ok d ->
  exists a e off, go_Decoder_DecodeFixed64 fuel (st_p d) (st_off d) (st_mode d) = Val (a, e, off) /\ (Z.to_nat off <= List.length (dbuf d))%nat.
Proof. exact src_safe_DecodeFixed64. Qed.
Print Assumptions C03_src_DecodeFixed64_safe.
Theorem C03_src_decodeBytes_safe : forall fuel d, (11 <= fuel)%nat -> st_ok d ->
  exists a e off, go_Decoder_decodeBytes fuel (st_p d) (st_off d) (st_mode d) = Val (a, e, off) /\ (Z.to_nat off <= List.length (dbuf d))%nat.
Proof. exact src_safe_decodeBytes. Qed.
Print Assumptions C03_src_decodeBytes_safe.
Theorem C03_src_DecodeFloat32_safe : forall fuel d, st_ok d ->
  exists a e off, go_Decoder_DecodeFloat32 fuel (st_p d) (st_off d) (st_mode d) = Val (a, e, off) /\ (Z.to_nat off <= List.length (dbuf d))%nat.
Proof. exact src_safe_DecodeFloat32. Qed.
Print Assumptions C03_src_DecodeFloat32_safe.
Theorem C03_src_DecodeFloat64_safe : forall fuel d, st_ok d ->
  exists a e off, go_Decoder_DecodeFloat64 fuel (st_p d) (st_off d) (st_mode d) = Val (a, e, off) /\ (Z.to_nat off <= List.length (dbuf d))%nat.
Proof. exact src_safe_DecodeFloat64. Qed.
Print Assumptions C03_src_DecodeFloat64_safe.
Theorem C03_src_Skip_safe : forall fuel d, (11 <= fuel)%nat -> st_ok d -> forall tag wt, 0 <= tag < 2^63 -> - 2^63 <= wt < 2^63 ->
  exists a e off, go_Decoder_Skip fuel (st_p d) (st_off d) (st_mode d) tag wt = Val (a, e, off) /\ (Z.to_nat off <= List.length (dbuf d))%nat.
Proof. exact src_safe_Skip. Qed.
Print Assumptions C03_src_Skip_safe.

(* the premises are met and the translated source computes: a two-field message, DecodeTag / Skip / a truncated field *)
Example C03_src_example :
  let p := [8; 150; 1; 18; 3; 1; 2; 3] in
  go_Decoder_DecodeTag 11 p 0 0 = Val (1, 0, None, 1)
  /\ go_Decoder_Skip 11 p 1 0 1 0 = Val ([8; 150; 1], None, 3)
  /\ go_Decoder_DecodeTag 11 p 3 0 = Val (2, 2, None, 4)
  /\ go_Decoder_Skip 11 p 4 1 2 2 = Val ([18; 3; 1; 2; 3], None, 8)
  /\ go_Decoder_Skip 11 [18; 9; 1] 1 0 2 2 = Val ([], Some "io.ErrUnexpectedEOF"%string, 1)
  /\ go_Decoder_Skip 11 p 1 0 7 0 = Val ([], Some "&DecoderSkipError"%string, 1)
  /\ st_ok {| dbuf := [8; 150; 1; 18; 3; 1; 2; 3]%N; doff := 3; dfast := false |}.
Proof. cbv zeta. repeat split; try (vm_compute; reflexivity); try (cbn; lia). repeat constructor. Qed.
