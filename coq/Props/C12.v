(* C12 -- extension accessors are coherent on every runtime.  Statements only.
   Each runtime's extension store is specified as a finite map (number -> value); csproto's six
   functions are its type switches in front of that map. *)
From CsProto Require Import Prelude Dispatch Ext ExtProofs.
Local Open Scope N_scope.

(* with a descriptor of the message's own runtime: Set then Has/Get; Clear then not Has; coherent with the map *)
Theorem C12_set_get_has : forall rt fl m n v,
  rt <> TUnknown -> desc_accepted rt fl = true ->
  let m1 := snd (ext_step rt m (XSet fl n v)) in
  fst (ext_step rt m (XSet fl n v)) = ONone /\
  fst (ext_step rt m1 (XHas fl n)) = OBool true /\ fst (ext_step rt m1 (XGet fl n)) = OVal (Some v) /\
  (forall k, k <> n -> em_get k m1 = em_get k m).
Proof. exact set_get_has. Qed.
Theorem C12_clear : forall rt fl m n,
  desc_accepted rt fl = true ->
  let m1 := snd (ext_step rt m (XClear fl n)) in
  fst (ext_step rt m1 (XHas fl n)) = OBool false /\ ~ In n (map fst m1) /\ (forall k, k <> n -> em_get k m1 = em_get k m).
Proof. exact clear_spec. Qed.
(* ClearAllExtensions removes every extension on every runtime -- also through the brute-force loop used
   for Google V2 *)
Theorem C12_clear_all : forall rt m, rt <> TUnknown -> snd (ext_step rt m XClearAll) = [].
Proof. exact clear_all_spec. Qed.
(* RangeExtensions visits exactly the extensions that are set *)
Theorem C12_range : forall rt m n, rt <> TUnknown -> keys_nodup m = true ->
  match fst (ext_step rt m XRange) with ONums l => (In n l <-> em_has n m = true) | _ => False end.
Proof. exact range_spec. Qed.
Theorem C12_number : forall rt m fl n, fl <> DOther -> fst (ext_step rt m (XNumber fl n)) = ONum n.
Proof. exact number_spec. Qed.
(* a descriptor of another runtime: false / an error / ClearExtension's documented panic, and the message is
   not modified -- over whole histories *)
Theorem C12_mismatch_is_inert : forall rt m op,
  (match op with
   | XSet fl _ _ | XGet fl _ | XHas fl _ | XClear fl _ => desc_accepted rt fl = false
   | _ => False end) ->
  snd (ext_step rt m op) = m /\
  match fst (ext_step rt m op) with OErr | OBool false | OPanicDoc => True | _ => False end.
Proof. exact mismatch_is_inert. Qed.
(* histories: the map csproto maintains is the map the owning runtime's API would maintain, with well-formed keys *)
Theorem C12_histories_keep_keys_distinct : forall rt ops m, keys_nodup m = true -> keys_nodup (snd (ext_run rt m ops)) = true.
Proof. exact histories_keep_keys_distinct. Qed.

Example C12_ex :
  fst (ext_run TGoogle [] [XSet DV2 100 7; XSet DGoogleV1 101 8; XHas DV2 100; XSet DGogo 102 9; XRange; XClear DV2 100; XGet DV2 100; XClearAll; XRange])
  = [ONone; ONone; OBool true; OErr; ONums [101; 100]; ONone; OVal None; ONone; ONums []].
Proof. vm_compute. reflexivity. Qed.

Print Assumptions C12_set_get_has.
Print Assumptions C12_clear.
Print Assumptions C12_clear_all.
Print Assumptions C12_range.
Print Assumptions C12_number.
Print Assumptions C12_mismatch_is_inert.
Print Assumptions C12_histories_keep_keys_distinct.
