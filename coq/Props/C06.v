(* C06 -- generated Unmarshal agrees with the reference on every valid encoding.  Statements only. *)
From CsProto Require Import Prelude Varint ZigZag Codec RefWire WireStmts Schema GenMarshal RefMsg GenStmts GenUnmarshal GenLegal GenUProofs.
Local Open Scope N_scope.

(* For every well-formed schema and EVERY legal encoding of a message of type ty (GenLegal.v: fields
   in any order, repeated scalars packed / unpacked / split over several runs, singular fields and
   oneof members occurring more than once, map entries with key and value in either order, omitted
   or repeated, foreign fields inside entries, unknown fields interleaved, nested messages legal
   recursively), in safe and in unsafe-decode mode, whatever the destination held before:
   the reference semantics accepts the input, and
     - if the message it reads has all its required fields, the generated Unmarshal succeeds and
       produces the same message (compared in canonical form: identical presence, values, unknown bytes);
     - otherwise the generated Unmarshal returns an error (this is C17's second direction).
   Hypothesis [no_dup_msgs] is the recorded finding G12 (a repeated singular MESSAGE is merged by the
   reference, replaced by the generated code). *)
Theorem C06_legal_encodings : forall sc ty p fast dest,
  schema_ok sc = true ->
  legal_msg sc (S (length p)) ty p = true -> no_dup_msgs sc (S (length p)) ty p = true ->
  exists v, ref_decode sc (S (length p)) ty p = Some v /\
    if requireds_set sc (S (vdepth v)) ty v
    then exists m al, gen_unmarshal_into sc fast ty dest p = UOk m al /\
         forall fuel, (vdepth v < fuel)%nat -> (vdepth m < fuel)%nat -> normalize sc fuel ty m = normalize sc fuel ty v
    else gen_unmarshal_into sc fast ty dest p = UErr.
Proof. exact legal_encodings. Qed.

(* the result never depends on the destination's previous contents (Reset comes first) *)
Theorem C06_destination_independent : forall sc ty p fast d1 d2,
  gen_unmarshal_into sc fast ty d1 p = gen_unmarshal_into sc fast ty d2 p.
Proof. exact destination_independent. Qed.

(* non-vacuity: a legal encoding with a split packed list, a superseded scalar, a reversed map entry,
   a oneof member superseded by another, an unknown field in the middle *)
Definition c06_sc : schema := [
 {| mproto2 := false; mfields := [ {| fnum := 1; fkind_ := FNum KInt32; fcard_ := CImplicit |}; {| fnum := 2; fkind_ := FString; fcard_ := CImplicit |} ] |};
 {| mproto2 := false; mfields := [
    {| fnum := 1; fkind_ := FNum KInt64; fcard_ := CImplicit |};
    {| fnum := 3; fkind_ := FNum KSInt32; fcard_ := CPacked |};
    {| fnum := 5; fkind_ := FBytes; fcard_ := CMap FString (FMsg 0) |};
    {| fnum := 6; fkind_ := FNum KInt32; fcard_ := COneof 0 |};
    {| fnum := 7; fkind_ := FMsg 0; fcard_ := COneof 0 |} ] |} ].
Definition c06_input : list byte :=
  [26; 1; 2;  8; 7;  58; 2; 8; 1;  24; 3;  250; 1; 1; 9;  42; 7; 18; 2; 8; 5; 10; 1; 97;  8; 9;  48; 4;  26; 2; 4; 6].
Example C06_ex :
  legal_msg c06_sc (S (length c06_input)) 1 c06_input = true /\
  no_dup_msgs c06_sc (S (length c06_input)) 1 c06_input = true /\
  gen_unmarshal_into c06_sc false 1 GAbsent c06_input
  = UOk (GMsg [(3, GList [GNum 1; GNum (-2); GNum 2; GNum 3]); (1, GNum 9); (5, GMap [(GBytes [97], GMsg [(1, GNum 5)] [])]); (6, GNum 4)]
              [250; 1; 1; 9]) false.
Proof. vm_compute. repeat split; reflexivity. Qed.

Print Assumptions C06_legal_encodings.
Print Assumptions C06_destination_independent.
