Base/Prelude.vo Base/Prelude.glob Base/Prelude.v.beautified Base/Prelude.required_vo: Base/Prelude.v 
Base/Prelude.vio: Base/Prelude.v 
Base/Prelude.vos Base/Prelude.vok Base/Prelude.required_vos: Base/Prelude.v 
Wire/Varint.vo Wire/Varint.glob Wire/Varint.v.beautified Wire/Varint.required_vo: Wire/Varint.v Base/Prelude.vo
Wire/Varint.vio: Wire/Varint.v Base/Prelude.vio
Wire/Varint.vos Wire/Varint.vok Wire/Varint.required_vos: Wire/Varint.v Base/Prelude.vos
Wire/VarintProof.vo Wire/VarintProof.glob Wire/VarintProof.v.beautified Wire/VarintProof.required_vo: Wire/VarintProof.v Base/Prelude.vo Wire/Varint.vo
Wire/VarintProof.vio: Wire/VarintProof.v Base/Prelude.vio Wire/Varint.vio
Wire/VarintProof.vos Wire/VarintProof.vok Wire/VarintProof.required_vos: Wire/VarintProof.v Base/Prelude.vos Wire/Varint.vos
Wire/VarintSize.vo Wire/VarintSize.glob Wire/VarintSize.v.beautified Wire/VarintSize.required_vo: Wire/VarintSize.v Base/Prelude.vo Wire/Varint.vo Wire/VarintProof.vo
Wire/VarintSize.vio: Wire/VarintSize.v Base/Prelude.vio Wire/Varint.vio Wire/VarintProof.vio
Wire/VarintSize.vos Wire/VarintSize.vok Wire/VarintSize.required_vos: Wire/VarintSize.v Base/Prelude.vos Wire/Varint.vos Wire/VarintProof.vos
