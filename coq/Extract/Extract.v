(* Extraction of the executable models for the correspondence runner.
   ExtrOcamlBasic only: bool, option, unit, prod, list, sumbool/sumor map to OCaml's own types;
   nat, positive, N, Z stay inductive so 2^64 is exact.  No Extract Constant of ours. *)
From CsProto Require Import Prelude Varint ZigZag Codec RefWire WireStmts Hex Dump Lazy Pool Schema GenMarshal RefMsg GenStmts GenUnmarshal GenLegal GenUAnyDef History GenNames Dispatch Ext Json.
Require Import ExtrOcamlBasic.
Extraction Language OCaml.
Extraction "model.ml"
  enc_varint dec_varint size_of_varint size_of_zigzag size_key enc_zz32 enc_zz64 dec_zz32 dec_zz64
  estep erun ebytes esize enc_nested dstep drun in_dom
  parse protodump
  lazy_decode_dec lazy_decode_fn lazy_decode_nested observe acc_aliases_input pstep prun pinit
  vdepth gen_size gen_ops gen_marshal gen_marshal_to ref_decode normalize gen_unmarshal legal_msg no_dup_msgs no_dup_raw varints_fit hstep hinit mutation_fresh msg_at out_names apply_opt default_opts
  deduce marshal_action unmarshal_action size_action clone_action equal_action reset_action text_action range_ext_action crun
  ext_run marshal_json unmarshal_json jbuild jdefault.
