(* Encoder half of C01 / C02 / C19: sizes are exact, every writer fills exactly its predicted room,
   the bytes are the reference encoding. *)
From CsProto Require Import Prelude Varint VarintProof VarintSize ZigZag Codec RefWire WireStmts CodecBase.
Local Open Scope N_scope.

(* ------------------------------------------------------------------------------------------ *)
(* sizes *)
Theorem zigzag_size : forall v, (- 2^63 <= v < 2^63)%Z ->
  length (enc_varint (Z.to_N (enc_zz64 v))) = size_of_zigzag (u64z v).
Proof.
  intros v Hv. unfold size_of_zigzag. rewrite i64n_u64z by exact Hv.
  apply enc_varint_size. pose proof (zz64_range v Hv). lia.
Qed.

Lemma payload_size k v : in_dom k v = true -> length (enc_payload k v) = scalar_size k v.
Proof.
  intros H. pose proof (to_wire_lt k v H) as Hlt. pose proof (in_dom_range k v H) as Hr.
  unfold enc_payload.
  destruct k; unfold dom_lo, dom_hi in Hr; cbn [is_varint_kind width_of Nat.eqb scalar_size];
    try apply le_bytes_length; cbn [to_wire] in *.
  - destruct (v =? 0)%Z; reflexivity.
  - apply enc_varint_size; exact Hlt.
  - apply enc_varint_size; exact Hlt.
  - apply enc_varint_size; exact Hlt.
  - apply enc_varint_size; exact Hlt.
  - rewrite zz32_64 by lia. apply zigzag_size. lia.
  - apply zigzag_size. lia.
Qed.

Lemma payload_pos k v : in_dom k v = true -> (1 <= length (enc_payload k v))%nat.
Proof.
  intros _. unfold enc_payload. destruct (is_varint_kind k) eqn:Hk.
  - apply enc_varint_pos.
  - rewrite le_bytes_length. destruct k; cbn in Hk; try discriminate Hk; cbn [width_of]; lia.
Qed.

Lemma packed_elem_scalar k v : packed_elem_size k v = scalar_size k v.
Proof. reflexivity. Qed.

Lemma packed_len_acc k vs a :
  Forall (fun v => in_dom k v = true) vs ->
  fold_left (fun acc v => (acc + packed_elem_size k v)%nat) vs a
  = (a + length (concat (map (enc_payload k) vs)))%nat.
Proof.
  intros H. revert a. induction H as [|v vs Hv Hvs IH]; intros a; cbn [fold_left map concat length].
  - lia.
  - rewrite IH, app_length, packed_elem_scalar, payload_size by exact Hv. lia.
Qed.
Lemma packed_len_eq k vs : Forall (fun v => in_dom k v = true) vs ->
  packed_len k vs = length (concat (map (enc_payload k) vs)).
Proof. intros H. unfold packed_len. rewrite packed_len_acc by exact H. reflexivity. Qed.

Lemma ebytes_len op : op_ok op -> length (ebytes op) = esize op.
Proof.
  destruct op as [k tag v|tag b|k tag vs|b|tag size]; cbn [op_ok ebytes esize].
  - intros [Ht Hd]. rewrite app_length, key_size, payload_size by (try assumption; apply wt_of_lt8). reflexivity.
  - intros [Ht Hb]. rewrite !app_length, key_size, enc_varint_size by (try assumption; lia). lia.
  - intros (Ht & Hd & Hl). destruct vs as [|v0 vs0]; [reflexivity|].
    set (vs := v0 :: vs0) in *.
    rewrite !app_length, key_size, enc_varint_size, <- packed_len_eq by (try assumption; lia). lia.
  - intros _. reflexivity.
  - intros [Ht Hs]. rewrite app_length, key_size, enc_varint_size by (try assumption; lia). reflexivity.
Qed.

(* ------------------------------------------------------------------------------------------ *)
(* a writer that fills the room at the cursor with exactly bs *)
Definition fills (f : encoder -> outcome encoder) (bs : list byte) : Prop :=
  forall pre room post, (length bs <= length room)%nat ->
  f {| ebuf := pre ++ room ++ post; eoff := length pre |}
  = Ok {| ebuf := pre ++ bs ++ skipn (length bs) room ++ post; eoff := (length pre + length bs)%nat |}.

Lemma skipn_app_le {A} n (l r : list A) : (n <= length l)%nat -> skipn n (l ++ r) = skipn n l ++ r.
Proof. intros H. rewrite skipn_app. replace (n - length l)%nat with 0%nat by lia. reflexivity. Qed.

Lemma fills_put bs : fills (fun e => put e bs) bs.
Proof.
  intros pre room post Hlen. unfold put. cbn [ebuf eoff].
  rewrite !app_length.
  destruct (Nat.leb_spec (length pre + length bs) (length pre + (length room + length post))) as [_|Hc]; [|lia].
  rewrite firstn_app_exact. rewrite skipn_add, skipn_app_exact.
  rewrite skipn_app_le by exact Hlen. reflexivity.
Qed.

Lemma fills_put_copy bs : fills (fun e => put_copy e bs) bs.
Proof.
  intros pre room post Hlen. unfold put_copy. cbn [ebuf eoff].
  rewrite !app_length.
  destruct (Nat.ltb_spec (length pre + (length room + length post)) (length pre)) as [Hc|_]; [lia|].
  rewrite firstn_app_exact. rewrite skipn_add, skipn_app_exact.
  rewrite skipn_app_le by exact Hlen.
  rewrite firstn_all2 by lia. reflexivity.
Qed.

Lemma fills_nil : fills (fun e => Ok e) [].
Proof. intros pre room post _. cbn [length skipn app]. rewrite Nat.add_0_r. reflexivity. Qed.

Lemma fills_seq f g a b : fills f a -> fills g b -> fills (fun e => let* e1 := f e in g e1) (a ++ b).
Proof.
  intros Hf Hg pre room post Hlen. rewrite app_length in Hlen.
  rewrite Hf by lia. cbn [obind].
  replace (pre ++ a ++ skipn (length a) room ++ post) with ((pre ++ a) ++ skipn (length a) room ++ post)
    by (rewrite <- app_assoc; reflexivity).
  replace (length pre + length a)%nat with (length (pre ++ a)) by (rewrite app_length; reflexivity).
  rewrite Hg by (rewrite skipn_length; lia).
  rewrite <- skipn_add. rewrite <- !app_assoc, !app_length. f_equal. f_equal. lia.
Qed.

Lemma fills_ext f g bs : (forall e, f e = g e) -> fills f bs -> fills g bs.
Proof. intros He Hf pre room post Hlen. rewrite <- He. apply Hf. exact Hlen. Qed.

Lemma fills_put_all cs : fills (fun e => put_all e cs) (concat cs).
Proof.
  induction cs as [|c cs IH]; cbn [put_all concat].
  - apply fills_nil.
  - apply (fills_seq (fun e => put e c) (fun e => put_all e cs)); [apply fills_put|exact IH].
Qed.

Lemma obind_ok {A} (o : outcome A) : (let* x := o in Ok x) = o.
Proof. destruct o; reflexivity. Qed.

(* exact room *)
Lemma fills_exact f bs : fills f bs -> forall pre room post, length room = length bs ->
  f {| ebuf := pre ++ room ++ post; eoff := length pre |}
  = Ok {| ebuf := pre ++ bs ++ post; eoff := (length pre + length bs)%nat |}.
Proof.
  intros Hf pre room post Hlen. rewrite Hf by lia. rewrite skipn_all2 by lia. reflexivity.
Qed.

Lemma fills_estep op : fills (fun e => estep e op) (ebytes op).
Proof.
  destruct op as [k tag v|tag b|k tag vs|b|tag size]; cbn [estep ebytes].
  - unfold enc_scalar. apply fills_seq; apply fills_put.
  - unfold enc_bytes. apply fills_seq; [apply fills_put|]. apply fills_seq; [apply fills_put|apply fills_put_copy].
  - unfold enc_packed. destruct vs as [|v0 vs0]; [apply fills_nil|].
    apply fills_seq; [apply fills_put|]. apply fills_seq; [apply fills_put|apply fills_put_all].
  - unfold enc_raw. destruct b as [|b0 b']; [apply fills_nil|apply fills_put_copy].
  - unfold enc_map_header. apply fills_seq; apply fills_put.
Qed.

Theorem encode_exact : forall op pre room post,
  op_ok op -> length room = esize op ->
  estep {| ebuf := pre ++ room ++ post; eoff := length pre |} op
    = Ok {| ebuf := pre ++ ebytes op ++ post; eoff := (length pre + esize op)%nat |}
  /\ length (ebytes op) = esize op.
Proof.
  intros op pre room post Hok Hroom. pose proof (ebytes_len op Hok) as Hlen. split; [|exact Hlen].
  rewrite <- Hlen. apply (fills_exact (fun e => estep e op)); [apply fills_estep|lia].
Qed.

(* one byte short: the indexed writers panic *)
Lemma put_ok_inv e bs e' : put e bs = Ok e' ->
  length (ebuf e') = length (ebuf e) /\ eoff e' = (eoff e + length bs)%nat /\ (eoff e + length bs <= length (ebuf e))%nat.
Proof.
  unfold put. destruct (Nat.leb_spec (eoff e + length bs) (length (ebuf e))) as [Hle|Hgt]; [|discriminate].
  intros H. inversion H as [He]. cbn [ebuf eoff]. repeat split; try lia.
  rewrite !app_length, firstn_length, skipn_length. lia.
Qed.
Lemma put_panic e bs : (length (ebuf e) < eoff e + length bs)%nat -> put e bs = Panic.
Proof. intros H. unfold put. destruct (Nat.leb_spec (eoff e + length bs) (length (ebuf e))); [lia|reflexivity]. Qed.

Theorem encode_short_panics : forall k tag v pre room,
  tag_ok tag -> in_dom k v = true -> (length room < esize (EScalar k tag v))%nat ->
  estep {| ebuf := pre ++ room; eoff := length pre |} (EScalar k tag v) = Panic.
Proof.
  intros k tag v pre room Ht Hd Hlen. cbn [estep esize] in *. unfold enc_scalar.
  rewrite <- (key_size tag (wt_of k) Ht (wt_of_lt8 k)), <- (payload_size k v Hd) in Hlen.
  destruct (put {| ebuf := pre ++ room; eoff := length pre |} (enc_key tag (wt_of k))) as [e1| |] eqn:H1;
    cbn [obind]; try reflexivity.
  - apply put_ok_inv in H1. cbn [ebuf eoff] in H1. destruct H1 as (Hl & Ho & _).
    apply put_panic. rewrite Hl, Ho, app_length. lia.
  - unfold put in H1. cbn [ebuf eoff] in H1. destruct (_ <=? _)%nat in H1; discriminate H1.
Qed.

(* ------------------------------------------------------------------------------------------ *)
(* the bytes are the reference encoding *)
Lemma le_bytes_ref_gen w : forall n i,
  le_bytes w (n / 256 ^ N.of_nat i) = map (fun j => (n / 256 ^ N.of_nat j) mod 256) (seq i w).
Proof.
  induction w as [|w IH]; intros n i; cbn [le_bytes seq map]; [reflexivity|].
  f_equal. rewrite N.div_div by (try apply N.pow_nonzero; lia).
  replace (256 ^ N.of_nat i * 256) with (256 ^ N.of_nat (S i)) by (rewrite Nat2N.inj_succ, N.pow_succ_r'; lia).
  apply IH.
Qed.
Lemma le_bytes_ref w n : le_bytes w n = ref_le w n.
Proof.
  unfold ref_le. rewrite <- le_bytes_ref_gen. change (256 ^ N.of_nat 0) with 1. rewrite N.div_1_r. reflexivity.
Qed.

Lemma payload_canonical k tag v : in_dom k v = true ->
  enc_payload k v = rvalue (ref_field k tag v) /\ rpayload (ref_field k tag v) = rvalue (ref_field k tag v)
  /\ rwt (ref_field k tag v) = wt_of k /\ rnum (ref_field k tag v) = tag
  /\ match ref_field k tag v with
     | RVarint _ x => x < 2^64
     | RFixed64 _ b => length b = 8%nat
     | RFixed32 _ b => length b = 4%nat
     | RLen _ b => False
     end.
Proof.
  intros H. pose proof (to_wire_lt k v H) as Hlt. pose proof (in_dom_range k v H) as Hr.
  unfold enc_payload.
  assert (Hv : forall x, x < 2^64 -> enc_varint x = ref_varint x) by exact varint_canonical.
  destruct k; unfold dom_lo, dom_hi in Hr;
    cbn [is_varint_kind width_of Nat.eqb ref_field rvalue rpayload rwt rnum wt_of to_wire] in *;
    rewrite ?le_bytes_ref; unfold ref_le; cbn [seq map length];
    repeat split; unfold ref_twos, ref_zigzag.
  (* bool *)
  - apply Hv. exact Hlt.
  - exact Hlt.
  (* int32 *)
  - rewrite Hv by exact Hlt. f_equal. destruct (Z.ltb_spec v 0); [apply u64z_neg|apply u64z_pos]; lia.
  - destruct (Z.ltb_spec v 0); lia.
  (* int64 *)
  - rewrite Hv by exact Hlt. f_equal. destruct (Z.ltb_spec v 0); [apply u64z_neg|apply u64z_pos]; lia.
  - destruct (Z.ltb_spec v 0); lia.
  (* uint32 *)
  - rewrite Hv by exact Hlt. f_equal. apply u64z_pos; lia.
  - lia.
  (* uint64 *)
  - rewrite Hv by exact Hlt. f_equal. apply u64z_pos; lia.
  - lia.
  (* sint32 *)
  - rewrite Hv by exact Hlt. f_equal. rewrite zz32_val by lia. reflexivity.
  - destruct (Z.leb_spec 0 v); lia.
  (* sint64 *)
  - rewrite Hv by exact Hlt. f_equal. rewrite zz64_val by lia. reflexivity.
  - destruct (Z.leb_spec 0 v); lia.
  (* fixed32 *)
  - rewrite u32z_pos by lia. reflexivity.
  (* fixed64 *)
  - rewrite u64z_pos by lia. reflexivity.
  (* sfixed32 *)
  - destruct (Z.ltb_spec v 0); [rewrite u32z_neg by lia|rewrite u32z_pos by lia]; reflexivity.
  (* sfixed64 *)
  - destruct (Z.ltb_spec v 0); [rewrite u64z_neg by lia|rewrite u64z_pos by lia]; reflexivity.
  (* float *)
  - rewrite u32z_pos by lia. reflexivity.
  (* double *)
  - rewrite u64z_pos by lia. reflexivity.
Qed.

Theorem scalar_canonical : forall k tag v, tag_ok tag -> in_dom k v = true ->
  ebytes (EScalar k tag v) = renc (ref_field k tag v) /\ rfield_wf (ref_field k tag v).
Proof.
  intros k tag v Ht Hd. destruct (payload_canonical k tag v Hd) as (Hp & Hrp & Hwt & Hnum & Hwf).
  split.
  - cbn [ebytes]. unfold renc, rkey. rewrite Hrp, Hwt, Hnum, <- Hp.
    rewrite key_canonical by (try assumption; apply wt_of_lt8). reflexivity.
  - unfold rfield_wf. rewrite Hnum. split; [exact Ht|].
    destruct (ref_field k tag v); try exact Hwf. destruct Hwf.
Qed.

Theorem bytes_canonical : forall tag b, tag_ok tag -> N.of_nat (length b) < 2^63 ->
  ebytes (EBytes tag b) = renc (RLen tag b).
Proof.
  intros tag b Ht Hb. cbn [ebytes]. unfold renc, rkey, rpayload. cbn [rnum rwt].
  rewrite key_canonical by (try assumption; lia). rewrite varint_canonical by lia. reflexivity.
Qed.

Theorem packed_canonical : forall k tag vs, tag_ok tag -> vs <> [] ->
  Forall (fun v => in_dom k v = true) vs -> N.of_nat (packed_len k vs) < 2^63 ->
  ebytes (EPacked k tag vs) = renc (ref_packed k tag vs).
Proof.
  intros k tag vs Ht Hne Hd Hl.
  assert (Hc : concat (map (enc_payload k) vs) = concat (map (fun v => rvalue (ref_field k tag v)) vs)).
  { clear Hne Hl. induction Hd as [|v vs Hv Hvs IH]; cbn [map concat]; [reflexivity|].
    rewrite IH. destruct (payload_canonical k tag v Hv) as (Hp & _). rewrite Hp. reflexivity. }
  cbn [ebytes]. destruct vs as [|v0 vs0]; [congruence|]. set (vs := v0 :: vs0) in *.
  unfold ref_packed, renc, rkey, rpayload. cbn [rnum rwt].
  rewrite key_canonical by (try assumption; lia). rewrite <- Hc.
  rewrite <- packed_len_eq by exact Hd. rewrite varint_canonical by lia. reflexivity.
Qed.

(* ------------------------------------------------------------------------------------------ *)
(* C19, encoder side *)
Theorem nested_encode_exact : forall fl tag b pre room post,
  tag_ok tag -> N.of_nat (length b) < 2^63 ->
  let n := (size_key tag + size_of_varint (N.of_nat (length b)) + length b)%nat in
  length room = n ->
  forall msize, (fl = NMarshalTo -> msize = length b) ->
  enc_nested {| ebuf := pre ++ room ++ post; eoff := length pre |} tag fl msize (Some b)
    = Ok ({| ebuf := pre ++ (enc_key tag 2 ++ enc_varint (N.of_nat (length b)) ++ b) ++ post;
             eoff := (length pre + n)%nat |}, true)
  /\ enc_key tag 2 ++ enc_varint (N.of_nat (length b)) ++ b = renc (RLen tag b).
Proof.
  intros fl tag b pre room post Ht Hb n Hroom msize Hms.
  split; [|exact (bytes_canonical tag b Ht Hb)].
  assert (Hk : length (enc_key tag 2) = size_key tag) by (apply key_size; [exact Ht|lia]).
  assert (Hv : length (enc_varint (N.of_nat (length b))) = size_of_varint (N.of_nat (length b)))
    by (apply enc_varint_size; lia).
  set (kb := enc_key tag 2) in *. set (lb := enc_varint (N.of_nat (length b))) in *.
  assert (Hhead : fills (fun e => let* e1 := put e kb in put e1 lb) (kb ++ lb))
    by (apply fills_seq; apply fills_put).
  assert (Hlen : length (kb ++ lb ++ b) = n) by (rewrite !app_length; lia).
  destruct fl.
  - (* MarshalTo *)
    specialize (Hms eq_refl). subst msize. cbn [enc_nested]. fold kb lb.
    pose proof (fills_exact _ _ (fills_seq _ (fun e => put e b) _ _ Hhead (fills_put b)) pre room post) as H3.
    rewrite <- app_assoc in H3. specialize (H3 ltac:(lia)). cbn beta in H3.
    destruct (put {| ebuf := pre ++ room ++ post; eoff := length pre |} kb) as [e1| |] eqn:H1;
      cbn [obind] in H3 |- *; try discriminate H3.
    destruct (put e1 lb) as [e2| |] eqn:H2; cbn [obind] in H3 |- *; try discriminate H3.
    apply put_ok_inv in H1. apply put_ok_inv in H2. cbn [ebuf eoff] in H1.
    destruct H1 as (_ & Ho1 & _). destruct H2 as (_ & Ho2 & _).
    rewrite H3. cbn [obind ebuf]. f_equal. f_equal. f_equal. rewrite Ho2, Ho1. lia.
  - (* Marshal *)
    cbn [enc_nested]. fold kb lb.
    pose proof (fills_exact _ _ (fills_seq _ (fun e => put_copy e b) _ _ Hhead (fills_put_copy b)) pre room post) as H3.
    rewrite <- app_assoc in H3. specialize (H3 ltac:(lia)). cbn beta in H3.
    destruct (put {| ebuf := pre ++ room ++ post; eoff := length pre |} kb) as [e1| |] eqn:H1;
      cbn [obind] in H3 |- *; try discriminate H3.
    destruct (put e1 lb) as [e2| |] eqn:H2; cbn [obind] in H3 |- *; try discriminate H3.
    rewrite H3. cbn [obind]. rewrite Hlen. reflexivity.
  - cbn [enc_nested]. fold kb lb.
    pose proof (fills_exact _ _ (fills_seq _ (fun e => put_copy e b) _ _ Hhead (fills_put_copy b)) pre room post) as H3.
    rewrite <- app_assoc in H3. specialize (H3 ltac:(lia)). cbn beta in H3.
    destruct (put {| ebuf := pre ++ room ++ post; eoff := length pre |} kb) as [e1| |] eqn:H1;
      cbn [obind] in H3 |- *; try discriminate H3.
    destruct (put e1 lb) as [e2| |] eqn:H2; cbn [obind] in H3 |- *; try discriminate H3.
    rewrite H3. cbn [obind]. rewrite Hlen. reflexivity.
Qed.

Theorem nested_encode_error : forall fl tag msize e e',
  enc_nested e tag fl msize None = Ok (e', true) -> False.
Proof.
  intros fl tag msize e e' H. destruct fl; cbn [enc_nested] in H; try discriminate H.
  destruct (put e (enc_key tag 2)) as [e1| |]; cbn [obind] in H; try discriminate H.
  destruct (put e1 (enc_varint (N.of_nat msize))) as [e2| |]; cbn [obind] in H; discriminate H.
Qed.
