From CsProto Require Import Prelude.
Local Open Scope N_scope.

(* bytes are N < 256 *)

(* EncodeVarint: for v >= 1<<7 { dest[n] = uint8(v&0x7f | 0x80); v >>= 7; n++ } dest[n] = uint8(v) *)
Fixpoint enc_varint_fuel (fuel : nat) (v : N) : list byte :=
  match fuel with
  | O => [v mod 256]
  | S f => if 128 <=? v then (N.lor (N.land v 127) 128) :: enc_varint_fuel f (N.shiftr v 7)
           else [v mod 256]
  end.
Definition enc_varint (v : N) : list byte := enc_varint_fuel 10 v.

(* SizeOfVarint: (bits.Len64(v|1) + 6) / 7 *)
Definition size_of_varint (v : N) : nat := N.to_nat ((N.size (N.lor v 1) + 6) / 7).

Inductive derr := EInvalidVarint | EUnexpectedEOF | EOverflow.

(* DecodeVarint faithful *)
Fixpoint dv_small (fuel : nat) (p : list byte) (shift : N) (v : N) (n : nat) : (N * nat) + derr :=
  match fuel with
  | O => inr EOverflow
  | S f =>
    match p with
    | [] => inr EUnexpectedEOF
    | b :: p' =>
      let v' := N.lor v (N.shiftl (N.land b 127) shift mod 2^64) in
      if N.land b 128 =? 0 then inl (v', S n) else dv_small f p' (shift + 7) v' (S n)
    end
  end.

Definition dec_varint (p : list byte) : (N * nat) + derr :=
  match p with
  | [] => inr EInvalidVarint
  | b0 :: _ =>
    if b0 <? 128 then inl (b0, 1%nat)
    else if (length p <? 10)%nat then dv_small 10 p 0 0 0%nat
    else (* 10-byte path: identical loop shape, bounded to 10 bytes *)
      dv_small 10 (firstn 10 p) 0 0 0%nat
  end.

