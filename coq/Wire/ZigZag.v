(* Go's EncodeZigZag32/64 and DecodeZigZag32/64 with their wraps, arithmetic shifts and XORs,
   generic in the width w (32 or 64), against the textbook specification. *)
From CsProto Require Import Prelude.
Local Open Scope Z_scope.

Section Width.
Variable w : Z.
Hypothesis Hw : w = 32 \/ w = 64.

Definition two : Z := 2^w.
Definition half : Z := 2^(w-1).
Definition uw (z : Z) : Z := z mod two.                                   (* uintW(x) *)
Definition iw (z : Z) : Z := let m := z mod two in if m <? half then m else m - two.   (* intW(x) *)

(* EncodeZigZag64:  zz := uint64(v<<1) ^ uint64((v >> 63))
   EncodeZigZag32:  zz := uint64((uint32(v) << 1) ^ uint32((v >> 31)))  *)
Definition enc_zz (v : Z) : Z := Z.lxor (uw (Z.shiftl v 1)) (uw (Z.shiftr v (w-1))).
(* DecodeZigZag64:  dv = (dv >> 1) ^ uint64((int64(dv&1)<<63)>>63) ; return int64(dv)
   DecodeZigZag32:  dv = uint64((uint32(dv) >> 1) ^ uint32((int32(dv&1)<<31)>>31)) ; return int32(dv) *)
Definition dec_zz (dv : Z) : Z :=
  iw (Z.lxor (Z.shiftr (uw dv) 1) (uw (Z.shiftr (iw (Z.shiftl (iw (Z.land dv 1)) (w-1))) (w-1)))).

Definition zz_spec (v : Z) : Z := if 0 <=? v then 2 * v else - 2 * v - 1.

Lemma two_half : two = 2 * half /\ 0 < half /\ 0 < w.
Proof. unfold two, half. destruct Hw; subst w; cbn; lia. Qed.

Lemma lxor_ones x : 0 <= x < two -> Z.lxor x (two - 1) = two - 1 - x.
Proof.
  intros Hx. destruct two_half as (_ & _ & Hwpos).
  assert (H1 : two - 1 = Z.ones w). { rewrite Z.ones_equiv. unfold two. lia. }
  rewrite H1 at 1.
  assert (H2 : Z.lxor x (Z.ones w) = Z.land (Z.lnot x) (Z.ones w)).
  { apply Z.bits_inj'. intros n Hn.
    rewrite Z.lxor_spec, Z.land_spec, Z.lnot_spec by exact Hn.
    destruct (Z.lt_ge_cases n w) as [Hlt|Hge].
    - rewrite Z.ones_spec_low by lia. rewrite xorb_true_r, andb_true_r. reflexivity.
    - rewrite Z.ones_spec_high by lia. rewrite xorb_false_r, andb_false_r.
      destruct (Z.eq_dec x 0) as [->|Hnz]; [apply Z.bits_0|].
      apply Z.bits_above_log2; [lia|].
      assert (Z.log2 x < w) by (apply Z.log2_lt_pow2; unfold two in Hx; lia). lia. }
  rewrite H2, Z.land_ones by lia.
  unfold Z.lnot. rewrite <- Z.sub_1_r. fold two.
  replace (- x - 1) with ((two - 1 - x) + (-1) * two) by lia.
  rewrite Z.mod_add by lia. apply Z.mod_small. lia.
Qed.

Theorem enc_zz_spec v : - half <= v < half -> enc_zz v = zz_spec v.
Proof.
  intros Hv. destruct two_half as (Ht & Hh & Hwpos). unfold enc_zz, zz_spec, uw.
  rewrite Z.shiftl_mul_pow2, Z.shiftr_div_pow2 by lia. change (2^1) with 2. fold half.
  destruct (Z.leb_spec 0 v) as [Hpos|Hneg].
  - rewrite (Z.div_small v half) by lia. rewrite Z.mod_0_l by lia.
    rewrite Z.lxor_0_r. rewrite Z.mod_small by lia. lia.
  - assert (Hd : v / half = -1).
    { symmetry. apply (Z.div_unique v half (-1) (v + half)); lia. }
    rewrite Hd. assert (Hm : -1 mod two = two - 1).
    { symmetry. apply (Z.mod_unique (-1) two (-1) (two - 1)); lia. }
    rewrite Hm.
    assert (Hs : (v * 2) mod two = v * 2 + two).
    { symmetry. apply (Z.mod_unique (v*2) two (-1) (v * 2 + two)); lia. }
    rewrite Hs, lxor_ones by lia. lia.
Qed.

Lemma iw_small z : - half <= z < half -> iw z = z.
Proof.
  intros Hz. destruct two_half as (Ht & Hh & _). unfold iw. destruct (Z.leb_spec 0 z).
  - rewrite Z.mod_small by lia. destruct (Z.ltb_spec z half); lia.
  - assert (Hm : z mod two = z + two).
    { symmetry. apply (Z.mod_unique z two (-1) (z + two)); lia. }
    cbv zeta. rewrite Hm. destruct (Z.ltb_spec (z + two) half); lia.
Qed.

Lemma zz_spec_range v : - half <= v < half -> 0 <= zz_spec v < two.
Proof. destruct two_half as (Ht & Hh & _). unfold zz_spec. destruct (Z.leb_spec 0 v); lia. Qed.

Lemma sign_mask0 : uw (Z.shiftr (iw (Z.shiftl (iw 0) (w-1))) (w-1)) = 0.
Proof. unfold uw, iw, two, half. destruct Hw; subst w; vm_compute; reflexivity. Qed.
Lemma sign_mask1 : uw (Z.shiftr (iw (Z.shiftl (iw 1) (w-1))) (w-1)) = two - 1.
Proof. unfold uw, iw, two, half. destruct Hw; subst w; vm_compute; reflexivity. Qed.

Theorem dec_enc_zz v : - half <= v < half -> dec_zz (enc_zz v) = v.
Proof.
  intros Hv. destruct two_half as (Ht & Hh & _).
  rewrite enc_zz_spec by exact Hv. pose proof (zz_spec_range v Hv) as Hr.
  unfold dec_zz. unfold uw at 1. rewrite (Z.mod_small (zz_spec v)) by exact Hr. unfold zz_spec in *.
  assert (Hland : forall z, 0 <= z -> Z.land z 1 = z mod 2).
  { intros z _. change 1 with (Z.ones 1). rewrite Z.land_ones by lia. reflexivity. }
  destruct (Z.leb_spec 0 v) as [Hpos|Hneg].
  - rewrite Hland by lia. replace (2 * v) with (v * 2) by lia. rewrite Z.mod_mul by lia.
    rewrite sign_mask0, Z.lxor_0_r, Z.shiftr_div_pow2 by lia. change (2^1) with 2.
    rewrite Z.div_mul by lia. apply iw_small; lia.
  - set (z := - 2 * v - 1) in *. assert (Hz : 0 <= z < two) by lia.
    rewrite Hland by lia.
    assert (Hodd : z mod 2 = 1).
    { symmetry. apply (Z.mod_unique z 2 (- v - 1) 1); unfold z; lia. }
    rewrite Hodd, sign_mask1. rewrite Z.shiftr_div_pow2 by lia. change (2^1) with 2.
    assert (Hq : z / 2 = - v - 1).
    { symmetry. apply (Z.div_unique z 2 (- v - 1) 1); unfold z; lia. }
    rewrite Hq, lxor_ones by lia.
    unfold iw.
    assert (Hmm : (two - 1 - (- v - 1)) mod two = v + two).
    { replace (two - 1 - (- v - 1)) with (v + two) by lia. apply Z.mod_small. lia. }
    cbv zeta. rewrite Hmm. destruct (Z.ltb_spec (v + two) half); lia.
Qed.
End Width.

Definition enc_zz64 := enc_zz 64.  Definition dec_zz64 := dec_zz 64.
Definition enc_zz32 := enc_zz 32.  Definition dec_zz32 := dec_zz 32.

Theorem dec_enc_zz64 v : - 2^63 <= v < 2^63 -> dec_zz64 (enc_zz64 v) = v.
Proof. apply (dec_enc_zz 64); right; reflexivity. Qed.
Theorem dec_enc_zz32 v : - 2^31 <= v < 2^31 -> dec_zz32 (enc_zz32 v) = v.
Proof. apply (dec_enc_zz 32); left; reflexivity. Qed.
Theorem enc_zz64_spec v : - 2^63 <= v < 2^63 -> enc_zz64 v = zz_spec v.
Proof. apply (enc_zz_spec 64); right; reflexivity. Qed.
Theorem enc_zz32_spec v : - 2^31 <= v < 2^31 -> enc_zz32 v = zz_spec v.
Proof. apply (enc_zz_spec 32); left; reflexivity. Qed.
