(* Executable model of csproto's hand-written wire codec: Encoder (encoder.go), Decoder (decoder.go),
   size helpers (sizeof.go).  Definitions only -- proofs live in *Proofs.v so that the model still
   runs (extraction, correspondence) when a proof breaks.

   Go values are mathematical integers (Z); every conversion the Go code relies on (uint64(int32),
   uint32(v)<<1, int32(uint64) ...) is written out.  Floats are their IEEE bit patterns: the Go code
   only moves bits (math.Float32bits / Float32frombits). *)
From CsProto Require Import Prelude Varint ZigZag.
Local Open Scope N_scope.

(* ------------------------------------------------------------------------------------------ *)
(* numeric conversions *)
Definition u64z (z : Z) : N := Z.to_N (z mod 2^64).                      (* uint64(x) *)
Definition u32z (z : Z) : N := Z.to_N (z mod 2^32).                      (* uint32(x) *)
Definition i64n (n : N) : Z :=                                            (* int64(uint64 n) *)
  let m := Z.of_N (n mod 2^64) in (if m <? 2^63 then m else m - 2^64)%Z.
Definition i32n (n : N) : Z :=                                            (* int32(uint64 n) *)
  let m := Z.of_N (n mod 2^32) in (if m <? 2^31 then m else m - 2^32)%Z.

Inductive skind := KBool | KInt32 | KInt64 | KUInt32 | KUInt64 | KSInt32 | KSInt64
                 | KFixed32 | KFixed64 | KSFixed32 | KSFixed64 | KFloat | KDouble.

Definition skind_eqb (a b : skind) : bool :=
  match a, b with
  | KBool, KBool | KInt32, KInt32 | KInt64, KInt64 | KUInt32, KUInt32 | KUInt64, KUInt64
  | KSInt32, KSInt32 | KSInt64, KSInt64 | KFixed32, KFixed32 | KFixed64, KFixed64
  | KSFixed32, KSFixed32 | KSFixed64, KSFixed64 | KFloat, KFloat | KDouble, KDouble => true
  | _, _ => false
  end.

(* the Go domain of each kind (bool as 0/1, floats as bit patterns) *)
Definition in_dom (k : skind) (v : Z) : bool :=
  match k with
  | KBool => ((0 <=? v) && (v <=? 1))%Z
  | KInt32 | KSInt32 | KSFixed32 => ((- 2^31 <=? v) && (v <? 2^31))%Z
  | KInt64 | KSInt64 | KSFixed64 => ((- 2^63 <=? v) && (v <? 2^63))%Z
  | KUInt32 | KFixed32 | KFloat => ((0 <=? v) && (v <? 2^32))%Z
  | KUInt64 | KFixed64 | KDouble => ((0 <=? v) && (v <? 2^64))%Z
  end.

(* 0 = varint, 1 = fixed64, 2 = length-delimited, 5 = fixed32 *)
Definition wt_of (k : skind) : N :=
  match k with
  | KFixed64 | KSFixed64 | KDouble => 1
  | KFixed32 | KSFixed32 | KFloat => 5
  | _ => 0
  end.
Definition width_of (k : skind) : nat :=
  match k with
  | KFixed64 | KSFixed64 | KDouble => 8
  | KFixed32 | KSFixed32 | KFloat => 4
  | _ => 0
  end.
Definition is_varint_kind (k : skind) : bool := (width_of k =? 0)%nat.

(* the unsigned integer that goes on the wire (varint value or fixed-width bits) *)
Definition to_wire (k : skind) (v : Z) : N :=
  match k with
  | KBool => if (v =? 0)%Z then 0 else 1
  | KInt32 | KInt64 | KUInt32 | KUInt64 => u64z v           (* uint64(v): sign extension for int32 *)
  | KSInt32 => Z.to_N (enc_zz32 v)
  | KSInt64 => Z.to_N (enc_zz64 v)
  | KFixed32 | KSFixed32 | KFloat => u32z v
  | KFixed64 | KSFixed64 | KDouble => u64z v
  end.

(* what the typed reader makes of the wire integer; None = ErrValueOverflow *)
Definition of_wire (k : skind) (n : N) : option Z :=
  match k with
  | KBool => Some (if n =? 0 then 0%Z else 1%Z)
  | KUInt32 => if 4294967295 <? n then None else Some (Z.of_N n)
  | KUInt64 => Some (Z.of_N n)
  | KInt32 => let i := i64n n in
              if ((2147483647 <? i) || (i <? -2147483648))%Z then None else Some i
  | KInt64 => Some (i64n n)
  | KSInt32 => Some (dec_zz32 (Z.of_N n))
  | KSInt64 => Some (dec_zz64 (Z.of_N n))
  | KFixed32 | KFloat | KFixed64 | KDouble => Some (Z.of_N n)
  | KSFixed32 => Some (i32n n)            (* generated code: int32(DecodeFixed32()) *)
  | KSFixed64 => Some (i64n n)
  end.

(* little-endian fixed width *)
Fixpoint le_bytes (w : nat) (n : N) : list byte :=
  match w with O => [] | S w' => (n mod 256) :: le_bytes w' (n / 256) end.
Fixpoint le_val (bs : list byte) : N :=
  match bs with [] => 0 | b :: r => b + 256 * le_val r end.

(* ------------------------------------------------------------------------------------------ *)
(* size helpers (sizeof.go) *)
Definition size_of_zigzag (n : N) : nat := size_of_varint (Z.to_N (enc_zz64 (i64n n))).
Definition size_key (tag : N) : nat := size_of_varint (N.shiftl tag 3 mod 2^64).

(* ------------------------------------------------------------------------------------------ *)
(* Encoder *)
Record encoder := { ebuf : list byte; eoff : nat }.

(* indexed stores (dest[n] = ..., PutUint32, e.p[e.offset] = ...): out of range => panic *)
Definition put (e : encoder) (bs : list byte) : outcome encoder :=
  if (eoff e + length bs <=? length (ebuf e))%nat
  then Ok {| ebuf := firstn (eoff e) (ebuf e) ++ bs ++ skipn (eoff e + length bs) (ebuf e);
             eoff := (eoff e + length bs)%nat |}
  else Panic.
(* copy(e.p[e.offset:], v); e.offset += len(v): the slice expression panics only when offset > len,
   copy truncates silently *)
Definition put_copy (e : encoder) (bs : list byte) : outcome encoder :=
  if (length (ebuf e) <? eoff e)%nat then Panic
  else let room := (length (ebuf e) - eoff e)%nat in
       Ok {| ebuf := firstn (eoff e) (ebuf e) ++ firstn room bs ++ skipn (eoff e + length bs) (ebuf e);
             eoff := (eoff e + length bs)%nat |}.

Definition enc_key (tag wt : N) : list byte := enc_varint (N.lor (N.shiftl tag 3 mod 2^64) wt).

Definition enc_payload (k : skind) (v : Z) : list byte :=
  if is_varint_kind k then enc_varint (to_wire k v) else le_bytes (width_of k) (to_wire k v).

(* EncodeBool ... EncodeFloat64 *)
Definition enc_scalar (e : encoder) (k : skind) (tag : N) (v : Z) : outcome encoder :=
  let* e1 := put e (enc_key tag (wt_of k)) in put e1 (enc_payload k v).

(* EncodeBytes / EncodeString *)
Definition enc_bytes (e : encoder) (tag : N) (b : list byte) : outcome encoder :=
  let* e1 := put e (enc_key tag 2) in
  let* e2 := put e1 (enc_varint (N.of_nat (length b))) in
  put_copy e2 b.

(* per-element size the packed encoders add up before writing the length *)
Definition packed_elem_size (k : skind) (v : Z) : nat :=
  match k with
  | KBool => 1
  | KSInt32 | KSInt64 => size_of_zigzag (u64z v)
  | KInt32 | KInt64 | KUInt32 | KUInt64 => size_of_varint (u64z v)
  | _ => width_of k
  end.
Definition packed_len (k : skind) (vs : list Z) : nat :=
  fold_left (fun acc v => (acc + packed_elem_size k v)%nat) vs 0%nat.

Fixpoint put_all (e : encoder) (chunks : list (list byte)) : outcome encoder :=
  match chunks with
  | [] => Ok e
  | c :: r => let* e1 := put e c in put_all e1 r
  end.

(* EncodePackedBool ... EncodePackedFloat64 *)
Definition enc_packed (e : encoder) (k : skind) (tag : N) (vs : list Z) : outcome encoder :=
  match vs with
  | [] => Ok e
  | _ =>
    let* e1 := put e (enc_key tag 2) in
    let* e2 := put e1 (enc_varint (N.of_nat (packed_len k vs))) in
    put_all e2 (map (enc_payload k) vs)
  end.

(* EncodeRaw *)
Definition enc_raw (e : encoder) (b : list byte) : outcome encoder :=
  match b with [] => Ok e | _ => put_copy e b end.

(* EncodeMapEntryHeader *)
Definition enc_map_header (e : encoder) (tag : N) (size : N) : outcome encoder :=
  let* e1 := put e (enc_key tag 2) in put e1 (enc_varint size).

(* EncodeNested.  The nested message is abstract: [fl] says which interface it satisfies,
   [msize] is what csproto.Size(m) returns (consulted on the MarshalTo path only), [mres] what its
   marshal call does: Some b = success producing b (MarshalTo: written at the cursor with indexed
   stores into e.p[e.offset:]), None = error.  The boolean is "returned a nil error". *)
Inductive nflavour := NMarshalTo | NMarshal | NFallback.
Definition enc_nested (e : encoder) (tag : N) (fl : nflavour) (msize : nat) (mres : option (list byte))
  : outcome (encoder * bool) :=
  match fl with
  | NMarshalTo =>
      let* e1 := put e (enc_key tag 2) in
      let* e2 := put e1 (enc_varint (N.of_nat msize)) in
      match mres with
      | None => Ok (e2, false)
      | Some b =>
          let* e3 := put e2 b in
          Ok ({| ebuf := ebuf e3; eoff := (eoff e2 + msize)%nat |}, true)
      end
  | NMarshal | NFallback =>
      (* marshal first; the length prefix and the cursor follow len(buf) *)
      match mres with
      | None => Ok (e, false)
      | Some b =>
          let* e1 := put e (enc_key tag 2) in
          let* e2 := put e1 (enc_varint (N.of_nat (length b))) in
          let* e3 := put_copy e2 b in
          Ok (e3, true)
      end
  end.

Inductive eop :=
| EScalar (k : skind) (tag : N) (v : Z)
| EBytes (tag : N) (b : list byte)
| EPacked (k : skind) (tag : N) (vs : list Z)
| ERaw (b : list byte)
| EMapHeader (tag : N) (size : N).

Definition estep (e : encoder) (op : eop) : outcome encoder :=
  match op with
  | EScalar k tag v => enc_scalar e k tag v
  | EBytes tag b => enc_bytes e tag b
  | EPacked k tag vs => enc_packed e k tag vs
  | ERaw b => enc_raw e b
  | EMapHeader tag size => enc_map_header e tag size
  end.

Fixpoint erun (e : encoder) (ops : list eop) : outcome encoder :=
  match ops with [] => Ok e | op :: r => let* e1 := estep e op in erun e1 r end.

(* the bytes an op is meant to produce (used by the size/round-trip theorems) *)
Definition ebytes (op : eop) : list byte :=
  match op with
  | EScalar k tag v => enc_key tag (wt_of k) ++ enc_payload k v
  | EBytes tag b => enc_key tag 2 ++ enc_varint (N.of_nat (length b)) ++ b
  | EPacked k tag vs =>
      match vs with [] => [] | _ =>
        enc_key tag 2 ++ enc_varint (N.of_nat (packed_len k vs)) ++ concat (map (enc_payload k) vs) end
  | ERaw b => b
  | EMapHeader tag size => enc_key tag 2 ++ enc_varint size
  end.

(* what the size helpers predict for an op *)
Definition scalar_size (k : skind) (v : Z) : nat :=
  match k with
  | KBool => 1
  | KSInt32 | KSInt64 => size_of_zigzag (u64z v)
  | KInt32 | KInt64 | KUInt32 | KUInt64 => size_of_varint (u64z v)
  | _ => width_of k
  end.
Definition esize (op : eop) : nat :=
  match op with
  | EScalar k tag v => size_key tag + scalar_size k v
  | EBytes tag b => size_key tag + size_of_varint (N.of_nat (length b)) + length b
  | EPacked k tag vs =>
      match vs with [] => 0 | _ =>
        size_key tag + size_of_varint (N.of_nat (packed_len k vs)) + packed_len k vs end
  | ERaw b => length b
  | EMapHeader tag size => size_key tag + size_of_varint size
  end%nat.

(* ------------------------------------------------------------------------------------------ *)
(* Decoder *)
Record decoder := { dbuf : list byte; doff : nat; dfast : bool }.
Definition dadv (d : decoder) (n : nat) : decoder :=
  {| dbuf := dbuf d; doff := (doff d + n)%nat; dfast := dfast d |}.
Definition at_eof (d : decoder) : bool := (length (dbuf d) <=? doff d)%nat.
Definition max_tag : N := 536870911.
Definition max_len : N := 2147483647.

(* result of a decoder call: the decoder state is kept on errors too, because some readers
   (the packed ones) leave the cursor where their loop stopped *)
Inductive dres (A : Type) := DOk (a : A) (d : decoder) | DErr (d : decoder) | DPanic.
Arguments DOk {A} a d. Arguments DErr {A} d. Arguments DPanic {A}.

(* Go slice expressions are partial: p[lo:] panics when lo > len(p), p[lo:hi] when not lo <= hi <= len(p)
   (cap = len for every buffer the decoder sees through these expressions).  Every slice expression of
   decoder.go goes through one of these two, so "no call panics" is a statement about the guards. *)
Definition go_from {A} (p : list byte) (lo : nat) (k : list byte -> dres A) : dres A :=
  if (length p <? lo)%nat then DPanic else k (skipn lo p).
Definition go_sub {A} (p : list byte) (lo hi : nat) (k : list byte -> dres A) : dres A :=
  if ((lo <=? hi) && (hi <=? length p))%nat then k (slice p lo hi) else DPanic.
(* binary.LittleEndian.Uint32/Uint64(p): indexes p[w-1] first *)
Definition go_le {A} (w : nat) (p : list byte) (k : N -> dres A) : dres A :=
  if (length p <? w)%nat then DPanic else k (le_val (firstn w p)).

Definition dec_tag (d : decoder) : dres (N * N) :=
  if at_eof d then DErr d else
  go_from (dbuf d) (doff d) (fun rest =>
  match dec_varint rest with
  | inr _ => DErr d
  | inl (v, n) =>
      if (v <? 1) || (max_tag <? N.shiftr v 3) then DErr d
      else DOk (N.shiftr v 3, N.land v 7) (dadv d n)
  end).

(* one element of a scalar kind read from p = d.p[d.offset:]: value and encoded length.
   Varint kinds: DecodeVarint / DecodeZigZag + the range test; fixed32/64 (and sfixed through the
   generated cast): DecodeFixed32/64 with their own length test; float/double: the explicit
   `len(d.p)-d.offset < w` guard followed by binary.LittleEndian.UintNN *)
Definition read_elem {A} (k : skind) (d : decoder) (p : list byte) (kont : option (Z * nat) -> dres A) : dres A :=
  if is_varint_kind k then
    match dec_varint p with
    | inr _ => kont None
    | inl (v, n) => match of_wire k v with None => kont None | Some z => kont (Some (z, n)) end
    end
  else
    let w := width_of k in
    match k with
    | KFloat | KDouble =>
        if (length (dbuf d) - doff d <? w)%nat then kont None
        else go_le w p (fun n => match of_wire k n with None => kont None | Some z => kont (Some (z, w)) end)
    | _ =>
        if (length p <? w)%nat then kont None
        else match of_wire k (le_val (firstn w p)) with None => kont None | Some z => kont (Some (z, w)) end
    end.

(* DecodeBool ... DecodeFloat64 *)
Definition dec_scalar (d : decoder) (k : skind) : dres Z :=
  if at_eof d then DErr d else
  go_from (dbuf d) (doff d) (fun rest =>
  read_elem k d rest (fun r =>
  match r with
  | None => DErr d
  | Some (z, n) => DOk z (dadv d n)
  end)).

(* DecodeBytes: returns a sub-slice of the input *)
Definition dec_bytes (d : decoder) : dres (list byte) :=
  if at_eof d then DErr d else
  go_from (dbuf d) (doff d) (fun rest =>
  match dec_varint rest with
  | inr _ => DErr d
  | inl (l, n) =>
      if max_len <? l then DErr d
      else if N.of_nat (length (dbuf d)) <? N.of_nat (doff d + n) + l then DErr d
      else let nb := N.to_nat l in
           go_sub (dbuf d) (doff d + n) (doff d + n + nb) (fun b => DOk b (dadv d (n + nb)))
  end).

(* the packed readers' loop: for nRead < l { EOF test; element; nRead += n; offset += n } *)
Fixpoint packed_loop (fuel : nat) (k : skind) (l : N) (d : decoder) (nread : N) (acc : list Z)
  : dres (list Z) :=
  if nread <? l then
    match fuel with
    | O => DErr d        (* not reachable with fuel > remaining bytes *)
    | S f =>
      let body :=
        go_from (dbuf d) (doff d) (fun rest =>
        read_elem k d rest (fun r =>
        match r with
        | None => DErr d
        | Some (z, n) => packed_loop f k l (dadv d n) (nread + N.of_nat n) (z :: acc)
        end)) in
      match k with
      | KFloat | KDouble => body                 (* their EOF test is the width guard inside read_elem *)
      | _ => if at_eof d then DErr d else body
      end
    end
  else if nread =? l then DOk (rev acc) d else DErr d.

(* capacity DecodePackedFloat32 reserves with make() before looking at the data *)
Definition packed_reserve (k : skind) (l : N) : N := match k with KFloat => l / 4 | _ => 0 end.

Definition dec_packed (d : decoder) (k : skind) : dres (list Z) :=
  if at_eof d then DErr d else
  go_from (dbuf d) (doff d) (fun rest =>
  match dec_varint rest with
  | inr _ => DErr d
  | inl (l, n) =>
      let d1 := dadv d n in
      match k with
      | KFloat => if N.of_nat (length (dbuf d1) - doff d1) <? l then DErr d1
                  else packed_loop (S (length (dbuf d))) k l d1 0 []
      | _ => packed_loop (S (length (dbuf d))) k l d1 0 []
      end
  end).

(* elements make() reserves up front in a call of DecodePackedX at d (0 when the call fails earlier) *)
Definition dec_packed_reserve (d : decoder) (k : skind) : N :=
  if at_eof d then 0 else
  match dec_varint (skipn (doff d) (dbuf d)) with
  | inr _ => 0
  | inl (l, n) =>
      match k with
      | KFloat => if N.of_nat (length (dbuf d) - (doff d + n)) <? l then 0 else packed_reserve k l
      | _ => 0
      end
  end.

(* DecodeNested: [nested b] is the nested message's Unmarshal on exactly b (true = nil error) *)
Definition dec_nested (nested : list byte -> bool) (d : decoder) : dres (list byte) :=
  if at_eof d then DErr d else
  go_from (dbuf d) (doff d) (fun rest =>
  match dec_varint rest with
  | inr _ => DErr d
  | inl (l, n) =>
      if max_len <? l then DErr d
      else if N.of_nat (length (dbuf d)) <? N.of_nat (doff d + n) + l then DErr d
      else let nb := N.to_nat l in
           go_sub (dbuf d) (doff d + n) (doff d + n + nb) (fun b =>
           if nested b then DOk b (dadv d (n + nb)) else DErr d)
  end).

(* Skip *)
Definition dec_skip (d : decoder) (tag wt : Z) : dres (list byte) :=
  if at_eof d then DErr d else
  let sz := size_key (u64z tag) in           (* SizeOfTagKey(tag) = SizeOfVarint(uint64(uint(tag) << 3)) *)
  let bof := (doff d - sz)%nat in
  let after_key_check :=
    let fin (skipped : nat) :=
        if (length (dbuf d) <? doff d + skipped)%nat then DErr d
        else go_sub (dbuf d) bof (doff d + skipped) (fun raw => DOk raw (dadv d skipped)) in
    if (wt =? 0)%Z then
      go_from (dbuf d) (doff d) (fun rest =>
      match dec_varint rest with inr _ => DErr d | inl (_, n) => fin n end)
    else if (wt =? 1)%Z then fin 8%nat
    else if (wt =? 5)%Z then fin 4%nat
    else if (wt =? 2)%Z then
      go_from (dbuf d) (doff d) (fun rest =>
      match dec_varint rest with
      | inr _ => DErr d
      | inl (l, n) => if max_len <? l then DErr d
                      else if N.of_nat (length (dbuf d)) <? N.of_nat (doff d + n) + l then DErr d
                      else fin (n + N.to_nat l)%nat
      end)
    else DErr d in
  if dfast d then after_key_check else
  go_from (dbuf d) bof (fun kb =>
  match dec_varint kb with
  | inr _ => DErr d
  | inl (v, n) =>
      if (n =? sz)%nat && (Z.of_N (N.shiftr v 3) =? tag)%Z && (Z.of_N (N.land v 7) =? wt)%Z
      then after_key_check else DErr d
  end).

(* Seek: pos := int(offset) (+ offset / + len) with int64 wrap-around; whence 0/1/2 *)
Definition wrap64 (z : Z) : Z := i64n (u64z z).
Definition dec_seek (d : decoder) (o : Z) (whence : Z) : dres Z :=
  let pos := (if whence =? 0 then Some o
              else if whence =? 1 then Some (wrap64 (o + Z.of_nat (doff d)))
              else if whence =? 2 then Some (wrap64 (o + Z.of_nat (length (dbuf d))))
              else None)%Z in
  match pos with
  | None => DErr d
  | Some p => if ((p <? 0) || (Z.of_nat (length (dbuf d)) <? p))%Z then DErr d
              else DOk p {| dbuf := dbuf d; doff := Z.to_nat p; dfast := dfast d |}
  end.

Inductive dop :=
| DTag | DScalar (k : skind) | DBytes | DString | DPacked (k : skind) | DNested
| DSkip (tag wt : Z) | DSeek (o : Z) (whence : Z) | DReset | DSetMode (fast : bool).

Inductive dval :=
| VTag (t wt : N) | VNum (z : Z) | VBytes (b : list byte) (aliases_input : bool)
| VList (l : list Z) | VRaw (b : list byte) | VNested (b : list byte) | VPos (z : Z) | VUnit.

Definition dmap {A B} (f : A -> B) (r : dres A) : dres B :=
  match r with DOk a d => DOk (f a) d | DErr d => DErr d | DPanic => DPanic end.

Definition dstep (nested : list byte -> bool) (d : decoder) (op : dop) : dres dval :=
  match op with
  | DTag => dmap (fun '(t, wt) => VTag t wt) (dec_tag d)
  | DScalar k => dmap VNum (dec_scalar d k)
  | DBytes => dmap (fun b => VBytes b (dfast d)) (dec_bytes d)      (* copy in safe mode, alias in fast mode *)
  | DString => dmap (fun b => VBytes b (dfast d)) (dec_bytes d)   (* copy in safe mode, alias in fast mode *)
  | DPacked k => dmap VList (dec_packed d k)
  | DNested => dmap VNested (dec_nested nested d)      (* the bytes handed to the nested Unmarshal *)
  | DSkip tag wt => dmap VRaw (dec_skip d tag wt)
  | DSeek o wh => dmap VPos (dec_seek d o wh)
  | DReset => DOk VUnit {| dbuf := dbuf d; doff := 0; dfast := dfast d |}
  | DSetMode f => DOk VUnit {| dbuf := dbuf d; doff := doff d; dfast := f |}
  end.

(* a history of calls; the observation after each call, the final state (None after a panic) *)
Fixpoint drun (nested : list byte -> bool) (d : decoder) (ops : list dop)
  : list (dres dval) * option decoder :=
  match ops with
  | [] => ([], Some d)
  | op :: r =>
    let o := dstep nested d op in
    match o with
    | DOk _ d' | DErr d' => let '(os, fin) := drun nested d' r in (o :: os, fin)
    | DPanic => ([o], None)
    end
  end.
