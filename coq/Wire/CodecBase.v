(* Shared lemmas for the wire-codec proofs (C01 C02 C19): list plumbing, integer conversions,
   canonical varints, key arithmetic. *)
From CsProto Require Import Prelude Varint VarintProof VarintSize ZigZag Codec RefWire WireStmts.
Local Open Scope N_scope.

(* ------------------------------------------------------------------------------------------ *)
(* lists *)
Lemma skipn_add {A} (a b : nat) (l : list A) : skipn (a + b) l = skipn b (skipn a l).
Proof.
  revert l; induction a as [|a IH]; intros l; [reflexivity|].
  destruct l as [|x l]; cbn [Nat.add skipn]; [destruct b; reflexivity|apply IH].
Qed.

Lemma skipn_cons_lt {A} (off : nat) (B : list A) x r : skipn off B = x :: r -> (off < length B)%nat.
Proof.
  intros H. destruct (Nat.lt_ge_cases off (length B)) as [Hlt|Hge]; [exact Hlt|].
  rewrite skipn_all2 in H by exact Hge. discriminate H.
Qed.

Lemma skipn_len_eq {A} (off : nat) (B x : list A) :
  skipn off B = x -> (off <= length B)%nat -> length B = (off + length x)%nat.
Proof. intros H Hle. rewrite <- H, skipn_length. lia. Qed.

Lemma skipn_app_step {A} (off : nat) (B x y : list A) :
  skipn off B = x ++ y -> skipn (off + length x) B = y.
Proof. intros H. rewrite skipn_add, H. apply skipn_app_exact. Qed.

Lemma slice_at {A} (off : nat) (B x y : list A) :
  skipn off B = x ++ y -> slice B off (off + length x) = x.
Proof.
  intros H. unfold slice. rewrite H.
  replace (off + length x - off)%nat with (length x) by lia. apply firstn_app_exact.
Qed.

Lemma app_nonnil_len {A} (x y : list A) : (1 <= length x)%nat -> exists a r, x ++ y = a :: r.
Proof. destruct x as [|a x]; cbn [length]; [lia|]. intros _. exists a, (x ++ y). reflexivity. Qed.

(* ------------------------------------------------------------------------------------------ *)
(* integer conversions *)
Lemma zmod_neg v M : (0 < M -> - M <= v < 0 -> v mod M = v + M)%Z.
Proof. intros HM Hv. symmetry. apply (Z.mod_unique v M (-1) (v + M)); lia. Qed.

Lemma u64z_pos v : (0 <= v < 2^64)%Z -> u64z v = Z.to_N v.
Proof. intros H. unfold u64z. rewrite Z.mod_small by exact H. reflexivity. Qed.
Lemma u64z_neg v : (- 2^64 <= v < 0)%Z -> u64z v = Z.to_N (v + 2^64).
Proof. intros H. unfold u64z. rewrite zmod_neg by lia. reflexivity. Qed.
Lemma u32z_pos v : (0 <= v < 2^32)%Z -> u32z v = Z.to_N v.
Proof. intros H. unfold u32z. rewrite Z.mod_small by exact H. reflexivity. Qed.
Lemma u32z_neg v : (- 2^32 <= v < 0)%Z -> u32z v = Z.to_N (v + 2^32).
Proof. intros H. unfold u32z. rewrite zmod_neg by lia. reflexivity. Qed.

Lemma u64z_lt v : u64z v < 2^64.
Proof.
  unfold u64z. pose proof (Z.mod_pos_bound v (2^64) ltac:(lia)) as H.
  set (m := (v mod 2^64)%Z) in *. lia.
Qed.
Lemma u32z_lt v : u32z v < 2^32.
Proof.
  unfold u32z. pose proof (Z.mod_pos_bound v (2^32) ltac:(lia)) as H.
  set (m := (v mod 2^32)%Z) in *. lia.
Qed.

Lemma i64n_lo n : n < 2^63 -> i64n n = Z.of_N n.
Proof.
  intros H. unfold i64n. rewrite N.mod_small by lia.
  destruct (Z.ltb_spec (Z.of_N n) (2^63)) as [_|Hc]; [reflexivity|lia].
Qed.
Lemma i64n_hi n : 2^63 <= n < 2^64 -> i64n n = (Z.of_N n - 2^64)%Z.
Proof.
  intros H. unfold i64n. rewrite N.mod_small by lia.
  destruct (Z.ltb_spec (Z.of_N n) (2^63)) as [Hc|_]; [lia|reflexivity].
Qed.
Lemma i32n_lo n : n < 2^31 -> i32n n = Z.of_N n.
Proof.
  intros H. unfold i32n. rewrite N.mod_small by lia.
  destruct (Z.ltb_spec (Z.of_N n) (2^31)) as [_|Hc]; [reflexivity|lia].
Qed.
Lemma i32n_hi n : 2^31 <= n < 2^32 -> i32n n = (Z.of_N n - 2^32)%Z.
Proof.
  intros H. unfold i32n. rewrite N.mod_small by lia.
  destruct (Z.ltb_spec (Z.of_N n) (2^31)) as [Hc|_]; [lia|reflexivity].
Qed.

Lemma i64n_u64z v : (- 2^63 <= v < 2^63)%Z -> i64n (u64z v) = v.
Proof.
  intros H. destruct (Z.lt_ge_cases v 0) as [Hneg|Hpos].
  - rewrite u64z_neg by lia. rewrite i64n_hi by lia. lia.
  - rewrite u64z_pos by lia. rewrite i64n_lo by lia. lia.
Qed.
Lemma i32n_u32z v : (- 2^31 <= v < 2^31)%Z -> i32n (u32z v) = v.
Proof.
  intros H. destruct (Z.lt_ge_cases v 0) as [Hneg|Hpos].
  - rewrite u32z_neg by lia. rewrite i32n_hi by lia. lia.
  - rewrite u32z_pos by lia. rewrite i32n_lo by lia. lia.
Qed.

(* zig-zag *)
Lemma zz64_val v : (- 2^63 <= v < 2^63)%Z ->
  enc_zz64 v = (if 0 <=? v then 2 * v else - 2 * v - 1)%Z.
Proof. intros H. rewrite enc_zz64_spec by exact H. reflexivity. Qed.
Lemma zz32_val v : (- 2^31 <= v < 2^31)%Z ->
  enc_zz32 v = (if 0 <=? v then 2 * v else - 2 * v - 1)%Z.
Proof. intros H. rewrite enc_zz32_spec by exact H. reflexivity. Qed.
Lemma zz64_range v : (- 2^63 <= v < 2^63)%Z -> (0 <= enc_zz64 v < 2^64)%Z.
Proof. intros H. rewrite zz64_val by exact H. destruct (Z.leb_spec 0 v); lia. Qed.
Lemma zz32_range v : (- 2^31 <= v < 2^31)%Z -> (0 <= enc_zz32 v < 2^32)%Z.
Proof. intros H. rewrite zz32_val by exact H. destruct (Z.leb_spec 0 v); lia. Qed.
Lemma zz32_64 v : (- 2^31 <= v < 2^31)%Z -> enc_zz32 v = enc_zz64 v.
Proof. intros H. rewrite zz32_val by exact H. rewrite zz64_val by lia. reflexivity. Qed.

(* domain of each kind, as inequalities *)
Definition dom_lo (k : skind) : Z :=
  match k with
  | KBool | KUInt32 | KFixed32 | KFloat | KUInt64 | KFixed64 | KDouble => 0
  | KInt32 | KSInt32 | KSFixed32 => - 2^31
  | KInt64 | KSInt64 | KSFixed64 => - 2^63
  end%Z.
Definition dom_hi (k : skind) : Z :=
  match k with
  | KBool => 2
  | KInt32 | KSInt32 | KSFixed32 => 2^31
  | KInt64 | KSInt64 | KSFixed64 => 2^63
  | KUInt32 | KFixed32 | KFloat => 2^32
  | KUInt64 | KFixed64 | KDouble => 2^64
  end%Z.
Lemma in_dom_range k v : in_dom k v = true -> (dom_lo k <= v < dom_hi k)%Z.
Proof. destruct k; unfold in_dom, dom_lo, dom_hi; intros H; lia. Qed.

Lemma to_wire_lt k v : in_dom k v = true -> to_wire k v < 2^64.
Proof.
  intros H. apply in_dom_range in H. destruct k; unfold dom_lo, dom_hi in H; cbn [to_wire];
    try apply u64z_lt; try (pose proof (u32z_lt v); lia).
  - destruct (v =? 0)%Z; lia.
  - pose proof (zz32_range v H). lia.
  - pose proof (zz64_range v H). lia.
Qed.
Lemma to_wire_lt32 k v : in_dom k v = true -> width_of k = 4%nat -> to_wire k v < 2^32.
Proof. intros _ Hw. destruct k; cbn [width_of] in Hw; try discriminate Hw; cbn [to_wire]; apply u32z_lt. Qed.

Lemma of_to_wire k v : in_dom k v = true -> of_wire k (to_wire k v) = Some v.
Proof.
  intros H. apply in_dom_range in H. destruct k; unfold dom_lo, dom_hi in H; cbn [to_wire of_wire].
  - (* bool *) destruct (Z.eqb_spec v 0) as [->|Hne]; [reflexivity|].
    replace v with 1%Z by lia. reflexivity.
  - (* int32 *) rewrite i64n_u64z by lia.
    destruct (Z.ltb_spec 2147483647 v); [lia|]. destruct (Z.ltb_spec v (-2147483648)); [lia|]. reflexivity.
  - rewrite i64n_u64z by lia. reflexivity.
  - rewrite u64z_pos by lia. destruct (N.ltb_spec 4294967295 (Z.to_N v)); [lia|]. f_equal. lia.
  - rewrite u64z_pos by lia. f_equal. lia.
  - pose proof (zz32_range v H). rewrite Z2N.id by lia. rewrite dec_enc_zz32 by lia. reflexivity.
  - pose proof (zz64_range v H). rewrite Z2N.id by lia. rewrite dec_enc_zz64 by lia. reflexivity.
  - rewrite u32z_pos by lia. f_equal. lia.
  - rewrite u64z_pos by lia. f_equal. lia.
  - rewrite i32n_u32z by lia. reflexivity.
  - rewrite i64n_u64z by lia. reflexivity.
  - rewrite u32z_pos by lia. f_equal. lia.
  - rewrite u64z_pos by lia. f_equal. lia.
Qed.

(* little endian *)
Lemma le_bytes_length w n : length (le_bytes w n) = w.
Proof. revert n; induction w as [|w IH]; intros n; cbn [le_bytes length]; [reflexivity|rewrite IH; reflexivity]. Qed.

Lemma le_val_le_bytes w n : n < 256 ^ N.of_nat w -> le_val (le_bytes w n) = n.
Proof.
  revert n; induction w as [|w IH]; intros n Hn.
  - cbn [le_bytes le_val]. change (256 ^ N.of_nat 0) with 1 in Hn. lia.
  - cbn [le_bytes le_val]. rewrite Nat2N.inj_succ, N.pow_succ_r' in Hn.
    pose proof (N.div_mod' n 256) as Hdm. pose proof (N.mod_lt n 256 ltac:(lia)) as Hr.
    rewrite IH; [lia|]. apply N.div_lt_upper_bound; lia.
Qed.

Lemma le_bytes_ok w n : bytes_ok (le_bytes w n).
Proof.
  revert n; induction w as [|w IH]; intros n; cbn [le_bytes]; constructor; [|apply IH].
  apply N.mod_lt. lia.
Qed.

(* ------------------------------------------------------------------------------------------ *)
(* canonical varints *)
Lemma pow7_step f v : v < 2 ^ (7 * N.of_nat (S (S f))) -> 128 <= v -> v / 128 < 2 ^ (7 * N.of_nat (S f)).
Proof.
  intros Hv _. replace (7 * N.of_nat (S (S f))) with (7 * N.of_nat (S f) + 7) in Hv by lia.
  rewrite N.pow_add_r in Hv. change (2^7) with 128 in Hv.
  apply N.div_lt_upper_bound; lia.
Qed.

Lemma enc_ref_fuel : forall f v, v < 2 ^ (7 * N.of_nat (S f)) -> enc_varint_fuel f v = ref_varint_fuel f v.
Proof.
  induction f as [|f IH]; intros v Hv.
  - change (2 ^ (7 * N.of_nat 1)) with 128 in Hv. rewrite enc_last by assumption. reflexivity.
  - cbn [ref_varint_fuel]. destruct (N.ltb_spec v 128) as [Hlt|Hge].
    + apply enc_last; assumption.
    + rewrite enc_step by assumption. f_equal. apply IH. apply pow7_step; assumption.
Qed.

Lemma lt64_lt70 v : v < 2^64 -> v < 2 ^ (7 * N.of_nat 10).
Proof. intros Hv. eapply N.lt_le_trans; [exact Hv|]. apply N.pow_le_mono_r; lia. Qed.

Theorem varint_canonical : forall v, v < 2^64 -> enc_varint v = ref_varint v.
Proof.
  intros v Hv. unfold enc_varint, ref_varint.
  rewrite (enc_fuel_irrel 9 v (lt64_lt70 v Hv)). apply enc_ref_fuel. exact (lt64_lt70 v Hv).
Qed.

Lemma enc_varint_pos v : (1 <= length (enc_varint v))%nat.
Proof. unfold enc_varint. pose proof (enc_len_bounds 10 v). lia. Qed.

(* the reference reader on a reference varint *)
Lemma ref_read_fuel : forall f v rest, v < 2 ^ (7 * N.of_nat (S f)) ->
  ref_varint_val (ref_varint_fuel f v ++ rest) = Some v /\
  ref_varint_len (ref_varint_fuel f v ++ rest) = Some (length (ref_varint_fuel f v)).
Proof.
  induction f as [|f IH]; intros v rest Hv.
  - change (2 ^ (7 * N.of_nat 1)) with 128 in Hv. cbn [ref_varint_fuel app ref_varint_val ref_varint_len length].
    destruct (N.ltb_spec v 128); [split; reflexivity|lia].
  - cbn [ref_varint_fuel]. destruct (N.ltb_spec v 128) as [Hlt|Hge].
    + cbn [app ref_varint_val ref_varint_len length]. destruct (N.ltb_spec v 128); [split; reflexivity|lia].
    + cbn [app ref_varint_val ref_varint_len length].
      pose proof (N.div_mod' v 128) as Hdm. pose proof (N.mod_lt v 128 ltac:(lia)) as Hr.
      destruct (N.ltb_spec (v mod 128 + 128) 128) as [Hc|_]; [lia|].
      destruct (IH (v / 128) rest (pow7_step f v Hv Hge)) as [Hval Hlen].
      rewrite Hval, Hlen. cbn [option_map]. split; [f_equal; lia|reflexivity].
Qed.
Lemma ref_read v rest : v < 2^64 ->
  ref_varint_val (ref_varint v ++ rest) = Some v /\
  ref_varint_len (ref_varint v ++ rest) = Some (length (ref_varint v)).
Proof. intros Hv. apply ref_read_fuel. exact (lt64_lt70 v Hv). Qed.

(* ------------------------------------------------------------------------------------------ *)
(* keys *)
Lemma key_facts num wt : 1 <= num <= max_tag -> wt < 8 ->
  let k := 8 * num + wt in
  k < 2^64 /\ N.shiftr k 3 = num /\ N.land k 7 = wt /\ 1 <= k /\ k / 8 = num /\ k mod 8 = wt.
Proof.
  intros Hn Hw k. unfold max_tag in Hn. subst k.
  assert (Hd : (8 * num + wt) / 8 = num).
  { rewrite (N.mul_comm 8 num), N.div_add_l by lia. rewrite N.div_small by lia. lia. }
  assert (Hm : (8 * num + wt) mod 8 = wt).
  { rewrite N.add_comm, (N.mul_comm 8 num), N.mod_add by lia. apply N.mod_small; lia. }
  repeat split.
  - lia.
  - rewrite N.shiftr_div_pow2. change (2^3) with 8. exact Hd.
  - change 7 with (N.ones 3). rewrite N.land_ones. change (2^3) with 8. exact Hm.
  - lia.
  - exact Hd.
  - exact Hm.
Qed.

Lemma enc_key_eq tag wt : tag_ok tag -> wt < 8 -> enc_key tag wt = enc_varint (8 * tag + wt).
Proof.
  intros Ht Hw. unfold tag_ok, max_tag in Ht. unfold enc_key. f_equal.
  rewrite N.shiftl_mul_pow2. change (2^3) with 8. rewrite N.mod_small by lia.
  rewrite N.lor_comm. replace (tag * 8) with (N.shiftl tag 3) by (rewrite N.shiftl_mul_pow2; reflexivity).
  rewrite lor_shift_add by (change (2^3) with 8; exact Hw). change (2^3) with 8. lia.
Qed.

Lemma key_canonical tag wt : tag_ok tag -> wt < 8 -> enc_key tag wt = ref_varint (8 * tag + wt).
Proof.
  intros Ht Hw. rewrite enc_key_eq by assumption. apply varint_canonical.
  unfold tag_ok, max_tag in Ht. lia.
Qed.

Lemma log2_key num wt : 1 <= num -> wt < 8 -> N.log2 (num * 8 + wt) = N.log2 num + 3.
Proof.
  intros Hn Hw.
  destruct (N.log2_spec num ltac:(lia)) as [Hlo Hhi].
  assert (Hs : 2 ^ N.succ (N.log2 num) = 2 * 2 ^ N.log2 num) by (rewrite N.pow_succ_r'; reflexivity).
  rewrite Hs in Hhi.
  assert (Hp : 2 ^ (N.log2 num + 3) = 2 ^ N.log2 num * 8) by (rewrite N.pow_add_r; reflexivity).
  apply N.log2_unique' with (c := num * 8 + wt - 2 ^ (N.log2 num + 3)).
  - lia.
  - rewrite Hp. set (P := 2 ^ N.log2 num) in *. lia.
  - rewrite Hp. set (P := 2 ^ N.log2 num) in *. lia.
Qed.

Theorem key_size : forall tag wt, tag_ok tag -> wt < 8 -> length (enc_key tag wt) = size_key tag.
Proof.
  intros tag wt Ht Hw. rewrite enc_key_eq by assumption.
  unfold tag_ok, max_tag in Ht.
  rewrite enc_varint_size by lia.
  unfold size_key, size_of_varint. f_equal. f_equal. f_equal.
  rewrite N.shiftl_mul_pow2. change (2^3) with 8.
  rewrite N.mod_small by lia.
  rewrite !size_lor1 by lia. rewrite !N.size_log2 by lia. f_equal.
  rewrite (N.mul_comm 8 tag).
  rewrite (log2_key tag wt) by lia.
  replace (tag * 8) with (tag * 8 + 0) by lia. rewrite (log2_key tag 0) by lia. reflexivity.
Qed.

Lemma size_key_pos tag wt : tag_ok tag -> wt < 8 -> (1 <= size_key tag)%nat.
Proof. intros Ht Hw. rewrite <- (key_size tag wt Ht Hw). unfold enc_key. apply enc_varint_pos. Qed.

Lemma u64z_of_N n : n < 2^64 -> u64z (Z.of_N n) = n.
Proof. intros H. rewrite u64z_pos by lia. lia. Qed.

Lemma wt_of_lt8 k : wt_of k < 8.
Proof. destruct k; cbn [wt_of]; lia. Qed.
