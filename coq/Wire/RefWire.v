(* The protobuf wire format, transcribed from the encoding specification as naively as possible and
   independently of the csproto model (Varint.v / Codec.v): varints by division, keys as 8*num+wt,
   zig-zag by case distinction, two's complement by adding 2^w, little endian by div/mod.
   Only the enumeration [skind] is shared with the model.  Definitions only. *)
From CsProto Require Import Prelude Codec.
Local Open Scope N_scope.

(* base-128 varint, least significant group first, shortest form *)
Fixpoint ref_varint_fuel (fuel : nat) (v : N) : list byte :=
  match fuel with
  | O => [v]
  | S f => if v <? 128 then [v] else (v mod 128 + 128) :: ref_varint_fuel f (v / 128)
  end.
Definition ref_varint (v : N) : list byte := ref_varint_fuel 9 v.        (* 10 groups: enough for v < 2^70 *)

(* number of bytes of the varint that starts p: up to and including the first byte < 128 *)
Fixpoint ref_varint_len (p : list byte) : option nat :=
  match p with
  | [] => None
  | b :: r => if b <? 128 then Some 1%nat else option_map S (ref_varint_len r)
  end.
(* its value (unbounded) *)
Fixpoint ref_varint_val (p : list byte) : option N :=
  match p with
  | [] => None
  | b :: r => if b <? 128 then Some b else option_map (fun v => (b - 128) + 128 * v) (ref_varint_val r)
  end.

Definition ref_le (w : nat) (n : N) : list byte := map (fun i => (n / 256 ^ N.of_nat i) mod 256) (seq 0 w).
Definition ref_zigzag (z : Z) : N := Z.to_N (if 0 <=? z then 2 * z else - 2 * z - 1)%Z.
Definition ref_twos (w : Z) (z : Z) : N := Z.to_N (if z <? 0 then z + 2 ^ w else z)%Z.

(* a field as the spec sees it: number, wire type, payload *)
Inductive rfield :=
| RVarint (num v : N) | RFixed64 (num : N) (b : list byte) | RFixed32 (num : N) (b : list byte)
| RLen (num : N) (b : list byte).
Definition rnum f := match f with RVarint n _ | RFixed64 n _ | RFixed32 n _ | RLen n _ => n end.
Definition rwt f := match f with RVarint _ _ => 0 | RFixed64 _ _ => 1 | RFixed32 _ _ => 5 | RLen _ _ => 2 end.
(* the value part, without key and without length prefix *)
Definition rvalue f : list byte :=
  match f with RVarint _ v => ref_varint v | RFixed64 _ b | RFixed32 _ b | RLen _ b => b end.
Definition rpayload f : list byte :=
  match f with RLen _ b => ref_varint (N.of_nat (length b)) ++ b | _ => rvalue f end.
Definition rkey f : list byte := ref_varint (8 * rnum f + rwt f).
Definition renc f : list byte := rkey f ++ rpayload f.

Definition rfield_wf f : Prop :=
  1 <= rnum f <= 536870911 /\
  match f with
  | RVarint _ v => v < 2^64
  | RFixed64 _ b => length b = 8%nat
  | RFixed32 _ b => length b = 4%nat
  | RLen _ b => N.of_nat (length b) <= 2147483647
  end.

(* typed scalar -> field, per kind (encoding spec, "Scalar value types") *)
Definition ref_field (k : skind) (num : N) (v : Z) : rfield :=
  match k with
  | KBool => RVarint num (if (v =? 0)%Z then 0 else 1)
  | KInt32 | KInt64 => RVarint num (ref_twos 64 v)            (* negative => sign-extended to 64 bits, 10 bytes *)
  | KUInt32 | KUInt64 => RVarint num (Z.to_N v)
  | KSInt32 | KSInt64 => RVarint num (ref_zigzag v)
  | KFixed32 | KFloat => RFixed32 num (ref_le 4 (Z.to_N v))
  | KSFixed32 => RFixed32 num (ref_le 4 (ref_twos 32 v))
  | KFixed64 | KDouble => RFixed64 num (ref_le 8 (Z.to_N v))
  | KSFixed64 => RFixed64 num (ref_le 8 (ref_twos 64 v))
  end.
(* packed repeated field: one LEN field holding the concatenated values *)
Definition ref_packed (k : skind) (num : N) (vs : list Z) : rfield :=
  RLen num (concat (map (fun v => rvalue (ref_field k num v)) vs)).

(* reference parser of one field at the head of p: the field and the number of bytes it occupies.
   Lenient about varint length (any run of continuation bytes followed by a terminator), strict about
   wire types: 0, 1, 2, 5 only. *)
Definition ref_parse_field (p : list byte) : option (rfield * nat) :=
  match ref_varint_val p, ref_varint_len p with
  | Some key, Some kn =>
      let num := key / 8 in let wt := key mod 8 in
      let q := skipn kn p in
      if wt =? 0 then
        match ref_varint_val q, ref_varint_len q with
        | Some v, Some n => Some (RVarint num v, (kn + n)%nat) | _, _ => None end
      else if wt =? 1 then
        if (length q <? 8)%nat then None else Some (RFixed64 num (firstn 8 q), (kn + 8)%nat)
      else if wt =? 5 then
        if (length q <? 4)%nat then None else Some (RFixed32 num (firstn 4 q), (kn + 4)%nat)
      else if wt =? 2 then
        match ref_varint_val q, ref_varint_len q with
        | Some l, Some n =>
            if N.of_nat (length q - n) <? l then None
            else Some (RLen num (firstn (N.to_nat l) (skipn n q)), (kn + n + N.to_nat l)%nat)
        | _, _ => None
        end
      else None
  | _, _ => None
  end.
