From CsProto Require Import Prelude Varint VarintProof.
Local Open Scope N_scope.

(* number of 7-bit groups, spec level *)
Lemma size_lor1 v : 0 < v -> N.size (N.lor v 1) = N.size v.
Proof.
  intros Hv. rewrite !N.size_log2.
  - f_equal. rewrite N.log2_lor. change (N.log2 1) with 0. lia.
  - lia.
  - intros H. apply N.lor_eq_0_iff in H. lia.
Qed.

Lemma size_div128 v : 128 <= v -> N.size v = N.size (v / 128) + 7.
Proof.
  intros Hv.
  assert (Hq : 0 < v / 128) by (apply N.div_str_pos; lia).
  rewrite !N.size_log2 by lia.
  change 128 with (2^7). rewrite <- N.shiftr_div_pow2, N.log2_shiftr.
  assert (7 <= N.log2 v) by (apply N.log2_le_pow2; [lia|exact Hv]).
  lia.
Qed.

Lemma size_small v : v < 128 -> (N.size (N.lor v 1) + 6) / 7 = 1.
Proof.
  intros H.
  assert (Hall : forallb (fun x => (N.size (N.lor x 1) + 6) / 7 =? 1) (upto 128) = true) by (vm_compute; reflexivity).
  rewrite forallb_forall in Hall. apply N.eqb_eq, Hall, upto_In. exact H.
Qed.

Lemma enc_len_fuel : forall f v, v < 2^(7 * N.of_nat (S f)) ->
  N.of_nat (length (enc_varint_fuel f v)) = (N.size (N.lor v 1) + 6) / 7.
Proof.
  induction f as [|f IH]; intros v Hv.
  - change (2^(7 * N.of_nat 1)) with 128 in Hv. rewrite enc_last, size_small by assumption. reflexivity.
  - destruct (N.lt_ge_cases v 128) as [Hlt|Hge].
    + rewrite enc_last, size_small by assumption. reflexivity.
    + rewrite enc_step by assumption. cbn [length]. rewrite Nat2N.inj_succ, IH.
      * assert (Hq : 0 < v / 128) by (apply N.div_str_pos; lia).
        rewrite !size_lor1 by lia. rewrite (size_div128 v) by assumption.
        set (s := N.size (v / 128)).
        replace (s + 7 + 6) with ((s + 6) + 1 * 7) by lia.
        rewrite N.div_add by lia. lia.
      * replace (7 * N.of_nat (S (S f))) with (7 * N.of_nat (S f) + 7) in Hv by lia.
        rewrite N.pow_add_r in Hv. change (2^7) with 128 in Hv.
        apply N.div_lt_upper_bound; lia.
Qed.

Theorem enc_varint_size v : v < 2^64 -> length (enc_varint v) = size_of_varint v.
Proof.
  intros Hv. unfold enc_varint, size_of_varint.
  rewrite <- (enc_len_fuel 10).
  - rewrite Nat2N.id. reflexivity.
  - eapply N.lt_le_trans; [exact Hv|]. apply N.pow_le_mono_r; lia.
Qed.

Lemma enc_len_bounds f v : (1 <= length (enc_varint_fuel f v) <= S f)%nat.
Proof.
  revert v; induction f as [|f IH]; intros v; cbn [enc_varint_fuel].
  - cbn; lia.
  - destruct (128 <=? v); cbn [length]; [specialize (IH (N.shiftr v 7)); lia|lia].
Qed.

Lemma enc_fuel_irrel : forall f v, v < 2^(7 * N.of_nat (S f)) -> enc_varint_fuel (S f) v = enc_varint_fuel f v.
Proof.
  induction f as [|f IH]; intros v Hv.
  - change (2^(7 * N.of_nat 1)) with 128 in Hv. rewrite !enc_last by assumption. reflexivity.
  - destruct (N.lt_ge_cases v 128) as [Hlt|Hge].
    + rewrite !enc_last by assumption. reflexivity.
    + rewrite (enc_step (S f) v), (enc_step f v) by assumption. f_equal. apply IH.
      replace (7 * N.of_nat (S (S f))) with (7 * N.of_nat (S f) + 7) in Hv by lia.
      rewrite N.pow_add_r in Hv. change (2^7) with 128 in Hv.
      apply N.div_lt_upper_bound; lia.
Qed.

(* top level: all three paths of DecodeVarint *)
Theorem dec_enc_varint v rest : v < 2^64 ->
  dec_varint (enc_varint v ++ rest) = inl (v, length (enc_varint v)).
Proof.
  intros Hv. unfold enc_varint.
  assert (Hfuel : v < 2^(7 * N.of_nat 10)).
  { eapply N.lt_le_trans; [exact Hv|]. apply N.pow_le_mono_r; lia. }
  rewrite (enc_fuel_irrel 9 v Hfuel).
  destruct (N.lt_ge_cases v 128) as [Hlt|Hge].
  - rewrite enc_last by assumption. cbn [app dec_varint length].
    destruct (N.ltb_spec v 128); [reflexivity|lia].
  - pose proof (enc_len_bounds 9 v) as Hb.
    remember (enc_varint_fuel 9 v) as e eqn:He.
    destruct e as [|b0 e']; [cbn in Hb; lia|].
    assert (Hb0 : b0 = v mod 128 + 128).
    { pose proof (f_equal (hd 0) He) as Hh. rewrite enc_step in Hh by assumption. cbn [hd] in Hh. exact Hh. }
    cbn [app dec_varint].
    destruct (N.ltb_spec b0 128) as [Hc|_]; [lia|].
    change (b0 :: e' ++ rest) with ((b0 :: e') ++ rest).
    pose proof (dv_roundtrip 9 v 0 0 0%nat) as RT.
    rewrite <- He in RT.
    destruct (Nat.ltb_spec (length ((b0 :: e') ++ rest)) 10) as [Hshort|Hlong].
    + rewrite RT; [|exact Hfuel|rewrite N.pow_0_r; lia|rewrite N.pow_0_r; lia|lia].
      rewrite N.pow_0_r. f_equal. f_equal; try lia; reflexivity.
    + (* >= 10 bytes available: firstn 10 keeps the whole encoding since it is at most 11... *)
      assert (Hle : (length (b0 :: e') <= 10)%nat).
      { (* v < 2^64 needs at most 10 groups *)
        pose proof (enc_len_fuel 9 v Hfuel) as Hsz. rewrite <- He in Hsz.
        assert ((N.size (N.lor v 1) + 6) / 7 <= 10).
        { rewrite size_lor1 by lia.
          assert (N.size v <= 64).
          { rewrite N.size_log2 by lia. assert (N.log2 v < 64) by (apply N.log2_lt_pow2; lia). lia. }
          apply N.div_le_upper_bound; lia. }
        lia. }
      rewrite firstn_app.
      rewrite (firstn_all2 (n:=10) (b0 :: e')) by exact Hle.
      rewrite RT; [|exact Hfuel|rewrite N.pow_0_r; lia|rewrite N.pow_0_r; lia|lia].
      rewrite N.pow_0_r. f_equal. f_equal; try lia; reflexivity.
Qed.
Print Assumptions dec_enc_varint.
Print Assumptions enc_varint_size.
