(* Decoder half of C01 / C02 / C19: reading back what the encoder (or the reference) wrote. *)
From CsProto Require Import Prelude Varint VarintProof VarintSize ZigZag Codec RefWire WireStmts CodecBase EncProofs.
Local Open Scope N_scope.

(* ------------------------------------------------------------------------------------------ *)
(* plumbing: everything is stated for a buffer B and cursor off with [skipn off B = item ++ rest] *)
Lemma mk_eq B o1 o2 fast : o1 = o2 -> mk B o1 fast = mk B o2 fast.
Proof. intros ->. reflexivity. Qed.

Lemma dadv_mk B off fast n : dadv (mk B off fast) n = mk B (off + n) fast.
Proof. reflexivity. Qed.

Lemma at_eof_false B off fast x r : skipn off B = x :: r -> at_eof (mk B off fast) = false.
Proof.
  intros H. apply skipn_cons_lt in H. unfold at_eof, mk. cbn [dbuf doff].
  destruct (Nat.leb_spec (length B) off); [lia|reflexivity].
Qed.

Lemma go_from_ok {A} (p : list byte) lo (k : list byte -> dres A) :
  (lo <= length p)%nat -> go_from p lo k = k (skipn lo p).
Proof. intros H. unfold go_from. destruct (Nat.ltb_spec (length p) lo); [lia|reflexivity]. Qed.
Lemma go_sub_ok {A} (p : list byte) lo hi (k : list byte -> dres A) :
  (lo <= hi <= length p)%nat -> go_sub p lo hi k = k (slice p lo hi).
Proof.
  intros H. unfold go_sub. destruct (Nat.leb_spec lo hi); [|lia].
  destruct (Nat.leb_spec hi (length p)); [|lia]. reflexivity.
Qed.

(* DecodeTag on a key *)
Lemma dec_tag_ok B off fast tag wt rest : tag_ok tag -> wt < 8 ->
  skipn off B = enc_key tag wt ++ rest ->
  dec_tag (mk B off fast) = DOk (tag, wt) (mk B (off + length (enc_key tag wt)) fast).
Proof.
  intros Ht Hw Hs.
  destruct (app_nonnil_len (enc_key tag wt) rest ltac:(unfold enc_key; apply enc_varint_pos)) as (a & r & Hnn).
  pose proof Hs as Hs'. rewrite Hnn in Hs'.
  unfold dec_tag. rewrite (at_eof_false B off fast a r Hs').
  apply skipn_cons_lt in Hs'. cbn [mk dbuf doff].
  rewrite go_from_ok by lia. rewrite Hs.
  destruct (key_facts tag wt Ht Hw) as (Hk & Hsh & Hland & Hk1 & _).
  rewrite enc_key_eq by assumption. rewrite dec_enc_varint by exact Hk.
  rewrite Hsh, Hland. unfold tag_ok in Ht.
  destruct (N.ltb_spec (8 * tag + wt) 1); [lia|]. destruct (N.ltb_spec max_tag tag); [lia|].
  reflexivity.
Qed.

(* one scalar element *)
Lemma read_elem_ok {A} k v (d : decoder) p rest (kont : option (Z * nat) -> dres A) :
  in_dom k v = true -> p = enc_payload k v ++ rest -> (length p <= length (dbuf d) - doff d)%nat ->
  read_elem k d p kont = kont (Some (v, length (enc_payload k v))).
Proof.
  intros Hd Hp Hroom. pose proof (to_wire_lt k v Hd) as Hlt. pose proof (of_to_wire k v Hd) as Hof.
  unfold read_elem, enc_payload in *. destruct (is_varint_kind k) eqn:Hk.
  - subst p. rewrite dec_enc_varint by exact Hlt. rewrite Hof. reflexivity.
  - set (w := width_of k) in *.
    assert (Hlp : (w <= length p)%nat) by (subst p; rewrite app_length, le_bytes_length; lia).
    assert (Hfirst : firstn w p = le_bytes w (to_wire k v)).
    { subst p. rewrite <- (le_bytes_length w (to_wire k v)) at 1. apply firstn_app_exact. }
    assert (Hval : le_val (firstn w p) = to_wire k v).
    { rewrite Hfirst. apply le_val_le_bytes.
      destruct k; cbn in Hk; try discriminate Hk; subst w; cbn [width_of];
        try (change (256 ^ N.of_nat 8) with (2^64); exact Hlt);
        change (256 ^ N.of_nat 4) with (2^32); apply to_wire_lt32; try exact Hd; reflexivity. }
    rewrite le_bytes_length.
    destruct k; cbn in Hk; try discriminate Hk; fold w.
    + destruct (Nat.ltb_spec (length p) w); [lia|]. rewrite Hval, Hof. reflexivity.
    + destruct (Nat.ltb_spec (length p) w); [lia|]. rewrite Hval, Hof. reflexivity.
    + destruct (Nat.ltb_spec (length p) w); [lia|]. rewrite Hval, Hof. reflexivity.
    + destruct (Nat.ltb_spec (length p) w); [lia|]. rewrite Hval, Hof. reflexivity.
    + destruct (Nat.ltb_spec (length (dbuf d) - doff d) w); [lia|]. unfold go_le.
      destruct (Nat.ltb_spec (length p) w); [lia|]. rewrite Hval, Hof. reflexivity.
    + destruct (Nat.ltb_spec (length (dbuf d) - doff d) w); [lia|]. unfold go_le.
      destruct (Nat.ltb_spec (length p) w); [lia|]. rewrite Hval, Hof. reflexivity.
Qed.

Lemma dec_scalar_ok B off fast k v rest : in_dom k v = true ->
  skipn off B = enc_payload k v ++ rest ->
  dec_scalar (mk B off fast) k = DOk v (mk B (off + length (enc_payload k v)) fast).
Proof.
  intros Hd Hs.
  destruct (app_nonnil_len (enc_payload k v) rest (payload_pos k v Hd)) as (a & r & Hnn).
  pose proof Hs as Hs'. rewrite Hnn in Hs'.
  unfold dec_scalar. rewrite (at_eof_false B off fast a r Hs').
  apply skipn_cons_lt in Hs'. cbn [mk dbuf doff].
  rewrite go_from_ok by lia.
  rewrite (read_elem_ok k v _ (skipn off B) rest _ Hd Hs); [reflexivity|].
  cbn [mk dbuf doff]. rewrite skipn_length. lia.
Qed.

(* DecodeBytes / DecodeNested on varint |b| ++ b *)
Lemma len_item_facts B off (b rest : list byte) :
  N.of_nat (length b) < 2^64 ->
  skipn off B = enc_varint (N.of_nat (length b)) ++ b ++ rest ->
  let n := length (enc_varint (N.of_nat (length b))) in
  (off < length B)%nat /\ length B = (off + n + length b + length rest)%nat /\
  slice B (off + n) (off + n + length b) = b.
Proof.
  intros Hb Hs n.
  destruct (app_nonnil_len (enc_varint (N.of_nat (length b))) (b ++ rest) (enc_varint_pos _)) as (a & r & Hnn).
  pose proof Hs as Hs'. rewrite Hnn in Hs'. apply skipn_cons_lt in Hs'.
  split; [exact Hs'|]. split.
  - rewrite (skipn_len_eq off B _ Hs) by lia. rewrite !app_length. fold n. lia.
  - apply slice_at with (y := rest). apply skipn_app_step. exact Hs.
Qed.

Lemma dec_bytes_ok B off fast b rest : N.of_nat (length b) <= max_len ->
  skipn off B = enc_varint (N.of_nat (length b)) ++ b ++ rest ->
  dec_bytes (mk B off fast)
  = DOk b (mk B (off + length (enc_varint (N.of_nat (length b))) + length b) fast).
Proof.
  intros Hb Hs. unfold max_len in Hb.
  destruct (len_item_facts B off b rest ltac:(lia) Hs) as (Hlt & HlenB & Hslice).
  set (n := length (enc_varint (N.of_nat (length b)))) in *.
  unfold dec_bytes, at_eof. cbn [mk dbuf doff].
  destruct (Nat.leb_spec (length B) off); [lia|].
  rewrite go_from_ok by lia. rewrite Hs, dec_enc_varint by lia. fold n.
  unfold max_len. destruct (N.ltb_spec 2147483647 (N.of_nat (length b))); [lia|].
  destruct (N.ltb_spec (N.of_nat (length B)) (N.of_nat (off + n) + N.of_nat (length b))); [lia|].
  rewrite Nat2N.id. rewrite go_sub_ok by lia. rewrite Hslice.
  rewrite dadv_mk. f_equal. apply mk_eq. lia.
Qed.

Lemma dec_nested_ok nested B off fast b rest : N.of_nat (length b) <= max_len ->
  skipn off B = enc_varint (N.of_nat (length b)) ++ b ++ rest ->
  dec_nested nested (mk B off fast)
  = if nested b then DOk b (mk B (off + length (enc_varint (N.of_nat (length b))) + length b) fast)
    else DErr (mk B off fast).
Proof.
  intros Hb Hs. unfold max_len in Hb.
  destruct (len_item_facts B off b rest ltac:(lia) Hs) as (Hlt & HlenB & Hslice).
  set (n := length (enc_varint (N.of_nat (length b)))) in *.
  unfold dec_nested, at_eof. cbn [mk dbuf doff].
  destruct (Nat.leb_spec (length B) off); [lia|].
  rewrite go_from_ok by lia. rewrite Hs, dec_enc_varint by lia. fold n.
  unfold max_len. destruct (N.ltb_spec 2147483647 (N.of_nat (length b))); [lia|].
  destruct (N.ltb_spec (N.of_nat (length B)) (N.of_nat (off + n) + N.of_nat (length b))); [lia|].
  rewrite Nat2N.id. rewrite go_sub_ok by lia. rewrite Hslice.
  destruct (nested b); [|reflexivity].
  rewrite dadv_mk. f_equal. apply mk_eq. lia.
Qed.

(* the packed loop *)
Lemma packed_loop_step f k l d nread acc : nread < l -> at_eof d = false ->
  packed_loop (S f) k l d nread acc =
  go_from (dbuf d) (doff d) (fun rest =>
    read_elem k d rest (fun r =>
      match r with
      | None => DErr d
      | Some (z, n) => packed_loop f k l (dadv d n) (nread + N.of_nat n) (z :: acc)
      end)).
Proof.
  intros Hlt Heof. cbn [packed_loop]. destruct (N.ltb_spec nread l); [|lia].
  destruct k; rewrite ?Heof; reflexivity.
Qed.
Lemma packed_loop_done fuel k l d acc : packed_loop fuel k l d l acc = DOk (rev acc) d.
Proof.
  destruct fuel; cbn [packed_loop]; rewrite N.ltb_irrefl, N.eqb_refl; reflexivity.
Qed.

Lemma packed_loop_ok B fast k rest : forall vs off fuel nread acc,
  Forall (fun v => in_dom k v = true) vs ->
  skipn off B = concat (map (enc_payload k) vs) ++ rest ->
  (off <= length B)%nat ->
  (length vs < fuel)%nat ->
  packed_loop fuel k (nread + N.of_nat (length (concat (map (enc_payload k) vs)))) (mk B off fast) nread acc
  = DOk (rev acc ++ vs) (mk B (off + length (concat (map (enc_payload k) vs))) fast).
Proof.
  induction vs as [|v vs IH]; intros off fuel nread acc Hd Hs Hoff Hfuel.
  - cbn [map concat length]. rewrite N.add_0_r, packed_loop_done, app_nil_r. f_equal. apply mk_eq. lia.
  - inversion Hd as [|? ? Hv Hvs]; subst.
    destruct fuel as [|fuel]; [cbn [length] in Hfuel; lia|].
    cbn [map concat] in *. rewrite <- app_assoc in Hs.
    pose proof (payload_pos k v Hv) as Hpp.
    destruct (app_nonnil_len (enc_payload k v) (concat (map (enc_payload k) vs) ++ rest) Hpp) as (a & r & Hnn).
    pose proof Hs as Hs'. rewrite Hnn in Hs'.
    rewrite app_length.
    rewrite packed_loop_step; [|lia|exact (at_eof_false B off fast a r Hs')].
    cbn [mk dbuf doff]. rewrite go_from_ok by lia.
    rewrite (read_elem_ok k v _ (skipn off B) _ _ Hv Hs); [|cbn [mk dbuf doff]; rewrite skipn_length; lia].
    rewrite dadv_mk.
    replace (nread + N.of_nat (length (enc_payload k v) + length (concat (map (enc_payload k) vs))))
      with (nread + N.of_nat (length (enc_payload k v)) + N.of_nat (length (concat (map (enc_payload k) vs)))) by lia.
    rewrite IH.
    + cbn [rev]. rewrite <- app_assoc. cbn [app]. f_equal. apply mk_eq. lia.
    + exact Hvs.
    + apply skipn_app_step. exact Hs.
    + apply skipn_cons_lt in Hs'. pose proof (skipn_len_eq off B _ Hs ltac:(lia)) as Hl.
      rewrite app_length in Hl. lia.
    + cbn [length] in Hfuel. lia.
Qed.

Lemma concat_len_ge k vs : Forall (fun v => in_dom k v = true) vs ->
  (length vs <= length (concat (map (enc_payload k) vs)))%nat.
Proof.
  intros H; induction H as [|v vs Hv Hvs IH]; cbn [map concat length]; [lia|].
  rewrite app_length. pose proof (payload_pos k v Hv). lia.
Qed.

Lemma dec_packed_ok B off fast k vs rest :
  Forall (fun v => in_dom k v = true) vs ->
  let body := concat (map (enc_payload k) vs) in
  N.of_nat (length body) < 2^64 ->
  skipn off B = enc_varint (N.of_nat (length body)) ++ body ++ rest ->
  dec_packed (mk B off fast) k
  = DOk vs (mk B (off + length (enc_varint (N.of_nat (length body))) + length body) fast).
Proof.
  intros Hd body Hb Hs.
  destruct (len_item_facts B off body rest Hb Hs) as (Hlt & HlenB & _).
  set (n := length (enc_varint (N.of_nat (length body)))) in *.
  unfold dec_packed, at_eof. cbn [mk dbuf doff].
  destruct (Nat.leb_spec (length B) off); [lia|].
  rewrite go_from_ok by lia. rewrite Hs, dec_enc_varint by lia. fold n.
  cbv zeta. rewrite !dadv_mk.
  assert (Hloop : packed_loop (S (length B)) k (N.of_nat (length body)) (mk B (off + n) fast) 0 []
                  = DOk vs (mk B (off + n + length body) fast)).
  { pose proof (packed_loop_ok B fast k rest vs (off + n) (S (length B)) 0 [] Hd) as HL.
    cbn [rev app] in HL. rewrite N.add_0_l in HL. apply HL.
    - apply skipn_app_step. exact Hs.
    - lia.
    - pose proof (concat_len_ge k vs Hd). fold body in H0. lia. }
  destruct k; try exact Hloop.
  cbn [mk dbuf doff].
  destruct (N.ltb_spec (N.of_nat (length B - (off + n))) (N.of_nat (length body))); [lia|exact Hloop].
Qed.

(* ------------------------------------------------------------------------------------------ *)
(* C01 round trips *)
Theorem roundtrip_scalar : forall k tag v fast pre post,
  tag_ok tag -> in_dom k v = true ->
  let B := pre ++ ebytes (EScalar k tag v) ++ post in
  exists n1,
    dec_tag (mk B (length pre) fast) = DOk (tag, wt_of k) (mk B (length pre + n1) fast) /\
    dec_scalar (mk B (length pre + n1) fast) k
      = DOk v (mk B (length pre + esize (EScalar k tag v)) fast).
Proof.
  intros k tag v fast pre post Ht Hd B.
  assert (Hs : skipn (length pre) B = enc_key tag (wt_of k) ++ enc_payload k v ++ post).
  { unfold B. rewrite skipn_app_exact. cbn [ebytes]. rewrite <- app_assoc. reflexivity. }
  exists (length (enc_key tag (wt_of k))). split.
  - apply dec_tag_ok with (rest := enc_payload k v ++ post); [exact Ht|apply wt_of_lt8|exact Hs].
  - rewrite (dec_scalar_ok B _ fast k v post Hd (skipn_app_step _ _ _ _ Hs)).
    f_equal. apply mk_eq. cbn [esize].
    rewrite key_size, payload_size by (try assumption; apply wt_of_lt8). lia.
Qed.

Theorem roundtrip_bytes : forall tag b fast pre post,
  tag_ok tag -> N.of_nat (length b) <= max_len ->
  let B := pre ++ ebytes (EBytes tag b) ++ post in
  exists n1,
    dec_tag (mk B (length pre) fast) = DOk (tag, 2) (mk B (length pre + n1) fast) /\
    dec_bytes (mk B (length pre + n1) fast)
      = DOk b (mk B (length pre + esize (EBytes tag b)) fast).
Proof.
  intros tag b fast pre post Ht Hb B. pose proof Hb as Hb'. unfold max_len in Hb'.
  assert (Hs : skipn (length pre) B = enc_key tag 2 ++ enc_varint (N.of_nat (length b)) ++ b ++ post).
  { unfold B. rewrite skipn_app_exact. cbn [ebytes]. rewrite <- !app_assoc. reflexivity. }
  exists (length (enc_key tag 2)). split.
  - apply dec_tag_ok with (rest := enc_varint (N.of_nat (length b)) ++ b ++ post); [exact Ht|lia|exact Hs].
  - rewrite (dec_bytes_ok B _ fast b post Hb (skipn_app_step _ _ _ _ Hs)).
    f_equal. apply mk_eq. cbn [esize].
    rewrite key_size, enc_varint_size by (try assumption; lia). lia.
Qed.

Theorem roundtrip_packed : forall k tag vs fast pre post,
  tag_ok tag -> vs <> [] -> Forall (fun v => in_dom k v = true) vs -> N.of_nat (packed_len k vs) < 2^63 ->
  let B := pre ++ ebytes (EPacked k tag vs) ++ post in
  exists n1,
    dec_tag (mk B (length pre) fast) = DOk (tag, 2) (mk B (length pre + n1) fast) /\
    dec_packed (mk B (length pre + n1) fast) k
      = DOk vs (mk B (length pre + esize (EPacked k tag vs)) fast).
Proof.
  intros k tag vs fast pre post Ht Hne Hd Hl B.
  pose proof (packed_len_eq k vs Hd) as Hpl.
  set (body := concat (map (enc_payload k) vs)) in *.
  assert (Hs : skipn (length pre) B = enc_key tag 2 ++ enc_varint (N.of_nat (length body)) ++ body ++ post).
  { unfold B. rewrite skipn_app_exact. cbn [ebytes]. destruct vs as [|v0 vs0]; [congruence|].
    rewrite Hpl. rewrite <- !app_assoc. reflexivity. }
  exists (length (enc_key tag 2)). split.
  - apply dec_tag_ok with (rest := enc_varint (N.of_nat (length body)) ++ body ++ post); [exact Ht|lia|exact Hs].
  - rewrite (dec_packed_ok B _ fast k vs post Hd ltac:(fold body; lia) (skipn_app_step _ _ _ _ Hs)).
    fold body. f_equal. apply mk_eq. cbn [esize]. destruct vs as [|v0 vs0]; [congruence|].
    rewrite Hpl.
    rewrite key_size, enc_varint_size by (try assumption; lia). lia.
Qed.

(* ------------------------------------------------------------------------------------------ *)
(* C02: the decoder on the reference encoding *)
Theorem decode_reference : forall k tag v fast pre post,
  tag_ok tag -> in_dom k v = true ->
  let B := pre ++ renc (ref_field k tag v) ++ post in
  exists n1,
    dec_tag (mk B (length pre) fast) = DOk (tag, wt_of k) (mk B (length pre + n1) fast) /\
    dec_scalar (mk B (length pre + n1) fast) k
      = DOk v (mk B (length pre + length (renc (ref_field k tag v))) fast).
Proof.
  intros k tag v fast pre post Ht Hd.
  destruct (scalar_canonical k tag v Ht Hd) as [Hc _]. rewrite <- Hc.
  rewrite (ebytes_len (EScalar k tag v)) by (split; assumption).
  exact (roundtrip_scalar k tag v fast pre post Ht Hd).
Qed.

Lemma rwt_lt8 f : rwt f < 8. Proof. destruct f; cbn [rwt]; lia. Qed.

Theorem ref_parse_renc : forall f post, rfield_wf f ->
  ref_parse_field (renc f ++ post) = Some (f, length (renc f)).
Proof.
  intros f post [Hn Hpay]. pose proof (rwt_lt8 f) as Hw.
  destruct (key_facts (rnum f) (rwt f) Hn Hw) as (Hk & _ & _ & _ & Hdiv & Hmod).
  unfold ref_parse_field, renc. rewrite <- app_assoc.
  destruct (ref_read (8 * rnum f + rwt f) (rpayload f ++ post) Hk) as [Hval Hlen].
  unfold rkey. rewrite Hval, Hlen. cbv zeta. rewrite Hdiv, Hmod.
  rewrite skipn_app_exact, (app_length (ref_varint (8 * rnum f + rwt f)) (rpayload f)).
  set (kn := length (ref_varint (8 * rnum f + rwt f))).
  destruct f as [num v|num b|num b|num b]; cbn [rwt rpayload rvalue rnum] in *.
  - change (0 =? 0) with true. cbv iota.
    destruct (ref_read v post Hpay) as [Hv Hl]. rewrite Hv, Hl. reflexivity.
  - change (1 =? 0) with false. change (1 =? 1) with true. cbv iota.
    rewrite app_length, Hpay. destruct (Nat.ltb_spec (8 + length post) 8); [lia|].
    rewrite <- Hpay at 1. rewrite firstn_app_exact. reflexivity.
  - change (5 =? 0) with false. change (5 =? 1) with false. change (5 =? 5) with true. cbv iota.
    rewrite app_length, Hpay. destruct (Nat.ltb_spec (4 + length post) 4); [lia|].
    rewrite <- Hpay at 1. rewrite firstn_app_exact. reflexivity.
  - change (2 =? 0) with false. change (2 =? 1) with false. change (2 =? 5) with false.
    change (2 =? 2) with true. cbv iota.
    rewrite <- app_assoc.
    destruct (ref_read (N.of_nat (length b)) (b ++ post) ltac:(lia)) as [Hv Hl]. rewrite Hv, Hl.
    set (ln := length (ref_varint (N.of_nat (length b)))).
    rewrite !app_length. fold ln.
    destruct (N.ltb_spec (N.of_nat (ln + (length b + length post) - ln)) (N.of_nat (length b))); [lia|].
    rewrite Nat2N.id. unfold ln. rewrite skipn_app_exact, firstn_app_exact.
    f_equal. f_equal. lia.
Qed.

(* ------------------------------------------------------------------------------------------ *)
(* C02: Skip *)
Lemma rpayload_pos f : rfield_wf f -> (1 <= length (rpayload f))%nat.
Proof.
  intros [_ H]. destruct f as [num v|num b|num b|num b]; cbn [rpayload rvalue] in *; rewrite ?app_length; try lia.
  - rewrite <- varint_canonical by exact H. apply enc_varint_pos.
  - rewrite <- varint_canonical by lia. pose proof (enc_varint_pos (N.of_nat (length b))). lia.
Qed.

Lemma rkey_enc f : rfield_wf f -> rkey f = enc_key (rnum f) (rwt f).
Proof. intros [Hn _]. unfold rkey. symmetry. apply key_canonical; [exact Hn|apply rwt_lt8]. Qed.

(* after DecodeTag consumed the key of f, Skip(tag, wt) returns the whole field *)
Lemma dec_skip_ok B off fast f rest : rfield_wf f ->
  skipn off B = renc f ++ rest ->
  dec_skip (mk B (off + length (rkey f)) fast) (Z.of_N (rnum f)) (Z.of_N (rwt f))
  = DOk (renc f) (mk B (off + length (renc f)) fast).
Proof.
  intros Hwf Hs. pose proof Hwf as [Hn Hpay]. pose proof (rwt_lt8 f) as Hw.
  pose proof Hn as Hn'. unfold tag_ok, max_tag in Hn'.
  destruct (key_facts (rnum f) (rwt f) Hn Hw) as (Hk & Hsh & Hland & Hk1 & _).
  pose proof (rkey_enc f Hwf) as Hkey.
  pose proof (key_size (rnum f) (rwt f) Hn Hw) as Hksz. rewrite <- Hkey in Hksz.
  pose proof (rpayload_pos f Hwf) as Hpp.
  set (kb := rkey f) in *. set (kl := length kb) in *.
  assert (Hkl : (1 <= kl)%nat) by (unfold kl; rewrite Hkey; unfold enc_key; apply enc_varint_pos).
  unfold renc in Hs. fold kb in Hs. rewrite <- app_assoc in Hs.
  assert (HlenR : length (renc f) = (kl + length (rpayload f))%nat) by (unfold renc; rewrite app_length; reflexivity).
  destruct (app_nonnil_len kb (rpayload f ++ rest) Hkl) as (a & r & Hnn).
  pose proof Hs as Hs0. rewrite Hnn in Hs0. apply skipn_cons_lt in Hs0.
  pose proof (skipn_len_eq off B _ Hs ltac:(lia)) as HlenB. rewrite !app_length in HlenB. fold kl in HlenB.
  pose proof (skipn_app_step _ _ _ _ Hs) as Hs1. fold kl in Hs1.
  unfold dec_skip, at_eof, mk. cbn [dbuf doff dfast].
  destruct (Nat.leb_spec (length B) (off + kl)); [lia|].
  rewrite u64z_of_N by lia. rewrite <- Hksz.
  replace (off + kl - kl)%nat with off by lia.
  (* the common tail *)
  assert (Hfin : forall plen, plen = length (rpayload f) ->
    (if (length B <? off + kl + plen)%nat then DErr {| dbuf := B; doff := (off + kl)%nat; dfast := fast |}
     else go_sub B off (off + kl + plen)
            (fun raw => DOk raw (dadv {| dbuf := B; doff := (off + kl)%nat; dfast := fast |} plen)))
    = DOk (renc f) (mk B (off + length (renc f)) fast)).
  { intros plen ->. destruct (Nat.ltb_spec (length B) (off + kl + length (rpayload f))); [lia|].
    rewrite go_sub_ok by lia.
    replace (off + kl + length (rpayload f))%nat with (off + length (renc f))%nat by lia.
    rewrite (slice_at off B (renc f) rest) by (unfold renc; fold kb; rewrite <- app_assoc; exact Hs).
    unfold dadv. cbn [dbuf doff dfast]. f_equal. apply mk_eq. lia. }
  assert (Hafter :
    (let fin (skipped : nat) :=
        if (length B <? off + kl + skipped)%nat then DErr {| dbuf := B; doff := (off + kl)%nat; dfast := fast |}
        else go_sub B off (off + kl + skipped)
               (fun raw => DOk raw (dadv {| dbuf := B; doff := (off + kl)%nat; dfast := fast |} skipped)) in
     if (Z.of_N (rwt f) =? 0)%Z then
       go_from B (off + kl) (fun rest0 =>
       match dec_varint rest0 with inr _ => DErr {| dbuf := B; doff := (off + kl)%nat; dfast := fast |}
                              | inl (_, n) => fin n end)
     else if (Z.of_N (rwt f) =? 1)%Z then fin 8%nat
     else if (Z.of_N (rwt f) =? 5)%Z then fin 4%nat
     else if (Z.of_N (rwt f) =? 2)%Z then
       go_from B (off + kl) (fun rest0 =>
       match dec_varint rest0 with
       | inr _ => DErr {| dbuf := B; doff := (off + kl)%nat; dfast := fast |}
       | inl (l, n) => if max_len <? l then DErr {| dbuf := B; doff := (off + kl)%nat; dfast := fast |}
                       else if N.of_nat (length B) <? N.of_nat (off + kl + n) + l
                            then DErr {| dbuf := B; doff := (off + kl)%nat; dfast := fast |}
                       else fin (n + N.to_nat l)%nat
       end)
     else DErr {| dbuf := B; doff := (off + kl)%nat; dfast := fast |})
    = DOk (renc f) (mk B (off + length (renc f)) fast)).
  { cbv zeta.
    destruct f as [num v|num b|num b|num b]; cbn [rwt rpayload rvalue rfield_wf] in *.
    - change (Z.of_N 0 =? 0)%Z with true. cbv iota.
      rewrite go_from_ok by lia. rewrite Hs1. rewrite <- varint_canonical by exact Hpay.
      rewrite dec_enc_varint by exact Hpay. apply Hfin. rewrite varint_canonical by exact Hpay. reflexivity.
    - change (Z.of_N 1 =? 0)%Z with false. change (Z.of_N 1 =? 1)%Z with true. cbv iota.
      apply Hfin. symmetry; exact Hpay.
    - change (Z.of_N 5 =? 0)%Z with false. change (Z.of_N 5 =? 1)%Z with false.
      change (Z.of_N 5 =? 5)%Z with true. cbv iota.
      apply Hfin. symmetry; exact Hpay.
    - change (Z.of_N 2 =? 0)%Z with false. change (Z.of_N 2 =? 1)%Z with false.
      change (Z.of_N 2 =? 5)%Z with false. change (Z.of_N 2 =? 2)%Z with true. cbv iota.
      rewrite go_from_ok by lia. rewrite Hs1. rewrite <- varint_canonical by lia.
      rewrite <- app_assoc, dec_enc_varint by lia.
      unfold max_len. destruct (N.ltb_spec 2147483647 (N.of_nat (length b))); [lia|].
      rewrite app_length, <- varint_canonical in HlenB by lia.
      match goal with |- context [N.ltb ?x ?y] => destruct (N.ltb_spec x y) as [Hc2|_] end; [lia|].
      rewrite Nat2N.id. apply Hfin. rewrite app_length, <- varint_canonical by lia. reflexivity. }
  destruct fast.
  - exact Hafter.
  - rewrite go_from_ok by lia. rewrite Hs. rewrite Hkey, enc_key_eq by assumption.
    rewrite dec_enc_varint by exact Hk. rewrite Hsh, Hland.
    rewrite <- enc_key_eq, <- Hkey by assumption. fold kb kl.
    rewrite Nat.eqb_refl, !Z.eqb_refl. cbn [andb]. exact Hafter.
Qed.

Theorem skip_fields_gen : forall fs fast pre acc fuel,
  Forall rfield_wf fs -> (length fs < fuel)%nat ->
  let B := pre ++ concat (map renc fs) in
  skip_all fuel (mk B (length pre) fast) acc = DOk (rev acc ++ map renc fs) (mk B (length B) fast).
Proof.
  induction fs as [|f fs IH]; intros fast pre acc fuel Hwf Hfuel B.
  - destruct fuel as [|fuel]; [cbn in Hfuel; lia|]. subst B. cbn [map concat skip_all].
    rewrite !app_nil_r. unfold at_eof. cbn [mk dbuf doff].
    destruct (Nat.leb_spec (length pre) (length pre)); [reflexivity|lia].
  - destruct fuel as [|fuel]; [cbn in Hfuel; lia|].
    inversion Hwf as [|? ? Hf Hfs]; subst.
    cbn [map concat] in B. set (post := concat (map renc fs)) in *.
    pose proof Hf as [Hn _]. pose proof (rwt_lt8 f) as Hw.
    pose proof (rkey_enc f Hf) as Hkey.
    assert (Hs : skipn (length pre) B = renc f ++ post) by (unfold B; apply skipn_app_exact).
    assert (Hs' : skipn (length pre) B = enc_key (rnum f) (rwt f) ++ rpayload f ++ post).
    { rewrite Hs. unfold renc. rewrite Hkey, <- app_assoc. reflexivity. }
    cbn [skip_all].
    destruct (app_nonnil_len (enc_key (rnum f) (rwt f)) (rpayload f ++ post)
                ltac:(unfold enc_key; apply enc_varint_pos)) as (a & r & Hnn).
    pose proof Hs' as Hs0. rewrite Hnn in Hs0.
    rewrite (at_eof_false B (length pre) fast a r Hs0).
    rewrite (dec_tag_ok B (length pre) fast (rnum f) (rwt f) _ Hn Hw Hs').
    rewrite <- Hkey. rewrite (dec_skip_ok B (length pre) fast f post Hf Hs).
    assert (HB : B = (pre ++ renc f) ++ post) by (unfold B; rewrite <- app_assoc; reflexivity).
    replace (length pre + length (renc f))%nat with (length (pre ++ renc f)) by (rewrite app_length; reflexivity).
    rewrite HB.
    rewrite (IH fast (pre ++ renc f) (renc f :: acc) fuel Hfs ltac:(cbn [length] in Hfuel; lia)).
    cbn [rev]. rewrite <- app_assoc. reflexivity.
Qed.

Theorem skip_fields : forall fs fast pre,
  Forall rfield_wf fs ->
  let B := pre ++ concat (map renc fs) in
  skip_all (S (length fs)) (mk B (length pre) fast) [] = DOk (map renc fs) (mk B (length B) fast).
Proof.
  intros fs fast pre H B. exact (skip_fields_gen fs fast pre [] (S (length fs)) H ltac:(lia)).
Qed.

(* ------------------------------------------------------------------------------------------ *)
(* C19, decoder side *)
Theorem nested_decode_exact : forall nested b fast pre post,
  N.of_nat (length b) <= max_len ->
  let B := pre ++ enc_varint (N.of_nat (length b)) ++ b ++ post in
  let d := mk B (length pre) fast in
  dec_nested nested d =
    if nested b then DOk b (mk B (length pre + size_of_varint (N.of_nat (length b)) + length b) fast)
    else DErr d.
Proof.
  intros nested b fast pre post Hb B d. pose proof Hb as Hb'. unfold max_len in Hb'.
  unfold d. rewrite (dec_nested_ok nested B (length pre) fast b post Hb) by (unfold B; apply skipn_app_exact).
  rewrite enc_varint_size by lia. reflexivity.
Qed.

Theorem nested_roundtrip : forall fl tag b fast pre post nested,
  tag_ok tag -> N.of_nat (length b) <= max_len ->
  let n := (size_key tag + size_of_varint (N.of_nat (length b)) + length b)%nat in
  forall e', enc_nested {| ebuf := pre ++ zeros n ++ post; eoff := length pre |} tag fl (length b) (Some b) = Ok (e', true) ->
  exists n1,
    dec_tag (mk (ebuf e') (length pre) fast) = DOk (tag, 2) (mk (ebuf e') (length pre + n1) fast) /\
    dec_nested nested (mk (ebuf e') (length pre + n1) fast) =
      if nested b then DOk b (mk (ebuf e') (eoff e') fast) else DErr (mk (ebuf e') (length pre + n1) fast).
Proof.
  intros fl tag b fast pre post nested Ht Hb n e' Henc. pose proof Hb as Hb'. unfold max_len in Hb'.
  destruct (nested_encode_exact fl tag b pre (zeros n) post Ht ltac:(lia)
              ltac:(unfold zeros; apply repeat_length) (length b) (fun _ => eq_refl)) as [Hex _].
  fold n in Hex. rewrite Hex in Henc. inversion Henc as [He']. cbn [ebuf eoff].
  set (B := pre ++ (enc_key tag 2 ++ enc_varint (N.of_nat (length b)) ++ b) ++ post).
  assert (Hs : skipn (length pre) B = enc_key tag 2 ++ enc_varint (N.of_nat (length b)) ++ b ++ post).
  { unfold B. rewrite skipn_app_exact. rewrite <- !app_assoc. reflexivity. }
  exists (length (enc_key tag 2)). split.
  - apply dec_tag_ok with (rest := enc_varint (N.of_nat (length b)) ++ b ++ post); [exact Ht|lia|exact Hs].
  - rewrite (dec_nested_ok nested B _ fast b post Hb (skipn_app_step _ _ _ _ Hs)).
    destruct (nested b); [|reflexivity]. f_equal. apply mk_eq. unfold n.
    rewrite key_size, enc_varint_size by (try assumption; lia). lia.
Qed.
