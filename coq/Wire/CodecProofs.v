(* Proofs of the wire-codec properties C01 C02 C03 C19 (statements: Props/C01.v C02.v C03.v C19.v).
   CodecBase: shared arithmetic, canonical varints, keys (varint_canonical, key_size)
   EncProofs: sizes, exact writers, reference bytes, EncodeNested
   DecProofs: round trips, reference parser, Skip loop, DecodeNested
   SafeProofs: totality and bounds safety of the decoder on arbitrary bytes *)
From CsProto Require Export VarintSize CodecBase EncProofs DecProofs SafeProofs.
