From CsProto Require Import Prelude Varint.
Local Open Scope N_scope.

(* finite sweep helpers *)
Fixpoint upto (n : nat) : list N := match n with O => [] | S k => upto k ++ [N.of_nat k] end.
Lemma upto_In n x : x < N.of_nat n -> In x (upto n).
Proof.
  induction n as [|k IH]; intros H; [lia|].
  cbn [upto]. apply in_or_app.
  destruct (N.eq_dec x (N.of_nat k)) as [->|Hne]; [right; left; reflexivity|left; apply IH; lia].
Qed.

Lemma lor128 x : x < 128 -> N.lor x 128 = x + 128.
Proof.
  intros H.
  assert (Hall : forallb (fun x => N.lor x 128 =? x + 128) (upto 128) = true) by (vm_compute; reflexivity).
  rewrite forallb_forall in Hall. apply N.eqb_eq, Hall, upto_In. exact H.
Qed.

Lemma land127 v : N.land v 127 = v mod 128.
Proof. change 127 with (N.ones 7). rewrite N.land_ones. reflexivity. Qed.

Lemma land128_hi x : x < 128 -> N.land (x + 128) 128 =? 0 = false.
Proof.
  intros H.
  assert (Hall : forallb (fun x => negb (N.land (x + 128) 128 =? 0)) (upto 128) = true) by (vm_compute; reflexivity).
  rewrite forallb_forall in Hall. apply negb_true_iff, Hall, upto_In. exact H.
Qed.
Lemma land128_lo x : x < 128 -> N.land x 128 =? 0 = true.
Proof.
  intros H.
  assert (Hall : forallb (fun x => N.land x 128 =? 0) (upto 128) = true) by (vm_compute; reflexivity).
  rewrite forallb_forall in Hall. apply Hall, upto_In. exact H.
Qed.
Lemma land127_hi x : x < 128 -> N.land (x + 128) 127 = x.
Proof.
  intros H. rewrite land127. lia.
Qed.

(* arithmetic view of the encoder *)
Lemma enc_step f v : 128 <= v ->
  enc_varint_fuel (S f) v = (v mod 128 + 128) :: enc_varint_fuel f (v / 128).
Proof.
  intros H. cbn [enc_varint_fuel]. destruct (N.leb_spec 128 v); [|lia].
  rewrite land127, lor128 by lia. rewrite N.shiftr_div_pow2. reflexivity.
Qed.
Lemma enc_last f v : v < 128 -> enc_varint_fuel f v = [v].
Proof.
  intros H. destruct f; cbn [enc_varint_fuel].
  - f_equal. lia.
  - destruct (N.leb_spec 128 v); [lia|]. f_equal. lia.
Qed.

(* lor of disjoint = add : acc < 2^shift, chunk shifted *)
Lemma lor_shift_add acc c shift : acc < 2^shift -> N.lor acc (N.shiftl c shift) = acc + c * 2^shift.
Proof.
  intros H. rewrite N.shiftl_mul_pow2.
  rewrite <- N.lxor_lor, <- N.add_nocarry_lxor; try reflexivity.
  all: apply N.bits_inj; intros k; rewrite N.land_spec, N.bits_0;
    destruct (N.lt_ge_cases k shift) as [Hk|Hk];
    [ rewrite N.mul_pow2_bits_low by exact Hk; apply andb_false_r
    | destruct (N.eq_dec acc 0) as [->|Hz]; [rewrite N.bits_0; reflexivity|];
      rewrite (N.bits_above_log2 acc k); [reflexivity|];
      apply N.log2_lt_pow2 in H; lia ].
Qed.

Lemma dv_roundtrip : forall f v shift acc n rest fuel,
  v < 2^(7 * N.of_nat (S f)) ->
  acc < 2^shift ->
  acc + v * 2^shift < 2^64 ->
  (S f <= fuel)%nat ->
  dv_small fuel (enc_varint_fuel f v ++ rest) shift acc n
  = inl (acc + v * 2^shift, (n + length (enc_varint_fuel f v))%nat).
Proof.
  induction f as [|f IH]; intros v shift acc n rest fuel Hv Hacc Hsum Hfuel.
  - (* fuel 0 for encoder: v < 128 *)
    assert (v < 128) by (change (2^(7 * N.of_nat 1)) with 128 in Hv; exact Hv).
    rewrite enc_last by assumption. destruct fuel as [|fuel]; [lia|].
    cbn [app dv_small length]. rewrite land128_lo by assumption.
    rewrite land127, (N.mod_small v 128) by lia.
    assert (Hm : N.shiftl v shift mod 2^64 = v * 2^shift).
    { rewrite N.shiftl_mul_pow2. apply N.mod_small. lia. }
    rewrite Hm, <- N.shiftl_mul_pow2, lor_shift_add, N.shiftl_mul_pow2 by assumption.
    f_equal. f_equal. lia.
  - destruct (N.lt_ge_cases v 128) as [Hlt|Hge].
    + rewrite enc_last by assumption. destruct fuel as [|fuel]; [lia|].
      cbn [app dv_small length]. rewrite land128_lo by assumption.
      rewrite land127, (N.mod_small v 128) by lia.
      assert (Hm : N.shiftl v shift mod 2^64 = v * 2^shift).
      { rewrite N.shiftl_mul_pow2. apply N.mod_small. lia. }
      rewrite Hm, <- N.shiftl_mul_pow2, lor_shift_add, N.shiftl_mul_pow2 by assumption.
      f_equal. f_equal. lia.
    + rewrite enc_step by assumption. destruct fuel as [|fuel]; [lia|].
      cbn [app dv_small length].
      pose proof (N.div_mod' v 128) as Hdm.
      pose proof (N.mod_lt v 128 ltac:(lia)) as Hlo.
      set (q := v / 128) in *. set (r := v mod 128) in *.
      rewrite land128_hi by assumption. rewrite land127_hi by assumption.
      assert (Hpow : 2^(shift + 7) = 2^shift * 128) by (rewrite N.pow_add_r; reflexivity).
      set (P := 2^shift) in *.
      assert (HP : 0 < P) by (subst P; apply N.neq_0_lt_0, N.pow_nonzero; lia).
      assert (Hv2 : v * P = 128 * (q * P) + r * P) by (rewrite Hdm; ring).
      assert (Hm : N.shiftl r shift mod 2^64 = r * P).
      { rewrite N.shiftl_mul_pow2. fold P. apply N.mod_small. lia. }
      rewrite Hm. replace (r * P) with (N.shiftl r shift) by (rewrite N.shiftl_mul_pow2; reflexivity).
      rewrite lor_shift_add by assumption. fold P.
      rewrite IH.
      * f_equal. f_equal; [rewrite Hpow; lia|lia].
      * replace (7 * N.of_nat (S (S f))) with (7 * N.of_nat (S f) + 7) in Hv by lia.
        rewrite N.pow_add_r in Hv. change (2^7) with 128 in Hv.
        set (Q := 2 ^ (7 * N.of_nat (S f))) in *. lia.
      * rewrite Hpow. assert (r * P <= 127 * P) by (apply N.mul_le_mono_r; lia). lia.
      * rewrite Hpow. lia.
      * lia.
Qed.
Print Assumptions dv_roundtrip.
