(* C03: the decoder is total and bounds-safe on arbitrary bytes -- proofs. *)
From CsProto Require Import Prelude Varint VarintProof VarintSize ZigZag Codec RefWire WireStmts.
Local Open Scope N_scope.

(* ------------------------------------------------------------------------------------------ *)
(* A. DecodeVarint on arbitrary bytes *)

Lemma dv_small_len : forall fuel p shift acc n v m,
  dv_small fuel p shift acc n = inl (v, m) -> exists k, m = (n + k)%nat /\ (1 <= k <= length p)%nat.
Proof.
  induction fuel as [|f IH]; intros p shift acc n v m H.
  - cbn [dv_small] in H. discriminate H.
  - cbn [dv_small] in H. destruct p as [|b p']; [discriminate H|].
    destruct (N.land b 128 =? 0) eqn:Eb.
    + inversion H; subst. exists 1%nat. cbn [length]. lia.
    + apply IH in H. destruct H as [k [Hm Hk]]. exists (S k). cbn [length]. lia.
Qed.

Lemma dec_varint_len p v n : dec_varint p = inl (v, n) -> (1 <= n <= length p)%nat.
Proof.
  unfold dec_varint. destruct p as [|b0 r]; [intros H; discriminate H|].
  destruct (b0 <? 128).
  - intros H; inversion H; subst. cbn [length]. lia.
  - destruct (Nat.ltb_spec (length (b0 :: r)) 10) as [Hl|Hl]; intros H;
      apply dv_small_len in H; destruct H as [k [Hm Hk]].
    + lia.
    + pose proof (firstn_le_length 10 (b0 :: r)). lia.
Qed.

Lemma byte_land128 b : b < 256 -> (N.land b 128 =? 0) = (b <? 128).
Proof.
  intros H.
  assert (Hall : forallb (fun x => Bool.eqb (N.land x 128 =? 0) (x <? 128)) (upto 256) = true)
    by (vm_compute; reflexivity).
  rewrite forallb_forall in Hall. apply Bool.eqb_prop, Hall, upto_In. exact H.
Qed.

Lemma pow64_split shift : shift <= 64 -> 2^64 = 2^(64 - shift) * 2^shift.
Proof. intros H. rewrite <- N.pow_add_r. f_equal. lia. Qed.

Lemma acc_step shift acc c : shift <= 63 -> acc < 2^shift ->
  N.lor acc (N.shiftl c shift mod 2^64) = (acc + c * 2^shift) mod 2^64.
Proof.
  intros Hs Hacc.
  rewrite (pow64_split shift) by lia.
  set (P := 2^shift) in *. set (Q := 2^(64 - shift)).
  assert (HP : P <> 0) by (subst P; apply N.pow_nonzero; lia).
  assert (HQ : Q <> 0) by (subst Q; apply N.pow_nonzero; lia).
  rewrite N.shiftl_mul_pow2. fold P.
  rewrite N.mul_mod_distr_r by assumption.
  pose proof (N.mod_lt c Q HQ) as Hr. set (r := c mod Q) in *.
  replace (r * P) with (N.shiftl r shift) by (rewrite N.shiftl_mul_pow2; reflexivity).
  rewrite lor_shift_add by exact Hacc. fold P.
  rewrite <- (N.add_mod_idemp_r acc (c * P)) by (apply N.neq_mul_0; split; assumption).
  rewrite N.mul_mod_distr_r by assumption. fold r.
  symmetry. apply N.mod_small.
  assert ((r + 1) * P <= Q * P) by (apply N.mul_le_mono_r; lia). lia.
Qed.

Lemma dv_small_ref : forall fuel p shift acc n v m,
  bytes_ok p -> shift + 7 * N.of_nat fuel <= 70 -> acc < 2^shift ->
  dv_small fuel p shift acc n = inl (v, m) ->
  exists k val, ref_varint_len p = Some k /\ ref_varint_val p = Some val /\ m = (n + k)%nat
    /\ v = (acc + val * 2^shift) mod 2^64.
Proof.
  induction fuel as [|f IH]; intros p shift acc n v m Hok Hsh Hacc H.
  - cbn [dv_small] in H. discriminate H.
  - cbn [dv_small] in H. destruct p as [|b p']; [discriminate H|].
    inversion Hok as [|b' p'' Hb Hok' Heq]; subst b' p''.
    rewrite acc_step in H by (assumption || lia).
    rewrite (byte_land128 b Hb) in H. rewrite land127 in H.
    cbn [ref_varint_len ref_varint_val].
    destruct (N.ltb_spec b 128) as [Hlt|Hge].
    + inversion H; subst. exists 1%nat, b. rewrite (N.mod_small b 128) by lia.
      repeat split. lia.
    + assert (Hf : f <> 0%nat) by (intros ->; cbn [dv_small] in H; discriminate H).
      assert (Hs56 : shift <= 56) by lia.
      pose proof (N.div_mod' b 128) as Hdm. pose proof (N.mod_lt b 128 ltac:(lia)) as Hr.
      set (c := b mod 128) in *.
      assert (Hc : c = b - 128) by lia.
      assert (Hpow : 2^(shift+7) = 2^shift * 128) by (rewrite N.pow_add_r; reflexivity).
      assert (H64 : 2^(shift+7) <= 2^64) by (apply N.pow_le_mono_r; lia).
      set (P := 2^shift) in *.
      assert (HcP: c * P <= 127 * P) by (apply N.mul_le_mono_r; lia).
      rewrite (N.mod_small (acc + c * P)) in H by lia.
      apply IH in H; [| assumption | lia | rewrite Hpow; lia].
      destruct H as (k & val & Hl & Hv & Hm & Hval).
      rewrite Hl, Hv. cbn [option_map]. exists (S k), (b - 128 + 128 * val).
      repeat split; [lia|]. rewrite Hval, Hpow. f_equal. rewrite <- Hc. ring.
Qed.

Lemma ref_len_app p q k : ref_varint_len p = Some k -> ref_varint_len (p ++ q) = Some k.
Proof.
  revert k; induction p as [|b r IH]; intros k H; cbn [ref_varint_len app] in *; [discriminate H|].
  destruct (b <? 128); [exact H|].
  destruct (ref_varint_len r) as [k'|]; [|discriminate H]. rewrite (IH k' eq_refl). exact H.
Qed.
Lemma ref_val_app p q k : ref_varint_val p = Some k -> ref_varint_val (p ++ q) = Some k.
Proof.
  revert k; induction p as [|b r IH]; intros k H; cbn [ref_varint_val app] in *; [discriminate H|].
  destruct (b <? 128); [exact H|].
  destruct (ref_varint_val r) as [k'|]; [|discriminate H]. rewrite (IH k' eq_refl). exact H.
Qed.

Lemma dv_small_ref0 p v n : bytes_ok p -> dv_small 10 p 0 0 0%nat = inl (v, n) ->
  ref_varint_len p = Some n /\ exists val, ref_varint_val p = Some val /\ v = val mod 2^64.
Proof.
  intros Hok H. apply dv_small_ref in H; [| assumption | vm_compute; discriminate | vm_compute; reflexivity].
  destruct H as (k & val & Hl & Hv & Hm & Hval).
  rewrite N.pow_0_r, N.mul_1_r, N.add_0_l in Hval. cbn [Nat.add] in Hm. subst n.
  split; [exact Hl|]. exists val. split; assumption.
Qed.

Lemma dec_varint_ref' p v n : bytes_ok p -> dec_varint p = inl (v, n) ->
  ref_varint_len p = Some n /\ exists val, ref_varint_val p = Some val /\ v = val mod 2^64.
Proof.
  intros Hok H. unfold dec_varint in H. destruct p as [|b0 r]; [discriminate H|].
  destruct (N.ltb_spec b0 128) as [Hlt|Hge].
  - inversion H as [[Hv Hn]]. subst v n. cbn [ref_varint_len ref_varint_val].
    destruct (N.ltb_spec b0 128) as [_|Hc]; [|lia].
    split; [reflexivity|]. exists b0. split; [reflexivity|]. symmetry; apply N.mod_small.
    apply N.lt_trans with 128; [exact Hlt| vm_compute; reflexivity].
  - destruct (length (b0 :: r) <? 10)%nat.
    + apply dv_small_ref0 in H; assumption.
    + apply dv_small_ref0 in H; [|apply Forall_firstn; exact Hok].
      destruct H as (Hl & val & Hv & Hval).
      rewrite <- (firstn_skipn 10 (b0 :: r)).
      split; [apply ref_len_app; exact Hl|]. exists val. split; [apply ref_val_app; exact Hv|exact Hval].
Qed.

Lemma dec_varint_ref p v n : bytes_ok p -> dec_varint p = inl (v, n) ->
  ref_varint_len p = Some n /\ v = ref_vval p mod 2^64.
Proof.
  intros Hok H. apply dec_varint_ref' in H; [|exact Hok].
  destruct H as (Hl & val & Hv & Hval). split; [exact Hl|]. unfold ref_vval. rewrite Hv. exact Hval.
Qed.
Lemma dec_varint_vlen p v n : bytes_ok p -> dec_varint p = inl (v, n) -> ref_vlen p = n.
Proof.
  intros Hok H. apply dec_varint_ref in H; [|exact Hok]. destruct H as [Hl _]. unfold ref_vlen. rewrite Hl. reflexivity.
Qed.

(* ------------------------------------------------------------------------------------------ *)
(* B. per-reader specifications *)

Definition safe {A} (d : decoder) (r : dres A) : Prop :=
  match r with DOk _ d' | DErr d' => Inv d' /\ dbuf d' = dbuf d | DPanic => False end.

Lemma go_from_ok {A} p lo (k : list byte -> dres A) :
  (lo <= length p)%nat -> go_from p lo k = k (skipn lo p).
Proof. intros H. unfold go_from. destruct (Nat.ltb_spec (length p) lo); [lia|reflexivity]. Qed.

Lemma go_sub_ok {A} p lo hi (k : list byte -> dres A) :
  (lo <= hi <= length p)%nat -> go_sub p lo hi k = k (slice p lo hi).
Proof.
  intros H. unfold go_sub. destruct (Nat.leb_spec lo hi); [|lia].
  destruct (Nat.leb_spec hi (length p)); [|lia]. reflexivity.
Qed.

Lemma safe_self d : Inv d -> Inv d /\ dbuf d = dbuf d.
Proof. intros H; split; [exact H|reflexivity]. Qed.
Lemma safe_dadv d n : Inv d -> (n <= length (dbuf d) - doff d)%nat -> Inv (dadv d n) /\ dbuf (dadv d n) = dbuf d.
Proof. unfold Inv, dadv; cbn [dbuf doff]. intros H Hn. split; [lia|reflexivity]. Qed.

Lemma read_elem_cases {A} k d (kont : option (Z * nat) -> dres A) :
  read_elem k d (skipn (doff d) (dbuf d)) kont = kont None \/
  exists z n, read_elem k d (skipn (doff d) (dbuf d)) kont = kont (Some (z, n)) /\
    (1 <= n <= length (dbuf d) - doff d)%nat /\
    (if is_varint_kind k then exists v, dec_varint (skipn (doff d) (dbuf d)) = inl (v, n) else n = width_of k).
Proof.
  assert (Hp : length (skipn (doff d) (dbuf d)) = (length (dbuf d) - doff d)%nat) by apply skipn_length.
  set (p := skipn (doff d) (dbuf d)) in *.
  unfold read_elem. destruct (is_varint_kind k) eqn:Ek.
  - destruct (dec_varint p) as [[v n]|e] eqn:E; [|left; reflexivity].
    destruct (of_wire k v) as [z|]; [|left; reflexivity].
    right. exists z, n. split; [reflexivity|]. rewrite <- Hp. split; [eapply dec_varint_len; exact E|].
    exists v; reflexivity.
  - destruct k; try discriminate Ek;
    ( cbv zeta; cbn [width_of]; rewrite <- ?Hp; unfold go_le;
      match goal with |- context [(length p <? ?w)%nat] => destruct (Nat.ltb_spec (length p) w) as [Hlt|Hge] end;
      [left; reflexivity|];
      cbv beta;
      match goal with |- context [of_wire ?k ?x] => destruct (of_wire k x) as [z|] end;
      [right; eexists; eexists; split; [reflexivity|]; split; [lia|reflexivity] | left; reflexivity] ).
Qed.

Lemma dec_tag_spec d : Inv d ->
  match dec_tag d with
  | DOk _ d' => exists v n, dec_varint (skipn (doff d) (dbuf d)) = inl (v, n) /\ d' = dadv d n
  | DErr d' => d' = d
  | DPanic => False end.
Proof.
  intros HI. unfold dec_tag. destruct (at_eof d); [reflexivity|]. rewrite go_from_ok by exact HI.
  destruct (dec_varint (skipn (doff d) (dbuf d))) as [[v n]|e] eqn:E; [|reflexivity].
  destruct ((v <? 1) || (max_tag <? N.shiftr v 3)); [reflexivity|].
  exists v, n. split; reflexivity.
Qed.

Lemma dec_scalar_spec d k : Inv d ->
  match dec_scalar d k with
  | DOk _ d' => exists n, d' = dadv d n /\ (1 <= n <= length (dbuf d) - doff d)%nat /\
      (if is_varint_kind k then exists v, dec_varint (skipn (doff d) (dbuf d)) = inl (v, n) else n = width_of k)
  | DErr d' => d' = d
  | DPanic => False end.
Proof.
  intros HI. unfold dec_scalar. destruct (at_eof d); [reflexivity|]. rewrite go_from_ok by exact HI.
  match goal with |- context [read_elem k d _ ?kont] =>
    destruct (read_elem_cases k d kont) as [E|(z & n & E & Hn & Hk)]; rewrite E; cbv beta iota end.
  - reflexivity.
  - exists n. split; [reflexivity|]. split; assumption.
Qed.

(* length-prefixed readers *)
Definition lenpref (d : decoder) (l : N) (n : nat) : Prop :=
  dec_varint (skipn (doff d) (dbuf d)) = inl (l, n) /\
  N.of_nat (doff d + n) + l <= N.of_nat (length (dbuf d)).

Lemma dec_bytes_spec d : Inv d ->
  match dec_bytes d with
  | DOk _ d' => exists l n, lenpref d l n /\ d' = dadv d (n + N.to_nat l)
  | DErr d' => d' = d
  | DPanic => False end.
Proof.
  intros HI. unfold dec_bytes. destruct (at_eof d); [reflexivity|]. rewrite go_from_ok by exact HI.
  destruct (dec_varint (skipn (doff d) (dbuf d))) as [[l n]|e] eqn:E; [|reflexivity].
  destruct (max_len <? l); [reflexivity|].
  destruct (N.ltb_spec (N.of_nat (length (dbuf d))) (N.of_nat (doff d + n) + l)) as [Hg|Hg]; [reflexivity|].
  cbv zeta. rewrite go_sub_ok by lia.
  exists l, n. split; [split; assumption|reflexivity].
Qed.

Lemma dec_nested_spec nested d : Inv d ->
  match dec_nested nested d with
  | DOk _ d' => exists l n, lenpref d l n /\ d' = dadv d (n + N.to_nat l)
  | DErr d' => d' = d
  | DPanic => False end.
Proof.
  intros HI. unfold dec_nested. destruct (at_eof d); [reflexivity|]. rewrite go_from_ok by exact HI.
  destruct (dec_varint (skipn (doff d) (dbuf d))) as [[l n]|e] eqn:E; [|reflexivity].
  destruct (max_len <? l); [reflexivity|].
  destruct (N.ltb_spec (N.of_nat (length (dbuf d))) (N.of_nat (doff d + n) + l)) as [Hg|Hg]; [reflexivity|].
  cbv zeta. rewrite go_sub_ok by lia.
  destruct (nested _); [|reflexivity].
  exists l, n. split; [split; assumption|reflexivity].
Qed.

(* packed readers *)
Lemma packed_loop_S f k l d nread acc :
  packed_loop (S f) k l d nread acc =
  if nread <? l then
    if (match k with KFloat | KDouble => false | _ => true end) && at_eof d then DErr d else
      go_from (dbuf d) (doff d) (fun rest =>
        read_elem k d rest (fun r =>
        match r with
        | None => DErr d
        | Some (z, n) => packed_loop f k l (dadv d n) (nread + N.of_nat n) (z :: acc)
        end))
  else if nread =? l then DOk (rev acc) d else DErr d.
Proof.
  destruct k; cbn [packed_loop andb]; destruct (nread <? l); try reflexivity; destruct (at_eof d); reflexivity.
Qed.

Definition ploop_post (d : decoder) (l nread : N) (acc : list Z) (r : dres (list Z)) : Prop :=
  match r with
  | DOk res d' => Inv d' /\ dbuf d' = dbuf d /\ (length res + doff d <= length acc + doff d')%nat /\
                  N.of_nat (doff d') + nread = N.of_nat (doff d) + l
  | DErr d' => Inv d' /\ dbuf d' = dbuf d
  | DPanic => False end.

Lemma ploop_end d l nread acc : Inv d -> l <= nread ->
  ploop_post d l nread acc (if nread =? l then DOk (rev acc) d else DErr d).
Proof.
  intros HI Hl. destruct (N.eqb_spec nread l) as [He|He]; unfold ploop_post.
  - rewrite rev_length. repeat split; [exact HI|lia|lia].
  - split; [exact HI|reflexivity].
Qed.

Lemma packed_loop_spec : forall fuel k l d nread acc,
  Inv d -> ploop_post d l nread acc (packed_loop fuel k l d nread acc).
Proof.
  induction fuel as [|f IH]; intros k l d nread acc HI.
  - cbn [packed_loop]. destruct (N.ltb_spec nread l) as [Hlt|Hge]; [split; [exact HI|reflexivity]|].
    apply ploop_end; assumption.
  - rewrite packed_loop_S. destruct (N.ltb_spec nread l) as [Hlt|Hge]; [|apply ploop_end; assumption].
    destruct (_ && at_eof d); [split; [exact HI|reflexivity]|].
    rewrite go_from_ok by exact HI.
    match goal with |- context [read_elem k d _ ?kont] =>
      destruct (read_elem_cases k d kont) as [E|(z & n & E & Hn & Hk)]; rewrite E; cbv beta iota end.
    + split; [exact HI|reflexivity].
    + destruct (safe_dadv d n HI ltac:(lia)) as [HI1 Hb1].
      pose proof (IH k l (dadv d n) (nread + N.of_nat n) (z :: acc) HI1) as Hp.
      destruct (packed_loop f k l (dadv d n) (nread + N.of_nat n) (z :: acc)) as [res d'|d'|];
        unfold ploop_post in *; cbn [length] in Hp; unfold dadv in Hp; cbn [dbuf doff] in Hp.
      * destruct Hp as (H1 & H2 & H3 & H4). repeat split; [exact H1|exact H2|lia|lia].
      * exact Hp.
      * exact Hp.
Qed.

Lemma dec_packed_spec d k : Inv d ->
  match dec_packed d k with
  | DOk res d' => exists l n, dec_varint (skipn (doff d) (dbuf d)) = inl (l, n) /\
      Inv d' /\ dbuf d' = dbuf d /\ (length res + (doff d + n) <= doff d')%nat /\
      N.of_nat (doff d') = N.of_nat (doff d + n) + l
  | DErr d' => Inv d' /\ dbuf d' = dbuf d
  | DPanic => False end.
Proof.
  intros HI.
  set (post := fun r : dres (list Z) =>
    match r with
    | DOk res d' => exists l n, dec_varint (skipn (doff d) (dbuf d)) = inl (l, n) /\
        Inv d' /\ dbuf d' = dbuf d /\ (length res + (doff d + n) <= doff d')%nat /\
        N.of_nat (doff d') = N.of_nat (doff d + n) + l
    | DErr d' => Inv d' /\ dbuf d' = dbuf d
    | DPanic => False end).
  change (post (dec_packed d k)).
  unfold dec_packed. destruct (at_eof d); [split; [exact HI|reflexivity]|].
  rewrite go_from_ok by exact HI.
  destruct (dec_varint (skipn (doff d) (dbuf d))) as [[l n]|e] eqn:E; [|split; [exact HI|reflexivity]].
  cbv zeta.
  pose proof (dec_varint_len _ _ _ E) as Hn. rewrite skipn_length in Hn.
  destruct (safe_dadv d n HI ltac:(lia)) as [HI1 Hb1].
  assert (Hloop : forall fuel, post (packed_loop fuel k l (dadv d n) 0 [])).
  { intros fuel. pose proof (packed_loop_spec fuel k l (dadv d n) 0 [] HI1) as Hp.
    destruct (packed_loop fuel k l (dadv d n) 0 []) as [res d'|d'|]; unfold post;
      unfold ploop_post in Hp; cbn [length] in Hp; unfold dadv in Hp; cbn [dbuf doff] in Hp.
    - destruct Hp as (H1 & H2 & H3 & H4). exists l, n. repeat split; [exact H1|exact H2|lia|lia].
    - exact Hp.
    - exact Hp. }
  destruct k; try apply Hloop.
  destruct (N.of_nat (length (dbuf (dadv d n)) - doff (dadv d n)) <? l); [|apply Hloop].
  split; assumption.
Qed.

(* Skip *)
Definition sfin (d : decoder) (bof skipped : nat) : dres (list byte) :=
  if (length (dbuf d) <? doff d + skipped)%nat then DErr d
  else go_sub (dbuf d) bof (doff d + skipped) (fun raw => DOk raw (dadv d skipped)).

Definition skip_body (d : decoder) (bof : nat) (wt : Z) : dres (list byte) :=
    if (wt =? 0)%Z then
      go_from (dbuf d) (doff d) (fun rest =>
      match dec_varint rest with inr _ => DErr d | inl (_, n) => sfin d bof n end)
    else if (wt =? 1)%Z then sfin d bof 8%nat
    else if (wt =? 5)%Z then sfin d bof 4%nat
    else if (wt =? 2)%Z then
      go_from (dbuf d) (doff d) (fun rest =>
      match dec_varint rest with
      | inr _ => DErr d
      | inl (l, n) => if max_len <? l then DErr d
                      else if N.of_nat (length (dbuf d)) <? N.of_nat (doff d + n) + l then DErr d
                      else sfin d bof (n + N.to_nat l)%nat
      end)
    else DErr d.

Lemma dec_skip_unfold d tag wt : dec_skip d tag wt =
  if at_eof d then DErr d else
  let sz := size_key (u64z tag) in
  let bof := (doff d - sz)%nat in
  if dfast d then skip_body d bof wt else
  go_from (dbuf d) bof (fun kb =>
  match dec_varint kb with
  | inr _ => DErr d
  | inl (v, n) =>
      if (n =? sz)%nat && (Z.of_N (N.shiftr v 3) =? tag)%Z && (Z.of_N (N.land v 7) =? wt)%Z
      then skip_body d bof wt else DErr d
  end).
Proof. reflexivity. Qed.

Definition skip_item (d : decoder) (wt : Z) (skipped : nat) : Prop :=
  (wt = 0%Z /\ exists v, dec_varint (skipn (doff d) (dbuf d)) = inl (v, skipped)) \/
  (wt = 1%Z /\ skipped = 8%nat) \/ (wt = 5%Z /\ skipped = 4%nat) \/
  (wt = 2%Z /\ exists l n, lenpref d l n /\ skipped = (n + N.to_nat l)%nat).

Definition skip_post (d : decoder) (bof : nat) (wt : Z) (r : dres (list byte)) : Prop :=
  match r with
  | DOk raw d' => exists skipped, d' = dadv d skipped /\ raw = slice (dbuf d) bof (doff d + skipped) /\
        (doff d + skipped <= length (dbuf d))%nat /\ skip_item d wt skipped
  | DErr d' => d' = d
  | DPanic => False end.

Lemma sfin_spec d bof wt skipped : Inv d -> (bof <= doff d)%nat -> skip_item d wt skipped ->
  skip_post d bof wt (sfin d bof skipped).
Proof.
  intros HI Hb Hit. unfold sfin.
  destruct (Nat.ltb_spec (length (dbuf d)) (doff d + skipped)) as [Hlt|Hge]; [reflexivity|].
  rewrite go_sub_ok by lia. exists skipped. repeat split; assumption.
Qed.

Lemma skip_body_spec d bof wt : Inv d -> (bof <= doff d)%nat -> skip_post d bof wt (skip_body d bof wt).
Proof.
  intros HI Hb. unfold skip_body.
  destruct (Z.eqb_spec wt 0) as [->|H0].
  { rewrite go_from_ok by exact HI.
    destruct (dec_varint (skipn (doff d) (dbuf d))) as [[v n]|e] eqn:E; [|reflexivity].
    apply sfin_spec; [assumption|assumption|]. left. split; [reflexivity|]. exists v. exact E. }
  destruct (Z.eqb_spec wt 1) as [->|H1].
  { apply sfin_spec; [assumption|assumption|]. right; left. split; reflexivity. }
  destruct (Z.eqb_spec wt 5) as [->|H5].
  { apply sfin_spec; [assumption|assumption|]. right; right; left. split; reflexivity. }
  destruct (Z.eqb_spec wt 2) as [->|H2]; [|reflexivity].
  rewrite go_from_ok by exact HI.
  destruct (dec_varint (skipn (doff d) (dbuf d))) as [[l n]|e] eqn:E; [|reflexivity].
  destruct (max_len <? l); [reflexivity|].
  destruct (N.ltb_spec (N.of_nat (length (dbuf d))) (N.of_nat (doff d + n) + l)) as [Hg|Hg]; [reflexivity|].
  apply sfin_spec; [assumption|assumption|]. right; right; right. split; [reflexivity|].
  exists l, n. split; [split; assumption|reflexivity].
Qed.

Lemma dec_skip_spec d tag wt : Inv d ->
  skip_post d (doff d - size_key (u64z tag)) wt (dec_skip d tag wt).
Proof.
  intros HI. rewrite dec_skip_unfold. destruct (at_eof d); [reflexivity|]. cbv zeta.
  destruct (dfast d); [apply skip_body_spec; [exact HI|lia]|].
  rewrite go_from_ok by (unfold Inv in HI; lia).
  destruct (dec_varint _) as [[v n]|e]; [|reflexivity].
  destruct (_ && _ && _); [apply skip_body_spec; [exact HI|lia]|reflexivity].
Qed.

Lemma seek_aux d (pos : option Z) : Inv d ->
  safe d (match pos with
          | None => DErr d
          | Some p => if ((p <? 0) || (Z.of_nat (length (dbuf d)) <? p))%Z then DErr d
                      else DOk p {| dbuf := dbuf d; doff := Z.to_nat p; dfast := dfast d |}
          end).
Proof.
  intros HI. destruct pos as [p|]; [|split; [exact HI|reflexivity]].
  destruct (Z.ltb_spec p 0) as [Hn|Hn]; cbn [orb]; [split; [exact HI|reflexivity]|].
  destruct (Z.ltb_spec (Z.of_nat (length (dbuf d))) p) as [Hm|Hm]; [split; [exact HI|reflexivity]|].
  unfold safe, Inv; cbn [dbuf doff]. split; [lia|reflexivity].
Qed.
Lemma dec_seek_safe d o wh : Inv d -> safe d (dec_seek d o wh).
Proof. intros HI. unfold dec_seek. apply seek_aux. exact HI. Qed.

(* ------------------------------------------------------------------------------------------ *)
(* C. safety of every reader *)

Lemma safe_dmap {A B} (f : A -> B) d r : safe d r -> safe d (dmap f r).
Proof. destruct r; exact (fun H => H). Qed.

Lemma lenpref_bound d l n : Inv d -> lenpref d l n -> (n + N.to_nat l <= length (dbuf d) - doff d)%nat.
Proof. intros HI [_ H]. unfold Inv in HI. lia. Qed.

Lemma dec_tag_safe d : Inv d -> safe d (dec_tag d).
Proof.
  intros HI. pose proof (dec_tag_spec d HI) as H. destruct (dec_tag d) as [a d'|d'|]; unfold safe.
  - destruct H as (v & n & E & ->). apply safe_dadv; [exact HI|].
    apply dec_varint_len in E. rewrite skipn_length in E. lia.
  - subst d'. apply safe_self; exact HI.
  - exact H.
Qed.

Lemma dec_scalar_safe d k : Inv d -> safe d (dec_scalar d k).
Proof.
  intros HI. pose proof (dec_scalar_spec d k HI) as H. destruct (dec_scalar d k) as [a d'|d'|]; unfold safe.
  - destruct H as (n & -> & Hn & _). apply safe_dadv; [exact HI|lia].
  - subst d'. apply safe_self; exact HI.
  - exact H.
Qed.

Lemma dec_bytes_safe d : Inv d -> safe d (dec_bytes d).
Proof.
  intros HI. pose proof (dec_bytes_spec d HI) as H. destruct (dec_bytes d) as [a d'|d'|]; unfold safe.
  - destruct H as (l & n & Hlp & ->). apply safe_dadv; [exact HI|]. apply lenpref_bound; assumption.
  - subst d'. apply safe_self; exact HI.
  - exact H.
Qed.

Lemma dec_nested_safe nested d : Inv d -> safe d (dec_nested nested d).
Proof.
  intros HI. pose proof (dec_nested_spec nested d HI) as H.
  destruct (dec_nested nested d) as [a d'|d'|]; unfold safe.
  - destruct H as (l & n & Hlp & ->). apply safe_dadv; [exact HI|]. apply lenpref_bound; assumption.
  - subst d'. apply safe_self; exact HI.
  - exact H.
Qed.

Lemma dec_packed_safe d k : Inv d -> safe d (dec_packed d k).
Proof.
  intros HI. pose proof (dec_packed_spec d k HI) as H. destruct (dec_packed d k) as [a d'|d'|]; unfold safe.
  - destruct H as (l & n & _ & H1 & H2 & _). split; assumption.
  - exact H.
  - exact H.
Qed.

Lemma dec_skip_safe d tag wt : Inv d -> safe d (dec_skip d tag wt).
Proof.
  intros HI. pose proof (dec_skip_spec d tag wt HI) as H.
  destruct (dec_skip d tag wt) as [a d'|d'|]; unfold safe; unfold skip_post in H.
  - destruct H as (sk & -> & _ & Hb & _). apply safe_dadv; [exact HI|]. unfold Inv in HI. lia.
  - subst d'. apply safe_self; exact HI.
  - exact H.
Qed.

Lemma step_safe nested d op : Inv d -> safe d (dstep nested d op).
Proof.
  intros HI. destruct op; cbn [dstep]; try apply safe_dmap.
  - apply dec_tag_safe; exact HI.
  - apply dec_scalar_safe; exact HI.
  - apply dec_bytes_safe; exact HI.
  - apply dec_bytes_safe; exact HI.
  - apply dec_packed_safe; exact HI.
  - apply dec_nested_safe; exact HI.
  - apply dec_skip_safe; exact HI.
  - apply dec_seek_safe; exact HI.
  - unfold safe, Inv; cbn [dbuf doff]. split; [lia|reflexivity].
  - unfold safe, Inv; cbn [dbuf doff]. split; [exact HI|reflexivity].
Qed.

Lemma step_inv : forall nested d op,
  Inv d -> match dstep nested d op with
           | DOk _ d' | DErr d' => Inv d' /\ dbuf d' = dbuf d
           | DPanic => False end.
Proof. intros nested d op HI. exact (step_safe nested d op HI). Qed.

Lemma step_no_panic : forall nested d op, Inv d -> dstep nested d op <> DPanic.
Proof.
  intros nested d op HI E. pose proof (step_inv nested d op HI) as H. rewrite E in H. exact H.
Qed.

Lemma run_safe : forall nested ops d, Inv d ->
  Forall (fun o => o <> DPanic) (fst (drun nested d ops)) /\
  exists d', snd (drun nested d ops) = Some d' /\ Inv d' /\ dbuf d' = dbuf d.
Proof.
  intros nested ops; induction ops as [|op r IH]; intros d HI.
  - cbn [drun fst snd]. split; [constructor|]. exists d. repeat split. exact HI.
  - cbn [drun]. pose proof (step_inv nested d op HI) as Hs.
    destruct (dstep nested d op) as [v d1|d1|] eqn:E; [| |contradiction].
    + destruct Hs as [HI1 Hb1]. specialize (IH d1 HI1).
      destruct (drun nested d1 r) as [os fin]. cbn [fst snd] in *.
      destruct IH as [HF (d' & Hfin & HI' & Hb')].
      split; [constructor; [discriminate|exact HF]|]. exists d'. rewrite Hb', Hb1. repeat split; assumption.
    + destruct Hs as [HI1 Hb1]. specialize (IH d1 HI1).
      destruct (drun nested d1 r) as [os fin]. cbn [fst snd] in *.
      destruct IH as [HF (d' & Hfin & HI' & Hb')].
      split; [constructor; [discriminate|exact HF]|]. exists d'. rewrite Hb', Hb1. repeat split; assumption.
Qed.

(* ------------------------------------------------------------------------------------------ *)
(* D. exact advance, Skip's slice, length overrun *)

Lemma dmap_ok {A B} (f : A -> B) r v d' : dmap f r = DOk v d' -> exists a, r = DOk a d'.
Proof. destruct r; cbn [dmap]; intros H; try discriminate H. inversion H. eexists; reflexivity. Qed.

Lemma is_err_dmap {A B} (f : A -> B) r : is_err (dmap f r) = is_err r.
Proof. destruct r; reflexivity. Qed.

Lemma varint_item p l n : bytes_ok p -> dec_varint p = inl (l, n) ->
  (n + N.to_nat l = ref_vlen p + N.to_nat (ref_vval p mod 2^64))%nat.
Proof.
  intros Hok E. apply dec_varint_ref in E; [|exact Hok]. destruct E as [Hl Hv].
  unfold ref_vlen. rewrite Hl, <- Hv. reflexivity.
Qed.

Lemma exact_advance : forall nested d op v d',
  Inv d -> bytes_ok (dbuf d) -> is_read op = true -> dstep nested d op = DOk v d' ->
  doff d' = (doff d + item_len (skipn (doff d) (dbuf d)) op)%nat /\ (doff d' <= length (dbuf d))%nat.
Proof.
  intros nested d op v d' HI Hok Hr H.
  assert (Hp : bytes_ok (skipn (doff d) (dbuf d))) by (apply Forall_skipn; exact Hok).
  split.
  2:{ pose proof (step_safe nested d op HI) as Hs. rewrite H in Hs. destruct Hs as [Hi Hb].
      unfold Inv in Hi. rewrite Hb in Hi. exact Hi. }
  destruct op; cbn [is_read] in Hr; try discriminate Hr; cbn [dstep item_len] in *;
    apply dmap_ok in H; destruct H as [a H].
  - pose proof (dec_tag_spec d HI) as Hs. rewrite H in Hs. destruct Hs as (x & n & E & ->).
    unfold dadv; cbn [doff]. f_equal. symmetry. eapply dec_varint_vlen; eassumption.
  - pose proof (dec_scalar_spec d k HI) as Hs. rewrite H in Hs. destruct Hs as (n & -> & Hn & Hk).
    unfold dadv; cbn [doff]. f_equal. destruct (is_varint_kind k); [|exact Hk].
    destruct Hk as [x E]. symmetry. eapply dec_varint_vlen; eassumption.
  - pose proof (dec_bytes_spec d HI) as Hs. rewrite H in Hs. destruct Hs as (l & n & [E _] & ->).
    unfold dadv; cbn [doff]. f_equal. apply varint_item; assumption.
  - pose proof (dec_bytes_spec d HI) as Hs. rewrite H in Hs. destruct Hs as (l & n & [E _] & ->).
    unfold dadv; cbn [doff]. f_equal. apply varint_item; assumption.
  - pose proof (dec_packed_spec d k HI) as Hs. rewrite H in Hs.
    destruct Hs as (l & n & E & _ & _ & _ & Hoff).
    rewrite <- (varint_item _ l n Hp E). lia.
  - pose proof (dec_nested_spec nested d HI) as Hs. rewrite H in Hs. destruct Hs as (l & n & [E _] & ->).
    unfold dadv; cbn [doff]. f_equal. apply varint_item; assumption.
  - pose proof (dec_skip_spec d tag wt HI) as Hs. rewrite H in Hs. unfold skip_post in Hs.
    destruct Hs as (sk & -> & _ & _ & Hit). unfold dadv; cbn [doff]. f_equal.
    destruct Hit as [[-> [x E]]|[[-> ->]|[[-> ->]|[-> (l & n & [E _] & ->)]]]]; cbn [Z.eqb Pos.eqb].
    + symmetry. eapply dec_varint_vlen; eassumption.
    + reflexivity.
    + reflexivity.
    + apply varint_item; assumption.
Qed.

Lemma skip_slice : forall d tag wt raw d',
  Inv d -> dec_skip d tag wt = DOk raw d' ->
  raw = slice (dbuf d) (doff d - size_key (u64z tag)) (doff d').
Proof.
  intros d tag wt raw d' HI H. pose proof (dec_skip_spec d tag wt HI) as Hs. rewrite H in Hs.
  unfold skip_post in Hs. destruct Hs as (sk & -> & -> & _). unfold dadv; cbn [doff]. reflexivity.
Qed.

Lemma lenpref_overrun d l n : Inv d -> bytes_ok (dbuf d) -> lenpref d l n ->
  N.of_nat (length (skipn (doff d) (dbuf d))) <
    N.of_nat (ref_vlen (skipn (doff d) (dbuf d))) + ref_vval (skipn (doff d) (dbuf d)) mod 2^64 -> False.
Proof.
  intros HI Hok [E Hb] Hov. apply dec_varint_ref in E; [|apply Forall_skipn; exact Hok].
  destruct E as [Hl Hv]. unfold ref_vlen in Hov. rewrite Hl in Hov. rewrite <- Hv in Hov.
  rewrite skipn_length in Hov. unfold Inv in HI. lia.
Qed.

Lemma length_overrun_is_error : forall nested d op,
  Inv d -> bytes_ok (dbuf d) -> has_len op = true ->
  let p := skipn (doff d) (dbuf d) in
  ref_varint_len p <> None ->
  N.of_nat (length p) < N.of_nat (ref_vlen p) + ref_vval p mod 2^64 ->
  is_err (dstep nested d op) = true.
Proof.
  intros nested d op HI Hok Hl p Hsome Hov. subst p.
  destruct op; cbn [has_len] in Hl; try discriminate Hl; cbn [dstep]; rewrite is_err_dmap.
  - pose proof (dec_bytes_spec d HI) as Hs. destruct (dec_bytes d) as [a d1|d1|]; [|reflexivity|contradiction].
    exfalso. destruct Hs as (l & n & Hlp & _). eapply lenpref_overrun; eassumption.
  - pose proof (dec_bytes_spec d HI) as Hs. destruct (dec_bytes d) as [a d1|d1|]; [|reflexivity|contradiction].
    exfalso. destruct Hs as (l & n & Hlp & _). eapply lenpref_overrun; eassumption.
  - pose proof (dec_nested_spec nested d HI) as Hs.
    destruct (dec_nested nested d) as [a d1|d1|]; [|reflexivity|contradiction].
    exfalso. destruct Hs as (l & n & Hlp & _). eapply lenpref_overrun; eassumption.
  - apply Z.eqb_eq in Hl; subst wt. pose proof (dec_skip_spec d tag 2 HI) as Hs.
    destruct (dec_skip d tag 2) as [a d1|d1|]; [|reflexivity|contradiction].
    unfold skip_post in Hs. destruct Hs as (sk & _ & _ & _ & Hit).
    destruct Hit as [[Hc _]|[[Hc _]|[[Hc _]|[_ (l & n & Hlp & _)]]]]; try discriminate Hc.
    exfalso. eapply lenpref_overrun; eassumption.
Qed.

Lemma nested_not_consulted : forall n1 n2 d,
  Inv d -> is_err (dec_nested n1 d) = true -> (forall b, n1 b = true) -> dec_nested n2 d = dec_nested n1 d.
Proof.
  intros n1 n2 d HI He Hn1. unfold dec_nested in *. destruct (at_eof d); [reflexivity|].
  unfold go_from in *. destruct (length (dbuf d) <? doff d)%nat; [reflexivity|].
  destruct (dec_varint (skipn (doff d) (dbuf d))) as [[l n]|e]; [|reflexivity].
  destruct (max_len <? l); [reflexivity|].
  destruct (N.of_nat (length (dbuf d)) <? N.of_nat (doff d + n) + l); [reflexivity|].
  cbv zeta in *. unfold go_sub in *.
  match goal with |- context [if ?c then _ else DPanic] => destruct c end; [|reflexivity].
  rewrite Hn1 in He. cbn [is_err] in He. discriminate He.
Qed.

(* ------------------------------------------------------------------------------------------ *)
(* E. memory bounds of the packed readers *)

Lemma reserve_bound : forall d k, Inv d -> dec_packed_reserve d k <= N.of_nat (length (dbuf d) - doff d).
Proof.
  intros d k HI. unfold dec_packed_reserve. destruct (at_eof d); [lia|].
  destruct (dec_varint (skipn (doff d) (dbuf d))) as [[l n]|e]; [|lia].
  destruct k; try lia.
  destruct (N.ltb_spec (N.of_nat (length (dbuf d) - (doff d + n))) l) as [Hlt|Hge]; [lia|].
  unfold packed_reserve.
  pose proof (N.div_mod' l 4) as Hdm. pose proof (N.mod_lt l 4 ltac:(lia)) as Hr.
  set (q := l / 4) in *. set (r := l mod 4) in *. lia.
Qed.

Lemma alloc_bound : forall d k l d',
  Inv d -> dec_packed d k = DOk l d' ->
  (length l <= doff d' - doff d)%nat /\ dec_packed_reserve d k <= N.of_nat (length (dbuf d) - doff d).
Proof.
  intros d k l d' HI H. split; [|apply reserve_bound; exact HI].
  pose proof (dec_packed_spec d k HI) as Hs. rewrite H in Hs.
  destruct Hs as (l0 & n & _ & _ & _ & Hlen & _). lia.
Qed.

Print Assumptions step_no_panic.
Print Assumptions step_inv.
Print Assumptions run_safe.
Print Assumptions exact_advance.
Print Assumptions skip_slice.
Print Assumptions length_overrun_is_error.
Print Assumptions nested_not_consulted.
Print Assumptions alloc_bound.
Print Assumptions reserve_bound.
