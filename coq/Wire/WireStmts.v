(* Shared vocabulary for the wire-codec property statements (C01 C02 C03 C19): definitions only. *)
From CsProto Require Import Prelude Varint ZigZag Codec RefWire.
Local Open Scope N_scope.

Definition tag_ok (tag : N) : Prop := 1 <= tag <= max_tag.
(* what a caller may hand to an encoder method: a valid field number, values in the Go type's
   domain, byte values < 256, lengths that fit Go's int *)
Definition op_ok (op : eop) : Prop :=
  match op with
  | EScalar k tag v => tag_ok tag /\ in_dom k v = true
  | EBytes tag b => tag_ok tag /\ N.of_nat (length b) < 2^63
  | EPacked k tag vs => tag_ok tag /\ Forall (fun v => in_dom k v = true) vs /\ N.of_nat (packed_len k vs) < 2^63
  | ERaw b => True
  | EMapHeader tag size => tag_ok tag /\ size < 2^63
  end.

Definition mk (b : list byte) (off : nat) (fast : bool) : decoder := {| dbuf := b; doff := off; dfast := fast |}.
Definition Inv (d : decoder) : Prop := (doff d <= length (dbuf d))%nat.

(* the encoded length of the item a successful decoder call consumed, found independently of the
   model by the reference reader [ref_varint_len]: p is the input from the cursor on *)
Definition ref_vlen (p : list byte) : nat := match ref_varint_len p with Some n => n | None => 0 end.
Definition ref_vval (p : list byte) : N := match ref_varint_val p with Some v => v | None => 0 end.
Definition item_len (p : list byte) (op : dop) : nat :=
  match op with
  | DTag => ref_vlen p
  | DScalar k => if is_varint_kind k then ref_vlen p else width_of k
  | DBytes | DString | DNested | DPacked _ => ref_vlen p + N.to_nat (ref_vval p mod 2^64)
  | DSkip _ wt =>
      if (wt =? 0)%Z then ref_vlen p else if (wt =? 1)%Z then 8 else if (wt =? 5)%Z then 4
      else ref_vlen p + N.to_nat (ref_vval p mod 2^64)
  | _ => 0
  end%nat.
Definition is_read (op : dop) : bool :=
  match op with DSeek _ _ | DReset | DSetMode _ => false | _ => true end.
(* ops whose item carries a declared length *)
Definition has_len (op : dop) : bool :=
  match op with DBytes | DString | DNested => true | DSkip _ wt => (wt =? 2)%Z | _ => false end.
Definition is_err {A} (r : dres A) : bool := match r with DErr _ => true | _ => false end.

(* the DecodeTag; Skip loop of C02_skip_fields *)
Fixpoint skip_all (fuel : nat) (d : decoder) (acc : list (list byte)) : dres (list (list byte)) :=
  match fuel with
  | O => DErr d
  | S f =>
    if at_eof d then DOk (rev acc) d else
    match dec_tag d with
    | DOk (tag, wt) d1 =>
        match dec_skip d1 (Z.of_N tag) (Z.of_N wt) with
        | DOk raw d2 => skip_all f d2 (raw :: acc)
        | DErr d2 => DErr d2 | DPanic => DPanic
        end
    | DErr d1 => DErr d1 | DPanic => DPanic
    end
  end.
