From Coq Require Import List NArith ZArith Lia Bool.
From Coq Require Import ZifyN ZifyNat ZifyBool.
Require Import Varint VarintProof VarintSize.
Import ListNotations.
Local Open Scope N_scope.

(* ---------- decoder model (fast mode Skip; DecodeTag with the field-number limit applied to v>>3) ---------- *)
Inductive outcome (A : Type) := Ok (a : A) | Err | Panic.
Arguments Ok {A} a. Arguments Err {A}. Arguments Panic {A}.

Record dec := { buf : list byte; off : nat }.
Definition rest (d : dec) : list byte := skipn (off d) (buf d).
Definition adv (d : dec) (n : nat) : dec := {| buf := buf d; off := (off d + n)%nat |}.
Definition max_tag : N := 536870911.

Definition dec_tag (d : dec) : outcome (N * N * dec) :=
  if (length (buf d) <=? off d)%nat then Err else
  match dec_varint (rest d) with
  | inr _ => Err
  | inl (v, n) =>
      if (v <? 1) || (max_tag <? N.shiftr v 3) then Err
      else Ok (N.shiftr v 3, N.land v 7, adv d n)
  end.

Definition size_key (tag : N) : nat := size_of_varint (N.shiftl tag 3 mod 2^64).

(* Skip, fast mode: returns the raw slice [bof, newoff) *)
Definition slice (l : list byte) (lo hi : nat) : list byte := firstn (hi - lo) (skipn lo l).
Definition skip (d : dec) (tag wt : N) : outcome (list byte * dec) :=
  if (length (buf d) <=? off d)%nat then Err else
  let bof := (off d - size_key tag)%nat in
  let fin (skipped : nat) :=
      if (length (buf d) <? off d + skipped)%nat then Err
      else Ok (slice (buf d) bof (off d + skipped), adv d skipped) in
  if wt =? 0 then match dec_varint (rest d) with inr _ => Err | inl (_, n) => fin n end
  else if wt =? 1 then fin 8%nat
  else if wt =? 5 then fin 4%nat
  else if wt =? 2 then
    match dec_varint (rest d) with
    | inr _ => Err
    | inl (l, n) => if 2147483647 <? l then Err
                    (* bound check in N *before* any N.to_nat: a hostile length must never become a unary nat *)
                    else if N.of_nat (length (buf d)) <? N.of_nat (off d + n) + l then Err
                    else fin (n + N.to_nat l)%nat
    end
  else Err.

Fixpoint skip_all (fuel : nat) (d : dec) (acc : list (list byte)) : outcome (list (list byte) * dec) :=
  match fuel with
  | O => Err
  | S f =>
    if (length (buf d) <=? off d)%nat then Ok (rev acc, d) else
    match dec_tag d with
    | Ok (tag, wt, d1) =>
        match skip d1 tag wt with
        | Ok (raw, d2) => skip_all f d2 (raw :: acc)
        | Err => Err | Panic => Panic
        end
    | Err => Err | Panic => Panic
    end
  end.

(* ---------- reference fields ---------- *)
Inductive rfield :=
| RVarint (num v : N) | RFixed64 (num : N) (b : list byte) | RFixed32 (num : N) (b : list byte) | RLen (num : N) (b : list byte).
Definition rnum f := match f with RVarint n _ | RFixed64 n _ | RFixed32 n _ | RLen n _ => n end.
Definition rwt f := match f with RVarint _ _ => 0 | RFixed64 _ _ => 1 | RFixed32 _ _ => 5 | RLen _ _ => 2 end.
Definition rpayload f : list byte :=
  match f with
  | RVarint _ v => enc_varint v
  | RFixed64 _ b | RFixed32 _ b => b
  | RLen _ b => enc_varint (N.of_nat (length b)) ++ b
  end.
Definition renc f : list byte := enc_varint (rnum f * 8 + rwt f) ++ rpayload f.
Definition wf f : Prop :=
  1 <= rnum f <= max_tag /\
  match f with
  | RVarint _ v => v < 2^64
  | RFixed64 _ b => length b = 8%nat
  | RFixed32 _ b => length b = 4%nat
  | RLen _ b => N.of_nat (length b) <= 2147483647
  end.

(* ---------- key arithmetic ---------- *)
Lemma key_facts num wt : 1 <= num <= max_tag -> wt < 8 ->
  let k := num * 8 + wt in
  k < 2^64 /\ N.shiftr k 3 = num /\ N.land k 7 = wt /\ 1 <= k.
Proof.
  intros Hn Hw k. unfold max_tag in Hn. subst k. repeat split.
  - lia.
  - rewrite N.shiftr_div_pow2. change (2^3) with 8.
    rewrite N.div_add_l by lia. rewrite N.div_small by lia. lia.
  - change 7 with (N.ones 3). rewrite N.land_ones. change (2^3) with 8.
    rewrite N.add_comm, N.mod_add by lia. apply N.mod_small; lia.
  - lia.
Qed.

Lemma log2_key num wt : 1 <= num -> wt < 8 -> N.log2 (num * 8 + wt) = N.log2 num + 3.
Proof.
  intros Hn Hw.
  destruct (N.log2_spec num ltac:(lia)) as [Hlo Hhi].
  assert (Hs : 2 ^ N.succ (N.log2 num) = 2 * 2 ^ N.log2 num) by (rewrite N.pow_succ_r'; reflexivity).
  rewrite Hs in Hhi.
  assert (Hp : 2 ^ (N.log2 num + 3) = 2 ^ N.log2 num * 8) by (rewrite N.pow_add_r; reflexivity).
  apply N.log2_unique' with (c := num * 8 + wt - 2 ^ (N.log2 num + 3)).
  - lia.
  - rewrite Hp. set (P := 2 ^ N.log2 num) in *. lia.
  - rewrite Hp. set (P := 2 ^ N.log2 num) in *. lia.
Qed.

Lemma size_key_len num wt : 1 <= num <= max_tag -> wt < 8 ->
  size_key num = length (enc_varint (num * 8 + wt)).
Proof.
  intros Hn Hw. destruct (key_facts num wt Hn Hw) as (Hk & _ & _ & Hk1).
  rewrite enc_varint_size by exact Hk.
  unfold size_key, size_of_varint. f_equal. f_equal. f_equal.
  rewrite N.shiftl_mul_pow2. change (2^3) with 8.
  unfold max_tag in Hn. rewrite N.mod_small by lia.
  rewrite !size_lor1 by lia. rewrite !N.size_log2 by lia. f_equal.
  rewrite (log2_key num wt) by lia.
  replace (num * 8) with (num * 8 + 0) by lia. rewrite (log2_key num 0) by lia. reflexivity.
Qed.

(* ---------- list plumbing ---------- *)
Lemma rest_at pre x : rest {| buf := pre ++ x; off := length pre |} = x.
Proof. unfold rest; cbn [buf off]. rewrite skipn_app, skipn_all, Nat.sub_diag. reflexivity. Qed.

Lemma slice_mid (pre x post : list byte) :
  slice (pre ++ x ++ post) (length pre) (length pre + length x) = x.
Proof.
  unfold slice. rewrite skipn_app, skipn_all, Nat.sub_diag. cbn [skipn app].
  replace (length pre + length x - length pre)%nat with (length x) by lia.
  rewrite firstn_app, firstn_all, Nat.sub_diag. cbn [firstn]. apply app_nil_r.
Qed.

Lemma wt_lt8 f : rwt f < 8. Proof. destruct f; cbn; lia. Qed.

(* one field: DecodeTag then Skip returns exactly the raw encoding and lands on the next field *)
Lemma payload_nonempty f : wf f -> (1 <= length (rpayload f) \/ True)%nat.
Proof. intros _. right. exact I. Qed.

Lemma step_field f pre post : wf f ->
  let B := pre ++ renc f ++ post in
  exists n1, dec_tag {| buf := B; off := length pre |} = Ok (rnum f, rwt f, {| buf := B; off := (length pre + n1)%nat |}) /\
  (length pre + n1 < length B \/ rpayload f = [] /\ post = [])%nat /\
  (length pre + n1 < length B ->
   skip {| buf := B; off := (length pre + n1)%nat |} (rnum f) (rwt f)
     = Ok (renc f, {| buf := B; off := (length pre + length (renc f))%nat |}))%nat.
Proof.
  intros [Hn Hpay] B.
  pose proof (wt_lt8 f) as Hw.
  destruct (key_facts (rnum f) (rwt f) Hn Hw) as (Hk & Hsh & Hland & Hk1).
  set (k := rnum f * 8 + rwt f) in *.
  set (kb := enc_varint k).
  assert (Hkb : (1 <= length kb)%nat) by (unfold kb, enc_varint; apply enc_len_bounds).
  assert (Hrenc : renc f = kb ++ rpayload f) by reflexivity.
  assert (HlenB : length B = (length pre + (length kb + length (rpayload f)) + length post)%nat).
  { unfold B. rewrite Hrenc, !app_length. lia. }
  assert (Hsk : size_key (rnum f) = length kb) by (apply size_key_len; assumption).
  exists (length kb). split; [|split].
  - unfold dec_tag, rest, adv. cbn [buf off].
    destruct (Nat.leb_spec (length B) (length pre)) as [Hc|_]; [lia|].
    unfold B. rewrite skipn_app, skipn_all, Nat.sub_diag. cbn [skipn app].
    rewrite Hrenc, <- app_assoc. unfold kb. rewrite dec_enc_varint by exact Hk. rewrite Hsh, Hland.
    destruct (N.ltb_spec k 1); [lia|]. destruct (N.ltb_spec max_tag (rnum f)); [lia|]. reflexivity.
  - destruct (rpayload f) eqn:Hp; destruct post; cbn [length] in *; try lia. right; split; reflexivity.
  - intros Hmore.
    assert (Hrest : skipn (length pre + length kb) B = rpayload f ++ post).
    { unfold B. rewrite Hrenc.
      replace (pre ++ (kb ++ rpayload f) ++ post) with ((pre ++ kb) ++ (rpayload f ++ post))
        by (rewrite <- !app_assoc; reflexivity).
      replace (length pre + length kb)%nat with (length (pre ++ kb)) by (rewrite app_length; reflexivity).
      rewrite skipn_app, skipn_all, Nat.sub_diag. reflexivity. }
    assert (Hfin : forall plen, plen = length (rpayload f) ->
      (if (length B <? length pre + length kb + plen)%nat then Err
       else Ok (slice B (length pre + length kb - size_key (rnum f)) (length pre + length kb + plen),
                {| buf := B; off := (length pre + length kb + plen)%nat |}))
      = Ok (renc f, {| buf := B; off := (length pre + length (renc f))%nat |})).
    { intros plen ->.
      destruct (Nat.ltb_spec (length B) (length pre + length kb + length (rpayload f))) as [Hc|_]; [lia|].
      rewrite Hsk.
      replace (length pre + length kb - length kb)%nat with (length pre) by lia.
      replace (length pre + length kb + length (rpayload f))%nat with (length pre + length (renc f))%nat
        by (rewrite Hrenc, app_length; lia).
      unfold B. rewrite slice_mid. reflexivity. }
    unfold skip, rest, adv. cbn [buf off].
    destruct (Nat.leb_spec (length B) (length pre + length kb)) as [Hc|_]; [lia|].
    rewrite Hrest.
    destruct f as [num v|num b|num b|num b]; cbn [rwt rpayload wf] in *.
    + cbn [N.eqb]. rewrite dec_enc_varint by exact Hpay. apply Hfin. reflexivity.
    + cbn [N.eqb]. apply Hfin. symmetry; exact Hpay.
    + cbn [N.eqb]. apply Hfin. symmetry; exact Hpay.
    + cbn [N.eqb]. rewrite <- app_assoc, dec_enc_varint by lia.
      destruct (N.ltb_spec 2147483647 (N.of_nat (length b))); [lia|].
      match goal with |- context [N.ltb ?a ?b] => destruct (N.ltb_spec a b) as [Hc2|_] end.
      { exfalso. rewrite app_length in HlenB. lia. }
      rewrite Nat2N.id. apply Hfin. rewrite app_length. reflexivity.
Qed.

Lemma payload_pos f : wf f -> (1 <= length (rpayload f))%nat.
Proof.
  intros [_ H]. destruct f; cbn [rpayload wf] in *; rewrite ?app_length; try lia.
  - unfold enc_varint. pose proof (enc_len_bounds 10 v). lia.
  - unfold enc_varint. pose proof (enc_len_bounds 10 (N.of_nat (length b))). lia.
Qed.

(* C02(c) / C07 / C13 core: iterating DecodeTag;Skip over a concatenation of well-formed fields returns
   exactly their raw encodings, in order, and ends exactly at the end of the input *)
Theorem skip_all_fields : forall fs pre acc fuel,
  Forall wf fs -> (length fs < fuel)%nat ->
  skip_all fuel {| buf := pre ++ concat (map renc fs); off := length pre |} acc
  = Ok (rev acc ++ map renc fs,
        {| buf := pre ++ concat (map renc fs); off := length (pre ++ concat (map renc fs)) |}).
Proof.
  induction fs as [|f fs IH]; intros pre acc fuel Hwf Hfuel.
  - destruct fuel as [|fuel]; [cbn in Hfuel; lia|]. cbn [map concat skip_all buf off].
    rewrite !app_nil_r. destruct (Nat.leb_spec (length pre) (length pre)); [reflexivity|lia].
  - destruct fuel as [|fuel]; [cbn in Hfuel; lia|].
    inversion Hwf as [|? ? Hf Hfs]; subst.
    cbn [map concat]. set (post := concat (map renc fs)).
    destruct (step_field f pre post Hf) as (n1 & Htag & Hmore & Hskip).
    cbn [skip_all buf off].
    pose proof (payload_pos f Hf) as Hpp.
    assert (Hlen : length (pre ++ renc f ++ post) = (length pre + length (renc f) + length post)%nat)
      by (rewrite !app_length; lia).
    assert (Hrl : (2 <= length (renc f))%nat).
    { unfold renc. rewrite app_length. unfold enc_varint at 1. pose proof (enc_len_bounds 10 (rnum f * 8 + rwt f)). lia. }
    destruct (Nat.leb_spec (length (pre ++ renc f ++ post)) (length pre)) as [Hc|_]; [lia|].
    rewrite Htag.
    destruct Hmore as [Hmore|[He _]]; [|rewrite He in Hpp; cbn in Hpp; lia].
    rewrite (Hskip Hmore).
    replace (pre ++ renc f ++ post) with ((pre ++ renc f) ++ post) by (rewrite <- app_assoc; reflexivity).
    replace (length pre + length (renc f))%nat with (length (pre ++ renc f)) by (rewrite app_length; reflexivity).
    unfold post. rewrite IH; [|exact Hfs|cbn [length] in Hfuel; lia].
    cbn [rev]. rewrite <- app_assoc. reflexivity.
Qed.

Corollary skip_all_concat fs : Forall wf fs ->
  exists d, skip_all (S (length fs)) {| buf := concat (map renc fs); off := 0 |} [] = Ok (map renc fs, d)
            /\ off d = length (buf d) /\ concat (map renc fs) = buf d.
Proof.
  intros H. eexists. split.
  - apply (skip_all_fields fs [] [] (S (length fs)) H). lia.
  - cbn [buf off app]. split; reflexivity.
Qed.
Print Assumptions skip_all_concat.
