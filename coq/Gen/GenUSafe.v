(* C06 C07 C08 C10 C17u: the generated Unmarshal never panics, copies in safe mode, keeps the unknown
   fields within the input, and does not look at its destination -- proofs. *)
From CsProto Require Import Prelude Varint ZigZag Codec RefWire WireStmts CodecBase SafeProofs Schema GenMarshal RefMsg GenStmts GenUnmarshal.
Local Open Scope N_scope.

(* ------------------------------------------------------------------------------------------ *)
(* A. decoder steps keep the buffer and the mode, and only move forward *)

Definition good (d0 d : decoder) : Prop :=
  Inv d /\ dbuf d = dbuf d0 /\ dfast d = dfast d0 /\ (doff d0 <= doff d)%nat.

Lemma good_refl d : Inv d -> good d d.
Proof. intros HI. unfold good. repeat split; [exact HI|lia]. Qed.

Lemma good_trans a b c : good a b -> good b c -> good a c.
Proof.
  intros (H1 & H2 & H3 & H4) (G1 & G2 & G3 & G4). unfold good.
  repeat split; [exact G1|congruence|congruence|lia].
Qed.

Lemma good_dadv d n : Inv d -> (n <= length (dbuf d) - doff d)%nat -> good d (dadv d n).
Proof.
  intros HI Hn. unfold good, Inv, dadv in *; cbn [dbuf doff dfast]. repeat split; lia.
Qed.

Definition dgood {A} (d : decoder) (r : dres A) : Prop :=
  match r with DOk _ d' => good d d' | DErr _ => True | DPanic => False end.

Lemma dec_tag_good d : Inv d -> dgood d (dec_tag d).
Proof.
  intros HI. pose proof (dec_tag_spec d HI) as H. destruct (dec_tag d) as [a d'|d'|]; unfold dgood.
  - destruct H as (v & n & E & ->). apply good_dadv; [exact HI|].
    apply dec_varint_len in E. rewrite skipn_length in E. lia.
  - exact I.
  - exact H.
Qed.

Lemma dec_scalar_good d k : Inv d -> dgood d (dec_scalar d k).
Proof.
  intros HI. pose proof (dec_scalar_spec d k HI) as H. destruct (dec_scalar d k) as [a d'|d'|]; unfold dgood.
  - destruct H as (n & -> & Hn & _). apply good_dadv; [exact HI|lia].
  - exact I.
  - exact H.
Qed.

Lemma dec_bytes_good d : Inv d -> dgood d (dec_bytes d).
Proof.
  intros HI. pose proof (dec_bytes_spec d HI) as H. destruct (dec_bytes d) as [a d'|d'|]; unfold dgood.
  - destruct H as (l & n & Hlp & ->). apply good_dadv; [exact HI|]. apply lenpref_bound; assumption.
  - exact I.
  - exact H.
Qed.

Lemma dec_nested_good nested d : Inv d -> dgood d (dec_nested nested d).
Proof.
  intros HI. pose proof (dec_nested_spec nested d HI) as H.
  destruct (dec_nested nested d) as [a d'|d'|]; unfold dgood.
  - destruct H as (l & n & Hlp & ->). apply good_dadv; [exact HI|]. apply lenpref_bound; assumption.
  - exact I.
  - exact H.
Qed.

Lemma dec_skip_good d tag wt : Inv d -> dgood d (dec_skip d tag wt).
Proof.
  intros HI. pose proof (dec_skip_spec d tag wt HI) as H.
  destruct (dec_skip d tag wt) as [a d'|d'|]; unfold dgood; unfold skip_post in H.
  - destruct H as (sk & -> & _ & Hb & _). apply good_dadv; [exact HI|]. unfold Inv in HI. lia.
  - exact I.
  - exact H.
Qed.

Lemma packed_loop_fast : forall fuel k l d nread acc res d',
  packed_loop fuel k l d nread acc = DOk res d' -> dfast d' = dfast d.
Proof.
  induction fuel as [|f IH]; intros k l d nread acc res d' H.
  - cbn [packed_loop] in H. destruct (nread <? l); [discriminate H|].
    destruct (nread =? l); [|discriminate H]. inversion H; subst. reflexivity.
  - rewrite packed_loop_S in H. destruct (nread <? l).
    + destruct (_ && at_eof d); [discriminate H|].
      unfold go_from in H. destruct (length (dbuf d) <? doff d)%nat; [discriminate H|].
      match type of H with context [read_elem k d _ ?kont] =>
        destruct (read_elem_cases k d kont) as [E|(z & n & E & Hn & Hk)]; rewrite E in H; cbv beta iota in H end.
      * discriminate H.
      * apply IH in H. rewrite H. reflexivity.
    + destruct (nread =? l); [|discriminate H]. inversion H; subst. reflexivity.
Qed.

Lemma dec_packed_fast d k res d' : dec_packed d k = DOk res d' -> dfast d' = dfast d.
Proof.
  unfold dec_packed. destruct (at_eof d); [intros H; discriminate H|].
  unfold go_from. destruct (length (dbuf d) <? doff d)%nat; [intros H; discriminate H|].
  destruct (dec_varint (skipn (doff d) (dbuf d))) as [[l n]|e]; [|intros H; discriminate H].
  cbv zeta.
  assert (Hloop : forall fuel, packed_loop fuel k l (dadv d n) 0 [] = DOk res d' -> dfast d' = dfast d).
  { intros fuel H. apply packed_loop_fast in H. rewrite H. reflexivity. }
  destruct k; try apply Hloop.
  destruct (N.of_nat (length (dbuf (dadv d n)) - doff (dadv d n)) <? l); [intros H; discriminate H|apply Hloop].
Qed.

Lemma dec_packed_good d k : Inv d -> dgood d (dec_packed d k).
Proof.
  intros HI. pose proof (dec_packed_spec d k HI) as H.
  destruct (dec_packed d k) as [a d'|d'|] eqn:E; unfold dgood.
  - destruct H as (l & n & _ & H1 & H2 & H3 & _). apply dec_packed_fast in E.
    unfold good. repeat split; [exact H1|exact H2|exact E|lia].
  - exact I.
  - exact H.
Qed.

(* ------------------------------------------------------------------------------------------ *)
(* B. the loops of the generated Unmarshal, for any nested Unmarshal that does not panic *)

Definition lgood {A} (d : decoder) (r : lstep A) : Prop :=
  match r with LGo _ d' => good d d' | LStop r => r = UErr end.

Lemma of_dres_good {A} d (r : dres A) : dgood d r -> lgood d (of_dres r).
Proof.
  destruct r as [a d'|d'|]; unfold dgood, lgood; cbn [of_dres]; intros H.
  - exact H.
  - reflexivity.
  - contradiction.
Qed.

Section Loops.
Variable um : nat -> list byte -> ures.
(* [Q]: "the nested Unmarshal runs in safe mode" *)
Variable Q : Prop.
Hypothesis Hnp : forall ty b, um ty b <> UPanic.
Hypothesis Hal : Q -> forall ty b v al, um ty b = UOk v al -> al = false.

(* result flag [a] of a loop step started at d with accumulated flag [al] *)
Definition flag_ok (d : decoder) (al a : bool) : Prop := Q -> dfast d = false -> al = false -> a = false.

Definition rv_post (d : decoder) (r : lstep (gval * bool)) : Prop :=
  match r with
  | LGo x d' => good d d' /\ flag_ok d false (snd x)
  | LStop r => r = UErr
  end.

Lemma of_dres_rv {A} d (r : dres A) (f : A -> gval * bool) :
  dgood d r -> (forall a, flag_ok d false (snd (f a))) ->
  rv_post d (match of_dres r with LGo a d' => LGo (f a) d' | LStop r => LStop r end).
Proof.
  intros H Hf. destruct r as [a d'|d'|]; unfold dgood in H; cbn [of_dres]; unfold rv_post.
  - split; [exact H|apply Hf].
  - reflexivity.
  - contradiction.
Qed.

Lemma read_value_post k wt d : Inv d -> rv_post d (read_value um k wt d).
Proof.
  intros HI. destruct k as [s| | | |ty].
  - unfold read_value, num_skind, is_num_kind.
    destruct (negb (wt =? wt_of s)); [unfold rv_post; reflexivity|].
    apply (of_dres_rv d (dec_scalar d s) (fun z => (GNum z, false))).
    + apply dec_scalar_good; exact HI.
    + intros a _ _ _. reflexivity.
  - unfold read_value, num_skind, is_num_kind.
    destruct (negb (wt =? wt_of KInt32)); [unfold rv_post; reflexivity|].
    apply (of_dres_rv d (dec_scalar d KInt32) (fun z => (GNum z, false))).
    + apply dec_scalar_good; exact HI.
    + intros a _ _ _. reflexivity.
  - unfold read_value.
    destruct (negb (wt =? 2)); [unfold rv_post; reflexivity|].
    apply (of_dres_rv d (dec_bytes d) (fun b => (GBytes b, dfast d))).
    + apply dec_bytes_good; exact HI.
    + intros a _ Hf _. exact Hf.
  - unfold read_value.
    destruct (negb (wt =? 2)); [unfold rv_post; reflexivity|].
    apply (of_dres_rv d (dec_bytes d) (fun b => (GBytes b, dfast d))).
    + apply dec_bytes_good; exact HI.
    + intros a _ Hf _. exact Hf.
  - unfold read_value.
    destruct (negb (wt =? 2)); [unfold rv_post; reflexivity|].
    match goal with |- context [dec_nested ?nf d] =>
      pose proof (dec_nested_good nf d HI) as Hg; destruct (dec_nested nf d) as [b d'|d'|] end;
      unfold dgood in Hg.
    + destruct (um ty b) as [v al| |] eqn:Eu; unfold rv_post.
      * split; [exact Hg|]. intros HQ _ _. cbn [snd]. eapply Hal; eassumption.
      * reflexivity.
      * exfalso. exact (Hnp ty b Eu).
    + destruct (dec_bytes _) as [b d2|d2|]; unfold rv_post; try reflexivity.
      destruct (um ty b) as [v al| |] eqn:Eu; try reflexivity.
      exfalso. exact (Hnp ty b Eu).
    + contradiction.
Qed.

Definition el_post (d : decoder) (al : bool) (r : lstep (option gval * option gval * bool)) : Prop :=
  match r with
  | LGo x d' => good d d' /\ flag_ok d al (snd x)
  | LStop r => r = UErr
  end.

Lemma flag_or d d1 al a a' :
  dfast d1 = dfast d -> flag_ok d1 false a -> flag_ok d1 (al || a) a' -> flag_ok d al a'.
Proof.
  unfold flag_ok. intros Hf H1 H2 HQ Hd Hl. rewrite <- Hf in Hd.
  apply H2; [exact HQ|exact Hd|]. rewrite Hl, (H1 HQ Hd eq_refl). reflexivity.
Qed.

Lemma flag_mono d d1 al a : dfast d1 = dfast d -> flag_ok d1 al a -> flag_ok d al a.
Proof. unfold flag_ok. intros Hf H HQ Hd Hl. rewrite <- Hf in Hd. apply H; assumption. Qed.

Lemma entry_loop_post : forall fuel kk vk stop d key val al,
  Inv d -> el_post d al (entry_loop um fuel kk vk stop d key val al).
Proof.
  induction fuel as [|f IH]; intros kk vk stop d key val al HI.
  - cbn [entry_loop]. unfold el_post. reflexivity.
  - cbn [entry_loop]. destruct (doff d <? stop)%nat.
    2:{ unfold el_post. split; [apply good_refl; exact HI|]. cbn [snd]. intros _ _ Hl. exact Hl. }
    pose proof (dec_tag_good d HI) as Ht. destruct (dec_tag d) as [[tag wt] d1|d1|]; cbn [of_dres]; unfold dgood in Ht.
    2:{ unfold el_post. reflexivity. }
    2:{ contradiction. }
    assert (HI1 : Inv d1) by (destruct Ht as [Hx _]; exact Hx).
    assert (Hf1 : dfast d1 = dfast d) by (destruct Ht as (_ & _ & Hx & _); exact Hx).
    destruct (tag =? 1).
    { pose proof (read_value_post kk wt d1 HI1) as Hv.
      destruct (read_value um kk wt d1) as [[v a] d2|r]; unfold rv_post in Hv; [|exact Hv].
      destruct Hv as [Hg2 Ha]. cbn [snd] in Ha.
      assert (HI2 : Inv d2) by (destruct Hg2 as [Hx _]; exact Hx).
      assert (Hf2 : dfast d2 = dfast d1) by (destruct Hg2 as (_ & _ & Hx & _); exact Hx).
      pose proof (IH kk vk stop d2 (Some v) val (al || a) HI2) as Hr.
      destruct (entry_loop um f kk vk stop d2 (Some v) val (al || a)) as [x d3|r]; unfold el_post in *; [|exact Hr].
      destruct Hr as [Hg3 Hfl]. split; [exact (good_trans _ _ _ Ht (good_trans _ _ _ Hg2 Hg3))|].
      apply (flag_or d d1 al a); [exact Hf1|exact Ha|]. apply (flag_mono d1 d2); assumption. }
    destruct (tag =? 2).
    { pose proof (read_value_post vk wt d1 HI1) as Hv.
      destruct (read_value um vk wt d1) as [[v a] d2|r]; unfold rv_post in Hv; [|exact Hv].
      destruct Hv as [Hg2 Ha]. cbn [snd] in Ha.
      assert (HI2 : Inv d2) by (destruct Hg2 as [Hx _]; exact Hx).
      assert (Hf2 : dfast d2 = dfast d1) by (destruct Hg2 as (_ & _ & Hx & _); exact Hx).
      pose proof (IH kk vk stop d2 key (Some v) (al || a) HI2) as Hr.
      destruct (entry_loop um f kk vk stop d2 key (Some v) (al || a)) as [x d3|r]; unfold el_post in *; [|exact Hr].
      destruct Hr as [Hg3 Hfl]. split; [exact (good_trans _ _ _ Ht (good_trans _ _ _ Hg2 Hg3))|].
      apply (flag_or d d1 al a); [exact Hf1|exact Ha|]. apply (flag_mono d1 d2); assumption. }
    pose proof (dec_skip_good d1 (Z.of_N tag) (Z.of_N wt) HI1) as Hs.
    destruct (dec_skip d1 (Z.of_N tag) (Z.of_N wt)) as [raw d2|d2|]; cbn [of_dres]; unfold dgood in Hs.
    2:{ unfold el_post. reflexivity. }
    2:{ contradiction. }
    assert (HI2 : Inv d2) by (destruct Hs as [Hx _]; exact Hx).
    assert (Hf2 : dfast d2 = dfast d1) by (destruct Hs as (_ & _ & Hx & _); exact Hx).
    pose proof (IH kk vk stop d2 key val al HI2) as Hr.
    destruct (entry_loop um f kk vk stop d2 key val al) as [x d3|r]; unfold el_post in *; [|exact Hr].
    destruct Hr as [Hg3 Hfl]. split; [exact (good_trans _ _ _ Ht (good_trans _ _ _ Hs Hg3))|].
    apply (flag_mono d d2); [congruence|exact Hfl].
Qed.

Definition rf_post (d : decoder) (r : lstep (list (N * gval) * bool)) : Prop :=
  match r with
  | LGo x d' => good d d' /\ flag_ok d false (snd x)
  | LStop r => r = UErr
  end.

Lemma rv_rf d (r : lstep (gval * bool)) (f : gval -> list (N * gval)) :
  rv_post d r ->
  rf_post d (match r with LGo (v, a) d' => LGo (f v, a) d' | LStop r => LStop r end).
Proof.
  destruct r as [[v a] d'|r]; unfold rv_post, rf_post; cbn [snd]; intros H; exact H.
Qed.

Lemma of_dres_rf {A} d (r : dres A) (f : A -> list (N * gval)) :
  dgood d r ->
  rf_post d (match of_dres r with LGo a d' => LGo (f a, false) d' | LStop r => LStop r end).
Proof.
  intros H. destruct r as [a d'|d'|]; unfold dgood in H; cbn [of_dres]; unfold rf_post.
  - split; [exact H|]. cbn [snd]. intros _ _ _. reflexivity.
  - reflexivity.
  - contradiction.
Qed.

Lemma read_field_post md fd wt d fs : Inv d -> rf_post d (read_field um md fd wt d fs).
Proof.
  intros HI. unfold read_field. cbv zeta.
  destruct (fcard_ fd) as [ | | | | |g|kk vk].
  - apply (rv_rf d _ (fun v => set_field (fnum fd) v fs)). apply read_value_post; exact HI.
  - apply (rv_rf d _ (fun v => set_field (fnum fd) v fs)). apply read_value_post; exact HI.
  - apply (rv_rf d _ (fun v => set_field (fnum fd) v fs)). apply read_value_post; exact HI.
  - destruct (num_skind (fkind_ fd)) as [s|].
    + destruct (wt =? wt_of s).
      * apply (of_dres_rf d (dec_scalar d s)). apply dec_scalar_good; exact HI.
      * destruct (wt =? 2); [|unfold rf_post; reflexivity].
        apply (of_dres_rf d (dec_packed d s)). apply dec_packed_good; exact HI.
    + match goal with |- context [GList (?cur ++ _)] =>
        apply (rv_rf d _ (fun v => set_field (fnum fd) (GList (cur ++ [v])) fs)) end.
      apply read_value_post; exact HI.
  - destruct (num_skind (fkind_ fd)) as [s|].
    + destruct (wt =? wt_of s).
      * apply (of_dres_rf d (dec_scalar d s)). apply dec_scalar_good; exact HI.
      * destruct (wt =? 2); [|unfold rf_post; reflexivity].
        apply (of_dres_rf d (dec_packed d s)). apply dec_packed_good; exact HI.
    + match goal with |- context [GList (?cur ++ _)] =>
        apply (rv_rf d _ (fun v => set_field (fnum fd) (GList (cur ++ [v])) fs)) end.
      apply read_value_post; exact HI.
  - apply (rv_rf d _ (fun v => set_field (fnum fd) v (clear_group md g (fnum fd) fs))).
    apply read_value_post; exact HI.
  - destruct (negb (wt =? 2)); [unfold rf_post; reflexivity|].
    pose proof (dec_scalar_good d KUInt32 HI) as Hs.
    destruct (dec_scalar d KUInt32) as [sz d1|d1|]; cbn [of_dres]; unfold dgood in Hs.
    2:{ unfold rf_post. reflexivity. }
    2:{ contradiction. }
    assert (HI1 : Inv d1) by (destruct Hs as [Hx _]; exact Hx).
    assert (Hf1 : dfast d1 = dfast d) by (destruct Hs as (_ & _ & Hx & _); exact Hx).
    match goal with |- context [entry_loop um ?fu kk vk ?st d1 None None false] =>
      pose proof (entry_loop_post fu kk vk st d1 None None false HI1) as He;
      destruct (entry_loop um fu kk vk st d1 None None false) as [[[key val] al] d2|r];
      unfold el_post in He; [|exact He];
      destruct (negb (doff d2 =? st)%nat); [unfold rf_post; reflexivity|] end.
    destruct He as [Hg2 Hfl]. cbn [snd] in Hfl.
    assert (Hgo : forall x, rf_post d (LGo (x, al) d2)).
    { intros x. unfold rf_post. split; [exact (good_trans _ _ _ Hs Hg2)|].
      cbn [snd]. apply (flag_mono d d1); assumption. }
    destruct val as [x|]; [apply Hgo|].
    destruct vk as [| | | |t]; try apply Hgo.
    destruct (um t []) as [v0 a0| |] eqn:Eu; [apply Hgo|unfold rf_post; reflexivity|].
    exfalso. exact (Hnp t [] Eu).
Qed.

Definition fl_post (d : decoder) (al : bool) (r : ures) : Prop :=
  match r with
  | UOk v al' => (forall fs u, v = GMsg fs u -> (length u <= length (dbuf d))%nat) /\ flag_ok d al al'
  | UErr => True
  | UPanic => False
  end.

Lemma slice_length {A} (l : list A) lo hi : (length (slice l lo hi) <= hi - lo)%nat.
Proof. unfold slice. rewrite firstn_length. lia. Qed.

Lemma field_loop_post : forall fuel md d fs unk al,
  Inv d -> (length unk <= doff d)%nat -> fl_post d al (field_loop um fuel md d fs unk al).
Proof.
  induction fuel as [|f IH]; intros md d fs unk al HI Hu.
  - cbn [field_loop]. exact I.
  - cbn [field_loop]. destruct (at_eof d).
    { destruct (forallb _ (mfields md)); [|exact I]. unfold fl_post. split.
      - intros fs0 u Hv. inversion Hv; subst. unfold Inv in HI. lia.
      - intros _ _ Hl. exact Hl. }
    cbv zeta.
    pose proof (dec_tag_good d HI) as Ht. destruct (dec_tag d) as [[tag wt] d1|d1|]; cbn [of_dres]; unfold dgood in Ht.
    2:{ exact I. }
    2:{ contradiction. }
    assert (HI1 : Inv d1) by (destruct Ht as [Hx _]; exact Hx).
    assert (Hf1 : dfast d1 = dfast d) by (destruct Ht as (_ & _ & Hx & _); exact Hx).
    destruct (find_field md tag) as [fd|].
    + pose proof (read_field_post md fd wt d1 fs HI1) as Hr.
      destruct (read_field um md fd wt d1 fs) as [[fs' a] d2|r]; unfold rf_post in Hr.
      2:{ subst r. exact I. }
      destruct Hr as [Hg2 Ha]. cbn [snd] in Ha.
      assert (HI2 : Inv d2) by (destruct Hg2 as [Hx _]; exact Hx).
      pose proof (good_trans _ _ _ Ht Hg2) as Hg.
      assert (Hu2 : (length unk <= doff d2)%nat) by (destruct Hg as (_ & _ & _ & Hx); lia).
      pose proof (IH md d2 fs' unk (al || a) HI2 Hu2) as Hp.
      destruct (field_loop um f md d2 fs' unk (al || a)) as [v al'| |]; unfold fl_post in *; [|exact I|exact Hp].
      destruct Hp as [Hlen Hfl]. destruct Hg as (_ & Hb & Hfa & _). split.
      * rewrite <- Hb. exact Hlen.
      * apply (flag_or d d1 al a); [exact Hf1|exact Ha|]. apply (flag_mono d1 d2); [|exact Hfl].
        destruct Hg2 as (_ & _ & Hx & _); exact Hx.
    + pose proof (dec_skip_good d1 (Z.of_N tag) (Z.of_N wt) HI1) as Hs.
      destruct (dec_skip d1 (Z.of_N tag) (Z.of_N wt)) as [raw d2|d2|]; cbn [of_dres]; unfold dgood in Hs.
      2:{ exact I. }
      2:{ contradiction. }
      assert (HI2 : Inv d2) by (destruct Hs as [Hx _]; exact Hx).
      pose proof (good_trans _ _ _ Ht Hs) as Hg.
      assert (Hu2 : (length (unk ++ slice (dbuf d) (doff d) (doff d2)) <= doff d2)%nat).
      { rewrite app_length. pose proof (slice_length (dbuf d) (doff d) (doff d2)) as Hsl.
        destruct Hg as (_ & _ & _ & Hx). lia. }
      pose proof (IH md d2 fs (unk ++ slice (dbuf d) (doff d) (doff d2)) al HI2 Hu2) as Hp.
      destruct (field_loop um f md d2 fs (unk ++ slice (dbuf d) (doff d) (doff d2)) al) as [v al'| |];
        unfold fl_post in *; [|exact I|exact Hp].
      destruct Hp as [Hlen Hfl]. destruct Hg as (_ & Hb & Hfa & _). split.
      * rewrite <- Hb. exact Hlen.
      * apply (flag_mono d d2); assumption.
Qed.

End Loops.

(* ------------------------------------------------------------------------------------------ *)
(* C. the generated Unmarshal *)

Lemma gen_unmarshal_post : forall sc fast fuel ty p,
  fl_post (fast = false) (mk p 0 fast) false (gen_unmarshal sc fast fuel ty p).
Proof.
  intros sc fast. induction fuel as [|f IH]; intros ty p.
  - cbn [gen_unmarshal]. exact I.
  - cbn [gen_unmarshal]. unfold unmarshal_with.
    apply (field_loop_post (gen_unmarshal sc fast f) (fast = false)).
    + intros ty0 b E. pose proof (IH ty0 b) as H. rewrite E in H. exact H.
    + intros HQ ty0 b v al E. pose proof (IH ty0 b) as H. rewrite E in H. destruct H as [_ H].
      apply H; [exact HQ|exact HQ|reflexivity].
    + unfold Inv; cbn [doff dbuf]. lia.
    + cbn [length doff]. lia.
Qed.

Theorem destination_independent : forall sc ty p fast d1 d2,
  gen_unmarshal_into sc fast ty d1 p = gen_unmarshal_into sc fast ty d2 p.
Proof. intros sc ty p fast d1 d2. reflexivity. Qed.

Theorem decoder_safe_copies : forall nested d op b al d',
  dfast d = false -> dstep nested d op = DOk (VBytes b al) d' -> al = false.
Proof.
  intros nested d op b al d' Hf H.
  destruct op; cbn [dstep] in H.
  - destruct (dec_tag d) as [[t wt] d1|d1|]; cbn [dmap] in H; discriminate H.
  - destruct (dec_scalar d k) as [z d1|d1|]; cbn [dmap] in H; discriminate H.
  - destruct (dec_bytes d) as [z d1|d1|]; cbn [dmap] in H; try discriminate H.
    inversion H; subst. exact Hf.
  - destruct (dec_bytes d) as [z d1|d1|]; cbn [dmap] in H; try discriminate H.
    inversion H; subst. exact Hf.
  - destruct (dec_packed d k) as [z d1|d1|]; cbn [dmap] in H; discriminate H.
  - destruct (dec_nested nested d) as [z d1|d1|]; cbn [dmap] in H; discriminate H.
  - destruct (dec_skip d tag wt) as [z d1|d1|]; cbn [dmap] in H; discriminate H.
  - destruct (dec_seek d o whence) as [z d1|d1|]; cbn [dmap] in H; discriminate H.
  - discriminate H.
  - discriminate H.
Qed.

Theorem generated_safe : forall sc ty p dest m al,
  gen_unmarshal_into sc false ty dest p = UOk m al -> al = false.
Proof.
  intros sc ty p dest m al E. unfold gen_unmarshal_into in E.
  pose proof (gen_unmarshal_post sc false (S (length p)) ty p) as H. rewrite E in H.
  destruct H as [_ H]. apply H; reflexivity.
Qed.

Theorem unmarshal_no_panic : forall sc ty p fast dest,
  bytes_ok p -> gen_unmarshal_into sc fast ty dest p <> UPanic.
Proof.
  intros sc ty p fast dest _ E. unfold gen_unmarshal_into in E.
  pose proof (gen_unmarshal_post sc fast (S (length p)) ty p) as H. rewrite E in H. exact H.
Qed.

Theorem unknown_bounded : forall sc ty p fast dest fs u al,
  bytes_ok p -> gen_unmarshal_into sc fast ty dest p = UOk (GMsg fs u) al -> (length u <= length p)%nat.
Proof.
  intros sc ty p fast dest fs u al _ E. unfold gen_unmarshal_into in E.
  pose proof (gen_unmarshal_post sc fast (S (length p)) ty p) as H. rewrite E in H.
  destruct H as [H _]. exact (H fs u eq_refl).
Qed.

Print Assumptions destination_independent.
Print Assumptions decoder_safe_copies.
Print Assumptions generated_safe.
Print Assumptions unmarshal_no_panic.
Print Assumptions unknown_bounded.
