(* Fuel irrelevance for the generated-code interpreters: gen_size / gen_ops give the same answer at
   any fuel above the nesting depth of the value.  No well-formedness hypotheses. *)
From CsProto Require Import Prelude Varint ZigZag Codec RefWire WireStmts Schema GenMarshal RefMsg GenStmts GenPBase.

(* ---------- depth of the containers, as the inner fixes of vdepth ---------- *)
Fixpoint ldepth (l : list gval) : nat :=
  match l with [] => O | x :: r => Nat.max (vdepth x) (ldepth r) end.
Fixpoint mdepth (l : list (gval * gval)) : nat :=
  match l with [] => O | (k, x) :: r => Nat.max (Nat.max (vdepth k) (vdepth x)) (mdepth r) end.
Fixpoint fdepth (l : list (N * gval)) : nat :=
  match l with [] => O | (_, x) :: r => Nat.max (vdepth x) (fdepth r) end.

Lemma vdepth_GList l : vdepth (GList l) = S (ldepth l).
Proof. reflexivity. Qed.
Lemma vdepth_GMap kvs : vdepth (GMap kvs) = S (mdepth kvs).
Proof. reflexivity. Qed.
Lemma vdepth_GMsg fs u : vdepth (GMsg fs u) = S (fdepth fs).
Proof. reflexivity. Qed.

Lemma ldepth_In x l : In x l -> (vdepth x <= ldepth l)%nat.
Proof.
  induction l as [|y r IH]; cbn [In ldepth]; intros Hin.
  - contradiction.
  - destruct Hin as [->|Hin].
    + apply Nat.le_max_l.
    + specialize (IH Hin). lia.
Qed.

Lemma mdepth_In k x kvs : In (k, x) kvs -> (vdepth k <= mdepth kvs)%nat /\ (vdepth x <= mdepth kvs)%nat.
Proof.
  induction kvs as [|[k' x'] r IH]; cbn [In mdepth]; intros Hin.
  - contradiction.
  - destruct Hin as [Heq|Hin].
    + inversion Heq; subst k' x'. split; lia.
    + specialize (IH Hin). destruct IH as [IHk IHx]. split; lia.
Qed.

Lemma fdepth_In n x fs : In (n, x) fs -> (vdepth x <= fdepth fs)%nat.
Proof.
  induction fs as [|[n' x'] r IH]; cbn [In fdepth]; intros Hin.
  - contradiction.
  - destruct Hin as [Heq|Hin].
    + inversion Heq; subst n' x'. apply Nat.le_max_l.
    + specialize (IH Hin). lia.
Qed.

Lemma fdepth_lookup n fs : (vdepth (lookup_field n fs) <= fdepth fs)%nat.
Proof.
  induction fs as [|[k x] r IH]; cbn [lookup_field fdepth].
  - apply Nat.le_0_l.
  - destruct (N.eqb k n); lia.
Qed.

(* ---------- extensionality of the list combinators ---------- *)
Lemma sum_map_ext_in {A} (f g : A -> nat) l :
  (forall x, In x l -> f x = g x) -> sum_map f l = sum_map g l.
Proof.
  induction l as [|x r IH]; cbn [sum_map]; intros H.
  - reflexivity.
  - rewrite (H x (or_introl eq_refl)). rewrite IH; [reflexivity|].
    intros y Hy. apply H. right. exact Hy.
Qed.

Lemma concat_ops_ext_in {A} (f g : A -> outcome (list gop)) l :
  (forall x, In x l -> f x = g x) -> concat_ops f l = concat_ops g l.
Proof.
  induction l as [|x r IH]; cbn [concat_ops]; intros H.
  - reflexivity.
  - rewrite (H x (or_introl eq_refl)). rewrite IH; [reflexivity|].
    intros y Hy. apply H. right. exact Hy.
Qed.

Lemma list_of_depth v x : In x (list_of v) -> (vdepth x <= vdepth v)%nat.
Proof.
  destruct v as [|z|b|l|kvs|fs u]; cbn [list_of In]; try contradiction.
  intros Hin. rewrite vdepth_GList. apply ldepth_In in Hin. lia.
Qed.

Lemma map_of_depth v k x : In (k, x) (map_of v) -> (vdepth k <= vdepth v)%nat /\ (vdepth x <= vdepth v)%nat.
Proof.
  destruct v as [|z|b|l|kvs|fs u]; cbn [map_of In]; try contradiction.
  intros Hin. rewrite vdepth_GMap. apply mdepth_In in Hin. destruct Hin as [Hk Hx]. split; lia.
Qed.

Lemma group_member_depth md fs g f v : group_member md fs g = Some (f, v) -> (vdepth v <= fdepth fs)%nat.
Proof.
  unfold group_member. destruct (filter _ (mfields md)) as [|f' r]; intros H; [discriminate|].
  inversion H; subst. apply fdepth_lookup.
Qed.

(* ---------- extensionality of the clauses in the open-recursion parameters ---------- *)
Section Ext.
Variables s1 s2 : nat -> gval -> nat.
Variables o1 o2 : nat -> gval -> outcome (list gop).
Variable d : nat.
Hypothesis Hs : forall ty x, (vdepth x <= d)%nat -> s1 ty x = s2 ty x.
Hypothesis Ho : forall ty x, (vdepth x <= d)%nat -> o1 ty x = o2 ty x.

Lemma elem_size_ext tag k v : (vdepth v <= d)%nat -> elem_size s1 tag k v = elem_size s2 tag k v.
Proof using Hs.
  clear Ho o1 o2. intros Hd. destruct k as [s| | | |ty]; cbn [elem_size]; try reflexivity.
  rewrite (Hs ty v Hd). reflexivity.
Qed.

Lemma elem_ops_ext tag k v : (vdepth v <= d)%nat -> elem_ops s1 o1 tag k v = elem_ops s2 o2 tag k v.
Proof using Hs Ho.
  intros Hd. destruct k as [s| | | |ty]; cbn [elem_ops]; try reflexivity.
  rewrite (Hs ty v Hd), (Ho ty v Hd). reflexivity.
Qed.

Lemma field_size_ext f v : (vdepth v <= d)%nat -> field_size s1 f v = field_size s2 f v.
Proof using Hs.
  clear Ho o1 o2. intros Hd. unfold field_size. destruct (fcard_ f) as [| | | | |g|kk vk]; try reflexivity.
  - destruct (present f v); [apply elem_size_ext; exact Hd|reflexivity].
  - destruct (present f v); [apply elem_size_ext; exact Hd|reflexivity].
  - destruct (present f v); [apply elem_size_ext; exact Hd|reflexivity].
  - apply sum_map_ext_in. intros x Hx. apply elem_size_ext.
    apply list_of_depth in Hx. lia.
  - apply sum_map_ext_in. intros [k x] Hkx. apply map_of_depth in Hkx. destruct Hkx as [Hk Hx].
    rewrite (elem_size_ext 1 kk k) by lia. rewrite (elem_size_ext 2 vk x) by lia. reflexivity.
Qed.

Lemma field_ops_ext f v : (vdepth v <= d)%nat -> field_ops s1 o1 f v = field_ops s2 o2 f v.
Proof using Hs Ho.
  intros Hd. unfold field_ops. destruct (fcard_ f) as [| | | | |g|kk vk]; try reflexivity.
  - destruct (present f v); [apply elem_ops_ext; exact Hd|reflexivity].
  - destruct (present f v); [apply elem_ops_ext; exact Hd|reflexivity].
  - destruct (present f v); [apply elem_ops_ext; exact Hd|reflexivity].
  - apply concat_ops_ext_in. intros x Hx. apply elem_ops_ext.
    apply list_of_depth in Hx. lia.
  - apply concat_ops_ext_in. intros [k x] Hkx. apply map_of_depth in Hkx. destruct Hkx as [Hk Hx].
    rewrite (elem_size_ext 1 kk k) by lia. rewrite (elem_size_ext 2 vk x) by lia.
    rewrite (elem_ops_ext 1 kk k) by lia. rewrite (elem_ops_ext 2 vk x) by lia. reflexivity.
Qed.

Lemma group_size_ext md fs g : (fdepth fs <= d)%nat -> group_size s1 md fs g = group_size s2 md fs g.
Proof using Hs.
  clear Ho o1 o2. intros Hd. unfold group_size. destruct (group_member md fs g) as [[f v]|] eqn:Hm; [|reflexivity].
  apply elem_size_ext. apply group_member_depth in Hm. lia.
Qed.

Lemma group_ops_ext md fs g : (fdepth fs <= d)%nat -> group_ops s1 o1 md fs g = group_ops s2 o2 md fs g.
Proof using Hs Ho.
  intros Hd. unfold group_ops. destruct (group_member md fs g) as [[f v]|] eqn:Hm; [|reflexivity].
  apply elem_ops_ext. apply group_member_depth in Hm. lia.
Qed.

Lemma msg_size_with_ext md fs u : (fdepth fs <= d)%nat -> msg_size_with s1 md fs u = msg_size_with s2 md fs u.
Proof using Hs.
  clear Ho o1 o2. intros Hd. unfold msg_size_with.
  rewrite (sum_map_ext_in (fun f => field_size s1 f (lookup_field (fnum f) fs))
                          (fun f => field_size s2 f (lookup_field (fnum f) fs))).
  2:{ intros f _. apply field_size_ext. pose proof (fdepth_lookup (fnum f) fs) as Hl. lia. }
  rewrite (sum_map_ext_in (group_size s1 md fs) (group_size s2 md fs)).
  2:{ intros g _. apply group_size_ext. exact Hd. }
  reflexivity.
Qed.

Lemma msg_ops_with_ext md fs u : (fdepth fs <= d)%nat -> msg_ops_with s1 o1 md fs u = msg_ops_with s2 o2 md fs u.
Proof using Hs Ho.
  intros Hd. unfold msg_ops_with.
  rewrite (concat_ops_ext_in (fun f => field_ops s1 o1 f (lookup_field (fnum f) fs))
                             (fun f => field_ops s2 o2 f (lookup_field (fnum f) fs))).
  2:{ intros f _. apply field_ops_ext. pose proof (fdepth_lookup (fnum f) fs) as Hl. lia. }
  rewrite (concat_ops_ext_in (group_ops s1 o1 md fs) (group_ops s2 o2 md fs)).
  2:{ intros g _. apply group_ops_ext. exact Hd. }
  reflexivity.
Qed.
End Ext.

(* ---------- fuel irrelevance ---------- *)
Lemma gen_size_nonmsg sc fuel ty v : (forall fs u, v <> GMsg fs u) -> gen_size sc fuel ty v = O.
Proof.
  intros Hv. destruct fuel as [|f]; destruct v as [|z|b|l|kvs|fs u]; try reflexivity.
  exfalso. apply (Hv fs u). reflexivity.
Qed.
Lemma gen_ops_nonmsg sc fuel ty v : (forall fs u, v <> GMsg fs u) -> gen_ops sc fuel ty v = Ok [].
Proof.
  intros Hv. destruct fuel as [|f]; destruct v as [|z|b|l|kvs|fs u]; try reflexivity.
  exfalso. apply (Hv fs u). reflexivity.
Qed.

Lemma fuel_irrelevant2 : forall sc ty v f1 f2, (vdepth v < f1)%nat -> (vdepth v < f2)%nat ->
  gen_size sc f1 ty v = gen_size sc f2 ty v /\ gen_ops sc f1 ty v = gen_ops sc f2 ty v.
Proof.
  intros sc ty v f1. revert ty v.
  induction f1 as [|f1 IH]; intros ty v f2 H1 H2.
  - inversion H1.
  - destruct v as [|z|b|l|kvs|fs u].
    1-5: rewrite !gen_size_nonmsg, !gen_ops_nonmsg by (intros; discriminate); split; reflexivity.
    destruct f2 as [|f2]; [inversion H2|].
    rewrite vdepth_GMsg in H1, H2.
    rewrite !gen_size_S, !gen_ops_S.
    assert (Hs : forall ty' x, (vdepth x <= fdepth fs)%nat -> gen_size sc f1 ty' x = gen_size sc f2 ty' x).
    { intros ty' x Hx. apply (IH ty' x f2); lia. }
    assert (Ho : forall ty' x, (vdepth x <= fdepth fs)%nat -> gen_ops sc f1 ty' x = gen_ops sc f2 ty' x).
    { intros ty' x Hx. apply (IH ty' x f2); lia. }
    split.
    + apply msg_size_with_ext with (d := fdepth fs); [exact Hs|apply Nat.le_refl].
    + apply msg_ops_with_ext with (d := fdepth fs); [exact Hs|exact Ho|apply Nat.le_refl].
Qed.

Lemma fuel_irrelevant : forall sc ty v fuel, (vdepth v < fuel)%nat ->
  gen_size sc fuel ty v = gen_size sc (S (vdepth v)) ty v /\ gen_ops sc fuel ty v = gen_ops sc (S (vdepth v)) ty v.
Proof.
  intros sc ty v fuel H. apply fuel_irrelevant2; [exact H|apply Nat.lt_succ_diag_r].
Qed.

Print Assumptions fuel_irrelevant.
