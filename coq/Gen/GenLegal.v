(* "Every wire encoding of a message that a conforming protobuf writer may legally produce for the
   schema" (C06), as a computable predicate on byte strings: the bytes are a sequence of canonically
   encoded fields (shortest varints, valid field numbers, wire types 0/1/2/5); every field the schema
   declares arrives with a wire type its kind can use (packable repeated kinds: one element or a
   packed run of canonical elements) and, for the 32-bit integer kinds, a value a writer of that kind
   can emit (sign-extended int32 / enum, uint32 below 2^32); message payloads and map entries are
   legal recursively; map entries hold key (1) / value (2) in any order, omitted or repeated, plus
   foreign fields; unknown fields are any well-formed fields.  Definitions only. *)
From CsProto Require Import Prelude Varint ZigZag Codec RefWire WireStmts Schema GenMarshal RefMsg GenStmts.
Local Open Scope N_scope.

Definition bytes_eqb (a b : list byte) : bool :=
  (length a =? length b)%nat && forallb (fun '(x, y) => x =? y) (combine a b).

(* a writer-emittable wire value for a scalar kind *)
Definition wire_in_range (k : skind) (v : N) : bool :=
  match k with
  | KInt32 => (v <? 2^31) || ((2^64 - 2^31 <=? v) && (v <? 2^64))     (* sign-extended to 64 bits *)
  | KUInt32 | KSInt32 => v <? 2^32
  | _ => v <? 2^64
  end.
Definition rfield_wfb (f : rfield) : bool :=
  (1 <=? rnum f) && (rnum f <=? max_tag) &&
  match f with
  | RVarint _ v => v <? 2^64
  | RFixed64 _ b => (length b =? 8)%nat && forallb (fun x => x <? 256) b
  | RFixed32 _ b => (length b =? 4)%nat && forallb (fun x => x <? 256) b
  | RLen _ b => (N.of_nat (length b) <=? max_len) && forallb (fun x => x <? 256) b
  end.
(* a scalar occurrence of kind k *)
Definition scalar_legal (k : skind) (f : rfield) : bool :=
  match f with
  | RVarint _ v => (wt_of k =? 0) && wire_in_range k v
  | RFixed32 _ _ => wt_of k =? 5
  | RFixed64 _ _ => wt_of k =? 1
  | RLen _ _ => false
  end.
(* a packed run: canonical elements of kind k, back to back *)
Fixpoint packed_legal (fuel : nat) (k : skind) (p : list byte) : bool :=
  match p with
  | [] => true
  | _ =>
    match fuel with
    | O => false
    | S f =>
      if wt_of k =? 0 then
        match ref_varint_val p, ref_varint_len p with
        | Some v, Some n => wire_in_range k v && bytes_eqb (firstn n p) (ref_varint v) && packed_legal f k (skipn n p)
        | _, _ => false
        end
      else
        let w := width_of k in
        if (length p <? w)%nat then false else packed_legal f k (skipn w p)
    end
  end.

(* the message a conforming parser reads from p has every required field set, at every depth: writers
   only emit initialised messages *)
Definition initialized (sc : schema) (ty : nat) (p : list byte) : bool :=
  match ref_decode sc (S (length p)) ty p with
  | Some v => requireds_set sc (S (vdepth v)) ty v
  | None => false
  end.

Section Legal.
Variable sc : schema.
Variable legal_msg_rec : nat -> list byte -> bool.      (* open recursion: a legal message of type ty *)

(* one occurrence of a value of kind k (singular field, oneof member, element of a non-packable list,
   map key / value) *)
Definition value_legal (k : fkind) (f : rfield) : bool :=
  match k, f with
  | FMsg ty, RLen _ b => legal_msg_rec ty b && initialized sc ty b
  | (FString | FBytes), RLen _ _ => true
  | _, _ => match is_num_kind k with Some s => scalar_legal s f | None => false end
  end.

(* the fields of the input, canonical, with their raw bytes *)
Definition canonical_fields (p : list byte) : option (list rfield) :=
  match ref_parse_all (S (length p)) p with
  | Some flds =>
      if forallb (fun '(f, raw) => rfield_wfb f && bytes_eqb raw (renc f)) flds then Some (map fst flds) else None
  | None => None
  end.

(* an entry that omits a message value stands for the empty message, which a writer emits only when that
   is an initialised message (no required fields) *)
Definition entry_legal (kk vk : fkind) (b : list byte) : bool :=
  match canonical_fields b with
  | Some flds =>
      forallb (fun f => if rnum f =? 1 then value_legal kk f else if rnum f =? 2 then value_legal vk f else true) flds &&
      match vk with
      | FMsg t => existsb (fun f => rnum f =? 2) flds || initialized sc t []
      | _ => true
      end
  | None => false
  end.

Definition field_legal (md : mdesc) (f : rfield) : bool :=
  match find_field md (rnum f) with
  | None => true                                              (* unknown field *)
  | Some fd =>
      match fcard_ fd with
      | CImplicit | COptional | CRequired | COneof _ => value_legal (fkind_ fd) f
      | CPacked | CUnpacked =>
          match is_num_kind (fkind_ fd), f with
          | Some s, RLen _ b => packed_legal (S (length b)) s b
          | _, _ => value_legal (fkind_ fd) f
          end
      | CMap kk vk => match f with RLen _ b => entry_legal kk vk b | _ => false end
      end
  end.
Definition msg_legal (md : mdesc) (p : list byte) : bool :=
  match canonical_fields p with
  | Some flds => forallb (field_legal md) flds
  | None => false
  end.

(* G12 (recorded finding): no singular message field -- plain, oneof member, or the message value
   inside one map entry -- occurs twice *)
Definition count_num (n : N) (flds : list rfield) : nat := length (filter (fun f => rnum f =? n) flds).
Definition singular_msgs_once (md : mdesc) (flds : list rfield) : bool :=
  forallb (fun fd =>
    match fcard_ fd, fkind_ fd with
    | (CImplicit | COptional | CRequired | COneof _), FMsg _ => (count_num (fnum fd) flds <=? 1)%nat
    | _, _ => true
    end) (mfields md).
End Legal.

Fixpoint legal_msg (sc : schema) (fuel : nat) (ty : nat) (p : list byte) : bool :=
  match fuel with
  | O => false
  | S f => msg_legal sc (legal_msg sc f) (nth ty sc empty_md) p
  end.

(* no duplicated singular message at any depth of a legal message *)
Fixpoint no_dup_msgs (sc : schema) (fuel : nat) (ty : nat) (p : list byte) : bool :=
  match fuel with
  | O => false
  | S f =>
    let md := nth ty sc empty_md in
    match canonical_fields p with
    | None => false
    | Some flds =>
        singular_msgs_once md flds &&
        forallb (fun fl =>
          match find_field md (rnum fl), fl with
          | Some fd, RLen _ b =>
              match fcard_ fd, fkind_ fd with
              | CMap _ (FMsg t), _ =>
                  match canonical_fields b with
                  | Some efs => (count_num 2 efs <=? 1)%nat &&
                                forallb (fun e => match e with RLen 2 vb => no_dup_msgs sc f t vb | _ => true end) efs
                  | None => false
                  end
              | CMap _ _, _ => true
              | _, FMsg t => no_dup_msgs sc f t b
              | _, _ => true
              end
          | _, _ => true
          end) flds
    end
  end.

(* ---------- the same exclusion on arbitrary bytes (C08): judged on the reference parse, canonical or not ---------- *)
Definition raw_fields (p : list byte) : option (list rfield) :=
  match ref_parse_all (S (length p)) p with Some flds => Some (map fst flds) | None => None end.
Fixpoint no_dup_raw (sc : schema) (fuel : nat) (ty : nat) (p : list byte) : bool :=
  match fuel with
  | O => false
  | S f =>
    let md := nth ty sc empty_md in
    match raw_fields p with
    | None => false
    | Some flds =>
        singular_msgs_once md flds &&
        forallb (fun fl =>
          match find_field md (rnum fl), fl with
          | Some fd, RLen _ b =>
              match fcard_ fd, fkind_ fd with
              | CMap _ (FMsg t), _ =>
                  match raw_fields b with
                  | Some efs => (count_num 2 efs <=? 1)%nat &&
                                forallb (fun e => match e with RLen 2 vb => no_dup_raw sc f t vb | _ => true end) efs
                  | None => false
                  end
              | CMap _ _, _ => true
              | _, FMsg t => no_dup_raw sc f t b
              | _, _ => true
              end
          | _, _ => true
          end) flds
    end
  end.
