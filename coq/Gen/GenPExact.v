(* Encoder programs: sizes, well-formedness, and exactness of running a well-formed program (C04). *)
From CsProto Require Import Prelude Varint VarintSize ZigZag Codec RefWire WireStmts CodecBase EncProofs Schema GenMarshal RefMsg GenStmts GenPBase.
Local Open Scope N_scope.

(* ---------- sizes and well-formedness of programs ---------- *)
Definition gop_size (g : gop) : nat :=
  match g with
  | GOp op => esize op
  | GNest tag sz _ => (size_key tag + size_of_varint (N.of_nat sz) + sz)%nat
  end.
Definition gops_size (ops : list gop) : nat := sum_map gop_size ops.

Fixpoint gop_ok (g : gop) : Prop :=
  match g with
  | GOp op => op_ok op
  | GNest tag sz body =>
      tag_ok tag /\ N.of_nat sz < 2^63 /\ sz = gops_size body /\
      (fix go (l : list gop) : Prop := match l with [] => True | x :: r => gop_ok x /\ go r end) body
  end.

Lemma gop_ok_nest tag sz body :
  gop_ok (GNest tag sz body) <-> tag_ok tag /\ N.of_nat sz < 2^63 /\ sz = gops_size body /\ Forall gop_ok body.
Proof.
  cbn [gop_ok].
  assert (Hgo : (fix go (l : list gop) : Prop := match l with [] => True | x :: r => gop_ok x /\ go r end) body
                <-> Forall gop_ok body).
  { induction body as [|x r IH].
    - split; intros _; [constructor|exact I].
    - split.
      + intros [Hx Hr]. constructor; [exact Hx|apply IH; exact Hr].
      + intros H. inversion H as [|x' r' Hx Hr]; subst. split; [exact Hx|apply IH; exact Hr]. }
  rewrite Hgo. reflexivity.
Qed.

Lemma gops_size_nil : gops_size [] = 0%nat. Proof. reflexivity. Qed.
Lemma gops_size_cons x r : gops_size (x :: r) = (gop_size x + gops_size r)%nat. Proof. reflexivity. Qed.
Lemma gops_size_app a b : gops_size (a ++ b) = (gops_size a + gops_size b)%nat.
Proof.
  induction a as [|x a IH]; [reflexivity|].
  rewrite <- app_comm_cons, !gops_size_cons, IH. lia.
Qed.

(* induction principle for the nested inductive *)
Section GopInd.
Variable P : gop -> Prop.
Hypothesis HOp : forall op, P (GOp op).
Hypothesis HNest : forall tag sz body, Forall P body -> P (GNest tag sz body).
Fixpoint gop_ind' (g : gop) : P g :=
  match g with
  | GOp op => HOp op
  | GNest tag sz body =>
      HNest tag sz body
        ((fix go (l : list gop) : Forall P l :=
            match l with [] => Forall_nil P | x :: r => Forall_cons x (gop_ind' x) (go r) end) body)
  end.
End GopInd.

(* ---------- unfolding the nested fixpoints ---------- *)
Lemma gstep_nest e tag sz body :
  gstep e (GNest tag sz body) =
  let* e1 := put e (enc_key tag 2) in
  let* e2 := put e1 (enc_varint (N.of_nat sz)) in
  let* e3 := grun e2 body in
  Ok {| ebuf := ebuf e3; eoff := (eoff e2 + sz)%nat |}.
Proof. reflexivity. Qed.

Lemma grun_cons e x r : grun e (x :: r) = let* e' := gstep e x in grun e' r.
Proof. reflexivity. Qed.

Lemma gbytes_nil : gbytes [] = []. Proof. reflexivity. Qed.
Lemma gbytes_cons x r : gbytes (x :: r) = gop_bytes x ++ gbytes r. Proof. reflexivity. Qed.
Lemma gbytes_app a b : gbytes (a ++ b) = gbytes a ++ gbytes b.
Proof. unfold gbytes. rewrite map_app, concat_app. reflexivity. Qed.

Lemma gop_bytes_nest tag sz body :
  gop_bytes (GNest tag sz body) = enc_key tag 2 ++ enc_varint (N.of_nat sz) ++ gbytes body.
Proof.
  cbn [gop_bytes]. do 2 f_equal.
  induction body as [|x r IH]; [reflexivity|].
  rewrite gbytes_cons, <- IH. reflexivity.
Qed.

(* ---------- running a well-formed program ---------- *)
Lemma fills_nest tag sz body :
  tag_ok tag -> N.of_nat sz < 2^63 ->
  fills (fun e => grun e body) (gbytes body) -> length (gbytes body) = sz ->
  fills (fun e => gstep e (GNest tag sz body)) (gop_bytes (GNest tag sz body)).
Proof.
  intros Htag Hsz Hbody Hlen pre room post Hroom.
  rewrite gop_bytes_nest in *. rewrite gstep_nest.
  set (K := enc_key tag 2) in *. set (V := enc_varint (N.of_nat sz)) in *. set (B := gbytes body) in *.
  rewrite !app_length in Hroom.
  rewrite (fills_put K pre room post) by lia. cbn [obind].
  replace (pre ++ K ++ skipn (length K) room ++ post) with ((pre ++ K) ++ skipn (length K) room ++ post)
    by (rewrite <- app_assoc; reflexivity).
  replace (length pre + length K)%nat with (length (pre ++ K)) by (rewrite app_length; reflexivity).
  rewrite (fills_put V (pre ++ K) (skipn (length K) room) post) by (rewrite skipn_length; lia). cbn [obind eoff].
  replace ((pre ++ K) ++ V ++ skipn (length V) (skipn (length K) room) ++ post)
    with (((pre ++ K) ++ V) ++ skipn (length V) (skipn (length K) room) ++ post)
    by (rewrite <- !app_assoc; reflexivity).
  replace (length (pre ++ K) + length V)%nat with (length ((pre ++ K) ++ V)) by (rewrite !app_length; reflexivity).
  rewrite (Hbody ((pre ++ K) ++ V) (skipn (length V) (skipn (length K) room)) post)
    by (rewrite !skipn_length; fold B; lia).
  cbn [obind ebuf eoff]. fold B.
  f_equal. f_equal.
  - rewrite <- !app_assoc. do 4 f_equal. rewrite <- !skipn_add. f_equal. f_equal. rewrite !app_length. lia.
  - rewrite !app_length. lia.
Qed.

Definition gop_exact (g : gop) : Prop :=
  gop_ok g -> fills (fun e => gstep e g) (gop_bytes g) /\ length (gop_bytes g) = gop_size g.

Lemma gops_fills_aux ops : Forall gop_exact ops -> Forall gop_ok ops ->
  fills (fun e => grun e ops) (gbytes ops) /\ length (gbytes ops) = gops_size ops.
Proof.
  induction ops as [|x r IH]; intros HP Hok.
  - split; [apply fills_nil|reflexivity].
  - inversion HP as [|x' r' HPx HPr]; subst. inversion Hok as [|x' r' Hx Hr]; subst.
    destruct (HPx Hx) as [Hfx Hlx]. destruct (IH HPr Hr) as [Hfr Hlr].
    split.
    + rewrite gbytes_cons.
      apply (fills_ext (fun e => let* e' := gstep e x in grun e' r)); [intros e; reflexivity|].
      apply (fills_seq (fun e => gstep e x) (fun e => grun e r)); assumption.
    + rewrite gbytes_cons, app_length, gops_size_cons. lia.
Qed.

Lemma gop_exact_all g : gop_exact g.
Proof.
  induction g as [op|tag sz body IHb] using gop_ind'; intros Hok.
  - cbn [gop_ok] in Hok. cbn [gstep gop_bytes gop_size]. split; [apply fills_estep|apply ebytes_len; exact Hok].
  - apply gop_ok_nest in Hok. destruct Hok as (Htag & Hsz & Heq & Hbody).
    destruct (gops_fills_aux body IHb Hbody) as [Hf Hl].
    split.
    + apply fills_nest; [exact Htag|exact Hsz|exact Hf|lia].
    + rewrite gop_bytes_nest, !app_length. cbn [gop_size].
      rewrite key_size by (try exact Htag; lia). rewrite enc_varint_size by lia. lia.
Qed.

Lemma gops_fills ops : Forall gop_ok ops ->
  fills (fun e => grun e ops) (gbytes ops) /\ length (gbytes ops) = gops_size ops.
Proof.
  intros Hok. apply gops_fills_aux; [|exact Hok].
  apply Forall_forall. intros g _. apply gop_exact_all.
Qed.

(* a well-formed program fills exactly gops_size bytes, with exactly its bytes *)
Theorem grun_exact : forall ops, Forall gop_ok ops ->
  length (gbytes ops) = gops_size ops /\
  forall pre room post, length room = gops_size ops ->
    grun {| ebuf := pre ++ room ++ post; eoff := length pre |} ops
      = Ok {| ebuf := pre ++ gbytes ops ++ post; eoff := (length pre + gops_size ops)%nat |}.
Proof.
  intros ops Hok. destruct (gops_fills ops Hok) as [Hf Hl]. split; [exact Hl|].
  intros pre room post Hroom. rewrite <- Hl.
  apply (fills_exact (fun e => grun e ops)); [exact Hf|lia].
Qed.
