(* Proofs of the generated-Unmarshal theorems: C06 (agreement with the reference on every legal encoding),
   C07 (unknown fields), C08 (totality), C10 (safe mode copies), C17 second half (required fields).
   Helper developments (re-exported):
     GenUSafe -- structural facts: no panic, safe-mode flag, unknown bytes bounded, destination unused
     GenUWire -- the decoder model on the payloads of a legal encoding
     GenUBase -- canonical field sequences, state lemmas, required fields deep = top level
     GenUSim  -- one message level: values, map entries, fields, the dispatch loop = the reference fold
     GenURet  -- unknown_retained: positions only, no reference (C07)
     GenUVal  -- the reference result of a legal encoding fits the schema (value_ok, unknowns_ok) *)
From CsProto Require Import Prelude Varint ZigZag Codec RefWire WireStmts CodecBase DecProofs.
From CsProto Require Import Schema GenMarshal RefMsg GenStmts GenUnmarshal GenLegal.
From CsProto Require Import GenRArith GenRWire GenRBase GenRFields GenPBase GenPFuel GenProofs GenRefProofs.
From CsProto Require Import GenUVal.
From CsProto Require Export GenUSafe GenUWire GenUBase GenUSim GenURet.
Local Open Scope N_scope.

(* ---------- unfolding the legality predicates one level ---------- *)
Lemma legal_msg_S sc f ty p : legal_msg sc (S f) ty p = msg_legal sc (legal_msg sc f) (nth ty sc empty_md) p.
Proof. reflexivity. Qed.

Lemma nd_field_of sc f md fd fl :
  match find_field md (rnum fl), fl with
  | Some fd, RLen _ b =>
      match fcard_ fd, fkind_ fd with
      | CMap _ (FMsg t), _ =>
          match canonical_fields b with
          | Some efs => (count_num 2 efs <=? 1)%nat &&
                        forallb (fun e => match e with RLen 2 vb => no_dup_msgs sc f t vb | _ => true end) efs
          | None => false
          end
      | CMap _ _, _ => true
      | _, FMsg t => no_dup_msgs sc f t b
      | _, _ => true
      end
  | _, _ => true
  end = true ->
  find_field md (rnum fl) = Some fd -> nd_field (no_dup_msgs sc f) fd fl.
Proof.
  intros H Hf. rewrite Hf in H. unfold nd_field. destruct fl as [| | |num b]; try exact I.
  destruct (fcard_ fd) as [| | | | | |kk vk].
  1-6: (destruct (fkind_ fd); try exact I; exact H).
  destruct vk as [| | | |t]; try (destruct (fkind_ fd); exact I).
  assert (H' : match canonical_fields b with
               | Some efs => (count_num 2 efs <=? 1)%nat &&
                             forallb (fun e => match e with RLen 2 vb => no_dup_msgs sc f t vb | _ => true end) efs
               | None => false end = true) by (destruct (fkind_ fd); exact H).
  assert (G : exists efs, canonical_fields b = Some efs /\ (count_num 2 efs <= 1)%nat /\
                forall num vb, In (RLen num vb) efs -> num = 2 -> no_dup_msgs sc f t vb = true).
  { destruct (canonical_fields b) as [efs|]; [|discriminate H'].
    apply andb_prop in H'. destruct H' as [H1 H2]. exists efs. split; [reflexivity|].
    split; [apply Nat.leb_le; exact H1|]. intros num0 vb Hin ->. rewrite forallb_forall in H2.
    exact (H2 _ Hin). }
  destruct (fkind_ fd); exact G.
Qed.

Lemma no_dup_msgs_S sc f ty p :
  no_dup_msgs sc (S f) ty p = true ->
  exists flds, canonical_fields p = Some flds /\ singular_msgs_once (nth ty sc empty_md) flds = true /\
    forall fl fd, In fl flds -> find_field (nth ty sc empty_md) (rnum fl) = Some fd -> nd_field (no_dup_msgs sc f) fd fl.
Proof.
  cbn [no_dup_msgs]. intros H. destruct (canonical_fields p) as [flds|]; [|discriminate H].
  apply andb_prop in H. destruct H as [H1 H2]. exists flds. split; [reflexivity|]. split; [exact H1|].
  intros fl fd Hin Hf. rewrite forallb_forall in H2. apply (nd_field_of sc f _ fd fl (H2 fl Hin) Hf).
Qed.

Lemma once_count md flds fd : singular_msgs_once md flds = true -> In fd (mfields md) ->
  single_card (fcard_ fd) = true -> forall t, fkind_ fd = FMsg t -> (count_num (fnum fd) flds <= 1)%nat.
Proof.
  unfold singular_msgs_once. intros H Hin Hc t Ht. rewrite forallb_forall in H. specialize (H fd Hin).
  rewrite Ht in H. destruct (fcard_ fd); try discriminate Hc; apply Nat.leb_le; exact H.
Qed.

(* ---------- Unmarshal of no bytes ---------- *)
Lemma gen_unmarshal_nil sc fast fu ty :
  gen_unmarshal sc fast (S fu) ty [] = if req_top (nth ty sc empty_md) [] then UOk (GMsg [] []) false else UErr.
Proof.
  cbn [gen_unmarshal]. unfold unmarshal_with. cbn [length]. rewrite field_loop_S. reflexivity.
Qed.

Lemma initialized_nil sc ty : initialized sc ty [] = req_top (nth ty sc empty_md) [].
Proof.
  unfold initialized. cbn [length ref_decode ref_decode_into ref_parse_all ref_fold fold_left].
  apply (requireds_top sc ty [] []). apply state_init_nil.
Qed.

Lemma gen_unmarshal_empty sc fast fu ty : initialized sc ty [] = true -> (1 <= fu)%nat ->
  exists al, gen_unmarshal sc fast fu ty [] = UOk (GMsg [] []) al.
Proof.
  intros Hi Hfu. destruct fu as [|fu]; [lia|]. rewrite gen_unmarshal_nil, <- initialized_nil, Hi.
  exists false. reflexivity.
Qed.

(* ---------- the simulation, all nesting levels ---------- *)
Definition msg_result (v : gval) (r : ures) (req : bool) : Prop :=
  if req then exists al, r = UOk v al else r = UErr.

Theorem sim_main sc fast : schema_ok sc = true -> forall n ty p fl fd,
  (length p <= n)%nat -> (length p < fl)%nat -> (length p < fd)%nat ->
  legal_msg sc fl ty p = true -> no_dup_msgs sc fd ty p = true ->
  exists flds fs,
    canonical_fields p = Some flds /\
    ref_decode_into sc (S (length p)) ty GAbsent p
      = Some (GMsg fs (concat (map renc (undecl (nth ty sc empty_md) flds)))) /\
    state_init sc (nth ty sc empty_md) fs /\
    forall fu, (length p < fu)%nat ->
      msg_result (GMsg fs (concat (map renc (undecl (nth ty sc empty_md) flds))))
                 (gen_unmarshal sc fast fu ty p) (req_top (nth ty sc empty_md) fs).
Proof.
  intros Hsc.
  assert (Hnil : forall ty, exists flds fs,
    canonical_fields [] = Some flds /\
    ref_decode_into sc (S (length (@nil byte))) ty GAbsent []
      = Some (GMsg fs (concat (map renc (undecl (nth ty sc empty_md) flds)))) /\
    state_init sc (nth ty sc empty_md) fs /\
    forall fu, (length (@nil byte) < fu)%nat ->
      msg_result (GMsg fs (concat (map renc (undecl (nth ty sc empty_md) flds))))
                 (gen_unmarshal sc fast fu ty []) (req_top (nth ty sc empty_md) fs)).
  { intros ty. exists [], []. split; [reflexivity|]. split; [reflexivity|]. split; [apply state_init_nil|].
    intros fu Hfu. destruct fu as [|fu]; [cbn [length] in Hfu; lia|]. rewrite gen_unmarshal_nil.
    unfold msg_result. cbn [map concat undecl filter].
    destruct (req_top (nth ty sc empty_md) []); [exists false; reflexivity|reflexivity]. }
  induction n as [|n IH]; intros ty p fl fd Hn Hfl Hfd Hleg Hnd.
  - (* the empty input *)
    destruct p as [|x p]; [|cbn [length] in Hn; lia]. apply Hnil.
  - destruct p as [|x0 p0]; [apply Hnil|].
    assert (Hpos : (1 <= length (x0 :: p0))%nat) by (cbn [length]; lia).
    set (p := x0 :: p0) in *. clearbody p. clear x0 p0.
    destruct fl as [|fl]; [lia|]. destruct fd as [|fd]; [lia|].
    rewrite legal_msg_S in Hleg. unfold msg_legal in Hleg.
    destruct (no_dup_msgs_S sc fd ty p Hnd) as (flds & Hcf & Honce & Hndf).
    rewrite Hcf in Hleg.
    set (md := nth ty sc empty_md) in *.
    destruct (canonical_fields_spec p flds Hcf) as (Hp & Hwfs & Hpa).
    pose proof (mdesc_ok_nth sc ty Hsc) as Hmd. fold md in Hmd.
    assert (Hlegs : Forall (fun f => field_legal sc (legal_msg sc fl) md f = true) flds).
    { apply Forall_forall. intros f Hf. rewrite forallb_forall in Hleg. exact (Hleg f Hf). }
    (* what the nested levels deliver, for any nested-Unmarshal fuel *)
    assert (Hrec : forall fu, (length p <= fu)%nat -> forall ty0 b, (length b < length p)%nat ->
              legal_msg sc fl ty0 b = true -> no_dup_msgs sc fd ty0 b = true -> initialized sc ty0 b = true ->
              exists v al, ref_decode_into sc (length p) ty0 GAbsent b = Some v /\
                           gen_unmarshal sc fast fu ty0 b = UOk v al /\
                           requireds_set sc (S (vdepth v)) ty0 v = true).
    { intros fu Hfu ty0 b Hb Hl0 Hn0 Hi0.
      destruct (IH ty0 b fl fd ltac:(lia) ltac:(lia) ltac:(lia) Hl0 Hn0) as (flds0 & fs0 & _ & Hdec & Hsi & Hgen).
      set (v0 := GMsg fs0 (concat (map renc (undecl (nth ty0 sc empty_md) flds0)))) in *.
      unfold initialized, ref_decode in Hi0. rewrite Hdec in Hi0.
      pose proof Hi0 as Hreq. unfold v0 in Hreq. rewrite (requireds_top sc ty0 fs0 _ Hsi) in Hreq.
      specialize (Hgen fu ltac:(lia)). unfold msg_result in Hgen. rewrite Hreq in Hgen. destruct Hgen as [al Hal].
      exists v0, al. split; [|split; [exact Hal|exact Hi0]].
      apply (ref_decode_into_mono sc (S (length b))); [lia|exact Hdec]. }
    (* the reference side, with the top-level Unmarshal fuel abstract *)
    assert (Hmain : forall fu, (length p <= fu)%nat ->
              exists fs' al',
                ref_fold (ref_decode_into sc (length p)) md ([], []) (map rawf flds)
                  = Some (fs', [] ++ concat (map renc (undecl md flds))) /\
                field_loop (gen_unmarshal sc fast fu) (S (length p)) md (mk p 0 fast) [] [] false
                  = (if req_top md fs' then UOk (GMsg fs' ([] ++ concat (map renc (undecl md flds)))) al' else UErr) /\
                state_init sc md fs').
    { intros fu Hfu.
      apply (field_loop_sim sc fast Hsc (gen_unmarshal sc fast fu) (ref_decode_into sc (length p))
               (legal_msg sc fl) (no_dup_msgs sc fd) (length p) (dec0 sc (length p)) (Hrec fu Hfu)
               (fun t Hi => gen_unmarshal_empty sc fast fu t Hi (Nat.le_trans _ _ _ Hpos Hfu))
               md p Hmd (Nat.le_refl _) flds 0%nat (S (length p)) [] [] false Hwfs Hlegs Hndf).
      - intros fd0 Hin0 Hc0 t Ht. split; [exact (once_count md flds fd0 Honce Hin0 Hc0 t Ht)|]. intros _ [].
      - cbn [skipn]. exact Hp.
      - pose proof (fields_count flds) as Hc. rewrite <- Hp in Hc. lia.
      - apply state_init_nil. }
    destruct (Hmain (length p) (Nat.le_refl _)) as (fs' & al0 & Hfold & _ & Hsi).
    cbn [app] in Hfold.
    exists flds, fs'. split; [exact Hcf|]. split; [|split; [exact Hsi|]].
    + cbn [ref_decode_into]. rewrite (Hpa (S (length p)) (Nat.lt_succ_diag_r _)). fold md. rewrite Hfold. reflexivity.
    + intros fu Hfu. destruct fu as [|fu]; [lia|].
      destruct (Hmain fu ltac:(lia)) as (fs2 & al2 & Hfold2 & Hloop & _).
      cbn [app] in Hfold2, Hloop. rewrite Hfold in Hfold2. inversion Hfold2; subst fs2.
      cbn [gen_unmarshal]. unfold unmarshal_with. fold md. fold (mk p 0 fast). rewrite Hloop.
      unfold msg_result. destruct (req_top md fs'); [exists al2; reflexivity|reflexivity].
Qed.

Definition unknown_of_gval (v : gval) : list byte := match v with GMsg _ u => u | _ => [] end.

(* the strong form: the very message the reference reads *)
Theorem legal_encodings_strong : forall sc ty p fast dest,
  schema_ok sc = true ->
  legal_msg sc (S (length p)) ty p = true -> no_dup_msgs sc (S (length p)) ty p = true ->
  exists v flds, ref_decode sc (S (length p)) ty p = Some v /\
    canonical_fields p = Some flds /\
    unknown_of_gval v = concat (map renc (undecl (nth ty sc empty_md) flds)) /\
    if requireds_set sc (S (vdepth v)) ty v
    then exists al, gen_unmarshal_into sc fast ty dest p = UOk v al
    else gen_unmarshal_into sc fast ty dest p = UErr.
Proof.
  intros sc ty p fast dest Hsc Hleg Hnd.
  destruct (sim_main sc fast Hsc (length p) ty p (S (length p)) (S (length p)) (Nat.le_refl _)
              (Nat.lt_succ_diag_r _) (Nat.lt_succ_diag_r _) Hleg Hnd) as (flds & fs & Hcf & Hdec & Hsi & Hgen).
  eexists; exists flds. split; [exact Hdec|]. split; [exact Hcf|]. split; [reflexivity|].
  rewrite (requireds_top sc ty fs _ Hsi). unfold gen_unmarshal_into.
  exact (Hgen (S (length p)) (Nat.lt_succ_diag_r _)).
Qed.

(* C06, as stated: equality implies equality of canonical forms *)
Theorem legal_encodings : forall sc ty p fast dest,
  schema_ok sc = true ->
  legal_msg sc (S (length p)) ty p = true -> no_dup_msgs sc (S (length p)) ty p = true ->
  exists v, ref_decode sc (S (length p)) ty p = Some v /\
    if requireds_set sc (S (vdepth v)) ty v
    then exists m al, gen_unmarshal_into sc fast ty dest p = UOk m al /\
         forall fuel, (vdepth v < fuel)%nat -> (vdepth m < fuel)%nat -> normalize sc fuel ty m = normalize sc fuel ty v
    else gen_unmarshal_into sc fast ty dest p = UErr.
Proof.
  intros sc ty p fast dest Hsc Hleg Hnd.
  destruct (legal_encodings_strong sc ty p fast dest Hsc Hleg Hnd) as (v & flds & Hdec & _ & _ & Hif).
  exists v. split; [exact Hdec|].
  destruct (requireds_set sc (S (vdepth v)) ty v); [|exact Hif].
  destruct Hif as [al Hal]. exists v, al. split; [exact Hal|]. intros fuel _ _. reflexivity.
Qed.

(* C17, second half *)
Theorem unmarshal_error_iff : forall sc ty p fast dest,
  schema_ok sc = true -> legal_msg sc (S (length p)) ty p = true -> no_dup_msgs sc (S (length p)) ty p = true ->
  exists v, ref_decode sc (S (length p)) ty p = Some v /\
    (gen_unmarshal_into sc fast ty dest p = UErr <-> requireds_set sc (S (vdepth v)) ty v = false).
Proof.
  intros sc ty p fast dest Hsc Hleg Hnd.
  destruct (legal_encodings_strong sc ty p fast dest Hsc Hleg Hnd) as (v & flds & Hdec & _ & _ & Hif).
  exists v. split; [exact Hdec|].
  destruct (requireds_set sc (S (vdepth v)) ty v).
  - destruct Hif as [al Hal]. rewrite Hal. split; discriminate.
  - rewrite Hif. split; reflexivity.
Qed.

(* C07: Unmarshal then Marshal *)
Theorem unknown_roundtrip : forall sc ty p fast dest m al,
  schema_ok sc = true -> legal_msg sc (S (length p)) ty p = true -> no_dup_msgs sc (S (length p)) ty p = true ->
  gen_unmarshal_into sc fast ty dest p = UOk m al ->
  N.of_nat (gen_size sc (S (vdepth m)) ty m) < 2^31 ->
  exists b v v', gen_marshal sc ty m = MBytes b /\ length b = gen_size sc (S (vdepth m)) ty m /\
    ref_decode sc (S (length p)) ty p = Some v /\ ref_decode sc (S (length b)) ty b = Some v' /\
    forall fuel, (vdepth v < fuel)%nat -> (vdepth v' < fuel)%nat -> normalize sc fuel ty v' = normalize sc fuel ty v.
Proof.
  intros sc ty p fast dest m al Hsc Hleg Hnd Hun Hsz.
  destruct (legal_encodings_strong sc ty p fast dest Hsc Hleg Hnd) as (v & flds & Hdec & _ & _ & Hif).
  destruct (requireds_set sc (S (vdepth v)) ty v) eqn:Hreq; [|rewrite Hif in Hun; discriminate Hun].
  destruct Hif as [al' Hal]. rewrite Hal in Hun. inversion Hun; subst m al'. clear Hun.
  destruct (legal_value_ok sc ty p v Hsc Hleg Hnd Hdec) as [Hv Hu].
  pose proof (marshal_spec sc ty v Hsc Hv Hsz) as Hms.
  pose proof (marshal_error_iff sc ty v Hsc Hv Hsz) as Hme.
  destruct (gen_marshal sc ty v) as [b| |] eqn:Hm.
  - destruct Hms as [Hlen _].
    destruct (reference_roundtrip sc ty v b O Hsc Hv Hu Hsz Hm) as (v' & Hdec' & _).
    exists b, v, v'. split; [reflexivity|]. split; [exact Hlen|]. split; [exact Hdec|]. split; [exact Hdec'|].
    intros fuel H1 H2.
    destruct (reference_roundtrip sc ty v b fuel Hsc Hv Hu Hsz Hm) as (v'' & Hdec'' & Hn).
    rewrite Hdec' in Hdec''. inversion Hdec''; subst v''. apply Hn; assumption.
  - destruct Hme as [Hme _]. rewrite (Hme eq_refl) in Hreq. discriminate Hreq.
  - contradiction.
Qed.

Print Assumptions sim_main.
Print Assumptions legal_encodings.
Print Assumptions unmarshal_error_iff.
Print Assumptions unknown_roundtrip.
