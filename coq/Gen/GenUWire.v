(* Wire-level facts for the Unmarshal simulation (C06): the csproto decoder model on the payloads a
   legal encoding (GenLegal.v) carries, against the reference readings of RefMsg.v.  No schema here. *)
From CsProto Require Import Prelude Varint VarintProof VarintSize ZigZag Codec RefWire WireStmts.
From CsProto Require Import CodecBase EncProofs DecProofs SafeProofs ZigZagDec.
From CsProto Require Import Schema GenMarshal RefMsg GenStmts GenUnmarshal GenLegal GenRArith GenRWire.
Local Open Scope N_scope.

Lemma bytes_eqb_eq a b : bytes_eqb a b = true -> a = b.
Proof. Admitted.

Lemma forallb_bytes_ok b : forallb (fun x => x <? 256) b = true -> bytes_ok b.
Proof. Admitted.

Lemma rfield_wfb_wf f : rfield_wfb f = true -> rfield_wf f.
Proof. Admitted.

Lemma rfield_wfb_payload f : rfield_wfb f = true ->
  match f with RVarint _ _ => True | RFixed64 _ b | RFixed32 _ b | RLen _ b => bytes_ok b end.
Proof. Admitted.

(* the key of a canonical field at the cursor *)
Lemma dec_tag_renc B off fast f rest : rfield_wf f -> skipn off B = renc f ++ rest ->
  at_eof (mk B off fast) = false /\
  dec_tag (mk B off fast) = DOk (rnum f, rwt f) (mk B (off + length (rkey f)) fast) /\
  skipn (off + length (rkey f)) B = rpayload f ++ rest.
Proof. Admitted.

(* Skip after the key: the whole field, which is the slice the generated code appends *)
Lemma dec_skip_renc B off fast f rest : rfield_wf f -> skipn off B = renc f ++ rest ->
  dec_skip (mk B (off + length (rkey f)) fast) (Z.of_N (rnum f)) (Z.of_N (rwt f))
    = DOk (renc f) (mk B (off + length (renc f)) fast) /\
  slice B off (off + length (renc f)) = renc f.
Proof. Admitted.

(* the typed readers agree with the textbook readings on writer-emittable wire values *)
Lemma of_wire_typed_varint k v : wt_of k = 0 -> wire_in_range k v = true ->
  v < 2^64 /\ of_wire k v = Some (typed_of_wire k v) /\ in_dom k (typed_of_wire k v) = true.
Proof. Admitted.

Lemma of_wire_typed_fixed k b : wt_of k <> 0 -> length b = width_of k -> bytes_ok b ->
  of_wire k (le_val b) = Some (typed_of_wire k (le_val b)) /\ in_dom k (typed_of_wire k (le_val b)) = true.
Proof. Admitted.

(* one scalar occurrence *)
Lemma dec_scalar_legal B off fast k f rest : rfield_wfb f = true -> scalar_legal k f = true ->
  skipn off B = rpayload f ++ rest ->
  rwt f = wt_of k /\
  exists z, scalar_of_field k f = Some z /\ in_dom k z = true /\
    dec_scalar (mk B off fast) k = DOk z (mk B (off + length (rpayload f)) fast).
Proof. Admitted.

(* length-delimited payloads *)
Lemma dec_bytes_legal B off fast num b rest : rfield_wfb (RLen num b) = true ->
  skipn off B = rpayload (RLen num b) ++ rest ->
  dec_bytes (mk B off fast) = DOk b (mk B (off + length (rpayload (RLen num b))) fast).
Proof. Admitted.

Lemma dec_nested_legal nested B off fast num b rest : rfield_wfb (RLen num b) = true ->
  skipn off B = rpayload (RLen num b) ++ rest ->
  dec_nested nested (mk B off fast)
  = if nested b then DOk b (mk B (off + length (rpayload (RLen num b))) fast) else DErr (mk B off fast).
Proof. Admitted.

Lemma dec_packed_legal B off fast k num b rest : rfield_wfb (RLen num b) = true ->
  packed_legal (S (length b)) k b = true ->
  skipn off B = rpayload (RLen num b) ++ rest ->
  exists zs, unpack (S (length b)) k b = Some zs /\ Forall (fun z => in_dom k z = true) zs /\
    dec_packed (mk B off fast) k = DOk zs (mk B (off + length (rpayload (RLen num b))) fast).
Proof. Admitted.

(* the map-entry header: DecodeUInt32 reads the entry size *)
Lemma dec_len_legal B off fast num b rest : rfield_wfb (RLen num b) = true ->
  skipn off B = rpayload (RLen num b) ++ rest ->
  dec_scalar (mk B off fast) KUInt32
    = DOk (Z.of_nat (length b)) (mk B (off + length (ref_varint (N.of_nat (length b)))) fast) /\
  skipn (off + length (ref_varint (N.of_nat (length b)))) B = b ++ rest /\
  (off + length (ref_varint (N.of_nat (length b))) + length b <= length B)%nat /\
  length (rpayload (RLen num b)) = (length (ref_varint (N.of_nat (length b))) + length b)%nat.
Proof. Admitted.
