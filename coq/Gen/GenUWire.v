(* Wire-level facts for the Unmarshal simulation (C06): the csproto decoder model on the payloads a
   legal encoding (GenLegal.v) carries, against the reference readings of RefMsg.v.  No schema here. *)
From CsProto Require Import Prelude Varint VarintProof VarintSize ZigZag Codec RefWire WireStmts.
From CsProto Require Import CodecBase EncProofs DecProofs SafeProofs ZigZagDec.
From CsProto Require Import Schema GenMarshal RefMsg GenStmts GenUnmarshal GenLegal GenRArith GenRWire.
Local Open Scope N_scope.

Lemma bytes_eqb_eq a b : bytes_eqb a b = true -> a = b.
Proof.
  unfold bytes_eqb. revert b.
  induction a as [|x a IH]; intros [|y b] H; cbn [length combine forallb Nat.eqb andb] in H; try discriminate H.
  - reflexivity.
  - apply andb_prop in H. destruct H as [Hl H]. apply andb_prop in H. destruct H as [Hx Hf].
    apply N.eqb_eq in Hx. subst y. f_equal. apply IH. rewrite Hl, Hf. reflexivity.
Qed.

Lemma forallb_bytes_ok b : forallb (fun x => x <? 256) b = true -> bytes_ok b.
Proof.
  intros H. unfold bytes_ok. apply Forall_forall. intros x Hin.
  rewrite forallb_forall in H. apply N.ltb_lt. exact (H x Hin).
Qed.

Lemma rfield_wfb_wf f : rfield_wfb f = true -> rfield_wf f.
Proof.
  unfold rfield_wfb, rfield_wf. intros H.
  apply andb_prop in H. destruct H as [H Hp]. apply andb_prop in H. destruct H as [H1 H2].
  apply N.leb_le in H1. apply N.leb_le in H2. unfold max_tag in H2.
  split; [split; assumption|].
  destruct f as [num v|num b|num b|num b].
  - apply N.ltb_lt. exact Hp.
  - apply andb_prop in Hp. destruct Hp as [Hl _]. apply Nat.eqb_eq. exact Hl.
  - apply andb_prop in Hp. destruct Hp as [Hl _]. apply Nat.eqb_eq. exact Hl.
  - apply andb_prop in Hp. destruct Hp as [Hl _]. apply N.leb_le in Hl. exact Hl.
Qed.

Lemma rfield_wfb_payload f : rfield_wfb f = true ->
  match f with RVarint _ _ => True | RFixed64 _ b | RFixed32 _ b | RLen _ b => bytes_ok b end.
Proof.
  unfold rfield_wfb. intros H. apply andb_prop in H. destruct H as [_ Hp].
  destruct f as [num v|num b|num b|num b]; [exact I| | |];
    apply andb_prop in Hp; destruct Hp as [_ Hb]; apply forallb_bytes_ok; exact Hb.
Qed.

(* the key of a canonical field at the cursor *)
Lemma dec_tag_renc B off fast f rest : rfield_wf f -> skipn off B = renc f ++ rest ->
  at_eof (mk B off fast) = false /\
  dec_tag (mk B off fast) = DOk (rnum f, rwt f) (mk B (off + length (rkey f)) fast) /\
  skipn (off + length (rkey f)) B = rpayload f ++ rest.
Proof.
  intros Hwf Hs. pose proof Hwf as [Hn _]. pose proof (rwt_lt8 f) as Hw.
  pose proof (rkey_enc f Hwf) as Hkey.
  assert (Hs' : skipn off B = enc_key (rnum f) (rwt f) ++ rpayload f ++ rest).
  { rewrite Hs. unfold renc. rewrite Hkey, <- app_assoc. reflexivity. }
  destruct (app_nonnil_len (enc_key (rnum f) (rwt f)) (rpayload f ++ rest)
              ltac:(unfold enc_key; apply enc_varint_pos)) as (a & r & Hnn).
  pose proof Hs' as Hs0. rewrite Hnn in Hs0.
  split; [exact (at_eof_false B off fast a r Hs0)|]. rewrite Hkey. split.
  - apply dec_tag_ok with (rest := rpayload f ++ rest); [exact Hn|exact Hw|exact Hs'].
  - apply skipn_app_step. exact Hs'.
Qed.

Lemma dec_skip_renc B off fast f rest : rfield_wf f -> skipn off B = renc f ++ rest ->
  dec_skip (mk B (off + length (rkey f)) fast) (Z.of_N (rnum f)) (Z.of_N (rwt f))
    = DOk (renc f) (mk B (off + length (renc f)) fast) /\
  slice B off (off + length (renc f)) = renc f.
Proof.
  intros Hwf Hs. split; [apply dec_skip_ok with (rest := rest); assumption|].
  apply slice_at with (y := rest). exact Hs.
Qed.

(* ---------- arithmetic ---------- *)
Lemma uw_i64n_sgn n : n < 2^64 -> i64n n = sgn 64 n /\ (- 2^63 <= sgn 64 n < 2^63)%Z.
Proof.
  intros Hn. destruct (N.lt_ge_cases n (2^63)) as [Hlo|Hhi].
  - rewrite i64n_lo by exact Hlo.
    rewrite (sgn_gen 64 n (Z.of_N n) 0 pow64_split); [split; [reflexivity|lia]| |lia].
    change (64 - 1)%Z with 63%Z. lia.
  - rewrite i64n_hi by (split; assumption).
    rewrite (sgn_gen 64 n (Z.of_N n - 2^64) 1 pow64_split); [split; [reflexivity|lia]| |lia].
    change (64 - 1)%Z with 63%Z. lia.
Qed.

Lemma uw_i32n_sgn n : n < 2^32 -> i32n n = sgn 32 n /\ (- 2^31 <= sgn 32 n < 2^31)%Z.
Proof.
  intros Hn. destruct (N.lt_ge_cases n (2^31)) as [Hlo|Hhi].
  - rewrite i32n_lo by exact Hlo.
    rewrite (sgn_gen 32 n (Z.of_N n) 0 pow32_split); [split; [reflexivity|lia]| |lia].
    change (32 - 1)%Z with 31%Z. lia.
  - rewrite i32n_hi by (split; assumption).
    rewrite (sgn_gen 32 n (Z.of_N n - 2^32) 1 pow32_split); [split; [reflexivity|lia]| |lia].
    change (32 - 1)%Z with 31%Z. lia.
Qed.

(* a sign-extended int32 on the wire *)
Lemma uw_int32_wire v : v < 2^31 \/ (2^64 - 2^31 <= v /\ v < 2^64) ->
  i64n v = sgn 32 v /\ (- 2^31 <= sgn 32 v < 2^31)%Z.
Proof.
  intros [Hlo|[Hhi Hlt]].
  - rewrite i64n_lo by lia.
    rewrite (sgn_gen 32 v (Z.of_N v) 0 pow32_split); [split; [reflexivity|lia]| |lia].
    change (32 - 1)%Z with 31%Z. lia.
  - rewrite i64n_hi by lia.
    rewrite (sgn_gen 32 v (Z.of_N v - 2^64) (2^32) pow32_split); [split; [reflexivity|lia]| |lia].
    change (32 - 1)%Z with 31%Z. lia.
Qed.

Lemma uw_unzigzag_range u M : (Z.of_N u < 2 * M)%Z -> (- M <= unzigzag u < M)%Z.
Proof.
  intros Hu. unfold unzigzag.
  pose proof (N.div_mod' u 2) as H1. pose proof (N.mod_lt u 2 ltac:(lia)) as H2.
  pose proof (N.div_mod' (u + 1) 2) as H3. pose proof (N.mod_lt (u + 1) 2 ltac:(lia)) as H4.
  set (q := u / 2) in *. set (r := u mod 2) in *.
  set (q' := (u + 1) / 2) in *. set (r' := (u + 1) mod 2) in *.
  destruct (N.even u); lia.
Qed.

Lemma uw_le_val_lt b : bytes_ok b -> le_val b < 256 ^ N.of_nat (length b).
Proof.
  induction 1 as [|x b Hx Hb IH]; cbn [le_val length].
  - change (256 ^ N.of_nat 0) with 1. lia.
  - rewrite Nat2N.inj_succ, N.pow_succ_r'. set (P := 256 ^ N.of_nat (length b)) in *. lia.
Qed.

(* the typed readers agree with the textbook readings on writer-emittable wire values *)
Lemma of_wire_typed_varint k v : wt_of k = 0 -> wire_in_range k v = true ->
  v < 2^64 /\ of_wire k v = Some (typed_of_wire k v) /\ in_dom k (typed_of_wire k v) = true.
Proof.
  intros Hwt Hr.
  destruct k; cbn [wt_of] in Hwt; try discriminate Hwt; clear Hwt;
    cbn [wire_in_range] in Hr; cbn [of_wire typed_of_wire in_dom].
  - (* bool *) apply N.ltb_lt in Hr. split; [exact Hr|]. split; [reflexivity|].
    destruct (v =? 0); reflexivity.
  - (* int32 *)
    assert (Hc : v < 2^31 \/ (2^64 - 2^31 <= v /\ v < 2^64)).
    { apply orb_prop in Hr. destruct Hr as [H|H]; [left; apply N.ltb_lt; exact H|right].
      apply andb_prop in H. destruct H as [H1 H2]. apply N.leb_le in H1. apply N.ltb_lt in H2.
      split; assumption. }
    destruct (uw_int32_wire v Hc) as [He Hrg].
    split; [destruct Hc as [Hc|[_ Hc]]; [lia|exact Hc]|].
    cbv zeta. rewrite He. set (s := sgn 32 v) in *.
    change (- 2^31)%Z with (-2147483648)%Z in *. change (2^31)%Z with 2147483648%Z in *.
    destruct (Z.ltb_spec 2147483647 s) as [H1|H1]; [lia|].
    destruct (Z.ltb_spec s (-2147483648)) as [H2|H2]; [lia|].
    cbn [orb]. split; [reflexivity|lia].
  - (* int64 *) apply N.ltb_lt in Hr. destruct (uw_i64n_sgn v Hr) as [He Hrg].
    split; [exact Hr|]. rewrite He. split; [reflexivity|lia].
  - (* uint32 *) apply N.ltb_lt in Hr. split; [lia|].
    rewrite N.mod_small by exact Hr.
    destruct (N.ltb_spec 4294967295 v) as [H1|H1]; [lia|]. split; [reflexivity|lia].
  - (* uint64 *) apply N.ltb_lt in Hr. split; [exact Hr|].
    rewrite N.mod_small by exact Hr. split; [reflexivity|lia].
  - (* sint32 *) apply N.ltb_lt in Hr. split; [lia|].
    rewrite dec_zz32_unzig. split; [reflexivity|].
    rewrite N.mod_small by exact Hr.
    pose proof (uw_unzigzag_range v (2^31)%Z ltac:(lia)) as Hu. lia.
  - (* sint64 *) apply N.ltb_lt in Hr. split; [exact Hr|].
    rewrite dec_zz64_unzig by exact Hr. rewrite N.mod_small by exact Hr. split; [reflexivity|].
    pose proof (uw_unzigzag_range v (2^63)%Z ltac:(lia)) as Hu. lia.
Qed.

Lemma of_wire_typed_fixed k b : wt_of k <> 0 -> length b = width_of k -> bytes_ok b ->
  of_wire k (le_val b) = Some (typed_of_wire k (le_val b)) /\ in_dom k (typed_of_wire k (le_val b)) = true.
Proof.
  intros Hwt Hl Hb. pose proof (uw_le_val_lt b Hb) as Hlt. rewrite Hl in Hlt.
  set (n := le_val b) in *.
  destruct k; cbn [wt_of] in Hwt; try (exfalso; apply Hwt; reflexivity); clear Hwt;
    cbn [width_of] in Hlt; cbn [of_wire typed_of_wire in_dom];
    try change (256 ^ N.of_nat 4) with (2^32) in Hlt; try change (256 ^ N.of_nat 8) with (2^64) in Hlt.
  - rewrite N.mod_small by exact Hlt. split; [reflexivity|lia].
  - rewrite N.mod_small by exact Hlt. split; [reflexivity|lia].
  - destruct (uw_i32n_sgn n Hlt) as [He Hrg]. rewrite He. split; [reflexivity|lia].
  - destruct (uw_i64n_sgn n Hlt) as [He Hrg]. rewrite He. split; [reflexivity|lia].
  - rewrite N.mod_small by exact Hlt. split; [reflexivity|lia].
  - rewrite N.mod_small by exact Hlt. split; [reflexivity|lia].
Qed.

(* ---------- decoder plumbing ---------- *)
Lemma uw_dv_ref v rest : v < 2^64 -> dec_varint (ref_varint v ++ rest) = inl (v, length (ref_varint v)).
Proof. intros H. rewrite <- varint_canonical by exact H. apply dec_enc_varint. exact H. Qed.

Lemma uw_off_lt B off (x rest : list N) : (1 <= length x)%nat -> skipn off B = x ++ rest -> (off < length B)%nat.
Proof.
  intros Hx Hs. destruct (app_nonnil_len x rest Hx) as (a & r & Hnn). rewrite Hnn in Hs.
  eapply skipn_cons_lt. exact Hs.
Qed.

Lemma uw_wt0_varint k : wt_of k = 0 -> is_varint_kind k = true.
Proof. destruct k; cbn [wt_of]; intros H; try discriminate H; reflexivity. Qed.
Lemma uw_wtn0_width k : wt_of k <> 0 ->
  is_varint_kind k = false /\ (wt_of k = 5 /\ width_of k = 4%nat \/ wt_of k = 1 /\ width_of k = 8%nat).
Proof.
  destruct k; cbn [wt_of width_of]; intros H; try (exfalso; apply H; reflexivity);
    (split; [reflexivity|]); (left; split; reflexivity) || (right; split; reflexivity).
Qed.

Lemma uw_read_elem_varint {A} k v n (d : decoder) p (kont : option (Z * nat) -> dres A) :
  wt_of k = 0 -> wire_in_range k v = true -> dec_varint p = inl (v, n) ->
  read_elem k d p kont = kont (Some (typed_of_wire k v, n)).
Proof.
  intros Hwt Hr Hd. destruct (of_wire_typed_varint k v Hwt Hr) as (_ & Hof & _).
  unfold read_elem. rewrite (uw_wt0_varint k Hwt), Hd, Hof. reflexivity.
Qed.

Lemma uw_read_elem_fixed {A} k (d : decoder) p (kont : option (Z * nat) -> dres A) :
  wt_of k <> 0 -> (width_of k <= length p)%nat -> (length p <= length (dbuf d) - doff d)%nat ->
  bytes_ok (firstn (width_of k) p) ->
  read_elem k d p kont = kont (Some (typed_of_wire k (le_val (firstn (width_of k) p)), width_of k)).
Proof.
  intros Hwt Hw Hroom Hb.
  destruct (of_wire_typed_fixed k (firstn (width_of k) p) Hwt (firstn_length_le p Hw) Hb) as [Hof _].
  destruct (uw_wtn0_width k Hwt) as [Hv _].
  unfold read_elem. rewrite Hv. cbv zeta.
  set (w := width_of k) in *.
  destruct (Nat.ltb_spec (length p) w) as [Hc|_]; [lia|].
  destruct (Nat.ltb_spec (length (dbuf d) - doff d) w) as [Hc|_]; [lia|].
  unfold go_le. destruct (Nat.ltb_spec (length p) w) as [Hc|_]; [lia|].
  rewrite Hof. destruct k; reflexivity.
Qed.

Lemma uw_dec_scalar_unf B off fast k : (off < length B)%nat ->
  dec_scalar (mk B off fast) k =
  read_elem k (mk B off fast) (skipn off B) (fun r =>
    match r with None => DErr (mk B off fast) | Some (z, n) => DOk z (mk B (off + n) fast) end).
Proof.
  intros Hlt. unfold dec_scalar, at_eof. cbn [mk dbuf doff].
  destruct (Nat.leb_spec (length B) off) as [Hc|_]; [lia|].
  rewrite go_from_ok by lia. reflexivity.
Qed.

(* one scalar occurrence *)
Lemma dec_scalar_legal B off fast k f rest : rfield_wfb f = true -> scalar_legal k f = true ->
  skipn off B = rpayload f ++ rest ->
  rwt f = wt_of k /\
  exists z, scalar_of_field k f = Some z /\ in_dom k z = true /\
    dec_scalar (mk B off fast) k = DOk z (mk B (off + length (rpayload f)) fast).
Proof.
  intros Hwfb Hleg Hs.
  pose proof (rfield_wfb_wf f Hwfb) as [_ Hwf]. pose proof (rfield_wfb_payload f Hwfb) as Hpay.
  destruct f as [num v|num b|num b|num b]; cbn [scalar_legal rwt rpayload rvalue scalar_of_field] in *.
  - (* varint *)
    apply andb_prop in Hleg. destruct Hleg as [Hwt Hr]. apply N.eqb_eq in Hwt.
    destruct (of_wire_typed_varint k v Hwt Hr) as (Hv & _ & Hdom).
    split; [symmetry; exact Hwt|]. exists (typed_of_wire k v).
    rewrite Hwt, N.eqb_refl. split; [reflexivity|]. split; [exact Hdom|].
    pose proof (uw_off_lt B off _ rest (ref_varint_pos' v) Hs) as Hlt.
    rewrite uw_dec_scalar_unf by exact Hlt.
    rewrite (uw_read_elem_varint k v (length (ref_varint v))); [reflexivity|exact Hwt|exact Hr|].
    rewrite Hs. apply uw_dv_ref. exact Hv.
  - (* fixed64 *)
    apply N.eqb_eq in Hleg. assert (Hne : wt_of k <> 0) by (rewrite Hleg; discriminate).
    destruct (uw_wtn0_width k Hne) as [_ [[Hc _]|[_ Hwd]]]; [rewrite Hleg in Hc; discriminate Hc|].
    destruct (of_wire_typed_fixed k b Hne ltac:(lia) Hpay) as [_ Hdom].
    split; [symmetry; exact Hleg|]. exists (typed_of_wire k (le_val b)).
    rewrite Hleg, N.eqb_refl. split; [reflexivity|]. split; [exact Hdom|].
    pose proof (uw_off_lt B off b rest ltac:(lia) Hs) as Hlt.
    pose proof (skipn_len_eq off B _ Hs ltac:(lia)) as HlenB. rewrite app_length in HlenB.
    assert (Hf : firstn (width_of k) (b ++ rest) = b) by (rewrite Hwd, <- Hwf; apply firstn_app_exact).
    rewrite uw_dec_scalar_unf by exact Hlt. rewrite Hs.
    rewrite uw_read_elem_fixed; [rewrite Hf, Hwd, Hwf; reflexivity|exact Hne| | |rewrite Hf; exact Hpay].
    + rewrite app_length. lia.
    + cbn [mk dbuf doff]. rewrite app_length. lia.
  - (* fixed32 *)
    apply N.eqb_eq in Hleg. assert (Hne : wt_of k <> 0) by (rewrite Hleg; discriminate).
    destruct (uw_wtn0_width k Hne) as [_ [[_ Hwd]|[Hc _]]]; [|rewrite Hleg in Hc; discriminate Hc].
    destruct (of_wire_typed_fixed k b Hne ltac:(lia) Hpay) as [_ Hdom].
    split; [symmetry; exact Hleg|]. exists (typed_of_wire k (le_val b)).
    rewrite Hleg, N.eqb_refl. split; [reflexivity|]. split; [exact Hdom|].
    pose proof (uw_off_lt B off b rest ltac:(lia) Hs) as Hlt.
    pose proof (skipn_len_eq off B _ Hs ltac:(lia)) as HlenB. rewrite app_length in HlenB.
    assert (Hf : firstn (width_of k) (b ++ rest) = b) by (rewrite Hwd, <- Hwf; apply firstn_app_exact).
    rewrite uw_dec_scalar_unf by exact Hlt. rewrite Hs.
    rewrite uw_read_elem_fixed; [rewrite Hf, Hwd, Hwf; reflexivity|exact Hne| | |rewrite Hf; exact Hpay].
    + rewrite app_length. lia.
    + cbn [mk dbuf doff]. rewrite app_length. lia.
  - discriminate Hleg.
Qed.

(* length-delimited payloads *)
Lemma uw_len_facts num b : rfield_wfb (RLen num b) = true ->
  N.of_nat (length b) <= max_len /\ bytes_ok b /\
  ref_varint (N.of_nat (length b)) = enc_varint (N.of_nat (length b)) /\
  length (rpayload (RLen num b)) = (length (ref_varint (N.of_nat (length b))) + length b)%nat.
Proof.
  intros Hwfb. pose proof (rfield_wfb_wf _ Hwfb) as [_ Hwf]. pose proof (rfield_wfb_payload _ Hwfb) as Hpay.
  cbn [rpayload] in *. split; [exact Hwf|]. split; [exact Hpay|]. split.
  - symmetry. apply varint_canonical. lia.
  - apply app_length.
Qed.

Lemma dec_bytes_legal B off fast num b rest : rfield_wfb (RLen num b) = true ->
  skipn off B = rpayload (RLen num b) ++ rest ->
  dec_bytes (mk B off fast) = DOk b (mk B (off + length (rpayload (RLen num b))) fast).
Proof.
  intros Hwfb Hs. destruct (uw_len_facts num b Hwfb) as (Hl & _ & Hc & Hlen).
  rewrite Hlen. cbn [rpayload] in Hs. rewrite <- app_assoc in Hs. rewrite Hc in *.
  rewrite (dec_bytes_ok B off fast b rest Hl Hs). f_equal. apply mk_eq. lia.
Qed.

Lemma dec_nested_legal nested B off fast num b rest : rfield_wfb (RLen num b) = true ->
  skipn off B = rpayload (RLen num b) ++ rest ->
  dec_nested nested (mk B off fast)
  = if nested b then DOk b (mk B (off + length (rpayload (RLen num b))) fast) else DErr (mk B off fast).
Proof.
  intros Hwfb Hs. destruct (uw_len_facts num b Hwfb) as (Hl & _ & Hc & Hlen).
  rewrite Hlen. cbn [rpayload] in Hs. rewrite <- app_assoc in Hs. rewrite Hc in *.
  rewrite (dec_nested_ok nested B off fast b rest Hl Hs).
  destruct (nested b); [|reflexivity]. f_equal. apply mk_eq. lia.
Qed.

(* ---------- packed runs ---------- *)
Lemma uw_packed_legal_S f k p : p <> [] ->
  packed_legal (S f) k p =
    if wt_of k =? 0 then
      match ref_varint_val p, ref_varint_len p with
      | Some v, Some n => wire_in_range k v && bytes_eqb (firstn n p) (ref_varint v) && packed_legal f k (skipn n p)
      | _, _ => false
      end
    else
      if (length p <? width_of k)%nat then false else packed_legal f k (skipn (width_of k) p).
Proof. intros Hp. destruct p as [|x r]; [congruence|reflexivity]. Qed.

Lemma uw_packed_legal_nil fuel k : packed_legal fuel k [] = true.
Proof. destruct fuel; reflexivity. Qed.

(* a canonical varint element at the head of p *)
Lemma uw_canon_elem p v n : ref_varint_val p = Some v -> ref_varint_len p = Some n ->
  bytes_eqb (firstn n p) (ref_varint v) = true -> v < 2^64 ->
  p = ref_varint v ++ skipn n p /\ n = length (ref_varint v).
Proof.
  intros Hval Hlen Heq Hv. apply bytes_eqb_eq in Heq.
  assert (Hp : p = ref_varint v ++ skipn n p) by (rewrite <- Heq; symmetry; apply firstn_skipn).
  split; [exact Hp|].
  destruct (ref_read v (skipn n p) Hv) as [_ Hl]. rewrite <- Hp in Hl. congruence.
Qed.

Lemma uw_packed_loop_legal B fast k rest : forall fuelL p off fuel nread acc,
  bytes_ok p -> packed_legal fuelL k p = true ->
  skipn off B = p ++ rest -> (length p < fuel)%nat ->
  exists zs, unpack fuelL k p = Some zs /\ Forall (fun z => in_dom k z = true) zs /\
    packed_loop fuel k (nread + N.of_nat (length p)) (mk B off fast) nread acc
    = DOk (rev acc ++ zs) (mk B (off + length p) fast).
Proof.
  induction fuelL as [|f IH]; intros p off fuel nread acc Hok Hleg Hs Hfuel.
  - destruct p as [|x r]; [|discriminate Hleg].
    exists []. split; [reflexivity|]. split; [constructor|].
    cbn [length]. rewrite N.add_0_r, packed_loop_done, app_nil_r. f_equal. apply mk_eq. lia.
  - destruct p as [|x r].
    { exists []. split; [reflexivity|]. split; [constructor|].
      cbn [length]. rewrite N.add_0_r, packed_loop_done, app_nil_r. f_equal. apply mk_eq. lia. }
    set (p := x :: r) in *. assert (Hne : p <> []) by discriminate.
    assert (Hlp : (1 <= length p)%nat) by (unfold p; cbn [length]; lia).
    pose proof (uw_off_lt B off p rest Hlp Hs) as Hlt.
    pose proof (skipn_len_eq off B _ Hs ltac:(lia)) as HlenB. rewrite app_length in HlenB.
    destruct fuel as [|fuel]; [lia|].
    assert (Heof : at_eof (mk B off fast) = false).
    { unfold at_eof. cbn [mk dbuf doff]. destruct (Nat.leb_spec (length B) off); [lia|reflexivity]. }
    rewrite uw_packed_legal_S in Hleg by exact Hne. rewrite unpack_S by exact Hne.
    rewrite packed_loop_step; [|lia|exact Heof].
    cbn [mk dbuf doff]. rewrite go_from_ok by lia. rewrite Hs.
    destruct (N.eqb_spec (wt_of k) 0) as [Hwt|Hwt].
    + (* varint element *)
      destruct (ref_varint_val p) as [v|] eqn:Hval; [|discriminate Hleg].
      destruct (ref_varint_len p) as [n|] eqn:Hlen; [|discriminate Hleg].
      apply andb_prop in Hleg. destruct Hleg as [Hleg Hrec]. apply andb_prop in Hleg. destruct Hleg as [Hr Heq].
      destruct (of_wire_typed_varint k v Hwt Hr) as (Hv & _ & Hdom).
      destruct (uw_canon_elem p v n Hval Hlen Heq Hv) as [Hp Hn].
      set (q := skipn n p) in *.
      pose proof (ref_varint_pos' v) as Hpos.
      assert (Hlq : length p = (n + length q)%nat) by (rewrite Hp at 1; rewrite app_length; lia).
      assert (Hs1 : skipn (off + n) B = q ++ rest).
      { rewrite Hn. apply skipn_app_step. rewrite Hs. rewrite Hp at 1. rewrite <- app_assoc. reflexivity. }
      destruct (IH q (off + n)%nat fuel (nread + N.of_nat n) (typed_of_wire k v :: acc)
                  ltac:(unfold q; apply Forall_skipn; exact Hok) Hrec Hs1 ltac:(lia))
        as (zs & Hun & Hall & Hloop).
      exists (typed_of_wire k v :: zs). rewrite Hun. split; [reflexivity|]. split; [constructor; assumption|].
      rewrite (uw_read_elem_varint k v n); [|exact Hwt|exact Hr|].
      * rewrite dadv_mk.
        replace (nread + N.of_nat (length p)) with (nread + N.of_nat n + N.of_nat (length q)) by lia.
        rewrite Hloop. cbn [rev]. rewrite <- app_assoc. cbn [app]. f_equal. apply mk_eq. lia.
      * rewrite Hp at 1. rewrite <- app_assoc, Hn. apply uw_dv_ref. exact Hv.
    + (* fixed-width element *)
      destruct (uw_wtn0_width k Hwt) as [_ Hwd].
      set (w := width_of k) in *.
      assert (Hw1 : (1 <= w)%nat) by (destruct Hwd as [[_ Hwd]|[_ Hwd]]; lia).
      destruct (Nat.ltb_spec (length p) w) as [Hc|Hge]; [discriminate Hleg|].
      set (q := skipn w p) in *.
      assert (Hlq : length p = (w + length q)%nat) by (unfold q; rewrite skipn_length; lia).
      assert (Hp : p = firstn w p ++ q) by (symmetry; apply firstn_skipn).
      assert (Hfl : length (firstn w p) = w) by (apply firstn_length_le; exact Hge).
      assert (Hfok : bytes_ok (firstn w p)) by (apply Forall_firstn; exact Hok).
      assert (Hf : firstn w (p ++ rest) = firstn w p).
      { rewrite Hp at 1. rewrite <- app_assoc. rewrite <- Hfl at 1. apply firstn_app_exact. }
      assert (Hs1 : skipn (off + w) B = q ++ rest).
      { rewrite <- Hfl at 1. apply skipn_app_step. rewrite Hs. rewrite Hp at 1. rewrite <- app_assoc. reflexivity. }
      destruct (of_wire_typed_fixed k (firstn w p) Hwt Hfl Hfok) as [_ Hdom].
      destruct (IH q (off + w)%nat fuel (nread + N.of_nat w) (typed_of_wire k (le_val (firstn w p)) :: acc)
                  ltac:(unfold q; apply Forall_skipn; exact Hok) Hleg Hs1 ltac:(lia))
        as (zs & Hun & Hall & Hloop).
      exists (typed_of_wire k (le_val (firstn w p)) :: zs). rewrite Hun.
      split; [reflexivity|]. split; [constructor; assumption|].
      rewrite uw_read_elem_fixed; fold w.
      * rewrite Hf, dadv_mk.
        replace (nread + N.of_nat (length p)) with (nread + N.of_nat w + N.of_nat (length q)) by lia.
        rewrite Hloop. cbn [rev]. rewrite <- app_assoc. cbn [app]. f_equal. apply mk_eq. lia.
      * exact Hwt.
      * rewrite app_length. lia.
      * cbn [mk dbuf doff]. rewrite app_length. lia.
      * rewrite Hf. exact Hfok.
Qed.

Lemma dec_packed_legal B off fast k num b rest : rfield_wfb (RLen num b) = true ->
  packed_legal (S (length b)) k b = true ->
  skipn off B = rpayload (RLen num b) ++ rest ->
  exists zs, unpack (S (length b)) k b = Some zs /\ Forall (fun z => in_dom k z = true) zs /\
    dec_packed (mk B off fast) k = DOk zs (mk B (off + length (rpayload (RLen num b))) fast).
Proof.
  intros Hwfb Hleg Hs. destruct (uw_len_facts num b Hwfb) as (Hl & Hok & _ & Hlen).
  rewrite Hlen. cbn [rpayload] in Hs. rewrite <- app_assoc in Hs. unfold max_len in Hl.
  set (L := N.of_nat (length b)) in *. set (n := length (ref_varint L)) in *.
  pose proof (uw_off_lt B off _ _ (ref_varint_pos' L) Hs) as Hlt.
  pose proof (skipn_len_eq off B _ Hs ltac:(lia)) as HlenB. rewrite !app_length in HlenB. fold n in HlenB.
  pose proof (skipn_app_step _ _ _ _ Hs) as Hs1. fold n in Hs1.
  destruct (uw_packed_loop_legal B fast k rest (S (length b)) b (off + n)%nat (S (length B)) 0 []
              Hok Hleg Hs1 ltac:(lia)) as (zs & Hun & Hall & Hloop).
  exists zs. split; [exact Hun|]. split; [exact Hall|].
  cbn [rev app] in Hloop. rewrite N.add_0_l in Hloop. fold L in Hloop.
  unfold dec_packed, at_eof. cbn [mk dbuf doff].
  destruct (Nat.leb_spec (length B) off) as [Hc|_]; [lia|].
  rewrite go_from_ok by lia. rewrite Hs, uw_dv_ref by (unfold L; lia). fold n.
  cbv zeta. rewrite !dadv_mk.
  replace (off + (n + length b))%nat with (off + n + length b)%nat by lia.
  destruct k; try exact Hloop.
  cbn [mk dbuf doff].
  destruct (N.ltb_spec (N.of_nat (length B - (off + n))) L) as [Hc|_]; [unfold L in Hc; lia|exact Hloop].
Qed.

(* the map-entry header: DecodeUInt32 reads the entry size *)
Lemma dec_len_legal B off fast num b rest : rfield_wfb (RLen num b) = true ->
  skipn off B = rpayload (RLen num b) ++ rest ->
  dec_scalar (mk B off fast) KUInt32
    = DOk (Z.of_nat (length b)) (mk B (off + length (ref_varint (N.of_nat (length b)))) fast) /\
  skipn (off + length (ref_varint (N.of_nat (length b)))) B = b ++ rest /\
  (off + length (ref_varint (N.of_nat (length b))) + length b <= length B)%nat /\
  length (rpayload (RLen num b)) = (length (ref_varint (N.of_nat (length b))) + length b)%nat.
Proof.
  intros Hwfb Hs. destruct (uw_len_facts num b Hwfb) as (Hl & Hok & _ & Hlen).
  cbn [rpayload] in Hs. rewrite <- app_assoc in Hs. unfold max_len in Hl.
  set (L := N.of_nat (length b)) in *. set (n := length (ref_varint L)) in *.
  pose proof (uw_off_lt B off _ _ (ref_varint_pos' L) Hs) as Hlt.
  pose proof (skipn_len_eq off B _ Hs ltac:(lia)) as HlenB. rewrite !app_length in HlenB. fold n in HlenB.
  pose proof (skipn_app_step _ _ _ _ Hs) as Hs1. fold n in Hs1.
  split; [|split; [exact Hs1|split; [lia|exact Hlen]]].
  assert (Hr : wire_in_range KUInt32 L = true) by (cbn [wire_in_range]; apply N.ltb_lt; lia).
  rewrite uw_dec_scalar_unf by exact Hlt.
  rewrite (uw_read_elem_varint KUInt32 L n); [|reflexivity|exact Hr|rewrite Hs; apply uw_dv_ref; lia].
  cbn [typed_of_wire]. rewrite N.mod_small by lia. unfold L. rewrite nat_N_Z. reflexivity.
Qed.

Print Assumptions dec_scalar_legal.
Print Assumptions dec_packed_legal.
Print Assumptions dec_nested_legal.
Print Assumptions dec_skip_renc.
Print Assumptions dec_len_legal.
