(* The message the reference semantics reads from a LEGAL encoding fits the schema (reference side of
   C06/C07): value_ok and unknowns_ok of the decoded value.  No decoder model involved. *)
From CsProto Require Import Prelude Varint ZigZag Codec RefWire WireStmts CodecBase DecProofs.
From CsProto Require Import Schema GenMarshal RefMsg GenStmts GenUnmarshal GenLegal.
From CsProto Require Import GenRArith GenRWire GenRBase GenRFields GenRMsg GenPBase GenPFuel GenUWire GenUBase.
Local Open Scope N_scope.

(* ---------- generic list helpers ---------- *)
Lemma uv_NoDup_nodupb l : NoDup l -> nodupb l = true.
Proof.
  induction 1 as [|x r Hx Hr IH]; [reflexivity|]. cbn [nodupb]. rewrite IH, andb_true_r.
  apply negb_true_iff. destruct (existsb (N.eqb x) r) eqn:E; [|reflexivity].
  apply existsb_exists in E. destruct E as (y & Hy & He). apply N.eqb_eq in He. subst y. contradiction.
Qed.

Lemma uv_filter_le1 {A} (p : A -> bool) (l : list A) :
  NoDup l -> (forall x y, In x l -> In y l -> p x = true -> p y = true -> x = y) ->
  (length (filter p l) <= 1)%nat.
Proof.
  induction 1 as [|a r Ha Hr IH]; intros H; [cbn; lia|].
  cbn [filter]. destruct (p a) eqn:Ea.
  - assert (E : filter p r = []).
    { destruct (filter p r) as [|y t] eqn:Ef; [reflexivity|]. exfalso.
      assert (Hy : In y (filter p r)) by (rewrite Ef; left; reflexivity).
      apply filter_In in Hy. destruct Hy as [Hy1 Hy2].
      assert (a = y) by (apply H; [left; reflexivity|right; exact Hy1|exact Ea|exact Hy2]).
      subst y. contradiction. }
    rewrite E. cbn [length]. lia.
  - apply IH. intros x y Hx Hy. apply H; right; assumption.
Qed.

Lemma uv_NoDup_filter_keys (P : N * gval -> bool) (fs : list (N * gval)) :
  NoDup (map fst fs) -> NoDup (map fst (filter P fs)).
Proof.
  induction fs as [|[k x] r IH]; cbn [map fst filter]; intros H; [constructor|].
  inversion H as [|? ? Hk Hr]; subst. destruct (P (k, x)); [|apply IH; exact Hr].
  cbn [map fst]. constructor; [|apply IH; exact Hr].
  intros Hin. apply Hk. apply in_map_iff in Hin. destruct Hin as ([k' x'] & He & Hin).
  apply filter_In in Hin. destruct Hin as [Hin _]. apply in_map_iff. exists (k', x'). split; assumption.
Qed.

Lemma uv_NoDup_set n v fs : NoDup (map fst fs) -> NoDup (map fst (set_field n v fs)).
Proof.
  induction fs as [|[k x] r IH]; cbn [set_field map fst]; intros H.
  - constructor; [intros []|constructor].
  - inversion H as [|? ? Hk Hr]; subst. destruct (N.eqb_spec k n) as [He|Hne]; cbn [map fst].
    + constructor; assumption.
    + constructor; [|apply IH; exact Hr]. intros Hin. apply keys_set in Hin.
      destruct Hin as [Hin|Hin]; [congruence|contradiction].
Qed.

Lemma uv_lookup_of_in n x fs : NoDup (map fst fs) -> In (n, x) fs -> lookup_field n fs = x.
Proof.
  induction fs as [|[k y] r IH]; cbn [map fst In lookup_field]; intros Hnd Hin; [destruct Hin|].
  inversion Hnd as [|? ? Hk Hr]; subst. destruct Hin as [Hin|Hin].
  - inversion Hin; subst. rewrite N.eqb_refl. reflexivity.
  - destruct (N.eqb_spec k n) as [He|Hne]; [|apply IH; assumption].
    exfalso. apply Hk. subst k. apply in_map_iff. exists (n, x). split; [reflexivity|exact Hin].
Qed.

Lemma uv_fold_none {A B} (f : A -> B -> option A) l :
  fold_left (fun acc e => match acc with Some a => f a e | None => None end) l None = None.
Proof. induction l as [|x r IH]; [reflexivity|exact IH]. Qed.

(* ---------- bytes of reference encodings ---------- *)
Lemma uv_varint_fuel_ok : forall n v, v < 128 * 128 ^ N.of_nat n -> bytes_ok (ref_varint_fuel n v).
Proof.
  induction n as [|n IH]; intros v Hv.
  - change (128 ^ N.of_nat 0) with 1 in Hv. cbn [ref_varint_fuel]. constructor; [lia|constructor].
  - cbn [ref_varint_fuel]. destruct (N.ltb_spec v 128) as [Hlt|Hge].
    + constructor; [lia|constructor].
    + rewrite Nat2N.inj_succ, N.pow_succ_r' in Hv. set (P := 128 ^ N.of_nat n) in *.
      pose proof (N.mod_lt v 128 ltac:(lia)) as Hm.
      constructor; [lia|]. apply IH. fold P.
      apply N.div_lt_upper_bound; [lia|]. lia.
Qed.

Lemma uv_varint_ok v : v < 2^70 -> bytes_ok (ref_varint v).
Proof. intros H. unfold ref_varint. apply uv_varint_fuel_ok. exact H. Qed.

Lemma uv_bytes_ok_app a b : bytes_ok a -> bytes_ok b -> bytes_ok (a ++ b).
Proof. unfold bytes_ok. intros. apply Forall_app. split; assumption. Qed.

Lemma uv_renc_ok f : rfield_wfb f = true -> bytes_ok (renc f).
Proof.
  intros H. pose proof (rfield_wfb_wf f H) as [[Hn1 Hn2] Hwf]. pose proof (rfield_wfb_payload f H) as Hp.
  unfold renc, rkey. apply uv_bytes_ok_app.
  - apply uv_varint_ok. assert (rwt f < 8) by (destruct f; cbn [rwt]; lia).
    change (2^70) with 1180591620717411303424. lia.
  - destruct f as [num v|num b|num b|num b]; cbn [rpayload rvalue]; try exact Hp.
    + apply uv_varint_ok. change (2^64) with 18446744073709551616 in Hwf.
      change (2^70) with 1180591620717411303424. lia.
    + apply uv_bytes_ok_app; [|exact Hp]. apply uv_varint_ok.
      change (2^70) with 1180591620717411303424. lia.
Qed.

Lemma uv_bytes_ok_forallb b : bytes_ok b -> forallb (fun x => x <? 256) b = true.
Proof. intros H. apply forallb_forall. intros x Hx. apply N.ltb_lt. unfold bytes_ok in H. rewrite Forall_forall in H. auto. Qed.

Lemma uv_concat_ok (l : list rfield) : Forall (fun f => rfield_wfb f = true) l -> bytes_ok (concat (map renc l)).
Proof.
  induction 1 as [|f r Hf Hr IH]; cbn [map concat]; [constructor|].
  apply uv_bytes_ok_app; [apply uv_renc_ok; exact Hf|exact IH].
Qed.

(* ---------- fuel irrelevance of value_ok ---------- *)
Lemma uv_elem_ok_ext (m1 m2 : nat -> gval -> bool) k y :
  (forall ty, m1 ty y = m2 ty y) -> elem_ok m1 k y = elem_ok m2 k y.
Proof. intros H. destruct k, y; cbn [elem_ok]; try reflexivity. apply H. Qed.

Lemma uv_fvo_ext (m1 m2 : nat -> gval -> bool) fd x :
  (forall ty y, (vdepth y <= vdepth x)%nat -> m1 ty y = m2 ty y) ->
  field_value_ok m1 fd x = field_value_ok m2 fd x.
Proof.
  intros H.
  assert (He : forall k, elem_ok m1 k x = elem_ok m2 k x).
  { intros k. apply uv_elem_ok_ext. intros ty. apply H. lia. }
  assert (Hl : forall k l, x = GList l -> forallb (elem_ok m1 k) l = forallb (elem_ok m2 k) l).
  { intros k l ->. apply forallb_ext_in. intros y Hy. apply uv_elem_ok_ext. intros ty. apply H.
    pose proof (ldepth_In y l Hy). rewrite GenPFuel.vdepth_GList. lia. }
  unfold field_value_ok.
  destruct (fcard_ fd) as [| | | | |g|kk vk], x as [|z|b|l|kvs|fs u]; try reflexivity; try apply He;
    try (apply Hl; reflexivity).
  f_equal. apply forallb_ext_in. intros [k y] Hy.
  destruct (mdepth_In k y kvs Hy) as [H1 H2]. rewrite GenPFuel.vdepth_GMap in H.
  f_equal; apply uv_elem_ok_ext; intros ty; apply H; lia.
Qed.

Lemma value_ok_fuel sc : forall f1 f2 ty v, (vdepth v < f1)%nat -> (vdepth v < f2)%nat ->
  value_ok sc f1 ty v = value_ok sc f2 ty v.
Proof.
  induction f1 as [|f1 IH]; intros f2 ty v H1 H2; [lia|].
  destruct f2 as [|f2]; [lia|].
  destruct v as [| | | | |fs u]; try reflexivity.
  rewrite !value_ok_S. f_equal. rewrite GenPFuel.vdepth_GMsg in H1, H2.
  unfold msg_value_ok. f_equal. f_equal.
  apply forallb_ext_in. intros [n x] Hx. pose proof (fdepth_In n x fs Hx) as Hd.
  destruct (find_field (nth ty sc empty_md) n) as [fd|]; [|reflexivity].
  apply uv_fvo_ext. intros ty0 y Hy. apply IH; lia.
Qed.

Lemma uv_fsub_ext (s1 s2 : fkind -> gval -> bool) fd x :
  (forall k y, (vdepth y <= vdepth x)%nat -> s1 k y = s2 k y) -> field_sub s1 fd x = field_sub s2 fd x.
Proof.
  intros H.
  assert (Hl : forall k l, x = GList l -> forallb (s1 k) l = forallb (s2 k) l).
  { intros k l ->. apply forallb_ext_in. intros y Hy. apply H.
    pose proof (ldepth_In y l Hy). rewrite GenPFuel.vdepth_GList. lia. }
  unfold field_sub.
  destruct (fcard_ fd) as [| | | | |g|kk vk], x as [|z|b|l|kvs|fs u]; try reflexivity;
    try (apply H; lia); try (apply Hl; reflexivity).
  apply forallb_ext_in. intros [k y] Hy.
  destruct (mdepth_In k y kvs Hy) as [H1 H2]. rewrite GenPFuel.vdepth_GMap in H. apply H. lia.
Qed.

Lemma uv_field_sub_absent s fd : field_sub s fd GAbsent = true.
Proof. unfold field_sub. destruct (fcard_ fd); reflexivity. Qed.

Lemma uv_groups_ok md fs : NoDup (mfields md) ->
  (forall g f1 f2, In f1 (mfields md) -> In f2 (mfields md) -> in_group g f1 = true -> in_group g f2 = true ->
     lookup_field (fnum f1) fs <> GAbsent -> lookup_field (fnum f2) fs <> GAbsent -> f1 = f2) ->
  groups_ok md fs = true.
Proof.
  intros Hnd H. unfold groups_ok. apply forallb_forall. intros g _. apply Nat.leb_le.
  apply uv_filter_le1; [exact Hnd|]. intros x y Hx Hy Px Py.
  apply andb_prop in Px, Py. destruct Px as [Px1 Px2], Py as [Py1 Py2].
  apply (H g x y Hx Hy Px1 Py1).
  - intros E. rewrite E in Px2. discriminate Px2.
  - intros E. rewrite E in Py2. discriminate Py2.
Qed.

Section Msg.
Variable sc : schema.
Hypothesis Hsc : schema_ok sc = true.
Variable dm : nat -> gval -> list byte -> option gval.
Variable lg nd : nat -> list byte -> bool.
Variable bound : nat.

Definition VOK (ty : nat) (x : gval) : bool := value_ok sc (S (vdepth x)) ty x.
Definition UOK (ty : nat) (x : gval) : bool := unknowns_ok sc (S (vdepth x)) ty x.

Hypothesis Hnest : forall ty b x, (length b < bound)%nat -> lg ty b = true -> nd ty b = true ->
  dm ty GAbsent b = Some x -> VOK ty x = true /\ UOK ty x = true.
Hypothesis Hdm0 : forall ty b, dm ty (GMsg [] []) b = dm ty GAbsent b.

Definition eok (k : fkind) (v : gval) : Prop := elem_ok VOK k v = true /\ sub_of UOK k v = true.
Definition fok (fd : fdesc) (x : gval) : Prop :=
  field_value_ok VOK fd x = true /\ field_sub (sub_of UOK) fd x = true.

Lemma mdesc_NoDup md : mdesc_ok sc md = true -> NoDup (map fnum (mfields md)) /\ NoDup (mfields md).
Proof.
  unfold mdesc_ok. intros H. apply andb_prop in H. destruct H as [_ H]. apply nodupb_NoDup in H.
  split; [exact H|]. apply NoDup_map_inv in H. exact H.
Qed.

Lemma eok_num k s z : is_num_kind k = Some s -> in_dom s z = true -> eok k (GNum z).
Proof.
  intros Hk Hz. unfold eok.
  destruct k; cbn [is_num_kind] in Hk; try discriminate Hk; inversion Hk; subst s;
    cbn [elem_ok num_ok sub_of]; split; try reflexivity; exact Hz.
Qed.

Lemma eok_bytes k b : k = FString \/ k = FBytes -> bytes_ok b -> eok k (GBytes b).
Proof.
  intros Hk Hb. unfold eok. destruct Hk; subst k; cbn [elem_ok sub_of]; (split; [|reflexivity]);
    apply uv_bytes_ok_forallb; exact Hb.
Qed.

Lemma eok_msg ty v : VOK ty v = true -> UOK ty v = true -> eok (FMsg ty) v.
Proof.
  intros Hv Hu. unfold eok. cbn [sub_of]. split; [|exact Hu].
  destruct v; try (unfold VOK in Hv; cbn [vdepth value_ok] in Hv; discriminate Hv). cbn [elem_ok]. exact Hv.
Qed.

Lemma vok_empty ty : VOK ty (GMsg [] []) = true /\ UOK ty (GMsg [] []) = true.
Proof.
  unfold VOK, UOK, unknowns_ok. split.
  - rewrite value_ok_S. cbn [forallb]. rewrite andb_true_r. unfold msg_value_ok. cbn [map nodupb forallb andb].
    pose proof (mdesc_NoDup _ (schema_nth_ok sc ty Hsc)) as [_ Hnd].
    apply uv_groups_ok; [exact Hnd|]. intros g f1 f2 _ _ _ _ H. exfalso. apply H. reflexivity.
  - rewrite all_msgs_S. apply andb_true_intro. split; [reflexivity|].
    apply forallb_forall. intros fd _. cbn [lookup_field]. apply uv_field_sub_absent.
Qed.

Lemma eok_zero k : eok k (zero_of k).
Proof.
  destruct k as [s| | | |t]; cbn [zero_of].
  - apply (eok_num _ s); [reflexivity|]. destruct s; reflexivity.
  - apply (eok_num _ KInt32); reflexivity.
  - apply eok_bytes; [left; reflexivity|constructor].
  - apply eok_bytes; [right; reflexivity|constructor].
  - destruct (vok_empty t). apply eok_msg; assumption.
Qed.

(* one occurrence of a value *)
Lemma sv_legal k prev f r : rfield_wfb f = true -> value_legal sc lg k f = true ->
  (forall ty num b, k = FMsg ty -> f = RLen num b ->
     nd ty b = true /\ (length b < bound)%nat /\ (prev = GAbsent \/ prev = GMsg [] [])) ->
  single_value dm k prev f = r -> r = None \/ exists v, r = Some (Some v) /\ eok k v.
Proof.
  intros Hwf Hleg Hm Hr.
  assert (Hnum : forall s, is_num_kind k = Some s -> scalar_legal s f = true ->
            match scalar_of_field s f with Some z => Some (Some (GNum z)) | None => Some None end = r ->
            r = None \/ exists v, r = Some (Some v) /\ eok k v).
  { intros s Hs Hl E.
    destruct (dec_scalar_legal (rpayload f ++ []) 0 false s f [] Hwf Hl eq_refl) as (_ & z & Hz & Hd & _).
    rewrite Hz in E. right. exists (GNum z). split; [symmetry; exact E|]. apply (eok_num k s); assumption. }
  destruct k as [s| | | |ty]; destruct f as [num v|num b|num b|num b];
    cbn [single_value value_legal is_num_kind] in Hr, Hleg; try discriminate Hleg;
    try (apply (Hnum _ eq_refl Hleg Hr)).
  - right. exists (GBytes b). split; [symmetry; exact Hr|].
    apply eok_bytes; [left; reflexivity|]. exact (rfield_wfb_payload _ Hwf).
  - right. exists (GBytes b). split; [symmetry; exact Hr|].
    apply eok_bytes; [right; reflexivity|]. exact (rfield_wfb_payload _ Hwf).
  - apply andb_prop in Hleg. destruct Hleg as [Hlg _].
    destruct (Hm ty num b eq_refl eq_refl) as (Hnd & Hlen & Hprev).
    assert (E : dm ty prev b = dm ty GAbsent b) by (destruct Hprev; subst prev; [reflexivity|apply Hdm0]).
    rewrite E in Hr. destruct (dm ty GAbsent b) as [x|] eqn:Ed; [|left; symmetry; exact Hr].
    right. exists x. split; [symmetry; exact Hr|].
    destruct (Hnest ty b x Hlen Hlg Hnd Ed). apply eok_msg; assumption.
Qed.

(* ---------- field values ---------- *)
Lemma fok_absent fd : fok fd GAbsent.
Proof. split; [apply field_value_ok_absent|apply uv_field_sub_absent]. Qed.

Lemma fok_single fd v : single_card (fcard_ fd) = true -> eok (fkind_ fd) v -> fok fd v.
Proof.
  intros Hc [H1 H2]. unfold fok, field_value_ok, field_sub.
  destruct (fcard_ fd); try discriminate Hc; destruct v; split; try reflexivity; assumption.
Qed.

Lemma fok_list fd l : fcard_ fd = CPacked \/ fcard_ fd = CUnpacked ->
  Forall (eok (fkind_ fd)) l -> fok fd (GList l).
Proof.
  intros Hc Hl. rewrite Forall_forall in Hl. unfold fok, field_value_ok, field_sub.
  assert (H1 : forallb (elem_ok VOK (fkind_ fd)) l = true) by (apply forallb_forall; intros y Hy; apply (Hl y Hy)).
  assert (H2 : forallb (sub_of UOK (fkind_ fd)) l = true) by (apply forallb_forall; intros y Hy; apply (Hl y Hy)).
  destruct Hc as [Hc|Hc]; rewrite Hc; split; assumption.
Qed.

Lemma fok_list_inv fd l : fcard_ fd = CPacked \/ fcard_ fd = CUnpacked ->
  fok fd (GList l) -> Forall (eok (fkind_ fd)) l.
Proof.
  intros Hc [H1 H2]. unfold field_value_ok, field_sub in H1, H2.
  assert (H1' : forallb (elem_ok VOK (fkind_ fd)) l = true) by (destruct Hc as [Hc|Hc]; rewrite Hc in H1; exact H1).
  assert (H2' : forallb (sub_of UOK (fkind_ fd)) l = true) by (destruct Hc as [Hc|Hc]; rewrite Hc in H2; exact H2).
  rewrite forallb_forall in H1', H2'. apply Forall_forall. intros y Hy. split; auto.
Qed.

Definition entry_ok (kk vk : fkind) (kv : gval * gval) : Prop :=
  elem_ok VOK kk (fst kv) = true /\ eok vk (snd kv).

Lemma fok_map fd kk vk kvs : fcard_ fd = CMap kk vk ->
  Forall (entry_ok kk vk) kvs -> keys_distinct (map fst kvs) = true -> fok fd (GMap kvs).
Proof.
  intros Hc Hl Hk. rewrite Forall_forall in Hl. unfold fok, field_value_ok, field_sub. rewrite Hc. split.
  - rewrite Hk, andb_true_r. apply forallb_forall. intros [k x] Hx. destruct (Hl _ Hx) as [H1 [H2 _]].
    cbn [fst snd] in H1, H2. rewrite H1, H2. reflexivity.
  - apply forallb_forall. intros [k x] Hx. destruct (Hl _ Hx) as [_ [_ H3]]. exact H3.
Qed.

Lemma fok_map_inv fd kk vk kvs : fcard_ fd = CMap kk vk -> fok fd (GMap kvs) ->
  Forall (entry_ok kk vk) kvs /\ keys_distinct (map fst kvs) = true.
Proof.
  intros Hc [H1 H2]. unfold field_value_ok, field_sub in H1, H2. rewrite Hc in H1, H2.
  apply andb_prop in H1. destruct H1 as [H1 Hk]. split; [|exact Hk].
  rewrite forallb_forall in H1, H2. apply Forall_forall. intros [k x] Hx.
  specialize (H1 _ Hx). specialize (H2 _ Hx). cbv beta iota in H1, H2. apply andb_prop in H1.
  destruct H1 as [H1a H1b]. split; [exact H1a|split; [exact H1b|exact H2]].
Qed.

Lemma map_set_entries (P : gval * gval -> Prop) k v kvs :
  P (k, v) -> (forall k0 v0, P (k0, v0) -> P (k0, v)) -> Forall P kvs -> Forall P (map_set k v kvs).
Proof.
  intros Hkv Hrep H. induction H as [|[k0 v0] r H0 Hr IH]; cbn [map_set]; [constructor; [exact Hkv|constructor]|].
  destruct (gval_eqb_key k0 k); constructor; auto. apply (Hrep k0 v0). exact H0.
Qed.

Lemma map_set_keys_in k v kvs x : In x (map fst (map_set k v kvs)) -> x = k \/ In x (map fst kvs).
Proof.
  induction kvs as [|[k0 v0] r IH]; cbn [map_set map fst In].
  - intros [H|[]]. left. symmetry. exact H.
  - destruct (gval_eqb_key k0 k); cbn [map fst In].
    + intros H. right. exact H.
    + intros [H|H]; [right; left; exact H|]. destruct (IH H) as [H1|H1]; [left; exact H1|right; right; exact H1].
Qed.

Lemma map_set_keys k v kvs : keys_distinct (map fst kvs) = true -> keys_distinct (map fst (map_set k v kvs)) = true.
Proof.
  induction kvs as [|[k0 v0] r IH]; cbn [map_set map fst keys_distinct]; intros H; [reflexivity|].
  apply andb_prop in H. destruct H as [H1 H2].
  destruct (gval_eqb_key k0 k) eqn:Ek; cbn [map fst keys_distinct].
  - rewrite H1, H2. reflexivity.
  - rewrite (IH H2), andb_true_r. apply negb_true_iff. apply negb_true_iff in H1.
    destruct (existsb (gval_eqb_key k0) (map fst (map_set k v r))) eqn:E; [|reflexivity].
    apply existsb_exists in E. destruct E as (x & Hx & Hxe).
    destruct (map_set_keys_in k v r x Hx) as [Hk|Hin]; [subst x; congruence|].
    rewrite (existsb_false _ _ H1 x Hin) in Hxe. discriminate Hxe.
Qed.

(* ---------- the fold state ---------- *)
Definition grp_inv (md : mdesc) (fs : list (N * gval)) : Prop :=
  forall g f1 f2, In f1 (mfields md) -> In f2 (mfields md) -> in_group g f1 = true -> in_group g f2 = true ->
    lookup_field (fnum f1) fs <> GAbsent -> lookup_field (fnum f2) fs <> GAbsent -> f1 = f2.
Definition unk_inv (md : mdesc) (unk : list byte) : Prop :=
  exists ufs, unk = concat (map renc ufs) /\ Forall (fun f => rfield_wfb f = true) ufs /\
              Forall (fun f => find_field md (rnum f) = None) ufs.

Record Good (md : mdesc) (fs : list (N * gval)) (unk : list byte) : Prop := {
  g_nodup : NoDup (map fst fs);
  g_keys : forall k, In k (map fst fs) -> find_field md k <> None;
  g_vals : forall fd, In fd (mfields md) -> fok fd (lookup_field (fnum fd) fs);
  g_grp : grp_inv md fs;
  g_unk : unk_inv md unk }.

Lemma good_nil md : Good md [] [].
Proof.
  constructor.
  - constructor.
  - intros k [].
  - intros fd _. apply fok_absent.
  - intros g f1 f2 _ _ _ _ H. exfalso. apply H. reflexivity.
  - exists []. split; [reflexivity|]. split; constructor.
Qed.

Lemma fnum_inj md f1 f2 : mdesc_ok sc md = true -> In f1 (mfields md) -> In f2 (mfields md) ->
  fnum f1 = fnum f2 -> f1 = f2.
Proof.
  intros Hmd H1 H2 He. destruct (mdesc_NoDup md Hmd) as [Hnd _].
  pose proof (find_field_in md f1 Hnd H1) as E1. pose proof (find_field_in md f2 Hnd H2) as E2.
  rewrite He in E1. rewrite E1 in E2. inversion E2. reflexivity.
Qed.

Lemma good_unknown md fs unk f : Good md fs unk -> rfield_wfb f = true -> find_field md (rnum f) = None ->
  Good md fs (unk ++ renc f).
Proof.
  intros [G1 G2 G3 G4 (ufs & Hu & Hw & Hn)] Hwf Hf. constructor; try assumption.
  exists (ufs ++ [f]). split; [|split].
  - rewrite map_app, concat_app. cbn [map concat]. rewrite app_nil_r, Hu. reflexivity.
  - apply Forall_app. split; [exact Hw|constructor; [exact Hwf|constructor]].
  - apply Forall_app. split; [exact Hn|constructor; [exact Hf|constructor]].
Qed.

Lemma good_clear md g keep fs unk : Good md fs unk -> Good md (clear_group md g keep fs) unk.
Proof.
  intros [G1 G2 G3 G4 G5]. constructor; try assumption.
  - unfold clear_group. apply uv_NoDup_filter_keys. exact G1.
  - intros k Hk. apply G2. eapply keys_clear_group. exact Hk.
  - intros fd Hfd. destruct (lookup_clear_group md g keep (fnum fd) fs) as [H|H]; rewrite H;
      [apply G3; exact Hfd|apply fok_absent].
  - intros g0 f1 f2 H1 H2 Hg1 Hg2 Hl1 Hl2. apply (G4 g0 f1 f2 H1 H2 Hg1 Hg2).
    + destruct (lookup_clear_group md g keep (fnum f1) fs) as [H|H]; rewrite H in Hl1; [exact Hl1|congruence].
    + destruct (lookup_clear_group md g keep (fnum f2) fs) as [H|H]; rewrite H in Hl2; [exact Hl2|congruence].
Qed.

Lemma good_set md fs unk fd v : mdesc_ok sc md = true -> Good md fs unk -> In fd (mfields md) -> fok fd v ->
  (forall g f2, In f2 (mfields md) -> in_group g fd = true -> in_group g f2 = true ->
     lookup_field (fnum f2) fs <> GAbsent -> f2 = fd) ->
  Good md (set_field (fnum fd) v fs) unk.
Proof.
  intros Hmd [G1 G2 G3 G4 G5] Hfd Hv Hg. destruct (mdesc_NoDup md Hmd) as [Hnd _]. constructor; try assumption.
  - apply uv_NoDup_set. exact G1.
  - intros k Hk. apply keys_set in Hk. destruct Hk as [Hk|Hk]; [|apply G2; exact Hk].
    subst k. rewrite (find_field_in md fd Hnd Hfd). discriminate.
  - intros fd' Hfd'. destruct (N.eq_dec (fnum fd') (fnum fd)) as [He|Hne].
    + rewrite (fnum_inj md fd' fd Hmd Hfd' Hfd He). rewrite lookup_set_same. exact Hv.
    + rewrite lookup_set_other by exact Hne. apply G3. exact Hfd'.
  - intros g f1 f2 H1 H2 Hg1 Hg2 Hl1 Hl2.
    destruct (N.eq_dec (fnum f1) (fnum fd)) as [E1|E1]; destruct (N.eq_dec (fnum f2) (fnum fd)) as [E2|E2].
    + rewrite (fnum_inj md f1 fd Hmd H1 Hfd E1), (fnum_inj md f2 fd Hmd H2 Hfd E2). reflexivity.
    + rewrite (fnum_inj md f1 fd Hmd H1 Hfd E1) in *. symmetry. apply (Hg g f2 H2 Hg1 Hg2).
      rewrite lookup_set_other in Hl2 by exact E2. exact Hl2.
    + rewrite (fnum_inj md f2 fd Hmd H2 Hfd E2) in *. apply (Hg g f1 H1 Hg2 Hg1).
      rewrite lookup_set_other in Hl1 by exact E1. exact Hl1.
    + rewrite lookup_set_other in Hl1 by exact E1. rewrite lookup_set_other in Hl2 by exact E2.
      apply (G4 g f1 f2); assumption.
Qed.

Lemma good_set_plain md fs unk fd v : mdesc_ok sc md = true -> Good md fs unk -> In fd (mfields md) -> fok fd v ->
  is_oneof_member fd = false -> Good md (set_field (fnum fd) v fs) unk.
Proof.
  intros Hmd HG Hfd Hv Ho. apply good_set; try assumption.
  intros g f2 _ Hg. exfalso. unfold in_group in Hg. unfold is_oneof_member in Ho.
  destruct (fcard_ fd); discriminate.
Qed.

Lemma good_set_oneof md fs unk fd g v : mdesc_ok sc md = true -> Good md fs unk -> In fd (mfields md) -> fok fd v ->
  fcard_ fd = COneof g -> Good md (set_field (fnum fd) v (clear_group md g (fnum fd) fs)) unk.
Proof.
  intros Hmd HG Hfd Hv Hc. destruct (mdesc_NoDup md Hmd) as [Hnd _].
  apply good_set; try assumption; [apply good_clear; exact HG|].
  intros g' f2 H2 Hg1 Hg2 Hl.
  assert (g' = g) by (unfold in_group in Hg1; rewrite Hc in Hg1; apply Nat.eqb_eq in Hg1; exact Hg1). subst g'.
  unfold clear_group in Hl.
  rewrite (lookup_filter_key (fun k => match find_field md k with
                                      | Some f => negb (in_group g f) || (k =? fnum fd) | None => true end)) in Hl.
  rewrite (find_field_in md f2 Hnd H2), Hg2 in Hl. cbn [negb orb] in Hl.
  destruct (N.eqb_spec (fnum f2) (fnum fd)) as [E|E]; [|congruence].
  apply (fnum_inj md f2 fd Hmd H2 Hfd E).
Qed.

(* ---------- one step of the reference fold ---------- *)
Definition nd_field (md : mdesc) (fl : rfield) : bool :=
  match find_field md (rnum fl), fl with
  | Some fd, RLen _ b =>
      match fcard_ fd, fkind_ fd with
      | CMap _ (FMsg t), _ =>
          match canonical_fields b with
          | Some efs => (count_num 2 efs <=? 1)%nat &&
                        forallb (fun e => match e with RLen 2 vb => nd t vb | _ => true end) efs
          | None => false
          end
      | CMap _ _, _ => true
      | _, FMsg t => nd t b
      | _, _ => true
      end
  | _, _ => true
  end.

Definition keys_incl (n : N) (fs fs' : list (N * gval)) : Prop :=
  forall k, In k (map fst fs') -> k = n \/ In k (map fst fs).

Lemma keys_incl_set n v fs : keys_incl n fs (set_field n v fs).
Proof. intros k Hk. apply keys_set in Hk. exact Hk. Qed.

Definition step_post (md : mdesc) (n : N) (fs : list (N * gval)) (r : option (list (N * gval) * list byte)) : Prop :=
  forall st', r = Some st' -> Good md (fst st') (snd st') /\ keys_incl n fs (fst st').

Lemma single_case fd f fs r :
  rfield_wfb f = true -> value_legal sc lg (fkind_ fd) f = true ->
  (forall t num b, fkind_ fd = FMsg t -> f = RLen num b -> nd t b = true) ->
  (length (renc f) <= bound)%nat ->
  (forall t, fkind_ fd = FMsg t -> lookup_field (fnum fd) fs = GAbsent) ->
  single_value dm (fkind_ fd) (match fkind_ fd with FMsg _ => lookup_field (fnum fd) fs | _ => GAbsent end) f = r ->
  r = None \/ exists v, r = Some (Some v) /\ eok (fkind_ fd) v.
Proof.
  intros Hwf Hleg Hnd Hlen Hfresh Hr. eapply (sv_legal _ _ _ _ Hwf Hleg); [|exact Hr].
  intros ty num b Hk Hf. split; [apply (Hnd ty num b Hk Hf)|]. split.
  - subst f. pose proof (renc_len_lt num b). lia.
  - left. rewrite Hk. apply (Hfresh ty Hk).
Qed.

Lemma list_case fd f r :
  rfield_wfb f = true -> value_legal sc lg (fkind_ fd) f = true ->
  (forall t num b, fkind_ fd = FMsg t -> f = RLen num b -> nd t b = true) ->
  (length (renc f) <= bound)%nat ->
  single_value dm (fkind_ fd) GAbsent f = r ->
  r = None \/ exists v, r = Some (Some v) /\ eok (fkind_ fd) v.
Proof.
  intros Hwf Hleg Hnd Hlen Hr. eapply (sv_legal _ _ _ _ Hwf Hleg); [|exact Hr].
  intros ty num b Hk Hf. split; [apply (Hnd ty num b Hk Hf)|]. split.
  - subst f. pose proof (renc_len_lt num b). lia.
  - left. reflexivity.
Qed.

Lemma cur_list_ok md fs unk fd : Good md fs unk -> In fd (mfields md) ->
  fcard_ fd = CPacked \/ fcard_ fd = CUnpacked ->
  Forall (eok (fkind_ fd)) (match lookup_field (fnum fd) fs with GList l => l | _ => [] end).
Proof.
  intros HG Hfd Hc. pose proof (g_vals _ _ _ HG fd Hfd) as Hv.
  destruct (lookup_field (fnum fd) fs); try constructor. apply fok_list_inv; assumption.
Qed.

Lemma cur_map_ok md fs unk fd kk vk : Good md fs unk -> In fd (mfields md) -> fcard_ fd = CMap kk vk ->
  Forall (entry_ok kk vk) (cur_map (fnum fd) fs) /\ keys_distinct (map fst (cur_map (fnum fd) fs)) = true.
Proof.
  intros HG Hfd Hc. pose proof (g_vals _ _ _ HG fd Hfd) as Hv. unfold cur_map.
  destruct (lookup_field (fnum fd) fs); try (split; [constructor|reflexivity]).
  apply (fok_map_inv fd kk vk); assumption.
Qed.

(* the key / value of a map entry *)
Definition pick_from (num : N) (k : fkind) (cur : gval) (efs : list (rfield * list byte)) : option gval :=
  fold_left (fun (acc : option gval) (e : rfield * list byte) =>
     match acc with
     | None => None
     | Some cur =>
         if rnum (fst e) =? num then
           match single_value dm k (match k with FMsg _ => cur | _ => GAbsent end) (fst e) with
           | None => None
           | Some None => Some cur
           | Some (Some v) => Some v
           end
         else Some cur
     end) efs (Some cur).

Lemma pick_pick_from efs num k : pick dm efs num k = pick_from num k (zero_of k) efs.
Proof. reflexivity. Qed.

Lemma count_num_cons n e l : count_num n (e :: l) = ((if (rnum e =? n)%N then 1 else 0) + count_num n l)%nat.
Proof. unfold count_num. cbn [filter]. destruct (rnum e =? n); reflexivity. Qed.

Lemma pick_legal k num : forall efs cur r,
  Forall (fun f => rfield_wfb f = true) efs ->
  Forall (fun f => rnum f = num -> value_legal sc lg k f = true) efs ->
  eok k cur ->
  (forall t, k = FMsg t ->
     (count_num num efs <= 1)%nat /\ ((1 <= count_num num efs)%nat -> cur = GMsg [] []) /\
     Forall (fun e => forall vb, e = RLen num vb -> nd t vb = true /\ (length vb < bound)%nat) efs) ->
  pick_from num k cur (map rawf efs) = r -> r = None \/ exists v, r = Some v /\ eok k v.
Proof.
  induction efs as [|e efs IH]; intros cur r Hwf Hleg Hcur Hm Hr.
  - right. exists cur. split; [symmetry; exact Hr|exact Hcur].
  - inversion Hwf as [|e1 l1 Hwe Hwr]; subst e1 l1. inversion Hleg as [|e1 l1 Hle Hlr]; subst e1 l1.
    unfold pick_from in Hr. cbn [map fold_left] in Hr. change (fst (rawf e)) with e in Hr.
    fold (pick_from num k) in Hr.
    destruct (N.eqb_spec (rnum e) num) as [He|Hne].
    + set (prev := match k with FMsg _ => cur | _ => GAbsent end) in *.
      assert (Hsv : single_value dm k prev e = None \/
                    exists v, single_value dm k prev e = Some (Some v) /\ eok k v).
      { apply (sv_legal k prev e _ Hwe (Hle He)); [|reflexivity].
        intros ty num' b Hk Hf. destruct (Hm ty Hk) as (Hc & Hz & Hall).
        inversion Hall as [|e1 l1 Ha _]; subst e1 l1. subst e. cbn [rnum] in He. subst num'.
        destruct (Ha b eq_refl) as [Hn Hl]. split; [exact Hn|]. split; [exact Hl|]. right.
        unfold prev. rewrite Hk. apply Hz. rewrite count_num_cons. cbn [rnum]. rewrite N.eqb_refl. lia. }
      destruct Hsv as [E|(v & E & Hv)].
      * rewrite E in Hr. left. rewrite <- Hr. apply uv_fold_none.
      * rewrite E in Hr. apply (IH v r Hwr Hlr Hv); [|exact Hr].
        intros t Hk. destruct (Hm t Hk) as (Hc & Hz & Hall). rewrite count_num_cons in Hc.
        rewrite He, N.eqb_refl in Hc. inversion Hall as [|e1 l1 _ Hall']; subst e1 l1.
        split; [lia|]. split; [intros; lia|exact Hall'].
    + apply (IH cur r Hwr Hlr Hcur); [|exact Hr].
      intros t Hk. destruct (Hm t Hk) as (Hc & Hz & Hall). rewrite count_num_cons in Hc, Hz.
      destruct (N.eqb_spec (rnum e) num) as [|_]; [contradiction|]. inversion Hall as [|e1 l1 _ Hall']; subst e1 l1.
      split; [exact Hc|]. split; [exact Hz|exact Hall'].
Qed.

Lemma nums_eok k s zs : is_num_kind k = Some s -> Forall (fun z => in_dom s z = true) zs ->
  Forall (eok k) (map GNum zs).
Proof.
  intros Hk H. induction H as [|z r Hz Hr IH]; cbn [map]; constructor; [|exact IH]. apply (eok_num k s); assumption.
Qed.

Lemma step_good md f fs unk :
  mdesc_ok sc md = true -> Good md fs unk -> rfield_wfb f = true ->
  field_legal sc lg md f = true -> nd_field md f = true -> (length (renc f) <= bound)%nat ->
  (forall fd t, find_field md (rnum f) = Some fd -> single_card (fcard_ fd) = true -> fkind_ fd = FMsg t ->
     lookup_field (rnum f) fs = GAbsent) ->
  step_post md (rnum f) fs (ref_step dm md (fs, unk) (rawf f)).
Proof.
  intros Hmd HG Hwf Hleg Hnd Hlen Hfresh st' Hst.
  unfold field_legal in Hleg. unfold nd_field in Hnd.
  destruct (find_field md (rnum f)) as [fd|] eqn:Hf.
  2:{ unfold ref_step, rawf in Hst. rewrite Hf in Hst. inversion Hst; subst st'. cbn [fst snd].
      split; [apply good_unknown; assumption|intros k Hk; right; exact Hk]. }
  destruct (find_field_some md _ _ Hf) as [Hfd Hn].
  assert (Hndm : forall t num b, fkind_ fd = FMsg t -> f = RLen num b -> (forall kk vk, fcard_ fd <> CMap kk vk) ->
             nd t b = true).
  { intros t num b Hk E Hc. subst f. rewrite Hk in Hnd. destruct (fcard_ fd); try exact Hnd.
    exfalso; eapply Hc; reflexivity. }
  assert (Hfr : single_card (fcard_ fd) = true -> forall t, fkind_ fd = FMsg t -> lookup_field (fnum fd) fs = GAbsent)
    by (intros Hs t Hk; rewrite Hn; apply (Hfresh fd t eq_refl Hs Hk)).
  clear Hfresh. rewrite <- Hn.
  destruct (fcard_ fd) as [| | | | |g|kk vk] eqn:Hc.
  1-3: unfold ref_step, rawf in Hst; rewrite Hf, Hc in Hst; cbv zeta in Hst;
    destruct (single_case fd f fs _ Hwf Hleg
                (fun t num b Hk E => Hndm t num b Hk E ltac:(intros; discriminate)) Hlen (Hfr eq_refl) eq_refl)
      as [E|(v & E & Hv)]; rewrite E in Hst; [discriminate Hst|];
    inversion Hst; subst st'; cbn [fst snd]; split; [|apply keys_incl_set];
    apply good_set_plain; try assumption;
      [apply fok_single; [rewrite Hc; reflexivity|exact Hv]|unfold is_oneof_member; rewrite Hc; reflexivity].
  1-2: assert (Hlc : fcard_ fd = CPacked \/ fcard_ fd = CUnpacked) by (rewrite Hc; auto);
    pose proof (cur_list_ok md fs unk fd HG Hfd Hlc) as Hcur;
    assert (Hno : is_oneof_member fd = false) by (unfold is_oneof_member; rewrite Hc; reflexivity);
    unfold ref_step, rawf in Hst; rewrite Hf, Hc in Hst; cbv zeta in Hst;
    set (cur := match lookup_field (fnum fd) fs with GList l => l | _ => [] end) in *;
    destruct (is_num_kind (fkind_ fd)) as [s|] eqn:Hs; destruct f as [num v|num b|num b|num b];
    try (destruct (dec_packed_legal (rpayload (RLen num b) ++ []) 0 false s num b [] Hwf Hleg eq_refl)
           as (zs & Hu & Hz & _); rewrite Hu in Hst;
         inversion Hst; subst st'; cbn [fst snd]; split; [|apply keys_incl_set];
         apply good_set_plain; try assumption; apply fok_list; [exact Hlc|];
         apply Forall_app; split; [exact Hcur|apply (nums_eok _ s); assumption]);
    try (match type of Hst with context [single_value _ _ GAbsent ?ff] =>
           destruct (list_case fd ff _ Hwf Hleg
                (fun t num b Hk E => Hndm t num b Hk E ltac:(intros; discriminate)) Hlen eq_refl)
             as [E|(x & E & Hx)]; rewrite E in Hst; [discriminate Hst|] end;
         inversion Hst; subst st'; cbn [fst snd]; split; [|apply keys_incl_set];
         apply good_set_plain; try assumption; apply fok_list; [exact Hlc|];
         apply Forall_app; split; [exact Hcur|constructor; [exact Hx|constructor]]).
  - (* oneof member *)
    unfold ref_step, rawf in Hst. rewrite Hf, Hc in Hst. cbv zeta in Hst.
    destruct (single_case fd f fs _ Hwf Hleg
                (fun t num b Hk E => Hndm t num b Hk E ltac:(intros; discriminate)) Hlen (Hfr eq_refl) eq_refl)
      as [E|(v & E & Hv)]; rewrite E in Hst; [discriminate Hst|].
    inversion Hst; subst st'. cbn [fst snd]. split.
    + apply good_set_oneof; try assumption. apply fok_single; [rewrite Hc; reflexivity|exact Hv].
    + intros k Hk. apply keys_set in Hk. destruct Hk as [Hk|Hk]; [left; exact Hk|right].
      eapply keys_clear_group. exact Hk.
  - (* map entry *)
    destruct f as [num v|num b|num b|num b]; try discriminate Hleg. cbn [rnum] in Hn, Hf. subst num.
    unfold rawf in Hst. rewrite (ref_step_map dm md fd kk vk fs unk b _ Hf Hc) in Hst.
    unfold entry_legal in Hleg. destruct (canonical_fields b) as [efs|] eqn:Hcf; [|discriminate Hleg].
    apply andb_prop in Hleg. destruct Hleg as [Hleg _]. rewrite forallb_forall in Hleg.
    destruct (canonical_fields_spec b efs Hcf) as (Hb & Hwfs & Hpa).
    rewrite (Hpa (S (length b)) ltac:(lia)) in Hst. rewrite !pick_pick_from in Hst.
    pose proof (field_ok_card sc md fd (mdesc_field_ok sc md fd Hmd Hfd)) as Hfo. rewrite Hc in Hfo.
    destruct Hfo as [Hkk _].
    pose proof (renc_len_lt (fnum fd) b) as Hbl.
    assert (Hp1 : pick_from 1 kk (zero_of kk) (map rawf efs) = None \/
                  exists k, pick_from 1 kk (zero_of kk) (map rawf efs) = Some k /\ eok kk k).
    { apply (pick_legal kk 1 efs (zero_of kk) _ Hwfs); [|apply eok_zero| |reflexivity].
      - apply Forall_forall. intros e He H1. specialize (Hleg e He). cbv beta in Hleg.
        rewrite H1 in Hleg. exact Hleg.
      - intros t Ht. subst kk. discriminate Hkk. }
    assert (Hp2 : pick_from 2 vk (zero_of vk) (map rawf efs) = None \/
                  exists v, pick_from 2 vk (zero_of vk) (map rawf efs) = Some v /\ eok vk v).
    { apply (pick_legal vk 2 efs (zero_of vk) _ Hwfs); [|apply eok_zero| |reflexivity].
      - apply Forall_forall. intros e He H2. specialize (Hleg e He). cbv beta in Hleg.
        rewrite H2 in Hleg. exact Hleg.
      - intros t Ht. subst vk. apply andb_prop in Hnd. destruct Hnd as [Hcnt Hall].
        apply Nat.leb_le in Hcnt. split; [exact Hcnt|]. split; [intros _; reflexivity|].
        rewrite forallb_forall in Hall. apply Forall_forall. intros e He vb Hvb. subst e. split.
        + exact (Hall _ He).
        + pose proof (renc_in_len _ _ He) as H1. rewrite <- Hb in H1. pose proof (renc_len_lt 2 vb). lia. }
    destruct Hp1 as [E1|(k & E1 & Hk)]; rewrite E1 in Hst; [discriminate Hst|].
    destruct Hp2 as [E2|(v & E2 & Hv)]; rewrite E2 in Hst; [discriminate Hst|].
    inversion Hst; subst st'. cbn [fst snd]. split; [|apply keys_incl_set].
    destruct (cur_map_ok md fs unk fd kk vk HG Hfd Hc) as [Hcm Hkd].
    apply good_set_plain; try assumption; [|unfold is_oneof_member; rewrite Hc; reflexivity].
    apply (fok_map fd kk vk _ Hc).
    + apply map_set_entries; [split; [apply Hk|exact Hv]| |exact Hcm].
      intros k0 v0 [Ha _]. split; [exact Ha|exact Hv].
    + apply map_set_keys. exact Hkd.
Qed.

(* ---------- the whole fold ---------- *)
Definition smsg (md : mdesc) (n : N) : Prop :=
  exists fd t, find_field md n = Some fd /\ single_card (fcard_ fd) = true /\ fkind_ fd = FMsg t.

Lemma count_in n l : In n (map rnum l) -> (1 <= count_num n l)%nat.
Proof.
  induction l as [|e l IH]; cbn [map In]; intros H; [destruct H|]. rewrite count_num_cons.
  destruct H as [H|H]; [rewrite H, N.eqb_refl; lia|]. specialize (IH H). lia.
Qed.

Lemma fold_good md : mdesc_ok sc md = true -> forall flds fs unk st',
  Good md fs unk ->
  Forall (fun f => rfield_wfb f = true /\ field_legal sc lg md f = true /\ nd_field md f = true /\
                   (length (renc f) <= bound)%nat) flds ->
  (forall n, smsg md n -> (count_num n flds <= 1)%nat) ->
  (forall n, smsg md n -> In n (map rnum flds) -> ~ In n (map fst fs)) ->
  ref_fold dm md (fs, unk) (map rawf flds) = Some st' -> Good md (fst st') (snd st').
Proof.
  intros Hmd. induction flds as [|f flds IH]; intros fs unk st' HG Hall Honce Hfresh Hfold.
  - cbn [map] in Hfold. rewrite ref_fold_nil in Hfold. inversion Hfold. exact HG.
  - cbn [map] in Hfold. rewrite ref_fold_cons in Hfold.
    inversion Hall as [|f1 l1 (Hwf & Hleg & Hnd & Hlen) Hall']; subst f1 l1.
    destruct (ref_step dm md (fs, unk) (rawf f)) as [[fs1 unk1]|] eqn:Es; [|discriminate Hfold].
    assert (Hfr : forall fd t, find_field md (rnum f) = Some fd -> single_card (fcard_ fd) = true ->
                    fkind_ fd = FMsg t -> lookup_field (rnum f) fs = GAbsent).
    { intros fd t Hf Hs Hk. apply lookup_notin. apply Hfresh; [exists fd, t; auto|left; reflexivity]. }
    pose proof (step_good md f fs unk Hmd HG Hwf Hleg Hnd Hlen Hfr) as Hstep. rewrite Es in Hstep.
    destruct (Hstep (fs1, unk1) eq_refl) as [HG1 Hk1]. cbn [fst snd] in HG1, Hk1.
    apply (IH fs1 unk1 st' HG1 Hall'); [| |exact Hfold].
    + intros n Hn. specialize (Honce n Hn). rewrite count_num_cons in Honce. lia.
    + intros n Hn Hin Hin1. destruct (Hk1 n Hin1) as [E|E].
      * subst n. specialize (Honce _ Hn). rewrite count_num_cons, N.eqb_refl in Honce.
        pose proof (count_in _ _ Hin). lia.
      * apply (Hfresh n Hn); [right; exact Hin|exact E].
Qed.

Definition nd_body (md : mdesc) (p : list byte) : bool :=
  match canonical_fields p with
  | None => false
  | Some flds => singular_msgs_once md flds && forallb (nd_field md) flds
  end.

Lemma msg_good md p rflds fs u : mdesc_ok sc md = true ->
  msg_legal sc lg md p = true -> nd_body md p = true -> (length p <= bound)%nat ->
  ref_parse_all (S (length p)) p = Some rflds -> ref_fold dm md ([], []) rflds = Some (fs, u) ->
  Good md fs u.
Proof.
  intros Hmd Hleg Hnd Hlen Hpar Hfold. unfold msg_legal in Hleg. unfold nd_body in Hnd.
  destruct (canonical_fields p) as [flds|] eqn:Hcf; [|discriminate Hleg].
  destruct (canonical_fields_spec p flds Hcf) as (Hp & Hwfs & Hpa).
  rewrite (Hpa (S (length p)) ltac:(lia)) in Hpar. inversion Hpar; subst rflds. clear Hpar.
  apply andb_prop in Hnd. destruct Hnd as [Honce Hnd]. rewrite forallb_forall in Hleg, Hnd.
  rewrite Forall_forall in Hwfs.
  apply (fold_good md Hmd flds [] [] (fs, u) (good_nil md)); [| | |exact Hfold].
  - apply Forall_forall. intros f Hf. split; [apply Hwfs; exact Hf|]. split; [apply Hleg; exact Hf|].
    split; [apply Hnd; exact Hf|]. pose proof (renc_in_len _ _ Hf). rewrite <- Hp in H. lia.
  - intros n (fd & t & Hf & Hs & Hk). destruct (find_field_some md _ _ Hf) as [Hfd Hn].
    unfold singular_msgs_once in Honce. rewrite forallb_forall in Honce. specialize (Honce fd Hfd).
    cbv beta in Honce. rewrite Hk, Hn in Honce.
    destruct (fcard_ fd); try discriminate Hs; apply Nat.leb_le in Honce; exact Honce.
  - intros n _ _ [].
Qed.

Lemma good_value ty fs u : Good (nth ty sc empty_md) fs u ->
  VOK ty (GMsg fs u) = true /\ UOK ty (GMsg fs u) = true.
Proof.
  set (md := nth ty sc empty_md). intros [G1 G2 G3 G4 (ufs & Hu & Hw & Hn)].
  pose proof (schema_nth_ok sc ty Hsc) as Hmd. fold md in Hmd. destruct (mdesc_NoDup md Hmd) as [Hnd1 Hnd2].
  assert (Hvals : forall n x, In (n, x) fs -> exists fd, find_field md n = Some fd /\ fok fd x).
  { intros n x Hx. destruct (find_field md n) as [fd|] eqn:Hf.
    - exists fd. split; [reflexivity|]. destruct (find_field_some md _ _ Hf) as [Hfd Hnn].
      pose proof (G3 fd Hfd) as Hv. rewrite Hnn, (uv_lookup_of_in n x fs G1 Hx) in Hv. exact Hv.
    - exfalso. apply (G2 n); [|exact Hf]. apply in_map_iff. exists (n, x). split; [reflexivity|exact Hx]. }
  split.
  - unfold VOK. rewrite value_ok_S. fold md. apply andb_true_intro. split.
    + unfold msg_value_ok. rewrite (uv_NoDup_nodupb _ G1), (uv_groups_ok md fs Hnd2 G4), andb_true_r. cbn [andb].
      apply forallb_forall. intros [n x] Hx. destruct (Hvals n x Hx) as (fd & Hf & Hv & _). rewrite Hf.
      rewrite (uv_fvo_ext _ VOK); [exact Hv|]. intros ty0 y Hy. unfold VOK. apply value_ok_fuel; [|lia].
      pose proof (fdepth_In n x fs Hx). rewrite GenPFuel.vdepth_GMsg. lia.
    + apply uv_bytes_ok_forallb. rewrite Hu. apply uv_concat_ok. exact Hw.
  - unfold UOK, unknowns_ok. rewrite all_msgs_S. fold md. apply andb_true_intro. split.
    + unfold unknown_ok_at.
      assert (Hpa : ref_parse_all (S (length u)) u = Some (map (fun x => (x, renc x)) ufs ++ [])).
      { rewrite Hu. rewrite <- (app_nil_r (concat (map renc ufs))).
        apply ref_parse_all_renc; [|reflexivity|lia].
        apply Forall_forall. intros f Hf. rewrite Forall_forall in Hw. apply rfield_wfb_wf. apply Hw. exact Hf. }
      rewrite Hpa, app_nil_r. apply forallb_forall. intros [f raw] Hf. apply in_map_iff in Hf.
      destruct Hf as (f' & He & Hf). inversion He; subst f' raw. rewrite Forall_forall in Hn, Hw.
      rewrite (Hn f Hf). pose proof (Hw f Hf) as Hwf. unfold rfield_wfb in Hwf.
      apply andb_prop in Hwf. destruct Hwf as [Hwf _]. exact Hwf.
    + apply forallb_forall. intros fd Hfd. destruct (G3 fd Hfd) as [_ Hs].
      rewrite (uv_fsub_ext _ (sub_of UOK)); [exact Hs|]. intros k y Hy. unfold sub_of. destruct k; try reflexivity.
      unfold UOK, unknowns_ok. pose proof (vdepth_lookup (fnum fd) fs u). apply all_msgs_fuel; lia.
Qed.
End Msg.

(* ---------- induction on the length of the encoding ---------- *)
Lemma uv_no_dup_S sc f ty p :
  no_dup_msgs sc (S f) ty p = nd_body (no_dup_msgs sc f) (nth ty sc empty_md) p.
Proof. reflexivity. Qed.

Lemma uv_decode_S sc f ty prev p :
  ref_decode_into sc (S f) ty prev p =
  match ref_parse_all (S (length p)) p with
  | None => None
  | Some flds =>
      match ref_fold (ref_decode_into sc f) (nth ty sc empty_md)
                     (match prev with GMsg fs u => (fs, u) | _ => ([], []) end) flds with
      | Some (fs, u) => Some (GMsg fs u)
      | None => None
      end
  end.
Proof. reflexivity. Qed.

Lemma uv_dec0 sc f ty b : ref_decode_into sc f ty (GMsg [] []) b = ref_decode_into sc f ty GAbsent b.
Proof. destruct f; reflexivity. Qed.

Lemma legal_value_gen sc : schema_ok sc = true ->
  forall n p ty fl fd fr v, (length p < n)%nat -> (length p < fl)%nat -> (length p < fd)%nat -> (length p < fr)%nat ->
  legal_msg sc fl ty p = true -> no_dup_msgs sc fd ty p = true ->
  ref_decode_into sc fr ty GAbsent p = Some v ->
  VOK sc ty v = true /\ UOK sc ty v = true.
Proof.
  intros Hsc. induction n as [|n IH]; intros p ty fl fd fr v Hn Hl Hd Hr Hleg Hnd Hdec; [lia|].
  destruct fl as [|fl]; [lia|]. destruct fd as [|fd]; [lia|]. destruct fr as [|fr]; [lia|].
  cbn [legal_msg] in Hleg. rewrite uv_no_dup_S in Hnd. rewrite uv_decode_S in Hdec.
  destruct (ref_parse_all (S (length p)) p) as [rflds|] eqn:Hpa; [|discriminate Hdec].
  destruct (ref_fold (ref_decode_into sc fr) (nth ty sc empty_md) ([], []) rflds) as [[fs u]|] eqn:Hfold;
    [|discriminate Hdec].
  inversion Hdec; subst v.
  assert (Hnest : forall ty0 b x, (length b < length p)%nat -> legal_msg sc fl ty0 b = true ->
            no_dup_msgs sc fd ty0 b = true -> ref_decode_into sc fr ty0 GAbsent b = Some x ->
            VOK sc ty0 x = true /\ UOK sc ty0 x = true).
  { intros ty0 b x Hb Hlg Hndb Hdm. apply (IH b ty0 fl fd fr x); try assumption; lia. }
  pose proof (uv_dec0 sc fr) as Hd0.
  apply (good_value sc Hsc _ _ _ _ Hnest Hd0 ty fs u).
  apply (msg_good sc Hsc _ _ _ _ Hnest Hd0 (nth ty sc empty_md) p rflds fs u); try assumption.
  - apply schema_nth_ok. exact Hsc.
  - lia.
Qed.

Theorem legal_value_ok : forall sc ty p v,
  schema_ok sc = true -> legal_msg sc (S (length p)) ty p = true -> no_dup_msgs sc (S (length p)) ty p = true ->
  ref_decode sc (S (length p)) ty p = Some v ->
  value_ok sc (S (vdepth v)) ty v = true /\ unknowns_ok sc (S (vdepth v)) ty v = true.
Proof.
  intros sc ty p v Hsc Hleg Hnd Hdec. unfold ref_decode in Hdec.
  exact (legal_value_gen sc Hsc (S (length p)) p ty (S (length p)) (S (length p)) (S (length p)) v ltac:(lia) ltac:(lia) ltac:(lia) ltac:(lia) Hleg Hnd Hdec).
Qed.

Print Assumptions legal_value_ok.
