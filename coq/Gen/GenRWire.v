(* Reference field-sequence parser [ref_parse_all]: fuel monotonicity, raw-bytes reconstruction, and
   inversion on a concatenation of reference encodings. *)
From CsProto Require Import Prelude Varint ZigZag Codec RefWire WireStmts CodecBase EncProofs DecProofs Schema GenMarshal RefMsg.
Local Open Scope N_scope.

Lemma ref_varint_fuel_pos n v : (1 <= length (ref_varint_fuel n v))%nat.
Proof.
  destruct n as [|n]; cbn [ref_varint_fuel].
  - cbn [length]. lia.
  - destruct (v <? 128); cbn [length]; lia.
Qed.

Lemma renc_pos f : (1 <= length (renc f))%nat.
Proof.
  unfold renc, rkey, ref_varint. rewrite app_length.
  pose proof (ref_varint_fuel_pos 9 (8 * rnum f + rwt f)) as Hp. lia.
Qed.

Lemma ref_parse_all_nil f : ref_parse_all f [] = Some [].
Proof. destruct f; reflexivity. Qed.

Lemma ref_parse_all_step f p : p <> [] ->
  ref_parse_all (S f) p =
  match ref_parse_field p with
  | None => None
  | Some (fld, n) =>
      if (n =? 0)%nat then None else
      match ref_parse_all f (skipn n p) with
      | Some l => Some ((fld, firstn n p) :: l)
      | None => None
      end
  end.
Proof. destruct p as [|x r]; [congruence|reflexivity]. Qed.

Lemma ref_parse_all_fuel : forall f p l f', ref_parse_all f p = Some l -> (length p < f')%nat -> ref_parse_all f' p = Some l.
Proof.
  induction f as [|f IH]; intros p l f' H Hlen; destruct p as [|x r].
  - rewrite ref_parse_all_nil in H. rewrite ref_parse_all_nil. exact H.
  - cbn [ref_parse_all] in H. discriminate H.
  - rewrite ref_parse_all_nil in H. rewrite ref_parse_all_nil. exact H.
  - destruct f' as [|f'0]; [cbn [length] in Hlen; lia|].
    rewrite ref_parse_all_step in H by discriminate.
    rewrite ref_parse_all_step by discriminate.
    destruct (ref_parse_field (x :: r)) as [[fld n]|]; [|discriminate H].
    destruct (n =? 0)%nat eqn:En; [discriminate H|].
    destruct (ref_parse_all f (skipn n (x :: r))) as [l0|] eqn:E; [|discriminate H].
    rewrite (IH _ _ f'0 E); [exact H|].
    rewrite skipn_length. apply Nat.eqb_neq in En. cbn [length] in Hlen |- *. lia.
Qed.

Lemma ref_parse_all_raw : forall f p l, ref_parse_all f p = Some l -> concat (map snd l) = p.
Proof.
  induction f as [|f IH]; intros p l H; destruct p as [|x r].
  - rewrite ref_parse_all_nil in H. injection H as <-. reflexivity.
  - cbn [ref_parse_all] in H. discriminate H.
  - rewrite ref_parse_all_nil in H. injection H as <-. reflexivity.
  - rewrite ref_parse_all_step in H by discriminate.
    destruct (ref_parse_field (x :: r)) as [[fld n]|]; [|discriminate H].
    destruct (n =? 0)%nat eqn:En; [discriminate H|].
    destruct (ref_parse_all f (skipn n (x :: r))) as [l0|] eqn:E; [|discriminate H].
    injection H as <-. cbn [map snd concat]. rewrite (IH _ _ E). apply firstn_skipn.
Qed.

Lemma ref_parse_all_renc : forall flds rest r f, Forall rfield_wf flds ->
  ref_parse_all (S (length rest)) rest = Some r ->
  (length (concat (map renc flds) ++ rest) < f)%nat ->
  ref_parse_all f (concat (map renc flds) ++ rest) = Some (map (fun x => (x, renc x)) flds ++ r).
Proof.
  induction flds as [|a flds IH]; intros rest r f Hwf Hr Hlen.
  - cbn [map concat app] in Hlen |- *. exact (ref_parse_all_fuel _ _ _ _ Hr Hlen).
  - inversion Hwf as [|a' fl' Ha Hfl]; subst a' fl'.
    cbn [map concat] in Hlen |- *. rewrite <- app_assoc in Hlen |- *.
    set (q := concat (map renc flds) ++ rest) in Hlen |- *.
    pose proof (renc_pos a) as Hp.
    rewrite app_length in Hlen.
    destruct f as [|f0]; [lia|].
    rewrite ref_parse_all_step.
    2:{ intro E. apply (f_equal (@length byte)) in E. rewrite app_length in E. cbn [length] in E. lia. }
    rewrite (ref_parse_renc a q Ha), skipn_app_exact, firstn_app_exact.
    destruct (length (renc a) =? 0)%nat eqn:En; [apply Nat.eqb_eq in En; lia|].
    unfold q. rewrite (IH rest r f0 Hfl Hr).
    + reflexivity.
    + fold q. lia.
Qed.

Print Assumptions ref_parse_all_renc.
