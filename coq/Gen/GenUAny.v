(* C08, second clause: on ARBITRARY bytes, whenever the generated Unmarshal accepts AND the reference
   semantics accepts -- and no singular message field occurs twice (G12, [no_dup_raw]) and no varint
   overflows 64 bits ([varints_fit], GenUAnyDef.v) -- they decoded the very same message.
   Shape of GenUSim.v / GenUProofs.v (one message level with the nested Unmarshal / nested reference
   decoder abstract, then induction on the input length), but driven by the SUCCESS of both sides
   instead of legality: wire-level agreement is GenUAnyWire.v. *)
From CsProto Require Import Prelude Varint ZigZag Codec RefWire WireStmts CodecBase DecProofs SafeProofs.
From CsProto Require Import Schema GenMarshal RefMsg GenStmts GenUnmarshal GenLegal.
From CsProto Require Import GenRArith GenRWire GenRBase GenRFields GenPBase GenPFuel GenProofs GenRefProofs.
From CsProto Require Import GenUProofs GenUAnyDef GenUAnyWire.
Local Open Scope N_scope.

Lemma pick_from_nil dm num k init : pick_from dm [] num k init = Some init.
Proof. reflexivity. Qed.

Lemma of_dres_go {A} (r : dres A) a d : of_dres r = LGo a d -> r = DOk a d.
Proof. destruct r; cbn [of_dres]; intros H; inversion H; reflexivity. Qed.

Lemma cnt_le_cons n e flds : (count_num n flds <= count_num n (e :: flds))%nat.
Proof. rewrite count_cons. lia. Qed.

Section Any.
Variable sc : schema.
Variable fast : bool.
Hypothesis Hsc : schema_ok sc = true.
Variable um : nat -> list byte -> ures.
Variable dm : nat -> gval -> list byte -> option gval.
Variable nd ft : nat -> list byte -> bool.
Variable bound : nat.

Hypothesis Hdm0 : forall ty b, dm ty (GMsg [] []) b = dm ty GAbsent b.
Hypothesis Hrec : forall ty b v al v', (length b < bound)%nat -> bytes_ok b ->
  um ty b = UOk v al -> dm ty GAbsent b = Some v' -> nd ty b = true -> ft ty b = true -> v = v'.
Hypothesis Hempty : forall t v al, um t [] = UOk v al -> v = GMsg [] [].
Hypothesis Hnp : forall ty b, um ty b <> UPanic.

Definition prev0 (prev : gval) : Prop := prev = GAbsent \/ prev = GMsg [] [].
(* a nested message payload satisfies both exclusions *)
Definition sub_ok (k : fkind) (f : rfield) : Prop :=
  match k, f with FMsg t, RLen _ b => nd t b = true /\ ft t b = true | _, _ => True end.

(* ---------- what a successful read_value did ---------- *)
Lemma read_value_num_inv k s wt d v a d2 : is_num_kind k = Some s ->
  read_value um k wt d = LGo (v, a) d2 ->
  wt = wt_of s /\ exists z, v = GNum z /\ dec_scalar d s = DOk z d2.
Proof.
  intros Hk H.
  assert (G : (if negb (wt =? wt_of s) then LStop UErr else
               match of_dres (dec_scalar d s) with LGo z d' => LGo (GNum z, false) d' | LStop r => LStop r end)
              = LGo (v, a) d2).
  { destruct k; try discriminate Hk; cbn [is_num_kind] in Hk; inversion Hk; subst; exact H. }
  destruct (N.eqb_spec wt (wt_of s)) as [He|Hne]; [|discriminate G]. cbn [negb] in G.
  split; [exact He|].
  destruct (dec_scalar d s) as [z d'|d'|]; cbn [of_dres] in G; try discriminate G.
  inversion G; subst. exists z. split; reflexivity.
Qed.

Lemma read_value_bytes_inv k wt d v a d2 : k = FString \/ k = FBytes ->
  read_value um k wt d = LGo (v, a) d2 ->
  wt = 2 /\ exists b, v = GBytes b /\ dec_bytes d = DOk b d2.
Proof.
  intros Hk H.
  assert (G : (if negb (wt =? 2) then LStop UErr else
               match of_dres (dec_bytes d) with LGo b d' => LGo (GBytes b, dfast d) d' | LStop r => LStop r end)
              = LGo (v, a) d2) by (destruct Hk; subst k; exact H).
  destruct (N.eqb_spec wt 2) as [He|Hne]; [|discriminate G]. cbn [negb] in G. split; [exact He|].
  destruct (dec_bytes d) as [b d'|d'|]; cbn [of_dres] in G; try discriminate G.
  inversion G; subst. exists b. split; reflexivity.
Qed.

Lemma read_value_msg_inv t wt d v a d2 :
  read_value um (FMsg t) wt d = LGo (v, a) d2 ->
  wt = 2 /\ exists b, dec_bytes d = DOk b d2 /\ um t b = UOk v a.
Proof.
  cbn [read_value]. intros H.
  destruct (N.eqb_spec wt 2) as [He|Hne]; [|discriminate H]. cbn [negb] in H. split; [exact He|].
  destruct (dec_nested _ d) as [b d'|d'|] eqn:En.
  - destruct (dec_nested_bytes _ _ _ _ En) as [Hb _].
    destruct (um t b) as [v0 al0| |] eqn:Eu; try discriminate H. inversion H; subst.
    exists b. split; [exact Hb|exact Eu].
  - destruct (dec_bytes _) as [b ?|?|]; [destruct (um t b)|..]; discriminate H.
  - discriminate H.
Qed.

(* ---------- one value ---------- *)
Lemma read_value_any k wt B o q rest num f m prev v a d2 r :
  bytes_ok B -> (length B <= bound)%nat -> skipn o B = q ++ rest ->
  ref_payload num wt q = Some (f, m) -> rfield_fits f = true ->
  prev0 prev -> sub_ok k f ->
  read_value um k wt (mk B o fast) = LGo (v, a) d2 ->
  single_value dm k prev f = Some r ->
  r = Some v /\ d2 = mk B (o + m) fast.
Proof.
  intros Hok HB Hs Hp Hfit Hprev Hsub Hrv Hsv.
  assert (Hnum : forall s, is_num_kind k = Some s -> r = Some v /\ d2 = mk B (o + m) fast).
  { intros s Hk. destruct (read_value_num_inv k s wt _ v a d2 Hk Hrv) as (-> & z & -> & Hd).
    destruct (dec_scalar_any B o fast q rest s num f m z d2 Hok Hs Hp Hfit Hd) as [Hsf ->].
    split; [|reflexivity].
    assert (G : single_value dm k prev f = Some (Some (GNum z))).
    { unfold single_value. destruct k; try discriminate Hk; rewrite Hk, Hsf; reflexivity. }
    rewrite G in Hsv. inversion Hsv. reflexivity. }
  assert (Hbytes : k = FString \/ k = FBytes -> r = Some v /\ d2 = mk B (o + m) fast).
  { intros Hk. destruct (read_value_bytes_inv k wt _ v a d2 Hk Hrv) as (-> & b & -> & Hd).
    destruct (dec_bytes_any B o fast q rest num f m b d2 Hok Hs Hp Hfit Hd) as (-> & -> & _).
    split; [|reflexivity]. destruct Hk; subst k; cbn [single_value] in Hsv; inversion Hsv; reflexivity. }
  destruct k as [s| | | |t].
  - apply (Hnum s). reflexivity.
  - apply (Hnum KInt32). reflexivity.
  - apply Hbytes. left; reflexivity.
  - apply Hbytes. right; reflexivity.
  - destruct (read_value_msg_inv t wt _ v a d2 Hrv) as (-> & b & Hd & Hu).
    destruct (dec_bytes_any B o fast q rest num f m b d2 Hok Hs Hp Hfit Hd) as (-> & -> & Hokb & Hlb).
    split; [|reflexivity]. cbn [single_value] in Hsv. cbn [sub_ok] in Hsub. destruct Hsub as [Hnd Hft].
    destruct (dm t prev b) as [v'|] eqn:Edm; [|discriminate Hsv]. inversion Hsv; subst r. f_equal. symmetry.
    assert (Edm' : dm t GAbsent b = Some v') by (destruct Hprev as [-> | ->]; rewrite ?Hdm0 in Edm; exact Edm).
    apply (Hrec t b v a v'); [lia|assumption..].
Qed.

(* ---------- one map entry ---------- *)
Definition entry_ok (vk : fkind) (e : rfield) : Prop :=
  rfield_fits e = true /\ (rnum e = 2 -> sub_ok vk e).

Lemma pick_from_step dm' e efs num k init r :
  pick_from dm' (e :: efs) num k init = Some r ->
  exists c, pick_fn dm' num k (Some init) e = Some c /\ pick_from dm' efs num k c = Some r.
Proof.
  rewrite pick_from_cons. destruct (pick_fn dm' num k (Some init) e) as [c|]; [|discriminate].
  intros H. exists c. split; [reflexivity|exact H].
Qed.

Lemma entry_loop_any kk vk B stop : (forall t, kk <> FMsg t) -> bytes_ok B -> (length B <= bound)%nat ->
  forall efs x off fuel fu key val al rest key' val' al' d' r1 r2,
  skipn off B = x ++ rest -> stop = (off + length x)%nat ->
  ref_parse_all fu x = Some efs ->
  Forall (fun e => entry_ok vk (fst e)) efs ->
  (forall t, vk = FMsg t ->
     (count_num 2 (map fst efs) <= 1)%nat /\ ((1 <= count_num 2 (map fst efs))%nat -> val = None)) ->
  entry_loop um fuel kk vk stop (mk B off fast) key val al = LGo (key', val', al') d' ->
  pick_from dm efs 1 kk (dflt kk key) = Some r1 ->
  pick_from dm efs 2 vk (dflt vk val) = Some r2 ->
  r1 = dflt kk key' /\ r2 = dflt vk val' /\ d' = mk B stop fast.
Proof.
  intros Hkk Hok HB. induction efs as [|e efs IH];
    intros x off fuel fu key val al rest key' val' al' d' r1 r2 Hs Hstop Hpa Hall Hvk Hel Hp1 Hp2.
  - (* the entry is exhausted *)
    assert (Hx : x = []).
    { destruct x as [|x0 xr]; [reflexivity|]. destruct fu as [|fu]; [discriminate Hpa|].
      rewrite ref_parse_all_step in Hpa by discriminate.
      destruct (ref_parse_field (x0 :: xr)) as [[fld n]|]; [|discriminate Hpa].
      destruct (n =? 0)%nat; [discriminate Hpa|].
      destruct (ref_parse_all fu (skipn n (x0 :: xr))); discriminate Hpa. }
    subst x. cbn [length] in Hstop.
    destruct fuel as [|fuel]; [discriminate Hel|]. rewrite entry_loop_S in Hel. cbn [mk doff] in Hel.
    destruct (Nat.ltb_spec off stop) as [Hc|_]; [lia|]. inversion Hel; subst.
    rewrite pick_from_nil in Hp1, Hp2. inversion Hp1; inversion Hp2. split; [reflexivity|]. split; [reflexivity|].
    apply mk_eq. lia.
  - destruct x as [|x0 xr]; [rewrite ref_parse_all_nil in Hpa; discriminate Hpa|].
    set (x := x0 :: xr) in *. assert (Hxn : x <> []) by discriminate.
    assert (Hxl : (1 <= length x)%nat) by (unfold x; cbn [length]; lia). clearbody x. clear x0 xr.
    destruct fu as [|fu]; [destruct x; [contradiction|discriminate Hpa]|].
    rewrite ref_parse_all_step in Hpa by exact Hxn.
    destruct (ref_parse_field x) as [[f n]|] eqn:Epf; [|discriminate Hpa].
    destruct (n =? 0)%nat; [discriminate Hpa|].
    destruct (ref_parse_all fu (skipn n x)) as [efs'|] eqn:Epa; [|discriminate Hpa].
    inversion Hpa; subst e efs'. clear Hpa.
    pose proof (Forall_inv Hall) as [Hfit Hsub]. pose proof (Forall_inv_tail Hall) as Hall'. cbn [fst] in Hfit, Hsub.
    pose proof (ref_parse_field_len x f n Epf) as Hn.
    destruct fuel as [|fuel]; [discriminate Hel|]. rewrite entry_loop_S in Hel. cbn [mk doff] in Hel.
    fold (mk B off fast) in Hel.
    destruct (Nat.ltb_spec off stop) as [_|Hc]; [|lia].
    destruct (dec_tag (mk B off fast)) as [[tag wt] d1|d1|] eqn:Etag; cbn [of_dres] in Hel; try discriminate Hel.
    destruct (dec_tag_any B off fast x rest tag wt d1 f n Hok Hs Epf Hfit Etag)
      as (kn & m & -> & -> & -> & Hpay & -> & Hkn & Hs1).
    destruct (ref_payload_facts _ _ _ _ _ Hpay) as (_ & _ & Hm).
    assert (Hs2 : skipn (off + (kn + m)) B = skipn (kn + m) x ++ rest) by (apply skipn_step; [exact Hs|lia]).
    assert (Hstop2 : stop = (off + (kn + m) + length (skipn (kn + m) x))%nat) by (rewrite skipn_length; lia).
    assert (Hoff : (off + kn + m = off + (kn + m))%nat) by lia.
    cbn [map fst] in Hvk.
    destruct (pick_from_step _ _ _ _ _ _ _ Hp1) as (c1 & Hc1 & Hp1').
    destruct (pick_from_step _ _ _ _ _ _ _ Hp2) as (c2 & Hc2 & Hp2').
    unfold pick_fn in Hc1, Hc2. cbn [fst] in Hc1, Hc2.
    destruct (N.eqb_spec (rnum f) 1) as [H1|H1].
    + (* the key *)
      assert (Hn2 : (rnum f =? 2) = false) by (rewrite H1; reflexivity). rewrite Hn2 in Hc2. inversion Hc2; subst c2.
      destruct (read_value um kk (rwt f) (mk B (off + kn) fast)) as [[v a] d2|r] eqn:Erv; [|discriminate Hel].
      destruct (single_value dm kk (match kk with FMsg _ => dflt kk key | _ => GAbsent end) f) as [r|] eqn:Esv;
        [|discriminate Hc1].
      destruct (read_value_any kk (rwt f) B (off + kn)%nat (skipn kn x) rest (rnum f) f m
                  (match kk with FMsg _ => dflt kk key | _ => GAbsent end) v a d2 r
                  Hok HB Hs1 Hpay Hfit) as [-> ->]; [| |exact Erv|exact Esv|].
      * destruct kk; try (left; reflexivity). exfalso. eapply Hkk. reflexivity.
      * unfold sub_ok. destruct kk; try exact I. exfalso. eapply Hkk. reflexivity.
      * inversion Hc1; subst c1. rewrite Hoff in Hel.
        apply (IH (skipn (kn + m) x) (off + (kn + m))%nat fuel fu (Some v) val (al || a) rest key' val' al' d' r1 r2
                 Hs2 Hstop2 Epa Hall'); [|exact Hel|exact Hp1'|exact Hp2'].
        intros t Ht. destruct (Hvk t Ht) as [Hq1 Hq2]. rewrite count_cons, Hn2 in Hq1, Hq2. split; [lia|]. intros; apply Hq2; lia.
    + destruct (N.eqb_spec (rnum f) 2) as [H2|H2].
      * (* the value *)
        inversion Hc1; subst c1.
        destruct (read_value um vk (rwt f) (mk B (off + kn) fast)) as [[v a] d2|r] eqn:Erv; [|discriminate Hel].
        destruct (single_value dm vk (match vk with FMsg _ => dflt vk val | _ => GAbsent end) f) as [r|] eqn:Esv;
          [|discriminate Hc2].
        destruct (read_value_any vk (rwt f) B (off + kn)%nat (skipn kn x) rest (rnum f) f m
                    (match vk with FMsg _ => dflt vk val | _ => GAbsent end) v a d2 r
                    Hok HB Hs1 Hpay Hfit) as [-> ->]; [| |exact Erv|exact Esv|].
        -- destruct vk as [| | | |t]; try (left; reflexivity).
           destruct (Hvk t eq_refl) as [_ Hq2]. rewrite count_cons, H2 in Hq2. cbn [N.eqb Pos.eqb] in Hq2.
           rewrite Hq2 by lia. right. reflexivity.
        -- apply Hsub. exact H2.
        -- inversion Hc2; subst c2. rewrite Hoff in Hel.
           apply (IH (skipn (kn + m) x) (off + (kn + m))%nat fuel fu key (Some v) (al || a) rest key' val' al' d' r1 r2
                    Hs2 Hstop2 Epa Hall'); [|exact Hel|exact Hp1'|exact Hp2'].
           intros t Ht. destruct (Hvk t Ht) as [Hq1 _]. rewrite count_cons, H2 in Hq1. cbn [N.eqb Pos.eqb] in Hq1.
           split; [lia|]. intros; lia.
      * (* a foreign field: Skip *)
        apply N.eqb_neq in H2. inversion Hc1; subst c1. inversion Hc2; subst c2.
        destruct (dec_skip (mk B (off + kn) fast) (Z.of_N (rnum f)) (Z.of_N (rwt f))) as [raw d2|d2|] eqn:Esk;
          cbn [of_dres] in Hel; try discriminate Hel.
        pose proof (dec_skip_any B (off + kn)%nat fast (skipn kn x) rest (rnum f) (rwt f) f m _ raw d2
                      Hok Hs1 Hpay Hfit Esk) as ->.
        rewrite Hoff in Hel.
        apply (IH (skipn (kn + m) x) (off + (kn + m))%nat fuel fu key val al rest key' val' al' d' r1 r2
                 Hs2 Hstop2 Epa Hall'); [|exact Hel|exact Hp1'|exact Hp2'].
        intros t Ht. destruct (Hvk t Ht) as [Hq1 Hq2]. rewrite count_cons, H2 in Hq1, Hq2. split; [lia|]. intros; apply Hq2; lia.
Qed.

(* ---------- one declared field ---------- *)
Definition a_nd_field (fd : fdesc) (f : rfield) : Prop :=
  match f with
  | RLen _ b =>
      match fcard_ fd, fkind_ fd with
      | CMap _ (FMsg t), _ =>
          exists efs, raw_fields b = Some efs /\ (count_num 2 efs <= 1)%nat /\
                      forall num vb, In (RLen num vb) efs -> num = 2 -> nd t vb = true
      | CMap _ _, _ => True
      | _, FMsg t => nd t b = true
      | _, _ => True
      end
  | _ => True
  end.
Definition sub_ft (k : fkind) (b : list byte) : Prop := match k with FMsg t => ft t b = true | _ => True end.
Definition a_ft_field (fd : fdesc) (f : rfield) : Prop :=
  match f with
  | RLen _ b =>
      match fcard_ fd with
      | CMap kk vk =>
          exists efs, raw_fields b = Some efs /\
            Forall (fun e => rfield_fits e = true /\
                             match e with RLen n vb => n = 2 -> sub_ft vk vb | _ => True end) efs
      | CPacked | CUnpacked =>
          match is_num_kind (fkind_ fd) with
          | Some s => wt_of s = 0 -> packed_fits (S (length b)) b = true
          | None => sub_ft (fkind_ fd) b
          end
      | _ => sub_ft (fkind_ fd) b
      end
  | _ => True
  end.

Lemma sub_ok_of fd f : (forall kk vk, fcard_ fd <> CMap kk vk) ->
  a_nd_field fd f -> a_ft_field fd f -> sub_ok (fkind_ fd) f.
Proof.
  intros Hc Hn Hf. unfold a_nd_field, a_ft_field, sub_ok, sub_ft in *.
  destruct (fkind_ fd) as [| | | |t] eqn:Ek; try exact I.
  destruct f as [| | |num b]; try exact I.
  destruct (fcard_ fd) as [| | | | | |kk vk]; cbn [is_num_kind] in Hf; try (split; assumption).
  exfalso. eapply Hc. reflexivity.
Qed.

Section Field.
Variables (md : mdesc) (fd : fdesc) (B : list byte) (o : nat) (q rest : list byte) (f : rfield) (m : nat).
Variables (fs : list (N * gval)) (unk raw : list byte).
Hypothesis Hmd : mdesc_ok sc md = true.
Hypothesis Hfind : find_field md (rnum f) = Some fd.
Hypothesis Hok : bytes_ok B.
Hypothesis HB : (length B <= bound)%nat.
Hypothesis Hs : skipn o B = q ++ rest.
Hypothesis Hp : ref_payload (rnum f) (rwt f) q = Some (f, m).
Hypothesis Hfit : rfield_fits f = true.
Hypothesis Hnd : a_nd_field fd f.
Hypothesis Hft : a_ft_field fd f.
Hypothesis Hfresh : fresh_msg fd fs.

Lemma Hnum : fnum fd = rnum f.
Proof. exact (proj2 (find_field_some md (rnum f) fd Hfind)). Qed.

Lemma rf_keys x k : In k (map fst (set_field (fnum fd) x fs)) -> k = rnum f \/ In k (map fst fs).
Proof. intros Hk. apply keys_set_field in Hk. rewrite <- Hnum. exact Hk. Qed.

Lemma rf_value prev v a0 d' r : (forall kk vk, fcard_ fd <> CMap kk vk) -> prev0 prev ->
  read_value um (fkind_ fd) (rwt f) (mk B o fast) = LGo (v, a0) d' ->
  single_value dm (fkind_ fd) prev f = Some r ->
  r = Some v /\ d' = mk B (o + m) fast.
Proof.
  intros Hc Hprev Hrv Hsv.
  apply (read_value_any (fkind_ fd) (rwt f) B o q rest (rnum f) f m prev v a0 d' r Hok HB Hs Hp Hfit Hprev);
    [|exact Hrv|exact Hsv].
  apply sub_ok_of; assumption.
Qed.

Lemma rf_prev : single_card (fcard_ fd) = true ->
  prev0 (match fkind_ fd with FMsg _ => lookup_field (fnum fd) fs | _ => GAbsent end).
Proof.
  intros Hc. destruct (fkind_ fd) as [| | | |t] eqn:Ek; try (left; reflexivity).
  left. apply lookup_notin. apply (Hfresh Hc t). exact Ek.
Qed.

(* singular fields *)
Lemma read_field_single fs2 a d2 st' :
  fcard_ fd = CImplicit \/ fcard_ fd = COptional \/ fcard_ fd = CRequired ->
  read_field um md fd (rwt f) (mk B o fast) fs = LGo (fs2, a) d2 ->
  ref_step dm md (fs, unk) (f, raw) = Some st' ->
  st' = (fs2, unk) /\ d2 = mk B (o + m) fast /\
  (forall k, In k (map fst fs2) -> k = rnum f \/ In k (map fst fs)).
Proof.
  intros Hc Hrf Hst.
  assert (Hrf' : match read_value um (fkind_ fd) (rwt f) (mk B o fast) with
                 | LGo (v, a) d' => LGo (set_field (fnum fd) v fs, a) d' | LStop r => LStop r end = LGo (fs2, a) d2)
    by (unfold read_field in Hrf; destruct Hc as [Hc|[Hc|Hc]]; rewrite Hc in Hrf; exact Hrf).
  assert (Hst' : match single_value dm (fkind_ fd)
                         (match fkind_ fd with FMsg _ => lookup_field (fnum fd) fs | _ => GAbsent end) f with
                 | None => None | Some None => Some (fs, unk ++ raw)
                 | Some (Some v) => Some (set_field (fnum fd) v fs, unk) end = Some st')
    by (unfold ref_step in Hst; rewrite Hfind in Hst; destruct Hc as [Hc|[Hc|Hc]]; rewrite Hc in Hst; exact Hst).
  clear Hrf Hst.
  assert (Hsc' : single_card (fcard_ fd) = true) by (destruct Hc as [Hc|[Hc|Hc]]; rewrite Hc; reflexivity).
  assert (Hnm : forall kk vk, fcard_ fd <> CMap kk vk) by (intros kk vk E; rewrite E in Hsc'; discriminate Hsc').
  destruct (read_value um (fkind_ fd) (rwt f) (mk B o fast)) as [[v a0] d'|r0] eqn:Erv; [|discriminate Hrf'].
  destruct (single_value dm (fkind_ fd) _ f) as [r|] eqn:Esv; [|discriminate Hst'].
  destruct (rf_value _ v a0 d' r Hnm (rf_prev Hsc') Erv Esv) as [-> ->].
  inversion Hrf'; subst fs2 a d2. inversion Hst'; subst st'.
  split; [reflexivity|]. split; [reflexivity|]. intros k. apply rf_keys.
Qed.

(* oneof members *)
Lemma read_field_oneof g fs2 a d2 st' : fcard_ fd = COneof g ->
  read_field um md fd (rwt f) (mk B o fast) fs = LGo (fs2, a) d2 ->
  ref_step dm md (fs, unk) (f, raw) = Some st' ->
  st' = (fs2, unk) /\ d2 = mk B (o + m) fast /\
  (forall k, In k (map fst fs2) -> k = rnum f \/ In k (map fst fs)).
Proof.
  intros Hc Hrf Hst.
  unfold read_field in Hrf. rewrite Hc in Hrf. unfold ref_step in Hst. rewrite Hfind, Hc in Hst.
  assert (Hsc' : single_card (fcard_ fd) = true) by (rewrite Hc; reflexivity).
  assert (Hnm : forall kk vk, fcard_ fd <> CMap kk vk) by (intros kk vk E; rewrite E in Hsc'; discriminate Hsc').
  destruct (read_value um (fkind_ fd) (rwt f) (mk B o fast)) as [[v a0] d'|r0] eqn:Erv; [|discriminate Hrf].
  destruct (single_value dm (fkind_ fd) _ f) as [r|] eqn:Esv; [|discriminate Hst].
  destruct (rf_value _ v a0 d' r Hnm (rf_prev Hsc') Erv Esv) as [-> ->].
  inversion Hrf; subst fs2 a d2. inversion Hst; subst st'.
  split; [reflexivity|]. split; [reflexivity|].
  intros k Hk. apply keys_set_field in Hk. rewrite <- Hnum. destruct Hk as [Hk|Hk]; [left; exact Hk|right].
  eapply keys_clear_group. exact Hk.
Qed.

(* repeated fields *)
Lemma read_field_rep fs2 a d2 st' : fcard_ fd = CPacked \/ fcard_ fd = CUnpacked ->
  read_field um md fd (rwt f) (mk B o fast) fs = LGo (fs2, a) d2 ->
  ref_step dm md (fs, unk) (f, raw) = Some st' ->
  st' = (fs2, unk) /\ d2 = mk B (o + m) fast /\
  (forall k, In k (map fst fs2) -> k = rnum f \/ In k (map fst fs)).
Proof.
  intros Hc Hrf Hst. pose proof rf_keys as Hkeys.
  set (cur := match lookup_field (fnum fd) fs with GList l => l | _ => [] end).
  assert (Hrf' :
    match is_num_kind (fkind_ fd) with
    | Some s =>
        if rwt f =? wt_of s then
          match of_dres (dec_scalar (mk B o fast) s) with
          | LGo z d' => LGo (set_field (fnum fd) (GList (cur ++ [GNum z])) fs, false) d' | LStop r => LStop r end
        else if rwt f =? 2 then
          match of_dres (dec_packed (mk B o fast) s) with
          | LGo zs d' => LGo (set_field (fnum fd) (GList (cur ++ map GNum zs)) fs, false) d' | LStop r => LStop r end
        else LStop UErr
    | None =>
        match read_value um (fkind_ fd) (rwt f) (mk B o fast) with
        | LGo (v, a) d' => LGo (set_field (fnum fd) (GList (cur ++ [v])) fs, a) d' | LStop r => LStop r end
    end = LGo (fs2, a) d2)
    by (unfold read_field, num_skind in Hrf; destruct Hc as [Hc|Hc]; rewrite Hc in Hrf; exact Hrf).
  assert (Hst' :
    match is_num_kind (fkind_ fd), f with
    | Some s, RLen _ b =>
        match unpack (S (length b)) s b with
        | Some zs => Some (set_field (fnum fd) (GList (cur ++ map GNum zs)) fs, unk) | None => None end
    | _, _ =>
        match single_value dm (fkind_ fd) GAbsent f with
        | None => None | Some None => Some (fs, unk ++ raw)
        | Some (Some v) => Some (set_field (fnum fd) (GList (cur ++ [v])) fs, unk) end
    end = Some st')
    by (unfold ref_step in Hst; rewrite Hfind in Hst; destruct Hc as [Hc|Hc]; rewrite Hc in Hst; exact Hst).
  clear Hrf Hst.
  assert (Hnm : forall kk vk, fcard_ fd <> CMap kk vk)
    by (intros kk vk E; destruct Hc as [Hc|Hc]; rewrite Hc in E; discriminate E).
  destruct (is_num_kind (fkind_ fd)) as [s|] eqn:Ek.
  - destruct (N.eqb_spec (rwt f) (wt_of s)) as [Hw|Hw].
    + (* one element *)
      destruct (dec_scalar (mk B o fast) s) as [z d'|d'|] eqn:Eds; cbn [of_dres] in Hrf'; try discriminate Hrf'.
      inversion Hrf'; subst fs2 a d2. clear Hrf'.
      assert (Hp' : ref_payload (rnum f) (wt_of s) q = Some (f, m)) by (rewrite <- Hw; exact Hp).
      destruct (dec_scalar_any B o fast q rest s (rnum f) f m z d' Hok Hs Hp' Hfit Eds) as [Hsf ->].
      assert (Hsv : single_value dm (fkind_ fd) GAbsent f = Some (Some (GNum z)))
        by (unfold single_value; destruct (fkind_ fd); try discriminate Ek; rewrite Ek, Hsf; reflexivity).
      assert (G : match single_value dm (fkind_ fd) GAbsent f with
                  | None => None | Some None => Some (fs, unk ++ raw)
                  | Some (Some v) => Some (set_field (fnum fd) (GList (cur ++ [v])) fs, unk) end = Some st').
      { destruct f as [? ?|? ?|? ?|n0 b0]; try exact Hst'.
        exfalso. cbn [rwt] in Hw. pose proof (wt_of_ne2 s) as Hc2. rewrite <- Hw in Hc2. discriminate Hc2. }
      rewrite Hsv in G. inversion G; subst st'.
      split; [reflexivity|]. split; [reflexivity|]. intros k. apply Hkeys.
    + destruct (N.eqb_spec (rwt f) 2) as [Hw2|Hw2]; [|discriminate Hrf'].
      (* a packed run *)
      destruct (dec_packed (mk B o fast) s) as [zs d'|d'|] eqn:Edp; cbn [of_dres] in Hrf'; try discriminate Hrf'.
      inversion Hrf'; subst fs2 a d2. clear Hrf'.
      destruct f as [? ?|? ?|? ?|n0 b0]; try discriminate Hw2.
      destruct (unpack (S (length b0)) s b0) as [zs'|] eqn:Eun; [|discriminate Hst'].
      inversion Hst'; subst st'. clear Hst'.
      cbn [rnum rwt] in Hp.
      assert (Hpf : wt_of s = 0 -> packed_fits (S (length b0)) b0 = true).
      { unfold a_ft_field in Hft. destruct Hc as [Hc|Hc]; rewrite Hc, Ek in Hft; exact Hft. }
      destruct (dec_packed_any B o fast q rest n0 b0 m s zs zs' d' (S (length b0)) (S (length b0))
                  Hok Hs Hp Hfit Eun Hpf Edp) as [-> ->].
      split; [reflexivity|]. split; [reflexivity|]. intros k. apply Hkeys.
  - destruct (read_value um (fkind_ fd) (rwt f) (mk B o fast)) as [[v a0] d'|r0] eqn:Erv; [|discriminate Hrf'].
    inversion Hrf'; subst fs2 a d2. clear Hrf'.
    assert (G : match single_value dm (fkind_ fd) GAbsent f with
                | None => None | Some None => Some (fs, unk ++ raw)
                | Some (Some v) => Some (set_field (fnum fd) (GList (cur ++ [v])) fs, unk) end = Some st')
      by (destruct f; exact Hst').
    destruct (single_value dm (fkind_ fd) GAbsent f) as [r|] eqn:Esv; [|discriminate G].
    destruct (rf_value GAbsent v a0 d' r Hnm (or_introl eq_refl) Erv Esv) as [-> ->].
    inversion G; subst st'.
    split; [reflexivity|]. split; [reflexivity|]. intros k. apply Hkeys.
Qed.
(* map fields *)
Lemma read_field_map kk vk fs2 a d2 st' : fcard_ fd = CMap kk vk ->
  read_field um md fd (rwt f) (mk B o fast) fs = LGo (fs2, a) d2 ->
  ref_step dm md (fs, unk) (f, raw) = Some st' ->
  st' = (fs2, unk) /\ d2 = mk B (o + m) fast /\
  (forall k, In k (map fst fs2) -> k = rnum f \/ In k (map fst fs)).
Proof.
  intros Hc Hrf Hst. pose proof rf_keys as Hkeys. pose proof Hnum as Hnum'.
  destruct (find_field_some md (rnum f) fd Hfind) as [Hin _].
  pose proof (mdesc_field_ok sc md fd Hmd Hin) as Hfok.
  pose proof (field_ok_card sc md fd Hfok) as Hfc. rewrite Hc in Hfc. destruct Hfc as [Hkk _].
  assert (Hkk' : forall t, kk <> FMsg t) by (intros t ->; discriminate Hkk).
  unfold read_field in Hrf. rewrite Hc in Hrf.
  destruct (N.eqb_spec (rwt f) 2) as [Hw|Hw]; [|discriminate Hrf]. cbn [negb] in Hrf.
  destruct (dec_scalar (mk B o fast) KUInt32) as [sz d1|d1|] eqn:Esz; cbn [of_dres] in Hrf; try discriminate Hrf.
  assert (Hp2 : ref_payload (rnum f) 2 q = Some (f, m)) by (rewrite <- Hw; exact Hp).
  destruct (ref_payload_facts _ _ _ _ _ Hp2) as (_ & _ & Hm1).
  pose proof (off_lt_nonnil B q rest o Hs ltac:(lia)) as Hlt.
  destruct (dec_size_any B o fast q rest (rnum f) f m sz d1 Hok Hs Hp2 Hfit Esz)
    as (b & ln & Hf & -> & -> & Hm & Hln & Hq & Hsk & Hokb & Hln1).
  destruct f as [? ?|? ?|? ?|num b0]; try discriminate Hf. cbn [rnum rwt] in *.
  inversion Hf; subst b0. clear Hf. subst num.
  rewrite (ref_step_map dm md fd kk vk fs unk b raw Hfind Hc) in Hst.
  destruct (ref_parse_all (S (length b)) b) as [efs|] eqn:Epa; [|discriminate Hst].
  rewrite !pick_eq in Hst.
  destruct (pick_from dm efs 1 kk (zero_of kk)) as [r1|] eqn:E1; [|discriminate Hst].
  destruct (pick_from dm efs 2 vk (zero_of vk)) as [r2|] eqn:E2; [|discriminate Hst].
  inversion Hst; subst st'. clear Hst.
  assert (Hraw : raw_fields b = Some (map fst efs)) by (unfold raw_fields; rewrite Epa; reflexivity).
  assert (Hnd' : forall t, vk = FMsg t ->
            (count_num 2 (map fst efs) <= 1)%nat /\
            forall num vb, In (RLen num vb) (map fst efs) -> num = 2 -> nd t vb = true).
  { intros t ->. unfold a_nd_field in Hnd. rewrite Hc in Hnd.
    assert (G : exists efs0, raw_fields b = Some efs0 /\ (count_num 2 efs0 <= 1)%nat /\
                  forall num vb, In (RLen num vb) efs0 -> num = 2 -> nd t vb = true)
      by (destruct (fkind_ fd); exact Hnd).
    destruct G as (efs0 & Hr0 & G1 & G2). rewrite Hraw in Hr0. inversion Hr0; subst efs0. split; assumption. }
  unfold a_ft_field in Hft. rewrite Hc in Hft. destruct Hft as (efs0 & Hr0 & Hall0).
  rewrite Hraw in Hr0. inversion Hr0; subst efs0. clear Hr0.
  assert (Hall : Forall (fun e => entry_ok vk (fst e)) efs).
  { apply Forall_forall. intros e He. rewrite Forall_forall in Hall0.
    assert (Hin' : In (fst e) (map fst efs)) by (apply in_map; exact He).
    destruct (Hall0 _ Hin') as [Hf1 Hf2]. split; [exact Hf1|]. intros H2. unfold sub_ok.
    destruct vk as [| | | |t]; try exact I. destruct (fst e) as [| | |n vb]; try exact I.
    cbn [rnum] in H2. split.
    - destruct (Hnd' t eq_refl) as [_ Hn1]. apply (Hn1 n vb); [exact Hin'|exact H2].
    - apply Hf2. exact H2. }
  assert (Hvk : forall t, vk = FMsg t ->
            (count_num 2 (map fst efs) <= 1)%nat /\ ((1 <= count_num 2 (map fst efs))%nat -> @None gval = None)).
  { intros t Ht. destruct (Hnd' t Ht) as [Hcn _]. split; [exact Hcn|reflexivity]. }
  pose proof (prefix_room B q rest o Hs ltac:(lia)) as Hroomq.
  pose proof (prefix_room B b _ (o + ln)%nat Hsk ltac:(lia)) as Hroom.
  cbv zeta in Hrf.
  change (doff (mk B (o + ln) fast)) with (o + ln)%nat in Hrf. change (dbuf (mk B o fast)) with B in Hrf.
  assert (Hmin : Z.to_nat (Z.min (Z.of_nat (length b)) (Z.of_nat (S (length B)))) = length b) by lia.
  rewrite Hmin in Hrf.
  destruct (entry_loop um (S (length B)) kk vk (o + ln + length b) (mk B (o + ln) fast) None None false)
    as [[[key' val'] al'] d2'|r0] eqn:Eel; [|discriminate Hrf].
  destruct (entry_loop_any kk vk B (o + ln + length b)%nat Hkk' Hok HB efs b (o + ln)%nat (S (length B)) (S (length b))
              None None false (skipn m q ++ rest) key' val' al' d2' r1 r2 Hsk eq_refl Epa Hall Hvk Eel E1 E2)
    as (-> & -> & ->).
  change (doff (mk B (o + ln + length b) fast)) with (o + ln + length b)%nat in Hrf.
  rewrite Nat.eqb_refl in Hrf. cbn [negb] in Hrf.
  assert (Hd : mk B (o + ln + length b) fast = mk B (o + m) fast) by (apply mk_eq; lia).
  destruct val' as [v|].
  - inversion Hrf; subst fs2 a d2. split; [reflexivity|]. split; [exact Hd|]. intros k. apply Hkeys.
  - destruct vk as [| | | |t];
      try (inversion Hrf; subst fs2 a d2; split; [reflexivity|]; split; [exact Hd|]; intros kx; apply Hkeys).
    destruct (um t []) as [v al0| |] eqn:Eu; try discriminate Hrf.
    rewrite (Hempty t v al0 Eu) in Hrf.
    inversion Hrf; subst fs2 a d2. split; [reflexivity|]. split; [exact Hd|]. intros k. apply Hkeys.
Qed.
End Field.
Lemma read_field_any md fd B o q rest f m fs unk raw fs2 a d2 st' :
  mdesc_ok sc md = true -> find_field md (rnum f) = Some fd ->
  bytes_ok B -> (length B <= bound)%nat -> skipn o B = q ++ rest ->
  ref_payload (rnum f) (rwt f) q = Some (f, m) -> rfield_fits f = true ->
  a_nd_field fd f -> a_ft_field fd f -> fresh_msg fd fs ->
  read_field um md fd (rwt f) (mk B o fast) fs = LGo (fs2, a) d2 ->
  ref_step dm md (fs, unk) (f, raw) = Some st' ->
  st' = (fs2, unk) /\ d2 = mk B (o + m) fast /\
  (forall k, In k (map fst fs2) -> k = rnum f \/ In k (map fst fs)).
Proof.
  intros Hmd Hfind Hok HB Hs Hp Hfit Hnd Hft Hfresh Hrf Hst.
  destruct (fcard_ fd) as [| | | | |g|kk vk] eqn:Hc.
  - eapply read_field_single; try eassumption. left; exact Hc.
  - eapply read_field_single; try eassumption. right; left; exact Hc.
  - eapply read_field_single; try eassumption. right; right; exact Hc.
  - eapply read_field_rep; try eassumption. left; exact Hc.
  - eapply read_field_rep; try eassumption. right; exact Hc.
  - eapply read_field_oneof; eassumption.
  - eapply read_field_map; eassumption.
Qed.

(* a failed field never yields a message *)
Lemma read_field_stop md fd wt d fs r : Inv d -> read_field um md fd wt d fs = LStop r -> r = UErr.
Proof.
  intros HI H.
  pose proof (read_field_post um False Hnp (fun F : False => match F with end) md fd wt d fs HI) as Hpost.
  rewrite H in Hpost. exact Hpost.
Qed.

(* ---------- the dispatch loop ---------- *)
Definition field_ok_any (md : mdesc) (f : rfield) : Prop :=
  rfield_fits f = true /\ forall fd, find_field md (rnum f) = Some fd -> a_nd_field fd f /\ a_ft_field fd f.

Lemma field_loop_any md B : mdesc_ok sc md = true -> bytes_ok B -> (length B <= bound)%nat ->
  forall flds x off fuel fu fs unk al mres al' st',
  skipn off B = x ->
  ref_parse_all fu x = Some flds ->
  Forall (fun fr => field_ok_any md (fst fr)) flds ->
  (forall fd, In fd (mfields md) -> single_card (fcard_ fd) = true -> forall t, fkind_ fd = FMsg t ->
     (count_num (fnum fd) (map fst flds) <= 1)%nat /\
     ((1 <= count_num (fnum fd) (map fst flds))%nat -> ~ In (fnum fd) (map fst fs))) ->
  field_loop um fuel md (mk B off fast) fs unk al = UOk mres al' ->
  ref_fold dm md (fs, unk) flds = Some st' ->
  mres = GMsg (fst st') (snd st').
Proof.
  intros Hmd Hok HB. induction flds as [|e flds IH];
    intros x off fuel fu fs unk al mres al' st' Hs Hpa Hall Hfresh Hfl Hrf.
  - assert (Hx : x = []).
    { destruct x as [|x0 xr]; [reflexivity|]. destruct fu as [|fu]; [discriminate Hpa|].
      rewrite ref_parse_all_step in Hpa by discriminate.
      destruct (ref_parse_field (x0 :: xr)) as [[fld n]|]; [|discriminate Hpa].
      destruct (n =? 0)%nat; [discriminate Hpa|].
      destruct (ref_parse_all fu (skipn n (x0 :: xr))); discriminate Hpa. }
    rewrite Hx in Hs. cbn [ref_fold fold_left] in Hrf. inversion Hrf; subst st'. cbn [fst snd].
    destruct fuel as [|fuel]; [discriminate Hfl|]. rewrite field_loop_S in Hfl.
    assert (Hl : (length B <= off)%nat).
    { apply (f_equal (@length byte)) in Hs. rewrite skipn_length in Hs. cbn [length] in Hs. lia. }
    unfold at_eof in Hfl. cbn [mk dbuf doff] in Hfl.
    destruct (Nat.leb_spec (length B) off) as [_|Hc]; [|lia].
    destruct (req_top md fs); [|discriminate Hfl]. inversion Hfl. reflexivity.
  - destruct x as [|x0 xr]; [rewrite ref_parse_all_nil in Hpa; discriminate Hpa|].
    set (x := x0 :: xr) in *. assert (Hxn : x <> []) by discriminate.
    assert (Hxl : (1 <= length x)%nat) by (unfold x; cbn [length]; lia). clearbody x. clear x0 xr.
    destruct fu as [|fu]; [destruct x; [contradiction|discriminate Hpa]|].
    rewrite ref_parse_all_step in Hpa by exact Hxn.
    destruct (ref_parse_field x) as [[f n]|] eqn:Epf; [|discriminate Hpa].
    destruct (n =? 0)%nat; [discriminate Hpa|].
    destruct (ref_parse_all fu (skipn n x)) as [flds'|] eqn:Epa; [|discriminate Hpa].
    inversion Hpa; subst e flds'. clear Hpa.
    pose proof (Forall_inv Hall) as [Hfit Hsub]. pose proof (Forall_inv_tail Hall) as Hall'. cbn [fst] in Hfit, Hsub.
    pose proof (ref_parse_field_len x f n Epf) as Hn.
    assert (Hs0 : skipn off B = x ++ []) by (rewrite app_nil_r; exact Hs).
    pose proof (off_lt_nonnil B x [] off Hs0 Hxl) as Hlt.
    destruct fuel as [|fuel]; [discriminate Hfl|]. rewrite field_loop_S in Hfl.
    unfold at_eof in Hfl. cbn [mk dbuf doff] in Hfl. fold (mk B off fast) in Hfl.
    destruct (Nat.leb_spec (length B) off) as [Hc|_]; [lia|].
    destruct (dec_tag (mk B off fast)) as [[tag wt] d1|d1|] eqn:Etag; cbn [of_dres] in Hfl; try discriminate Hfl.
    destruct (dec_tag_any B off fast x [] tag wt d1 f n Hok Hs0 Epf Hfit Etag)
      as (kn & m & -> & -> & -> & Hpay & -> & Hkn & Hs1).
    destruct (ref_payload_facts _ _ _ _ _ Hpay) as (_ & _ & Hm).
    assert (Hs2 : skipn (off + (kn + m)) B = skipn (kn + m) x).
    { rewrite (skipn_step B x [] off (kn + m) Hs0) by lia. apply app_nil_r. }
    assert (Hoff : (off + kn + m = off + (kn + m))%nat) by lia.
    rewrite ref_fold_cons in Hrf.
    destruct (ref_step dm md (fs, unk) (f, firstn (kn + m) x)) as [st1|] eqn:Est; [|discriminate Hrf].
    cbn [map fst] in Hfresh.
    destruct (find_field md (rnum f)) as [fd|] eqn:Hfind.
    + destruct (find_field_some md (rnum f) fd Hfind) as [Hin Hnum].
      destruct (Hsub fd eq_refl) as [Hnd Hft].
      destruct (read_field um md fd (rwt f) (mk B (off + kn) fast) fs) as [[fs2 a] d2|r] eqn:Erf.
      2:{ assert (Hr : r = UErr).
          { eapply read_field_stop; [|exact Erf]. unfold Inv. cbn [mk dbuf doff].
            pose proof (prefix_room B x [] off Hs0 ltac:(lia)). lia. }
          rewrite Hr in Hfl. discriminate Hfl. }
      destruct (read_field_any md fd B (off + kn)%nat (skipn kn x) [] f m fs unk (firstn (kn + m) x) fs2 a d2 st1
                  Hmd Hfind Hok HB Hs1 Hpay Hfit Hnd Hft) as (-> & -> & Hkeys); [|exact Erf|exact Est|].
      * intros Hsc' t Ht. destruct (Hfresh fd Hin Hsc' t Ht) as [_ Hc2]. apply Hc2.
        rewrite count_cons, Hnum, N.eqb_refl. lia.
      * rewrite Hoff in Hfl.
        apply (IH (skipn (kn + m) x) (off + (kn + m))%nat fuel fu fs2 unk (al || a) mres al' st' Hs2 Epa Hall');
          [|exact Hfl|exact Hrf].
        intros fd0 Hin0 Hsc0 t Ht. destruct (Hfresh fd0 Hin0 Hsc0 t Ht) as [Hc1 Hc2].
        pose proof (cnt_le_cons (fnum fd0) f (map fst flds)) as Hcc. split; [lia|].
        intros Hge Hink. destruct (Hkeys _ Hink) as [Hk|Hk].
        -- rewrite count_cons, <- Hk, N.eqb_refl in Hc1. lia.
        -- apply Hc2; [lia|exact Hk].
    + destruct (dec_skip (mk B (off + kn) fast) (Z.of_N (rnum f)) (Z.of_N (rwt f))) as [raw d2|d2|] eqn:Esk;
        cbn [of_dres] in Hfl; try discriminate Hfl.
      pose proof (dec_skip_any B (off + kn)%nat fast (skipn kn x) [] (rnum f) (rwt f) f m _ raw d2
                    Hok Hs1 Hpay Hfit Esk) as ->.
      assert (Hstep : st1 = (fs, unk ++ firstn (kn + m) x)).
      { unfold ref_step in Est. rewrite Hfind in Est. inversion Est. reflexivity. }
      subst st1.
      assert (Hsl : slice B off (off + kn + m) = firstn (kn + m) x).
      { unfold slice. rewrite Hs. f_equal. lia. }
      cbn [mk dbuf doff] in Hfl. rewrite Hsl in Hfl. fold (mk B (off + kn + m) fast) in Hfl. rewrite Hoff in Hfl.
      apply (IH (skipn (kn + m) x) (off + (kn + m))%nat fuel fu fs (unk ++ firstn (kn + m) x) al mres al' st' Hs2 Epa Hall');
        [|exact Hfl|exact Hrf].
      intros fd0 Hin0 Hsc0 t Ht. destruct (Hfresh fd0 Hin0 Hsc0 t Ht) as [Hc1 Hc2].
      pose proof (cnt_le_cons (fnum fd0) f (map fst flds)) as Hcc. split; [lia|]. intros Hge. apply Hc2. lia.
Qed.

End Any.

(* ---------- unfolding the exclusion predicates one level ---------- *)
Lemma no_dup_raw_S sc f ty p : no_dup_raw sc (S f) ty p = true ->
  exists flds, raw_fields p = Some flds /\ singular_msgs_once (nth ty sc empty_md) flds = true /\
    forall fl fd, In fl flds -> find_field (nth ty sc empty_md) (rnum fl) = Some fd ->
                  a_nd_field (no_dup_raw sc f) fd fl.
Proof.
  cbn [no_dup_raw]. intros H. destruct (raw_fields p) as [flds|]; [|discriminate H].
  apply andb_prop in H. destruct H as [H1 H2]. exists flds. split; [reflexivity|]. split; [exact H1|].
  intros fl fd Hin Hf. rewrite forallb_forall in H2. specialize (H2 fl Hin). rewrite Hf in H2.
  unfold a_nd_field. destruct fl as [| | |num b]; try exact I.
  destruct (fcard_ fd) as [| | | | | |kk vk].
  1-6: (destruct (fkind_ fd); try exact I; exact H2).
  destruct vk as [| | | |t]; try (destruct (fkind_ fd); exact I).
  assert (H' : match raw_fields b with
               | Some efs => (count_num 2 efs <=? 1)%nat &&
                             forallb (fun e => match e with RLen 2 vb => no_dup_raw sc f t vb | _ => true end) efs
               | None => false end = true) by (destruct (fkind_ fd); exact H2).
  assert (G : exists efs, raw_fields b = Some efs /\ (count_num 2 efs <= 1)%nat /\
                forall num vb, In (RLen num vb) efs -> num = 2 -> no_dup_raw sc f t vb = true).
  { destruct (raw_fields b) as [efs|]; [|discriminate H'].
    apply andb_prop in H'. destruct H' as [G1 G2]. exists efs. split; [reflexivity|].
    split; [apply Nat.leb_le; exact G1|]. intros num0 vb Hin0 ->. rewrite forallb_forall in G2.
    exact (G2 _ Hin0). }
  destruct (fkind_ fd); exact G.
Qed.

Lemma sub_ft_of (ft : nat -> list byte -> bool) k b :
  match k with FMsg t => ft t b | _ => true end = true -> sub_ft ft k b.
Proof. unfold sub_ft. destruct k; intros H; try exact I. exact H. Qed.

Lemma varints_fit_S sc f ty p : varints_fit sc (S f) ty p = true ->
  exists flds, raw_fields p = Some flds /\
    forall fl, In fl flds -> rfield_fits fl = true /\
      forall fd, find_field (nth ty sc empty_md) (rnum fl) = Some fd -> a_ft_field (varints_fit sc f) fd fl.
Proof.
  cbn [varints_fit]. intros H. destruct (raw_fields p) as [flds|]; [|discriminate H].
  exists flds. split; [reflexivity|]. intros fl Hin. rewrite forallb_forall in H. specialize (H fl Hin).
  apply andb_prop in H. destruct H as [H1 H2]. split; [exact H1|]. intros fd Hf. rewrite Hf in H2.
  unfold a_ft_field. destruct fl as [| | |num b]; try exact I.
  destruct (fcard_ fd) as [| | | | | |kk vk]; try (apply sub_ft_of; exact H2).
  - destruct (is_num_kind (fkind_ fd)) as [s|]; [|apply sub_ft_of; exact H2].
    intros Hw. rewrite Hw in H2. exact H2.
  - destruct (is_num_kind (fkind_ fd)) as [s|]; [|apply sub_ft_of; exact H2].
    intros Hw. rewrite Hw in H2. exact H2.
  - destruct (raw_fields b) as [efs|]; [|discriminate H2]. exists efs. split; [reflexivity|].
    apply Forall_forall. intros e He. rewrite forallb_forall in H2. specialize (H2 e He).
    apply andb_prop in H2. destruct H2 as [G1 G2]. split; [exact G1|].
    destruct e as [| | |n vb]; try exact I. intros ->. apply sub_ft_of. exact G2.
Qed.

(* ---------- all nesting levels ---------- *)
Theorem both_accept_equal sc fast : schema_ok sc = true -> forall n ty p fu fr fn ff v al v',
  (length p < n)%nat -> bytes_ok p ->
  gen_unmarshal sc fast fu ty p = UOk v al ->
  ref_decode_into sc fr ty GAbsent p = Some v' ->
  no_dup_raw sc fn ty p = true -> varints_fit sc ff ty p = true -> v = v'.
Proof.
  intros Hsc. induction n as [|n IH]; intros ty p fu fr fn ff v al v' Hn Hok Hg Hr Hnd Hft; [lia|].
  destruct fu as [|fu]; [discriminate Hg|]. destruct fr as [|fr]; [discriminate Hr|].
  destruct fn as [|fn]; [discriminate Hnd|]. destruct ff as [|ff]; [discriminate Hft|].
  cbn [gen_unmarshal] in Hg. unfold unmarshal_with in Hg.
  cbn [ref_decode_into] in Hr.
  destruct (ref_parse_all (S (length p)) p) as [flds|] eqn:Epa; [|discriminate Hr].
  set (md := nth ty sc empty_md) in *.
  destruct (ref_fold (ref_decode_into sc fr) md ([], []) flds) as [[fs u]|] eqn:Efold; [|discriminate Hr].
  inversion Hr; subst v'. clear Hr.
  assert (Hraw : raw_fields p = Some (map fst flds)) by (unfold raw_fields; rewrite Epa; reflexivity).
  destruct (no_dup_raw_S sc fn ty p Hnd) as (fl1 & Hr1 & Honce & Hndf). rewrite Hraw in Hr1. inversion Hr1; subst fl1. clear Hr1.
  destruct (varints_fit_S sc ff ty p Hft) as (fl2 & Hr2 & Hftf). rewrite Hraw in Hr2. inversion Hr2; subst fl2. clear Hr2.
  fold md in Honce, Hndf, Hftf.
  pose proof (mdesc_ok_nth sc ty Hsc) as Hmd. fold md in Hmd.
  change (GMsg fs u) with (GMsg (fst (fs, u)) (snd (fs, u))).
  eapply field_loop_any with (sc := sc) (um := gen_unmarshal sc fast fu) (dm := ref_decode_into sc fr)
    (nd := no_dup_raw sc fn) (ft := varints_fit sc ff) (bound := length p) (B := p) (off := 0%nat) (x := p)
    (fu := S (length p)) (flds := flds) (md := md) (fs := []) (unk := []).
  - exact Hsc.
  - apply dec0.
  - intros ty0 b v0 al0 v0' Hb Hokb Hu0 Hd0 Hn0 Hf0.
    apply (IH ty0 b fu fr fn ff v0 al0 v0'); [lia|assumption..].
  - intros t v0 al0 Hu0. destruct fu as [|fu']; [discriminate Hu0|]. rewrite gen_unmarshal_nil in Hu0.
    destruct (req_top _ _); [|discriminate Hu0]. inversion Hu0. reflexivity.
  - intros ty0 b E. pose proof (gen_unmarshal_post sc fast fu ty0 b) as Hp. rewrite E in Hp. exact Hp.
  - exact Hmd.
  - exact Hok.
  - apply Nat.le_refl.
  - reflexivity.
  - exact Epa.
  - apply Forall_forall. intros e He.
    assert (Hin : In (fst e) (map fst flds)) by (apply in_map; exact He).
    destruct (Hftf _ Hin) as [G1 G2]. split; [exact G1|]. intros fd Hfd. split; [apply Hndf; assumption|apply G2; exact Hfd].
  - intros fd Hin Hc t Ht. split; [exact (once_count md _ fd Honce Hin Hc t Ht)|]. intros _ [].
  - exact Hg.
  - exact Efold.
Qed.

(* the strong form: the very message the reference reads *)
Theorem both_accept_same : forall sc ty p fast dest m al v,
  schema_ok sc = true -> bytes_ok p ->
  gen_unmarshal_into sc fast ty dest p = UOk m al ->
  ref_decode sc (S (length p)) ty p = Some v ->
  no_dup_raw sc (S (length p)) ty p = true ->
  varints_fit sc (S (length p)) ty p = true ->
  m = v.
Proof.
  intros sc ty p fast dest m al v Hsc Hok Hg Hr Hnd Hft.
  exact (both_accept_equal sc fast Hsc (S (length p)) ty p _ _ _ _ m al v (Nat.lt_succ_diag_r _) Hok Hg Hr Hnd Hft).
Qed.

(* C08, second clause, as stated: equality implies equality of canonical forms *)
Theorem both_accept_agree : forall sc ty p fast dest m al v,
  schema_ok sc = true -> bytes_ok p ->
  gen_unmarshal_into sc fast ty dest p = UOk m al ->
  ref_decode sc (S (length p)) ty p = Some v ->
  no_dup_raw sc (S (length p)) ty p = true ->
  varints_fit sc (S (length p)) ty p = true ->
  forall fuel, (vdepth v < fuel)%nat -> (vdepth m < fuel)%nat -> normalize sc fuel ty m = normalize sc fuel ty v.
Proof.
  intros sc ty p fast dest m al v Hsc Hok Hg Hr Hnd Hft fuel _ _.
  rewrite (both_accept_same sc ty p fast dest m al v Hsc Hok Hg Hr Hnd Hft). reflexivity.
Qed.

Print Assumptions both_accept_equal.
Print Assumptions both_accept_agree.
