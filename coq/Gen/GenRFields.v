(* Reference round trip (C05), per element and per field: what the generated clauses emit is a run of
   well-formed reference fields, and folding them into the reference state sets exactly this field. *)
From CsProto Require Import Prelude Varint VarintSize ZigZag Codec RefWire WireStmts CodecBase EncProofs DecProofs
  Schema GenMarshal RefMsg GenStmts GenRArith GenRWire GenRBase.
Local Open Scope N_scope.

Definition singular (c : fcard) : bool := match c with CImplicit | COptional | CRequired => true | _ => false end.
Definition single_card (c : fcard) : bool := match c with CImplicit | COptional | CRequired | COneof _ => true | _ => false end.
(* (historic: the side condition "no proto3 float holds -0.0" of finding G6, repaired in the code; kept as a
   trivially true predicate so that the lemma interfaces stay as they were) *)
Definition nz_field (fd : fdesc) (y : gval) : bool := true.
Definition rawf (f : rfield) : rfield * list byte := (f, renc f).

Lemma enc_key_pos tag wt : (1 <= length (enc_key tag wt))%nat.
Proof. unfold enc_key. apply enc_varint_pos. Qed.

Lemma renc_len_payload tag b : (length b <= length (renc (RLen tag b)))%nat.
Proof. unfold renc, rpayload. rewrite !app_length. lia. Qed.

Section Fields.
Variable sc : schema.
Variable msg_ok sub_ok : nat -> gval -> bool.
Variable size_msg : nat -> gval -> nat.
Variable ops_msg : nat -> gval -> outcome (list gop).
Variable dec : nat -> gval -> list byte -> option gval.
Variable D : nat.

Hypothesis Hnested : forall ty x body,
  msg_ok ty x = true -> sub_ok ty x = true -> ops_msg ty x = Ok body -> N.of_nat (size_msg ty x) < 2^31 ->
  length (gbytes body) = size_msg ty x /\
  ((length (gbytes body) < D)%nat -> exists x', dec ty GAbsent (gbytes body) = Some x' /\ msg_rel sc ty x' x).
Hypothesis Hdec0 : forall ty b, dec ty (GMsg [] []) b = dec ty GAbsent b.

(* ---------- folds ---------- *)
Lemma ref_fold_none md l :
  fold_left (fun acc fr => match acc with Some st => ref_step dec md st fr | None => None end) l None = None.
Proof. induction l as [|x r IH]; [reflexivity|exact IH]. Qed.
Lemma ref_fold_nil md st : ref_fold dec md st [] = Some st.
Proof. reflexivity. Qed.
Lemma ref_fold_cons md st x r :
  ref_fold dec md st (x :: r) = match ref_step dec md st x with Some st' => ref_fold dec md st' r | None => None end.
Proof.
  unfold ref_fold. cbn [fold_left]. destruct (ref_step dec md st x); [reflexivity|apply ref_fold_none].
Qed.
Lemma ref_fold_app md st a b :
  ref_fold dec md st (a ++ b) = match ref_fold dec md st a with Some st' => ref_fold dec md st' b | None => None end.
Proof.
  unfold ref_fold. rewrite fold_left_app.
  destruct (fold_left _ a (Some st)); [reflexivity|apply ref_fold_none].
Qed.

(* ---------- one element ---------- *)
Lemma elem_spec tag k x ops :
  tag_ok tag -> elem_ok msg_ok k x = true -> sub_of sub_ok k x = true ->
  elem_ops size_msg ops_msg tag k x = Ok ops ->
  N.of_nat (elem_size size_msg tag k x) < 2^31 ->
  exists fld, gbytes ops = renc fld /\ rfield_wf fld /\ rnum fld = tag /\
    length (gbytes ops) = elem_size size_msg tag k x /\
    (forall s, is_num_kind k = Some s -> forall n b, fld <> RLen n b) /\
    ((length (gbytes ops) <= D)%nat -> exists x',
       (forall prev, prev = GAbsent \/ prev = GMsg [] [] -> single_value dec k prev fld = Some (Some x')) /\
       elem_rel sc k x' x).
Proof.
  intros Ht Hok Hsub Hops Hsz.
  assert (Hnum : forall s z, is_num_kind k = Some s -> x = GNum z -> in_dom s z = true ->
            (match k with FNum _ | FEnum => True | _ => False end) ->
            elem_ops size_msg ops_msg tag k x = Ok [GOp (EScalar s tag z)] ->
            elem_size size_msg tag k x = (size_key tag + num_size s z)%nat ->
            exists fld, gbytes ops = renc fld /\ rfield_wf fld /\ rnum fld = tag /\
              length (gbytes ops) = elem_size size_msg tag k x /\
              (forall s, is_num_kind k = Some s -> forall n b, fld <> RLen n b) /\
              ((length (gbytes ops) <= D)%nat -> exists x',
                 (forall prev, prev = GAbsent \/ prev = GMsg [] [] -> single_value dec k prev fld = Some (Some x')) /\
                 elem_rel sc k x' x)).
  { intros s z Hk Hx Hdom Hkk Ho Hs. rewrite Ho in Hops. inversion Hops; subst ops. clear Hops.
    destruct (scalar_canonical s tag z Ht Hdom) as [Hb Hwf].
    exists (ref_field s tag z). rewrite gbytes_one. cbn [gop_bytes].
    split; [exact Hb|]. split; [exact Hwf|]. split; [apply ref_field_rnum|].
    split; [rewrite ebytes_len by (split; assumption); rewrite Hs; reflexivity|].
    split; [intros s0 _; apply ref_field_not_len|].
    intros _. exists (GNum z). split.
    - intros prev _. destruct k; try destruct Hkk; cbn [single_value is_num_kind] in *;
        inversion Hk; subst s; rewrite ref_field_scalar by exact Hdom; reflexivity.
    - destruct k; try destruct Hkk; cbn [elem_rel]; symmetry; exact Hx. }
  destruct k as [s| | | |ty].
  - (* FNum *) destruct x as [|z| | | |]; try discriminate Hok.
    apply (Hnum s z); try reflexivity; try exact Hok; try exact I.
  - (* FEnum *) destruct x as [|z| | | |]; try discriminate Hok.
    apply (Hnum KInt32 z); try reflexivity; try exact Hok; try exact I.
  - (* FString *) destruct x as [| |b| | |]; try discriminate Hok.
    cbn [elem_ops] in Hops. inversion Hops; subst ops. clear Hops Hnum.
    cbn [elem_size] in Hsz |- *. unfold len_size in Hsz |- *.
    exists (RLen tag b). rewrite gbytes_one. cbn [gop_bytes].
    split; [apply bytes_canonical; [exact Ht|lia]|].
    split; [split; [exact Ht|cbn; lia]|]. split; [reflexivity|].
    split; [rewrite ebytes_len by (split; [exact Ht|lia]); cbn [esize]; lia|].
    split; [intros s Hs; discriminate Hs|].
    intros _. exists (GBytes b). split; [intros prev _; reflexivity|reflexivity].
  - (* FBytes *) destruct x as [| |b| | |]; try discriminate Hok.
    cbn [elem_ops] in Hops. inversion Hops; subst ops. clear Hops Hnum.
    cbn [elem_size] in Hsz |- *. unfold len_size in Hsz |- *.
    exists (RLen tag b). rewrite gbytes_one. cbn [gop_bytes].
    split; [apply bytes_canonical; [exact Ht|lia]|].
    split; [split; [exact Ht|cbn; lia]|]. split; [reflexivity|].
    split; [rewrite ebytes_len by (split; [exact Ht|lia]); cbn [esize]; lia|].
    split; [intros s Hs; discriminate Hs|].
    intros _. exists (GBytes b). split; [intros prev _; reflexivity|reflexivity].
  - (* FMsg *) clear Hnum. destruct x as [| | | | |fs u]; try discriminate Hok.
    cbn [elem_ok] in Hok. cbn [sub_of] in Hsub. cbn [elem_ops] in Hops. cbn [elem_size] in Hsz |- *.
    destruct (ops_msg ty (GMsg fs u)) as [body| |] eqn:Eb; cbn [obind] in Hops; try discriminate Hops.
    inversion Hops; subst ops. clear Hops. unfold len_size in Hsz |- *.
    destruct (Hnested ty (GMsg fs u) body Hok Hsub Eb ltac:(lia)) as [Hlen Hdec].
    rewrite <- Hlen in Hsz |- *.
    exists (RLen tag (gbytes body)). rewrite gbytes_one, gop_bytes_nest.
    change (enc_key tag 2 ++ enc_varint (N.of_nat (length (gbytes body))) ++ gbytes body)
      with (ebytes (EBytes tag (gbytes body))).
    split; [apply bytes_canonical; [exact Ht|lia]|].
    split; [split; [exact Ht|cbn; lia]|]. split; [reflexivity|].
    split; [rewrite ebytes_len by (split; [exact Ht|lia]); cbn [esize]; lia|].
    split; [intros s Hs; discriminate Hs|].
    intros HD. cbn [ebytes] in HD. rewrite !app_length in HD. pose proof (enc_key_pos tag 2) as Hkp.
    destruct (Hdec ltac:(lia)) as (x' & Hx' & Hrel). exists x'. split; [|exact Hrel].
    intros prev [Hp|Hp]; subst prev; cbn [single_value]; rewrite ?Hdec0, Hx'; reflexivity.
Qed.

(* ---------- what a field's occurrences do to the state ---------- *)
Definition fold_ok (md : mdesc) (n : N) (flds : list rfield) (P : gval -> Prop) : Prop :=
  forall st unk, lookup_field n st = GAbsent ->
  exists st2, ref_fold dec md (st, unk) (map rawf flds) = Some (st2, unk) /\
    (forall m, m <> n -> lookup_field m st2 = lookup_field m st) /\
    (forall k, In k (map fst st2) -> k = n \/ In k (map fst st)) /\
    P (lookup_field n st2).

Definition field_concl (md : mdesc) (fd : fdesc) (y : gval) (ops : list gop) (P : gval -> Prop) : Prop :=
  exists flds, gbytes ops = concat (map renc flds) /\ Forall rfield_wf flds /\
    length (gbytes ops) = field_size size_msg fd y /\
    ((length (gbytes ops) <= D)%nat -> fold_ok md (fnum fd) flds P).

Lemma fold_ok_nil md n (P : gval -> Prop) : P GAbsent -> fold_ok md n [] P.
Proof.
  intros HP st unk Hl. exists st. split; [reflexivity|]. split; [reflexivity|].
  split; [intros k Hk; right; exact Hk|]. rewrite Hl. exact HP.
Qed.

Lemma fvo_single fd y : single_card (fcard_ fd) = true -> y <> GAbsent ->
  field_value_ok msg_ok fd y = elem_ok msg_ok (fkind_ fd) y.
Proof.
  unfold field_value_ok. destruct (fcard_ fd), y; intros Hs Hy; try discriminate Hs; try congruence; reflexivity.
Qed.
Lemma fsub_single s fd y : single_card (fcard_ fd) = true -> y <> GAbsent ->
  field_sub s fd y = s (fkind_ fd) y.
Proof.
  unfold field_sub. destruct (fcard_ fd), y; intros Hs Hy; try discriminate Hs; try congruence; reflexivity.
Qed.
Lemma present_absent fd : present fd GAbsent = false.
Proof. unfold present. destruct (fcard_ fd); reflexivity. Qed.
Lemma norm_one_absent f fd : norm_one sc f fd GAbsent = [].
Proof. unfold norm_one. destruct (fcard_ fd); reflexivity. Qed.

Lemma step_single md fd fld x' st unk :
  find_field md (fnum fd) = Some fd -> rnum fld = fnum fd -> singular (fcard_ fd) = true ->
  lookup_field (fnum fd) st = GAbsent ->
  (forall prev, prev = GAbsent \/ prev = GMsg [] [] -> single_value dec (fkind_ fd) prev fld = Some (Some x')) ->
  ref_step dec md (st, unk) (rawf fld) = Some (set_field (fnum fd) x' st, unk).
Proof.
  intros Hf Hr Hs Hl Hsv. unfold ref_step, rawf. rewrite Hr, Hf, Hl.
  assert (E : match fkind_ fd with FMsg _ => GAbsent | _ => GAbsent end = GAbsent) by (destruct (fkind_ fd); reflexivity).
  destruct (fcard_ fd); try discriminate Hs; rewrite E, (Hsv GAbsent (or_introl eq_refl)); reflexivity.
Qed.

Lemma rel_single fd x' y : single_card (fcard_ fd) = true -> y <> GAbsent ->
  (fcard_ fd = CImplicit -> present fd y = true) ->
  elem_ok msg_ok (fkind_ fd) y = true -> elem_rel sc (fkind_ fd) x' y -> field_rel sc fd x' y.
Proof.
  intros Hs Hy Hp Hok Hrel f H1 H2. unfold elem_rel in Hrel.
  destruct (fkind_ fd) as [s| | | |t] eqn:Ek; try (rewrite Hrel; reflexivity).
  destruct Hrel as [(fs' & u' & Hx') Hn]. destruct y as [| | | | |fs u]; try discriminate Hok.
  subst x'. unfold norm_one. rewrite Ek.
  destruct (fcard_ fd); try discriminate Hs; cbn [norm_elem]; rewrite (Hn f H1 H2); reflexivity.
Qed.

Lemma zero_like_nz fd z : fcard_ fd = CImplicit -> zero_like (fkind_ fd) z = true ->
  nz_field fd (GNum z) = true -> z = 0%Z.
Proof.
  intros _ H _. unfold zero_like in H. apply Z.eqb_eq. exact H.
Qed.

Lemma rel_absent fd y : singular (fcard_ fd) = true -> present fd y = false ->
  field_value_ok msg_ok fd y = true -> nz_field fd y = true -> field_rel sc fd GAbsent y.
Proof.
  intros Hs Hp Hv Hnz f _ _. rewrite norm_one_absent.
  destruct y as [|z|b|l|kvs|fs u]; [rewrite norm_one_absent; reflexivity| | | | |].
  - destruct (fcard_ fd) eqn:Ec; try discriminate Hs; unfold present in Hp; rewrite Ec in Hp; try discriminate Hp.
    apply negb_false_iff in Hp. pose proof (zero_like_nz fd z Ec Hp Hnz) as Hz. subst z.
    unfold norm_one. rewrite Ec. reflexivity.
  - destruct (fcard_ fd) eqn:Ec; try discriminate Hs; unfold present in Hp; rewrite Ec in Hp; try discriminate Hp.
    destruct b; [|discriminate Hp]. unfold norm_one. rewrite Ec. reflexivity.
  - destruct (fcard_ fd) eqn:Ec; try discriminate Hs; unfold present in Hp; rewrite Ec in Hp; discriminate Hp.
  - destruct (fcard_ fd) eqn:Ec; try discriminate Hs; unfold present in Hp; rewrite Ec in Hp; discriminate Hp.
  - destruct (fcard_ fd) eqn:Ec; try discriminate Hs; unfold present in Hp; rewrite Ec in Hp; discriminate Hp.
Qed.

Lemma field_single md fd y ops :
  find_field md (fnum fd) = Some fd -> tag_ok (fnum fd) -> singular (fcard_ fd) = true ->
  field_value_ok msg_ok fd y = true -> field_sub (sub_of sub_ok) fd y = true -> nz_field fd y = true ->
  field_ops size_msg ops_msg fd y = Ok ops -> N.of_nat (field_size size_msg fd y) < 2^31 ->
  field_concl md fd y ops (fun y' => field_rel sc fd y' y).
Proof.
  intros Hf Ht Hs Hv Hsub Hnz Hops Hsz.
  assert (Hsc : single_card (fcard_ fd) = true) by (destruct (fcard_ fd); try discriminate Hs; reflexivity).
  assert (Ho : field_ops size_msg ops_msg fd y =
               if present fd y then elem_ops size_msg ops_msg (fnum fd) (fkind_ fd) y
               else match fcard_ fd with CRequired => Err | _ => Ok [] end).
  { unfold field_ops. destruct (fcard_ fd); try discriminate Hs; destruct (present fd y); reflexivity. }
  assert (Hz : field_size size_msg fd y = if present fd y then elem_size size_msg (fnum fd) (fkind_ fd) y else O).
  { unfold field_size. destruct (fcard_ fd); try discriminate Hs; reflexivity. }
  rewrite Ho in Hops. rewrite Hz in Hsz. unfold field_concl. rewrite Hz. clear Ho Hz.
  destruct (present fd y) eqn:Ep.
  - assert (Hy : y <> GAbsent) by (intros E; rewrite E, present_absent in Ep; discriminate Ep).
    rewrite (fvo_single fd y Hsc Hy) in Hv. rewrite (fsub_single _ fd y Hsc Hy) in Hsub.
    destruct (elem_spec (fnum fd) (fkind_ fd) y ops Ht Hv Hsub Hops Hsz) as (fld & Hb & Hwf & Hr & Hlen & _ & Hd).
    exists [fld]. cbn [map concat]. rewrite app_nil_r.
    split; [exact Hb|]. split; [constructor; [exact Hwf|constructor]|]. split; [exact Hlen|].
    intros HD st unk Hl. destruct (Hd HD) as (x' & Hsv & Hrel).
    exists (set_field (fnum fd) x' st). cbn [map]. rewrite ref_fold_cons.
    rewrite (step_single md fd fld x' st unk Hf Hr Hs Hl Hsv), ref_fold_nil.
    split; [reflexivity|]. split; [intros m Hm; apply lookup_set_other; exact Hm|].
    split; [intros k Hk; apply keys_set in Hk; exact Hk|].
    rewrite lookup_set_same. apply rel_single; try assumption. intros _. exact Ep.
  - assert (Hops' : ops = []).
    { destruct (fcard_ fd); try discriminate Hs; try discriminate Hops; inversion Hops; reflexivity. }
    subst ops. exists []. split; [reflexivity|]. split; [constructor|]. split; [reflexivity|].
    intros _. apply fold_ok_nil. apply rel_absent; assumption.
Qed.

(* ---------- repeated fields ---------- *)
Lemma nums_elems k s l : is_num_kind k = Some s -> forallb (elem_ok msg_ok k) l = true ->
  l = map GNum (nums_of l) /\ Forall (fun z => in_dom s z = true) (nums_of l).
Proof.
  intros Hk. induction l as [|x r IH]; cbn [forallb nums_of map]; intros H; [split; [reflexivity|constructor]|].
  apply andb_prop in H. destruct H as [H1 H2]. destruct (IH H2) as [IH1 IH2].
  destruct k as [s0| | | |t]; try discriminate Hk; destruct x as [|z| | | |]; try discriminate H1;
    cbn [is_num_kind] in Hk; inversion Hk; subst;
    (split; [f_equal; exact IH1 | constructor; [exact H1|exact IH2]]).
Qed.

Lemma field_rel_refl fd y : field_rel sc fd y y.
Proof. intros f _ _. reflexivity. Qed.

Lemma step_packed md fd s zs st unk :
  find_field md (fnum fd) = Some fd -> fcard_ fd = CPacked -> is_num_kind (fkind_ fd) = Some s ->
  lookup_field (fnum fd) st = GAbsent -> Forall (fun z => in_dom s z = true) zs ->
  ref_step dec md (st, unk) (rawf (ref_packed s (fnum fd) zs))
  = Some (set_field (fnum fd) (GList (map GNum zs)) st, unk).
Proof.
  intros Hf Hc Hk Hl Hd. unfold ref_step, rawf, ref_packed. cbn [rnum]. rewrite Hf, Hc, Hk, Hl.
  cbv beta iota. rewrite unpack_packed by (try exact Hd; lia). reflexivity.
Qed.

Lemma field_packed md fd y ops :
  find_field md (fnum fd) = Some fd -> tag_ok (fnum fd) -> fcard_ fd = CPacked ->
  (exists s, is_num_kind (fkind_ fd) = Some s) ->
  field_value_ok msg_ok fd y = true ->
  field_ops size_msg ops_msg fd y = Ok ops -> N.of_nat (field_size size_msg fd y) < 2^31 ->
  field_concl md fd y ops (fun y' => field_rel sc fd y' y).
Proof.
  intros Hf Ht Hc [s Hk] Hv Hops Hsz. unfold field_concl.
  unfold field_ops in Hops. unfold field_size in Hsz |- *. unfold field_value_ok in Hv.
  rewrite Hc in Hv. rewrite Hc, Hk in Hops, Hsz. rewrite Hc, Hk.
  assert (Hemp : list_of y = [] -> (y = GAbsent \/ y = GList []) ->
    exists flds, gbytes ops = concat (map renc flds) /\ Forall rfield_wf flds /\
      length (gbytes ops) = match list_of y with [] => O | _ :: _ =>
         (size_key (fnum fd) + len_size (packed_len s (nums_of (list_of y))))%nat end /\
      ((length (gbytes ops) <= D)%nat -> fold_ok md (fnum fd) flds (fun y' => field_rel sc fd y' y))).
  { intros He Hy. rewrite He in Hops |- *. inversion Hops; subst ops.
    exists []. split; [reflexivity|]. split; [constructor|]. split; [reflexivity|].
    intros _. apply fold_ok_nil. intros f _ _. rewrite norm_one_absent. unfold norm_one. rewrite Hc.
    destruct Hy as [Hy|Hy]; rewrite Hy; reflexivity. }
  destruct y as [|z|b|l|kvs|fs u]; try discriminate Hv.
  - apply Hemp; [reflexivity|left; reflexivity].
  - destruct l as [|x l]; [apply Hemp; [reflexivity|right; reflexivity]|]. clear Hemp.
    cbn [list_of] in *. destruct (nums_elems (fkind_ fd) s (x :: l) Hk Hv) as [Hl0 Hdom].
    set (l0 := x :: l) in *.
    assert (Hne : nums_of l0 <> []) by (unfold l0; cbn [nums_of map]; discriminate).
    unfold l0 in Hops, Hsz |- *. fold l0 in Hops, Hsz |- *.
    remember (nums_of l0) as zs eqn:Ezs.
    inversion Hops; subst ops. clear Hops. unfold len_size in Hsz |- *.
    assert (Hop : op_ok (EPacked s (fnum fd) zs)) by (split; [exact Ht|split; [exact Hdom|lia]]).
    pose proof (ebytes_len _ Hop) as Hlen.
    pose proof (packed_canonical s (fnum fd) zs Ht Hne Hdom ltac:(lia)) as Hcan.
    assert (Hes : esize (EPacked s (fnum fd) zs)
                  = (size_key (fnum fd) + (size_of_varint (N.of_nat (packed_len s zs)) + packed_len s zs))%nat).
    { cbn [esize]. destruct zs; [congruence|lia]. }
    exists [ref_packed s (fnum fd) zs]. rewrite gbytes_one. cbn [gop_bytes map concat]. rewrite app_nil_r.
    split; [exact Hcan|]. split.
    { constructor; [|constructor]. split; [exact Ht|]. unfold ref_packed.
      pose proof (renc_len_payload (fnum fd) (concat (map (fun v => rvalue (ref_field s (fnum fd) v)) zs))) as Hp.
      fold (ref_packed s (fnum fd) zs) in Hp. rewrite <- Hcan, Hlen, Hes in Hp. lia. }
    split; [rewrite Hlen, Hes; reflexivity|].
    intros _ st unk Hl. exists (set_field (fnum fd) (GList (map GNum zs)) st). cbn [map].
    rewrite ref_fold_cons, (step_packed md fd s zs st unk Hf Hc Hk Hl Hdom), ref_fold_nil.
    split; [reflexivity|]. split; [intros m Hm; apply lookup_set_other; exact Hm|].
    split; [intros k Hk0; apply keys_set in Hk0; exact Hk0|].
    rewrite lookup_set_same, <- Hl0. apply field_rel_refl.
Qed.

Definition cur_list (n : N) (st : list (N * gval)) : list gval :=
  match lookup_field n st with GList l => l | _ => [] end.

Lemma step_unpacked md fd fld x' st unk :
  find_field md (fnum fd) = Some fd -> rnum fld = fnum fd -> fcard_ fd = CUnpacked ->
  (forall s, is_num_kind (fkind_ fd) = Some s -> forall n b, fld <> RLen n b) ->
  single_value dec (fkind_ fd) GAbsent fld = Some (Some x') ->
  ref_step dec md (st, unk) (rawf fld)
  = Some (set_field (fnum fd) (GList (cur_list (fnum fd) st ++ [x'])) st, unk).
Proof.
  intros Hf Hr Hc Hnl Hsv. unfold ref_step, rawf, cur_list. rewrite Hr, Hf, Hc.
  destruct (is_num_kind (fkind_ fd)) as [s|] eqn:Ek.
  - destruct fld as [n v|n b|n b|n b]; try (rewrite Hsv; reflexivity).
    exfalso. exact (Hnl s eq_refl n b eq_refl).
  - rewrite Hsv. reflexivity.
Qed.

Lemma unpacked_list md fd : find_field md (fnum fd) = Some fd -> tag_ok (fnum fd) -> fcard_ fd = CUnpacked ->
  forall l ops, forallb (elem_ok msg_ok (fkind_ fd)) l = true -> forallb (sub_of sub_ok (fkind_ fd)) l = true ->
  concat_ops (elem_ops size_msg ops_msg (fnum fd) (fkind_ fd)) l = Ok ops ->
  N.of_nat (sum_map (elem_size size_msg (fnum fd) (fkind_ fd)) l) < 2^31 ->
  exists flds, gbytes ops = concat (map renc flds) /\ Forall rfield_wf flds /\
    length (gbytes ops) = sum_map (elem_size size_msg (fnum fd) (fkind_ fd)) l /\
    ((length (gbytes ops) <= D)%nat -> exists l', Forall2 (elem_rel sc (fkind_ fd)) l' l /\
      forall st unk, exists st2, ref_fold dec md (st, unk) (map rawf flds) = Some (st2, unk) /\
        (forall m, m <> fnum fd -> lookup_field m st2 = lookup_field m st) /\
        (forall k, In k (map fst st2) -> k = fnum fd \/ In k (map fst st)) /\
        match l with [] => st2 = st | _ => lookup_field (fnum fd) st2 = GList (cur_list (fnum fd) st ++ l') end).
Proof.
  intros Hf Ht Hc. induction l as [|x r IH]; intros ops Hok Hsub Hops Hsz.
  - cbn [concat_ops] in Hops. inversion Hops; subst ops. exists []. split; [reflexivity|].
    split; [constructor|]. split; [reflexivity|]. intros _. exists []. split; [constructor|].
    intros st unk. exists st. split; [reflexivity|]. split; [reflexivity|].
    split; [intros k Hk; right; exact Hk|reflexivity].
  - cbn [forallb concat_ops sum_map] in Hok, Hsub, Hops, Hsz |- *.
    apply andb_prop in Hok, Hsub. destruct Hok as [Hok1 Hok2], Hsub as [Hsub1 Hsub2].
    destruct (elem_ops size_msg ops_msg (fnum fd) (fkind_ fd) x) as [a| |] eqn:Ea; cbn [obind] in Hops; try discriminate Hops.
    destruct (concat_ops (elem_ops size_msg ops_msg (fnum fd) (fkind_ fd)) r) as [b| |] eqn:Eb; cbn [obind] in Hops; try discriminate Hops.
    inversion Hops; subst ops. clear Hops.
    destruct (elem_spec (fnum fd) (fkind_ fd) x a Ht Hok1 Hsub1 Ea ltac:(lia)) as (fld & Hb & Hwf & Hr & Hlen & Hnl & Hd).
    destruct (IH b Hok2 Hsub2 eq_refl ltac:(lia)) as (flds & Hbr & Hwfr & Hlenr & Hdr).
    exists (fld :: flds). rewrite gbytes_app. cbn [map concat]. rewrite Hb, <- Hbr.
    split; [reflexivity|]. split; [constructor; assumption|].
    split; [rewrite app_length, <- Hb, Hlen, Hlenr; reflexivity|].
    rewrite app_length, <- Hb. intros HD.
    destruct (Hd ltac:(lia)) as (x' & Hsv & Hrel). destruct (Hdr ltac:(lia)) as (r' & HF & Hst).
    exists (x' :: r'). split; [constructor; assumption|]. intros st unk.
    set (st1 := set_field (fnum fd) (GList (cur_list (fnum fd) st ++ [x'])) st).
    destruct (Hst st1 unk) as (st2 & Hfold & Hframe & Hkeys & Hres). exists st2.
    rewrite ref_fold_cons, (step_unpacked md fd fld x' st unk Hf Hr Hc Hnl (Hsv GAbsent (or_introl eq_refl))).
    fold st1. split; [exact Hfold|].
    split; [intros m Hm; rewrite (Hframe m Hm); apply lookup_set_other; exact Hm|].
    split.
    { intros k Hk. destruct (Hkeys k Hk) as [H1|H1]; [left; exact H1|]. apply keys_set in H1. exact H1. }
    destruct r as [|x2 r2].
    + assert (Hr' : r' = []) by (inversion HF; reflexivity). rewrite Hr', Hres. unfold st1. rewrite lookup_set_same. reflexivity.
    + rewrite Hres. unfold cur_list at 1. unfold st1. rewrite lookup_set_same, <- app_assoc. reflexivity.
Qed.

Lemma map_norm_eq f k l' l : Forall2 (elem_rel sc k) l' l ->
  (forall x, In x l -> (vdepth x < f)%nat) -> (forall x, In x l' -> (vdepth x < f)%nat) ->
  map (norm_elem sc f k) l' = map (norm_elem sc f k) l.
Proof.
  intros HF. induction HF as [|a' a r' r Ha Hr IH]; intros H1 H2; [reflexivity|].
  cbn [map]. f_equal.
  - apply elem_rel_norm; [exact Ha|apply H1; left; reflexivity|apply H2; left; reflexivity].
  - apply IH; intros x Hx; [apply H1|apply H2]; right; exact Hx.
Qed.

Lemma rel_list fd l' l : (fcard_ fd = CPacked \/ fcard_ fd = CUnpacked) ->
  Forall2 (elem_rel sc (fkind_ fd)) l' l -> l <> [] -> field_rel sc fd (GList l') (GList l).
Proof.
  intros Hc HF Hne f H1 H2.
  destruct l as [|a r]; [congruence|]. destruct l' as [|a' r']; [inversion HF|].
  assert (Hm : map (norm_elem sc f (fkind_ fd)) (a' :: r') = map (norm_elem sc f (fkind_ fd)) (a :: r)).
  { apply map_norm_eq; [exact HF| |]; intros x Hx.
    - pose proof (vdepth_list_in x _ Hx). lia.
    - pose proof (vdepth_list_in x _ Hx). lia. }
  unfold norm_one. destruct Hc as [Hc|Hc]; rewrite Hc; rewrite Hm; reflexivity.
Qed.

Lemma field_unpacked md fd y ops :
  find_field md (fnum fd) = Some fd -> tag_ok (fnum fd) -> fcard_ fd = CUnpacked ->
  field_value_ok msg_ok fd y = true -> field_sub (sub_of sub_ok) fd y = true ->
  field_ops size_msg ops_msg fd y = Ok ops -> N.of_nat (field_size size_msg fd y) < 2^31 ->
  field_concl md fd y ops (fun y' => field_rel sc fd y' y).
Proof.
  intros Hf Ht Hc Hv Hsub Hops Hsz. unfold field_concl.
  unfold field_ops in Hops. unfold field_size in Hsz |- *. unfold field_value_ok in Hv. unfold field_sub in Hsub.
  rewrite Hc in Hv, Hsub, Hops, Hsz. rewrite Hc.
  assert (Hv' : forallb (elem_ok msg_ok (fkind_ fd)) (list_of y) = true /\
                forallb (sub_of sub_ok (fkind_ fd)) (list_of y) = true /\
                (y = GAbsent \/ y = GList (list_of y))).
  { destruct y; try discriminate Hv; cbn [list_of forallb]; repeat split; try assumption;
      [left; reflexivity|right; reflexivity]. }
  destruct Hv' as (Hv1 & Hv2 & Hy).
  destruct (unpacked_list md fd Hf Ht Hc (list_of y) ops Hv1 Hv2 Hops Hsz) as (flds & Hb & Hwf & Hlen & Hd).
  exists flds. split; [exact Hb|]. split; [exact Hwf|]. split; [exact Hlen|].
  intros HD st unk Hl. destruct (Hd HD) as (l' & HF & Hst).
  destruct (Hst st unk) as (st2 & Hfold & Hframe & Hkeys & Hres). exists st2.
  split; [exact Hfold|]. split; [exact Hframe|]. split; [exact Hkeys|].
  destruct (list_of y) as [|x r] eqn:El.
  - subst st2. rewrite Hl. intros f _ _. rewrite norm_one_absent. unfold norm_one. rewrite Hc.
    destruct Hy as [Hy|Hy]; rewrite Hy; reflexivity.
  - rewrite Hres. unfold cur_list. rewrite Hl. cbn [app].
    destruct Hy as [Hy|Hy]; [rewrite Hy in El; discriminate El|]. rewrite Hy.
    apply rel_list; [right; exact Hc|exact HF|discriminate].
Qed.

(* ---------- maps ---------- *)
Definition cur_map (n : N) (st : list (N * gval)) : list (gval * gval) :=
  match lookup_field n st with GMap kvs => kvs | _ => [] end.

Definition pick (efs : list (rfield * list byte)) (num : N) (k : fkind) : option gval :=
  fold_left (fun (acc : option gval) (e : rfield * list byte) =>
     match acc with
     | None => None
     | Some cur =>
         if rnum (fst e) =? num then
           match single_value dec k (match k with FMsg _ => cur | _ => GAbsent end) (fst e) with
           | None => None
           | Some None => Some cur
           | Some (Some v) => Some v
           end
         else Some cur
     end) efs (Some (zero_of k)).

Lemma ref_step_map md fd kk vk st unk b raw :
  find_field md (fnum fd) = Some fd -> fcard_ fd = CMap kk vk ->
  ref_step dec md (st, unk) (RLen (fnum fd) b, raw) =
  match ref_parse_all (S (length b)) b with
  | None => None
  | Some efs =>
      match pick efs 1 kk, pick efs 2 vk with
      | Some k, Some v => Some (set_field (fnum fd) (GMap (map_set k v (cur_map (fnum fd) st))) st, unk)
      | _, _ => None
      end
  end.
Proof. intros Hf Hc. unfold ref_step. cbn [rnum]. rewrite Hf, Hc. reflexivity. Qed.

Definition entry_size (tag : N) (kk vk : fkind) (p : gval * gval) : nat :=
  let '(k, x) := p in
  let item := (elem_size size_msg 1 kk k + elem_size size_msg 2 vk x)%nat in
  (size_key tag + len_size item)%nat.
Definition entry_ops (tag : N) (kk vk : fkind) (p : gval * gval) : outcome (list gop) :=
  let '(k, x) := p in
  let item := (elem_size size_msg 1 kk k + elem_size size_msg 2 vk x)%nat in
  let* ko := elem_ops size_msg ops_msg 1 kk k in
  let* vo := elem_ops size_msg ops_msg 2 vk x in
  Ok (GOp (EMapHeader tag (N.of_nat item)) :: ko ++ vo).

Lemma tag_ok_1 : tag_ok 1. Proof. unfold tag_ok, max_tag. lia. Qed.
Lemma tag_ok_2 : tag_ok 2. Proof. unfold tag_ok, max_tag. lia. Qed.

Lemma entry_spec md fd kk vk k x ops :
  find_field md (fnum fd) = Some fd -> tag_ok (fnum fd) -> fcard_ fd = CMap kk vk -> key_kind_ok kk = true ->
  elem_ok msg_ok kk k = true -> elem_ok msg_ok vk x = true -> sub_of sub_ok vk x = true ->
  entry_ops (fnum fd) kk vk (k, x) = Ok ops ->
  N.of_nat (entry_size (fnum fd) kk vk (k, x)) < 2^31 ->
  exists fld, gbytes ops = renc fld /\ rfield_wf fld /\
    length (gbytes ops) = entry_size (fnum fd) kk vk (k, x) /\
    ((length (gbytes ops) <= D)%nat -> exists x', elem_rel sc vk x' x /\
       forall st unk, ref_step dec md (st, unk) (rawf fld)
         = Some (set_field (fnum fd) (GMap (map_set k x' (cur_map (fnum fd) st))) st, unk)).
Proof.
  intros Hf Ht Hc Hkk Hk Hx Hsub Hops Hsz.
  unfold entry_ops in Hops. unfold entry_size in Hsz |- *. cbv zeta in Hops, Hsz |- *.
  unfold len_size in Hsz |- *.
  destruct (elem_ops size_msg ops_msg 1 kk k) as [ko| |] eqn:Eko; cbn [obind] in Hops; try discriminate Hops.
  destruct (elem_ops size_msg ops_msg 2 vk x) as [vo| |] eqn:Evo; cbn [obind] in Hops; try discriminate Hops.
  inversion Hops; subst ops. clear Hops.
  assert (Hsubk : sub_of sub_ok kk k = true) by (destruct kk; try reflexivity; discriminate Hkk).
  destruct (elem_spec 1 kk k ko tag_ok_1 Hk Hsubk Eko ltac:(lia)) as (kf & Hkb & Hkwf & Hkr & Hklen & _ & Hkd).
  destruct (elem_spec 2 vk x vo tag_ok_2 Hx Hsub Evo ltac:(lia)) as (vf & Hvb & Hvwf & Hvr & Hvlen & _ & Hvd).
  rewrite gbytes_cons, gbytes_app. cbn [gop_bytes ebytes]. rewrite <- Hklen, <- Hvlen, Hkb, Hvb in *.
  rewrite <- app_length in *. set (b := renc kf ++ renc vf) in *. rewrite <- app_assoc.
  change (enc_key (fnum fd) 2 ++ enc_varint (N.of_nat (length b)) ++ b) with (ebytes (EBytes (fnum fd) b)).
  exists (RLen (fnum fd) b).
  split; [apply bytes_canonical; [exact Ht|lia]|].
  split; [split; [exact Ht|change (N.of_nat (length b) <= 2147483647); lia]|].
  split; [rewrite ebytes_len by (split; [exact Ht|lia]); cbn [esize]; lia|].
  intros HD. cbn [ebytes] in HD. rewrite !app_length in HD. unfold b in HD. rewrite app_length in HD.
  destruct (Hkd ltac:(lia)) as (k' & Hksv & Hkrel). destruct (Hvd ltac:(lia)) as (x' & Hvsv & Hvrel).
  assert (Hk' : k' = k) by (destruct kk; try exact Hkrel; discriminate Hkk). subst k'.
  exists x'. split; [exact Hvrel|]. intros st unk. unfold rawf.
  rewrite (ref_step_map md fd kk vk st unk b _ Hf Hc).
  assert (Hpa : ref_parse_all (S (length b)) b = Some [(kf, renc kf); (vf, renc vf)]).
  { unfold b. replace (renc kf ++ renc vf) with (concat (map renc [kf; vf]) ++ [])
      by (cbn [map concat]; rewrite !app_nil_r; reflexivity).
    rewrite (ref_parse_all_renc [kf; vf] [] []); [reflexivity| |apply ref_parse_all_nil|lia].
    constructor; [exact Hkwf|constructor; [exact Hvwf|constructor]]. }
  rewrite Hpa.
  assert (Hp1 : pick [(kf, renc kf); (vf, renc vf)] 1 kk = Some k).
  { unfold pick. cbn [fold_left fst]. rewrite Hkr, Hvr. change (1 =? 1) with true. change (2 =? 1) with false.
    cbv iota. destruct kk; try discriminate Hkk; rewrite (Hksv GAbsent (or_introl eq_refl)); reflexivity. }
  assert (Hp2 : pick [(kf, renc kf); (vf, renc vf)] 2 vk = Some x').
  { unfold pick. cbn [fold_left fst]. rewrite Hkr, Hvr. change (1 =? 2) with false. change (2 =? 2) with true.
    cbv iota. destruct vk; cbn [zero_of];
      first [rewrite (Hvsv GAbsent (or_introl eq_refl)) | rewrite (Hvsv (GMsg [] []) (or_intror eq_refl))]; reflexivity. }
  rewrite Hp1, Hp2. reflexivity.
Qed.

Lemma map_set_fresh k v cur : (forall k0, In k0 (map fst cur) -> gval_eqb_key k0 k = false) ->
  map_set k v cur = cur ++ [(k, v)].
Proof.
  induction cur as [|[k0 v0] r IH]; cbn [map_set map fst In app]; intros H; [reflexivity|].
  rewrite (H k0 (or_introl eq_refl)). f_equal. apply IH. intros k1 H1. apply H. right. exact H1.
Qed.

Lemma existsb_false {A} (f : A -> bool) l : existsb f l = false -> forall x, In x l -> f x = false.
Proof.
  intros H x Hx. destruct (f x) eqn:E; [|reflexivity].
  assert (H1 : existsb f l = true) by (apply existsb_exists; exists x; split; assumption). congruence.
Qed.

Definition entry_rel (vk : fkind) (p' p : gval * gval) : Prop :=
  fst p' = fst p /\ elem_rel sc vk (snd p') (snd p).

Lemma map_list md fd kk vk :
  find_field md (fnum fd) = Some fd -> tag_ok (fnum fd) -> fcard_ fd = CMap kk vk -> key_kind_ok kk = true ->
  forall kvs ops,
  forallb (fun '(k, x) => elem_ok msg_ok kk k && elem_ok msg_ok vk x) kvs = true ->
  keys_distinct (map fst kvs) = true ->
  forallb (fun '(_, y) => sub_of sub_ok vk y) kvs = true ->
  concat_ops (entry_ops (fnum fd) kk vk) kvs = Ok ops ->
  N.of_nat (sum_map (entry_size (fnum fd) kk vk) kvs) < 2^31 ->
  exists flds, gbytes ops = concat (map renc flds) /\ Forall rfield_wf flds /\
    length (gbytes ops) = sum_map (entry_size (fnum fd) kk vk) kvs /\
    ((length (gbytes ops) <= D)%nat -> exists kvs', Forall2 (entry_rel vk) kvs' kvs /\
      forall st unk,
        (forall k0 k, In k0 (map fst (cur_map (fnum fd) st)) -> In k (map fst kvs) -> gval_eqb_key k0 k = false) ->
        exists st2, ref_fold dec md (st, unk) (map rawf flds) = Some (st2, unk) /\
        (forall m, m <> fnum fd -> lookup_field m st2 = lookup_field m st) /\
        (forall k, In k (map fst st2) -> k = fnum fd \/ In k (map fst st)) /\
        match kvs with [] => st2 = st | _ => lookup_field (fnum fd) st2 = GMap (cur_map (fnum fd) st ++ kvs') end).
Proof.
  intros Hf Ht Hc Hkk. induction kvs as [|[k x] r IH]; intros ops Hok Hdis Hsub Hops Hsz.
  - cbn [concat_ops] in Hops. inversion Hops; subst ops. exists []. split; [reflexivity|].
    split; [constructor|]. split; [reflexivity|]. intros _. exists []. split; [constructor|].
    intros st unk _. exists st. split; [reflexivity|]. split; [reflexivity|].
    split; [intros k Hk; right; exact Hk|reflexivity].
  - cbn [forallb concat_ops sum_map map fst keys_distinct] in Hok, Hdis, Hsub, Hops, Hsz |- *.
    apply andb_prop in Hok, Hsub, Hdis. destruct Hok as [Hok1 Hok2], Hsub as [Hsub1 Hsub2], Hdis as [Hdis1 Hdis2].
    apply andb_prop in Hok1. destruct Hok1 as [Hokk Hokv]. apply negb_true_iff in Hdis1.
    destruct (entry_ops (fnum fd) kk vk (k, x)) as [a| |] eqn:Ea; cbn [obind] in Hops; try discriminate Hops.
    destruct (concat_ops (entry_ops (fnum fd) kk vk) r) as [b| |] eqn:Eb; cbn [obind] in Hops; try discriminate Hops.
    inversion Hops; subst ops. clear Hops.
    destruct (entry_spec md fd kk vk k x a Hf Ht Hc Hkk Hokk Hokv Hsub1 Ea ltac:(lia)) as (fld & Hb & Hwf & Hlen & Hd).
    destruct (IH b Hok2 Hdis2 Hsub2 eq_refl ltac:(lia)) as (flds & Hbr & Hwfr & Hlenr & Hdr).
    exists (fld :: flds). rewrite gbytes_app. cbn [map concat]. rewrite Hb, <- Hbr.
    split; [reflexivity|]. split; [constructor; assumption|].
    split; [rewrite app_length, <- Hb, Hlen, Hlenr; reflexivity|].
    rewrite app_length, <- Hb. intros HD.
    destruct (Hd ltac:(lia)) as (x' & Hrel & Hstep). destruct (Hdr ltac:(lia)) as (r' & HF & Hst).
    exists ((k, x') :: r'). split; [constructor; [split; [reflexivity|exact Hrel]|exact HF]|]. intros st unk Hfresh.
    assert (Hms : map_set k x' (cur_map (fnum fd) st) = cur_map (fnum fd) st ++ [(k, x')]).
    { apply map_set_fresh. intros k0 Hk0. apply (Hfresh k0 k Hk0). left. reflexivity. }
    set (st1 := set_field (fnum fd) (GMap (cur_map (fnum fd) st ++ [(k, x')])) st).
    assert (Hcur1 : cur_map (fnum fd) st1 = cur_map (fnum fd) st ++ [(k, x')]).
    { unfold cur_map at 1. unfold st1. rewrite lookup_set_same. reflexivity. }
    destruct (Hst st1 unk) as (st2 & Hfold & Hframe & Hkeys & Hres).
    { intros k0 k2 Hk0 Hk2. rewrite Hcur1, map_app in Hk0. apply in_app_or in Hk0. destruct Hk0 as [Hk0|Hk0].
      - apply (Hfresh k0 k2 Hk0). right. exact Hk2.
      - cbn [map fst In] in Hk0. destruct Hk0 as [Hk0|[]]. subst k0.
        apply (existsb_false _ _ Hdis1 k2 Hk2). }
    exists st2. rewrite ref_fold_cons, Hstep, Hms. fold st1. split; [exact Hfold|].
    split; [intros m Hm; rewrite (Hframe m Hm); apply lookup_set_other; exact Hm|].
    split.
    { intros k0 Hk0. destruct (Hkeys k0 Hk0) as [H1|H1]; [left; exact H1|]. apply keys_set in H1. exact H1. }
    destruct r as [|p2 r2].
    + assert (Hr' : r' = []) by (inversion HF; reflexivity). rewrite Hr', Hres. unfold st1. rewrite lookup_set_same. reflexivity.
    + rewrite Hres, Hcur1, <- app_assoc. reflexivity.
Qed.

Lemma map_entries_eq f vk l' l : Forall2 (entry_rel vk) l' l ->
  (forall k x, In (k, x) l -> (vdepth x < f)%nat) -> (forall k x, In (k, x) l' -> (vdepth x < f)%nat) ->
  map (fun '(k, y) => (k, norm_elem sc f vk y)) l' = map (fun '(k, y) => (k, norm_elem sc f vk y)) l.
Proof.
  intros HF. induction HF as [|[k' a'] [k a] r' r Ha Hr IH]; intros H1 H2; [reflexivity|].
  cbn [map]. destruct Ha as [Hk Ha]. cbn [fst snd] in Hk, Ha. subst k'. f_equal.
  - f_equal. apply elem_rel_norm; [exact Ha|apply (H1 k); left; reflexivity|apply (H2 k); left; reflexivity].
  - apply IH; intros k0 x Hx; [apply (H1 k0)|apply (H2 k0)]; right; exact Hx.
Qed.

Lemma rel_map fd kk vk kvs' kvs : fcard_ fd = CMap kk vk ->
  Forall2 (entry_rel vk) kvs' kvs -> kvs <> [] -> field_rel sc fd (GMap kvs') (GMap kvs).
Proof.
  intros Hc HF Hne f H1 H2.
  destruct kvs as [|a r]; [congruence|]. destruct kvs' as [|a' r']; [inversion HF|].
  assert (Hm : map (fun '(k, y) => (k, norm_elem sc f vk y)) (a' :: r')
             = map (fun '(k, y) => (k, norm_elem sc f vk y)) (a :: r)).
  { apply map_entries_eq; [exact HF| |]; intros k x Hx.
    - pose proof (vdepth_map_in k x _ Hx). lia.
    - pose proof (vdepth_map_in k x _ Hx). lia. }
  unfold norm_one. rewrite Hc, Hm. reflexivity.
Qed.

Lemma field_map md fd kk vk y ops :
  find_field md (fnum fd) = Some fd -> tag_ok (fnum fd) -> fcard_ fd = CMap kk vk -> key_kind_ok kk = true ->
  field_value_ok msg_ok fd y = true -> field_sub (sub_of sub_ok) fd y = true ->
  field_ops size_msg ops_msg fd y = Ok ops -> N.of_nat (field_size size_msg fd y) < 2^31 ->
  field_concl md fd y ops (fun y' => field_rel sc fd y' y).
Proof.
  intros Hf Ht Hc Hkk Hv Hsub Hops Hsz. unfold field_concl.
  unfold field_ops in Hops. unfold field_size in Hsz |- *. unfold field_value_ok in Hv. unfold field_sub in Hsub.
  rewrite Hc in Hv, Hsub, Hops, Hsz. rewrite Hc.
  change (concat_ops (entry_ops (fnum fd) kk vk) (map_of y) = Ok ops) in Hops.
  change (N.of_nat (sum_map (entry_size (fnum fd) kk vk) (map_of y)) < 2^31) in Hsz.
  change (exists flds, gbytes ops = concat (map renc flds) /\ Forall rfield_wf flds /\
    length (gbytes ops) = sum_map (entry_size (fnum fd) kk vk) (map_of y) /\
    ((length (gbytes ops) <= D)%nat -> fold_ok md (fnum fd) flds (fun y' => field_rel sc fd y' y))).
  assert (Hv' : forallb (fun '(k, x) => elem_ok msg_ok kk k && elem_ok msg_ok vk x) (map_of y) = true /\
                keys_distinct (map fst (map_of y)) = true /\
                forallb (fun '(_, y) => sub_of sub_ok vk y) (map_of y) = true /\
                (y = GAbsent \/ y = GMap (map_of y))).
  { destruct y; try discriminate Hv; cbn [map_of forallb map keys_distinct].
    - repeat split; left; reflexivity.
    - apply andb_prop in Hv. destruct Hv as [Hv1 Hv2]. repeat split; try assumption. right; reflexivity. }
  destruct Hv' as (Hv1 & Hv2 & Hv3 & Hy).
  destruct (map_list md fd kk vk Hf Ht Hc Hkk (map_of y) ops Hv1 Hv2 Hv3 Hops Hsz) as (flds & Hb & Hwf & Hlen & Hd).
  exists flds. split; [exact Hb|]. split; [exact Hwf|]. split; [exact Hlen|].
  intros HD st unk Hl. destruct (Hd HD) as (kvs' & HF & Hst).
  assert (Hcur : cur_map (fnum fd) st = []) by (unfold cur_map; rewrite Hl; reflexivity).
  destruct (Hst st unk) as (st2 & Hfold & Hframe & Hkeys & Hres).
  { intros k0 k Hk0. rewrite Hcur in Hk0. destruct Hk0. }
  exists st2. split; [exact Hfold|]. split; [exact Hframe|]. split; [exact Hkeys|].
  destruct (map_of y) as [|p r] eqn:El.
  - subst st2. rewrite Hl. intros f _ _. rewrite norm_one_absent. unfold norm_one. rewrite Hc.
    destruct Hy as [Hy|Hy]; rewrite Hy; reflexivity.
  - rewrite Hres, Hcur. cbn [app].
    destruct Hy as [Hy|Hy]; [rewrite Hy in El; discriminate El|]. rewrite Hy.
    apply (rel_map fd kk vk); [exact Hc|exact HF|discriminate].
Qed.

(* ---------- any field, as the regular-field loop sees it (oneof members are emitted later) ---------- *)
Lemma field_ok_tag md fd : field_ok sc md fd = true -> tag_ok (fnum fd).
Proof.
  unfold field_ok. intros H. apply andb_prop in H. destruct H as [H _]. apply andb_prop in H.
  destruct H as [H1 H2]. apply N.leb_le in H1, H2. split; assumption.
Qed.

Lemma field_spec md fd y ops :
  find_field md (fnum fd) = Some fd -> field_ok sc md fd = true ->
  field_value_ok msg_ok fd y = true -> field_sub (sub_of sub_ok) fd y = true -> nz_field fd y = true ->
  field_ops size_msg ops_msg fd y = Ok ops -> N.of_nat (field_size size_msg fd y) < 2^31 ->
  field_concl md fd y ops (fun y' => if is_oneof_member fd then y' = GAbsent else field_rel sc fd y' y).
Proof.
  intros Hf Hfo Hv Hsub Hnz Hops Hsz. pose proof (field_ok_tag md fd Hfo) as Ht.
  unfold field_ok in Hfo. apply andb_prop in Hfo. destruct Hfo as [_ Hfo].
  unfold is_oneof_member. destruct (fcard_ fd) as [| | | | |g|kk vk] eqn:Hc.
  - apply field_single; try assumption. rewrite Hc. reflexivity.
  - apply field_single; try assumption. rewrite Hc. reflexivity.
  - apply field_single; try assumption. rewrite Hc. reflexivity.
  - apply field_packed; try assumption.
    destruct (is_num_kind (fkind_ fd)) as [s|]; [exists s; reflexivity|discriminate Hfo].
  - apply field_unpacked; assumption.
  - unfold field_ops in Hops. rewrite Hc in Hops. inversion Hops; subst ops.
    exists []. split; [reflexivity|]. split; [constructor|].
    split; [unfold field_size; rewrite Hc; reflexivity|]. intros _. apply fold_ok_nil. reflexivity.
  - apply andb_prop in Hfo. destruct Hfo as [Hkk _]. apply (field_map md fd kk vk); assumption.
Qed.

End Fields.
