(* Proofs of the generated-code theorems C04 (Size / Marshal / MarshalTo agree) and C17 (required fields).
   Helper developments (re-exported):
     GenPBase  -- lookups, schema well-formedness facts
     GenPExact -- gop_size / gops_size / gop_ok, grun_exact: a well-formed program fills exactly its size
     GenPSize  -- gen_ops_ok: the program MarshalTo runs is well-formed and Size() long; the empty shortcut
     GenPFuel  -- fuel_irrelevant, fuel_irrelevant2
     GenPErr   -- gen_ops_outcome: Err iff a reachable required field is unset, never Panic *)
From CsProto Require Import Prelude Varint ZigZag Codec RefWire WireStmts Schema GenMarshal RefMsg GenStmts.
From CsProto Require Export GenPBase GenPExact GenPSize GenPFuel GenPErr.
Local Open Scope N_scope.

Lemma lt31_lt63 n : n < 2^31 -> n < 2^63.
Proof. intros H. eapply N.lt_trans; [exact H|]. apply N.pow_lt_mono_r; lia. Qed.

(* any fuel: the program fills exactly Size() bytes *)
Theorem marshal_to_exact_fuel : forall sc fuel ty v ops,
  schema_ok sc = true -> value_ok sc fuel ty v = true ->
  N.of_nat (gen_size sc fuel ty v) < 2^63 ->
  gen_ops sc fuel ty v = Ok ops ->
  length (gbytes ops) = gen_size sc fuel ty v /\
  forall pre room post, length room = gen_size sc fuel ty v ->
    grun {| ebuf := pre ++ room ++ post; eoff := length pre |} ops
      = Ok {| ebuf := pre ++ gbytes ops ++ post; eoff := (length pre + gen_size sc fuel ty v)%nat |}.
Proof.
  intros sc fuel ty v ops Hsc Hv Hlt Hops.
  destruct (gen_ops_ok sc fuel ty v ops Hsc Hv Hlt Hops) as [Hok Hsz].
  destruct (grun_exact ops Hok) as [Hl Hrun]. rewrite Hsz in *. split; [exact Hl|exact Hrun].
Qed.

Theorem marshal_to_exact : forall sc ty v ops,
  schema_ok sc = true -> value_ok sc (S (vdepth v)) ty v = true ->
  N.of_nat (gen_size sc (S (vdepth v)) ty v) < 2^31 ->
  gen_ops sc (S (vdepth v)) ty v = Ok ops ->
  let n := gen_size sc (S (vdepth v)) ty v in
  length (gbytes ops) = n /\
  forall pre room post, length room = n ->
    grun {| ebuf := pre ++ room ++ post; eoff := length pre |} ops
      = Ok {| ebuf := pre ++ gbytes ops ++ post; eoff := (length pre + n)%nat |}.
Proof.
  intros sc ty v ops Hsc Hv Hlt Hops n. unfold n.
  apply marshal_to_exact_fuel; try assumption. apply lt31_lt63. exact Hlt.
Qed.

Theorem marshal_spec : forall sc ty v,
  schema_ok sc = true -> value_ok sc (S (vdepth v)) ty v = true ->
  N.of_nat (gen_size sc (S (vdepth v)) ty v) < 2^31 ->
  match gen_marshal sc ty v with
  | MBytes b => length b = gen_size sc (S (vdepth v)) ty v /\
                exists ops, gen_ops sc (S (vdepth v)) ty v = Ok ops /\ b = gbytes ops
  | MErr => gen_ops sc (S (vdepth v)) ty v = Err
  | MPanic => False
  end.
Proof.
  intros sc ty v Hsc Hv Hlt. unfold gen_marshal.
  remember (S (vdepth v)) as fuel eqn:Hfuel.
  set (n := gen_size sc fuel ty v) in *.
  destruct (negb (has_required (nth ty sc empty_md)) && (n =? 0)%nat) eqn:Hshort.
  - apply andb_true_iff in Hshort. destruct Hshort as [Hreq Hn].
    apply negb_true_iff in Hreq. apply Nat.eqb_eq in Hn.
    split; [rewrite Hn; reflexivity|].
    destruct (value_ok_inv _ _ _ _ Hv) as (f & fs & u & Hf & Hveq & _).
    exists [GOp (ERaw [])]. split; [|reflexivity].
    unfold n in Hn. rewrite Hf, Hveq in *. apply gen_ops_zero; assumption.
  - pose proof (gen_ops_outcome sc fuel ty v Hsc Hv) as Hout.
    destruct (gen_ops sc fuel ty v) as [ops| |] eqn:Hops.
    + destruct (marshal_to_exact_fuel sc fuel ty v ops Hsc Hv (lt31_lt63 _ Hlt) Hops) as [Hl Hrun].
      fold n in Hl, Hrun.
      assert (Hz : length (zeros n) = n) by apply repeat_length.
      pose proof (Hrun [] (zeros n) [] Hz) as Hr.
      cbn [app length Nat.add] in Hr. rewrite !app_nil_r in Hr. rewrite Hr. cbn [ebuf].
      split; [exact Hl|]. exists ops. split; reflexivity.
    + reflexivity.
    + exact Hout.
Qed.

Theorem marshal_error_iff : forall sc ty v,
  schema_ok sc = true -> value_ok sc (S (vdepth v)) ty v = true ->
  N.of_nat (gen_size sc (S (vdepth v)) ty v) < 2^31 ->
  (gen_marshal sc ty v = MErr <-> requireds_set sc (S (vdepth v)) ty v = false).
Proof.
  intros sc ty v Hsc Hv Hlt.
  pose proof (marshal_spec sc ty v Hsc Hv Hlt) as Hspec.
  pose proof (gen_ops_outcome sc (S (vdepth v)) ty v Hsc Hv) as Hout.
  destruct (gen_marshal sc ty v) as [b| |].
  - destruct Hspec as [_ (ops & Hops & _)]. rewrite Hops in Hout.
    split; [discriminate|rewrite Hout; discriminate].
  - rewrite Hspec in Hout. split; [intros _; exact Hout|reflexivity].
  - contradiction.
Qed.

Print Assumptions marshal_to_exact.
Print Assumptions marshal_spec.
Print Assumptions fuel_irrelevant.
Print Assumptions marshal_error_iff.
