(* C09: with valid caches the cached Size()/MarshalTo are the cache-free ones, and the stores Size() makes
   keep the caches valid. *)
From CsProto Require Import Prelude Varint ZigZag Codec RefWire WireStmts Schema GenMarshal RefMsg GenStmts
  GenPBase GenPSize GenRBase GenPFuel History HistBase.
Local Open Scope N_scope.

(* ---------- the clauses only look at the sub-message interpreter at the field's own type ---------- *)
Lemma elem_size_msg (s1 s2 : nat -> gval -> nat) tag t x :
  s1 t x = s2 t x -> elem_size s1 tag (FMsg t) x = elem_size s2 tag (FMsg t) x.
Proof. intros H. cbn [elem_size]. rewrite H. reflexivity. Qed.

Lemma elem_ops_msg (s1 s2 : nat -> gval -> nat) (o1 o2 : nat -> gval -> outcome (list gop)) tag t x :
  s1 t x = s2 t x -> o1 t x = o2 t x -> elem_ops s1 o1 tag (FMsg t) x = elem_ops s2 o2 tag (FMsg t) x.
Proof. intros H1 H2. cbn [elem_ops]. rewrite H1, H2. reflexivity. Qed.

Lemma field_size_sing (s1 s2 : nat -> gval -> nat) fd t x :
  singular_msg fd = true -> fkind_ fd = FMsg t -> s1 t x = s2 t x -> field_size s1 fd x = field_size s2 fd x.
Proof.
  intros Hs Hk H. unfold field_size. rewrite Hk.
  destruct (fcard_ fd) eqn:Ec; try reflexivity;
    try (destruct (present fd x); [apply elem_size_msg; exact H|reflexivity]).
  all: unfold singular_msg in Hs; rewrite Ec in Hs; cbv iota in Hs; discriminate.
Qed.

Lemma field_ops_sing (s1 s2 : nat -> gval -> nat) (o1 o2 : nat -> gval -> outcome (list gop)) fd t x :
  singular_msg fd = true -> fkind_ fd = FMsg t -> s1 t x = s2 t x -> o1 t x = o2 t x ->
  field_ops s1 o1 fd x = field_ops s2 o2 fd x.
Proof.
  intros Hs Hk H1 H2. unfold field_ops. rewrite Hk.
  destruct (fcard_ fd) eqn:Ec; try reflexivity;
    try (destruct (present fd x); [apply elem_ops_msg; assumption|reflexivity]).
  all: unfold singular_msg in Hs; rewrite Ec in Hs; cbv iota in Hs; discriminate.
Qed.

Section WithCaches.
Variable sc : schema.
Variable bias : Z.
Hypothesis Hsc : schema_ok sc = true.

Definition csize_for (f : nat) (c : caches) (p : path) (fd : fdesc) : nat -> gval -> nat :=
  if singular_msg fd then csize sc bias f c (p ++ [fnum fd]) else gen_size sc f.
Definition cops_for (f : nat) (c : caches) (p : path) (fd : fdesc) : nat -> gval -> outcome (list gop) :=
  if singular_msg fd then cops sc bias f c (p ++ [fnum fd]) else gen_ops sc f.

Lemma csize_S f c p ty fs u :
  csize sc bias (S f) c p ty (GMsg fs u) =
  if (0 <? cache_at p c)%Z then Z.to_nat (cache_at p c - bias) else
  let md := nth ty sc empty_md in
  (sum_map (fun fd => field_size (csize_for f c p fd) fd (lookup_field (fnum fd) fs)) (mfields md)
   + sum_map (fun g => match group_member md fs g with
                       | Some (fd, x) => elem_size (csize_for f c p fd) (fnum fd) (fkind_ fd) x
                       | None => O end) (oneof_groups md)
   + length u)%nat.
Proof. reflexivity. Qed.

Lemma cops_S f c p ty fs u :
  cops sc bias (S f) c p ty (GMsg fs u) =
  let md := nth ty sc empty_md in
  let* a := concat_ops (fun fd => field_ops (csize_for f c p fd) (cops_for f c p fd) fd (lookup_field (fnum fd) fs)) (mfields md) in
  let* b := concat_ops (fun g => match group_member md fs g with
                                 | Some (fd, x) => elem_ops (csize_for f c p fd) (cops_for f c p fd) (fnum fd) (fkind_ fd) x
                                 | None => Ok [] end) (oneof_groups md) in
  Ok (a ++ b ++ [GOp (ERaw u)]).
Proof. reflexivity. Qed.

Lemma cstore_S f c p ty fs u :
  cstore sc bias (S f) c p ty (GMsg fs u) =
  if (0 <? cache_at p c)%Z then c else
  let md := nth ty sc empty_md in
  let c1 := fold_left (fun acc fd =>
              if singular_msg fd then
                match fkind_ fd, lookup_field (fnum fd) fs with
                | FMsg t, (GMsg _ _ as x) => cstore sc bias f acc (p ++ [fnum fd]) t x
                | _, _ => acc
                end
              else acc) (mfields md) c in
  cache_set p (Z.of_nat (csize sc bias (S f) c1 p ty (GMsg fs u)) + bias)%Z c1.
Proof. reflexivity. Qed.

Lemma csize_nonmsg f c p ty v : (forall fs u, v <> GMsg fs u) -> csize sc bias f c p ty v = O.
Proof.
  intros Hv. destruct f; destruct v as [|z|b|l|kvs|fs u]; try reflexivity; exfalso; apply (Hv fs u); reflexivity.
Qed.
Lemma cops_nonmsg f c p ty v : (forall fs u, v <> GMsg fs u) -> cops sc bias f c p ty v = Ok [].
Proof.
  intros Hv. destruct f; destruct v as [|z|b|l|kvs|fs u]; try reflexivity; exfalso; apply (Hv fs u); reflexivity.
Qed.
Lemma cstore_nonmsg f c p ty v : (forall fs u, v <> GMsg fs u) -> cstore sc bias f c p ty v = c.
Proof.
  intros Hv. destruct f; destruct v as [|z|b|l|kvs|fs u]; try reflexivity; exfalso; apply (Hv fs u); reflexivity.
Qed.

(* every positive entry at or below p that leads to a message (seen from the message v at p) is that
   message's true size *)
Definition valid_under (c : caches) (p : path) (ty : nat) (v : gval) : Prop :=
  forall q ty' v', (0 < cache_at (p ++ q) c)%Z -> msg_at sc ty v q = Some (ty', v') ->
    cache_at (p ++ q) c = (Z.of_nat (gen_size sc (S (vdepth v')) ty' v') + bias)%Z.

Lemma valid_child c p ty fs u fd t :
  valid_under c p ty (GMsg fs u) -> In fd (mfields (nth ty sc empty_md)) ->
  singular_msg fd = true -> fkind_ fd = FMsg t ->
  valid_under c (p ++ [fnum fd]) t (lookup_field (fnum fd) fs).
Proof.
  intros Hv Hin Hs Hk q ty' v' Hpos Hm.
  rewrite <- app_assoc in Hpos |- *. cbn [app] in Hpos |- *.
  apply Hv; [exact Hpos|]. rewrite (msg_at_child sc ty fs u fd t q Hsc Hin Hs Hk). exact Hm.
Qed.

(* the key lemma *)
Lemma csize_cops_valid : forall fuel c p ty v,
  valid_under c p ty v -> (vdepth v < fuel)%nat ->
  csize sc bias fuel c p ty v = gen_size sc fuel ty v /\ cops sc bias fuel c p ty v = gen_ops sc fuel ty v.
Proof.
  induction fuel as [|f IH]; intros c p ty v Hv Hd; [lia|].
  destruct v as [|z|b|l|kvs|fs u]; try (split; reflexivity).
  rewrite vdepth_GMsg in Hd.
  set (md := nth ty sc empty_md).
  assert (Hch : forall fd t, In fd (mfields md) -> singular_msg fd = true -> fkind_ fd = FMsg t ->
            csize sc bias f c (p ++ [fnum fd]) t (lookup_field (fnum fd) fs) = gen_size sc f t (lookup_field (fnum fd) fs) /\
            cops sc bias f c (p ++ [fnum fd]) t (lookup_field (fnum fd) fs) = gen_ops sc f t (lookup_field (fnum fd) fs)).
  { intros fd t Hin Hs Hk. apply IH.
    - eapply valid_child; eassumption.
    - pose proof (fdepth_lookup (fnum fd) fs). lia. }
  split.
  - rewrite csize_S. destruct (0 <? cache_at p c)%Z eqn:Epos.
    + apply Z.ltb_lt in Epos. specialize (Hv [] ty (GMsg fs u)). rewrite app_nil_r in Hv.
      rewrite (Hv Epos eq_refl). rewrite Z.add_simpl_r, Nat2Z.id.
      symmetry. apply fuel_irrelevant. rewrite vdepth_GMsg. lia.
    + rewrite gen_size_S. unfold msg_size_with. cbv zeta. fold md. f_equal. f_equal.
      * apply sum_map_ext_in. intros fd Hin. unfold csize_for.
        destruct (singular_msg fd) eqn:Es; [|reflexivity].
        destruct (singular_msg_kind fd Es) as [t Hk].
        apply (field_size_sing _ _ fd t); [exact Es|exact Hk|]. apply Hch; assumption.
      * apply sum_map_ext_in. intros g _. unfold group_size.
        destruct (group_member md fs g) as [[fd x]|] eqn:Eg; [|reflexivity].
        apply group_member_inv in Eg. destruct Eg as (Hin & _ & Hx & _).
        unfold csize_for. destruct (singular_msg fd) eqn:Es; [|reflexivity].
        destruct (singular_msg_kind fd Es) as [t Hk]. rewrite Hk. subst x.
        apply elem_size_msg. apply Hch; assumption.
  - rewrite cops_S, gen_ops_S. unfold msg_ops_with. cbv zeta. fold md.
    rewrite (concat_ops_ext_in
               (fun fd => field_ops (csize_for f c p fd) (cops_for f c p fd) fd (lookup_field (fnum fd) fs))
               (fun fd => field_ops (gen_size sc f) (gen_ops sc f) fd (lookup_field (fnum fd) fs))).
    2:{ intros fd Hin. unfold csize_for, cops_for.
        destruct (singular_msg fd) eqn:Es; [|reflexivity].
        destruct (singular_msg_kind fd Es) as [t Hk].
        apply (field_ops_sing _ _ _ _ fd t); [exact Es|exact Hk| |]; apply Hch; assumption. }
    rewrite (concat_ops_ext_in
               (fun g => match group_member md fs g with
                         | Some (fd, x) => elem_ops (csize_for f c p fd) (cops_for f c p fd) (fnum fd) (fkind_ fd) x
                         | None => Ok [] end)
               (group_ops (gen_size sc f) (gen_ops sc f) md fs)).
    2:{ intros g _. unfold group_ops.
        destruct (group_member md fs g) as [[fd x]|] eqn:Eg; [|reflexivity].
        apply group_member_inv in Eg. destruct Eg as (Hin & _ & Hx & _).
        unfold csize_for, cops_for. destruct (singular_msg fd) eqn:Es; [|reflexivity].
        destruct (singular_msg_kind fd Es) as [t Hk]. rewrite Hk. subst x.
        apply elem_ops_msg; apply Hch; assumption. }
    reflexivity.
Qed.

(* ---------- validity seen from the root ---------- *)
Section Root.
Variable rty : nat.
Variable root : gval.

Definition gvalid (c : caches) : Prop :=
  forall q ty v, (0 < cache_at q c)%Z -> msg_at sc rty root q = Some (ty, v) ->
    cache_at q c = (Z.of_nat (gen_size sc (S (vdepth v)) ty v) + bias)%Z.

Lemma gvalid_under c p ty v : gvalid c -> msg_at sc rty root p = Some (ty, v) -> valid_under c p ty v.
Proof.
  intros Hg Hp q ty' v' Hpos Hm. apply Hg; [exact Hpos|]. rewrite msg_at_app, Hp. exact Hm.
Qed.

Lemma gvalid_nil : gvalid [].
Proof. clear Hsc. intros q ty v Hpos. rewrite cache_at_nil in Hpos. lia. Qed.

(* Size() only writes at and below the node it is called on *)
Lemma cstore_frame : forall fuel c p ty v q,
  (forall r, q <> p ++ r) -> cache_at q (cstore sc bias fuel c p ty v) = cache_at q c.
Proof.
  induction fuel as [|f IH]; intros c p ty v q Hq; [reflexivity|].
  destruct v as [|z|b|l|kvs|fs u]; try reflexivity.
  rewrite cstore_S. destruct (0 <? cache_at p c)%Z; [reflexivity|]. cbv zeta.
  rewrite cache_at_set. rewrite path_eqb_neq.
  2:{ intros E. apply (Hq []). rewrite app_nil_r. exact E. }
  generalize (mfields (nth ty sc empty_md)) as l. intros l. revert c.
  induction l as [|fd l IHl]; intros c; cbn [fold_left]; [reflexivity|].
  rewrite IHl. destruct (singular_msg fd); [|reflexivity].
  destruct (fkind_ fd) as [s| | | |t]; try reflexivity.
  destruct (lookup_field (fnum fd) fs) as [|z|b|l'|kvs|sfs su]; try reflexivity.
  apply IH. intros r E. apply (Hq ([fnum fd] ++ r)). rewrite app_assoc. exact E.
Qed.

(* ... and keeps the caches valid *)
Lemma cstore_valid : forall fuel c p ty v,
  gvalid c -> msg_at sc rty root p = Some (ty, v) -> (vdepth v < fuel)%nat ->
  gvalid (cstore sc bias fuel c p ty v).
Proof.
  induction fuel as [|f IH]; intros c p ty v Hg Hp Hd; [exact Hg|].
  destruct v as [|z|b|l|kvs|fs u]; try exact Hg.
  rewrite cstore_S. destruct (0 <? cache_at p c)%Z eqn:Epos; [exact Hg|]. cbv zeta.
  rewrite vdepth_GMsg in Hd.
  set (md := nth ty sc empty_md).
  set (step := fun acc fd =>
              if singular_msg fd then
                match fkind_ fd, lookup_field (fnum fd) fs with
                | FMsg t, (GMsg _ _ as x) => cstore sc bias f acc (p ++ [fnum fd]) t x
                | _, _ => acc
                end
              else acc).
  assert (Hfold : forall l c0, (forall fd, In fd l -> In fd (mfields md)) -> gvalid c0 -> cache_at p c0 = cache_at p c ->
            gvalid (fold_left step l c0) /\ cache_at p (fold_left step l c0) = cache_at p c).
  { induction l as [|fd l IHl]; intros c0 Hsub Hg0 Hp0; cbn [fold_left]; [split; assumption|].
    assert (Hin : In fd (mfields md)) by (apply Hsub; left; reflexivity).
    apply IHl; [intros fd' H'; apply Hsub; right; exact H'| |].
    - unfold step. destruct (singular_msg fd) eqn:Es; [|exact Hg0].
      destruct (fkind_ fd) as [s| | | |t] eqn:Ek; try exact Hg0.
      destruct (lookup_field (fnum fd) fs) as [|z|b|l'|kvs|sfs su] eqn:El; try exact Hg0.
      apply IH; [exact Hg0| |].
      + rewrite msg_at_app, Hp. rewrite (msg_at_child sc ty fs u fd t [] Hsc Hin Es Ek). rewrite El. reflexivity.
      + pose proof (fdepth_lookup (fnum fd) fs) as Hl. rewrite El in Hl. lia.
    - rewrite <- Hp0. unfold step. destruct (singular_msg fd); [|reflexivity].
      destruct (fkind_ fd) as [s| | | |t]; try reflexivity.
      destruct (lookup_field (fnum fd) fs) as [|z|b|l'|kvs|sfs su]; try reflexivity.
      apply cstore_frame. intros r. apply app_one_neq. }
  destruct (Hfold (mfields md) c (fun fd H => H) Hg eq_refl) as [Hg1 Hp1].
  set (c1 := fold_left step (mfields md) c) in *.
  intros q ty' v' Hpos Hm. rewrite cache_at_set in Hpos |- *.
  destruct (path_eqb q p) eqn:Eq.
  - apply path_eqb_eq in Eq. subst q. rewrite Hp in Hm. inversion Hm; subst ty' v'.
    f_equal. f_equal.
    destruct (csize_cops_valid (S f) c1 p ty (GMsg fs u)) as [Hc _].
    + apply gvalid_under; assumption.
    + rewrite vdepth_GMsg. lia.
    + rewrite Hc. apply fuel_irrelevant. rewrite vdepth_GMsg. lia.
  - apply Hg1; assumption.
Qed.
End Root.
End WithCaches.
