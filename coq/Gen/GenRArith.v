(* Arithmetic of the reference reading of scalar fields: the textbook reader (typed_of_wire, sgn,
   unzigzag, unpack of Gen/RefMsg.v) inverts the textbook writer (ref_field of Wire/RefWire.v) on the
   Go domain of every kind. *)
From CsProto Require Import Prelude Varint ZigZag Codec RefWire WireStmts CodecBase EncProofs DecProofs Schema GenMarshal RefMsg.
Local Open Scope N_scope.

(* ---------- two's complement ---------- *)
Section ZArith.
Local Open Scope Z_scope.

Lemma sgn_gen w n v c : 2 ^ w = 2 * 2 ^ (w - 1) -> - 2 ^ (w - 1) <= v < 2 ^ (w - 1) ->
  Z.of_N n = v + c * 2 ^ w -> sgn w n = v.
Proof.
  intros HM Hv Hc. unfold sgn. rewrite Hc, Z_mod_plus_full.
  set (H := 2 ^ (w - 1)) in *. set (M := 2 ^ w) in *.
  assert (Hmod : v mod M = if v <? 0 then v + M else v).
  { destruct (Z.ltb_spec v 0) as [Hneg|Hpos].
    - symmetry. apply (Z.mod_unique v M (-1) (v + M)); lia.
    - apply Z.mod_small. lia. }
  cbv zeta. rewrite Hmod.
  destruct (Z.ltb_spec v 0) as [Hneg|Hpos].
  - destruct (Z.ltb_spec (v + M) H) as [H1|H1]; lia.
  - destruct (Z.ltb_spec v H) as [H1|H1]; lia.
Qed.

Lemma twos_of_N w v : 0 < 2 ^ w -> - 2 ^ w <= v ->
  Z.of_N (ref_twos w v) = if v <? 0 then v + 2 ^ w else v.
Proof.
  intros Hw Hv. unfold ref_twos. destruct (Z.ltb_spec v 0) as [Hneg|Hpos]; rewrite Z2N.id; lia.
Qed.

Lemma pow32_split : 2 ^ 32 = 2 * 2 ^ (32 - 1).
Proof. reflexivity. Qed.
Lemma pow64_split : 2 ^ 64 = 2 * 2 ^ (64 - 1).
Proof. reflexivity. Qed.

Lemma sgn32_twos64 v : - 2 ^ 31 <= v < 2 ^ 31 -> sgn 32 (ref_twos 64 v) = v.
Proof.
  intros Hv. apply (sgn_gen 32 _ v (if v <? 0 then 2 ^ 32 else 0) pow32_split).
  - change (32 - 1) with 31. exact Hv.
  - rewrite twos_of_N by lia. destruct (Z.ltb_spec v 0) as [Hneg|Hpos]; lia.
Qed.

Lemma sgn32_twos32 v : - 2 ^ 31 <= v < 2 ^ 31 -> sgn 32 (ref_twos 32 v) = v.
Proof.
  intros Hv. apply (sgn_gen 32 _ v (if v <? 0 then 1 else 0) pow32_split).
  - change (32 - 1) with 31. exact Hv.
  - rewrite twos_of_N by lia. destruct (Z.ltb_spec v 0) as [Hneg|Hpos]; lia.
Qed.

Lemma sgn64_twos64 v : - 2 ^ 63 <= v < 2 ^ 63 -> sgn 64 (ref_twos 64 v) = v.
Proof.
  intros Hv. apply (sgn_gen 64 _ v (if v <? 0 then 1 else 0) pow64_split).
  - change (64 - 1) with 63. exact Hv.
  - rewrite twos_of_N by lia. destruct (Z.ltb_spec v 0) as [Hneg|Hpos]; lia.
Qed.

Lemma twos64_lt v : - 2 ^ 63 <= v < 2 ^ 63 -> (ref_twos 64 v < 2 ^ 64)%N.
Proof.
  intros Hv. pose proof (twos_of_N 64 v ltac:(lia) ltac:(lia)) as Ht.
  destruct (Z.ltb_spec v 0) as [Hneg|Hpos]; lia.
Qed.

Lemma twos32_lt v : - 2 ^ 31 <= v < 2 ^ 31 -> (ref_twos 32 v < 2 ^ 32)%N.
Proof.
  intros Hv. pose proof (twos_of_N 32 v ltac:(lia) ltac:(lia)) as Ht.
  destruct (Z.ltb_spec v 0) as [Hneg|Hpos]; lia.
Qed.

(* ---------- zig-zag ---------- *)
Lemma unzigzag_zigzag v : unzigzag (ref_zigzag v) = v.
Proof.
  unfold unzigzag, ref_zigzag. destruct (Z.leb_spec 0 v) as [Hv|Hv].
  - replace (Z.to_N (2 * v)) with (2 * Z.to_N v)%N by lia.
    rewrite N.even_mul. change (N.even 2) with true. cbn [orb].
    rewrite N.mul_comm, N.div_mul by lia. lia.
  - replace (Z.to_N (- 2 * v - 1)) with (1 + 2 * Z.to_N (- v - 1))%N by lia.
    rewrite N.even_add_mul_2. change (N.even 1) with false. cbv iota.
    replace (1 + 2 * Z.to_N (- v - 1) + 1)%N with ((Z.to_N (- v - 1) + 1) * 2)%N by lia.
    rewrite N.div_mul by lia. lia.
Qed.

Lemma zigzag_lt32 v : - 2 ^ 31 <= v < 2 ^ 31 -> (ref_zigzag v < 2 ^ 32)%N.
Proof. intros Hv. unfold ref_zigzag. destruct (Z.leb_spec 0 v) as [H|H]; lia. Qed.
Lemma zigzag_lt64 v : - 2 ^ 63 <= v < 2 ^ 63 -> (ref_zigzag v < 2 ^ 64)%N.
Proof. intros Hv. unfold ref_zigzag. destruct (Z.leb_spec 0 v) as [H|H]; lia. Qed.
End ZArith.

(* ---------- little endian ---------- *)
Lemma le_val_ref_le4 n : n < 2 ^ 32 -> le_val (ref_le 4 n) = n.
Proof.
  intros Hn. rewrite <- le_bytes_ref. apply le_val_le_bytes.
  change (256 ^ N.of_nat 4) with (2 ^ 32). exact Hn.
Qed.
Lemma le_val_ref_le8 n : n < 2 ^ 64 -> le_val (ref_le 8 n) = n.
Proof.
  intros Hn. rewrite <- le_bytes_ref. apply le_val_le_bytes.
  change (256 ^ N.of_nat 8) with (2 ^ 64). exact Hn.
Qed.
Lemma ref_le_length w n : length (ref_le w n) = w.
Proof. unfold ref_le. rewrite map_length, seq_length. reflexivity. Qed.

Lemma of_to_mod32 v : (0 <= v < 2 ^ 32)%Z -> Z.of_N (Z.to_N v mod 2 ^ 32) = v.
Proof. intros Hv. rewrite N.mod_small by lia. lia. Qed.
Lemma of_to_mod64 v : (0 <= v < 2 ^ 64)%Z -> Z.of_N (Z.to_N v mod 2 ^ 64) = v.
Proof. intros Hv. rewrite N.mod_small by lia. lia. Qed.

(* ---------- per-kind characterisation of ref_field ---------- *)
Lemma ref_field_char k tag v : in_dom k v = true ->
  match ref_field k tag v with
  | RVarint _ w => wt_of k = 0 /\ w < 2 ^ 64 /\ typed_of_wire k w = v
  | RFixed32 _ b => wt_of k = 5 /\ width_of k = 4%nat /\ length b = 4%nat /\ typed_of_wire k (le_val b) = v
  | RFixed64 _ b => wt_of k = 1 /\ width_of k = 8%nat /\ length b = 8%nat /\ typed_of_wire k (le_val b) = v
  | RLen _ _ => False
  end.
Proof.
  intros Hd. pose proof (in_dom_range k v Hd) as Hr.
  destruct k; unfold dom_lo, dom_hi in Hr; cbn [ref_field wt_of width_of typed_of_wire];
    rewrite ?ref_le_length; repeat (split; [reflexivity|]).
  - (* bool *)
    split.
    + destruct (v =? 0)%Z; lia.
    + destruct (Z.eqb_spec v 0) as [H0|H0].
      * change (0 =? 0) with true. cbv iota. lia.
      * change (1 =? 0) with false. cbv iota. lia.
  - (* int32 *)
    split; [apply twos64_lt; lia|apply sgn32_twos64; exact Hr].
  - (* int64 *)
    split; [apply twos64_lt; lia|apply sgn64_twos64; exact Hr].
  - (* uint32 *)
    split; [lia|apply of_to_mod32; exact Hr].
  - (* uint64 *)
    split; [lia|apply of_to_mod64; exact Hr].
  - (* sint32 *)
    pose proof (zigzag_lt32 v Hr) as Hz.
    split; [lia|]. rewrite N.mod_small by exact Hz. apply unzigzag_zigzag.
  - (* sint64 *)
    pose proof (zigzag_lt64 v Hr) as Hz.
    split; [exact Hz|]. rewrite N.mod_small by exact Hz. apply unzigzag_zigzag.
  - (* fixed32 *)
    rewrite le_val_ref_le4 by lia. apply of_to_mod32; exact Hr.
  - (* fixed64 *)
    rewrite le_val_ref_le8 by lia. apply of_to_mod64; exact Hr.
  - (* sfixed32 *)
    rewrite le_val_ref_le4 by (apply twos32_lt; exact Hr). apply sgn32_twos32; exact Hr.
  - (* sfixed64 *)
    rewrite le_val_ref_le8 by (apply twos64_lt; exact Hr). apply sgn64_twos64; exact Hr.
  - (* float *)
    rewrite le_val_ref_le4 by lia. apply of_to_mod32; exact Hr.
  - (* double *)
    rewrite le_val_ref_le8 by lia. apply of_to_mod64; exact Hr.
Qed.

Lemma ref_field_scalar k tag v : in_dom k v = true -> scalar_of_field k (ref_field k tag v) = Some v.
Proof.
  intros Hd. pose proof (ref_field_char k tag v Hd) as Hc.
  destruct (ref_field k tag v) as [num w|num b|num b|num b]; cbn [scalar_of_field].
  - destruct Hc as (Hwt & _ & Hv). rewrite Hwt, Hv. reflexivity.
  - destruct Hc as (Hwt & _ & _ & Hv). rewrite Hwt, Hv. reflexivity.
  - destruct Hc as (Hwt & _ & _ & Hv). rewrite Hwt, Hv. reflexivity.
  - destruct Hc.
Qed.

Lemma ref_field_not_len k tag v : forall n b, ref_field k tag v <> RLen n b.
Proof. intros n b. destruct k; cbn [ref_field]; discriminate. Qed.

Lemma ref_field_rnum k tag v : rnum (ref_field k tag v) = tag.
Proof. destruct k; reflexivity. Qed.

(* ---------- packed runs ---------- *)
Lemma ref_varint_pos' v : (1 <= length (ref_varint v))%nat.
Proof.
  unfold ref_varint. generalize 9%nat. intros fuel.
  destruct fuel as [|fuel]; cbn [ref_varint_fuel]; [cbn [length]; lia|].
  destruct (v <? 128); cbn [length]; lia.
Qed.

Lemma unpack_nil fuel k : unpack fuel k [] = Some [].
Proof. destruct fuel; reflexivity. Qed.

Lemma unpack_S f k p : p <> [] ->
  unpack (S f) k p =
    if wt_of k =? 0 then
      match ref_varint_val p, ref_varint_len p with
      | Some v, Some n => match unpack f k (skipn n p) with Some r => Some (typed_of_wire k v :: r) | None => None end
      | _, _ => None
      end
    else
      if (length p <? width_of k)%nat then None
      else match unpack f k (skipn (width_of k) p) with
           | Some r => Some (typed_of_wire k (le_val (firstn (width_of k) p)) :: r) | None => None end.
Proof. intros Hp. destruct p as [|x r]; [congruence|reflexivity]. Qed.

Lemma app_not_nil (a b : list byte) : (1 <= length a)%nat -> a ++ b <> [].
Proof. intros Ha. destruct a as [|x r]; [cbn [length] in Ha; lia|discriminate]. Qed.

Lemma unpack_packed k tag vs fuel : Forall (fun v => in_dom k v = true) vs ->
  (length (concat (map (fun v => rvalue (ref_field k tag v)) vs)) < fuel)%nat ->
  unpack fuel k (concat (map (fun v => rvalue (ref_field k tag v)) vs)) = Some vs.
Proof.
  intros Hall. revert fuel. induction Hall as [|v vs Hv Hvs IH]; intros fuel Hfuel.
  - cbn [map concat]. apply unpack_nil.
  - cbn [map concat] in *. rewrite app_length in Hfuel.
    set (rest := concat (map (fun v0 => rvalue (ref_field k tag v0)) vs)) in *.
    pose proof (ref_field_char k tag v Hv) as Hc.
    destruct (ref_field k tag v) as [num w|num b|num b|num b]; cbn [rvalue] in *.
    + destruct Hc as (Hwt & Hw & Hty).
      pose proof (ref_varint_pos' w) as Hpos.
      destruct fuel as [|f]; [lia|].
      rewrite unpack_S by (apply app_not_nil; exact Hpos).
      rewrite Hwt. change (0 =? 0) with true. cbv iota.
      destruct (ref_read w rest Hw) as (Hval & Hlen). rewrite Hval, Hlen.
      rewrite skipn_app_exact. rewrite IH by lia. rewrite Hty. reflexivity.
    + destruct Hc as (Hwt & Hwd & Hlen & Hty).
      destruct fuel as [|f]; [lia|].
      rewrite unpack_S by (apply app_not_nil; lia).
      rewrite Hwt, Hwd. change (1 =? 0) with false. cbv iota.
      destruct (Nat.ltb_spec (length (b ++ rest)) 8) as [Hlt|Hge]; [rewrite app_length in Hlt; lia|].
      replace (skipn 8 (b ++ rest)) with rest by (rewrite <- Hlen; symmetry; apply skipn_app_exact).
      replace (firstn 8 (b ++ rest)) with b by (rewrite <- Hlen; symmetry; apply firstn_app_exact).
      rewrite IH by lia. rewrite Hty. reflexivity.
    + destruct Hc as (Hwt & Hwd & Hlen & Hty).
      destruct fuel as [|f]; [lia|].
      rewrite unpack_S by (apply app_not_nil; lia).
      rewrite Hwt, Hwd. change (5 =? 0) with false. cbv iota.
      destruct (Nat.ltb_spec (length (b ++ rest)) 4) as [Hlt|Hge]; [rewrite app_length in Hlt; lia|].
      replace (skipn 4 (b ++ rest)) with rest by (rewrite <- Hlen; symmetry; apply skipn_app_exact).
      replace (firstn 4 (b ++ rest)) with b by (rewrite <- Hlen; symmetry; apply firstn_app_exact).
      rewrite IH by lia. rewrite Hty. reflexivity.
    + destruct Hc.
Qed.

Print Assumptions unpack_packed.
Print Assumptions ref_field_scalar.
