(* What protoc-gen-fastmarshal's templates generate for Unmarshal(): Reset, the field dispatch loop
   over a csproto.Decoder (model: Wire/Codec.v), one clause per unmarshal snippet, the map-entry
   sub-loop, oneof members, unknown fields, the required-field check.  Definitions only. *)
From CsProto Require Import Prelude Varint ZigZag Codec RefWire WireStmts Schema RefMsg.
Local Open Scope N_scope.

Inductive ures := UOk (v : gval) (aliases : bool) | UErr | UPanic.

(* a decoder step inside the loops: continue with a value, or stop with an error / a panic *)
Inductive lstep (A : Type) := LGo (a : A) (d : decoder) | LStop (r : ures).
Arguments LGo {A} a d. Arguments LStop {A} r.
Definition of_dres {A} (r : dres A) : lstep A :=
  match r with DOk a d => LGo a d | DErr _ => LStop UErr | DPanic => LStop UPanic end.

(* the scalar decoder method each kind uses (enum: DecodeInt32; sfixed: DecodeFixedNN + cast, which is
   what [of_wire] does for KSFixedNN) *)
Definition num_skind (k : fkind) : option skind := is_num_kind k.

Section Interp.
Variable sc : schema.
Variable fast : bool.                                      (* enableunsafedecode *)
(* open recursion: Unmarshal of a nested message of type ty on exactly these bytes *)
Variable unmarshal_msg : nat -> list byte -> ures.

(* one value of kind k whose key (with wire type wt) has just been read.  Returns the value and whether
   it aliases the input buffer.  [None]-ary wire types are "incorrect wire type" errors. *)
Definition read_value (k : fkind) (wt : N) (d : decoder) : lstep (gval * bool) :=
  match k with
  | FMsg ty =>
      if negb (wt =? 2) then LStop UErr else
      (* var mm T; dec.DecodeNested(&mm): the nested Unmarshal runs on the declared bytes; its error is returned *)
      match dec_nested (fun b => match unmarshal_msg ty b with UOk _ _ => true | _ => false end) d with
      | DPanic => LStop UPanic
      | DErr _ =>
          (* either the length checks failed or the nested Unmarshal failed / panicked: find out which *)
          match dec_bytes {| dbuf := dbuf d; doff := doff d; dfast := true |} with
          | DOk b _ => match unmarshal_msg ty b with UPanic => LStop UPanic | _ => LStop UErr end
          | _ => LStop UErr
          end
      | DOk b d' =>
          match unmarshal_msg ty b with
          | UOk v al => LGo (v, al) d'
          | other => LStop other
          end
      end
  | FString | FBytes =>
      if negb (wt =? 2) then LStop UErr else
      match of_dres (dec_bytes d) with
      | LGo b d' => LGo (GBytes b, dfast d) d'             (* DecodeString / DecodeBytes: copy in safe mode *)
      | LStop r => LStop r
      end
  | _ =>
      match num_skind k with
      | None => LStop UErr
      | Some s =>
          if negb (wt =? wt_of s) then LStop UErr else
          match of_dres (dec_scalar d s) with
          | LGo z d' => LGo (GNum z, false) d'
          | LStop r => LStop r
          end
      end
  end.

(* the map-entry sub-loop: for dec.Offset() < entryEnd { DecodeTag; case 1 / case 2 / default: Skip } *)
Fixpoint entry_loop (fuel : nat) (kk vk : fkind) (stop : nat) (d : decoder) (key val : option gval) (al : bool)
  : lstep (option gval * option gval * bool) :=
  match fuel with
  | O => LStop UErr
  | S f =>
    if (doff d <? stop)%nat then
      match of_dres (dec_tag d) with
      | LStop r => LStop r
      | LGo (tag, wt) d1 =>
          if tag =? 1 then
            match read_value kk wt d1 with
            | LGo (v, a) d2 => entry_loop f kk vk stop d2 (Some v) val (al || a)
            | LStop r => LStop r
            end
          else if tag =? 2 then
            match read_value vk wt d1 with
            | LGo (v, a) d2 => entry_loop f kk vk stop d2 key (Some v) (al || a)
            | LStop r => LStop r
            end
          else
            match of_dres (dec_skip d1 (Z.of_N tag) (Z.of_N wt)) with
            | LGo _ d2 => entry_loop f kk vk stop d2 key val al
            | LStop r => LStop r
            end
      end
    else LGo (key, val, al) d
  end.

(* one known field whose key (tag, wt) has just been read: the new field table *)
Definition read_field (md : mdesc) (fd : fdesc) (wt : N) (d : decoder) (fs : list (N * gval))
  : lstep (list (N * gval) * bool) :=
  let n := fnum fd in
  match fcard_ fd with
  | CImplicit | COptional | CRequired =>
      match read_value (fkind_ fd) wt d with
      | LGo (v, a) d' => LGo (set_field n v fs, a) d'                          (* assignment: replaces *)
      | LStop r => LStop r
      end
  | COneof g =>
      match read_value (fkind_ fd) wt d with
      | LGo (v, a) d' => LGo (set_field n v (clear_group md g n fs), a) d'     (* m.Oneof = &wrapper{v} *)
      | LStop r => LStop r
      end
  | CPacked | CUnpacked =>
      let cur := match lookup_field n fs with GList l => l | _ => [] end in
      match num_skind (fkind_ fd) with
      | Some s =>
          if wt =? wt_of s then
            match of_dres (dec_scalar d s) with
            | LGo z d' => LGo (set_field n (GList (cur ++ [GNum z])) fs, false) d'
            | LStop r => LStop r
            end
          else if wt =? 2 then
            match of_dres (dec_packed d s) with
            | LGo zs d' => LGo (set_field n (GList (cur ++ map GNum zs)) fs, false) d'
            | LStop r => LStop r
            end
          else LStop UErr
      | None =>
          match read_value (fkind_ fd) wt d with
          | LGo (v, a) d' => LGo (set_field n (GList (cur ++ [v])) fs, a) d'
          | LStop r => LStop r
          end
      end
  | CMap kk vk =>
      if negb (wt =? 2) then LStop UErr else
      (* entrySize, err := dec.DecodeUInt32(); entryEnd := dec.Offset() + int(entrySize) *)
      match of_dres (dec_scalar d KUInt32) with
      | LStop r => LStop r
      | LGo sz d1 =>
          (* an entry end beyond the buffer can never be reached: any bound past the end behaves the same *)
          let stop := (doff d1 + Z.to_nat (Z.min sz (Z.of_nat (S (length (dbuf d))))))%nat in
          match entry_loop (S (length (dbuf d))) kk vk stop d1 None None false with
          | LStop r => LStop r
          | LGo (key, val, al) d2 =>
              if negb (doff d2 =? stop)%nat then LStop UErr else
              let k := match key with Some k => k | None => zero_of kk end in
              let cur := match lookup_field n fs with GMap kvs => kvs | _ => [] end in
              match val, vk with
              | Some v, _ => LGo (set_field n (GMap (map_set k v cur)) fs, al) d2
              | None, FMsg t =>
                  (* entryValue = &T{}; when T has required fields: csproto.Unmarshal(nil, entryValue), whose error
                     is returned (for a T without required fields Unmarshal of no bytes is the empty message) *)
                  match unmarshal_msg t [] with
                  | UOk v _ => LGo (set_field n (GMap (map_set k v cur)) fs, al) d2
                  | other => LStop other
                  end
              | None, _ => LGo (set_field n (GMap (map_set k (zero_of vk) cur)) fs, al) d2
              end
          end
      end
  end.

(* the dispatch loop *)
Fixpoint field_loop (fuel : nat) (md : mdesc) (d : decoder) (fs : list (N * gval)) (unk : list byte) (al : bool) : ures :=
  match fuel with
  | O => UErr
  | S f =>
    if at_eof d then
      (* csprotoCheckRequiredFields *)
      if forallb (fun fd => match fcard_ fd with
                            | CRequired => negb (match lookup_field (fnum fd) fs with GAbsent => true | _ => false end)
                            | _ => true end) (mfields md)
      then UOk (GMsg fs unk) al else UErr
    else
      let start := doff d in
      match of_dres (dec_tag d) with
      | LStop r => r
      | LGo (tag, wt) d1 =>
          match find_field md tag with
          | Some fd =>
              match read_field md fd wt d1 fs with
              | LGo (fs', a) d2 => field_loop f md d2 fs' unk (al || a)
              | LStop r => r
              end
          | None =>
              (* default: Skip, then append p[fieldStart:dec.Offset()] (a copy) to the unknown fields *)
              match of_dres (dec_skip d1 (Z.of_N tag) (Z.of_N wt)) with
              | LGo _ d2 => field_loop f md d2 fs (unk ++ slice (dbuf d) start (doff d2)) al
              | LStop r => r
              end
          end
      end
  end.

Definition unmarshal_with (md : mdesc) (p : list byte) : ures :=
  (* m.Reset(); the empty-input shortcut only for messages without required fields *)
  field_loop (S (length p)) md {| dbuf := p; doff := 0; dfast := fast |} [] [] false.
End Interp.

Fixpoint gen_unmarshal (sc : schema) (fast : bool) (fuel : nat) (ty : nat) (p : list byte) : ures :=
  match fuel with
  | O => UErr
  | S f => unmarshal_with fast (gen_unmarshal sc fast f) (nth ty sc empty_md) p
  end.
(* Unmarshal(p) on a destination holding anything: Reset() first *)
Definition gen_unmarshal_into (sc : schema) (fast : bool) (ty : nat) (dest : gval) (p : list byte) : ures :=
  gen_unmarshal sc fast (S (length p)) ty p.
