(* C09: the generated code with its size caches refines the cache-free specification on fresh histories. *)
From CsProto Require Import Prelude Varint ZigZag Codec RefWire WireStmts Schema GenMarshal RefMsg GenStmts
  GenPBase GenRBase GenPFuel History HistBase HistSize.
Local Open Scope N_scope.

Lemma caches_valid_gvalid sc google s :
  caches_valid sc google s <-> gvalid sc (bias_of google) (hty s) (hroot s) (hcache s).
Proof. unfold caches_valid, gvalid. split; intros H; exact H. Qed.

Lemma gvalid_root_under sc bias rty root c :
  gvalid sc bias rty root c -> valid_under sc bias c [] rty root.
Proof. intros Hg q ty v Hpos Hm. cbn [app] in Hpos |- *. apply Hg; assumption. Qed.

Lemma cstore_root_valid sc bias rty root c fuel :
  schema_ok sc = true -> gvalid sc bias rty root c -> (vdepth root < fuel)%nat ->
  gvalid sc bias rty root (cstore sc bias fuel c [] rty root).
Proof.
  intros Hsc Hg Hd. destruct root as [|z|b|l|kvs|fs u]; try (rewrite cstore_nonmsg by (intros; discriminate); exact Hg).
  apply cstore_valid; [exact Hsc|exact Hg|apply msg_at_nil|exact Hd].
Qed.

(* Size()/MarshalTo at the root, with valid caches *)
Lemma root_size sc bias rty root c fuel :
  schema_ok sc = true -> gvalid sc bias rty root c -> (vdepth root < fuel)%nat ->
  csize sc bias fuel c [] rty root = gen_size sc fuel rty root /\
  cops sc bias fuel c [] rty root = gen_ops sc fuel rty root.
Proof.
  intros Hsc Hg Hd. apply csize_cops_valid; [exact Hsc|apply gvalid_root_under; exact Hg|exact Hd].
Qed.

Lemma fresh_prefixes s p num x :
  mutation_fresh s (HSet p num x) = true -> forall k, (cache_at (firstn k p) (hcache s) <= 0)%Z.
Proof.
  cbn [mutation_fresh]. intros H k. rewrite forallb_forall in H.
  destruct (Nat.le_gt_cases k (length p)) as [Hk|Hk].
  - apply Z.leb_le. apply H. apply in_seq. lia.
  - rewrite firstn_all2 by lia. specialize (H (length p)). rewrite firstn_all in H.
    apply Z.leb_le. apply H. apply in_seq. lia.
Qed.

(* ---------- one step ---------- *)
Lemma hstep_sound sc google s op :
  schema_ok sc = true -> caches_valid sc google s -> mutation_fresh s op = true ->
  caches_valid sc google (snd (hstep sc google s op)) /\
  (fst (hstep sc google s op), hroot (snd (hstep sc google s op))) = spec_step sc (hty s) (hroot s) op.
Proof.
  intros Hsc Hv Hf. destruct s as [root c ty].
  apply caches_valid_gvalid in Hv. cbn [hroot hcache hty] in Hv.
  assert (Hd : (vdepth root < S (vdepth root))%nat) by lia.
  pose proof (cstore_root_valid sc (bias_of google) ty root c _ Hsc Hv Hd) as Hv1.
  pose proof (root_size sc (bias_of google) ty root c _ Hsc Hv Hd) as [Hs0 _].
  pose proof (root_size sc (bias_of google) ty root _ _ Hsc Hv1 Hd) as [Hs1 Ho1].
  destruct op as [p num x| | | | |b| |]; cbn [hstep spec_step hroot hcache hty].
  - (* HSet *)
    destruct (msg_at sc ty root p) as [r|] eqn:Ep; cbn [fst snd hroot].
    2:{ split; [apply caches_valid_gvalid; exact Hv|reflexivity]. }
    split; [|reflexivity].
    pose proof (fresh_prefixes _ _ _ _ Hf) as Hfr. cbn [hcache] in Hfr.
    intros q ty' v' Hpos Hm. cbn [hcache hroot hty] in Hpos, Hm |- *.
    rewrite cache_at_drop in Hpos |- *.
    destruct (is_prefix (p ++ [num]) q) eqn:Epre; [lia|].
    apply Hv; [exact Hpos|].
    eapply set_at_frame; [| |exact Hm].
    + intros k E. subst q. specialize (Hfr k). lia.
    + intros t E. apply (is_prefix_false_inv _ _ t Epre). rewrite <- app_assoc. exact E.
  - (* HSize *)
    cbn [fst snd hroot]. split; [apply caches_valid_gvalid; exact Hv1|]. rewrite Hs0. reflexivity.
  - (* HMarshal *)
    rewrite Hs1, Ho1. unfold gen_marshal. cbv zeta.
    destruct (negb (has_required (nth ty sc empty_md)) && (gen_size sc (S (vdepth root)) ty root =? 0)%nat).
    { split; [apply caches_valid_gvalid; exact Hv1|reflexivity]. }
    destruct (gen_ops sc (S (vdepth root)) ty root) as [ops| |];
      try (split; [apply caches_valid_gvalid; exact Hv1|reflexivity]).
    destruct (grun _ ops) as [e| |]; split; try (apply caches_valid_gvalid; exact Hv1); reflexivity.
  - (* HMarshalTo *)
    rewrite Hs1, Ho1. unfold gen_marshal_to.
    destruct (gen_ops sc (S (vdepth root)) ty root) as [ops| |]; cbn [obind];
      try (split; [apply caches_valid_gvalid; exact Hv1|reflexivity]).
    destruct (grun _ ops) as [e| |]; split; try (apply caches_valid_gvalid; exact Hv1); reflexivity.
  - (* HRtSize *)
    destruct google; cbn [fst snd hroot].
    + split; [|reflexivity]. apply caches_valid_gvalid. cbn [hroot hcache hty].
      apply cstore_root_valid; [exact Hsc|apply gvalid_nil|exact Hd].
    + split; [apply caches_valid_gvalid; exact Hv1|]. rewrite Hs0. reflexivity.
  - (* HUnmarshal *)
    destruct (ref_decode sc (S (length b)) ty b) as [v|]; cbn [fst snd hroot];
      (split; [apply caches_valid_gvalid; apply gvalid_nil|reflexivity]).
  - (* HReset *)
    cbn [fst snd hroot]. split; [apply caches_valid_gvalid; apply gvalid_nil|reflexivity].
  - (* HClone *)
    cbn [fst snd hroot]. split; [apply caches_valid_gvalid; apply gvalid_nil|reflexivity].
Qed.

(* ---------- histories ---------- *)
Lemma hrun_sound sc google : forall ops s,
  schema_ok sc = true -> caches_valid sc google s -> history_fresh sc google s ops = true ->
  fst (hrun sc google s ops) = spec_run sc (hty s) (hroot s) ops /\
  caches_valid sc google (snd (hrun sc google s ops)) /\
  hty (snd (hrun sc google s ops)) = hty s.
Proof.
  induction ops as [|op ops IH]; intros s Hsc Hv Hf.
  - cbn [hrun spec_run fst snd]. auto.
  - cbn [history_fresh] in Hf. apply andb_true_iff in Hf. destruct Hf as [Hf1 Hf2].
    destruct (hstep_sound sc google s op Hsc Hv Hf1) as [Hv1 Hstep].
    pose proof (hstep_hty sc google s op) as Hty.
    cbn [hrun spec_run].
    destruct (hstep sc google s op) as [o s1]. cbn [fst snd] in Hv1, Hstep, Hty, Hf2.
    destruct (spec_step sc (hty s) (hroot s) op) as [o' v1]. inversion Hstep; subst o' v1.
    destruct (IH s1 Hsc Hv1 Hf2) as (Hobs & Hv2 & Hty2).
    destruct (hrun sc google s1 ops) as [os s2]. cbn [fst snd] in Hobs, Hv2, Hty2 |- *.
    rewrite Hty in Hobs. rewrite Hobs. split; [reflexivity|]. split; [exact Hv2|congruence].
Qed.

Theorem size_cache_transparent : forall sc google s ops,
  schema_ok sc = true ->
  caches_valid sc google s ->
  history_fresh sc google s ops = true ->
  fst (hrun sc google s ops) = spec_run sc (hty s) (hroot s) ops.
Proof. intros sc google s ops Hsc Hv Hf. apply hrun_sound; assumption. Qed.

Lemma hinit_valid sc google ty : caches_valid sc google (hinit ty).
Proof. apply caches_valid_gvalid. apply gvalid_nil. Qed.

Theorem new_message_histories : forall sc google ty ops,
  schema_ok sc = true ->
  history_fresh sc google (hinit ty) ops = true ->
  fst (hrun sc google (hinit ty) ops) = spec_run sc ty (GMsg [] []) ops.
Proof.
  intros sc google ty ops Hsc Hf.
  apply (size_cache_transparent sc google (hinit ty) ops Hsc (hinit_valid sc google ty) Hf).
Qed.

Theorem caches_stay_valid : forall sc google s ops,
  schema_ok sc = true ->
  caches_valid sc google s ->
  history_fresh sc google s ops = true ->
  caches_valid sc google (snd (hrun sc google s ops)).
Proof. intros sc google s ops Hsc Hv Hf. apply hrun_sound; assumption. Qed.

Theorem marshal_is_fresh_marshal : forall sc google s ops,
  schema_ok sc = true ->
  caches_valid sc google s ->
  history_fresh sc google s ops = true ->
  fst (hstep sc google (snd (hrun sc google s ops)) HMarshal)
  = obs_of_mres (gen_marshal sc (hty s) (hroot (snd (hrun sc google s ops)))).
Proof.
  intros sc google s ops Hsc Hv Hf.
  destruct (hrun_sound sc google ops s Hsc Hv Hf) as (_ & Hv2 & Hty).
  destruct (hstep_sound sc google (snd (hrun sc google s ops)) HMarshal Hsc Hv2 eq_refl) as [_ Hstep].
  cbn [spec_step] in Hstep. rewrite Hty in Hstep. apply (f_equal fst) in Hstep. exact Hstep.
Qed.

(* ---------- concurrent readers ---------- *)
Definition rinv (bias truesize : Z) (s : sstate) : Prop :=
  Forall (fun r => snd r = truesize) (sresults s) /\
  (scache s <= 0 \/ scache s = truesize + bias)%Z.

Lemma rstep_inv bias truesize s st :
  (0 <= truesize)%Z -> (0 <= bias)%Z -> rinv bias truesize s -> rinv bias truesize (rstep bias truesize s st).
Proof.
  intros Ht Hb [Hr Hc]. destruct st as [g|g]; cbn [rstep].
  - destruct (0 <? scache s)%Z eqn:E.
    + apply Z.ltb_lt in E. split; cbn [sresults scache]; [|exact Hc].
      constructor; [|exact Hr]. cbn [snd]. lia.
    + split; cbn [sresults scache]; assumption.
  - destruct (existsb (Nat.eqb g) (spending s)).
    + split; cbn [sresults scache]; [|right; reflexivity].
      constructor; [reflexivity|exact Hr].
    + split; assumption.
Qed.

Lemma rrun_inv bias truesize sched : forall s,
  (0 <= truesize)%Z -> (0 <= bias)%Z -> rinv bias truesize s ->
  rinv bias truesize (fold_left (rstep bias truesize) sched s).
Proof.
  induction sched as [|st sched IH]; intros s Ht Hb Hi; cbn [fold_left]; [exact Hi|].
  apply IH; [exact Ht|exact Hb|]. apply rstep_inv; assumption.
Qed.

Theorem concurrent_readers : forall bias truesize init sched,
  (0 <= truesize)%Z -> (0 <= bias)%Z ->
  (init <= 0 \/ init = truesize + bias)%Z ->
  Forall (fun r => snd r = truesize) (sresults (rrun bias truesize init sched)) /\
  (scache (rrun bias truesize init sched) <= 0 \/ scache (rrun bias truesize init sched) = truesize + bias)%Z.
Proof.
  intros bias truesize init sched Ht Hb Hi. unfold rrun.
  apply (rrun_inv bias truesize sched _ Ht Hb). split; cbn [sresults scache]; [constructor|exact Hi].
Qed.

Print Assumptions size_cache_transparent.
Print Assumptions marshal_is_fresh_marshal.
Print Assumptions concurrent_readers.
