(* The generated Unmarshal on a legal encoding computes the reference fold (C06), one message level:
   values, map entries, fields, the dispatch loop.  The nested Unmarshal / nested reference decoder are
   abstract; GenUProofs.v ties the knot by induction on the input length. *)
From CsProto Require Import Prelude Varint ZigZag Codec RefWire WireStmts CodecBase DecProofs.
From CsProto Require Import Schema GenMarshal RefMsg GenStmts GenUnmarshal GenLegal.
From CsProto Require Import GenRArith GenRWire GenRBase GenRFields GenPBase GenPFuel GenUWire GenUBase.
Local Open Scope N_scope.

Lemma dadv_mk' B off fast n : dadv (mk B off fast) n = mk B (off + n) fast.
Proof. reflexivity. Qed.

Lemma initialized_empty sc t : initialized sc t [] = true ->
  requireds_set sc (S (vdepth (GMsg [] []))) t (GMsg [] []) = true.
Proof. unfold initialized. cbn [length ref_decode ref_decode_into ref_parse_all ref_fold fold_left]. intros H. exact H. Qed.

(* the fold of the reference's map-entry [pick], from any starting value *)
Definition pick_fn (dm : nat -> gval -> list byte -> option gval) (num : N) (k : fkind)
  (acc : option gval) (e : rfield * list byte) : option gval :=
  match acc with
  | None => None
  | Some cur =>
      if rnum (fst e) =? num then
        match single_value dm k (match k with FMsg _ => cur | _ => GAbsent end) (fst e) with
        | None => None
        | Some None => Some cur
        | Some (Some v) => Some v
        end
      else Some cur
  end.
Definition pick_from dm (efs : list (rfield * list byte)) (num : N) (k : fkind) (init : gval) : option gval :=
  fold_left (pick_fn dm num k) efs (Some init).
Lemma pick_eq dm efs num k : pick dm efs num k = pick_from dm efs num k (zero_of k).
Proof. reflexivity. Qed.
Lemma pick_from_cons dm e efs num k init :
  pick_from dm (e :: efs) num k init =
  match pick_fn dm num k (Some init) e with Some c => pick_from dm efs num k c | None => None end.
Proof.
  unfold pick_from. cbn [fold_left]. destruct (pick_fn dm num k (Some init) e); [reflexivity|].
  induction efs as [|x r IH]; [reflexivity|exact IH].
Qed.

Definition dflt (k : fkind) (o : option gval) : gval := match o with Some v => v | None => zero_of k end.

(* ---------- the reference decoder is monotone in its fuel ---------- *)
Section Mono.
Variables dm1 dm2 : nat -> gval -> list byte -> option gval.
Hypothesis Hm : forall ty prev b v, dm1 ty prev b = Some v -> dm2 ty prev b = Some v.

Lemma single_value_mono k prev f r : single_value dm1 k prev f = Some r -> single_value dm2 k prev f = Some r.
Proof.
  unfold single_value. destruct k as [| | | |t]; try exact (fun H => H).
  destruct f as [| | |num b]; try exact (fun H => H).
  destruct (dm1 t prev b) as [v|] eqn:E; [|discriminate]. rewrite (Hm _ _ _ _ E). exact (fun H => H).
Qed.

Lemma pick_fn_mono num k acc e c : pick_fn dm1 num k acc e = Some c -> pick_fn dm2 num k acc e = Some c.
Proof.
  unfold pick_fn. destruct acc as [cur|]; [|discriminate]. destruct (rnum (fst e) =? num); [|exact (fun H => H)].
  destruct (single_value dm1 k _ (fst e)) as [r|] eqn:E; [|discriminate].
  rewrite (single_value_mono _ _ _ _ E). exact (fun H => H).
Qed.

Lemma pick_from_mono num k : forall efs init c,
  pick_from dm1 efs num k init = Some c -> pick_from dm2 efs num k init = Some c.
Proof.
  induction efs as [|e efs IH]; intros init c H; [exact H|].
  rewrite pick_from_cons in H |- *.
  destruct (pick_fn dm1 num k (Some init) e) as [c1|] eqn:E; [|discriminate H].
  rewrite (pick_fn_mono _ _ _ _ _ E). apply IH. exact H.
Qed.

Lemma ref_step_mono md st fr st' : ref_step dm1 md st fr = Some st' -> ref_step dm2 md st fr = Some st'.
Proof.
  destruct st as [fs unk], fr as [f raw].
  destruct (find_field md (rnum f)) as [fd|] eqn:Hfind; [|unfold ref_step; rewrite Hfind; exact (fun H => H)].
  destruct (find_field_some md (rnum f) fd Hfind) as [_ Hnum].
  destruct (fcard_ fd) as [| | | | |g|kk vk] eqn:Hcard.
  1-3,6: (unfold ref_step; rewrite Hfind, Hcard;
          match goal with |- context [single_value dm1 ?k ?p ?f0] =>
            destruct (single_value dm1 k p f0) as [r|] eqn:E; [|discriminate];
            rewrite (single_value_mono _ _ _ _ E); exact (fun H => H) end).
  1-2: (unfold ref_step; rewrite Hfind, Hcard;
        destruct (is_num_kind (fkind_ fd)); destruct f; try exact (fun H => H);
        match goal with |- context [single_value dm1 ?k ?p ?f0] =>
            destruct (single_value dm1 k p f0) as [r|] eqn:E; [|discriminate];
            rewrite (single_value_mono _ _ _ _ E); exact (fun H => H) end).
  destruct f as [| | |num b]; try (unfold ref_step; cbn [rnum] in *; rewrite Hfind, Hcard; exact (fun H => H)).
  cbn [rnum] in Hfind, Hnum. subst num.
  rewrite !(ref_step_map _ md fd kk vk fs unk b raw Hfind Hcard).
  destruct (ref_parse_all (S (length b)) b) as [efs|]; [|discriminate].
  rewrite !pick_eq.
  destruct (pick_from dm1 efs 1 kk (zero_of kk)) as [k1|] eqn:E1; [|discriminate].
  destruct (pick_from dm1 efs 2 vk (zero_of vk)) as [v1|] eqn:E2; [|discriminate].
  rewrite (pick_from_mono _ _ _ _ _ E1), (pick_from_mono _ _ _ _ _ E2). exact (fun H => H).
Qed.

Lemma ref_fold_mono md : forall flds st st', ref_fold dm1 md st flds = Some st' -> ref_fold dm2 md st flds = Some st'.
Proof.
  induction flds as [|x r IH]; intros st st' H; [exact H|].
  rewrite ref_fold_cons in H |- *. destruct (ref_step dm1 md st x) as [st1|] eqn:E; [|discriminate H].
  rewrite (ref_step_mono _ _ _ _ E). apply IH. exact H.
Qed.
End Mono.

Lemma ref_decode_into_mono sc : forall f f' ty prev p v, (f <= f')%nat ->
  ref_decode_into sc f ty prev p = Some v -> ref_decode_into sc f' ty prev p = Some v.
Proof.
  induction f as [|f IH]; intros f' ty prev p v Hle H; [discriminate H|].
  destruct f' as [|f']; [lia|]. cbn [ref_decode_into] in H |- *.
  destruct (ref_parse_all (S (length p)) p) as [flds|]; [|discriminate H].
  destruct (ref_fold (ref_decode_into sc f) (nth ty sc empty_md) _ flds) as [[fs u]|] eqn:E; [|discriminate H].
  rewrite (ref_fold_mono (ref_decode_into sc f) (ref_decode_into sc f')
             (fun ty0 prev0 b v0 => IH f' ty0 prev0 b v0 ltac:(lia)) _ _ _ _ E). exact H.
Qed.

Section Sim.
Variable sc : schema.
Variable fast : bool.
Hypothesis Hsc : schema_ok sc = true.
Variable um : nat -> list byte -> ures.
Variable dm : nat -> gval -> list byte -> option gval.
Variable lg nd : nat -> list byte -> bool.
Variable bound : nat.

Hypothesis Hdm0 : forall ty b, dm ty (GMsg [] []) b = dm ty GAbsent b.
Hypothesis Hrec : forall ty b, (length b < bound)%nat ->
  lg ty b = true -> nd ty b = true -> initialized sc ty b = true ->
  exists v al, dm ty GAbsent b = Some v /\ um ty b = UOk v al /\ requireds_set sc (S (vdepth v)) ty v = true.
(* Unmarshal of no bytes into a fresh message whose type needs nothing *)
Hypothesis Hempty : forall t, initialized sc t [] = true -> exists al, um t [] = UOk (GMsg [] []) al.

Definition prev_ok (prev : gval) : Prop := prev = GAbsent \/ prev = GMsg [] [].
Definition nd_val (k : fkind) (f : rfield) : Prop :=
  match k, f with FMsg t, RLen _ b => nd t b = true | _, _ => True end.

(* ---------- one value ---------- *)
Lemma read_value_sim k f B off rest prev :
  rfield_wfb f = true -> value_legal sc lg k f = true -> nd_val k f -> prev_ok prev ->
  (length B <= bound)%nat ->
  skipn off B = rpayload f ++ rest ->
  exists v a, single_value dm k prev f = Some (Some v) /\
    read_value um k (rwt f) (mk B off fast) = LGo (v, a) (mk B (off + length (rpayload f)) fast) /\
    val_init sc k v.
Proof.
  intros Hwf Hleg Hnd Hprev HB Hs.
  assert (Hnum : forall s, is_num_kind k = Some s -> scalar_legal s f = true ->
            exists v a, single_value dm k prev f = Some (Some v) /\
              read_value um k (rwt f) (mk B off fast) = LGo (v, a) (mk B (off + length (rpayload f)) fast) /\
              val_init sc k v).
  { intros s Hk Hsl.
    destruct (dec_scalar_legal B off fast s f rest Hwf Hsl Hs) as (Hwt & z & Hz & _ & Hdec).
    exists (GNum z), false. split; [|split].
    - unfold single_value. destruct k as [s0|  | | |t]; try discriminate Hk;
        destruct f; rewrite Hk, Hz; reflexivity.
    - unfold read_value, num_skind. destruct k as [s0| | | |t]; try discriminate Hk;
        rewrite Hk, Hwt, N.eqb_refl; cbn [negb]; rewrite Hdec; reflexivity.
    - destruct k; try discriminate Hk; exact I. }
  destruct k as [s| | | |t].
  - apply (Hnum s eq_refl). unfold value_legal in Hleg. cbn [is_num_kind] in Hleg. destruct f; exact Hleg.
  - apply (Hnum KInt32 eq_refl). unfold value_legal in Hleg. cbn [is_num_kind] in Hleg. destruct f; exact Hleg.
  - destruct f as [num v|num b|num b|num b]; try (cbn [value_legal is_num_kind] in Hleg; discriminate Hleg).
    exists (GBytes b), (dfast (mk B off fast)). split; [reflexivity|]. split; [|exact I].
    unfold read_value. cbn [rwt]. change (negb (2 =? 2)) with false. cbv iota.
    rewrite (dec_bytes_legal B off fast num b rest Hwf Hs). reflexivity.
  - destruct f as [num v|num b|num b|num b]; try (cbn [value_legal is_num_kind] in Hleg; discriminate Hleg).
    exists (GBytes b), (dfast (mk B off fast)). split; [reflexivity|]. split; [|exact I].
    unfold read_value. cbn [rwt]. change (negb (2 =? 2)) with false. cbv iota.
    rewrite (dec_bytes_legal B off fast num b rest Hwf Hs). reflexivity.
  - destruct f as [num v|num b|num b|num b]; try (cbn [value_legal is_num_kind] in Hleg; discriminate Hleg).
    cbn [value_legal] in Hleg. apply andb_prop in Hleg. destruct Hleg as [Hlg Hinit].
    cbn [nd_val] in Hnd.
    destruct (dec_len_legal B off fast num b rest Hwf Hs) as (_ & _ & Hlen & _).
    assert (Hb : (length b < bound)%nat).
    { pose proof (ref_varint_pos' (N.of_nat (length b))). lia. }
    destruct (Hrec t b Hb Hlg Hnd Hinit) as (v & al & Hdm & Hum & Hreq).
    exists v, al. split; [|split].
    + cbn [single_value]. destruct Hprev as [-> | ->]; rewrite ?Hdm0, Hdm; reflexivity.
    + unfold read_value. cbn [rwt]. change (negb (2 =? 2)) with false. cbv iota.
      rewrite (dec_nested_legal _ B off fast num b rest Hwf Hs). rewrite Hum. rewrite Hum. reflexivity.
    + exact Hreq.
Qed.

(* ---------- one map entry ---------- *)
Lemma entry_loop_S f kk vk stop d key val al :
  entry_loop um (S f) kk vk stop d key val al =
  if (doff d <? stop)%nat then
    match of_dres (dec_tag d) with
    | LStop r => LStop r
    | LGo (tag, wt) d1 =>
        if tag =? 1 then
          match read_value um kk wt d1 with
          | LGo (v, a) d2 => entry_loop um f kk vk stop d2 (Some v) val (al || a)
          | LStop r => LStop r
          end
        else if tag =? 2 then
          match read_value um vk wt d1 with
          | LGo (v, a) d2 => entry_loop um f kk vk stop d2 key (Some v) (al || a)
          | LStop r => LStop r
          end
        else
          match of_dres (dec_skip d1 (Z.of_N tag) (Z.of_N wt)) with
          | LGo _ d2 => entry_loop um f kk vk stop d2 key val al
          | LStop r => LStop r
          end
    end
  else LGo (key, val, al) d.
Proof. reflexivity. Qed.

Definition entry_field_legal (kk vk : fkind) (f : rfield) : bool :=
  if rnum f =? 1 then value_legal sc lg kk f else if rnum f =? 2 then value_legal sc lg vk f else true.
Definition opt_init (k : fkind) (o : option gval) : Prop :=
  match o with Some v => val_init sc k v | None => True end.
Definition has2 (efs : list rfield) : bool := existsb (fun f => rnum f =? 2) efs.

Lemma count_cons n e efs : count_num n (e :: efs) = ((if (rnum e =? n)%N then 1 else 0) + count_num n efs)%nat.
Proof. unfold count_num. cbn [filter]. destruct (rnum e =? n); reflexivity. Qed.

Lemma renc_length f : length (renc f) = (length (rkey f) + length (rpayload f))%nat.
Proof. unfold renc. apply app_length. Qed.

Lemma entry_loop_sim kk vk B stop : (forall t, kk <> FMsg t) -> (length B <= bound)%nat ->
  forall efs off fuel key val al rest,
  Forall (fun f => rfield_wfb f = true) efs ->
  Forall (fun f => entry_field_legal kk vk f = true) efs ->
  (forall t, vk = FMsg t ->
     (count_num 2 efs <= 1)%nat /\
     (forall num vb, In (RLen num vb) efs -> num = 2 -> nd t vb = true) /\
     ((1 <= count_num 2 efs)%nat -> val = None)) ->
  skipn off B = concat (map renc efs) ++ rest ->
  stop = (off + length (concat (map renc efs)))%nat ->
  (length efs < fuel)%nat ->
  opt_init vk val ->
  exists key' val' al',
    entry_loop um fuel kk vk stop (mk B off fast) key val al = LGo (key', val', al') (mk B stop fast) /\
    pick_from dm (map rawf efs) 1 kk (dflt kk key) = Some (dflt kk key') /\
    pick_from dm (map rawf efs) 2 vk (dflt vk val) = Some (dflt vk val') /\
    opt_init vk val' /\
    (val' = None -> val = None /\ has2 efs = false).
Proof.
  intros Hkk HB. induction efs as [|e efs IH]; intros off fuel key val al rest Hwf Hleg Hvk Hs Hstop Hfuel Hinit.
  - destruct fuel as [|fuel]; [cbn [length] in Hfuel; lia|].
    cbn [map concat length] in Hstop. rewrite entry_loop_S. cbn [mk doff].
    destruct (Nat.ltb_spec off stop) as [Hc|_]; [lia|].
    exists key, val, al. replace stop with off by lia.
    split; [reflexivity|]. split; [reflexivity|]. split; [reflexivity|]. split; [exact Hinit|]. intros Hv. split; [exact Hv|reflexivity].
  - destruct fuel as [|fuel]; [cbn [length] in Hfuel; lia|]. cbn [length] in Hfuel.
    inversion Hwf as [|? ? Hwe Hwr]; subst. inversion Hleg as [|? ? Hle Hlr]; subst.
    cbn [map concat] in Hs. rewrite <- app_assoc in Hs.
    set (rest' := concat (map renc efs) ++ rest) in *.
    pose proof (rfield_wfb_wf e Hwe) as Hwfe.
    destruct (dec_tag_renc B off fast e rest' Hwfe Hs) as (_ & Htag & Hs1).
    pose proof (renc_pos e) as Hpos. pose proof (renc_length e) as Hrl.
    cbn [map concat] in *. rewrite app_length in *.
    rewrite entry_loop_S. cbn [mk doff]. fold (mk B off fast).
    destruct (Nat.ltb_spec off (off + (length (renc e) + length (concat (map renc efs))))) as [_|Hc]; [|lia].
    rewrite Htag. cbn [of_dres].
    assert (Hs2 : skipn (off + length (renc e)) B = concat (map renc efs) ++ rest).
    { apply skipn_app_step. exact Hs. }
    assert (Hoff : (off + length (rkey e) + length (rpayload e) = off + length (renc e))%nat) by lia.
    unfold entry_field_legal in Hle.
    destruct (N.eqb_spec (rnum e) 1) as [H1|H1].
    + (* the key *)
      destruct (read_value_sim kk e B (off + length (rkey e))%nat rest'
                  (match kk with FMsg _ => dflt kk key | _ => GAbsent end) Hwe Hle) as (v & a & Hsv & Hrv & _).
      * unfold nd_val. destruct kk; try exact I. exfalso. eapply Hkk. reflexivity.
      * destruct kk; try (left; reflexivity). exfalso. eapply Hkk. reflexivity.
      * exact HB.
      * exact Hs1.
      * rewrite Hrv, Hoff.
        assert (Hn2 : (rnum e =? 2) = false) by (rewrite H1; reflexivity).
        destruct (IH (off + length (renc e))%nat fuel (Some v) val (al || a) rest Hwr Hlr) as (key' & val' & al' & He & Hp1 & Hp2 & Hi & Hh).
        -- intros t Ht. destruct (Hvk t Ht) as (Hc1 & Hc2 & Hc3). rewrite count_cons, Hn2 in Hc1, Hc3.
           split; [lia|]. split; [|intros; apply Hc3; lia]. intros num vb Hin Hnum. apply (Hc2 num vb); [right; exact Hin|exact Hnum].
        -- exact Hs2.
        -- lia.
        -- lia.
        -- exact Hinit.
        -- exists key', val', al'. split; [exact He|]. split; [|split; [|split]].
           ++ rewrite pick_from_cons. unfold pick_fn, rawf. cbn [fst]. rewrite H1. rewrite N.eqb_refl.
              rewrite Hsv. exact Hp1.
           ++ rewrite pick_from_cons. unfold pick_fn, rawf. cbn [fst]. rewrite Hn2. exact Hp2.
           ++ exact Hi.
           ++ intros Hv. destruct (Hh Hv) as [Hv1 Hv2]. split; [exact Hv1|]. unfold has2. cbn [existsb]. rewrite Hn2. exact Hv2.
    + destruct (N.eqb_spec (rnum e) 2) as [H2|H2].
      * (* the value *)
        assert (Hn1 : (rnum e =? 1) = false) by (rewrite H2; reflexivity).
        destruct (read_value_sim vk e B (off + length (rkey e))%nat rest'
                    (match vk with FMsg _ => dflt vk val | _ => GAbsent end) Hwe Hle) as (v & a & Hsv & Hrv & Hvi).
        -- unfold nd_val. destruct vk as [| | | |t]; try exact I. destruct e as [| | |num vb]; try exact I.
           destruct (Hvk t eq_refl) as (_ & Hc2 & _). apply (Hc2 num vb); [left; reflexivity|exact H2].
        -- destruct vk as [| | | |t]; try (left; reflexivity).
           destruct (Hvk t eq_refl) as (_ & _ & Hc3). rewrite count_cons, H2 in Hc3. cbn [N.eqb Pos.eqb] in Hc3.
           rewrite Hc3 by lia. right. reflexivity.
        -- exact HB.
        -- exact Hs1.
        -- rewrite Hrv, Hoff.
           destruct (IH (off + length (renc e))%nat fuel key (Some v) (al || a) rest Hwr Hlr) as (key' & val' & al' & He & Hp1 & Hp2 & Hi & Hh).
           ++ intros t Ht. destruct (Hvk t Ht) as (Hc1 & Hc2 & Hc3). rewrite count_cons, H2 in Hc1. cbn [N.eqb Pos.eqb] in Hc1.
              split; [lia|]. split; [|intros; lia]. intros num vb Hin Hnum. apply (Hc2 num vb); [right; exact Hin|exact Hnum].
           ++ exact Hs2.
           ++ lia.
           ++ lia.
           ++ exact Hvi.
           ++ exists key', val', al'. split; [exact He|]. split; [|split; [|split]].
              ** rewrite pick_from_cons. unfold pick_fn, rawf. cbn [fst]. rewrite Hn1. exact Hp1.
              ** rewrite pick_from_cons. unfold pick_fn, rawf. cbn [fst]. rewrite H2. rewrite N.eqb_refl.
                 rewrite Hsv. exact Hp2.
              ** exact Hi.
              ** intros Hv. destruct (Hh Hv) as [Hv1 _]. discriminate Hv1.
      * (* a foreign field: Skip *)
        apply N.eqb_neq in H1, H2.
        destruct (dec_skip_renc B off fast e rest' Hwfe Hs) as [Hsk _].
        rewrite Hsk. cbn [of_dres].
        destruct (IH (off + length (renc e))%nat fuel key val al rest Hwr Hlr) as (key' & val' & al' & He & Hp1 & Hp2 & Hi & Hh).
        -- intros t Ht. destruct (Hvk t Ht) as (Hc1 & Hc2 & Hc3). rewrite count_cons, H2 in Hc1, Hc3.
           split; [lia|]. split; [|intros; apply Hc3; lia]. intros num vb Hin Hnum. apply (Hc2 num vb); [right; exact Hin|exact Hnum].
        -- exact Hs2.
        -- lia.
        -- lia.
        -- exact Hinit.
        -- exists key', val', al'. split; [exact He|]. split; [|split; [|split]].
           ++ rewrite pick_from_cons. unfold pick_fn, rawf. cbn [fst]. rewrite H1. exact Hp1.
           ++ rewrite pick_from_cons. unfold pick_fn, rawf. cbn [fst]. rewrite H2. exact Hp2.
           ++ exact Hi.
           ++ intros Hv. destruct (Hh Hv) as [Hv1 Hv2]. split; [exact Hv1|]. unfold has2. cbn [existsb]. rewrite H2. exact Hv2.
Qed.

(* ---------- one declared field ---------- *)
Definition nd_field (fd : fdesc) (f : rfield) : Prop :=
  match f with
  | RLen _ b =>
      match fcard_ fd, fkind_ fd with
      | CMap _ (FMsg t), _ =>
          exists efs, canonical_fields b = Some efs /\ (count_num 2 efs <= 1)%nat /\
                      forall num vb, In (RLen num vb) efs -> num = 2 -> nd t vb = true
      | CMap _ _, _ => True
      | _, FMsg t => nd t b = true
      | _, _ => True
      end
  | _ => True
  end.
(* a singular message field / message member of a oneof has not been seen yet *)
Definition fresh_msg (fd : fdesc) (fs : list (N * gval)) : Prop :=
  single_card (fcard_ fd) = true -> forall t, fkind_ fd = FMsg t -> ~ In (fnum fd) (map fst fs).

Lemma wt_of_ne2 s : (2 =? wt_of s) = false.
Proof. destruct s; reflexivity. Qed.

Lemma nd_field_val fd f : (forall kk vk, fcard_ fd <> CMap kk vk) -> nd_field fd f -> nd_val (fkind_ fd) f.
Proof.
  intros Hc H. unfold nd_field, nd_val in *. destruct (fkind_ fd) as [| | | |t]; try exact I.
  destruct f as [| | |num b]; try exact I.
  destruct (fcard_ fd) as [| | | | | |kk vk]; try exact H. exfalso. eapply Hc. reflexivity.
Qed.

Lemma read_field_sim md fd f B off rest fs unk :
  mdesc_ok sc md = true -> find_field md (rnum f) = Some fd ->
  rfield_wfb f = true -> field_legal sc lg md f = true ->
  nd_field fd f -> fresh_msg fd fs ->
  (length B <= bound)%nat ->
  skipn off B = rpayload f ++ rest ->
  state_init sc md fs ->
  exists fs2 a,
    ref_step dm md (fs, unk) (rawf f) = Some (fs2, unk) /\
    read_field um md fd (rwt f) (mk B off fast) fs = LGo (fs2, a) (mk B (off + length (rpayload f)) fast) /\
    state_init sc md fs2 /\
    (forall k, In k (map fst fs2) -> k = rnum f \/ In k (map fst fs)).
Proof.
  intros Hmd Hfind Hwf Hleg Hnd Hfresh HB Hs Hst.
  destruct (find_field_some md (rnum f) fd Hfind) as [Hin Hnum].
  pose proof (mdesc_field_ok sc md fd Hmd Hin) as Hfok.
  unfold field_legal in Hleg. rewrite Hfind in Hleg.
  assert (Hsame : forall fd', In fd' (mfields md) -> fnum fd' = fnum fd -> fd' = fd).
  { intros fd' Hin' He. unfold mdesc_ok in Hmd. apply andb_prop in Hmd. destruct Hmd as [_ Hnd'].
    pose proof (find_field_self md fd' Hnd' Hin') as H1. rewrite He, Hnum, Hfind in H1. inversion H1. reflexivity. }
  (* a single value stored into a state fs0 derived from fs *)
  assert (Hsingle : single_card (fcard_ fd) = true -> value_legal sc lg (fkind_ fd) f = true ->
            forall fs0, state_init sc md fs0 ->
            exists v a,
              single_value dm (fkind_ fd) (match fkind_ fd with FMsg _ => lookup_field (fnum fd) fs | _ => GAbsent end) f
                = Some (Some v) /\
              read_value um (fkind_ fd) (rwt f) (mk B off fast) = LGo (v, a) (mk B (off + length (rpayload f)) fast) /\
              state_init sc md (set_field (fnum fd) v fs0)).
  { intros Hsc' Hvl fs0 Hst0.
    destruct (read_value_sim (fkind_ fd) f B off rest
                (match fkind_ fd with FMsg _ => lookup_field (fnum fd) fs | _ => GAbsent end) Hwf Hvl) as (v & a & H1 & H2 & H3).
    - apply nd_field_val; [|exact Hnd]. intros kk vk Hc. rewrite Hc in Hsc'. discriminate Hsc'.
    - destruct (fkind_ fd) as [| | | |t] eqn:Ek; try (left; reflexivity).
      left. apply lookup_notin. apply (Hfresh Hsc' t). exact Ek.
    - exact HB.
    - exact Hs.
    - exists v, a. split; [exact H1|]. split; [exact H2|].
      apply state_init_set; [|exact Hst0]. intros fd' Hin' He. rewrite (Hsame fd' Hin' He).
      apply field_init_single; assumption. }
  destruct (fcard_ fd) as [| | | | |g|kk vk] eqn:Hcard.
  - (* implicit *)
    destruct (Hsingle eq_refl Hleg fs Hst) as (v & a & H1 & H2 & H3).
    exists (set_field (fnum fd) v fs), a. split; [|split; [|split]].
    + unfold ref_step, rawf. rewrite Hfind, Hcard, H1. reflexivity.
    + unfold read_field. rewrite Hcard, H2. reflexivity.
    + exact H3.
    + intros k Hk. apply keys_set_field in Hk. rewrite <- Hnum. exact Hk.
  - (* optional *)
    destruct (Hsingle eq_refl Hleg fs Hst) as (v & a & H1 & H2 & H3).
    exists (set_field (fnum fd) v fs), a. split; [|split; [|split]].
    + unfold ref_step, rawf. rewrite Hfind, Hcard, H1. reflexivity.
    + unfold read_field. rewrite Hcard, H2. reflexivity.
    + exact H3.
    + intros k Hk. apply keys_set_field in Hk. rewrite <- Hnum. exact Hk.
  - (* required *)
    destruct (Hsingle eq_refl Hleg fs Hst) as (v & a & H1 & H2 & H3).
    exists (set_field (fnum fd) v fs), a. split; [|split; [|split]].
    + unfold ref_step, rawf. rewrite Hfind, Hcard, H1. reflexivity.
    + unfold read_field. rewrite Hcard, H2. reflexivity.
    + exact H3.
    + intros k Hk. apply keys_set_field in Hk. rewrite <- Hnum. exact Hk.
  - (* packed *)
    assert (Hcur : Forall (val_init sc (fkind_ fd)) (match lookup_field (fnum fd) fs with GList l => l | _ => [] end)).
    { pose proof (Hst fd Hin) as Hfi. destruct (lookup_field (fnum fd) fs) as [| | |l| |]; try constructor.
      apply (field_init_list_inv sc fd l); [rewrite Hcard; auto|exact Hfi]. }
    assert (Hfin : forall vs, Forall (val_init sc (fkind_ fd)) vs ->
              state_init sc md (set_field (fnum fd)
                 (GList ((match lookup_field (fnum fd) fs with GList l => l | _ => [] end) ++ vs)) fs)).
    { intros vs Hvs. apply state_init_set; [|exact Hst]. intros fd' Hin' He. rewrite (Hsame fd' Hin' He).
      apply field_init_list; [rewrite Hcard; auto|]. apply Forall_app. split; assumption. }
    assert (Hkeys : forall x k, In k (map fst (set_field (fnum fd) x fs)) -> k = rnum f \/ In k (map fst fs)).
    { intros x k Hk. apply keys_set_field in Hk. rewrite <- Hnum. exact Hk. }
    unfold ref_step, rawf, read_field. rewrite Hfind, Hcard. unfold num_skind.
    destruct (is_num_kind (fkind_ fd)) as [s|] eqn:Ek.
    + destruct f as [num v|num b|num b|num b].
      1-3: (match type of Hleg with value_legal _ _ _ ?f0 = true =>
              assert (Hsl : scalar_legal s f0 = true)
                by (unfold value_legal in Hleg; destruct (fkind_ fd); try discriminate Ek; rewrite Ek in Hleg; exact Hleg);
              destruct (dec_scalar_legal B off fast s f0 rest Hwf Hsl Hs) as (Hwt & z & Hz & _ & Hdec);
              assert (Hsv : single_value dm (fkind_ fd) GAbsent f0 = Some (Some (GNum z)))
                by (unfold single_value; destruct (fkind_ fd); try discriminate Ek; rewrite Ek, Hz; reflexivity);
              rewrite Hsv, Hwt, N.eqb_refl, Hdec; cbn [of_dres];
              eexists; exists false; split; [reflexivity|]; split; [reflexivity|]; split;
              [apply Hfin; constructor; [destruct (fkind_ fd); try discriminate Ek; exact I|constructor]|apply Hkeys]
            end).
      destruct (dec_packed_legal B off fast s num b rest Hwf Hleg Hs) as (zs & Hun & _ & Hdec).
      rewrite Hun. cbn [rwt]. rewrite wt_of_ne2. change (2 =? 2) with true. cbv iota. rewrite Hdec. cbn [of_dres].
      eexists; exists false. split; [reflexivity|]. split; [reflexivity|]. split; [|apply Hkeys].
      apply Hfin. apply Forall_forall. intros y Hy. apply in_map_iff in Hy. destruct Hy as (z & <- & _).
      destruct (fkind_ fd); try discriminate Ek; exact I.
    + destruct (read_value_sim (fkind_ fd) f B off rest GAbsent Hwf Hleg) as (v & a & H1 & H2 & H3).
      * apply nd_field_val; [|exact Hnd]. intros kk vk Hc. rewrite Hc in Hcard. discriminate Hcard.
      * left. reflexivity.
      * exact HB.
      * exact Hs.
      * rewrite H2.
        eexists; exists a. split; [|split; [reflexivity|split; [apply Hfin; constructor; [exact H3|constructor]|apply Hkeys]]].
        rewrite H1. destruct f; reflexivity.
  - (* unpacked *)
    assert (Hcur : Forall (val_init sc (fkind_ fd)) (match lookup_field (fnum fd) fs with GList l => l | _ => [] end)).
    { pose proof (Hst fd Hin) as Hfi. destruct (lookup_field (fnum fd) fs) as [| | |l| |]; try constructor.
      apply (field_init_list_inv sc fd l); [rewrite Hcard; auto|exact Hfi]. }
    assert (Hfin : forall vs, Forall (val_init sc (fkind_ fd)) vs ->
              state_init sc md (set_field (fnum fd)
                 (GList ((match lookup_field (fnum fd) fs with GList l => l | _ => [] end) ++ vs)) fs)).
    { intros vs Hvs. apply state_init_set; [|exact Hst]. intros fd' Hin' He. rewrite (Hsame fd' Hin' He).
      apply field_init_list; [rewrite Hcard; auto|]. apply Forall_app. split; assumption. }
    assert (Hkeys : forall x k, In k (map fst (set_field (fnum fd) x fs)) -> k = rnum f \/ In k (map fst fs)).
    { intros x k Hk. apply keys_set_field in Hk. rewrite <- Hnum. exact Hk. }
    unfold ref_step, rawf, read_field. rewrite Hfind, Hcard. unfold num_skind.
    destruct (is_num_kind (fkind_ fd)) as [s|] eqn:Ek.
    + destruct f as [num v|num b|num b|num b].
      1-3: (match type of Hleg with value_legal _ _ _ ?f0 = true =>
              assert (Hsl : scalar_legal s f0 = true)
                by (unfold value_legal in Hleg; destruct (fkind_ fd); try discriminate Ek; rewrite Ek in Hleg; exact Hleg);
              destruct (dec_scalar_legal B off fast s f0 rest Hwf Hsl Hs) as (Hwt & z & Hz & _ & Hdec);
              assert (Hsv : single_value dm (fkind_ fd) GAbsent f0 = Some (Some (GNum z)))
                by (unfold single_value; destruct (fkind_ fd); try discriminate Ek; rewrite Ek, Hz; reflexivity);
              rewrite Hsv, Hwt, N.eqb_refl, Hdec; cbn [of_dres];
              eexists; exists false; split; [reflexivity|]; split; [reflexivity|]; split;
              [apply Hfin; constructor; [destruct (fkind_ fd); try discriminate Ek; exact I|constructor]|apply Hkeys]
            end).
      destruct (dec_packed_legal B off fast s num b rest Hwf Hleg Hs) as (zs & Hun & _ & Hdec).
      rewrite Hun. cbn [rwt]. rewrite wt_of_ne2. change (2 =? 2) with true. cbv iota. rewrite Hdec. cbn [of_dres].
      eexists; exists false. split; [reflexivity|]. split; [reflexivity|]. split; [|apply Hkeys].
      apply Hfin. apply Forall_forall. intros y Hy. apply in_map_iff in Hy. destruct Hy as (z & <- & _).
      destruct (fkind_ fd); try discriminate Ek; exact I.
    + destruct (read_value_sim (fkind_ fd) f B off rest GAbsent Hwf Hleg) as (v & a & H1 & H2 & H3).
      * apply nd_field_val; [|exact Hnd]. intros kk vk Hc. rewrite Hc in Hcard. discriminate Hcard.
      * left. reflexivity.
      * exact HB.
      * exact Hs.
      * rewrite H2.
        eexists; exists a. split; [|split; [reflexivity|split; [apply Hfin; constructor; [exact H3|constructor]|apply Hkeys]]].
        rewrite H1. destruct f; reflexivity.
  - (* oneof *)
    destruct (Hsingle eq_refl Hleg (clear_group md g (fnum fd) fs) (state_init_clear sc md g (fnum fd) fs Hst))
      as (v & a & H1 & H2 & H3).
    exists (set_field (fnum fd) v (clear_group md g (fnum fd) fs)), a. split; [|split; [|split]].
    + unfold ref_step, rawf. rewrite Hfind, Hcard, H1. reflexivity.
    + unfold read_field. rewrite Hcard, H2. reflexivity.
    + exact H3.
    + intros k Hk. apply keys_set_field in Hk. rewrite <- Hnum. destruct Hk as [Hk|Hk]; [left; exact Hk|right].
      eapply keys_clear_group. exact Hk.
  - (* map *)
    destruct f as [num v|num b|num b|num b]; try discriminate Hleg.
    cbn [rnum] in Hnum, Hfind. subst num. cbn [rwt rnum].
    unfold entry_legal in Hleg. destruct (canonical_fields b) as [efs|] eqn:Hcf; [|discriminate Hleg].
    apply andb_prop in Hleg. destruct Hleg as [Hel Hdef].
    destruct (canonical_fields_spec b efs Hcf) as (Hb & Hwfs & Hpa).
    pose proof (field_ok_card sc md fd Hfok) as Hfc. rewrite Hcard in Hfc. destruct Hfc as [Hkk _].
    assert (Hkk' : forall t, kk <> FMsg t) by (intros t ->; discriminate Hkk).
    destruct (dec_len_legal B off fast (fnum fd) b rest Hwf Hs) as (Hdl & Hs1 & Hlen & Hpl).
    set (lv := length (ref_varint (N.of_nat (length b)))) in *.
    assert (Hvk : forall t, vk = FMsg t ->
              (count_num 2 efs <= 1)%nat /\
              (forall num vb, In (RLen num vb) efs -> num = 2 -> nd t vb = true) /\
              ((1 <= count_num 2 efs)%nat -> @None gval = None)).
    { intros t ->. cbn [nd_field] in Hnd. rewrite Hcard in Hnd. destruct Hnd as (efs' & He' & Hc1 & Hc2).
      rewrite Hcf in He'. inversion He'; subst efs'. split; [exact Hc1|]. split; [exact Hc2|]. reflexivity. }
    assert (Hel' : Forall (fun f => entry_field_legal kk vk f = true) efs).
    { apply Forall_forall. intros e He. rewrite forallb_forall in Hel. exact (Hel e He). }
    assert (Hs1' : skipn (off + lv) B = concat (map renc efs) ++ rest) by (rewrite <- Hb; exact Hs1).
    pose proof (fields_count efs) as Hcnt. rewrite <- Hb in Hcnt.
    assert (Hlb : (length b <= length B)%nat) by (clear - Hlen; lia).
    assert (Hfuel : (length efs < S (length B))%nat) by (clear - Hcnt Hlb; lia).
    assert (Hmin : Z.to_nat (Z.min (Z.of_nat (length b)) (Z.of_nat (S (length B)))) = length b) by (clear - Hlb; lia).
    destruct (entry_loop_sim kk vk B (off + lv + length b)%nat Hkk' HB efs (off + lv)%nat (S (length B)) None None false rest
                Hwfs Hel' Hvk Hs1' ltac:(rewrite <- Hb; reflexivity) Hfuel I)
      as (key' & val' & al' & He & Hp1 & Hp2 & Hi & Hh).
    assert (Hdef' : forall t, val' = None -> vk = FMsg t -> initialized sc t [] = true).
    { intros t Hv ->. destruct (Hh Hv) as [_ Hh2]. fold (has2 efs) in Hdef. rewrite Hh2 in Hdef. exact Hdef. }
    assert (Hvi : val_init sc vk (dflt vk val')).
    { destruct val' as [x|]; [exact Hi|]. cbn [dflt].
      destruct vk as [| | | |t]; try exact I.
      cbn [zero_of]. apply initialized_empty. exact (Hdef' t eq_refl eq_refl). }
    exists (set_field (fnum fd) (GMap (map_set (dflt kk key') (dflt vk val') (cur_map (fnum fd) fs))) fs), al'.
    split; [|split; [|split]].
    + unfold rawf. rewrite (ref_step_map dm md fd kk vk fs unk b _ Hfind Hcard).
      rewrite (Hpa (S (length b)) (Nat.lt_succ_diag_r _)). rewrite !pick_eq.
      change (zero_of kk) with (dflt kk None). change (zero_of vk) with (dflt vk None). rewrite Hp1, Hp2. reflexivity.
    + unfold read_field. rewrite Hcard. change (negb (2 =? 2)) with false. cbv iota. rewrite Hdl. cbn [of_dres].
      cbv zeta. cbn [mk dbuf doff].
      rewrite Hmin.
      fold (mk B (off + lv) fast). rewrite He. cbn [mk doff]. rewrite Nat.eqb_refl. cbn [negb].
      unfold cur_map. rewrite Hpl. rewrite Nat.add_assoc.
      destruct val' as [x|]; [reflexivity|].
      destruct vk as [| | | |t]; try reflexivity.
      destruct (Hempty t (Hdef' t eq_refl eq_refl)) as [al0 Hal0]. rewrite Hal0. reflexivity.
    + apply state_init_set; [|exact Hst]. intros fd' Hin' He'. rewrite (Hsame fd' Hin' He').
      apply (field_init_map sc fd kk vk); [exact Hcard|].
      apply (map_set_forall (fun kv => val_init sc vk (snd kv))); [intros k0; exact Hvi|].
      pose proof (Hst fd Hin) as Hfi. unfold cur_map. destruct (lookup_field (fnum fd) fs) as [| | | |kvs|]; try constructor.
      apply (field_init_map_inv sc fd kk vk kvs Hcard Hfi).
    + intros k Hk. apply keys_set_field in Hk. exact Hk.
Qed.

(* ---------- the dispatch loop ---------- *)
Lemma field_loop_S f md d fs unk al :
  field_loop um (S f) md d fs unk al =
  if at_eof d then (if req_top md fs then UOk (GMsg fs unk) al else UErr)
  else
    match of_dres (dec_tag d) with
    | LStop r => r
    | LGo (tag, wt) d1 =>
        match find_field md tag with
        | Some fd =>
            match read_field um md fd wt d1 fs with
            | LGo (fs', a) d2 => field_loop um f md d2 fs' unk (al || a)
            | LStop r => r
            end
        | None =>
            match of_dres (dec_skip d1 (Z.of_N tag) (Z.of_N wt)) with
            | LGo _ d2 => field_loop um f md d2 fs (unk ++ slice (dbuf d) (doff d) (doff d2)) al
            | LStop r => r
            end
        end
    end.
Proof. reflexivity. Qed.

Definition undecl (md : mdesc) (flds : list rfield) : list rfield :=
  filter (fun f => match find_field md (rnum f) with None => true | Some _ => false end) flds.

Lemma count_le_cons n e flds : (count_num n flds <= count_num n (e :: flds))%nat.
Proof. rewrite count_cons. lia. Qed.

Lemma field_loop_sim md B : mdesc_ok sc md = true -> (length B <= bound)%nat ->
  forall flds off fuel fs unk al,
  Forall (fun f => rfield_wfb f = true) flds ->
  Forall (fun f => field_legal sc lg md f = true) flds ->
  (forall f fd, In f flds -> find_field md (rnum f) = Some fd -> nd_field fd f) ->
  (forall fd, In fd (mfields md) -> single_card (fcard_ fd) = true -> forall t, fkind_ fd = FMsg t ->
     (count_num (fnum fd) flds <= 1)%nat /\
     ((1 <= count_num (fnum fd) flds)%nat -> ~ In (fnum fd) (map fst fs))) ->
  skipn off B = concat (map renc flds) ->
  (length flds < fuel)%nat ->
  state_init sc md fs ->
  exists fs' al',
    ref_fold dm md (fs, unk) (map rawf flds) = Some (fs', unk ++ concat (map renc (undecl md flds))) /\
    field_loop um fuel md (mk B off fast) fs unk al
      = (if req_top md fs' then UOk (GMsg fs' (unk ++ concat (map renc (undecl md flds)))) al' else UErr) /\
    state_init sc md fs'.
Proof.
  intros Hmd HB. induction flds as [|f flds IH]; intros off fuel fs unk al Hwf Hleg Hnd Hfresh Hs Hfuel Hst.
  - destruct fuel as [|fuel]; [cbn [length] in Hfuel; lia|].
    exists fs, al. cbn [map concat undecl filter]. rewrite app_nil_r. split; [reflexivity|]. split; [|exact Hst].
    rewrite field_loop_S. unfold at_eof. cbn [mk dbuf doff].
    assert (Hl : (length B <= off)%nat).
    { apply (f_equal (@length byte)) in Hs. rewrite skipn_length in Hs. cbn [map concat length] in Hs. lia. }
    destruct (Nat.leb_spec (length B) off) as [_|Hc]; [reflexivity|lia].
  - destruct fuel as [|fuel]; [cbn [length] in Hfuel; lia|]. cbn [length] in Hfuel.
    inversion Hwf as [|? ? Hwe Hwr]; subst. inversion Hleg as [|? ? Hle Hlr]; subst.
    cbn [map concat] in Hs.
    set (rest := concat (map renc flds)) in *.
    pose proof (rfield_wfb_wf f Hwe) as Hwff.
    destruct (dec_tag_renc B off fast f rest Hwff Hs) as (Heof & Htag & Hs1).
    pose proof (renc_length f) as Hrl.
    assert (Hs2 : skipn (off + length (renc f)) B = rest).
    { rewrite <- (app_nil_r rest). apply skipn_app_step. rewrite app_nil_r. exact Hs. }
    assert (Hoff : (off + length (rkey f) + length (rpayload f) = off + length (renc f))%nat) by lia.
    rewrite field_loop_S, Heof, Htag. cbn [of_dres].
    change (map rawf (f :: flds)) with (rawf f :: map rawf flds). rewrite ref_fold_cons.
    destruct (find_field md (rnum f)) as [fd|] eqn:Hfind.
    + destruct (find_field_some md (rnum f) fd Hfind) as [Hin Hnum].
      destruct (read_field_sim md fd f B (off + length (rkey f))%nat rest fs unk Hmd Hfind Hwe Hle) as (fs2 & a & Hst2 & Hrf & Hi2 & Hk2).
      * apply (Hnd f fd); [left; reflexivity|exact Hfind].
      * intros Hsc' t Ht. destruct (Hfresh fd Hin Hsc' t Ht) as [_ Hc2]. apply Hc2.
        rewrite count_cons, Hnum, N.eqb_refl. lia.
      * exact HB.
      * exact Hs1.
      * exact Hst.
      * rewrite Hst2, Hrf, Hoff.
        destruct (IH (off + length (renc f))%nat fuel fs2 unk (al || a) Hwr Hlr) as (fs' & al' & Hf1 & Hf2 & Hf3).
        -- intros f0 fd0 Hin0 Hfd0. apply (Hnd f0 fd0); [right; exact Hin0|exact Hfd0].
        -- intros fd0 Hin0 Hsc0 t Ht. destruct (Hfresh fd0 Hin0 Hsc0 t Ht) as [Hc1 Hc2].
           pose proof (count_le_cons (fnum fd0) f flds) as Hcc. split; [lia|].
           intros Hge Hink. destruct (Hk2 _ Hink) as [Hk|Hk].
           ++ rewrite count_cons, <- Hk, N.eqb_refl in Hc1. lia.
           ++ apply Hc2; [lia|exact Hk].
        -- exact Hs2.
        -- lia.
        -- exact Hi2.
        -- exists fs', al'. unfold undecl. cbn [filter]. rewrite Hfind. fold (undecl md flds).
           split; [exact Hf1|]. split; [exact Hf2|exact Hf3].
    + destruct (dec_skip_renc B off fast f rest Hwff Hs) as [Hsk Hsl].
      rewrite Hsk. cbn [of_dres mk dbuf doff]. rewrite Hsl. fold (mk B (off + length (renc f)) fast).
      assert (Hstep : ref_step dm md (fs, unk) (rawf f) = Some (fs, unk ++ renc f)).
      { unfold ref_step, rawf. rewrite Hfind. reflexivity. }
      rewrite Hstep.
      destruct (IH (off + length (renc f))%nat fuel fs (unk ++ renc f) al Hwr Hlr) as (fs' & al' & Hf1 & Hf2 & Hf3).
      * intros f0 fd0 Hin0 Hfd0. apply (Hnd f0 fd0); [right; exact Hin0|exact Hfd0].
      * intros fd0 Hin0 Hsc0 t Ht. destruct (Hfresh fd0 Hin0 Hsc0 t Ht) as [Hc1 Hc2].
        pose proof (count_le_cons (fnum fd0) f flds) as Hcc. split; [lia|]. intros Hge. apply Hc2. lia.
      * exact Hs2.
      * lia.
      * exact Hst.
      * exists fs', al'. unfold undecl. cbn [filter]. rewrite Hfind. fold (undecl md flds).
        cbn [map concat]. rewrite app_assoc. split; [exact Hf1|]. split; [exact Hf2|exact Hf3].
Qed.

End Sim.
