(* C05: the bytes the generated Marshal produces, read back by the reference semantics, are the original
   message in canonical form.  Induction on the nesting depth over the per-message lemma of GenRMsg.v. *)
From CsProto Require Import Prelude Varint VarintSize ZigZag Codec RefWire WireStmts CodecBase EncProofs DecProofs
  Schema GenMarshal RefMsg GenStmts GenProofs GenRArith GenRWire GenRBase GenRFields GenRMsg.
Local Open Scope N_scope.

Lemma ref_decode_into_S sc f ty prev p :
  ref_decode_into sc (S f) ty prev p =
  match ref_parse_all (S (length p)) p with
  | None => None
  | Some flds =>
      match ref_fold (ref_decode_into sc f) (nth ty sc empty_md)
                     (match prev with GMsg fs u => (fs, u) | _ => ([], []) end) flds with
      | Some (fs, u) => Some (GMsg fs u)
      | None => None
      end
  end.
Proof. reflexivity. Qed.

Lemma dec0 sc f ty b : ref_decode_into sc f ty (GMsg [] []) b = ref_decode_into sc f ty GAbsent b.
Proof. destruct f; reflexivity. Qed.

Lemma flat_map_ext_in {A B} (f g : A -> list B) l : (forall x, In x l -> f x = g x) -> flat_map f l = flat_map g l.
Proof.
  induction l as [|a r IH]; intros H; [reflexivity|]. cbn [flat_map].
  rewrite (H a (or_introl eq_refl)), IH; [reflexivity|]. intros x Hx. apply H. right. exact Hx.
Qed.

Lemma fvo_absent m fd : field_value_ok m fd GAbsent = true.
Proof. unfold field_value_ok. destruct (fcard_ fd); reflexivity. Qed.


Section Main.
Variable sc : schema.
Hypothesis Hsc : schema_ok sc = true.
Variable Q : mdesc -> list (N * gval) -> list byte -> bool.
Hypothesis HQ : forall md fs u, Q md fs u = true ->
  unknown_ok_at md u = true /\ forall fd, In fd (mfields md) -> nz_field fd (lookup_field (fnum fd) fs) = true.

Lemma main : forall n ty v ops,
  value_ok sc n ty v = true -> all_msgs sc Q n ty v = true ->
  gen_ops sc n ty v = Ok ops -> N.of_nat (gen_size sc n ty v) < 2^31 ->
  length (gbytes ops) = gen_size sc n ty v /\
  forall D, (length (gbytes ops) < D)%nat ->
    exists v', ref_decode_into sc D ty GAbsent (gbytes ops) = Some v' /\ msg_rel sc ty v' v.
Proof.
  induction n as [|f IH]; intros ty v ops Hv Hq Hops Hsz; [discriminate Hv|].
  destruct v as [| | | | |fs u]; try discriminate Hv.
  cbn [value_ok] in Hv. apply andb_prop in Hv. destruct Hv as [Hmv Hub].
  rewrite all_msgs_S in Hq. apply andb_prop in Hq. destruct Hq as [Hq1 Hq2].
  cbn [gen_ops] in Hops. cbn [gen_size] in Hsz |- *.
  set (md := nth ty sc empty_md) in *.
  pose proof (mdesc_ok_nth sc ty Hsc) as Hmd. fold md in Hmd. unfold mdesc_ok in Hmd.
  apply andb_prop in Hmd. destruct Hmd as [Hfo Hndb]. pose proof (nodupb_NoDup _ Hndb) as Hnd.
  rewrite forallb_forall in Hfo.
  unfold msg_value_ok in Hmv. apply andb_prop in Hmv. destruct Hmv as [Hmv Hgroups].
  apply andb_prop in Hmv. destruct Hmv as [_ Hvals]. rewrite forallb_forall in Hvals.
  destruct (HQ md fs u Hq1) as [Hu Hnz]. rewrite forallb_forall in Hq2.
  assert (Hfind : forall fd, In fd (mfields md) -> find_field md (fnum fd) = Some fd)
    by (intros fd Hin; apply find_field_in; assumption).
  assert (Hval : forall fd, In fd (mfields md) ->
            field_value_ok (value_ok sc f) fd (lookup_field (fnum fd) fs) = true).
  { intros fd Hin. destruct (lookup_in (fnum fd) fs) as [E|E]; [rewrite E; apply fvo_absent|].
    specialize (Hvals _ E). cbv beta iota in Hvals. rewrite (Hfind fd Hin) in Hvals. exact Hvals. }
  assert (Hnested : forall D ty0 x body,
            value_ok sc f ty0 x = true -> all_msgs sc Q f ty0 x = true -> gen_ops sc f ty0 x = Ok body ->
            N.of_nat (gen_size sc f ty0 x) < 2^31 ->
            length (gbytes body) = gen_size sc f ty0 x /\
            ((length (gbytes body) < D)%nat ->
             exists x', ref_decode_into sc D ty0 GAbsent (gbytes body) = Some x' /\ msg_rel sc ty0 x' x)).
  { intros D0 ty0 x body H1 H2 H3 H4. destruct (IH ty0 x body H1 H2 H3 H4) as [Ha Hb].
    split; [exact Ha|]. intros HD. apply Hb. exact HD. }
  pose proof (fun D => msg_spec sc (value_ok sc f) (all_msgs sc Q f) (gen_size sc f) (gen_ops sc f)
                         (ref_decode_into sc D) D (Hnested D) (dec0 sc D) md Hfo Hfind fs Hval Hq2 Hnz Hgroups
                         u ops Hnd Hu Hops Hsz) as Hspec.
  split; [exact (proj1 (Hspec O))|].
  intros D HD. destruct D as [|D0]; [lia|].
  destruct (Hspec D0) as [_ Hd]. destruct (Hd ltac:(lia)) as (flds & fs' & Hpa & Hfold & Hrel).
  exists (GMsg fs' u). split.
  - rewrite ref_decode_into_S, Hpa. fold md. rewrite Hfold. reflexivity.
  - split; [exists fs', u; reflexivity|]. intros nf H1 H2. destruct nf as [|nf]; [lia|].
    rewrite !normalize_S. fold md. f_equal. apply flat_map_ext_in. intros fd Hin.
    apply (Hrel fd Hin nf).
    + pose proof (vdepth_lookup (fnum fd) fs u). lia.
    + pose proof (vdepth_lookup (fnum fd) fs' u). lia.
Qed.
End Main.

Theorem reference_roundtrip : forall sc ty v b fuel,
  schema_ok sc = true -> value_ok sc (S (vdepth v)) ty v = true ->
  unknowns_ok sc (S (vdepth v)) ty v = true ->
  N.of_nat (gen_size sc (S (vdepth v)) ty v) < 2^31 ->
  gen_marshal sc ty v = MBytes b ->
  exists v', ref_decode sc (S (length b)) ty b = Some v' /\
             ((vdepth v < fuel)%nat -> (vdepth v' < fuel)%nat -> normalize sc fuel ty v' = normalize sc fuel ty v).
Proof.
  intros sc ty v b fuel Hsc Hv Hu Hsz Hm.
  pose proof (marshal_spec sc ty v Hsc Hv Hsz) as Hms. rewrite Hm in Hms.
  destruct Hms as [Hlen (ops & Hops & Hb)].
  unfold unknowns_ok in Hu. pose proof Hu as Hq.
  match type of Hq with all_msgs _ ?Q0 _ _ _ = true => set (Q := Q0) in * end.
  assert (HQ : forall md fs u, Q md fs u = true ->
            unknown_ok_at md u = true /\
            forall fd, In fd (mfields md) -> nz_field fd (lookup_field (fnum fd) fs) = true).
  { intros md fs u H. split; [exact H|]. intros fd Hin. reflexivity. }
  destruct (main sc Hsc Q HQ (S (vdepth v)) ty v ops Hv Hq Hops Hsz) as [_ Hd].
  subst b. destruct (Hd (S (length (gbytes ops))) ltac:(lia)) as (v' & Hdec & [_ Hrel]).
  exists v'. split; [exact Hdec|]. intros H1 H2. apply Hrel; assumption.
Qed.

Print Assumptions reference_roundtrip.
