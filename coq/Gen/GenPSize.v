(* The programs MarshalTo builds are well-formed and as long as Size() says (C04), clause by clause. *)
From CsProto Require Import Prelude Varint VarintSize ZigZag Codec RefWire WireStmts CodecBase EncProofs Schema GenMarshal RefMsg GenStmts GenPBase GenPExact.
Local Open Scope N_scope.

Definition good (ops : list gop) (n : nat) : Prop := Forall gop_ok ops /\ gops_size ops = n.

Lemma good_nil : good [] 0. Proof. split; [constructor|reflexivity]. Qed.
Lemma good_app a n b m : good a n -> good b m -> good (a ++ b) (n + m).
Proof.
  intros [Ha Hn] [Hb Hm]. split; [apply Forall_app; split; assumption|].
  rewrite gops_size_app. lia.
Qed.
Lemma good_one g n : gop_ok g -> gop_size g = n -> good [g] n.
Proof.
  intros Hg Hn. split; [constructor; [exact Hg|constructor]|].
  rewrite gops_size_cons, gops_size_nil. lia.
Qed.
Lemma good_eq ops n m : good ops n -> n = m -> good ops m.
Proof. intros H <-. exact H. Qed.

Lemma filter_head_In {A} (p : A -> bool) l x r : filter p l = x :: r -> In x l /\ p x = true.
Proof. intros H. apply filter_In. rewrite H. left. reflexivity. Qed.

Lemma group_member_inv md fs g f v : group_member md fs g = Some (f, v) ->
  In f (mfields md) /\ in_group g f = true /\ v = lookup_field (fnum f) fs /\ v <> GAbsent.
Proof.
  unfold group_member.
  destruct (filter _ (mfields md)) as [|f0 r] eqn:Hf; [discriminate|].
  intros H. inversion H; subst f0 v. clear H.
  apply filter_head_In in Hf. destruct Hf as [Hin Hp].
  apply andb_true_iff in Hp. destruct Hp as [Hg Hp]. apply negb_true_iff in Hp.
  repeat split; try assumption.
  intros Habs. rewrite Habs in Hp. discriminate.
Qed.

Lemma in_group_card g f : in_group g f = true -> fcard_ f = COneof g.
Proof.
  unfold in_group. destruct (fcard_ f) as [| | | | |g'|kk vk]; try discriminate.
  intros H. apply Nat.eqb_eq in H. subst. reflexivity.
Qed.

(* generic sums *)
Lemma sum_map_In_le {A} (f : A -> nat) l x : In x l -> (f x <= sum_map f l)%nat.
Proof.
  induction l as [|y l IH]; cbn [In sum_map]; [contradiction|].
  intros [->|Hin]; [lia|]. specialize (IH Hin). lia.
Qed.

Section Clauses.
Variable size_msg : nat -> gval -> nat.
Variable ops_msg : nat -> gval -> outcome (list gop).
Variable msg_ok : nat -> gval -> bool.
Variable M : nat.
Hypothesis HM : N.of_nat M < 2^63.
Hypothesis IH : forall ty v ops, msg_ok ty v = true -> (size_msg ty v <= M)%nat ->
  ops_msg ty v = Ok ops -> good ops (size_msg ty v).

Lemma concat_good {A} (fo : A -> outcome (list gop)) (fz : A -> nat) l :
  (forall x ops, In x l -> (fz x <= M)%nat -> fo x = Ok ops -> good ops (fz x)) ->
  (sum_map fz l <= M)%nat -> forall ops, concat_ops fo l = Ok ops -> good ops (sum_map fz l).
Proof.
  induction l as [|x l IHl]; intros Hall Hle ops Hops.
  - cbn [concat_ops] in Hops. inversion Hops. apply good_nil.
  - cbn [concat_ops] in Hops. cbn [sum_map] in *.
    apply obind_Ok_inv in Hops. destruct Hops as (a & Ha & Hops).
    apply obind_Ok_inv in Hops. destruct Hops as (b & Hb & Hops).
    inversion Hops; subst ops. apply good_app.
    + apply Hall; [left; reflexivity|lia|exact Ha].
    + apply IHl; [|lia|exact Hb]. intros y ops' Hin. apply Hall. right. exact Hin.
Qed.

Lemma elem_ok_num k s x : is_num_kind k = Some s -> elem_ok msg_ok k x = true ->
  exists z, x = GNum z /\ in_dom s z = true.
Proof.
  destruct k as [s'| | | |ty]; cbn [is_num_kind]; intros Hs; inversion Hs; subst; clear Hs;
    destruct x as [|z|b|l|kvs|fs u]; cbn [elem_ok num_ok]; try discriminate; intros H; exists z; auto.
Qed.

Lemma elem_good tag k v ops :
  tag_ok tag -> elem_ok msg_ok k v = true -> (elem_size size_msg tag k v <= M)%nat ->
  elem_ops size_msg ops_msg tag k v = Ok ops -> good ops (elem_size size_msg tag k v).
Proof.
  intros Htag Hok Hle Hops.
  destruct k as [s| | | |ty].
  - destruct (elem_ok_num (FNum s) s v eq_refl Hok) as (z & -> & Hd).
    cbn [elem_ops elem_size is_num_kind] in *. inversion Hops; subst ops.
    apply good_one; [cbn [gop_ok op_ok]; auto|reflexivity].
  - destruct (elem_ok_num FEnum KInt32 v eq_refl Hok) as (z & -> & Hd).
    cbn [elem_ops elem_size is_num_kind] in *. inversion Hops; subst ops.
    apply good_one; [cbn [gop_ok op_ok]; auto|reflexivity].
  - destruct v as [|z|b|l|kvs|fs u]; cbn [elem_ok] in Hok; try discriminate.
    cbn [elem_ops elem_size] in *. inversion Hops; subst ops. unfold len_size in *.
    apply good_one; [cbn [gop_ok op_ok]; split; [exact Htag|lia]|cbn [gop_size esize]; lia].
  - destruct v as [|z|b|l|kvs|fs u]; cbn [elem_ok] in Hok; try discriminate.
    cbn [elem_ops elem_size] in *. inversion Hops; subst ops. unfold len_size in *.
    apply good_one; [cbn [gop_ok op_ok]; split; [exact Htag|lia]|cbn [gop_size esize]; lia].
  - apply elem_ok_msg_inv in Hok.
    cbn [elem_ops elem_size] in *. unfold len_size in *.
    apply obind_Ok_inv in Hops. destruct Hops as (body & Hbody & Hops). inversion Hops; subst ops.
    destruct (IH ty v body Hok ltac:(lia) Hbody) as [Hfa Hsz].
    apply good_one.
    + apply gop_ok_nest. split; [exact Htag|split; [lia|split; [symmetry; exact Hsz|exact Hfa]]].
    + cbn [gop_size]. lia.
Qed.

(* a singular field value that is present fits its kind *)
Lemma present_elem_ok f v : present f v = true ->
  match fcard_ f with CImplicit | COptional | CRequired | COneof _ => True | _ => False end ->
  field_value_ok msg_ok f v = true -> elem_ok msg_ok (fkind_ f) v = true.
Proof.
  unfold present, field_value_ok.
  destruct (fcard_ f) as [| | | | |g|kk vk]; intros Hp Hc Hv; try contradiction;
    destruct v as [|z|b|l|kvs|fs u]; try discriminate; exact Hv.
Qed.

Lemma nums_in_dom k s l : is_num_kind k = Some s -> forallb (elem_ok msg_ok k) l = true ->
  Forall (fun z => in_dom s z = true) (nums_of l).
Proof.
  intros Hs. induction l as [|x l IHl]; cbn [forallb nums_of map]; intros H; [constructor|].
  apply andb_true_iff in H. destruct H as [Hx Hl].
  destruct (elem_ok_num k s x Hs Hx) as (z & -> & Hd).
  constructor; [exact Hd|apply IHl; exact Hl].
Qed.

Lemma field_good sc md f v ops :
  field_ok sc md f = true -> field_value_ok msg_ok f v = true ->
  (field_size size_msg f v <= M)%nat ->
  field_ops size_msg ops_msg f v = Ok ops -> good ops (field_size size_msg f v).
Proof.
  intros Hfok Hv Hle Hops.
  pose proof (field_ok_tag _ _ _ Hfok) as Htag.
  pose proof (field_ok_card _ _ _ Hfok) as Hcard.
  unfold field_size, field_ops in *.
  destruct (fcard_ f) as [| | | | |g|kk vk] eqn:Hc.
  - (* implicit *)
    destruct (present f v) eqn:Hp.
    + apply elem_good; try assumption. apply present_elem_ok; [exact Hp|rewrite Hc; exact I|exact Hv].
    + inversion Hops. apply good_nil.
  - destruct (present f v) eqn:Hp.
    + apply elem_good; try assumption. apply present_elem_ok; [exact Hp|rewrite Hc; exact I|exact Hv].
    + inversion Hops. apply good_nil.
  - destruct (present f v) eqn:Hp.
    + apply elem_good; try assumption. apply present_elem_ok; [exact Hp|rewrite Hc; exact I|exact Hv].
    + discriminate.
  - (* packed *)
    destruct Hcard as [s Hs]. rewrite Hs in *.
    destruct (list_of v) as [|x0 l0] eqn:Hl; [inversion Hops; apply good_nil|].
    assert (Hdom : Forall (fun z => in_dom s z = true) (nums_of (x0 :: l0))).
    { unfold field_value_ok in Hv. rewrite Hc in Hv.
      destruct v as [|z|b|l|kvs|fs u]; cbn [list_of] in Hl; try discriminate.
      subst l. apply (nums_in_dom (fkind_ f)); assumption. }
    unfold len_size in *.
    set (zs := nums_of (x0 :: l0)) in *.
    injection Hops as <-.
    assert (Hzs : exists z0 zr, zs = z0 :: zr) by (unfold zs; cbn [nums_of map]; eauto).
    destruct Hzs as (z0 & zr & Hzs).
    apply good_one.
    + cbn [gop_ok op_ok]. split; [exact Htag|split; [exact Hdom|lia]].
    + cbn [gop_size esize]. rewrite Hzs. rewrite <- Hzs. lia.
  - (* unpacked *)
    assert (Hall : forallb (elem_ok msg_ok (fkind_ f)) (list_of v) = true).
    { unfold field_value_ok in Hv. rewrite Hc in Hv.
      destruct v as [|z|b|l|kvs|fs u]; cbn [list_of]; try reflexivity; try discriminate. exact Hv. }
    rewrite forallb_forall in Hall.
    apply (concat_good (elem_ops size_msg ops_msg (fnum f) (fkind_ f)) (elem_size size_msg (fnum f) (fkind_ f)));
      try assumption.
    intros x ops' Hin Hlx Hox. apply elem_good; try assumption. apply Hall. exact Hin.
  - inversion Hops. apply good_nil.
  - (* map *)
    destruct Hcard as [Hkk Hvk].
    assert (Hall : forallb (fun '(k, x) => elem_ok msg_ok kk k && elem_ok msg_ok vk x) (map_of v) = true).
    { unfold field_value_ok in Hv. rewrite Hc in Hv.
      destruct v as [|z|b|l|kvs|fs u]; cbn [map_of]; try reflexivity; try discriminate.
      apply andb_true_iff in Hv. apply Hv. }
    rewrite forallb_forall in Hall.
    eapply (concat_good _ (fun '(k, x) =>
               (size_key (fnum f) + len_size (elem_size size_msg 1 kk k + elem_size size_msg 2 vk x))%nat));
      [|exact Hle|exact Hops].
    intros [k x] ops' Hin Hlx Hox. cbv beta iota in Hlx, Hox |- *. unfold len_size in *.
    specialize (Hall _ Hin). cbv beta iota in Hall. apply andb_true_iff in Hall. destruct Hall as [Hk Hx].
    apply obind_Ok_inv in Hox. destruct Hox as (ko & Hko & Hox).
    apply obind_Ok_inv in Hox. destruct Hox as (vo & Hvo & Hox). inversion Hox; subst ops'.
    set (s1 := elem_size size_msg 1 kk k) in *. set (s2 := elem_size size_msg 2 vk x) in *.
    assert (Hg1 : good ko s1) by (apply elem_good; [apply tag_ok_1|exact Hk|fold s1; lia|exact Hko]).
    assert (Hg2 : good vo s2) by (apply elem_good; [apply tag_ok_2|exact Hx|fold s2; lia|exact Hvo]).
    change (GOp (EMapHeader (fnum f) (N.of_nat (s1 + s2))) :: ko ++ vo)
      with ([GOp (EMapHeader (fnum f) (N.of_nat (s1 + s2)))] ++ ko ++ vo).
    eapply good_eq.
    + apply good_app; [|apply good_app; [exact Hg1|exact Hg2]].
      apply good_one; [|reflexivity]. cbn [gop_ok op_ok]. split; [exact Htag|lia].
    + cbn [gop_size esize]. lia.
Qed.

Lemma group_good sc md fs g ops :
  mdesc_ok sc md = true -> msg_value_ok msg_ok md fs = true ->
  (group_size size_msg md fs g <= M)%nat ->
  group_ops size_msg ops_msg md fs g = Ok ops -> good ops (group_size size_msg md fs g).
Proof.
  intros Hmd Hv Hle Hops. unfold group_size, group_ops in *.
  destruct (group_member md fs g) as [[f v]|] eqn:Hg; [|inversion Hops; apply good_nil].
  apply group_member_inv in Hg. destruct Hg as (Hin & Hgrp & Hlk & Hne).
  apply elem_good; try assumption.
  - eapply mdesc_tag_ok; eassumption.
  - pose proof (field_lookup_ok sc msg_ok md fs f Hmd Hv Hin) as Hfv. rewrite <- Hlk in Hfv.
    apply in_group_card in Hgrp.
    unfold field_value_ok in Hfv. rewrite Hgrp in Hfv.
    destruct v as [|z|b|l|kvs|fs' u]; try exact Hfv. congruence.
Qed.

Lemma msg_good sc md fs u ops :
  mdesc_ok sc md = true -> msg_value_ok msg_ok md fs = true ->
  (msg_size_with size_msg md fs u <= M)%nat ->
  msg_ops_with size_msg ops_msg md fs u = Ok ops -> good ops (msg_size_with size_msg md fs u).
Proof.
  intros Hmd Hv Hle Hops. unfold msg_size_with, msg_ops_with in *.
  apply obind_Ok_inv in Hops. destruct Hops as (a & Ha & Hops).
  apply obind_Ok_inv in Hops. destruct Hops as (b & Hb & Hops). inversion Hops; subst ops.
  set (sa := sum_map (fun f => field_size size_msg f (lookup_field (fnum f) fs)) (mfields md)) in *.
  set (sb := sum_map (group_size size_msg md fs) (oneof_groups md)) in *.
  assert (Hga : good a sa).
  { apply (concat_good (fun f => field_ops size_msg ops_msg f (lookup_field (fnum f) fs))
                       (fun f => field_size size_msg f (lookup_field (fnum f) fs))); [|fold sa; lia|exact Ha].
    intros f ops' Hin Hlf Hof. cbv beta in *.
    eapply field_good; try eassumption.
    - eapply mdesc_field_ok; eassumption.
    - eapply field_lookup_ok; eassumption. }
  assert (Hgb : good b sb).
  { apply (concat_good (group_ops size_msg ops_msg md fs) (group_size size_msg md fs)); [|fold sb; lia|exact Hb].
    intros g ops' Hin Hlg Hog. eapply group_good; eassumption. }
  rewrite <- Nat.add_assoc. apply good_app; [exact Hga|]. apply good_app; [exact Hgb|].
  apply good_one; [exact I|reflexivity].
Qed.

End Clauses.

(* ---------- the empty shortcut: size 0 means nothing is emitted ---------- *)
Section Zero.
Variable size_msg : nat -> gval -> nat.
Variable ops_msg : nat -> gval -> outcome (list gop).

Lemma elem_size_pos tag k v : tag_ok tag -> (1 <= elem_size size_msg tag k v)%nat.
Proof.
  intros Htag. pose proof (size_key_pos tag 2 Htag ltac:(lia)) as Hk.
  destruct k as [s| | | |ty]; destruct v as [|z|b|l|kvs|fs u]; cbn [elem_size is_num_kind]; lia.
Qed.

Lemma sum_map_zero {A} (fz : A -> nat) l : sum_map fz l = 0%nat -> forall x, In x l -> fz x = 0%nat.
Proof. intros H x Hin. pose proof (sum_map_In_le fz l x Hin). lia. Qed.

Lemma concat_all_nil {A} (fo : A -> outcome (list gop)) l :
  (forall x, In x l -> fo x = Ok []) -> concat_ops fo l = Ok [].
Proof.
  induction l as [|x l IHl]; intros H; [reflexivity|].
  cbn [concat_ops]. rewrite (H x) by (left; reflexivity). cbn [obind].
  rewrite IHl by (intros y Hy; apply H; right; exact Hy). reflexivity.
Qed.

Lemma field_zero f v : tag_ok (fnum f) -> fcard_ f <> CRequired ->
  field_size size_msg f v = 0%nat -> field_ops size_msg ops_msg f v = Ok [].
Proof.
  intros Htag Hnr. unfold field_size, field_ops.
  pose proof (fun k x => elem_size_pos (fnum f) k x Htag) as Hpos.
  destruct (fcard_ f) as [| | | | |g|kk vk]; try congruence.
  - destruct (present f v); [|reflexivity]. intros H. specialize (Hpos (fkind_ f) v). lia.
  - destruct (present f v); [|reflexivity]. intros H. specialize (Hpos (fkind_ f) v). lia.
  - destruct (is_num_kind (fkind_ f)) as [s|]; [|reflexivity].
    destruct (list_of v) as [|x0 l0]; [reflexivity|].
    pose proof (size_key_pos (fnum f) 2 Htag ltac:(lia)). intros H0. lia.
  - destruct (list_of v) as [|x0 l0]; [reflexivity|]. cbn [sum_map]. intros H.
    specialize (Hpos (fkind_ f) x0). lia.
  - destruct (map_of v) as [|[k0 x0] l0]; [reflexivity|]. cbn [sum_map]. intros H.
    pose proof (size_key_pos (fnum f) 2 Htag ltac:(lia)). lia.
Qed.

Lemma group_zero sc md fs g : mdesc_ok sc md = true ->
  group_size size_msg md fs g = 0%nat -> group_ops size_msg ops_msg md fs g = Ok [].
Proof.
  intros Hmd. unfold group_size, group_ops.
  destruct (group_member md fs g) as [[f v]|] eqn:Hg; [|reflexivity].
  apply group_member_inv in Hg. destruct Hg as (Hin & _).
  pose proof (elem_size_pos (fnum f) (fkind_ f) v (mdesc_tag_ok _ _ _ Hmd Hin)). lia.
Qed.

Lemma msg_zero sc md fs u : mdesc_ok sc md = true -> has_required md = false ->
  msg_size_with size_msg md fs u = 0%nat -> msg_ops_with size_msg ops_msg md fs u = Ok [GOp (ERaw [])].
Proof.
  intros Hmd Hreq. unfold msg_size_with, msg_ops_with. intros H0.
  assert (Hu : u = []) by (apply length_zero_iff_nil; lia).
  rewrite concat_all_nil.
  - cbn [obind]. rewrite concat_all_nil; [subst u; reflexivity|].
    intros g Hin. eapply group_zero; [exact Hmd|].
    apply (sum_map_zero (group_size size_msg md fs) (oneof_groups md)); [lia|exact Hin].
  - intros f Hin. apply field_zero.
    + eapply mdesc_tag_ok; eassumption.
    + intros Hc. unfold has_required in Hreq.
      assert (Ht : existsb (fun f => match fcard_ f with CRequired => true | _ => false end) (mfields md) = true).
      { apply existsb_exists. exists f. split; [exact Hin|rewrite Hc; reflexivity]. }
      congruence.
    + apply (sum_map_zero (fun f => field_size size_msg f (lookup_field (fnum f) fs)) (mfields md)); [lia|exact Hin].
Qed.
End Zero.

(* ---------- the knot ---------- *)
Lemma gen_good sc M : N.of_nat M < 2^63 -> schema_ok sc = true ->
  forall fuel ty v ops, value_ok sc fuel ty v = true -> (gen_size sc fuel ty v <= M)%nat ->
  gen_ops sc fuel ty v = Ok ops -> good ops (gen_size sc fuel ty v).
Proof.
  intros HM Hsc. induction fuel as [|f IHf]; intros ty v ops Hv Hle Hops.
  - cbn in Hv. discriminate.
  - apply value_ok_inv in Hv. destruct Hv as (f' & fs & u & Hf' & -> & Hmv). inversion Hf'; subst f'.
    rewrite gen_size_S in *. rewrite gen_ops_S in Hops.
    assert (IH' : forall ty' v' ops', value_ok sc f ty' v' = true -> (gen_size sc f ty' v' <= M)%nat ->
              gen_ops sc f ty' v' = Ok ops' -> good ops' (gen_size sc f ty' v')).
    { intros ty' v' ops' Hok' Hle' Hops'. apply IHf; assumption. }
    apply (msg_good (gen_size sc f) (gen_ops sc f) (value_ok sc f) M HM IH' sc); try assumption.
    apply schema_nth_ok. exact Hsc.
Qed.

(* REUSABLE: the program MarshalTo runs is well-formed and exactly Size() long *)
Lemma gen_ops_ok : forall sc fuel ty v ops,
  schema_ok sc = true -> value_ok sc fuel ty v = true ->
  N.of_nat (gen_size sc fuel ty v) < 2^63 -> gen_ops sc fuel ty v = Ok ops ->
  Forall gop_ok ops /\ gops_size ops = gen_size sc fuel ty v.
Proof.
  intros sc fuel ty v ops Hsc Hv Hlt Hops.
  apply (gen_good sc (gen_size sc fuel ty v) Hlt Hsc fuel ty v ops Hv (Nat.le_refl _) Hops).
Qed.

Lemma gen_ops_zero sc f ty fs u : schema_ok sc = true ->
  has_required (nth ty sc empty_md) = false -> gen_size sc (S f) ty (GMsg fs u) = 0%nat ->
  gen_ops sc (S f) ty (GMsg fs u) = Ok [GOp (ERaw [])].
Proof.
  intros Hsc Hreq H0. rewrite gen_size_S in H0. rewrite gen_ops_S.
  eapply msg_zero; try eassumption. apply schema_nth_ok. exact Hsc.
Qed.
