(* C09: the size cache.  Generated Size() returns the value stored in the message's sizeCache /
   XXX_sizecache field when it is positive and stores what it computes (gogo: the size itself; protobuf-go:
   size+1, the runtime's own convention, so that a size of 0 is cached too -- [bias]); Marshal() sizes its buffer and
   the length prefixes of nested messages from Size().  Field assignments do not touch the cache.
   The model: a message value plus the cached sizes of the root and of every message reachable through
   SINGULAR message fields (addressed by the path of field numbers).  Messages inside lists and maps are
   only ever replaced wholesale by the histories considered, so their caches are either unset or valid and
   are not tracked.  Definitions only. *)
From CsProto Require Import Prelude Varint ZigZag Codec RefWire WireStmts Schema GenMarshal RefMsg.
Local Open Scope N_scope.

Definition path := list N.
Definition caches := list (path * Z).
Definition path_eqb (a b : path) : bool := (length a =? length b)%nat && forallb (fun '(x, y) => x =? y) (combine a b).
Fixpoint cache_at (p : path) (c : caches) : Z :=
  match c with [] => 0%Z | (q, z) :: r => if path_eqb p q then z else cache_at p r end.
Definition cache_set (p : path) (z : Z) (c : caches) : caches := (p, z) :: filter (fun '(q, _) => negb (path_eqb p q)) c.
Definition is_prefix (a b : path) : bool := (length a <=? length b)%nat && path_eqb a (firstn (length a) b).
(* drop what is cached for the sub-tree rooted at p (that sub-tree is replaced by fresh objects) *)
Definition cache_drop_at (p : path) (c : caches) : caches :=
  filter (fun '(q, _) => negb (is_prefix p q)) c.

Definition singular_msg (fd : fdesc) : bool :=
  match fcard_ fd, fkind_ fd with
  | (CImplicit | COptional | CRequired | COneof _), FMsg _ => true
  | _, _ => false
  end.

Section WithCaches.
Variable sc : schema.
Variable bias : Z.       (* what the owning runtime adds to a size before storing it: 0 (gogo) or 1 (protobuf-go) *)

(* Size() of the message of type ty at path p, as the generated code computes it with the caches c *)
Fixpoint csize (fuel : nat) (c : caches) (p : path) (ty : nat) (v : gval) : nat :=
  match fuel, v with
  | S f, GMsg fs u =>
      if (0 <? cache_at p c)%Z then Z.to_nat (cache_at p c - bias) else
      let md := nth ty sc empty_md in
      let size_for (fd : fdesc) : nat -> gval -> nat :=
        if singular_msg fd then csize f c (p ++ [fnum fd]) else gen_size sc f in
      (sum_map (fun fd => field_size (size_for fd) fd (lookup_field (fnum fd) fs)) (mfields md)
       + sum_map (fun g => match group_member md fs g with
                           | Some (fd, x) => elem_size (size_for fd) (fnum fd) (fkind_ fd) x
                           | None => O end) (oneof_groups md)
       + length u)%nat
  | _, _ => O
  end.

(* the stores a Size() call makes: the computed size at every node it visits without a positive cache *)
Fixpoint cstore (fuel : nat) (c : caches) (p : path) (ty : nat) (v : gval) : caches :=
  match fuel, v with
  | S f, GMsg fs u =>
      if (0 <? cache_at p c)%Z then c else
      let md := nth ty sc empty_md in
      let c1 := fold_left (fun acc fd =>
                  if singular_msg fd then
                    match fkind_ fd, lookup_field (fnum fd) fs with
                    | FMsg t, (GMsg _ _ as x) => cstore f acc (p ++ [fnum fd]) t x
                    | _, _ => acc
                    end
                  else acc) (mfields md) c in
      cache_set p (Z.of_nat (csize (S f) c1 p ty v) + bias)%Z c1
  | _, _ => c
  end.

(* the program MarshalTo executes, nested length prefixes taken from Size() of the nested message *)
Fixpoint cops (fuel : nat) (c : caches) (p : path) (ty : nat) (v : gval) : outcome (list gop) :=
  match fuel, v with
  | S f, GMsg fs u =>
      let md := nth ty sc empty_md in
      let size_for (fd : fdesc) : nat -> gval -> nat :=
        if singular_msg fd then csize f c (p ++ [fnum fd]) else gen_size sc f in
      let ops_for (fd : fdesc) : nat -> gval -> outcome (list gop) :=
        if singular_msg fd then cops f c (p ++ [fnum fd]) else gen_ops sc f in
      let* a := concat_ops (fun fd => field_ops (size_for fd) (ops_for fd) fd (lookup_field (fnum fd) fs)) (mfields md) in
      let* b := concat_ops (fun g => match group_member md fs g with
                                     | Some (fd, x) => elem_ops (size_for fd) (ops_for fd) (fnum fd) (fkind_ fd) x
                                     | None => Ok [] end) (oneof_groups md) in
      Ok (a ++ b ++ [GOp (ERaw u)])
  | _, _ => Ok []
  end.
End WithCaches.

(* ---------- histories ---------- *)
Inductive hop :=
| HSet (p : path) (num : N) (v : gval)     (* assign field num of the message at path p (v: fresh value, GAbsent = clear) *)
| HSize
| HMarshal
| HMarshalTo
| HRtSize                                   (* the owning runtime's own Size/Marshal: protobuf-go stores ITS sizes in the cache *)
| HUnmarshal (b : list byte)
| HReset
| HClone.

Record hstate := { hroot : gval; hcache : caches; hty : nat }.

(* the message at path p and its type *)
Fixpoint msg_at (sc : schema) (ty : nat) (v : gval) (p : path) : option (nat * gval) :=
  match p with
  | [] => match v with GMsg _ _ => Some (ty, v) | _ => None end
  | n :: r =>
      match v with
      | GMsg fs _ =>
          match find_field (nth ty sc empty_md) n with
          | Some fd => if singular_msg fd then match fkind_ fd with FMsg t => msg_at sc t (lookup_field n fs) r | _ => None end else None
          | None => None
          end
      | _ => None
      end
  end.
Fixpoint set_at (sc : schema) (ty : nat) (v : gval) (p : path) (num : N) (x : gval) : gval :=
  match v with
  | GMsg fs u =>
      match p with
      | [] =>
          (* assigning a oneof member replaces whatever member the oneof held; clearing a member that is not
             the one held leaves the oneof alone *)
          let fs0 := match find_field (nth ty sc empty_md) num with
                     | Some fd => match fcard_ fd with COneof g => clear_group (nth ty sc empty_md) g num fs | _ => fs end
                     | None => fs end in
          GMsg (match x with GAbsent => clear_field num fs | _ => set_field num x fs0 end) u
      | n :: r =>
          match find_field (nth ty sc empty_md) n, lookup_field n fs with
          | Some fd, (GMsg _ _ as sub) =>
              match fkind_ fd with FMsg t => GMsg (set_field n (set_at sc t sub r num x) fs) u | _ => v end
          | _, _ => v
          end
      end
  | _ => v
  end.

Inductive hobs := BOk | BNoPath | BSize (n : nat) | BBytes (b : list byte) | BErr | BPanic.


Definition bias_of (google : bool) : Z := if google then 1%Z else 0%Z.

Definition hstep (sc : schema) (google : bool) (s : hstate) (op : hop) : hobs * hstate :=
  let fuel := S (vdepth (hroot s)) in
  let csize := csize sc (bias_of google) in
  let cstore := cstore sc (bias_of google) in
  let cops := cops sc (bias_of google) in
  match op with
  | HSet p num x =>
      match msg_at sc (hty s) (hroot s) p with
      | None => (BNoPath, s)
      | Some _ => (BOk, {| hroot := set_at sc (hty s) (hroot s) p num x; hcache := cache_drop_at (p ++ [num]) (hcache s); hty := hty s |})
      end
  | HSize =>
      (BSize (csize fuel (hcache s) [] (hty s) (hroot s)),
       {| hroot := hroot s; hcache := cstore fuel (hcache s) [] (hty s) (hroot s); hty := hty s |})
  | HMarshal =>
      let c1 := cstore fuel (hcache s) [] (hty s) (hroot s) in
      let n := csize fuel c1 [] (hty s) (hroot s) in
      let s1 := {| hroot := hroot s; hcache := c1; hty := hty s |} in
      if negb (has_required (nth (hty s) sc empty_md)) && (n =? 0)%nat then (BBytes [], s1) else
      match cops fuel c1 [] (hty s) (hroot s) with
      | Err => (BErr, s1) | Panic => (BPanic, s1)
      | Ok ops => match grun {| ebuf := zeros n; eoff := 0 |} ops with
                  | Ok e => (BBytes (ebuf e), s1) | Err => (BErr, s1) | Panic => (BPanic, s1) end
      end
  | HMarshalTo =>
      (* MarshalTo(make([]byte, Size())): same as Marshal without the empty shortcut *)
      let c1 := cstore fuel (hcache s) [] (hty s) (hroot s) in
      let n := csize fuel c1 [] (hty s) (hroot s) in
      let s1 := {| hroot := hroot s; hcache := c1; hty := hty s |} in
      match cops fuel c1 [] (hty s) (hroot s) with
      | Err => (BErr, s1) | Panic => (BPanic, s1)
      | Ok ops => match grun {| ebuf := zeros n; eoff := 0 |} ops with
                  | Ok e => (BBytes (ebuf e), s1) | Err => (BErr, s1) | Panic => (BPanic, s1) end
      end
  | HRtSize =>
      if google then
        (* protobuf-go computes from the fields and overwrites every cache it passes with the true size *)
        (BSize (gen_size sc fuel (hty s) (hroot s)),
         {| hroot := hroot s; hcache := cstore fuel [] [] (hty s) (hroot s); hty := hty s |})
      else
        (* gogo delegates to the generated Size() *)
        (BSize (csize fuel (hcache s) [] (hty s) (hroot s)),
         {| hroot := hroot s; hcache := cstore fuel (hcache s) [] (hty s) (hroot s); hty := hty s |})
  | HUnmarshal b =>
      match ref_decode sc (S (length b)) (hty s) b with
      | Some v => (BOk, {| hroot := v; hcache := []; hty := hty s |})
      | None => (BErr, {| hroot := GMsg [] []; hcache := []; hty := hty s |})
      end
  | HReset => (BOk, {| hroot := GMsg [] []; hcache := []; hty := hty s |})
  | HClone => (BOk, {| hroot := hroot s; hcache := []; hty := hty s |})
  end.
Fixpoint hrun (sc : schema) (google : bool) (s : hstate) (ops : list hop) : list hobs * hstate :=
  match ops with
  | [] => ([], s)
  | op :: r => let '(o, s1) := hstep sc google s op in let '(os, s2) := hrun sc google s1 r in (o :: os, s2)
  end.

(* ---------- the specification: no caches, every operation acts on the current contents ---------- *)
Definition obs_of_mres (r : mres) : hobs := match r with MBytes b => BBytes b | MErr => BErr | MPanic => BPanic end.
Definition spec_step (sc : schema) (ty : nat) (v : gval) (op : hop) : hobs * gval :=
  let fuel := S (vdepth v) in
  match op with
  | HSet p num x => match msg_at sc ty v p with None => (BNoPath, v) | Some _ => (BOk, set_at sc ty v p num x) end
  | HSize | HRtSize => (BSize (gen_size sc fuel ty v), v)
  | HMarshal => (obs_of_mres (gen_marshal sc ty v), v)
  | HMarshalTo =>
      (match gen_marshal_to sc ty v (zeros (gen_size sc fuel ty v)) with
       | Ok e => BBytes (ebuf e) | Err => BErr | Panic => BPanic end, v)
  | HUnmarshal b =>
      match ref_decode sc (S (length b)) ty b with
      | Some v' => (BOk, v')
      | None => (BErr, GMsg [] [])
      end
  | HReset => (BOk, GMsg [] [])
  | HClone => (BOk, v)
  end.
Fixpoint spec_run (sc : schema) (ty : nat) (v : gval) (ops : list hop) : list hobs :=
  match ops with
  | [] => []
  | op :: r => let '(o, v1) := spec_step sc ty v op in o :: spec_run sc ty v1 r
  end.
(* a failed Unmarshal leaves the destination partly filled; histories go on only after a Reset then (the
   model's "empty message" for that state is a placeholder the theorems do not rely on) *)
Fixpoint unmarshals_ok (sc : schema) (ty : nat) (ops : list hop) : bool :=
  match ops with
  | [] => true
  | HUnmarshal b :: r =>
      match ref_decode sc (S (length b)) ty b with
      | Some _ => unmarshals_ok sc ty r
      | None => match r with [] => true | HReset :: r' => unmarshals_ok sc ty r' | _ => false end
      end
  | _ :: r => unmarshals_ok sc ty r
  end.

(* every positive cache entry of a path that leads to a message is that message's true size (+ bias).
   (Entries of paths that no longer lead anywhere -- a oneof member displaced by a sibling -- are garbage
   the program cannot reach; they are dropped when the path is populated again.) *)
Definition caches_valid (sc : schema) (google : bool) (s : hstate) : Prop :=
  forall p ty v, (0 < cache_at p (hcache s))%Z ->
    msg_at sc (hty s) (hroot s) p = Some (ty, v) ->
    cache_at p (hcache s) = (Z.of_nat (gen_size sc (S (vdepth v)) ty v) + bias_of google)%Z.
(* a mutation is harmless when nothing is cached for the message it changes nor for any message containing it *)
Definition mutation_fresh (s : hstate) (op : hop) : bool :=
  match op with
  | HSet p _ _ => forallb (fun k => (cache_at (firstn k p) (hcache s) <=? 0)%Z) (seq 0 (S (length p)))
  | _ => true
  end.
Fixpoint history_fresh (sc : schema) (google : bool) (s : hstate) (ops : list hop) : bool :=
  match ops with
  | [] => true
  | op :: r => mutation_fresh s op && history_fresh sc google (snd (hstep sc google s op)) r
  end.
Definition hinit (ty : nat) : hstate := {| hroot := GMsg [] []; hcache := []; hty := ty |}.

(* ---------- concurrent readers of one cache cell (nobody writes the fields) ----------
   Each Size() call is an atomic load, then -- when the load found nothing -- a computation from the
   (unchanging) fields and an atomic store of the result.  A schedule interleaves those steps of any
   number of calls. *)
Inductive sstep := SLoad (g : nat) | SStore (g : nat).
Record sstate := { scache : Z; spending : list nat; sresults : list (nat * Z) }.
Definition rstep (bias truesize : Z) (s : sstate) (st : sstep) : sstate :=
  match st with
  | SLoad g =>
      if (0 <? scache s)%Z then {| scache := scache s; spending := spending s; sresults := (g, (scache s - bias)%Z) :: sresults s |}
      else {| scache := scache s; spending := g :: spending s; sresults := sresults s |}
  | SStore g =>
      if existsb (Nat.eqb g) (spending s)
      then {| scache := (truesize + bias)%Z; spending := filter (fun x => negb (Nat.eqb g x)) (spending s); sresults := (g, truesize) :: sresults s |}
      else s
  end.
Definition rrun (bias truesize : Z) (init : Z) (sched : list sstep) : sstate :=
  fold_left (rstep bias truesize) sched {| scache := init; spending := []; sresults := [] |}.
