(* The second exclusion of C08's "both accept => agree" clause, as a computable predicate on byte strings:
   no varint the reference parse reads overflows 64 bits.  csproto's DecodeVarint accepts a ten-byte
   varint whose tenth byte exceeds 1 and silently drops the bits above 2^64 (decoder.go, the "10-byte
   values" loop); the reference reader of Wire/RefWire.v keeps the unbounded value, a conforming parser
   (protowire) rejects.  Judged on the raw reference parse, like [no_dup_raw]: every key is below 2^64,
   every varint value is below 2^64, every length-delimited payload is shorter than 2^64 bytes, every
   element of a packed run of a varint kind is below 2^64 -- at every depth, map entries included.
   Definitions only. *)
From CsProto Require Import Prelude Varint ZigZag Codec RefWire WireStmts Schema GenMarshal RefMsg GenStmts GenLegal.
Local Open Scope N_scope.

(* one field: key = 8 * num + wt < 2^64, varint value / payload length < 2^64 *)
Definition rfield_fits (f : rfield) : bool :=
  (rnum f <? 2^61) &&
  match f with
  | RVarint _ v => v <? 2^64
  | RLen _ b => N.of_nat (length b) <? 2^64
  | _ => true
  end.

(* a packed run of varints *)
Fixpoint packed_fits (fuel : nat) (p : list byte) : bool :=
  match p with
  | [] => true
  | _ =>
    match fuel with
    | O => false
    | S f =>
      match ref_varint_val p, ref_varint_len p with
      | Some v, Some n => (v <? 2^64) && packed_fits f (skipn n p)
      | _, _ => false
      end
    end
  end.

Fixpoint varints_fit (sc : schema) (fuel : nat) (ty : nat) (p : list byte) : bool :=
  match fuel with
  | O => false
  | S f =>
    let md := nth ty sc empty_md in
    let sub (k : fkind) (b : list byte) := match k with FMsg t => varints_fit sc f t b | _ => true end in
    match raw_fields p with
    | None => false
    | Some flds =>
        forallb (fun fl =>
          rfield_fits fl &&
          match find_field md (rnum fl), fl with
          | Some fd, RLen _ b =>
              match fcard_ fd with
              | CMap kk vk =>
                  match raw_fields b with
                  | Some efs =>
                      forallb (fun e => rfield_fits e &&
                                 match e with RLen n vb => if n =? 2 then sub vk vb else true | _ => true end) efs
                  | None => false
                  end
              | CPacked | CUnpacked =>
                  match is_num_kind (fkind_ fd) with
                  | Some s => if wt_of s =? 0 then packed_fits (S (length b)) b else true
                  | None => sub (fkind_ fd) b
                  end
              | _ => sub (fkind_ fd) b
              end
          | _, _ => true
          end) flds
    end
  end.
