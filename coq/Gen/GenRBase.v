(* Plumbing for the reference round trip (C05): field-list states, schema lookups, depths, programs. *)
From CsProto Require Import Prelude Varint VarintSize ZigZag Codec RefWire WireStmts CodecBase EncProofs DecProofs
  Schema GenMarshal RefMsg GenStmts.
Local Open Scope N_scope.

(* ---------- lookup_field / set_field ---------- *)
Lemma lookup_set_same n v st : lookup_field n (set_field n v st) = v.
Proof.
  induction st as [|[k x] r IH]; cbn [set_field lookup_field].
  - rewrite N.eqb_refl. reflexivity.
  - destruct (k =? n) eqn:E; cbn [lookup_field]; rewrite E; [reflexivity|exact IH].
Qed.

Lemma lookup_set_other n m v st : m <> n -> lookup_field m (set_field n v st) = lookup_field m st.
Proof.
  intros Hm. induction st as [|[k x] r IH]; cbn [set_field lookup_field].
  - destruct (N.eqb_spec n m); [congruence|reflexivity].
  - destruct (N.eqb_spec k n) as [E|E]; cbn [lookup_field].
    + subst k. destruct (N.eqb_spec n m); [congruence|reflexivity].
    + rewrite IH. reflexivity.
Qed.

Lemma keys_set n v st k : In k (map fst (set_field n v st)) -> k = n \/ In k (map fst st).
Proof.
  induction st as [|[k0 x] r IH]; cbn [set_field map fst In].
  - intros [H|[]]; left; congruence.
  - destruct (N.eqb_spec k0 n) as [E|E]; cbn [map fst In].
    + intros [H|H]; [left; congruence|right; right; exact H].
    + intros [H|H]; [right; left; exact H|]. destruct (IH H) as [H1|H1]; [left; exact H1|right; right; exact H1].
Qed.

Lemma lookup_notin n st : ~ In n (map fst st) -> lookup_field n st = GAbsent.
Proof.
  induction st as [|[k x] r IH]; cbn [map fst In lookup_field]; intros H; [reflexivity|].
  destruct (N.eqb_spec k n) as [E|E]; [exfalso; apply H; left; exact E|].
  apply IH. intros H1. apply H. right. exact H1.
Qed.

Lemma lookup_in n fs : lookup_field n fs = GAbsent \/ In (n, lookup_field n fs) fs.
Proof.
  induction fs as [|[k x] r IH]; cbn [lookup_field In]; [left; reflexivity|].
  destruct (N.eqb_spec k n) as [E|E].
  - right. left. subst k. reflexivity.
  - destruct IH as [H|H]; [left; exact H|right; right; exact H].
Qed.

(* ---------- schemas ---------- *)
Lemma existsb_eqb_false x r : existsb (N.eqb x) r = false -> ~ In x r.
Proof.
  intros H Hin. assert (E : existsb (N.eqb x) r = true).
  { apply existsb_exists. exists x. split; [exact Hin|apply N.eqb_refl]. }
  congruence.
Qed.

Lemma nodupb_NoDup l : nodupb l = true -> NoDup l.
Proof.
  induction l as [|x r IH]; cbn [nodupb]; intros H; [constructor|].
  apply andb_prop in H. destruct H as [H1 H2]. constructor.
  - apply existsb_eqb_false. destruct (existsb (N.eqb x) r); [discriminate H1|reflexivity].
  - apply IH. exact H2.
Qed.

Lemma find_fnum_in (l : list fdesc) fd : NoDup (map fnum l) -> In fd l ->
  find (fun f => fnum f =? fnum fd) l = Some fd.
Proof.
  induction l as [|a r IH]; cbn [map In find]; intros Hnd Hin; [destruct Hin|].
  inversion Hnd as [|? ? Hna Hnr]; subst.
  destruct Hin as [Hin|Hin].
  - subst a. rewrite N.eqb_refl. reflexivity.
  - destruct (N.eqb_spec (fnum a) (fnum fd)) as [E|E].
    + exfalso. apply Hna. rewrite E. apply in_map. exact Hin.
    + apply IH; assumption.
Qed.

Lemma find_field_in md fd : NoDup (map fnum (mfields md)) -> In fd (mfields md) ->
  find_field md (fnum fd) = Some fd.
Proof. apply find_fnum_in. Qed.

Lemma find_field_some md n f : find_field md n = Some f -> In f (mfields md) /\ fnum f = n.
Proof.
  unfold find_field. intros H. apply find_some in H. destruct H as [H1 H2].
  split; [exact H1|]. apply N.eqb_eq. exact H2.
Qed.

Lemma mdesc_ok_nth sc ty : schema_ok sc = true -> mdesc_ok sc (nth ty sc empty_md) = true.
Proof.
  intros H. destruct (Nat.lt_ge_cases ty (length sc)) as [Hlt|Hge].
  - unfold schema_ok in H. rewrite forallb_forall in H. apply H. apply nth_In. exact Hlt.
  - rewrite nth_overflow by exact Hge. reflexivity.
Qed.

Lemma clear_group_id md g n st :
  (forall k f0, In k (map fst st) -> find_field md k = Some f0 -> in_group g f0 = false \/ k = n) ->
  clear_group md g n st = st.
Proof.
  unfold clear_group. induction st as [|[k x] r IH]; cbn [filter map fst In]; intros H; [reflexivity|].
  assert (E : match find_field md k with Some f => negb (in_group g f) || (k =? n) | None => true end = true).
  { destruct (find_field md k) as [f0|] eqn:Ef; [|reflexivity].
    destruct (H k f0 (or_introl eq_refl) Ef) as [H1|H1].
    - rewrite H1. reflexivity.
    - subst k. rewrite N.eqb_refl. apply orb_true_r. }
  rewrite E. f_equal. apply IH. intros k0 f0 Hin Hf. apply (H k0 f0); [right; exact Hin|exact Hf].
Qed.

(* ---------- depths ---------- *)
Fixpoint dmax_l (l : list gval) : nat := match l with [] => O | x :: r => Nat.max (vdepth x) (dmax_l r) end.
Fixpoint dmax_m (l : list (gval * gval)) : nat :=
  match l with [] => O | (k, x) :: r => Nat.max (Nat.max (vdepth k) (vdepth x)) (dmax_m r) end.
Fixpoint dmax_f (l : list (N * gval)) : nat := match l with [] => O | (_, x) :: r => Nat.max (vdepth x) (dmax_f r) end.

Lemma vdepth_GList l : vdepth (GList l) = S (dmax_l l).
Proof. reflexivity. Qed.
Lemma vdepth_GMap l : vdepth (GMap l) = S (dmax_m l).
Proof. reflexivity. Qed.
Lemma vdepth_GMsg l u : vdepth (GMsg l u) = S (dmax_f l).
Proof. reflexivity. Qed.

Lemma vdepth_list_in x l : In x l -> (vdepth x < vdepth (GList l))%nat.
Proof.
  rewrite vdepth_GList. induction l as [|a r IH]; cbn [In dmax_l]; intros H; [destruct H|].
  destruct H as [H|H]; [subst a; lia|]. specialize (IH H). lia.
Qed.
Lemma vdepth_map_in k x l : In (k, x) l -> (vdepth x < vdepth (GMap l))%nat.
Proof.
  rewrite vdepth_GMap. induction l as [|[k0 a] r IH]; cbn [In dmax_m]; intros H; [destruct H|].
  destruct H as [H|H]; [inversion H; subst; lia|]. specialize (IH H). lia.
Qed.
Lemma vdepth_lookup n fs u : (vdepth (lookup_field n fs) < vdepth (GMsg fs u))%nat.
Proof.
  rewrite vdepth_GMsg. induction fs as [|[k a] r IH]; cbn [lookup_field dmax_f]; [cbn [vdepth]; lia|].
  destruct (k =? n); lia.
Qed.

(* ---------- programs ---------- *)
Lemma gbytes_app a b : gbytes (a ++ b) = gbytes a ++ gbytes b.
Proof. unfold gbytes. rewrite map_app, concat_app. reflexivity. Qed.
Lemma gbytes_cons x r : gbytes (x :: r) = gop_bytes x ++ gbytes r.
Proof. reflexivity. Qed.
Lemma gbytes_nil : gbytes [] = [].
Proof. reflexivity. Qed.
Lemma gbytes_one x : gbytes [x] = gop_bytes x.
Proof. unfold gbytes. cbn [map concat]. apply app_nil_r. Qed.
Lemma gop_bytes_nest tag sz body :
  gop_bytes (GNest tag sz body) = enc_key tag 2 ++ enc_varint (N.of_nat sz) ++ gbytes body.
Proof.
  cbn [gop_bytes]. do 2 f_equal. unfold gbytes.
  induction body as [|x r IH]; [reflexivity|]. cbn [map concat]. rewrite <- IH. reflexivity.
Qed.

Lemma concat_ops_inv {A} (f : A -> outcome (list gop)) l ops : concat_ops f l = Ok ops ->
  exists os, Forall2 (fun x o => f x = Ok o) l os /\ ops = concat os.
Proof.
  revert ops. induction l as [|x r IH]; cbn [concat_ops]; intros ops H.
  - inversion H. exists []. split; [constructor|reflexivity].
  - destruct (f x) as [a| |] eqn:Ea; cbn [obind] in H; try discriminate H.
    destruct (concat_ops f r) as [b| |] eqn:Eb; cbn [obind] in H; try discriminate H.
    inversion H. destruct (IH b eq_refl) as (os & Hos & Hb). exists (a :: os). split.
    + constructor; assumption.
    + cbn [concat]. rewrite Hb. reflexivity.
Qed.

Lemma sum_map_in {A} (f : A -> nat) x l : In x l -> (f x <= sum_map f l)%nat.
Proof.
  induction l as [|a r IH]; cbn [In sum_map]; intros H; [destruct H|].
  destruct H as [H|H]; [subst a; lia|]. specialize (IH H). lia.
Qed.

(* ---------- reachable-message predicates ---------- *)
Definition field_sub (sub : fkind -> gval -> bool) (fd : fdesc) (x : gval) : bool :=
  match fcard_ fd, x with
  | _, GAbsent => true
  | (CPacked | CUnpacked), GList l => forallb (sub (fkind_ fd)) l
  | CMap _ vk, GMap kvs => forallb (fun '(_, y) => sub vk y) kvs
  | _, _ => sub (fkind_ fd) x
  end.
Definition sub_of (m : nat -> gval -> bool) (k : fkind) (x : gval) : bool :=
  match k with FMsg t => m t x | _ => true end.

Lemma all_msgs_S sc P f ty fs u :
  all_msgs sc P (S f) ty (GMsg fs u) =
  P (nth ty sc empty_md) fs u &&
  forallb (fun fd => field_sub (sub_of (all_msgs sc P f)) fd (lookup_field (fnum fd) fs)) (mfields (nth ty sc empty_md)).
Proof. reflexivity. Qed.

Lemma forallb_and {A} (p q r : A -> bool) l :
  (forall x, In x l -> p x = true -> q x = true -> r x = true) ->
  forallb p l = true -> forallb q l = true -> forallb r l = true.
Proof.
  intros H Hp Hq. rewrite forallb_forall in *. intros x Hx. apply H; auto.
Qed.

Lemma field_sub_and (s1 s2 s3 : fkind -> gval -> bool) fd x :
  (forall k y, s1 k y = true -> s2 k y = true -> s3 k y = true) ->
  field_sub s1 fd x = true -> field_sub s2 fd x = true -> field_sub s3 fd x = true.
Proof.
  intros H. unfold field_sub.
  destruct (fcard_ fd), x; try (intros; reflexivity); try (apply H);
    try (apply forallb_and; intros y _; apply H).
  all: apply forallb_and; intros [k y] _; apply H.
Qed.

Lemma all_msgs_and sc P1 P2 : forall n ty v,
  all_msgs sc P1 n ty v = true -> all_msgs sc P2 n ty v = true ->
  all_msgs sc (fun md fs u => P1 md fs u && P2 md fs u) n ty v = true.
Proof.
  induction n as [|f IH]; intros ty v H1 H2; [reflexivity|].
  destruct v; try reflexivity.
  rewrite all_msgs_S in *. apply andb_prop in H1, H2. destruct H1 as [H1a H1b], H2 as [H2a H2b].
  rewrite H1a, H2a. cbn [andb].
  revert H1b H2b. apply forallb_and. intros fd _. apply field_sub_and.
  intros k y. unfold sub_of. destruct k; try reflexivity. apply IH.
Qed.

(* ---------- canonical form, unfolded one level ---------- *)
Definition norm_elem (sc : schema) (f : nat) (k : fkind) (x : gval) : gval :=
  match k with FMsg t => normalize sc f t x | _ => x end.
Definition norm_one (sc : schema) (f : nat) (fd : fdesc) (x : gval) : list (N * gval) :=
  match fcard_ fd, x with
  | _, GAbsent => []
  | CImplicit, GNum z => if (z =? 0)%Z then [] else [(fnum fd, x)]
  | CImplicit, GBytes [] => []
  | (CPacked | CUnpacked), GList [] => []
  | (CPacked | CUnpacked), GList l => [(fnum fd, GList (map (norm_elem sc f (fkind_ fd)) l))]
  | CMap kk vk, GMap [] => []
  | CMap kk vk, GMap kvs => [(fnum fd, GMap (sort_entries (map (fun '(k, y) => (k, norm_elem sc f vk y)) kvs)))]
  | _, _ => [(fnum fd, norm_elem sc f (fkind_ fd) x)]
  end.
Lemma normalize_S sc f ty fs u :
  normalize sc (S f) ty (GMsg fs u) =
  GMsg (flat_map (fun fd => norm_one sc f fd (lookup_field (fnum fd) fs)) (mfields (nth ty sc empty_md))) u.
Proof. reflexivity. Qed.

(* a decoded message is a message, and is the original one in canonical form *)
Definition msg_rel (sc : schema) (t : nat) (x' x : gval) : Prop :=
  (exists fs u, x' = GMsg fs u) /\
  forall nf, (vdepth x < nf)%nat -> (vdepth x' < nf)%nat -> normalize sc nf t x' = normalize sc nf t x.
Definition elem_rel (sc : schema) (k : fkind) (x' x : gval) : Prop :=
  match k with FMsg t => msg_rel sc t x' x | _ => x' = x end.
Definition field_rel (sc : schema) (fd : fdesc) (y' y : gval) : Prop :=
  forall f, (vdepth y < f)%nat -> (vdepth y' < f)%nat -> norm_one sc f fd y' = norm_one sc f fd y.

Lemma elem_rel_norm sc k x' x f : elem_rel sc k x' x -> (vdepth x < f)%nat -> (vdepth x' < f)%nat ->
  norm_elem sc f k x' = norm_elem sc f k x.
Proof.
  unfold elem_rel, norm_elem. destruct k; try (intros H _ _; rewrite H; reflexivity).
  intros [_ H] H1 H2. apply H; assumption.
Qed.
