(* Schema-free and state-level helpers for the Unmarshal simulation (C06/C07/C17). *)
From CsProto Require Import Prelude Varint ZigZag Codec RefWire WireStmts CodecBase DecProofs.
From CsProto Require Import Schema GenMarshal RefMsg GenStmts GenUnmarshal GenLegal.
From CsProto Require Import GenRArith GenRWire GenRBase GenRFields GenPFuel GenUWire.
Local Open Scope N_scope.

(* ---------- canonical field sequences ---------- *)
Lemma canonical_fields_spec p flds : canonical_fields p = Some flds ->
  p = concat (map renc flds) /\ Forall (fun f => rfield_wfb f = true) flds /\
  forall fuel, (length p < fuel)%nat -> ref_parse_all fuel p = Some (map rawf flds).
Proof.
  unfold canonical_fields. intros H.
  destruct (ref_parse_all (S (length p)) p) as [l|] eqn:E; [|discriminate H].
  destruct (forallb _ l) eqn:Ef; [|discriminate H]. inversion H; subst flds; clear H.
  rewrite forallb_forall in Ef.
  assert (Hl : l = map rawf (map fst l)).
  { clear E. induction l as [|[f raw] r IH]; [reflexivity|]. cbn [map fst]. f_equal.
    - specialize (Ef (f, raw) (or_introl eq_refl)). cbv beta iota in Ef. apply andb_prop in Ef.
      destruct Ef as [_ Hb]. apply bytes_eqb_eq in Hb. subst raw. reflexivity.
    - apply IH. intros x Hx. apply Ef. right. exact Hx. }
  split; [|split].
  - pose proof (ref_parse_all_raw _ _ _ E) as Hr. rewrite Hl in Hr. rewrite <- Hr.
    rewrite !map_map. reflexivity.
  - apply Forall_forall. intros f Hf. apply in_map_iff in Hf. destruct Hf as ([f' raw] & Hfe & Hin).
    cbn [fst] in Hfe. subst f'. specialize (Ef _ Hin). cbv beta iota in Ef. apply andb_prop in Ef. tauto.
  - intros fuel Hfuel. rewrite <- Hl. eapply ref_parse_all_fuel; [exact E|exact Hfuel].
Qed.

Lemma renc_len_lt num b : (length b < length (renc (RLen num b)))%nat.
Proof.
  unfold renc, rpayload, rkey. rewrite !app_length.
  pose proof (ref_varint_pos' (8 * rnum (RLen num b) + rwt (RLen num b))).
  pose proof (ref_varint_pos' (N.of_nat (length b))). lia.
Qed.

Lemma fields_count flds : (length flds <= length (concat (map renc flds)))%nat.
Proof.
  induction flds as [|f r IH]; cbn [map concat length]; [lia|].
  rewrite app_length. pose proof (renc_pos f). lia.
Qed.

Lemma renc_in_len f flds : In f flds -> (length (renc f) <= length (concat (map renc flds)))%nat.
Proof.
  induction flds as [|a r IH]; intros H; [destruct H|]. cbn [map concat]. rewrite app_length.
  destruct H as [H|H]; [subst a; lia|]. specialize (IH H). lia.
Qed.

(* ---------- fuel irrelevance of the reachable-message predicates ---------- *)
Lemma forallb_ext_in {A} (f g : A -> bool) l : (forall x, In x l -> f x = g x) -> forallb f l = forallb g l.
Proof.
  induction l as [|a r IH]; intros H; [reflexivity|]. cbn [forallb].
  rewrite (H a (or_introl eq_refl)), IH; [reflexivity|]. intros x Hx. apply H. right. exact Hx.
Qed.
Lemma all_msgs_fuel sc P : forall f1 f2 ty v, (vdepth v < f1)%nat -> (vdepth v < f2)%nat ->
  all_msgs sc P f1 ty v = all_msgs sc P f2 ty v.
Proof.
  induction f1 as [|f1 IH]; intros f2 ty v H1 H2; [lia|].
  destruct f2 as [|f2]; [lia|].
  destruct v as [| | | | |fs u]; try reflexivity.
  rewrite !all_msgs_S. f_equal.
  apply forallb_ext_in. intros fd _.
  pose proof (vdepth_lookup (fnum fd) fs u) as Hd.
  set (x := lookup_field (fnum fd) fs) in *.
  assert (Hsub : forall k y, (vdepth y < vdepth (GMsg fs u))%nat ->
             sub_of (all_msgs sc P f1) k y = sub_of (all_msgs sc P f2) k y).
  { intros k y Hy. unfold sub_of. destruct k; try reflexivity. apply IH; lia. }
  unfold field_sub. destruct (fcard_ fd), x as [| | |l|kvs|]; try reflexivity; try (apply Hsub; exact Hd).
  all: try (apply forallb_ext_in; intros y Hy; apply Hsub;
            pose proof (vdepth_list_in y l Hy); lia).
  all: apply forallb_ext_in; intros [k y] Hy; apply Hsub; pose proof (vdepth_map_in k y kvs Hy); lia.
Qed.

(* ---------- state lemmas ---------- *)
Lemma lookup_filter_key (P : N -> bool) n fs :
  lookup_field n (filter (fun '(k, _) => P k) fs) = if P n then lookup_field n fs else GAbsent.
Proof.
  induction fs as [|[k x] r IH]; cbn [filter lookup_field]; [destruct (P n); reflexivity|].
  destruct (P k) eqn:Ek; cbn [lookup_field]; destruct (N.eqb_spec k n) as [He|Hne].
  - subst k. rewrite Ek. reflexivity.
  - exact IH.
  - subst k. rewrite Ek in IH |- *. exact IH.
  - exact IH.
Qed.

Lemma lookup_clear_group md g keep n fs :
  lookup_field n (clear_group md g keep fs) = lookup_field n fs \/
  lookup_field n (clear_group md g keep fs) = GAbsent.
Proof.
  unfold clear_group.
  rewrite (lookup_filter_key (fun k => match find_field md k with
                                      | Some f => negb (in_group g f) || (k =? keep) | None => true end)).
  destruct (match find_field md n with Some f => _ | None => true end); [left|right]; reflexivity.
Qed.

Lemma keys_clear_group md g keep fs k : In k (map fst (clear_group md g keep fs)) -> In k (map fst fs).
Proof.
  unfold clear_group. intros H. apply in_map_iff in H. destruct H as ([k' x] & He & Hin).
  apply filter_In in Hin. destruct Hin as [Hin _]. apply in_map_iff. exists (k', x). split; assumption.
Qed.

Lemma keys_set_field n v fs k : In k (map fst (set_field n v fs)) <-> k = n \/ In k (map fst fs).
Proof.
  induction fs as [|[k0 x] r IH]; cbn [set_field map fst In].
  - split; intros [H|H]; auto; try contradiction.
  - destruct (N.eqb_spec k0 n) as [He|Hne]; cbn [map fst In].
    + subst k0. split; intros H; [right; exact H|]. destruct H as [H|H]; [left; symmetry; exact H|exact H].
    + rewrite IH. split; intros H.
      * destruct H as [H|[H|H]]; [right; left; exact H|left; exact H|right; right; exact H].
      * destruct H as [H|[H|H]]; [right; left; exact H|left; exact H|right; right; exact H].
Qed.

(* ---------- required fields: deep = top level when the nested messages are complete ---------- *)
Definition req_top (md : mdesc) (fs : list (N * gval)) : bool :=
  forallb (fun fd => match fcard_ fd with
                     | CRequired => negb (match lookup_field (fnum fd) fs with GAbsent => true | _ => false end)
                     | _ => true end) (mfields md).

(* every message stored in field fd's value has all its required fields, at every depth *)
Definition val_init (sc : schema) (k : fkind) (x : gval) : Prop :=
  match k with FMsg t => requireds_set sc (S (vdepth x)) t x = true | _ => True end.
Definition field_init (sc : schema) (fd : fdesc) (x : gval) : Prop :=
  forall f, (vdepth x < f)%nat -> field_sub (sub_of (requireds_set sc f)) fd x = true.
Definition state_init (sc : schema) (md : mdesc) (fs : list (N * gval)) : Prop :=
  forall fd, In fd (mfields md) -> field_init sc fd (lookup_field (fnum fd) fs).

Lemma requireds_S sc f ty fs u :
  requireds_set sc (S f) ty (GMsg fs u) =
  req_top (nth ty sc empty_md) fs &&
  forallb (fun fd => field_sub (sub_of (requireds_set sc f)) fd (lookup_field (fnum fd) fs))
          (mfields (nth ty sc empty_md)).
Proof. reflexivity. Qed.

Lemma requireds_top sc ty fs u : state_init sc (nth ty sc empty_md) fs ->
  requireds_set sc (S (vdepth (GMsg fs u))) ty (GMsg fs u) = req_top (nth ty sc empty_md) fs.
Proof.
  intros Hi. rewrite requireds_S.
  match goal with |- _ && ?b = _ => assert (Hb : b = true) end.
  { apply forallb_forall. intros fd Hfd. apply (Hi fd Hfd). apply vdepth_lookup. }
  rewrite Hb. apply andb_true_r.
Qed.

Lemma requireds_fuel sc f ty v : (vdepth v < f)%nat ->
  requireds_set sc f ty v = requireds_set sc (S (vdepth v)) ty v.
Proof. intros H. apply all_msgs_fuel; [exact H|lia]. Qed.

Lemma field_init_absent sc fd : field_init sc fd GAbsent.
Proof. intros f _. unfold field_sub. destruct (fcard_ fd); reflexivity. Qed.

Lemma state_init_nil sc md : state_init sc md [].
Proof. intros fd _. apply field_init_absent. Qed.

Lemma sub_of_init sc k x f : val_init sc k x -> (vdepth x < f)%nat -> sub_of (requireds_set sc f) k x = true.
Proof.
  unfold val_init, sub_of. destruct k; try reflexivity. intros H Hf. rewrite requireds_fuel by exact Hf. exact H.
Qed.

(* a single value (singular field or oneof member) *)
Lemma field_init_single sc fd x : single_card (fcard_ fd) = true -> val_init sc (fkind_ fd) x -> field_init sc fd x.
Proof.
  intros Hc Hv f Hf. unfold field_sub.
  destruct (fcard_ fd); try discriminate Hc; destruct x; try reflexivity; apply sub_of_init; assumption.
Qed.

Lemma field_init_list sc fd l : (fcard_ fd = CPacked \/ fcard_ fd = CUnpacked) ->
  Forall (val_init sc (fkind_ fd)) l -> field_init sc fd (GList l).
Proof.
  intros Hc Hl f Hf. unfold field_sub.
  assert (H : forallb (sub_of (requireds_set sc f) (fkind_ fd)) l = true).
  { apply forallb_forall. intros y Hy. rewrite Forall_forall in Hl. apply sub_of_init; [apply Hl; exact Hy|].
    pose proof (vdepth_list_in y l Hy). lia. }
  destruct Hc as [Hc|Hc]; rewrite Hc; exact H.
Qed.

Lemma field_init_map sc fd kk vk kvs : fcard_ fd = CMap kk vk ->
  Forall (fun kv => val_init sc vk (snd kv)) kvs -> field_init sc fd (GMap kvs).
Proof.
  intros Hc Hl f Hf. unfold field_sub. rewrite Hc.
  apply forallb_forall. intros [k y] Hy. rewrite Forall_forall in Hl. apply sub_of_init; [apply (Hl _ Hy)|].
  pose proof (vdepth_map_in k y kvs Hy). lia.
Qed.

Lemma field_init_list_inv sc fd l : (fcard_ fd = CPacked \/ fcard_ fd = CUnpacked) ->
  field_init sc fd (GList l) -> Forall (val_init sc (fkind_ fd)) l.
Proof.
  intros Hc Hi. specialize (Hi (S (vdepth (GList l))) ltac:(lia)). unfold field_sub in Hi.
  assert (H : forallb (sub_of (requireds_set sc (S (vdepth (GList l)))) (fkind_ fd)) l = true)
    by (destruct Hc as [Hc|Hc]; rewrite Hc in Hi; exact Hi).
  rewrite forallb_forall in H. apply Forall_forall. intros y Hy. specialize (H y Hy).
  unfold val_init, sub_of in *. destruct (fkind_ fd); try exact I.
  rewrite <- (requireds_fuel sc (S (vdepth (GList l)))); [exact H|]. pose proof (vdepth_list_in y l Hy). lia.
Qed.

Lemma field_init_map_inv sc fd kk vk kvs : fcard_ fd = CMap kk vk ->
  field_init sc fd (GMap kvs) -> Forall (fun kv => val_init sc vk (snd kv)) kvs.
Proof.
  intros Hc Hi. specialize (Hi (S (vdepth (GMap kvs))) ltac:(lia)). unfold field_sub in Hi. rewrite Hc in Hi.
  rewrite forallb_forall in Hi. apply Forall_forall. intros [k y] Hy. specialize (Hi _ Hy). cbv beta iota in Hi.
  cbn [snd]. unfold val_init, sub_of in *. destruct vk; try exact I.
  rewrite <- (requireds_fuel sc (S (vdepth (GMap kvs)))); [exact Hi|]. pose proof (vdepth_map_in k y kvs Hy). lia.
Qed.

(* updating the state *)
Lemma state_init_set sc md n v fs :
  (forall fd, In fd (mfields md) -> fnum fd = n -> field_init sc fd v) ->
  state_init sc md fs -> state_init sc md (set_field n v fs).
Proof.
  intros Hv Hs fd Hfd. destruct (N.eq_dec (fnum fd) n) as [He|Hne].
  - rewrite He, lookup_set_same. apply Hv; assumption.
  - rewrite lookup_set_other by exact Hne. apply Hs. exact Hfd.
Qed.

Lemma state_init_clear sc md g keep fs : state_init sc md fs -> state_init sc md (clear_group md g keep fs).
Proof.
  intros Hs fd Hfd. destruct (lookup_clear_group md g keep (fnum fd) fs) as [H|H]; rewrite H.
  - apply Hs. exact Hfd.
  - apply field_init_absent.
Qed.

Lemma map_set_forall (P : gval * gval -> Prop) k v kvs :
  (forall k0, P (k0, v)) -> Forall P kvs -> Forall P (map_set k v kvs).
Proof.
  intros Hv H. induction H as [|[k0 v0] r H0 Hr IH]; cbn [map_set]; [constructor; [apply Hv|constructor]|].
  destruct (gval_eqb_key k0 k); constructor; auto.
Qed.
