(* Vocabulary of the generated-code theorems (C04 C05 C07 C17): well-formed schemas, message values that
   fit a schema, required-field completeness.  Everything is a computable boolean, so that the
   non-vacuity examples are checked by evaluation.  Definitions only. *)
From CsProto Require Import Prelude Varint ZigZag Codec RefWire WireStmts Schema GenMarshal RefMsg.
Local Open Scope N_scope.

(* ---------- schemas ---------- *)
Definition key_kind_ok (k : fkind) : bool :=
  match k with
  | FNum KFloat | FNum KDouble => false
  | FNum _ | FString => true
  | _ => false
  end.
Definition kind_ok (sc : schema) (k : fkind) : bool :=
  match k with FMsg ty => (ty <? length sc)%nat | _ => true end.
Definition field_ok (sc : schema) (md : mdesc) (f : fdesc) : bool :=
  (1 <=? fnum f) && (fnum f <=? max_tag) &&
  match fcard_ f with
  | CPacked => match is_num_kind (fkind_ f) with Some _ => true | None => false end
  | CMap kk vk => key_kind_ok kk && kind_ok sc vk
  | CImplicit => negb (mproto2 md) && kind_ok sc (fkind_ f)
  | CRequired => mproto2 md && kind_ok sc (fkind_ f)
  | _ => kind_ok sc (fkind_ f)
  end.
Fixpoint nodupb (l : list N) : bool :=
  match l with [] => true | x :: r => negb (existsb (N.eqb x) r) && nodupb r end.
Definition mdesc_ok (sc : schema) (md : mdesc) : bool :=
  forallb (field_ok sc md) (mfields md) && nodupb (map fnum (mfields md)).
Definition schema_ok (sc : schema) : bool := forallb (mdesc_ok sc) sc.

(* ---------- values ---------- *)
Definition num_ok (k : fkind) (z : Z) : bool :=
  match k with
  | FNum s => in_dom s z
  | FEnum => in_dom KInt32 z
  | _ => false
  end.
Fixpoint keys_distinct (l : list gval) : bool :=
  match l with [] => true | x :: r => negb (existsb (gval_eqb_key x) r) && keys_distinct r end.

Section Values.
Variable sc : schema.
Variable msg_ok : nat -> gval -> bool.        (* open recursion *)

Definition elem_ok (k : fkind) (v : gval) : bool :=
  match k, v with
  | FMsg ty, GMsg _ _ => msg_ok ty v
  | (FString | FBytes), GBytes b => forallb (fun x => x <? 256) b
  | (FNum _ | FEnum), GNum z => num_ok k z
  | _, _ => false
  end.
Definition field_value_ok (f : fdesc) (v : gval) : bool :=
  match fcard_ f, v with
  | _, GAbsent => true
  | (CPacked | CUnpacked), GList l => forallb (elem_ok (fkind_ f)) l
  | (CPacked | CUnpacked), _ => false
  | CMap kk vk, GMap kvs =>
      forallb (fun '(k, x) => elem_ok kk k && elem_ok vk x) kvs && keys_distinct (map fst kvs)
  | CMap _ _, _ => false
  | _, _ => elem_ok (fkind_ f) v
  end.
(* at most one member of each oneof group is set *)
Definition groups_ok (md : mdesc) (fs : list (N * gval)) : bool :=
  forallb (fun g =>
    (length (filter (fun f => in_group g f && negb (match lookup_field (fnum f) fs with GAbsent => true | _ => false end))
                    (mfields md)) <=? 1)%nat) (oneof_groups md).
Definition msg_value_ok (md : mdesc) (fs : list (N * gval)) : bool :=
  nodupb (map fst fs) &&
  forallb (fun '(n, x) => match find_field md n with Some f => field_value_ok f x | None => false end) fs &&
  groups_ok md fs.
End Values.

Fixpoint value_ok (sc : schema) (fuel : nat) (ty : nat) (v : gval) : bool :=
  match fuel, v with
  | S f, GMsg fs u => msg_value_ok (value_ok sc f) (nth ty sc empty_md) fs && forallb (fun x => x <? 256) u
  | _, _ => false
  end.

(* the unknown bytes a message carries are a sequence of well-formed fields whose numbers the message's
   schema does not declare (that is what Unmarshal stores there) -- at every level *)
Definition unknown_ok_at (md : mdesc) (u : list byte) : bool :=
  match ref_parse_all (S (length u)) u with
  | Some flds => forallb (fun '(f, _) => match find_field md (rnum f) with None => (1 <=? rnum f) && (rnum f <=? max_tag) | Some _ => false end) flds
  | None => false
  end.
(* [P] holds of every message reachable in v (through set message fields, list elements, map values,
   oneof members), together with its descriptor *)
Section Reach.
Variable sc : schema.
Variable P : mdesc -> list (N * gval) -> list byte -> bool.
Fixpoint all_msgs (fuel : nat) (ty : nat) (v : gval) : bool :=
  match fuel, v with
  | S f, GMsg fs u =>
      let md := nth ty sc empty_md in
      let sub (k : fkind) (x : gval) : bool := match k with FMsg t => all_msgs f t x | _ => true end in
      P md fs u &&
      forallb (fun fd =>
        let x := lookup_field (fnum fd) fs in
        match fcard_ fd, x with
        | _, GAbsent => true
        | (CPacked | CUnpacked), GList l => forallb (sub (fkind_ fd)) l
        | CMap _ vk, GMap kvs => forallb (fun '(_, y) => sub vk y) kvs
        | _, _ => sub (fkind_ fd) x
        end) (mfields md)
  | _, _ => true
  end.
End Reach.

Definition unknowns_ok (sc : schema) := all_msgs sc (fun md _ u => unknown_ok_at md u).
(* every required field of every reachable message is set *)
Definition requireds_set (sc : schema) :=
  all_msgs sc (fun md fs _ =>
    forallb (fun fd => match fcard_ fd with
                       | CRequired => negb (match lookup_field (fnum fd) fs with GAbsent => true | _ => false end)
                       | _ => true end) (mfields md)).
(* no proto3 implicit float/double field holds -0.0 (known finding G6: the generated `!= 0` test drops it) *)
Definition neg_zero_free (sc : schema) :=
  all_msgs sc (fun md fs _ =>
    forallb (fun fd => match fcard_ fd, fkind_ fd, lookup_field (fnum fd) fs with
                       | CImplicit, FNum KFloat, GNum z => negb (z =? 2147483648)%Z
                       | CImplicit, FNum KDouble, GNum z => negb (z =? 9223372036854775808)%Z
                       | _, _, _ => true end) (mfields md)).
